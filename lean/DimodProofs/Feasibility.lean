import DimodModel.Feasibility
import Mathlib.Tactic.Ring
import Mathlib.Tactic.Linarith
import Mathlib.Algebra.Order.Field.Rat
import Mathlib.Algebra.BigOperators.Group.List.Basic

/-! Helper lemmas for property C08 (`Properties/C08.lean`). -/

namespace Feas

theorem all_zip_map {α β} (l : List α) (f : α → β) (g : α × β → Bool) :
    (l.zip (l.map f)).all g = l.all (fun x => g (x, f x)) := by
  induction l with
  | nil => rfl
  | cons a t ih => simp [List.all_cons, ih]

/-- the vectorised code's violation vector is the definition's violation -/
theorem vecViol_eq (c : CEval) (r : Nat) : vecViol c r = violation c r := by
  unfold vecViol violation activity
  cases c.sense <;> simp only []
  ring

theorem vecCol_eq (atol rtol : Rat) (c : CEval) (r : Nat) : vecCol atol rtol c r = satisfied atol rtol c r := by
  unfold vecCol satisfied tol
  rw [vecViol_eq]

theorem datum_violation (c : CEval) (r : Nat) : (datum c r).violation = violation c r := by
  unfold datum violation activity
  cases c.sense <;> rfl

theorem datum_activity (c : CEval) (r : Nat) : (datum c r).activity = activity c r := rfl


/-! ### the loop of `from_samples_cqm` -/

/-- invariant after the constraints `pre` have been processed -/
structure VInv (n : Nat) (atol rtol : Rat) (obj : Nat → Rat) (pre : List CEval) (acc : VAcc) : Prop where
  cols : acc.cols = pre.map (vecCol atol rtol)
  en : ∀ r, r < n → acc.energies r = obj r + (pre.map (penaltyTerm atol rtol · r)).sum
  softSub : ∀ l, l ∈ acc.soft → ∃ c ∈ pre, c.label = l ∧ c.weight.isSome = true
  skipped : ∀ c ∈ pre, c.weight.isSome = true → c.label ∉ acc.soft → ∀ r, r < n → vecCol atol rtol c r = true

theorem col_of_allSat {n total : Nat} {garbage : Nat → Nat → Bool} {cols : List (Nat → Bool)} {col : Nat → Bool}
    (h : allSat n total garbage (cols ++ [col]) = true) : ∀ r, r < n → col r = true := by
  intro r hr
  unfold allSat at h
  rw [Bool.and_eq_true] at h
  have h1 := h.1
  rw [List.all_append, Bool.and_eq_true] at h1
  have h2 : colAll n col = true := by simpa using h1.2
  unfold colAll at h2
  rw [List.all_eq_true] at h2
  exact h2 r (List.mem_range.mpr hr)

theorem penaltyTerm_of_hard {atol rtol : Rat} {c : CEval} (h : c.weight = none) (r : Nat) :
    penaltyTerm atol rtol c r = 0 := by
  unfold penaltyTerm; rw [h]

theorem penaltyTerm_of_sat {atol rtol : Rat} {c : CEval} {r : Nat} (h : satisfied atol rtol c r = true) :
    penaltyTerm atol rtol c r = 0 := by
  unfold penaltyTerm
  cases c.weight with
  | none => rfl
  | some w => simp [h]

theorem addPenalty_eq {atol rtol : Rat} {c : CEval} {w : Rat} (hw : c.weight = some w) (en : Nat → Rat) (r : Nat) :
    addPenalty atol rtol c w en r = en r + penaltyTerm atol rtol c r := by
  unfold addPenalty penaltyTerm
  rw [hw, vecCol_eq, vecViol_eq]
  by_cases hs : satisfied atol rtol c r = true
  · simp [hs]
  · have hs' : satisfied atol rtol c r = false := by simpa using hs
    by_cases hq : c.quad = true
    · simp [hs', hq]
    · have hq' : c.quad = false := by simpa using hq
      simp [hs', hq']

theorem vinv_step {n total : Nat} {atol rtol : Rat} {garbage : Nat → Nat → Bool} {obj : Nat → Rat}
    {pre : List CEval} {acc : VAcc} (c : CEval) (h : VInv n atol rtol obj pre acc) :
    VInv n atol rtol obj (pre ++ [c]) (vecStep n total atol rtol garbage acc c) := by
  unfold vecStep
  cases hw : c.weight with
  | none =>
    refine ⟨?_, ?_, ?_, ?_⟩
    · simp [h.cols]
    · intro r hr
      simp only [List.map_append, List.map_cons, List.map_nil, List.sum_append, List.sum_cons, List.sum_nil]
      rw [h.en r hr, penaltyTerm_of_hard hw]; ring
    · intro l hl
      obtain ⟨c', hc', h1, h2⟩ := h.softSub l hl
      exact ⟨c', List.mem_append_left _ hc', h1, h2⟩
    · intro c' hc' hs hl r hr
      rcases List.mem_append.mp hc' with hc' | hc'
      · exact h.skipped c' hc' hs hl r hr
      · have : c' = c := by simpa using hc'
        subst this; rw [hw] at hs; simp at hs
  | some w =>
    simp only []
    by_cases ha : allSat n total garbage (acc.cols ++ [vecCol atol rtol c]) = true
    · rw [if_pos ha]
      have hcol := col_of_allSat ha
      refine ⟨?_, ?_, ?_, ?_⟩
      · simp [h.cols]
      · intro r hr
        simp only [List.map_append, List.map_cons, List.map_nil, List.sum_append, List.sum_cons, List.sum_nil]
        rw [h.en r hr, penaltyTerm_of_sat (by rw [← vecCol_eq]; exact hcol r hr)]; ring
      · intro l hl
        obtain ⟨c', hc', h1, h2⟩ := h.softSub l hl
        exact ⟨c', List.mem_append_left _ hc', h1, h2⟩
      · intro c' hc' hs hl r hr
        rcases List.mem_append.mp hc' with hc' | hc'
        · exact h.skipped c' hc' hs hl r hr
        · have : c' = c := by simpa using hc'
          subst this; exact hcol r hr
    · rw [if_neg ha]
      refine ⟨?_, ?_, ?_, ?_⟩
      · simp [h.cols]
      · intro r hr
        simp only [List.map_append, List.map_cons, List.map_nil, List.sum_append, List.sum_cons, List.sum_nil]
        rw [addPenalty_eq hw, h.en r hr]; ring
      · intro l hl
        simp only [] at hl
        by_cases hmem : c.label ∈ acc.soft
        · rw [if_pos hmem] at hl
          obtain ⟨c', hc', h1, h2⟩ := h.softSub l hl
          exact ⟨c', List.mem_append_left _ hc', h1, h2⟩
        · rw [if_neg hmem] at hl
          rcases List.mem_cons.mp hl with rfl | hl
          · exact ⟨c, by simp, rfl, by rw [hw]; rfl⟩
          · obtain ⟨c', hc', h1, h2⟩ := h.softSub l hl
            exact ⟨c', List.mem_append_left _ hc', h1, h2⟩
      · intro c' hc' hs hl r hr
        simp only [] at hl
        rcases List.mem_append.mp hc' with hc' | hc'
        · refine h.skipped c' hc' hs ?_ r hr
          intro hin; apply hl
          by_cases hmem : c.label ∈ acc.soft
          · rw [if_pos hmem]; exact hin
          · rw [if_neg hmem]; exact List.mem_cons_of_mem _ hin
        · have : c' = c := by simpa using hc'
          subst this
          exfalso; apply hl
          by_cases hmem : c'.label ∈ acc.soft
          · rw [if_pos hmem]; exact hmem
          · rw [if_neg hmem]; exact List.mem_cons_self

theorem vinv_foldl {n total : Nat} {atol rtol : Rat} {garbage : Nat → Nat → Bool} {obj : Nat → Rat}
    (rest : List CEval) : ∀ (pre : List CEval) (acc : VAcc), VInv n atol rtol obj pre acc →
      VInv n atol rtol obj (pre ++ rest) (rest.foldl (vecStep n total atol rtol garbage) acc) := by
  induction rest with
  | nil => intro pre acc h; simpa using h
  | cons c t ih =>
    intro pre acc h
    have := ih (pre ++ [c]) _ (vinv_step (total := total) (garbage := garbage) c h)
    simpa using this

theorem vinv_init (n : Nat) (atol rtol : Rat) (obj : Nat → Rat) :
    VInv n atol rtol obj [] { energies := obj, cols := [], soft := [] } :=
  ⟨rfl, by intro r _; simp, by intro l hl; simp at hl, by intro c hc; simp at hc⟩

theorem vinv_loop (n : Nat) (atol rtol : Rat) (garbage : Nat → Nat → Bool) (obj : Nat → Rat) (cs : List CEval) :
    VInv n atol rtol obj cs (vecLoop n atol rtol garbage obj cs) := by
  have := vinv_foldl (total := cs.length) (garbage := garbage) cs [] _ (vinv_init n atol rtol obj)
  simpa [vecLoop] using this


/-! ### results of `from_samples_cqm` against the definition -/

theorem vec_isSatisfied (n : Nat) (atol rtol : Rat) (garbage : Nat → Nat → Bool) (obj : Nat → Rat) (cs : List CEval) :
    (fromSamplesCqm n atol rtol garbage obj cs).isSatisfied = cs.map (fun c r => satisfied atol rtol c r) := by
  unfold fromSamplesCqm
  simp only []
  rw [(vinv_loop n atol rtol garbage obj cs).cols]
  apply List.map_congr_left
  intro c _
  funext r
  exact vecCol_eq atol rtol c r

theorem vec_energy (n : Nat) (atol rtol : Rat) (garbage : Nat → Nat → Bool) (obj : Nat → Rat) (cs : List CEval)
    (r : Nat) (hr : r < n) :
    (fromSamplesCqm n atol rtol garbage obj cs).energies r = energy atol rtol obj cs r := by
  unfold fromSamplesCqm energy
  exact (vinv_loop n atol rtol garbage obj cs).en r hr

theorem all_filter_zip_map {α β} (l : List α) (f : α → β) (p : α → Bool) (q : β → Bool) :
    (((l.zip (l.map f)).filter (fun x => p x.1)).map (·.2)).all q = l.all (fun x => !p x || q (f x)) := by
  induction l with
  | nil => rfl
  | cons a t ih =>
    simp only [List.map_cons, List.zip_cons_cons, List.filter_cons]
    by_cases hp : p a = true
    · simp [hp, ih]
    · have : p a = false := by simpa using hp
      simp [this, ih]

theorem eq_of_nodup_map {α β} (f : α → β) : ∀ (l : List α), (l.map f).Nodup → ∀ x ∈ l, ∀ y ∈ l, f x = f y → x = y := by
  intro l
  induction l with
  | nil => intro _ x hx; simp at hx
  | cons a t ih =>
    intro hnd x hx y hy hxy
    rw [List.map_cons, List.nodup_cons] at hnd
    rcases List.mem_cons.mp hx with h1 | h1 <;> rcases List.mem_cons.mp hy with h2 | h2
    · rw [h1, h2]
    · exfalso; apply hnd.1; rw [← h1, hxy]; exact List.mem_map_of_mem h2
    · exfalso; apply hnd.1; rw [← h2, ← hxy]; exact List.mem_map_of_mem h1
    · exact ih hnd.2 x h1 y h2 hxy

theorem vec_isFeasible (n : Nat) (atol rtol : Rat) (garbage : Nat → Nat → Bool) (obj : Nat → Rat) (cs : List CEval)
    (hnd : (cs.map (·.label)).Nodup) (r : Nat) (hr : r < n) :
    (fromSamplesCqm n atol rtol garbage obj cs).isFeasible r = feasible atol rtol cs r := by
  have inv := vinv_loop n atol rtol garbage obj cs
  -- a hard constraint's label is never in `soft`
  have hardNotSoft : ∀ c ∈ cs, c.weight.isSome = false → c.label ∉ (vecLoop n atol rtol garbage obj cs).soft := by
    intro c hc hw hin
    obtain ⟨c', hc', hl, hs⟩ := inv.softSub _ hin
    have : c' = c := by
      exact eq_of_nodup_map (·.label) cs hnd c' hc' c hc hl
    subst this
    rw [hw] at hs; exact Bool.noConfusion hs
  unfold fromSamplesCqm feasible
  simp only []
  rw [Bool.eq_iff_iff, List.all_eq_true, List.all_eq_true]
  unfold hardCols
  by_cases hempty : (vecLoop n atol rtol garbage obj cs).soft.isEmpty = true
  · rw [if_pos hempty, inv.cols]
    have hnil : (vecLoop n atol rtol garbage obj cs).soft = [] := List.isEmpty_iff.mp hempty
    constructor
    · intro h c hc
      have := h (vecCol atol rtol c) (List.mem_map.mpr ⟨c, hc, rfl⟩)
      rw [Bool.or_eq_true]; right; rw [← vecCol_eq]; exact this
    · intro h col hcol
      obtain ⟨c, hc, rfl⟩ := List.mem_map.mp hcol
      have := h c hc
      rw [Bool.or_eq_true] at this
      rcases this with hs | hsat
      · exact inv.skipped c hc hs (by rw [hnil]; simp) r hr
      · rw [vecCol_eq]; exact hsat
  · rw [if_neg hempty, inv.cols]
    have key := all_filter_zip_map cs (vecCol atol rtol)
      (fun c => !(decide (c.label ∈ (vecLoop n atol rtol garbage obj cs).soft))) (fun col => col r)
    rw [← List.all_eq_true, key, List.all_eq_true]
    constructor
    · intro h c hc
      have := h c hc
      rw [Bool.or_eq_true]
      by_cases hw : c.weight.isSome = true
      · left; exact hw
      · right
        have hw' : c.weight.isSome = false := by simpa using hw
        have hns := hardNotSoft c hc hw'
        rw [← vecCol_eq]
        simpa [hns] using this
    · intro h c hc
      have := h c hc
      rw [Bool.or_eq_true] at this
      by_cases hin : c.label ∈ (vecLoop n atol rtol garbage obj cs).soft
      · simp [hin]
      · simp only [hin, decide_false, Bool.not_false, Bool.not_true, Bool.false_or]
        rcases this with hs | hsat
        · exact inv.skipped c hc hs hin r hr
        · rw [vecCol_eq]; exact hsat

/-! ### per-sample path against the definition -/

theorem checkFeasible_eq (atol rtol : Rat) (cs : List CEval) (r : Nat) :
    checkFeasible atol rtol cs r = feasible atol rtol cs r := by
  unfold checkFeasible checkFeasibleWith feasible iterConstraintData
  rw [all_zip_map]
  apply List.all_congr rfl
  intro c
  simp only [Bool.true_and]
  unfold satisfied tol
  rw [datum_violation]
  rfl

theorem iterViolations_plain (cs : List CEval) (r : Nat) :
    iterViolations false false cs r = cs.map (fun c => (c.label, violation c r)) := by
  unfold iterViolations iterConstraintData
  simp only [Bool.false_eq_true, if_false, List.map_map]
  apply List.map_congr_left
  intro c _
  simp only [Function.comp, datum_violation]
  rfl

theorem iterViolations_skip (clip : Bool) (cs : List CEval) (r : Nat) :
    iterViolations true clip cs r = (cs.filter (fun c => decide (violation c r > 0))).map (fun c => (c.label, violation c r)) := by
  unfold iterViolations iterConstraintData
  simp only [if_true, List.filter_map, List.map_map]
  have : ((fun d : CData => decide (d.violation > 0)) ∘ fun x => datum x r) = fun c => decide (violation c r > 0) := by
    funext c; simp only [Function.comp, datum_violation]
  rw [this]
  apply List.map_congr_left
  intro c _
  simp only [Function.comp, datum_violation]
  rfl

theorem iterViolations_clip (cs : List CEval) (r : Nat) :
    iterViolations false true cs r = cs.map (fun c => (c.label, maxR (violation c r) 0)) := by
  unfold iterViolations iterConstraintData
  simp only [Bool.false_eq_true, if_false, if_true, List.map_map]
  apply List.map_congr_left
  intro c _
  simp only [Function.comp, datum_violation]
  rfl

/-! ### expressions without variables -/

theorem exprEnergy_eq_polyValue (e : Expr) (row : Nat → Rat) (hlen : e.qb.lin.length = e.vars.length) :
    exprEnergy e row = polyValue e row := by
  unfold exprEnergy exprEnergyWith
  by_cases h0 : e.vars.length = 0
  · rw [if_pos h0]
    unfold polyValue qbEnergy
    rw [hlen, h0]
    simp
  · rw [if_neg h0]


/-! ### the `labels=` argument -/

theorem selectGo_known (cs : List CEval) : ∀ (ls : List Label), (∀ l ∈ ls, ∃ c ∈ cs, c.label = l) →
    (selectGo cs ls).2 = false ∧ (selectGo cs ls).1.map (·.label) = ls ∧ ∀ c ∈ (selectGo cs ls).1, c ∈ cs := by
  intro ls
  induction ls with
  | nil => intro _; exact ⟨rfl, rfl, by intro c hc; cases hc⟩
  | cons l t ih =>
    intro h
    obtain ⟨i1, i2, i3⟩ := ih (fun l' hl' => h l' (List.mem_cons_of_mem _ hl'))
    obtain ⟨c0, hc0, hl0⟩ := h l List.mem_cons_self
    unfold selectGo
    cases hf : cs.find? (fun c => c.label = l) with
    | none =>
      have := List.find?_eq_none.mp hf c0 hc0
      simp [hl0] at this
    | some c =>
      simp only []
      have hcl : c.label = l := by have := List.find?_some hf; simpa using this
      refine ⟨i1, by rw [List.map_cons, i2, hcl], ?_⟩
      intro c' hc'
      rcases List.mem_cons.mp hc' with rfl | h'
      · exact List.mem_of_find?_eq_some hf
      · exact i3 c' h'

theorem selectGo_unknown (cs : List CEval) : ∀ (ls : List Label), (∃ l ∈ ls, ∀ c ∈ cs, c.label ≠ l) → (selectGo cs ls).2 = true := by
  intro ls
  induction ls with
  | nil => intro ⟨l, hl, _⟩; cases hl
  | cons l t ih =>
    intro ⟨l', hl', hn⟩
    unfold selectGo
    cases hf : cs.find? (fun c => c.label = l) with
    | none => rfl
    | some c =>
      simp only []
      rcases List.mem_cons.mp hl' with rfl | h'
      · have hcl : c.label = l' := by have := List.find?_some hf; simpa using this
        exact absurd hcl (hn c (List.mem_of_find?_eq_some hf))
      · exact ih ⟨l', h', hn⟩

/-- with distinct constraint labels, the constraint found for a label is *the* constraint with that label -/
theorem selectGo_unique (cs : List CEval) (hnd : (cs.map (·.label)).Nodup) (ls : List Label) (c : CEval)
    (hc : c ∈ (selectGo cs ls).1) (c' : CEval) (hc' : c' ∈ cs) (h : c'.label = c.label) : c' = c := by
  have hmem : c ∈ cs := by
    induction ls with
    | nil => cases hc
    | cons l t ih =>
      unfold selectGo at hc
      cases hf : cs.find? (fun c => c.label = l) with
      | none => rw [hf] at hc; cases hc
      | some c0 =>
        rw [hf] at hc
        simp only [] at hc
        rcases List.mem_cons.mp hc with rfl | h'
        · exact List.mem_of_find?_eq_some hf
        · exact ih h'
  exact eq_of_nodup_map (·.label) cs hnd c' hc' c hmem h

end Feas
