import DimodProofs.BqmRelabel
import DimodProofs.BqmErr

/-! Loops over a neighbourhood: the neighbours of `v` in the polynomial, in variable order, are the stored
    neighbourhood; a loop of label-level calls over the stored neighbourhood refines the same loop of algebraic
    steps over the polynomial's neighbours.  Core Lean only. -/

namespace Bqm

/-- neighbours of `v` with their biases, in variable order -/
def LPoly.nbrs (p : LPoly) (v : Label) : List (Label × Rat) :=
  p.vars.filterMap fun w => (p.quad v w).map fun c => (w, c)

theorem filterMap_none {α β} (l : List α) (f : α → Option β) (h : ∀ x ∈ l, f x = none) : l.filterMap f = [] := by
  induction l with
  | nil => rfl
  | cons a t ih =>
    simp only [List.filterMap_cons, h a (by simp)]
    exact ih (fun x hx => h x (List.mem_cons_of_mem _ hx))

theorem filterMap_congr' {α β} (l : List α) (f g : α → Option β) (h : ∀ x ∈ l, f x = g x) : l.filterMap f = l.filterMap g := by
  induction l with
  | nil => rfl
  | cons a t ih =>
    simp only [List.filterMap_cons, h a (by simp)]
    rw [ih (fun x hx => h x (List.mem_cons_of_mem _ hx))]

/-- a strictly sorted neighbourhood with keys in `[a, a + k)` is recovered by scanning the indices -/
theorem sorted_eq_scan (nb : List (Nat × Rat)) (hs : NbSorted nb) (a k : Nat) (hb : ∀ p ∈ nb, a ≤ p.1 ∧ p.1 < a + k) :
    (List.range' a k).filterMap (fun j => (nbhCoef nb j).map fun c => (j, c)) = nb := by
  induction nb generalizing a k with
  | nil => exact filterMap_none _ _ (fun x _ => by simp [nbhCoef])
  | cons p t ih =>
    obtain ⟨w, c⟩ := p
    have ht : NbSorted t := (List.pairwise_cons.mp hs).2
    have hw : ∀ q ∈ t, w < q.1 := (List.pairwise_cons.mp hs).1
    have hwb := hb (w, c) (by simp)
    simp only [] at hwb
    -- split the scan at w
    have e1 : List.range' a k = List.range' a (w - a) ++ (w :: List.range' (w + 1) (a + k - (w + 1))) := by
      have h1 : k = (w - a) + (1 + (a + k - (w + 1))) := by omega
      have h2 : List.range' a k = List.range' a (w - a) ++ List.range' (a + (w - a)) (1 + (a + k - (w + 1))) := by
        rw [List.range'_append_1]; congr 1
      rw [h2]
      have h3 : a + (w - a) = w := by omega
      rw [h3]
      congr 1
      rw [Nat.add_comm 1, List.range'_succ]
    rw [e1, List.filterMap_append, List.filterMap_cons]
    have p1 : (List.range' a (w - a)).filterMap (fun j => (nbhCoef ((w, c) :: t) j).map fun c => (j, c)) = [] := by
      apply filterMap_none
      intro j hj
      have hjw : j < w := by have := (List.mem_range'_1.mp hj).2; omega
      have : nbhCoef ((w, c) :: t) j = none := by
        simp only [nbhCoef]
        rw [if_neg (by omega)]
        exact nbhCoef_none_of_lt t j (fun q hq => by have := hw q hq; omega)
      simp [this]
    have p3 : (List.range' (w + 1) (a + k - (w + 1))).filterMap (fun j => (nbhCoef ((w, c) :: t) j).map fun c => (j, c))
        = (List.range' (w + 1) (a + k - (w + 1))).filterMap (fun j => (nbhCoef t j).map fun c => (j, c)) := by
      apply filterMap_congr'
      intro j hj
      have hjw : w < j := by have := (List.mem_range'_1.mp hj).1; omega
      simp only [nbhCoef]
      rw [if_neg (by omega)]
    have p2 : (nbhCoef ((w, c) :: t) w).map (fun c => (w, c)) = some (w, c) := by simp [nbhCoef]
    rw [p1, p2, p3]
    simp only [List.nil_append]
    congr 1
    apply ih ht
    intro q hq
    have := hw q hq
    have := (hb q (List.mem_cons_of_mem _ hq)).2
    omega

theorem labels_eq_map_range (ls : List Label) : ls = (List.range ls.length).map (fun j => ls.getD j (.int 0)) := by
  apply List.ext_getElem
  · simp
  · intro j h1 h2
    simp [List.getD, List.getElem?_eq_getElem h1]

/-- the polynomial's neighbour list is the stored neighbourhood, labels for indices -/
theorem nbrs_absL {m : Bqm} (i : Inv m) {v : Label} {vi : Nat} (hv : m.indexOf? v = some vi) :
    (absL m).nbrs v = (m.nbhAt vi).map fun p => (m.labels.getD p.1 (.int 0), p.2) := by
  have hsorted := i.wf.adj.sorted vi
  have hb : ∀ p ∈ m.nbhAt vi, 0 ≤ p.1 ∧ p.1 < 0 + m.labels.length := by
    intro p hp
    refine ⟨Nat.zero_le _, ?_⟩
    rw [Nat.zero_add, i.wf.labels_len]
    apply i.wf.adj.bound vi p.1
    show (nbhCoef (m.adj.getD vi []) p.1).isSome
    rw [nbhCoef_isSome_iff]; exact ⟨p, hp, rfl⟩
  have scan := sorted_eq_scan (m.nbhAt vi) hsorted 0 m.labels.length hb
  unfold LPoly.nbrs
  show m.labels.filterMap (fun w => (m.quadL v w).map fun c => (w, c)) = _
  conv => lhs; rw [labels_eq_map_range m.labels]
  rw [List.filterMap_map]
  rw [← scan, List.map_filterMap]
  rw [List.range_eq_range']
  apply filterMap_congr'
  intro j hj
  have hjl : j < m.labels.length := by have := (List.mem_range'_1.mp hj).2; omega
  have hget : m.labels[j]? = some (m.labels.getD j (.int 0)) := by
    simp [List.getD, List.getElem?_eq_getElem hjl]
  have hidx := indexOf?_of_get i.nodup hget
  simp only [Function.comp]
  unfold quadL
  rw [hv, hidx]
  show (coefAt m.adj vi j).map _ = ((nbhCoef (m.nbhAt vi) j).map _).map _
  unfold coefAt Bqm.nbhAt
  cases nbhCoef (m.adj.getD vi []) j <;> rfl

theorem mem_nbrs {p : LPoly} {v w : Label} {c : Rat} (h : (w, c) ∈ p.nbrs v) : p.quad v w = some c := by
  unfold LPoly.nbrs at h
  obtain ⟨x, _, hx⟩ := List.mem_filterMap.mp h
  cases hq : p.quad v x with
  | none => rw [hq] at hx; cases hx
  | some d =>
    rw [hq] at hx
    simp only [Option.map_some, Option.some.injEq, Prod.mk.injEq] at hx
    rw [← hx.1, ← hx.2]; exact hq

/-- a loop of label-level calls (`stepM acc label bias`, the label looked up in the *current* label list) over a
    stored neighbourhood refines the loop of `stepS` over the same items with labels for indices; `Q` is any extra
    invariant of the steps (e.g. the vartype), `good` a property of the labels visited -/
theorem loop_refines (m : Bqm) (items : List (Nat × Rat)) (hb : ∀ p ∈ items, p.1 < m.labels.length)
    (stepM : Bqm → Label → Rat → Bqm) (stepS : LPoly → Label → Rat → LPoly) (Q : Bqm → Prop) (good : Label → Prop)
    (hgood : ∀ p ∈ items, good (m.labels.getD p.1 (.int 0)))
    (href : ∀ acc, Inv acc → Q acc → ∀ l c, good l →
      absL (stepM acc l c) = stepS (absL acc) l c ∧ Inv (stepM acc l c) ∧ LabelsExt acc (stepM acc l c) ∧ Q (stepM acc l c)) :
    ∀ acc, Inv acc → LabelsExt m acc → Q acc →
      absL (items.foldl (loopBody stepM) acc) =
        (items.map fun p => (m.labels.getD p.1 (.int 0), p.2)).foldl (fun q lc => stepS q lc.1 lc.2) (absL acc) ∧
      Inv (items.foldl (loopBody stepM) acc) ∧
      LabelsExt m (items.foldl (loopBody stepM) acc) ∧
      Q (items.foldl (loopBody stepM) acc) := by
  induction items with
  | nil => intro acc ia ea qa; exact ⟨rfl, ia, ea, qa⟩
  | cons p t ih =>
    intro acc ia ea qa
    have hp : p.1 < m.labels.length := hb p (by simp)
    have hget : m.labels[p.1]? = some (m.labels.getD p.1 (.int 0)) := by
      simp [List.getD, List.getElem?_eq_getElem hp]
    have hacc : acc.labels[p.1]? = some (m.labels.getD p.1 (.int 0)) := ea.get hget
    simp only [List.foldl, List.map_cons]
    have hbody : loopBody stepM acc p = stepM acc (m.labels.getD p.1 (.int 0)) p.2 := by
      unfold loopBody; rw [hacc]
    rw [hbody]
    have r := href acc ia qa (m.labels.getD p.1 (.int 0)) p.2 (hgood p (by simp))
    rw [← r.1]
    exact ih (fun q hq => hb q (List.mem_cons_of_mem _ hq)) (fun q hq => hgood q (List.mem_cons_of_mem _ hq)) _ r.2.1
      (ea.trans r.2.2.1) r.2.2.2

end Bqm
