import DimodProofs.BKInv
import DimodProofs.SpinAux

/-! # C15: labels of the coded reduction's output, and exactness of `make_quadratic` for SPIN (core Lean only) -/

namespace Red
open Pen

/-! ## no key of the index holds an empty dict -/

def NonEmptyOK (idx : Idx) : Prop := ∀ e ∈ idx, e.2 ≠ []

theorem setT_ne_nil (t : LTerm) (b : Rat) (m : List (LTerm × Rat)) : setT t b m ≠ [] := by
  cases m with
  | nil => simp [setT]
  | cons e r => simp only [setT]; split <;> simp

theorem nonEmpty_idxSet (idx : Idx) (h : NonEmptyOK idx) (p : Pair) (t : LTerm) (b : Rat) : NonEmptyOK (idxSet idx p t b) := by
  intro e he
  rcases mem_idxSet idx p t b e he with h1 | h1
  · exact h e h1
  · rw [h1]; exact setT_ne_nil t b _

theorem nonEmpty_idxErase (idx : Idx) (h : NonEmptyOK idx) (p : Pair) : NonEmptyOK (idxErase idx p) :=
  fun e he => h e (mem_idxErase idx p e he)

theorem nonEmpty_idxPut (idx : Idx) (h : NonEmptyOK idx) (p : Pair) (m : List (LTerm × Rat)) (hm : m ≠ []) : NonEmptyOK (idxPut idx p m) := by
  intro e he
  rcases mem_idxPut idx p m e he with h1 | h1
  · exact h e h1
  · rw [h1]; exact hm

theorem nonEmpty_removeOld (s : BK) (t : LTerm) (p : Pair) (s' : BK) (h : removeOld s t p = some s') (hne : NonEmptyOK s.idx) : NonEmptyOK s'.idx := by
  unfold removeOld at h
  cases hi : idxGet s.idx p with
  | none => rw [hi] at h; simp at h
  | some m =>
    rw [hi] at h
    simp only at h
    split at h
    · simp only [Option.some.injEq] at h
      subst h
      simp only
      by_cases hemp : (delT t m).isEmpty = true
      · rw [if_pos hemp]; exact nonEmpty_idxErase s.idx hne p
      · rw [if_neg hemp]
        apply nonEmpty_idxPut s.idx hne p
        intro h0; apply hemp; rw [h0]; rfl
    · simp at h

theorem foldlM_pred {σ α : Type} (f : σ → α → Option σ) (P : σ → Prop) (h : ∀ s a s', f s a = some s' → P s → P s') :
    ∀ (l : List α) (s s' : σ), l.foldlM f s = some s' → P s → P s' := by
  intro l
  induction l with
  | nil => intro s s' hs hp; simp only [List.foldlM_nil, pure, Option.some.injEq] at hs; rw [← hs]; exact hp
  | cons a r ih =>
    intro s s' hs hp
    simp only [List.foldlM_cons, bind, Option.bind] at hs
    cases hf : f s a with
    | none => rw [hf] at hs; simp at hs
    | some s1 => rw [hf] at hs; exact ih s1 s' hs (h s a s1 hf hp)

theorem nonEmpty_decRem (t : LTerm) (s : BK) (p : Pair) (s' : BK) (h : decRem t s p = some s') (hne : NonEmptyOK s.idx) : NonEmptyOK s'.idx := by
  unfold decRem at h
  cases hd : decrementCount s p with
  | none => rw [hd] at h; simp at h
  | some s0 =>
    rw [hd] at h
    simp only [Option.bind] at h
    exact nonEmpty_removeOld s0 t p s' h (by rw [decrementCount_idx s p s0 hd]; exact hne)

theorem nonEmpty_setRem (nt : LTerm) (b : Rat) (t : LTerm) (s : BK) (p : Pair) (s' : BK) (h : setRem nt b t s p = some s')
    (hne : NonEmptyOK s.idx) : NonEmptyOK s'.idx := by
  unfold setRem at h
  exact nonEmpty_removeOld _ t p s' h (nonEmpty_idxSet s.idx hne p nt b)

theorem nonEmpty_addNew (nt : LTerm) (b : Rat) (prod : Label) (l : List Label) (acc : BK × List Pair) (hne : NonEmptyOK acc.1.idx) :
    NonEmptyOK (l.foldl (addNew nt b prod) acc).1.idx := by
  induction l generalizing acc with
  | nil => exact hne
  | cons c r ih => simp only [List.foldl_cons]; exact ih _ (nonEmpty_idxSet acc.1.idx hne _ nt b)

theorem nonEmpty_bkTerm (u v prod : Label) (acc : BK × List Pair) (tb : LTerm × Rat) (acc' : BK × List Pair)
    (h : bkTerm u v prod acc tb = some acc') (hne : NonEmptyOK acc.1.idx) : NonEmptyOK acc'.1.idx := by
  unfold bkTerm at h
  simp only at h
  split at h
  · simp at h
  · rename_i s1 h1
    split at h
    · simp at h
    · rename_i s2 h2
      have n1 : NonEmptyOK s1.idx := foldlM_pred (decRem tb.1) (fun s => NonEmptyOK s.idx) (nonEmpty_decRem tb.1) _ _ _ h1 hne
      have n2 : NonEmptyOK s2.idx := foldlM_pred (setRem _ tb.2 tb.1) (fun s => NonEmptyOK s.idx) (nonEmpty_setRem _ tb.2 tb.1) _ _ _ h2 n1
      split at h
      · simp only [Option.some.injEq] at h; subst h
        exact nonEmpty_addNew _ tb.2 prod _ (s2, acc.2) n2
      · simp only [Option.some.injEq] at h; subst h; exact n2

theorem nonEmpty_bkStep (s : BK) (c : Pair) (s' : BK) (h : bkStep s c = some s') (hne : NonEmptyOK s.idx) : NonEmptyOK s'.idx := by
  unfold bkStep at h
  simp only at h
  split at h
  · simp at h
  · split at h
    · simp at h
    · split at h
      · rename_i que terms hq hi
        split at h
        · simp at h
        · rename_i s1 newPairs hfold
          simp only [Option.some.injEq] at h
          subst h
          simp only
          exact foldlM_pred (bkTerm c.1 c.2 _) (fun a => NonEmptyOK a.1.idx) (fun a tb a' => nonEmpty_bkTerm c.1 c.2 _ a tb a') _ _ _ hfold
            (nonEmpty_idxErase s.idx hne c)
      · simp at h

theorem nonEmpty_init (poly : List (LTerm × Rat)) (vars : List Label) : NonEmptyOK (BK.init poly vars).idx := by
  unfold BK.init
  simp only
  have : ∀ (l : List (LTerm × Rat)) (idx : Idx), NonEmptyOK idx →
      NonEmptyOK (l.foldl (fun idx tb => if tb.1.length ≤ 2 then idx else (pairsOf tb.1).foldl (fun idx p => idxSet idx p tb.1 tb.2) idx) idx) := by
    intro l
    induction l with
    | nil => intro idx h; exact h
    | cons tb r ih =>
      intro idx h
      simp only [List.foldl_cons]
      apply ih
      split
      · exact h
      · have : ∀ (ps : List Pair) (i : Idx), NonEmptyOK i → NonEmptyOK (ps.foldl (fun idx p => idxSet idx p tb.1 tb.2) i) := by
          intro ps
          induction ps with
          | nil => intro i hi; exact hi
          | cons p ps ihp => intro i hi; simp only [List.foldl_cons]; exact ihp _ (nonEmpty_idxSet i hi p tb.1 tb.2)
        exact this _ idx h
  exact this poly [] (by intro e he; simp at he)

/-! ## labels of `reduced_terms` and `constraints` -/

structure LabInv (s : BK) (vars0 : List Label) : Prop where
  ne : NonEmptyOK s.idx
  red : LabelsIn s.reduced s.vars
  cons : ∀ c ∈ s.constraints, c.1.1 ∈ s.vars ∧ c.1.2 ∈ s.vars ∧ c.2 ∈ s.vars
  vars : s.vars = vars0 ++ s.constraints.map (·.2)

theorem labInv_step (s : BK) (hl : HiLo Label) (hr : RunInv s hl) (vars0 : List Label) (hlab : LabInv s vars0)
    (c : Pair) (hne : c.1 ≠ c.2) (s' : BK) (h : bkStep s c = some s') : LabInv s' vars0 := by
  obtain ⟨terms, hi, hred, hcons, hvars⟩ := bkStep_spec s c s' h
  have habs : absIdx s.idx c = terms := by unfold absIdx; rw [hi]; rfl
  have hterms : ∀ tb ∈ terms, tb ∈ hl.hi ∧ hasPair c.1 c.2 tb.1 = true := by
    intro tb htb
    have := (hr.inv c.1 c.2 hne tb).1 (by rw [show (c.1, c.2) = c from rfl, habs]; exact htb)
    exact ⟨this.2.1, this.2.2⟩
  have hsub : ∀ w, w ∈ s.vars → w ∈ s'.vars := by intro w hw; rw [hvars]; exact List.mem_append_left _ hw
  refine ⟨nonEmpty_bkStep s c s' h hlab.ne, ?_, ?_, ?_⟩
  · intro tb htb w hw
    rw [hred] at htb
    simp only [List.mem_append, List.mem_filter, List.mem_map] at htb
    rcases htb with htb | ⟨⟨t, ht, rfl⟩, _⟩
    · exact hsub w (hlab.red tb htb w hw)
    · simp only at hw
      rw [mem_substTerm] at hw
      rcases hw with ⟨h1, _⟩ | h1
      · exact hsub w (hr.lab t (hterms t ht).1 w h1)
      · rw [hvars, h1]; simp
  · intro c' hc'
    rw [hcons] at hc'
    simp only [List.mem_append, List.mem_singleton] at hc'
    rcases hc' with hc' | rfl
    · have := hlab.cons c' hc'
      exact ⟨hsub _ this.1, hsub _ this.2.1, hsub _ this.2.2⟩
    · -- the popped entry is not empty: one of its terms contains both members of the pair
      obtain ⟨e, he, he2, _⟩ := idxGet_mem s.idx c terms hi
      have hne' : terms ≠ [] := by rw [← he2]; exact hlab.ne e he
      cases hterms' : terms with
      | nil => exact absurd hterms' hne'
      | cons t r =>
        have ht := hterms t (by rw [hterms']; simp)
        have hp := (hasPair_iff' c.1 c.2 t.1).1 ht.2
        refine ⟨hsub _ (hr.lab t ht.1 _ hp.1), hsub _ (hr.lab t ht.1 _ hp.2), ?_⟩
        rw [hvars]; simp
  · rw [hvars, hcons, hlab.vars]; simp

theorem labInv_fold (choices : List Pair) (s0 : BK) (hl0 : HiLo Label) (h0 : RunInv s0 hl0) (vars0 : List Label) (hlab0 : LabInv s0 vars0)
    (hch : ∀ c ∈ choices, c.1 ≠ c.2) (s : BK) (h : choices.foldlM bkStep s0 = some s) : LabInv s vars0 := by
  induction choices generalizing s0 hl0 with
  | nil => simp only [List.foldlM_nil, pure, Option.some.injEq] at h; subst h; exact hlab0
  | cons c r ih =>
    simp only [List.foldlM_cons, bind, Option.bind] at h
    cases hs : bkStep s0 c with
    | none => rw [hs] at h; simp at h
    | some s1 =>
      rw [hs] at h
      have hne := hch c (by simp)
      obtain ⟨hr1, _, _⟩ := runInv_step s0 hl0 h0 c hne s1 hs
      exact ih s1 _ hr1 (labInv_step s0 hl0 h0 vars0 hlab0 c hne s1 hs) (fun c' hc' => hch c' (by simp [hc'])) h

theorem labInv_init (poly : List (LTerm × Rat)) (vars : List Label) (hvars : ∀ tb ∈ poly, ∀ w ∈ tb.1, w ∈ vars) :
    LabInv (BK.init poly vars) vars :=
  ⟨nonEmpty_init poly vars, fun tb htb w hw => hvars tb (List.mem_filter.1 htb).1 w hw, by intro c hc; simp [BK.init] at hc, by simp [BK.init]⟩

/-! ## `make_quadratic`, SPIN: exact after minimising over the auxiliaries -/

theorem polyEnergy_congr_labels (x y : Label → Rat) (l : List (LTerm × Rat)) (h : ∀ tb ∈ l, ∀ w ∈ tb.1, x w = y w) :
    polyEnergy x l = polyEnergy y l := by
  induction l with
  | nil => rfl
  | cons tb r ih =>
    simp only [polyEnergy]
    rw [termVal_congr x y tb.1 (h tb (by simp)), ih (fun tb' h' => h tb' (by simp [h']))]

/-- **`make_quadratic` is exact on consistent assignments after minimising over the spin auxiliaries**:
    whenever it succeeds (oracle pairs with two different members), for every ±1 assignment in which each
    product variable equals its product there is an assignment differing only on the auxiliaries the code
    created at which the BQM has exactly the polynomial's energy; and at *every* ±1 assignment the BQM is
    at least the reduced polynomial (`make_quadratic_energy_spin` + `penSumS_bounds`) -/
theorem makeQuadratic_spin_exact (reserved : List Label) (strength : Rat) (raw : List (List Label × Rat)) (choices : List Pair)
    (bag : List (PTerm Label)) (st : BK) (auxs : List Label)
    (h : makeQuadratic reserved .spin strength raw choices = some (bag, st, auxs)) (hch : ∀ c ∈ choices, c.1 ≠ c.2)
    (x : Label → Rat) (hx : Spin01 x) (hc : ∀ c ∈ st.constraints, x c.2 = x c.1.1 * x c.1.2) :
    ∃ x', Spin01 x' ∧ (∀ l, l ∉ auxs → x' l = x l) ∧ evalBag x' bag = polyEnergy x (normPoly .spin raw)
      ∧ (∀ a ∈ auxs, a ∉ reserved) := by
  have hsrc := h
  unfold makeQuadratic at h
  split at h
  · simp at h
  · rename_i s hs
    split at h
    · simp at h
    · rename_i hidx
      split at h
      · simp at h
      · rename_i obj hobj
        simp only [Option.some.injEq, Prod.mk.injEq] at h
        obtain ⟨hb, hst, ha⟩ := h
        subst hst
        have hdone : s.idx = [] := by
          cases hi : s.idx with
          | nil => rfl
          | cons a r => rw [hi] at hidx; simp at hidx
        -- invariants of the run
        have hok := normPoly_ok .spin raw
        have hpv : ∀ tb ∈ normPoly .spin raw, ∀ w ∈ tb.1, w ∈ polyVars (normPoly .spin raw) ++ reserved :=
          fun tb htb w hw => List.mem_append_left _ (polyVars_mem (normPoly .spin raw) tb htb w hw)
        have hrun0 := runInv_init (normPoly .spin raw) (polyVars (normPoly .spin raw) ++ reserved) hok hpv
        have hlab := labInv_fold choices _ _ hrun0 _ (labInv_init _ _ hpv) hch s hs
        -- freshness of the auxiliaries
        have haux := penaltyBags_aux_fresh strength (polyVars (normPoly .spin raw) ++ reserved ++ s.constraints.map (·.2)) s.constraints
        rw [ha] at haux
        have hvars : s.vars = polyVars (normPoly .spin raw) ++ reserved ++ s.constraints.map (·.2) := hlab.vars
        have hauxv : ∀ a ∈ auxs, a ∉ s.vars := by intro a ha'; rw [hvars]; exact haux.2 a ha'
        have hlen : auxs.length = s.constraints.length := by rw [← ha]; exact penaltyBags_aux_length _ _ _
        obtain ⟨x', hx', hoff, hzero⟩ := penSumS_zero_of_consistent s.constraints auxs hlen haux.1
          (fun c hc' => by
            have := hlab.cons c hc'
            exact ⟨fun hm => hauxv _ hm this.1, fun hm => hauxv _ hm this.2.1, fun hm => hauxv _ hm this.2.2⟩) x hx hc
        refine ⟨x', hx', hoff, ?_, fun a ha' hr => haux.2 a ha' (by simp [hr])⟩
        have he := (Red.penaltyBags_spin_eval x' strength (polyVars (normPoly .spin raw) ++ reserved ++ s.constraints.map (·.2)) s.constraints)
        rw [← hb, evalBag_append, he, ha, hzero, objectiveBag_eval x' _ _ hobj]
        -- the reduced terms do not mention the auxiliaries
        have hred : polyEnergy x' s.reduced = polyEnergy x s.reduced := by
          apply polyEnergy_congr_labels
          intro tb htb w hw
          exact hoff w (fun hm => hauxv w hm (hlab.red tb htb w hw))
        -- bookkeeping refinement: reduced energy = polynomial energy on the consistent assignment
        obtain ⟨named, h1, h2, h3, h4⟩ := bkFold_refines choices _ _ hrun0 hch s hs
        have hcons : s.constraints = named.map (fun c => ((c.1, c.2.1), c.2.2)) := by simpa [BK.init] using h2
        have hcx : Consistent x named := by
          intro c hcm
          have := hc ((c.1, c.2.1), c.2.2) (by rw [hcons]; exact List.mem_map.2 ⟨c, hcm, rfl⟩)
          simpa using this
        have hee := semReduce_energy x named (HiLo.init (normPoly .spin raw))
          (fun tb htb => hok.1 tb (List.mem_filter.1 htb).1) h3 hcx
        rw [init_energy] at hee
        have hhi : (semReduce named (HiLo.init (normPoly .spin raw))).hi = [] :=
          hi_nil_of_idx_nil s.idx _ hdone h4.inv h4.ok (allHigh_semReduce named _ (allHigh_init _))
        unfold HiLo.energy at hee
        rw [hhi] at hee
        simp only [polyEnergy] at hee
        rw [hred, polyEnergy_perm x _ _ h4.red]
        grind

end Red
