import DimodProofs.EqualityCqm
import Generated.EqFields
import Mathlib.Data.List.Perm.Basic
import Mathlib.Data.List.Nodup

/-! C18 — helper lemmas for order independence and the per-field sensitivity of the CQM comparison. -/

namespace Eqm
open QModel

theorem CanonEq.rfl' (a : QModel) : CanonEq a a := ⟨fun _ _ => rfl, rfl, fun _ => rfl, fun _ _ => rfl⟩

/-- `find?` by a key that is distinct over the list does not depend on the order of the list -/
theorem find?_perm_of_nodup {α β} [DecidableEq β] (f : α → β) {l l' : List α} (hp : l.Perm l') (hnd : (l.map f).Nodup) (k : β) :
    l.find? (fun x => decide (f x = k)) = l'.find? (fun x => decide (f x = k)) := by
  have hnd' : (l'.map f).Nodup := (hp.map f).nodup_iff.mp hnd
  cases h : l.find? (fun x => decide (f x = k)) with
  | none =>
    symm
    rw [List.find?_eq_none] at h ⊢
    intro x hx
    exact h x (hp.mem_iff.mpr hx)
  | some x =>
    have hx : f x = k := by simpa using List.find?_some h
    have hm := List.mem_of_find?_eq_some h
    cases h' : l'.find? (fun x => decide (f x = k)) with
    | none =>
      rw [List.find?_eq_none] at h'
      exact absurd (by simpa using hx) (h' x (hp.mem_iff.mp hm))
    | some y =>
      have hy : f y = k := by simpa using List.find?_some h'
      have hmy := List.mem_of_find?_eq_some h'
      have : x = y := List.inj_on_of_nodup_map hnd' (hp.mem_iff.mp hm) hmy (hx.trans hy.symm)
      rw [this]

theorem findCons_perm {l l' : List CCons} (hp : l.Perm l') (hnd : (l.map (·.label)).Nodup) (k : Label) :
    findCons l k = findCons l' k := by
  unfold findCons
  exact find?_perm_of_nodup (·.label) hp hnd k

theorem lookup_eq_find? {α} (l : List (Label × α)) (v : Label) :
    lookup l v = (l.find? (fun p => decide (p.1 = v))).map (·.2) := by
  induction l with
  | nil => rfl
  | cons p t ih =>
    obtain ⟨k, a⟩ := p
    unfold lookup
    rw [List.find?_cons]
    by_cases h : k = v
    · simp [h]
    · simp [h, ih]

theorem lookup_perm {α} {l l' : List (Label × α)} (hp : l.Perm l') (hnd : (l.map Prod.fst).Nodup) (v : Label) :
    lookup l v = lookup l' v := by
  rw [lookup_eq_find?, lookup_eq_find?, find?_perm_of_nodup Prod.fst hp hnd v]

/-- replace the constraint stored under label `l` -/
def replaceCons (cs : List CCons) (l : Label) (c' : CCons) : List CCons := cs.map fun d => if d.label = l then c' else d

theorem replaceCons_labels (cs : List CCons) (l : Label) (c' : CCons) (hl : c'.label = l) :
    (replaceCons cs l c').map (·.label) = cs.map (·.label) := by
  unfold replaceCons
  rw [List.map_map]
  apply List.map_congr_left
  intro d _
  by_cases h : d.label = l
  · simp [Function.comp, h, hl]
  · simp [Function.comp, h]

theorem findCons_replace_same (cs : List CCons) (l : Label) (c c' : CCons) (hl : c'.label = l) (hf : findCons cs l = some c) :
    findCons (replaceCons cs l c') l = some c' := by
  unfold findCons replaceCons at *
  induction cs with
  | nil => simp at hf
  | cons d t ih =>
    rw [List.map_cons, List.find?_cons]
    by_cases h : d.label = l
    · simp [h, hl]
    · rw [List.find?_cons] at hf
      simp only [h, decide_false] at hf
      simp only [h, if_false, decide_false]
      exact ih hf

theorem findCons_replace_other (cs : List CCons) (l k : Label) (c' : CCons) (hl : c'.label = l) (hk : k ≠ l) :
    findCons (replaceCons cs l c') k = findCons cs k := by
  unfold findCons replaceCons
  induction cs with
  | nil => rfl
  | cons d t ih =>
    rw [List.map_cons, List.find?_cons, List.find?_cons]
    by_cases h : d.label = l
    · have h1 : ¬ c'.label = k := by rw [hl]; exact fun e => hk e.symm
      have h2 : ¬ l = k := fun e => hk e.symm
      simp only [h, if_true, h1, h2, decide_false]
      exact ih
    · simp only [h, if_false]
      by_cases h3 : d.label = k
      · simp [h3]
      · simp only [h3, decide_false]
        exact ih

end Eqm

namespace Eqm

/-- a constraint with the fields `CQM.is_equal` does NOT read -/
structure CConsFull where
  base : CCons
  weight : Option Rat := none       -- soft weight (`none` = hard)
  quadPenalty : Bool := false
  discrete : Bool := false

/-- a CQM with everything C05 observes: per-variable bounds, soft weights / penalties, discrete marks -/
structure CqmFull where
  vars : List (Label × VT4 × Rat × Rat)
  obj : QModel
  cons : List CConsFull

/-- what `is_equal` / `is_almost_equal` read of a CQM (`variables`, `vartype(v)`, `objective`, and of each constraint label,
    sense, rhs, lhs) -/
def CqmFull.observed (m : CqmFull) : CqmVal :=
  { vars := m.vars.map (fun p => (p.1, p.2.1)), obj := m.obj, cons := m.cons.map (·.base) }

theorem cqmCanonEq_refl (a : CqmVal) : CqmCanonEq a a := by
  refine ⟨CanonEq.rfl' _, fun _ => rfl, fun l => ?_⟩
  cases h : findCons a.cons l with
  | none => trivial
  | some c => exact ⟨rfl, rfl, CanonEq.rfl' _⟩

end Eqm

namespace Eqm
open QModel

theorem roundsToZero_zero (p : Nat) : roundsToZero (p : Int) 0 = true := by
  rw [roundsToZero_nonneg]; unfold absR; simp

theorem almostCanon_refl (p : Nat) (x : QModel) (hx : WF x) : AlmostCanon p x x := by
  refine ⟨fun _ => Iff.rfl, fun _ _ => rfl, by simpa using roundsToZero_zero p, fun v hv => ?_, fun _ _ => rfl, fun u v a b ha hb => ?_⟩
  · obtain ⟨a, ha⟩ := (mem_vars_iff hx v).mp hv
    exact ⟨a, a, ha, ha, by simpa using roundsToZero_zero p⟩
  · rw [ha] at hb
    rw [Option.some.inj hb]
    simpa using roundsToZero_zero p

theorem cqmAlmostCanon_refl (p : Nat) (a : CqmVal) (ha : CqmWFv a) : CqmAlmostCanon p a a := by
  refine ⟨almostCanon_refl p _ ha.obj, fun _ => rfl, fun l => ?_⟩
  cases h : findCons a.cons l with
  | none => trivial
  | some c => exact ⟨rfl, by simpa using roundsToZero_zero p, almostCanon_refl p _ (ha.cons c (findCons_some h).1)⟩

end Eqm

namespace Eqm
open QModel

theorem lookup_retype {α} (t' : α) (v : Label) : ∀ (l : List (Label × α)) (t : α), lookup l v = some t →
    lookup (l.map (fun p => if p.1 = v then (v, t') else p)) v = some t' := by
  intro l
  induction l with
  | nil => intro t h; simp [lookup] at h
  | cons p tl ih =>
    intro t h
    obtain ⟨k, x⟩ := p
    rw [List.map_cons]
    by_cases hk : k = v
    · simp [hk, lookup]
    · unfold lookup at h
      simp only [hk, if_false] at h
      simp only [hk, if_false]
      unfold lookup
      simp only [hk, if_false]
      exact ih t h

end Eqm

namespace Eqm
open QModel

/-! ### the comparison as the interpretation of the source's conjunct list (`Generated/EqFields.lean`) -/

/-- short-circuit `and` of a list of checks -/
def andM : List (M Bool) → M Bool
  | [] => pure true
  | x :: t => do if (← x) then andM t else pure false

/-- one conjunct of `constraint_eq(c0, c1)`; an unknown tag is an error (the theorem below then fails) -/
def consCheck (mEq : QModel → QModel → M Bool) (rEq : Rat → Rat → Bool) (c d : CCons) (tag : String) : M Bool :=
  if tag = "sense" then pure (decide (c.sense = d.sense))
  else if tag = "lhs" then mEq c.lhs d.lhs
  else if tag = "rhs exact" ∨ tag = "rhs rounded" then pure (rEq c.rhs d.rhs)
  else throw .attr

/-- one conjunct of the returned `and` chain -/
def topCheck (mEq : QModel → QModel → M Bool) (rEq : Rat → Rat → Bool) (consTags : List String) (self o : CqmVal) (tag : String) : M Bool :=
  if tag = "objective" then mEq self.obj o.obj
  else if tag = "variables" then
    pure (self.vars.all (fun p => (lookup o.vars p.1).isSome) && o.vars.all (fun p => (lookup self.vars p.1).isSome))
  else if tag = "vartypes" then pure (self.vars.all (fun p => lookup o.vars p.1 = some p.2 || (lookup o.vars p.1).isNone))
  else if tag = "constraint labels" then pure (keysEq self.cons o.cons)
  else if tag = "every constraint" then
    allConsM self.cons fun c =>
      match findCons o.cons c.label with
      | some d => andM (consTags.map (consCheck mEq rEq c d))
      | none => throw .value
  else throw .attr

/-- the comparison the source's conjunct lists denote -/
def cqmCmpBy (top cons : List String) (mEq : QModel → QModel → M Bool) (rEq : Rat → Rat → Bool) (self o : CqmVal) : M Bool :=
  andM (top.map (topCheck mEq rEq cons self o))

end Eqm

namespace Eqm
open QModel

theorem vars_split (a o : CqmVal) :
    ((a.vars.all (fun p => (lookup o.vars p.1).isSome) && o.vars.all (fun p => (lookup a.vars p.1).isSome))
      && a.vars.all (fun p => lookup o.vars p.1 = some p.2 || (lookup o.vars p.1).isNone)) = varsEq a o := by
  unfold varsEq
  rw [Bool.eq_iff_iff]
  simp only [Bool.and_eq_true, List.all_eq_true, Bool.or_eq_true, decide_eq_true_eq, Option.isNone_iff_eq_none]
  constructor
  · rintro ⟨⟨h1, h2⟩, h3⟩
    refine ⟨fun p hp => ?_, h2⟩
    rcases h3 p hp with h | h
    · exact h
    · have := h1 p hp; rw [h] at this; cases this
  · rintro ⟨h1, h2⟩
    exact ⟨⟨fun p hp => by rw [h1 p hp]; rfl, h2⟩, fun p hp => Or.inl (h1 p hp)⟩

theorem cqmCmpBy_eq (tagR : String) (hR : tagR = "rhs exact" ∨ tagR = "rhs rounded")
    (mEq : QModel → QModel → M Bool) (rEq : Rat → Rat → Bool) (self o : CqmVal) :
    cqmCmpBy ["objective", "variables", "vartypes", "constraint labels", "every constraint"] ["sense", "lhs", tagR] mEq rEq self o
      = cqmCmp mEq rEq self o := by
  have hcons : ∀ c d : CCons, andM (["sense", "lhs", tagR].map (consCheck mEq rEq c d))
      = (do if c.sense ≠ d.sense then pure false else
            if !(← mEq c.lhs d.lhs) then pure false else pure (rEq c.rhs d.rhs) : M Bool) := by
    intro c d
    have hr : consCheck mEq rEq c d tagR = pure (rEq c.rhs d.rhs) := by
      rcases hR with rfl | rfl <;> simp [consCheck]
    simp only [List.map, andM, hr]
    simp only [consCheck, if_true, String.reduceEq, if_false]
    by_cases hs : c.sense = d.sense
    · simp only [hs, decide_true, ne_eq, not_true_eq_false, if_false]
      cases hm : mEq c.lhs d.lhs with
      | error e => rfl
      | ok v => cases v <;> cases hq : rEq c.rhs d.rhs <;> rfl
    · simp only [hs, decide_false, ne_eq, not_false_eq_true, if_true]
      rfl
  unfold cqmCmpBy cqmCmp
  simp only [List.map, andM]
  simp only [topCheck, if_true, String.reduceEq, if_false]
  rw [← vars_split]
  cases hm : mEq self.obj o.obj with
  | error e => rfl
  | ok v =>
    cases v with
    | false => rfl
    | true =>
      simp only [hcons]
      cases h1 : (self.vars.all (fun p => (lookup o.vars p.1).isSome) && o.vars.all (fun p => (lookup self.vars p.1).isSome)) <;>
      cases h2 : self.vars.all (fun p => lookup o.vars p.1 = some p.2 || (lookup o.vars p.1).isNone) <;>
      cases h3 : keysEq self.cons o.cons <;> simp [bind, Except.bind, pure, Except.pure]
      generalize allConsM self.cons _ = X
      cases X with
      | error e => rfl
      | ok v => cases v <;> rfl
end Eqm
