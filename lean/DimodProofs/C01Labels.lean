import DimodProofs.C01Energy

/-! # C01 — labels: where `energies` finds the value of each model variable -/

namespace En

theorem indexOfFrom_spec (v : Label) (ls : List Label) (k i : Nat) (h : indexOfFrom v ls k = some i) :
    k ≤ i ∧ ls[i - k]? = some v ∧ ∀ j, j < i - k → ls[j]? ≠ some v := by
  induction ls generalizing k with
  | nil => simp [indexOfFrom] at h
  | cons l ls ih =>
    simp only [indexOfFrom] at h
    by_cases hl : l = v
    · simp only [hl, if_true, Option.some.injEq] at h
      subst h; subst hl
      simp
    · simp only [hl, if_false] at h
      obtain ⟨h1, h2, h3⟩ := ih (k+1) h
      refine ⟨by omega, ?_, ?_⟩
      · have : i - k = (i - (k+1)) + 1 := by omega
        rw [this]; simpa using h2
      · intro j hj
        cases j with
        | zero => simp; exact hl
        | succ j =>
          simp only [List.getElem?_cons_succ]
          exact h3 j (by omega)

theorem indexOfFrom_none (v : Label) (ls : List Label) (k : Nat) : indexOfFrom v ls k = none ↔ v ∉ ls := by
  induction ls generalizing k with
  | nil => simp [indexOfFrom]
  | cons l ls ih =>
    simp only [indexOfFrom]
    by_cases hl : l = v
    · simp [hl]
    · simp only [hl, if_false, List.mem_cons, not_or]
      rw [ih]
      constructor
      · intro h; exact ⟨fun e => hl e.symm, h⟩
      · intro h; exact h.2

/-- `labels.index(v) = i` means: `v` is at position `i` and nowhere before -/
theorem indexOf?_spec (ls : List Label) (v : Label) (i : Nat) (h : indexOf? ls v = some i) :
    ls[i]? = some v ∧ ∀ j, j < i → ls[j]? ≠ some v := by
  have := indexOfFrom_spec v ls 0 i h
  simpa using this.2

theorem indexOf?_none (ls : List Label) (v : Label) : indexOf? ls v = none ↔ v ∉ ls :=
  indexOfFrom_none v ls 0

theorem indexOf?_of_mem (ls : List Label) (v : Label) (h : v ∈ ls) : ∃ i, indexOf? ls v = some i := by
  cases h' : indexOf? ls v with
  | some i => exact ⟨i, rfl⟩
  | none => exact absurd h ((indexOf?_none ls v).mp h')

/-- on a duplicate-free label list the position is *the* position of the label -/
theorem indexOf?_unique (ls : List Label) (hnd : ls.Nodup) (v : Label) (i j : Nat)
    (h : indexOf? ls v = some i) (hj : ls[j]? = some v) : i = j := by
  have hi := (indexOf?_spec ls v i h).1
  have hi' : i < ls.length := by
    rcases Nat.lt_or_ge i ls.length with h | h
    · exact h
    · rw [List.getElem?_eq_none h] at hi; cases hi
  have hj' : j < ls.length := by
    rcases Nat.lt_or_ge j ls.length with h | h
    · exact h
    · rw [List.getElem?_eq_none h] at hj; cases hj
  rw [List.getElem?_eq_getElem hi'] at hi
  rw [List.getElem?_eq_getElem hj'] at hj
  have : ls[i] = ls[j] := by
    injection hi with hi; injection hj with hj; rw [hi, hj]
  exact (List.Nodup.getElem_inj_iff hnd).mp this

/-! ## `qm_to_sample` -/

theorem qmToSample_ok (ml sl : List Label) (q : List Nat) (h : qmToSample ml sl = .ok q) :
    q.length = ml.length ∧ ∀ i, i < ml.length → indexOf? sl (ml.getD i (.int 0)) = some (q.getD i 0) := by
  induction ml generalizing q with
  | nil =>
    simp only [qmToSample] at h
    cases h; simp
  | cons v vs ih =>
    simp only [qmToSample] at h
    cases hv : indexOf? sl v with
    | none => simp [hv] at h
    | some i =>
      simp only [hv] at h
      cases hr : qmToSample vs sl with
      | error e => simp [hr] at h
      | ok q' =>
        simp only [hr] at h
        cases h
        obtain ⟨h1, h2⟩ := ih q' hr
        refine ⟨by simp [h1], ?_⟩
        intro j hj
        cases j with
        | zero => simpa using hv
        | succ j =>
          simp only [List.getD_cons_succ]
          exact h2 j (by simpa using hj)

theorem qmToSample_error (ml sl : List Label) (e : Err) (h : qmToSample ml sl = .error e) :
    e = .value ∧ ∃ v ∈ ml, v ∉ sl := by
  induction ml with
  | nil => simp [qmToSample] at h
  | cons v vs ih =>
    simp only [qmToSample] at h
    cases hv : indexOf? sl v with
    | none =>
      simp only [hv] at h
      cases h
      exact ⟨rfl, v, by simp, (indexOf?_none sl v).mp hv⟩
    | some i =>
      simp only [hv] at h
      cases hr : qmToSample vs sl with
      | ok q' => simp [hr] at h
      | error e' =>
        simp only [hr] at h
        cases h
        obtain ⟨h1, w, hw, hw'⟩ := ih hr
        exact ⟨h1, w, List.mem_cons_of_mem _ hw, hw'⟩

theorem qmToSample_total (ml sl : List Label) (h : ∀ v ∈ ml, v ∈ sl) : ∃ q, qmToSample ml sl = .ok q := by
  cases hq : qmToSample ml sl with
  | ok q => exact ⟨q, rfl⟩
  | error e =>
    obtain ⟨_, v, hv, hv'⟩ := qmToSample_error ml sl e hq
    exact absurd (h v hv) hv'

theorem qmToSample_missing (ml sl : List Label) (h : ∃ v ∈ ml, v ∉ sl) : qmToSample ml sl = .error .value := by
  cases hq : qmToSample ml sl with
  | error e => rw [(qmToSample_error ml sl e hq).1]
  | ok q =>
    obtain ⟨v, hv, hv'⟩ := h
    obtain ⟨i, hi, rfl⟩ := List.getElem_of_mem hv
    have := (qmToSample_ok ml sl q hq).2 i hi
    have hget : ml.getD i (.int 0) = ml[i] := by simp [List.getD, hi]
    rw [hget] at this
    have := (indexOf?_spec sl _ _ this).1
    exact absurd (List.mem_of_getElem? this) hv'

end En
