import DimodProofs.C03Fix

/-! # C03 — the copying path `fix_variables_expr` (term-by-term rebuild with `add_quadratic_back`)

Stage A: energies of models whose rows are only *lower-first* (not necessarily sorted): the loop with `break` sees every
lower-triangle entry. -/

open Finset

namespace En

variable {R : Type} [CommRing R]

/-- value of the lower-triangle entries of row `u`, wherever they stand in the row -/
def rowLower (x : Nat → R) (u : Nat) (row : Nbh R) : R :=
  ((row.filter (fun p => decide (p.1 ≤ u))).map (fun p => p.2 * x u * x p.1)).sum

def rowsLower (x : Nat → R) : Nat → List (Nbh R) → R
  | _, [] => 0
  | u, row :: rest => rowLower x u row + rowsLower x (u+1) rest

/-- the lower-triangle entries of the row form a prefix (what `add_quadratic_back`'s precondition guarantees) -/
def LF (u : Nat) (row : Nbh R) : Prop :=
  row.takeWhile (fun p => decide (p.1 ≤ u)) = row.filter (fun p => decide (p.1 ≤ u))

theorem lowerTerms_eq (u : Nat) (row : Nbh R) :
    QMB.lowerTerms u row = (row.takeWhile (fun p => decide (p.1 ≤ u))).map (fun p => (u, p.1, p.2)) := by
  induction row with
  | nil => rfl
  | cons p t ih =>
    obtain ⟨v, b⟩ := p
    simp only [QMB.lowerTerms, List.takeWhile_cons]
    by_cases h : v ≤ u
    · simp [h, ih]
    · simp [h]

theorem quadSum_map (x : Nat → R) (u : Nat) (l : Nbh R) :
    quadSum x (l.map (fun p => (u, p.1, p.2))) = (l.map (fun p => p.2 * x u * x p.1)).sum := by
  induction l with
  | nil => simp [quadSum]
  | cons p t ih => simp only [List.map_cons, quadSum, List.sum_cons]; rw [ih]

theorem quadSum_lowerTerms_LF (x : Nat → R) (u : Nat) (row : Nbh R) (h : LF u row) :
    quadSum x (QMB.lowerTerms u row) = rowLower x u row := by
  rw [lowerTerms_eq, quadSum_map, h]; rfl

theorem quadSum_iterFrom_LF (x : Nat → R) (u0 : Nat) (rows : List (Nbh R))
    (h : ∀ i (hi : i < rows.length), LF (u0 + i) rows[i]) :
    quadSum x (QMB.iterQuadraticFrom u0 rows) = rowsLower x u0 rows := by
  induction rows generalizing u0 with
  | nil => simp [QMB.iterQuadraticFrom, quadSum, rowsLower]
  | cons row rest ih =>
    simp only [QMB.iterQuadraticFrom, quadSum_append, rowsLower]
    have h0 : LF u0 row := by
      have := h 0 (by simp)
      simpa using this
    rw [quadSum_lowerTerms_LF x u0 row h0]
    rw [ih (u0 + 1) (by
      intro i hi
      have := h (i + 1) (by simp; omega)
      have e : u0 + (i + 1) = u0 + 1 + i := by omega
      simpa [e] using this)]

namespace QMB

/-- offset + linear part + every stored lower-triangle entry -/
def raw (m : QMB R) (x : Nat → R) : R := m.off + linSum x 0 m.lin + rowsLower x 0 (m.adj.getD [])

theorem energy_eq_raw (m : QMB R) (hlen : ∀ a, m.adj = some a → a.length = m.lin.length)
    (hLF : ∀ a, m.adj = some a → ∀ i (hi : i < a.length), LF i a[i]) (x : Nat → R) :
    m.energy x = m.raw x := by
  rw [energy_eq_reported m x hlen]
  unfold reportedEval polyEval raw iterQuadratic
  cases h : m.adj with
  | none => simp [quadSum, rowsLower]
  | some a =>
    simp only [Option.getD_some]
    rw [quadSum_iterFrom_LF x 0 a (by intro i hi; simpa using hLF a h i hi)]

end QMB

/-! Stage B: how the building blocks change `raw` -/

theorem rowsLower_append (x : Nat → R) (u0 : Nat) (rows : List (Nbh R)) (row : Nbh R) :
    rowsLower x u0 (rows ++ [row]) = rowsLower x u0 rows + rowLower x (u0 + rows.length) row := by
  induction rows generalizing u0 with
  | nil => simp [rowsLower]
  | cons r rest ih =>
    simp only [List.cons_append, rowsLower, List.length_cons]
    rw [ih]
    have : u0 + 1 + rest.length = u0 + (rest.length + 1) := by omega
    rw [this]; ring

theorem rowLower_append (x : Nat → R) (u : Nat) (row : Nbh R) (w : Nat) (b : R) :
    rowLower x u (row ++ [(w, b)]) = rowLower x u row + (if w ≤ u then b * x u * x w else 0) := by
  unfold rowLower
  rw [List.filter_append, List.map_append, List.sum_append]
  by_cases h : w ≤ u <;> simp [List.filter_cons, h]

theorem rowsLower_modify (x : Nat → R) (u0 : Nat) (rows : List (Nbh R)) (u w : Nat) (b : R) (hu : u < rows.length) :
    rowsLower x u0 (rows.modify u (· ++ [(w, b)]))
      = rowsLower x u0 rows + (if w ≤ u0 + u then b * x (u0 + u) * x w else 0) := by
  induction rows generalizing u0 u with
  | nil => simp at hu
  | cons r rest ih =>
    cases u with
    | zero =>
      simp only [List.modify_cons, if_true, rowsLower, Nat.add_zero]
      rw [rowLower_append]; ring
    | succ u =>
      simp only [List.modify_succ_cons, rowsLower]
      rw [ih (u0 + 1) u (by simpa using hu)]
      have : u0 + 1 + u = u0 + (u + 1) := by omega
      rw [this]; ring

theorem linSum_modify (x : Nat → R) (u0 : Nat) (lin : List R) (i : Nat) (b : R) (hi : i < lin.length) :
    linSum x u0 (lin.modify i (· + b)) = linSum x u0 lin + b * x (u0 + i) := by
  induction lin generalizing u0 i with
  | nil => simp at hi
  | cons l ls ih =>
    cases i with
    | zero => simp only [List.modify_cons, if_true, linSum, Nat.add_zero]; ring
    | succ i =>
      simp only [List.modify_succ_cons, linSum]
      rw [ih (u0 + 1) i (by simpa using hi)]
      have : u0 + 1 + i = u0 + (i + 1) := by omega
      rw [this]; ring

theorem linSum_append_zero (x : Nat → R) (u0 : Nat) (lin : List R) : linSum x u0 (lin ++ [0]) = linSum x u0 lin := by
  induction lin generalizing u0 with
  | nil => simp [linSum]
  | cons l ls ih => simp only [List.cons_append, linSum]; rw [ih]

theorem rowsLower_replicate (x : Nat → R) (u0 k : Nat) : rowsLower x u0 (List.replicate k ([] : Nbh R)) = 0 := by
  induction k generalizing u0 with
  | zero => rfl
  | succ k ih => simp only [List.replicate_succ, rowsLower]; rw [ih]; simp [rowLower]

end En

/-! Stage C: the invariant of the expression under construction and what each building block does -/

namespace En

variable {R : Type} [CommRing R]

namespace Expr

/-- the value of an expression under construction at a global assignment: offset + linear + every stored lower entry -/
def val (d : Expr R) (X : Nat → R) : R := d.qb.raw (fun i => X (d.vars.getD i 0))

/-- invariant of the destination expression; rows with index `≥ c` contain lower-triangle entries only -/
structure Good (d : Expr R) (c : Nat) : Prop where
  len : d.vars.length = d.qb.lin.length
  adjlen : ∀ a, d.qb.adj = some a → a.length = d.qb.lin.length
  lower : ∀ a, d.qb.adj = some a → ∀ i (hi : i < a.length), c ≤ i → ∀ p ∈ a[i], p.1 ≤ i
  lf : ∀ a, d.qb.adj = some a → ∀ i (hi : i < a.length), LF i a[i]
  nodup : d.vars.Nodup

theorem Good.mono {d : Expr R} {c c' : Nat} (h : Good d c) (hc : c ≤ c') : Good d c' :=
  ⟨h.len, h.adjlen, fun a ha i hi hci p hp => h.lower a ha i hi (by omega) p hp, h.lf, h.nodup⟩

theorem energyCpp_eq_val (d : Expr R) (c : Nat) (h : Good d c) (X : Nat → R) : d.energyCpp X = d.val X := by
  unfold energyCpp val
  exact QMB.energy_eq_raw d.qb h.adjlen h.lf _

theorem localOf_of_getElem (e : Expr R) (hnd : e.vars.Nodup) (g i : Nat) (h : e.vars[i]? = some g) : e.localOf? g = some i := by
  cases hl : e.localOf? g with
  | none =>
    exact absurd (List.mem_of_getElem? h) (localOf_none e g hl)
  | some j =>
    have hj := localOf_some e g j hl
    have hi' : i < e.vars.length := by
      rcases Nat.lt_or_ge i e.vars.length with h' | h'
      · exact h'
      · rw [List.getElem?_eq_none h'] at h; cases h
    have hj' : j < e.vars.length := by
      rcases Nat.lt_or_ge j e.vars.length with h' | h'
      · exact h'
      · rw [List.getElem?_eq_none h'] at hj; cases hj
    rw [List.getElem?_eq_getElem hi'] at h
    rw [List.getElem?_eq_getElem hj'] at hj
    have : e.vars[j] = e.vars[i] := by injection h with h; injection hj with hj; rw [h, hj]
    rw [(List.Nodup.getElem_inj_iff hnd).mp this]

/-- `add_offset` -/
theorem addOffset_spec (d : Expr R) (c : Nat) (h : Good d c) (b : R) (X : Nat → R) :
    Good (d.addOffset b) c ∧ (d.addOffset b).val X = d.val X + b ∧ (d.addOffset b).vars = d.vars := by
  refine ⟨⟨h.len, h.adjlen, h.lower, h.lf, h.nodup⟩, ?_, rfl⟩
  unfold val addOffset QMB.raw
  simp only []; ring

/-- `add_linear(g, b)` when `g` is already a variable of the expression -/
theorem addLinear_present (d : Expr R) (c : Nat) (h : Good d c) (g i : Nat) (hi : d.vars[i]? = some g) (b : R) (X : Nat → R) :
    Good (d.addLinear g b) c ∧ (d.addLinear g b).val X = d.val X + b * X g ∧ (d.addLinear g b).vars = d.vars := by
  have hloc := localOf_of_getElem d h.nodup g i hi
  have hil : i < d.vars.length := by
    rcases Nat.lt_or_ge i d.vars.length with h' | h'
    · exact h'
    · rw [List.getElem?_eq_none h'] at hi; cases hi
  have hshape : d.addLinear g b = { d with qb := { d.qb with lin := d.qb.lin.modify i (· + b) } } := by
    unfold addLinear enforce; rw [hloc]
  rw [hshape]
  refine ⟨⟨by simp [h.len], by intro a ha; simp; exact h.adjlen a ha, h.lower, h.lf, h.nodup⟩, ?_, rfl⟩
  unfold val QMB.raw
  simp only []
  rw [linSum_modify _ 0 d.qb.lin i b (by rw [← h.len]; exact hil)]
  have : d.vars.getD i 0 = g := by rw [List.getD_eq_getElem?_getD, hi]; rfl
  simp only [Nat.zero_add, this]; ring

end Expr

end En

namespace En

variable {R : Type} [CommRing R]

/-- rows `≥ c` all-lower, every row lower-first -/
def RowsGood (c : Nat) (rows : List (Nbh R)) : Prop :=
  (∀ i (hi : i < rows.length), c ≤ i → ∀ p ∈ rows[i], p.1 ≤ i) ∧ (∀ i (hi : i < rows.length), LF i rows[i])

theorem takeWhile_all (u : Nat) (row : Nbh R) (h : ∀ p ∈ row, p.1 ≤ u) :
    row.takeWhile (fun p => decide (p.1 ≤ u)) = row := by
  induction row with
  | nil => rfl
  | cons p t ih =>
    have hp : p.1 ≤ u := h p (by simp)
    simp only [List.takeWhile_cons, hp, decide_true, if_true]
    rw [ih (fun q hq => h q (List.mem_cons_of_mem _ hq))]

theorem LF_of_allLower (u : Nat) (row : Nbh R) (h : ∀ p ∈ row, p.1 ≤ u) : LF u row := by
  unfold LF
  have h1 : row.filter (fun p => decide (p.1 ≤ u)) = row := by
    apply List.filter_eq_self.mpr; intro p hp; simpa using h p hp
  rw [h1, takeWhile_all u row h]

theorem LF_append_upper (u : Nat) (row : Nbh R) (w : Nat) (b : R) (h : LF u row) (hw : ¬ w ≤ u) :
    LF u (row ++ [(w, b)]) := by
  unfold LF at *
  rw [List.filter_append]
  have hf : [(w, b)].filter (fun p => decide (p.1 ≤ u)) = [] := by simp [List.filter_cons, hw]
  rw [hf, List.append_nil, ← h]
  -- takeWhile stops at or before the appended upper entry
  induction row with
  | nil => simp [List.takeWhile_cons, hw]
  | cons p t ih =>
    simp only [List.cons_append, List.takeWhile_cons]
    by_cases hp : p.1 ≤ u
    · simp only [hp, decide_true, if_true]
      congr 1
      apply ih
      simp only [List.takeWhile_cons, List.filter_cons, hp, decide_true, if_true, List.cons.injEq, true_and] at h
      exact h
    · simp [hp]

theorem RowsGood_push (c : Nat) (rows : List (Nbh R)) (u v : Nat) (b : R)
    (hu : u < rows.length) (hv : v ≤ u) (hc : c ≤ u) (h : RowsGood c rows) :
    RowsGood u (if u = v then rows.modify u (· ++ [(v, b)])
                else (rows.modify u (· ++ [(v, b)])).modify v (· ++ [(u, b)])) := by
  have hrowu : ∀ p ∈ rows[u], p.1 ≤ u := h.1 u hu hc
  by_cases huv : u = v
  · subst huv
    simp only [if_true]
    constructor
    · intro i hi hci p hp
      simp only [List.length_modify] at hi
      rw [List.getElem_modify] at hp
      by_cases hiu : u = i
      · subst hiu
        simp only [if_true, List.mem_append, List.mem_singleton] at hp
        rcases hp with hp | rfl
        · exact hrowu p hp
        · exact le_refl _
      · simp only [hiu, if_false] at hp
        exact h.1 i hi (by omega) p hp
    · intro i hi
      simp only [List.length_modify] at hi
      rw [List.getElem_modify]
      by_cases hiu : u = i
      · subst hiu
        simp only [if_true]
        apply LF_of_allLower
        intro p hp
        simp only [List.mem_append, List.mem_singleton] at hp
        rcases hp with hp | rfl
        · exact hrowu p hp
        · exact le_refl _
      · simp only [hiu, if_false]; exact h.2 i hi
  · simp only [huv, if_false]
    have hvu : v < u := by omega
    have hvl : v < rows.length := by omega
    constructor
    · intro i hi hci p hp
      simp only [List.length_modify] at hi
      rw [List.getElem_modify, List.getElem_modify] at hp
      have hvi : ¬ v = i := by omega
      simp only [hvi, if_false] at hp
      by_cases hiu : u = i
      · subst hiu
        simp only [if_true, List.mem_append, List.mem_singleton] at hp
        rcases hp with hp | rfl
        · exact hrowu p hp
        · exact hv
      · simp only [hiu, if_false] at hp
        exact h.1 i hi (by omega) p hp
    · intro i hi
      simp only [List.length_modify] at hi
      rw [List.getElem_modify, List.getElem_modify]
      by_cases hvi : v = i
      · subst hvi
        have : ¬ u = v := huv
        simp only [if_true, this, if_false]
        exact LF_append_upper v _ u b (h.2 v hi) (by omega)
      · simp only [hvi, if_false]
        by_cases hiu : u = i
        · subst hiu
          simp only [if_true]
          apply LF_of_allLower
          intro p hp
          simp only [List.mem_append, List.mem_singleton] at hp
          rcases hp with hp | rfl
          · exact hrowu p hp
          · exact hv
        · simp only [hiu, if_false]; exact h.2 i hi

theorem rowsLower_push (x : Nat → R) (rows : List (Nbh R)) (u v : Nat) (b : R)
    (hu : u < rows.length) (hv : v ≤ u) :
    rowsLower x 0 (if u = v then rows.modify u (· ++ [(v, b)])
                   else (rows.modify u (· ++ [(v, b)])).modify v (· ++ [(u, b)]))
      = rowsLower x 0 rows + b * x u * x v := by
  by_cases huv : u = v
  · subst huv
    simp only [if_true]
    rw [rowsLower_modify x 0 rows u u b hu]; simp
  · simp only [huv, if_false]
    have hvu : v < u := by omega
    rw [rowsLower_modify x 0 _ v u b (by simp; omega), rowsLower_modify x 0 rows u v b hu]
    have h1 : ¬ u ≤ 0 + v := by omega
    have h2 : v ≤ 0 + u := by omega
    rw [if_neg h1, if_pos h2]; simp

end En

namespace En

variable {R : Type} [CommRing R]

theorem rowsLower_map_nil (x : Nat → R) (u0 : Nat) (l : List R) : rowsLower x u0 (l.map fun _ => ([] : Nbh R)) = 0 := by
  induction l generalizing u0 with
  | nil => rfl
  | cons a t ih => simp only [List.map_cons, rowsLower]; rw [ih]; simp [rowLower]

namespace Expr

/-- the rows of the base model once `enforce_adj()` has run -/
def rowsOf (d : Expr R) : List (Nbh R) :=
  match d.qb.adj with
  | some a => a
  | none => d.qb.lin.map fun _ => []

theorem enforceAdj_adj (d : Expr R) : (d.qb.enforceAdj).adj = some d.rowsOf := by
  unfold QMB.enforceAdj rowsOf
  cases h : d.qb.adj <;> simp [h]

theorem enforceAdj_lin (d : Expr R) : (d.qb.enforceAdj).lin = d.qb.lin := by
  unfold QMB.enforceAdj; cases h : d.qb.adj <;> simp [h]

theorem enforceAdj_off (d : Expr R) : (d.qb.enforceAdj).off = d.qb.off := by
  unfold QMB.enforceAdj; cases h : d.qb.adj <;> simp [h]

theorem rowsOf_length (d : Expr R) (c : Nat) (h : Good d c) : d.rowsOf.length = d.qb.lin.length := by
  unfold rowsOf
  cases ha : d.qb.adj with
  | some a => exact h.adjlen a ha
  | none => simp

theorem rowsOf_good (d : Expr R) (c : Nat) (h : Good d c) : RowsGood c d.rowsOf := by
  unfold rowsOf
  cases ha : d.qb.adj with
  | some a => exact ⟨h.lower a ha, h.lf a ha⟩
  | none =>
    constructor
    · intro i hi _ p hp; simp at hp
    · intro i hi; simp [LF]

theorem rowsLower_rowsOf (d : Expr R) (x : Nat → R) : rowsLower x 0 d.rowsOf = rowsLower x 0 (d.qb.adj.getD []) := by
  unfold rowsOf
  cases ha : d.qb.adj with
  | some a => simp
  | none => simp only [Option.getD_none, rowsLower]; exact rowsLower_map_nil x 0 d.qb.lin

/-- `add_quadratic_back(gu, gv, b)` when both variables are present at local positions `vi ≤ ui`, row `ui` holds
    lower entries only so far (`c ≤ ui`), and a self-loop is not on a BINARY/SPIN variable -/
theorem addQuadraticBack_present (d : Expr R) (c : Nat) (h : Good d c) (vt : Nat → VT4) (gu gv ui vi : Nat)
    (hui : d.vars[ui]? = some gu) (hvi : d.vars[vi]? = some gv) (hle : vi ≤ ui) (hc : c ≤ ui)
    (hself : ui = vi → vt gu ≠ .binary ∧ vt gu ≠ .spin) (b : R) (X : Nat → R) :
    Good (d.addQuadraticBack vt gu gv b) ui ∧
    (d.addQuadraticBack vt gu gv b).val X = d.val X + b * X gu * X gv ∧
    (d.addQuadraticBack vt gu gv b).vars = d.vars := by
  have hlu := localOf_of_getElem d h.nodup gu ui hui
  have hlv := localOf_of_getElem d h.nodup gv vi hvi
  have huil : ui < d.vars.length := by
    rcases Nat.lt_or_ge ui d.vars.length with h' | h'
    · exact h'
    · rw [List.getElem?_eq_none h'] at hui; cases hui
  have hrl := rowsOf_length d c h
  have hur : ui < d.rowsOf.length := by rw [hrl, ← h.len]; exact huil
  let rows' := if ui = vi then d.rowsOf.modify ui (· ++ [(vi, b)])
               else (d.rowsOf.modify ui (· ++ [(vi, b)])).modify vi (· ++ [(ui, b)])
  have hshape : d.addQuadraticBack vt gu gv b
      = { d with qb := { lin := d.qb.lin, adj := some rows', off := d.qb.off } } := by
    unfold addQuadraticBack enforce
    rw [hlu]; simp only []
    rw [hlv]; simp only []
    unfold QMB.addQuadraticBack
    simp only [enforceAdj_adj, enforceAdj_lin, enforceAdj_off, Option.map_some]
    by_cases huv : ui = vi
    · obtain ⟨h1, h2⟩ := hself huv
      cases hvt : vt gu with
      | binary => exact absurd hvt h1
      | spin => exact absurd hvt h2
      | integer => simp [huv, rows']
      | real => simp [huv, rows']
    · simp [huv, rows']
  have hgood := RowsGood_push c d.rowsOf ui vi b hur hle hc (rowsOf_good d c h)
  have hlen' : rows'.length = d.qb.lin.length := by
    simp only [rows']; split <;> simp [hrl]
  rw [hshape]
  refine ⟨⟨h.len, ?_, ?_, ?_, h.nodup⟩, ?_, rfl⟩
  · intro a ha; simp only [Option.some.injEq] at ha; rw [← ha]; exact hlen'
  · intro a ha; simp only [Option.some.injEq] at ha; subst ha; exact hgood.1
  · intro a ha; simp only [Option.some.injEq] at ha; subst ha; exact hgood.2
  · unfold val QMB.raw
    simp only [Option.getD_some]
    rw [rowsLower_push _ d.rowsOf ui vi b hur hle, rowsLower_rowsOf]
    have e1 : d.vars.getD ui 0 = gu := by rw [List.getD_eq_getElem?_getD, hui]; rfl
    have e2 : d.vars.getD vi 0 = gv := by rw [List.getD_eq_getElem?_getD, hvi]; rfl
    rw [e1, e2]; ring

end Expr

end En

/-! Stage D: the two loops of `fix_variables_expr` -/

namespace En

variable {R : Type} [CommRing R]

theorem zip_sum_eq_linSum (f : Nat → R) (vars : List Nat) (lin : List R) (h : vars.length = lin.length) :
    ((vars.zip lin).map (fun p => p.2 * f p.1)).sum = linSum (fun i => f (vars.getD i 0)) 0 lin := by
  induction vars generalizing lin with
  | nil =>
    have : lin = [] := List.length_eq_zero_iff.mp h.symm
    subst this; simp [linSum]
  | cons v vs ih =>
    cases lin with
    | nil => simp at h
    | cons l ls =>
      simp only [List.zip_cons_cons, List.map_cons, List.sum_cons, linSum]
      rw [ih ls (by simpa using h), linSum_shift]
      simp

namespace Expr

/-- the value an extended assignment gives to an old global index -/
def Xext (X' : Nat → R) (o2n : List (Option Nat)) (asg : List R) (v : Nat) : R :=
  match o2n.getD v none with
  | none => asg.getD v 0
  | some nv => X' nv

/-- `add_linear(g, b)` for a new variable, while no interaction exists yet -/
theorem addLinear_absent (d : Expr R) (c : Nat) (h : Good d c) (hadj : d.qb.adj = none) (g : Nat) (hg : g ∉ d.vars)
    (b : R) (X : Nat → R) :
    Good (d.addLinear g b) c ∧ (d.addLinear g b).qb.adj = none ∧
    (d.addLinear g b).val X = d.val X + b * X g ∧ (d.addLinear g b).vars = d.vars ++ [g] := by
  have hloc : d.localOf? g = none := by
    cases hl : d.localOf? g with
    | none => rfl
    | some i => exact absurd (List.mem_of_getElem? (localOf_some d g i hl)) hg
  have hshape : d.addLinear g b
      = { vars := d.vars ++ [g],
          qb := { lin := (d.qb.lin ++ [0]).modify d.vars.length (· + b), adj := none, off := d.qb.off } } := by
    unfold addLinear enforce; rw [hloc]; simp [QMB.addVariable, hadj]
  rw [hshape]
  refine ⟨⟨by simp [h.len], (by intro a ha; cases ha), (by intro a ha; cases ha), (by intro a ha; cases ha), ?_⟩, rfl, ?_, rfl⟩
  · exact List.nodup_append.mpr ⟨h.nodup, by simp, by
      intro a ha b' hb'
      simp only [List.mem_singleton] at hb'
      subst hb'
      exact fun e => hg (e ▸ ha)⟩
  · unfold val QMB.raw
    simp only [hadj, Option.getD_none, rowsLower, add_zero]
    rw [linSum_modify _ 0 _ d.vars.length b (by simp [h.len]), linSum_append_zero]
    have hx : ∀ i, i < d.qb.lin.length → (fun i => X ((d.vars ++ [g]).getD i 0)) (0 + i) = (fun i => X (d.vars.getD i 0)) (0 + i) := by
      intro i hi
      simp only [Nat.zero_add]
      congr 1
      rw [List.getD_eq_getElem?_getD, List.getD_eq_getElem?_getD, List.getElem?_append_left (by rw [h.len]; exact hi)]
    rw [linSum_congr (fun i => X ((d.vars ++ [g]).getD i 0)) (fun i => X (d.vars.getD i 0)) 0 d.qb.lin hx]
    have : (d.vars ++ [g]).getD (0 + d.vars.length) 0 = g := by
      rw [Nat.zero_add, List.getD_eq_getElem?_getD, List.getElem?_append_right (le_refl _)]; simp
    rw [this]; ring

/-- the first loop of `fix_variables_expr`: offset for fixed variables, `add_linear` (which creates the variable) for the others -/
def linStep (o2n : List (Option Nat)) (asg : List R) (dst : Expr R) (p : Nat × R) : Expr R :=
  match o2n.getD p.1 none with
  | none => dst.addOffset (p.2 * asg.getD p.1 0)
  | some nv => dst.addLinear nv p.2

theorem linLoop_spec (o2n : List (Option Nat)) (asg : List R) (X' : Nat → R) (zs : List (Nat × R)) (d : Expr R)
    (h : Good d 0) (hadj : d.qb.adj = none)
    (hnd : (d.vars ++ zs.filterMap (fun p => o2n.getD p.1 none)).Nodup) :
    let r := zs.foldl (linStep o2n asg) d
    Good r 0 ∧ r.qb.adj = none ∧ r.vars = d.vars ++ zs.filterMap (fun p => o2n.getD p.1 none) ∧
    r.val X' = d.val X' + (zs.map fun p => p.2 * Xext X' o2n asg p.1).sum := by
  induction zs generalizing d with
  | nil => simp [h, hadj]
  | cons p rest ih =>
    simp only [List.foldl_cons]
    cases ho : o2n.getD p.1 none with
    | none =>
      have hfm : (p :: rest).filterMap (fun p => o2n.getD p.1 none) = rest.filterMap (fun p => o2n.getD p.1 none) :=
        List.filterMap_cons_none ho
      have hstep : linStep o2n asg d p = d.addOffset (p.2 * asg.getD p.1 0) := by unfold linStep; rw [ho]
      obtain ⟨g1, g2, g3⟩ := addOffset_spec d 0 h (p.2 * asg.getD p.1 0) X'
      have hnd' : ((d.addOffset (p.2 * asg.getD p.1 0)).vars ++ rest.filterMap (fun p => o2n.getD p.1 none)).Nodup := by
        rw [g3, ← hfm]; exact hnd
      rw [hstep]
      obtain ⟨r1, r2, r3, r4⟩ := ih _ g1 hadj hnd'
      refine ⟨r1, r2, by rw [r3, g3, hfm], ?_⟩
      rw [r4, g2]
      simp only [List.map_cons, List.sum_cons]
      have : Xext X' o2n asg p.1 = asg.getD p.1 0 := by unfold Xext; rw [ho]
      rw [this]; ring
    | some nv =>
      have hfm : (p :: rest).filterMap (fun p => o2n.getD p.1 none) = nv :: rest.filterMap (fun p => o2n.getD p.1 none) :=
        List.filterMap_cons_some ho
      have hstep : linStep o2n asg d p = d.addLinear nv p.2 := by unfold linStep; rw [ho]
      have hnd0 : (d.vars ++ nv :: rest.filterMap (fun p => o2n.getD p.1 none)).Nodup := by
        rw [← hfm]; exact hnd
      have hg : nv ∉ d.vars := by
        intro hm
        have := (List.nodup_append.mp hnd0).2.2 nv hm nv (by simp)
        exact this rfl
      obtain ⟨g1, g2, g3, g4⟩ := addLinear_absent d 0 h hadj nv hg p.2 X'
      have hnd' : ((d.addLinear nv p.2).vars ++ rest.filterMap (fun p => o2n.getD p.1 none)).Nodup := by
        rw [g4, List.append_assoc]; exact hnd0
      rw [hstep]
      obtain ⟨r1, r2, r3, r4⟩ := ih _ g1 g2 hnd'
      refine ⟨r1, r2, by rw [r3, g4, hfm, List.append_assoc]; rfl, ?_⟩
      rw [r4, g3]
      simp only [List.map_cons, List.sum_cons]
      have : Xext X' o2n asg p.1 = X' nv := by unfold Xext; rw [ho]
      rw [this]; ring

end Expr

end En

namespace En

variable {R : Type} [CommRing R]

/-- position lemma: the image of the `i`-th element sits at the number of images before it -/
theorem filterMap_at (l : List Nat) (f : Nat → Option Nat) (i : Nat) (hi : i < l.length) (nu : Nat)
    (h : f (l.getD i 0) = some nu) :
    (l.filterMap f)[((l.take i).filterMap f).length]? = some nu := by
  induction l generalizing i with
  | nil => simp at hi
  | cons a t ih =>
    cases i with
    | zero =>
      simp only [List.getD_cons_zero] at h
      simp [List.filterMap_cons, h]
    | succ i =>
      simp only [List.getD_cons_succ] at h
      have hi' : i < t.length := by simpa using hi
      simp only [List.take_succ_cons, List.filterMap_cons]
      cases hfa : f a with
      | none => simp only []; exact ih i hi' h
      | some b =>
        simp only [List.length_cons, List.getElem?_cons_succ]
        exact ih i hi' h

theorem filterMap_take_mono (l : List Nat) (f : Nat → Option Nat) (i j : Nat) (hij : i ≤ j) :
    ((l.take i).filterMap f).length ≤ ((l.take j).filterMap f).length := by
  induction l generalizing i j with
  | nil => simp
  | cons a t ih =>
    cases i with
    | zero => simp
    | succ i =>
      cases j with
      | zero => omega
      | succ j =>
        simp only [List.take_succ_cons, List.filterMap_cons]
        have := ih i j (by omega)
        cases f a <;> simp <;> omega

namespace Expr

/-- the second loop of `fix_variables_expr` -/
def quadStep (src : Expr R) (o2n : List (Option Nat)) (asg : List R) (vtNew : Nat → VT4) (dst : Expr R)
    (t : Nat × Nat × R) : Expr R :=
  match o2n.getD (src.vars.getD t.1 0) none, o2n.getD (src.vars.getD t.2.1 0) none with
  | none, none => dst.addOffset (asg.getD (src.vars.getD t.1 0) 0 * asg.getD (src.vars.getD t.2.1 0) 0 * t.2.2)
  | none, some nv => dst.addLinear nv (asg.getD (src.vars.getD t.1 0) 0 * t.2.2)
  | some nu, none => dst.addLinear nu (asg.getD (src.vars.getD t.2.1 0) 0 * t.2.2)
  | some nu, some nv => dst.addQuadraticBack vtNew nu nv t.2.2

/-- the new global indices of the non-fixed variables of `src`, in `src`'s order -/
def kept (src : Expr R) (o2n : List (Option Nat)) : List Nat := src.vars.filterMap (fun v => o2n.getD v none)

/-- local index (in the destination) of the `i`-th variable of `src` -/
def rank (src : Expr R) (o2n : List (Option Nat)) (i : Nat) : Nat :=
  ((src.vars.take i).filterMap (fun v => o2n.getD v none)).length

theorem kept_at (src : Expr R) (o2n : List (Option Nat)) (i : Nat) (hi : i < src.vars.length) (nu : Nat)
    (h : o2n.getD (src.vars.getD i 0) none = some nu) : (kept src o2n)[rank src o2n i]? = some nu :=
  filterMap_at src.vars (fun v => o2n.getD v none) i hi nu h

theorem rank_mono (src : Expr R) (o2n : List (Option Nat)) (i j : Nat) (h : i ≤ j) : rank src o2n i ≤ rank src o2n j :=
  filterMap_take_mono src.vars _ i j h

/-- the terms of one source row -/
theorem quadRow_spec (src : Expr R) (o2n : List (Option Nat)) (asg : List R) (vtNew : Nat → VT4) (X' : Nat → R)
    (ul : Nat) (hul : ul < src.vars.length) (terms : List (Nat × Nat × R))
    (hterms : ∀ t ∈ terms, t.1 = ul ∧ t.2.1 ≤ ul)
    (hself : ∀ t ∈ terms, ∀ nu nv, o2n.getD (src.vars.getD t.1 0) none = some nu →
      o2n.getD (src.vars.getD t.2.1 0) none = some nv → nu = nv → vtNew nu ≠ .binary ∧ vtNew nu ≠ .spin)
    (d : Expr R) (hv : d.vars = kept src o2n) (hg : Good d (rank src o2n ul)) :
    let r := terms.foldl (quadStep src o2n asg vtNew) d
    Good r (rank src o2n ul) ∧ r.vars = kept src o2n ∧
    r.val X' = d.val X' + quadSum (fun i => Xext X' o2n asg (src.vars.getD i 0)) terms := by
  induction terms generalizing d with
  | nil => simp [hg, hv, quadSum]
  | cons t rest ih =>
    obtain ⟨tu, tw, b⟩ := t
    have ht := hterms (tu, tw, b) (by simp)
    simp only [] at ht
    obtain ⟨htu, htw⟩ := ht
    subst htu
    have hwl : tw < src.vars.length := by omega
    have hrest : ∀ t ∈ rest, t.1 = tu ∧ t.2.1 ≤ tu := fun t h => hterms t (List.mem_cons_of_mem _ h)
    have hselfr : ∀ t ∈ rest, ∀ nu nv, o2n.getD (src.vars.getD t.1 0) none = some nu →
        o2n.getD (src.vars.getD t.2.1 0) none = some nv → nu = nv → vtNew nu ≠ .binary ∧ vtNew nu ≠ .spin :=
      fun t h => hself t (List.mem_cons_of_mem _ h)
    simp only [List.foldl_cons, quadSum]
    -- one step
    have step : Good (quadStep src o2n asg vtNew d (tu, tw, b)) (rank src o2n tu) ∧
        (quadStep src o2n asg vtNew d (tu, tw, b)).vars = kept src o2n ∧
        (quadStep src o2n asg vtNew d (tu, tw, b)).val X'
          = d.val X' + b * Xext X' o2n asg (src.vars.getD tu 0) * Xext X' o2n asg (src.vars.getD tw 0) := by
      unfold quadStep
      cases hou : o2n.getD (src.vars.getD tu 0) none with
      | none =>
        cases hov : o2n.getD (src.vars.getD tw 0) none with
        | none =>
          simp only []
          obtain ⟨g1, g2, g3⟩ := addOffset_spec d _ hg (asg.getD (src.vars.getD tu 0) 0 * asg.getD (src.vars.getD tw 0) 0 * b) X'
          refine ⟨g1, by rw [g3, hv], ?_⟩
          rw [g2]; unfold Xext; rw [hou, hov]; ring
        | some nv =>
          simp only []
          have hpos : d.vars[rank src o2n tw]? = some nv := by rw [hv]; exact kept_at src o2n tw hwl nv hov
          obtain ⟨g1, g2, g3⟩ := addLinear_present d _ hg nv _ hpos (asg.getD (src.vars.getD tu 0) 0 * b) X'
          refine ⟨g1, by rw [g3, hv], ?_⟩
          rw [g2]; unfold Xext; rw [hou, hov]; ring
      | some nu =>
        cases hov : o2n.getD (src.vars.getD tw 0) none with
        | none =>
          simp only []
          have hpos : d.vars[rank src o2n tu]? = some nu := by rw [hv]; exact kept_at src o2n tu hul nu hou
          obtain ⟨g1, g2, g3⟩ := addLinear_present d _ hg nu _ hpos (asg.getD (src.vars.getD tw 0) 0 * b) X'
          refine ⟨g1, by rw [g3, hv], ?_⟩
          rw [g2]; unfold Xext; rw [hou, hov]; ring
        | some nv =>
          simp only []
          have hpu : d.vars[rank src o2n tu]? = some nu := by rw [hv]; exact kept_at src o2n tu hul nu hou
          have hpv : d.vars[rank src o2n tw]? = some nv := by rw [hv]; exact kept_at src o2n tw hwl nv hov
          have hs : rank src o2n tu = rank src o2n tw → vtNew nu ≠ .binary ∧ vtNew nu ≠ .spin := by
            intro he
            have : nu = nv := by
              rw [he] at hpu
              rw [hpu] at hpv
              injection hpv
            exact hself (tu, tw, b) (by simp) nu nv hou hov this
          obtain ⟨g1, g2, g3⟩ := addQuadraticBack_present d _ hg vtNew nu nv _ _ hpu hpv
            (rank_mono src o2n tw tu htw) (le_refl _) hs b X'
          refine ⟨g1, by rw [g3, hv], ?_⟩
          rw [g2]; unfold Xext; rw [hou, hov]
    obtain ⟨s1, s2, s3⟩ := step
    obtain ⟨r1, r2, r3⟩ := ih hrest hselfr _ s2 s1
    refine ⟨r1, r2, ?_⟩
    rw [r3, s3]; ring

end Expr

end En

namespace En

variable {R : Type} [CommRing R]

theorem mem_lowerTerms (u : Nat) (row : Nbh R) (t : Nat × Nat × R) (h : t ∈ QMB.lowerTerms u row) : t.1 = u ∧ t.2.1 ≤ u := by
  induction row with
  | nil => simp [QMB.lowerTerms] at h
  | cons p rest ih =>
    obtain ⟨v, b⟩ := p
    simp only [QMB.lowerTerms] at h
    by_cases hv : v ≤ u
    · simp only [hv, if_true, List.mem_cons] at h
      rcases h with rfl | h
      · exact ⟨rfl, hv⟩
      · exact ih h
    · simp [hv] at h

namespace Expr

/-- all rows of the source, in the order of `cbegin_quadratic()` -/
theorem quadRows_spec (src : Expr R) (o2n : List (Option Nat)) (asg : List R) (vtNew : Nat → VT4) (X' : Nat → R)
    (rows : List (Nbh R)) (u0 : Nat) (hlen : u0 + rows.length ≤ src.vars.length)
    (hself : ∀ t ∈ QMB.iterQuadraticFrom u0 rows, ∀ nu nv, o2n.getD (src.vars.getD t.1 0) none = some nu →
      o2n.getD (src.vars.getD t.2.1 0) none = some nv → nu = nv → vtNew nu ≠ .binary ∧ vtNew nu ≠ .spin)
    (d : Expr R) (hv : d.vars = kept src o2n) (hg : Good d (rank src o2n u0)) :
    let r := (QMB.iterQuadraticFrom u0 rows).foldl (quadStep src o2n asg vtNew) d
    Good r (rank src o2n (u0 + rows.length)) ∧ r.vars = kept src o2n ∧
    r.val X' = d.val X' + quadSum (fun i => Xext X' o2n asg (src.vars.getD i 0)) (QMB.iterQuadraticFrom u0 rows) := by
  induction rows generalizing u0 d with
  | nil => simp [QMB.iterQuadraticFrom, quadSum, hg, hv]
  | cons row rest ih =>
    simp only [QMB.iterQuadraticFrom, List.foldl_append, quadSum_append, List.length_cons]
    have hu0 : u0 < src.vars.length := by simp at hlen; omega
    obtain ⟨s1, s2, s3⟩ := quadRow_spec src o2n asg vtNew X' u0 hu0 (QMB.lowerTerms u0 row)
      (fun t ht => mem_lowerTerms u0 row t ht)
      (fun t ht => hself t (by simp [QMB.iterQuadraticFrom, ht])) d hv hg
    have hg' := s1.mono (rank_mono src o2n u0 (u0 + 1) (by omega))
    obtain ⟨r1, r2, r3⟩ := ih (u0 + 1) (by simp at hlen ⊢; omega)
      (fun t ht => hself t (by simp [QMB.iterQuadraticFrom, ht])) _ s2 hg'
    have e : u0 + 1 + rest.length = u0 + (rest.length + 1) := by omega
    refine ⟨by rw [← e]; exact r1, r2, ?_⟩
    rw [r3, s3]; ring

theorem fixVariablesExpr_unfold (src : Expr R) (o2n : List (Option Nat)) (asg : List R) (vtNew : Nat → VT4) :
    CqmC.fixVariablesExpr src o2n asg vtNew
      = src.qb.iterQuadratic.foldl (quadStep src o2n asg vtNew)
          ((src.vars.zip src.qb.lin).foldl (linStep o2n asg) (Expr.empty.addOffset src.qb.off)) := rfl

/-- **the copying path on one expression** (`fix_variables_expr`): the rebuilt expression at an assignment `X'` of the new
    variables has the value of the source at the assignment that gives every fixed variable its value and every other
    variable `v` the value `X' (old_to_new v)` — for any source whose adjacency has one row per variable (sortedness of
    the source is not even needed), provided the kept variables receive distinct new indices and a squared term does
    not sit on a BINARY/SPIN variable -/
theorem fixVariablesExpr_energy (src : Expr R) (hs : src.vars.length = src.qb.lin.length)
    (hadj : ∀ a, src.qb.adj = some a → a.length = src.qb.lin.length)
    (o2n : List (Option Nat)) (asg : List R) (vtNew : Nat → VT4) (hkept : (kept src o2n).Nodup)
    (hself : ∀ t ∈ src.qb.iterQuadratic, ∀ nu nv, o2n.getD (src.vars.getD t.1 0) none = some nu →
      o2n.getD (src.vars.getD t.2.1 0) none = some nv → nu = nv → vtNew nu ≠ .binary ∧ vtNew nu ≠ .spin)
    (X' : Nat → R) :
    (CqmC.fixVariablesExpr src o2n asg vtNew).energyCpp X' = src.energyCpp (Xext X' o2n asg) := by
  rw [fixVariablesExpr_unfold]
  -- the starting expression
  have h0 : Good (Expr.empty.addOffset src.qb.off : Expr R) 0 :=
    ⟨rfl, (by intro a ha; cases ha), (by intro a ha; cases ha), (by intro a ha; cases ha), List.nodup_nil⟩
  have hfm : (src.vars.zip src.qb.lin).filterMap (fun p => o2n.getD p.1 none) = kept src o2n := by
    unfold kept
    have : (src.vars.zip src.qb.lin).filterMap (fun p => o2n.getD p.1 none)
        = ((src.vars.zip src.qb.lin).map (·.1)).filterMap (fun v => o2n.getD v none) := by
      rw [List.filterMap_map]; rfl
    rw [this, List.map_fst_zip (by rw [hs])]
  obtain ⟨l1, l2, l3, l4⟩ := linLoop_spec o2n asg X' (src.vars.zip src.qb.lin) (Expr.empty.addOffset src.qb.off) h0 rfl
    (by rw [hfm]; simpa [Expr.empty, addOffset] using hkept)
  have l3' : ((src.vars.zip src.qb.lin).foldl (linStep o2n asg) (Expr.empty.addOffset src.qb.off)).vars = kept src o2n := by
    rw [l3, hfm]; simp [Expr.empty, addOffset]
  have hval0 : (Expr.empty.addOffset src.qb.off : Expr R).val X' = src.qb.off := by
    simp [val, QMB.raw, Expr.empty, addOffset, linSum, rowsLower]
  have hzip := zip_sum_eq_linSum (Xext X' o2n asg) src.vars src.qb.lin hs
  -- the quadratic loop
  unfold energyCpp
  rw [QMB.energy_eq_reported src.qb _ hadj]
  unfold QMB.reportedEval polyEval QMB.iterQuadratic
  cases ha : src.qb.adj with
  | none =>
    simp only [List.foldl_nil, quadSum, add_zero]
    have := energyCpp_eq_val _ 0 l1 X'
    unfold energyCpp at this
    rw [this, l4, hval0, hzip]
  | some a =>
    simp only []
    have hal : a.length = src.vars.length := by rw [hadj a ha, hs]
    obtain ⟨r1, r2, r3⟩ := quadRows_spec src o2n asg vtNew X' a 0 (by rw [hal]; omega)
      (by intro t ht; apply hself t; unfold QMB.iterQuadratic; rw [ha]; exact ht) _ l3'
      (l1.mono (Nat.zero_le _))
    have := energyCpp_eq_val _ _ r1 X'
    unfold energyCpp at this
    rw [this, r3, l4, hval0, hzip]

end Expr

end En
