import DimodProofs.BqmRefine

/-! One step of a history refines one algebraic step on the plain polynomial; histories by induction.
    Core Lean only. -/

namespace Bqm

/-- the invariant carried along a history: representation invariant + duplicate-free labels -/
structure Inv (m : Bqm) : Prop where
  wf : WF m
  nodup : m.labels.Nodup

theorem Inv.empty (vt : VT) : Inv (Bqm.empty vt) := ⟨WF.empty vt, List.nodup_nil⟩

/-- the single-term edits (issued on the model itself, with proper labels) -/
inductive Basic : Op → Prop
  | addLinear (v : Label) (b : Rat) : Basic (.addLinear (some v) b)
  | setLinear (v : Label) (b : Rat) : Basic (.setLinear (some v) b)
  | addQuadratic (u v : Label) (b : Rat) : Basic (.addQuadratic (some u) (some v) b)
  | setQuadratic (u v : Label) (b : Rat) : Basic (.setQuadratic (some u) (some v) b)
  | removeInteraction (u v : Label) : Basic (.removeInteraction u v)
  | removeVariable (v : Label) : Basic (.removeVariable (some v))
  | addVariable (v : Label) (b : Rat) : Basic (.addVariable (some v) b)
  | scale (s : Rat) : Basic (.scale s)
  | setOffset (b : Rat) : Basic (.setOffset b)

/-- the same call on the plain polynomial; the Boolean says whether the call is defined (returns) -/
def LPoly.step (p : LPoly) : Op → LPoly × Bool
  | .addLinear (some v) b => (p.addLinear v b, true)
  | .setLinear (some v) b => (p.setLinear v b, true)
  | .addQuadratic (some u) (some v) b => if u = v then (p, false) else (p.quadOp u v b false, true)
  | .setQuadratic (some u) (some v) b => if u = v then (p, false) else (p.quadOp u v b true, true)
  | .removeInteraction u v => if (p.quad u v).isSome then (p.removeInteraction u v, true) else (p, false)
  | .removeVariable (some v) => if v ∈ p.vars then (p.removeVariable v, true) else (p, false)
  | .addVariable (some v) b => (p.addLinear v b, true)
  | .scale s => (p.scale s, true)
  | .setOffset b => ({ p with off := b }, true)
  | _ => (p, false)

def LPoly.run (p : LPoly) : List Op → LPoly
  | [] => p
  | op :: t => LPoly.run (p.step op).1 t

theorem labels_addLinear_nodup {m : Bqm} (i : Inv m) (v : Label) (b : Rat) : (m.addLinear v b).labels.Nodup := by
  unfold Bqm.addLinear; exact nodup_indexP i.wf i.nodup v

theorem Inv.addLinear {m : Bqm} (i : Inv m) (v : Label) (b : Rat) : Inv (m.addLinear v b) :=
  ⟨i.wf.addLinear v b, labels_addLinear_nodup i v b⟩

theorem Inv.setLinear {m : Bqm} (i : Inv m) (v : Label) (b : Rat) : Inv (m.setLinear v b) :=
  ⟨i.wf.setLinear v b, by unfold Bqm.setLinear; exact nodup_indexP i.wf i.nodup v⟩

theorem Inv.quadOp {m : Bqm} (i : Inv m) (u v : Label) (b : Rat) (set : Bool) : Inv (m.quadOp u v b set).1 := by
  refine ⟨i.wf.quadOp u v b set, ?_⟩
  unfold Bqm.quadOp
  by_cases huv : u = v
  · simp [huv, i.nodup]
  · simp only [huv, if_false]
    have s1 := indexP_spec i.wf u
    exact nodup_indexP s1.wf (nodup_indexP i.wf i.nodup u) v

theorem Inv.removeInteraction {m : Bqm} (i : Inv m) (u v : Label) : Inv (m.removeInteraction u v).1 :=
  ⟨i.wf.removeInteraction u v, by rw [labels_removeInteraction]; exact i.nodup⟩

theorem Inv.removeVariable {m : Bqm} (i : Inv m) (v : Option Label) : Inv (m.removeVariable v).1 := by
  refine ⟨i.wf.removeVariable v, ?_⟩
  unfold Bqm.removeVariable
  cases v with
  | none =>
    simp only []
    split
    · exact i.nodup
    · exact nodup_eraseIdx _ _ i.nodup
  | some v =>
    simp only []
    cases m.indexOf? v with
    | none => exact i.nodup
    | some k => exact nodup_eraseIdx _ _ i.nodup

theorem Inv.scale {m : Bqm} (i : Inv m) (s : Rat) : Inv (m.scale s) := ⟨i.wf.scale s, i.nodup⟩

theorem Inv.withOff {m : Bqm} (i : Inv m) (x : Rat) : Inv { m with off := x } := ⟨i.wf.withOff x, i.nodup⟩

theorem mem_labels_iff (m : Bqm) (v : Label) : v ∈ (absL m).vars ↔ ∃ i, m.indexOf? v = some i := by
  constructor
  · intro h; exact indexOf?_isSome_of_mem m v h
  · intro ⟨i, hi⟩
    show v ∈ m.labels
    cases hd : decide (v ∈ m.labels) with
    | true => simpa using hd
    | false =>
      have : v ∉ m.labels := by simpa using hd
      rw [(indexOf?_none_iff m v).mpr this] at hi; cases hi

/-- **one step refines one algebraic step**: same polynomial afterwards, same accept / raise outcome,
    and the invariant is kept -/
theorem step_refines {m : Bqm} (i : Inv m) {op : Op} (hb : Basic op) :
    absL (m.step .direct op).1 = ((absL m).step op).1 ∧
    ((m.step .direct op).2 = none ↔ ((absL m).step op).2 = true) ∧
    Inv (m.step .direct op).1 := by
  cases hb with
  | addLinear v b =>
    simp only [Bqm.step, Via.tv, Bqm.lift, LPoly.step, Bqm.vAddLinear, if_true]
    exact ⟨addLinear_refines i.wf v b, by simp, i.addLinear v b⟩
  | setLinear v b =>
    simp only [Bqm.step, Via.tv, Bqm.lift, LPoly.step, Bqm.vSetLinear, if_true]
    exact ⟨setLinear_refines i.wf v b, by simp, i.setLinear v b⟩
  | addQuadratic u v b =>
    simp only [Bqm.step, Via.tv, Bqm.lift, LPoly.step, Bqm.vAddQuadratic, if_true]
    by_cases huv : u = v
    · simp [huv, i]
    · simp only [huv, if_false]
      exact ⟨quadOp_refines i.wf u v b false huv, by simp, i.quadOp u v b false⟩
  | setQuadratic u v b =>
    simp only [Bqm.step, LPoly.step]
    by_cases huv : u = v
    · simp [huv, Bqm.quadOp, i]
    · simp only [huv, if_false]
      refine ⟨quadOp_refines i.wf u v b true huv, ?_, i.quadOp u v b true⟩
      simp [Bqm.quadOp, huv]
  | removeInteraction u v =>
    simp only [Bqm.step, Via.tv, LPoly.step, Bqm.vRemoveInteraction, if_true]
    by_cases hq : ((absL m).quad u v).isSome
    · have := removeInteraction_refines i.wf u v hq
      simp only [hq, if_true]
      exact ⟨this.1, by simp [this.2], i.removeInteraction u v⟩
    · simp only [hq, if_false]
      have hq' : ¬ (m.quadL u v).isSome := hq
      have key : m.removeInteraction u v = (m, some ErrC.value) := by
        unfold Bqm.removeInteraction
        unfold quadL at hq'
        cases hu : m.indexOf? u with
        | none => rfl
        | some ui =>
          cases hv : m.indexOf? v with
          | none => rfl
          | some vi =>
            rw [hu, hv] at hq'
            simp only [] at hq'
            have : nbhCoef (m.adj.getD ui []) vi = none := by
              cases hc : nbhCoef (m.adj.getD ui []) vi with
              | none => rfl
              | some c => exact absurd (by show (coefAt m.adj ui vi).isSome; unfold coefAt; rw [hc]; rfl) hq'
            simp only [this]
      rw [key]
      exact ⟨rfl, by simp, i⟩
  | removeVariable v =>
    simp only [Bqm.step, Via.tv, LPoly.step, Bqm.vRemoveVariable, if_true]
    by_cases hv : v ∈ (absL m).vars
    · obtain ⟨k, hk⟩ := (mem_labels_iff m v).mp hv
      simp only [hv, if_true]
      have key : m.removeVariable (some v) = (m.removeAt k, none) := by
        unfold Bqm.removeVariable; simp only [hk]
      rw [key]
      refine ⟨removeAt_refines i.wf i.nodup hk, by simp, ?_⟩
      have := i.removeVariable (some v); rw [key] at this; exact this
    · simp only [hv, if_false]
      have hnone : m.indexOf? v = none := by
        cases hk : m.indexOf? v with
        | none => rfl
        | some k => exact absurd ((mem_labels_iff m v).mpr ⟨k, hk⟩) hv
      have key : m.removeVariable (some v) = (m, some ErrC.value) := by
        unfold Bqm.removeVariable; simp only [hnone]
      rw [key]
      exact ⟨rfl, by simp, i⟩
  | addVariable v b =>
    simp only [Bqm.step, Bqm.lift, LPoly.step, Bqm.addVariable]
    exact ⟨addLinear_refines i.wf v b, by simp, i.addLinear v b⟩
  | scale s =>
    simp only [Bqm.step, Via.tv, Via.isView, Bqm.lift, LPoly.step, Bqm.vScale]
    exact ⟨scale_refines m s, by simp, i.scale s⟩
  | setOffset b =>
    simp only [Bqm.step, Via.tv, Bqm.lift, LPoly.step, Bqm.vSetOffset, if_true]
    exact ⟨rfl, by simp, i.withOff b⟩

/-- **histories**: after any finite sequence of single-term edits the model holds exactly the polynomial
    obtained by the same algebraic steps -/
theorem history_refines {m : Bqm} (i : Inv m) (ops : List Op) (hb : ∀ op ∈ ops, Basic op) :
    absL (m.run (ops.map fun op => (Via.direct, op))) = (absL m).run ops ∧
    Inv (m.run (ops.map fun op => (Via.direct, op))) := by
  induction ops generalizing m with
  | nil => exact ⟨rfl, i⟩
  | cons op t ih =>
    have s := step_refines i (hb op (by simp))
    simp only [List.map_cons, Bqm.run, LPoly.run]
    rw [← s.1]
    exact ih s.2.2 (fun o ho => hb o (List.mem_cons_of_mem _ ho))

/-- a single-term edit that raises leaves the polynomial as it was -/
theorem basic_error_unchanged {m : Bqm} {op : Op} (hb : Basic op) (e : ErrC) (he : (m.step .direct op).2 = some e) :
    (m.step .direct op).1 = m := by
  cases hb with
  | addLinear v b => simp [Bqm.step, Bqm.lift] at he
  | setLinear v b => simp [Bqm.step, Bqm.lift] at he
  | addQuadratic u v b =>
    simp only [Bqm.step, Bqm.lift] at he ⊢
    split at he
    · split; rfl; rfl
    · simp at he
  | setQuadratic u v b =>
    simp only [Bqm.step, Bqm.quadOp] at he ⊢
    split at he
    · split; rfl; rfl
    · simp at he
  | removeInteraction u v =>
    simp only [Bqm.step, Via.tv, Bqm.vRemoveInteraction, if_true] at he ⊢
    unfold Bqm.removeInteraction at he ⊢
    cases hu : m.indexOf? u with
    | none => rfl
    | some ui =>
      cases hv : m.indexOf? v with
      | none => rfl
      | some vi =>
        rw [hu, hv] at he
        simp only [] at he ⊢
        cases hc : nbhCoef (m.adj.getD ui []) vi with
        | none => rfl
        | some c => rw [hc] at he; simp at he
  | removeVariable v =>
    simp only [Bqm.step, Via.tv, Bqm.vRemoveVariable, if_true, Bqm.removeVariable] at he ⊢
    cases hk : m.indexOf? v with
    | none => rfl
    | some k => rw [hk] at he; simp at he
  | addVariable v b => simp [Bqm.step, Bqm.lift] at he
  | scale s => simp [Bqm.step, Bqm.lift] at he
  | setOffset b => simp [Bqm.step, Bqm.lift] at he

end Bqm
