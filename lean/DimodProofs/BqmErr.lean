import DimodProofs.BqmOps

/-! A call of `Bqm.step` that raises leaves the model unchanged — for every operation except the two bulk
    adders (which are folds and keep the applied prefix, D34), on the model and through views.  The proof
    obligation is real: the composite operations (`VartypeView.remove_interaction`, `remove_variable`,
    `fix_variable`, `contract_variables`) mutate first and call a method that *can* raise last; it does not,
    because labels and interactions established earlier are still there.  Core Lean only. -/

namespace Bqm

/-! ### labels only grow under the adders -/

theorem ext_withLin (m : Bqm) (i : Nat) (f : Rat → Rat) : LabelsExt m { m with lin := modifyAt m.lin i f } := LabelsExt.refl m
theorem ext_withOff (m : Bqm) (x : Rat) : LabelsExt m { m with off := x } := LabelsExt.refl m

theorem ext_vSetOffset (m : Bqm) (tv : VT) (b : Rat) : LabelsExt m (m.vSetOffset tv b) := by
  unfold Bqm.vSetOffset; split <;> exact LabelsExt.refl m

theorem ext_vAddLinear (m : Bqm) (tv : VT) (v : Label) (b : Rat) : LabelsExt m (m.vAddLinear tv v b) := by
  unfold Bqm.vAddLinear
  split
  · exact ext_addLinear m v b
  · cases tv <;> exact (ext_addLinear m v _).trans (ext_withOff _ _)

theorem ext_vAddQuadratic (m : Bqm) (tv : VT) (u v : Label) (b : Rat) : LabelsExt m (m.vAddQuadratic tv u v b) := by
  unfold Bqm.vAddQuadratic
  split
  · exact ext_quadOp m u v b false
  · cases tv
    · exact (((ext_quadOp m u v _ false).trans (ext_addLinear _ u _)).trans (ext_addLinear _ v _)).trans (ext_withOff _ _)
    · exact (((ext_quadOp m u v _ false).trans (ext_addLinear _ u _)).trans (ext_addLinear _ v _)).trans (ext_withOff _ _)

theorem ext_vAddVariable (m : Bqm) (tv : VT) (v : Option Label) (b : Rat) : LabelsExt m (m.vAddVariable tv v b) := by
  unfold Bqm.vAddVariable; exact (ext_addLinear m _ 0).trans (ext_vAddLinear _ tv _ b)

theorem ext_vSetLinear (m : Bqm) (tv : VT) (v : Label) (b : Rat) : LabelsExt m (m.vSetLinear tv v b) := by
  unfold Bqm.vSetLinear
  split
  · exact ext_setLinear m v b
  · simp only []
    split
    · exact ext_vAddLinear m tv v 0
    · exact (ext_vAddLinear m tv v 0).trans (ext_vAddLinear _ tv v _)

theorem ext_vSetQuadratic (m : Bqm) (tv : VT) (u v : Label) (b : Rat) : LabelsExt m (m.vSetQuadratic tv u v b).1 := by
  unfold Bqm.vSetQuadratic
  split
  · exact LabelsExt.refl m
  · have e3 := ((ext_vAddVariable m tv (some u) 0).trans (ext_vAddVariable _ tv (some v) 0)).trans (ext_vAddQuadratic _ tv u v 0)
    simp only []
    split
    · exact e3.trans (ext_vAddQuadratic _ tv u v _)
    · exact e3

theorem ext_removeInteraction (m : Bqm) (u v : Label) : LabelsExt m (m.removeInteraction u v).1 :=
  ⟨[], by rw [labels_removeInteraction]; simp⟩

theorem ext_vRemoveInteraction (m : Bqm) (tv : VT) (u v : Label) : LabelsExt m (m.vRemoveInteraction tv u v).1 := by
  unfold Bqm.vRemoveInteraction
  split
  · exact ext_removeInteraction m u v
  · split
    · exact LabelsExt.refl m
    · split
      · split
        · exact LabelsExt.refl m
        · exact (ext_vSetQuadratic m tv u v 0).trans (ext_removeInteraction _ u v)
      · exact LabelsExt.refl m

theorem foldl_ext {α} (f : Bqm → α → Bqm) (hf : ∀ m a, LabelsExt m (f m a)) (l : List α) (m : Bqm) :
    LabelsExt m (l.foldl f m) := by
  induction l generalizing m with
  | nil => exact LabelsExt.refl m
  | cons a t ih => exact (hf m a).trans (ih (f m a))

/-! ### interactions stay under the adders -/

/-- every stored entry of `m` is still stored in `m'` -/
def CoefMono (m m' : Bqm) : Prop := ∀ x y, (coefAt m.adj x y).isSome → (coefAt m'.adj x y).isSome

theorem CoefMono.refl (m : Bqm) : CoefMono m m := fun _ _ h => h
theorem CoefMono.trans {a b c : Bqm} (h1 : CoefMono a b) (h2 : CoefMono b c) : CoefMono a c := fun x y h => h2 x y (h1 x y h)

theorem mono_addLinear {m : Bqm} (h : WF m) (v : Label) (b : Rat) : CoefMono m (m.addLinear v b) := by
  intro x y hs
  unfold Bqm.addLinear
  show (coefAt (m.indexP v).1.adj x y).isSome
  rw [(indexP_spec h v).coef]; exact hs

theorem mono_quadOp {m : Bqm} (h : WF m) (u v : Label) (b : Rat) (set : Bool) : CoefMono m (m.quadOp u v b set).1 := by
  intro x y hs
  unfold Bqm.quadOp
  by_cases huv : u = v
  · simp [huv, hs]
  · simp only [huv, if_false]
    have s1 := indexP_spec h u
    have s2 := indexP_spec s1.wf v
    have hu2 : (m.indexP u).2 < ((m.indexP u).1.indexP v).1.lin.length := by
      have := s2.ext.get s1.get
      have hlt : (m.indexP u).2 < ((m.indexP u).1.indexP v).1.labels.length := by
        rcases Nat.lt_or_ge (m.indexP u).2 ((m.indexP u).1.indexP v).1.labels.length with hh | hh
        · exact hh
        · rw [List.getElem?_eq_none hh] at this; cases this
      rw [← s2.wf.labels_len]; exact hlt
    have hne : (m.indexP u).2 ≠ ((m.indexP u).1.indexP v).2 := by
      intro e
      have g1 := s2.ext.get s1.get
      rw [e, s2.get] at g1
      exact huv (Option.some.inj g1).symm
    show (coefAt (adjSym ((m.indexP u).1.indexP v).1.adj _ _ b set) x y).isSome
    rw [coefAt_adjSym s2.wf.adj _ _ b set hu2 s2.lt hne]
    split
    · rfl
    · rw [s2.coef, s1.coef]; exact hs

theorem mono_withOff (m : Bqm) (x : Rat) : CoefMono m { m with off := x } := CoefMono.refl m

theorem mono_vAddLinear {m : Bqm} (h : WF m) (tv : VT) (v : Label) (b : Rat) : CoefMono m (m.vAddLinear tv v b) := by
  unfold Bqm.vAddLinear
  split
  · exact mono_addLinear h v b
  · cases tv <;> exact (mono_addLinear h v _).trans (mono_withOff _ _)

theorem mono_vAddQuadratic {m : Bqm} (h : WF m) (tv : VT) (u v : Label) (b : Rat) : CoefMono m (m.vAddQuadratic tv u v b) := by
  unfold Bqm.vAddQuadratic
  split
  · exact mono_quadOp h u v b false
  · have h1 := fun c => h.quadOp u v c false
    cases tv
    · exact (((mono_quadOp h u v _ false).trans (mono_addLinear (h1 _) u _)).trans (mono_addLinear ((h1 _).addLinear u _) v _)).trans (mono_withOff _ _)
    · exact (((mono_quadOp h u v _ false).trans (mono_addLinear (h1 _) u _)).trans (mono_addLinear ((h1 _).addLinear u _) v _)).trans (mono_withOff _ _)

theorem mono_vAddVariable {m : Bqm} (h : WF m) (tv : VT) (v : Option Label) (b : Rat) : CoefMono m (m.vAddVariable tv v b) := by
  unfold Bqm.vAddVariable
  exact (mono_addLinear h _ 0).trans (mono_vAddLinear (h.addLinear _ 0) tv _ b)

theorem mono_vSetQuadratic {m : Bqm} (h : WF m) (tv : VT) (u v : Label) (b : Rat) : CoefMono m (m.vSetQuadratic tv u v b).1 := by
  unfold Bqm.vSetQuadratic
  split
  · exact CoefMono.refl m
  · have w1 := h.vAddVariable tv (some u) 0
    have w2 := w1.vAddVariable tv (some v) 0
    have w3 := w2.vAddQuadratic tv u v 0
    have e3 := ((mono_vAddVariable h tv (some u) 0).trans (mono_vAddVariable w1 tv (some v) 0)).trans (mono_vAddQuadratic w2 tv u v 0)
    simp only []
    split
    · exact e3.trans (mono_vAddQuadratic w3 tv u v _)
    · exact e3

/-! ### the last call of the composite operations cannot raise -/

theorem removeVariable_ok {m : Bqm} {l : Label} {i : Nat} (hi : m.indexOf? l = some i) : (m.removeVariable (some l)).2 = none := by
  unfold Bqm.removeVariable; simp only [hi]

theorem removeInteraction_ok {m : Bqm} {u v : Label} {ui vi : Nat} (hu : m.indexOf? u = some ui) (hv : m.indexOf? v = some vi)
    (hs : (coefAt m.adj ui vi).isSome) : (m.removeInteraction u v).2 = none := by
  unfold Bqm.removeInteraction
  rw [hu, hv]
  obtain ⟨c, hc⟩ := Option.isSome_iff_exists.mp hs
  have hc' : nbhCoef (m.adj.getD ui []) vi = some c := hc
  simp only [hc']

theorem vRemoveInteraction_err {m : Bqm} (h : WF m) (tv : VT) (u v : Label) (e : ErrC)
    (he : (m.vRemoveInteraction tv u v).2 = some e) : (m.vRemoveInteraction tv u v).1 = m := by
  unfold Bqm.vRemoveInteraction at he ⊢
  split
  · rename_i htv
    simp only [htv, if_true] at he
    unfold Bqm.removeInteraction at he ⊢
    cases hu : m.indexOf? u with
    | none => rfl
    | some ui =>
      cases hv : m.indexOf? v with
      | none => rfl
      | some vi =>
        rw [hu, hv] at he
        simp only [] at he ⊢
        cases hc : nbhCoef (m.adj.getD ui []) vi with
        | none => rfl
        | some c => rw [hc] at he; simp at he
  · rename_i htv
    simp only [htv, if_false] at he
    split
    · rfl
    · rename_i huv
      simp only [huv, if_false] at he
      cases hu : m.indexOf? u with
      | none => rfl
      | some ui =>
        cases hv : m.indexOf? v with
        | none => rfl
        | some vi =>
          rw [hu, hv] at he
          simp only [] at he ⊢
          cases hq : m.quadAt ui vi with
          | none => rfl
          | some c =>
            rw [hq] at he
            simp only [] at he
            exfalso
            have ext := ext_vSetQuadratic m tv u v 0
            have mono := mono_vSetQuadratic h tv u v 0
            have hs : (coefAt m.adj ui vi).isSome := by
              show (m.quadAt ui vi).isSome; rw [hq]; rfl
            have := removeInteraction_ok (ext.indexOf? hu) (ext.indexOf? hv) (mono ui vi hs)
            rw [this] at he; cases he

theorem vRemoveVariable_ok {m : Bqm} (tv : VT) {l : Label} {i : Nat} (hi : m.indexOf? l = some i) :
    (m.vRemoveVariable tv (some l)).2 = none := by
  unfold Bqm.vRemoveVariable
  split
  · exact removeVariable_ok hi
  · simp only [hi]
    have ext : LabelsExt m (((m.nbhAt i).foldl (fun acc p =>
        match acc.labels[p.1]? with
        | some ul => (acc.vSetQuadratic tv ul l 0).1
        | none => acc) m).vSetLinear tv l 0) := by
      refine (foldl_ext _ ?_ _ m).trans (ext_vSetLinear _ tv l 0)
      intro a p
      split
      · exact ext_vSetQuadratic a tv _ l 0
      · exact LabelsExt.refl a
    exact removeVariable_ok (ext.indexOf? hi)

theorem vRemoveVariable_err {m : Bqm} (tv : VT) (v : Option Label) (e : ErrC)
    (he : (m.vRemoveVariable tv v).2 = some e) : (m.vRemoveVariable tv v).1 = m := by
  by_cases htv : tv = m.vt
  · unfold Bqm.vRemoveVariable at he ⊢
    simp only [htv, if_true] at he ⊢
    unfold Bqm.removeVariable at he ⊢
    cases v with
    | none =>
      simp only [] at he ⊢
      split
      · rfl
      · rename_i hn; simp [hn] at he
    | some l =>
      simp only [] at he ⊢
      cases hk : m.indexOf? l with
      | none => rfl
      | some k => rw [hk] at he; simp at he
  · cases v with
    | some l =>
      cases hk : m.indexOf? l with
      | some k => rw [vRemoveVariable_ok tv hk] at he; cases he
      | none => unfold Bqm.vRemoveVariable; simp only [htv, if_false, hk]
    | none =>
      cases hlast : m.labels.getLast? with
      | none => unfold Bqm.vRemoveVariable; simp only [htv, if_false, hlast]
      | some l =>
        have hmem : l ∈ m.labels := List.mem_of_getLast? hlast
        cases hk : m.indexOf? l with
        | none => exact absurd hmem ((indexOfGo_none l m.labels 0).mp hk)
        | some k =>
          have same : m.vRemoveVariable tv none = m.vRemoveVariable tv (some l) := by
            unfold Bqm.vRemoveVariable; simp only [htv, if_false, hlast]
          rw [same] at he ⊢
          rw [vRemoveVariable_ok tv hk] at he; cases he

theorem vFixVariable_eq {m : Bqm} (tv : VT) {v : Label} (a : Rat) {vi : Nat} (hv : m.indexOf? v = some vi) :
    ∃ m2, LabelsExt m m2 ∧ m.vFixVariable tv v a = m2.vRemoveVariable tv (some v) := by
  unfold Bqm.vFixVariable
  rw [hv]
  refine ⟨_, ?_, rfl⟩
  refine LabelsExt.trans (foldl_ext _ ?_ _ _) (ext_vSetOffset _ tv _)
  intro acc p
  unfold Bqm.fixStep
  split
  · exact ext_vAddLinear acc tv _ _
  · exact LabelsExt.refl acc

theorem vFixVariable_err {m : Bqm} (tv : VT) (v : Label) (a : Rat) (e : ErrC)
    (he : (m.vFixVariable tv v a).2 = some e) : (m.vFixVariable tv v a).1 = m := by
  cases hv : m.indexOf? v with
  | none => unfold Bqm.vFixVariable; rw [hv]
  | some vi =>
    obtain ⟨m2, ext, heq⟩ := vFixVariable_eq tv a hv
    rw [heq] at he
    rw [vRemoveVariable_ok tv (ext.indexOf? hv)] at he
    cases he

theorem vContract_eq {m : Bqm} (tv : VT) {u v : Label} {ui vi : Nat} (hu : m.indexOf? u = some ui) (hv : m.indexOf? v = some vi)
    (hne : ui ≠ vi) : ∃ m4, LabelsExt m m4 ∧ m.vContract tv u v = m4.vRemoveVariable tv (some v) := by
  unfold Bqm.vContract
  rw [hu, hv]
  simp only [hne, if_false]
  refine ⟨_, ?_, rfl⟩
  refine LabelsExt.trans ?_ (foldl_ext _ ?_ _ _)
  · refine LabelsExt.trans ?_ (ext_vRemoveInteraction _ tv u v)
    cases tv
    · exact (ext_vAddLinear m _ u _).trans (ext_vSetOffset _ _ _)
    · exact (ext_vAddLinear m _ u _).trans (ext_vAddLinear _ _ u _)
  · intro acc p
    unfold Bqm.loopBody
    split
    · exact ext_vAddQuadratic acc tv u _ _
    · exact LabelsExt.refl acc

theorem vContract_err {m : Bqm} (tv : VT) (u v : Label) (e : ErrC)
    (he : (m.vContract tv u v).2 = some e) : (m.vContract tv u v).1 = m := by
  cases hu : m.indexOf? u with
  | none => unfold Bqm.vContract; rw [hu]
  | some ui =>
    cases hv : m.indexOf? v with
    | none => unfold Bqm.vContract; rw [hu, hv]
    | some vi =>
      by_cases hne : ui = vi
      · unfold Bqm.vContract; rw [hu, hv]; simp only [hne, if_true]
      · obtain ⟨m4, ext, heq⟩ := vContract_eq tv hu hv hne
        rw [heq] at he
        rw [vRemoveVariable_ok tv (ext.indexOf? hv)] at he
        cases he

/-- the operations whose failure must leave the model unchanged: everything but the two bulk adders -/
def SingleTerm : Op → Prop
  | .addLinearFrom _ => False
  | .addQuadraticFrom _ => False
  | _ => True

/-- **a call that raises leaves the model unchanged** -/
theorem error_leaves_unchanged {m : Bqm} (h : WF m) (via : Via) (op : Op) (hs : SingleTerm op) (e : ErrC)
    (he : (m.step via op).2 = some e) : (m.step via op).1 = m := by
  cases op <;> simp only [Bqm.step, Bqm.lift] at he ⊢
  case addLinear v b => cases v <;> simp at he ⊢
  case setLinear v b => cases v <;> simp at he ⊢
  case addQuadratic u v b =>
    cases u <;> cases v <;> simp only [] at he ⊢ <;> try rfl
    split at he
    · split <;> rfl
    · simp at he
  case setQuadratic u v b =>
    cases u <;> cases v <;> simp only [] at he ⊢ <;> try rfl
    cases via
    · simp only [] at he ⊢
      unfold Bqm.quadOp at he ⊢
      split at he
      · split <;> rfl
      · simp at he
    · simp only [] at he ⊢
      unfold Bqm.vSetQuadratic at he ⊢
      split at he
      · split <;> rfl
      · simp only [] at he
        split at he <;> simp at he
  case removeInteraction u v => exact vRemoveInteraction_err h _ u v e he
  case removeVariable v => exact vRemoveVariable_err _ v e he
  case addVariable v b => cases via <;> simp at he
  case resize k =>
    cases via
    · simp only [] at he ⊢
      unfold Bqm.resize at he ⊢
      split at he
      · split <;> rfl
      · simp at he
    · rfl
  case scale s => simp at he
  case setOffset b => simp at he
  case changeVartype vt => cases via <;> simp at he
  case fixVariable v a => exact vFixVariable_err _ v a e he
  case contract u v => exact vContract_err _ u v e he
  case flip v =>
    unfold Bqm.vFlip at he ⊢
    cases hv : m.indexOf? v with
    | none => rfl
    | some vi =>
      rw [hv] at he
      simp only [] at he
      generalize via.tv m = tv at he
      cases tv <;> simp at he
  case relabel mp =>
    unfold Bqm.relabel at he ⊢
    cases hsx : LSpec.step m.labels (.relabel mp) with
    | mk l ok =>
      rw [hsx] at he
      cases ok with
      | true => simp at he
      | false => rfl
  case relabelInts => simp at he
  case clear => simp at he
  case update o => simp at he
  case addLinearFrom l => exact absurd hs id
  case addQuadraticFrom l => exact absurd hs id
  case addLinearFromArray xs => cases via <;> simp at he ⊢
  case addQuadraticFromDense k d =>
    cases via
    · simp only [] at he ⊢
      unfold Bqm.addQuadraticFromDense at he ⊢
      split
      · rfl
      · split
        · rfl
        · rename_i h1 h2
          rw [if_neg h1, if_neg h2] at he
          exact absurd he (by simp)
    · rfl

/-- bulk adders: on error the result is the fold over the longest error-free prefix (what D34 is about) -/
theorem bulk_linear_prefix (m : Bqm) (tv : VT) (pre : List (Label × Rat)) (bad : Rat) (rest : List (Option Label × Rat)) :
    (m.vAddLinearFrom tv (pre.map (fun p => (some p.1, p.2)) ++ (none, bad) :: rest)) =
      (pre.foldl (fun acc p => acc.vAddLinear tv p.1 p.2) m, some .value) := by
  induction pre generalizing m with
  | nil => rfl
  | cons p t ih => simp only [List.map_cons, List.cons_append, Bqm.vAddLinearFrom, List.foldl]; exact ih _

end Bqm
