import DimodProofs.BqmWF

/-! `Bqm.WF` — the representation invariant of the whole model (labels ↔ native model in step, adjacency
    well-formed) — is preserved by every operation of `Bqm.step`.  Core Lean only. -/

namespace Bqm

/-- lengths agree (label list, linear biases, neighbourhoods) and the adjacency is well-formed with
    no self-loop (a BQM's variables are all SPIN or all BINARY) -/
structure WF (m : Bqm) : Prop where
  labels_len : m.labels.length = m.lin.length
  adj : AdjWF m.lin.length m.adj (fun _ => false)

theorem WF.empty (vt : VT) : WF (Bqm.empty vt) := ⟨rfl, AdjWF.nil _⟩

/-! ### label → index -/

theorem indexOfGo_some (v : Label) (ls : List Label) (k i : Nat) (h : indexOfGo v ls k = some i) :
    k ≤ i ∧ i < k + ls.length ∧ ls[i - k]? = some v := by
  induction ls generalizing k with
  | nil => simp [indexOfGo] at h
  | cons l t ih =>
    simp only [indexOfGo] at h
    by_cases hl : l = v
    · simp only [hl, if_true, Option.some.injEq] at h
      subst h; subst hl; simp
    · simp only [hl, if_false] at h
      obtain ⟨h1, h2, h3⟩ := ih (k + 1) h
      refine ⟨by omega, by simp; omega, ?_⟩
      have : i - k = (i - (k + 1)) + 1 := by omega
      rw [this]; simpa using h3

theorem indexOfGo_none (v : Label) (ls : List Label) (k : Nat) : indexOfGo v ls k = none ↔ v ∉ ls := by
  induction ls generalizing k with
  | nil => simp [indexOfGo]
  | cons l t ih =>
    simp only [indexOfGo]
    by_cases hl : l = v
    · simp [hl]
    · simp only [hl, if_false, ih, List.mem_cons, not_or]
      constructor
      · intro h; exact ⟨fun e => hl e.symm, h⟩
      · intro h; exact h.2

theorem indexOfGo_append_some (v : Label) (ls e : List Label) (k i : Nat) (h : indexOfGo v ls k = some i) :
    indexOfGo v (ls ++ e) k = some i := by
  induction ls generalizing k with
  | nil => simp [indexOfGo] at h
  | cons l t ih =>
    simp only [indexOfGo, List.cons_append] at h ⊢
    by_cases hl : l = v
    · simpa [hl] using h
    · simp only [hl, if_false] at h ⊢; exact ih (k + 1) h

theorem indexOfGo_append_none (v : Label) (ls : List Label) (k : Nat) (h : indexOfGo v ls k = none) :
    indexOfGo v (ls ++ [v]) k = some (k + ls.length) := by
  induction ls generalizing k with
  | nil => simp [indexOfGo]
  | cons l t ih =>
    simp only [indexOfGo, List.cons_append] at h ⊢
    by_cases hl : l = v
    · simp [hl] at h
    · simp only [hl, if_false] at h ⊢
      rw [ih (k + 1) h]; simp; omega

theorem indexOf?_some {m : Bqm} {v : Label} {i : Nat} (h : m.indexOf? v = some i) :
    i < m.labels.length ∧ m.labels[i]? = some v := by
  have := indexOfGo_some v m.labels 0 i h
  exact ⟨by omega, by simpa using this.2.2⟩

/-- `m'` has the labels of `m`, possibly followed by new ones -/
def LabelsExt (m m' : Bqm) : Prop := ∃ e, m'.labels = m.labels ++ e

theorem LabelsExt.refl (m : Bqm) : LabelsExt m m := ⟨[], by simp⟩
theorem LabelsExt.trans {a b c : Bqm} (h1 : LabelsExt a b) (h2 : LabelsExt b c) : LabelsExt a c := by
  obtain ⟨e1, h1⟩ := h1; obtain ⟨e2, h2⟩ := h2
  exact ⟨e1 ++ e2, by rw [h2, h1, List.append_assoc]⟩

theorem LabelsExt.indexOf? {m m' : Bqm} (h : LabelsExt m m') {v : Label} {i : Nat} (hi : m.indexOf? v = some i) :
    m'.indexOf? v = some i := by
  obtain ⟨e, he⟩ := h
  unfold Bqm.indexOf? at hi ⊢
  rw [he]; exact indexOfGo_append_some v _ e 0 i hi

theorem LabelsExt.get {m m' : Bqm} (h : LabelsExt m m') {i : Nat} {v : Label} (hi : m.labels[i]? = some v) :
    m'.labels[i]? = some v := by
  obtain ⟨e, he⟩ := h
  rw [he]
  have hlt : i < m.labels.length := by
    rcases Nat.lt_or_ge i m.labels.length with h | h
    · exact h
    · rw [List.getElem?_eq_none h] at hi; cases hi
  rw [List.getElem?_append_left hlt]; exact hi

/-! ### primitives preserve `WF` -/

theorem WF.pushVar {m : Bqm} (h : WF m) (v : Label) : WF (m.pushVar v) := by
  refine ⟨by simp [Bqm.pushVar, h.labels_len], ?_⟩
  show AdjWF (m.lin ++ [0]).length (m.adj ++ [[]]) _
  rw [List.length_append]
  exact h.adj.push

theorem WF.withLin {m : Bqm} (h : WF m) (i : Nat) (f : Rat → Rat) : WF { m with lin := modifyAt m.lin i f } := by
  refine ⟨by simp [h.labels_len], ?_⟩
  show AdjWF (modifyAt m.lin i f).length m.adj _
  rw [length_modifyAt]; exact h.adj

theorem WF.withOff {m : Bqm} (h : WF m) (x : Rat) : WF { m with off := x } := ⟨h.labels_len, h.adj⟩

theorem WF.withVt {m : Bqm} (h : WF m) (x : VT) : WF { m with vt := x } := ⟨h.labels_len, h.adj⟩

/-- what `_index(v, permissive=True)` guarantees -/
structure IndexP (m : Bqm) (v : Label) (m' : Bqm) (i : Nat) : Prop where
  wf : WF m'
  lt : i < m'.lin.length
  get : m'.labels[i]? = some v
  ext : LabelsExt m m'
  idx : m'.indexOf? v = some i
  vt : m'.vt = m.vt
  off : m'.off = m.off
  lin : ∀ j, m'.lin.getD j 0 = m.lin.getD j 0
  coef : ∀ x y, coefAt m'.adj x y = coefAt m.adj x y
  /-- either `v` was a label already and nothing changed, or it has been appended -/
  cases : (m' = m ∧ m.indexOf? v = some i) ∨ (m.indexOf? v = none ∧ m' = m.pushVar v ∧ i = m.lin.length)

theorem getD_append_zero (l : List Rat) (j : Nat) : (l ++ [0]).getD j 0 = l.getD j 0 := by
  rcases Nat.lt_or_ge j l.length with h | h
  · simp [List.getD, List.getElem?_append_left h]
  · rw [getD_of_ge l 0 j h]
    rcases Nat.lt_or_ge l.length j with h2 | h2
    · exact getD_of_ge _ _ _ (by simp; omega)
    · have : j = l.length := by omega
      subst this; simp [List.getD]

theorem indexP_spec {m : Bqm} (h : WF m) (v : Label) : IndexP m v (m.indexP v).1 (m.indexP v).2 := by
  unfold Bqm.indexP
  cases hi : m.indexOf? v with
  | some i =>
    have := indexOf?_some hi
    exact ⟨h, by rw [← h.labels_len]; exact this.1, this.2, LabelsExt.refl m, hi, rfl, rfl, fun _ => rfl, fun _ _ => rfl,
      Or.inl ⟨rfl, hi⟩⟩
  | none =>
    refine ⟨h.pushVar v, by simp [Bqm.pushVar, Bqm.n], ?_, ⟨[v], rfl⟩, ?_, rfl, rfl, ?_, ?_, Or.inr ⟨hi, rfl, rfl⟩⟩
    · simp [Bqm.pushVar, Bqm.n, ← h.labels_len]
    · have := indexOfGo_append_none v m.labels 0 hi
      simp only [Bqm.indexOf?, Bqm.pushVar, Bqm.n, ← h.labels_len]
      simpa using this
    · intro j; exact getD_append_zero m.lin j
    · intro x y; exact coefAt_push m.adj x y

theorem WF.addLinear {m : Bqm} (h : WF m) (v : Label) (b : Rat) : WF (m.addLinear v b) := by
  unfold Bqm.addLinear
  exact (indexP_spec h v).wf.withLin _ _

theorem WF.setLinear {m : Bqm} (h : WF m) (v : Label) (b : Rat) : WF (m.setLinear v b) := by
  unfold Bqm.setLinear
  exact (indexP_spec h v).wf.withLin _ _

theorem ext_addLinear (m : Bqm) (v : Label) (b : Rat) : LabelsExt m (m.addLinear v b) := by
  unfold Bqm.addLinear Bqm.indexP
  cases m.indexOf? v with
  | some i => exact LabelsExt.refl m
  | none => exact ⟨[v], rfl⟩

theorem ext_setLinear (m : Bqm) (v : Label) (b : Rat) : LabelsExt m (m.setLinear v b) := by
  unfold Bqm.setLinear Bqm.indexP
  cases m.indexOf? v with
  | some i => exact LabelsExt.refl m
  | none => exact ⟨[v], rfl⟩

theorem WF.withAdjSym {m : Bqm} (h : WF m) (u v : Nat) (b : Rat) (set : Bool)
    (hu : u < m.lin.length) (hv : v < m.lin.length) (hne : u ≠ v) :
    WF ((m.asym u v b set).asym v u b set) :=
  ⟨h.labels_len, h.adj.adjSym u v b set hu hv hne⟩

theorem WF.quadOp {m : Bqm} (h : WF m) (u v : Label) (b : Rat) (set : Bool) : WF (m.quadOp u v b set).1 := by
  unfold Bqm.quadOp
  by_cases huv : u = v
  · simp [huv, h]
  · simp only [huv, if_false]
    have s1 := indexP_spec h u
    have s2 := indexP_spec s1.wf v
    have hu2 : (m.indexP u).2 < ((m.indexP u).1.indexP v).1.lin.length := by
      have := s2.ext.get s1.get
      have hlt : (m.indexP u).2 < ((m.indexP u).1.indexP v).1.labels.length := by
        rcases Nat.lt_or_ge (m.indexP u).2 ((m.indexP u).1.indexP v).1.labels.length with hh | hh
        · exact hh
        · rw [List.getElem?_eq_none hh] at this; cases this
      rw [← s2.wf.labels_len]; exact hlt
    have hne : (m.indexP u).2 ≠ ((m.indexP u).1.indexP v).2 := by
      intro e
      have g1 := s2.ext.get s1.get
      rw [e, s2.get] at g1
      exact huv (Option.some.inj g1).symm
    exact s2.wf.withAdjSym _ _ b set hu2 s2.lt hne

theorem ext_quadOp (m : Bqm) (u v : Label) (b : Rat) (set : Bool) : LabelsExt m (m.quadOp u v b set).1 := by
  unfold Bqm.quadOp
  by_cases huv : u = v
  · simp [huv, LabelsExt.refl]
  · simp only [huv, if_false]
    have e1 : LabelsExt m (m.indexP u).1 := by
      unfold Bqm.indexP; cases m.indexOf? u with
      | some i => exact LabelsExt.refl m
      | none => exact ⟨[u], rfl⟩
    have e2 : LabelsExt (m.indexP u).1 ((m.indexP u).1.indexP v).1 := by
      generalize (m.indexP u).1 = m1
      unfold Bqm.indexP; cases m1.indexOf? v with
      | some i => exact LabelsExt.refl m1
      | none => exact ⟨[v], rfl⟩
    exact e1.trans e2

theorem WF.removeInteraction {m : Bqm} (h : WF m) (u v : Label) : WF (m.removeInteraction u v).1 := by
  unfold Bqm.removeInteraction
  cases hu : m.indexOf? u with
  | none => exact h
  | some ui =>
    cases hv : m.indexOf? v with
    | none => exact h
    | some vi =>
      simp only []
      cases nbhCoef (m.adj.getD ui []) vi with
      | none => exact h
      | some c =>
        have h1 := (indexOf?_some hu).1
        have h2 := (indexOf?_some hv).1
        rw [h.labels_len] at h1 h2
        exact ⟨h.labels_len, h.adj.adjDrop ui vi h1 h2⟩

theorem labels_removeInteraction (m : Bqm) (u v : Label) : (m.removeInteraction u v).1.labels = m.labels := by
  unfold Bqm.removeInteraction
  cases m.indexOf? u with
  | none => rfl
  | some ui =>
    cases m.indexOf? v with
    | none => rfl
    | some vi =>
      simp only []
      cases nbhCoef (m.adj.getD ui []) vi <;> rfl

theorem WF.removeAt {m : Bqm} (h : WF m) (vi : Nat) (hvi : vi < m.lin.length) : WF (m.removeAt vi) := by
  have hl : (Bqm.eraseIdx m.lin vi).length = m.lin.length - 1 := length_eraseIdx _ _ hvi
  refine ⟨?_, ?_⟩
  · show (Bqm.eraseIdx m.labels vi).length = (Bqm.eraseIdx m.lin vi).length
    rw [hl, length_eraseIdx _ _ (by rw [h.labels_len]; exact hvi), h.labels_len]
  · show AdjWF (Bqm.eraseIdx m.lin vi).length (adjRemove m.adj vi) _
    rw [hl]
    exact h.adj.adjRemove vi hvi

theorem WF.removeVariable {m : Bqm} (h : WF m) (v : Option Label) : WF (m.removeVariable v).1 := by
  unfold Bqm.removeVariable
  cases v with
  | none =>
    simp only []
    by_cases hn : m.n = 0
    · simp [hn, h]
    · simp only [hn, if_false]
      exact h.removeAt _ (by unfold Bqm.n at hn ⊢; omega)
  | some v =>
    simp only []
    cases hi : m.indexOf? v with
    | none => exact h
    | some i =>
      have := (indexOf?_some hi).1
      rw [h.labels_len] at this
      exact h.removeAt i this

theorem WF.scale {m : Bqm} (h : WF m) (s : Rat) : WF (m.scale s) := by
  refine ⟨by simp [Bqm.scale, h.labels_len], ?_⟩
  show AdjWF (m.lin.map (· * s)).length (adjScale m.adj s) _
  rw [List.length_map]; exact h.adj.adjScale s

theorem WF.substituteAll {m : Bqm} (h : WF m) (a c : Rat) : WF (m.substituteAll a c) := by
  refine ⟨by simp [Bqm.substituteAll, h.labels_len, h.adj.len], ?_⟩
  show AdjWF _ (adjScale m.adj (a * a)) _
  simp only [Bqm.substituteAll, List.length_map, List.length_zip]
  have : min m.lin.length m.adj.length = m.lin.length := by rw [h.adj.len]; simp
  rw [this]
  exact h.adj.adjScale (a * a)

theorem WF.changeVartype {m : Bqm} (h : WF m) (vt : VT) : WF (m.changeVartype vt) := by
  unfold Bqm.changeVartype
  by_cases hv : m.vt = vt
  · simp [hv, h]
  · simp only [hv, if_false]
    cases vt
    · exact (h.substituteAll _ _).withVt _
    · exact (h.substituteAll _ _).withVt _

theorem WF.clear {m : Bqm} (_h : WF m) : WF m.clear := ⟨rfl, AdjWF.nil _⟩

theorem WF.relabelInts {m : Bqm} (h : WF m) : WF m.relabelInts := by
  refine ⟨?_, h.adj⟩
  show ((List.range m.labels.length).map _).length = m.lin.length
  simp [h.labels_len]

theorem lspec_relabel_length (l : List Label) (mp : List (Label × Label)) :
    (LSpec.step l (.relabel mp)).1.length = l.length := by
  simp only [LSpec.step]
  split <;> simp [LSpec.subst]

theorem WF.relabel {m : Bqm} (h : WF m) (mp : List (Label × Label)) : WF (m.relabel mp).1 := by
  unfold Bqm.relabel
  have hl := lspec_relabel_length m.labels mp
  cases hs : LSpec.step m.labels (.relabel mp) with
  | mk l ok =>
    rw [hs] at hl
    cases ok with
    | true => exact ⟨by simpa [h.labels_len] using hl, h.adj⟩
    | false => exact h

theorem WF.addVariable {m : Bqm} (h : WF m) (v : Option Label) (b : Rat) : WF (m.addVariable v b) := by
  unfold Bqm.addVariable; exact h.addLinear _ _

theorem WF.growTo {m : Bqm} (h : WF m) (k fuel : Nat) : WF (Bqm.growTo k fuel m) := by
  induction fuel generalizing m with
  | zero => exact h
  | succ f ih =>
    simp only [Bqm.growTo]
    split
    · exact ih (h.pushVar _)
    · exact h

theorem WF.shrinkTo {m : Bqm} (h : WF m) (k fuel : Nat) : WF (Bqm.shrinkTo k fuel m) := by
  induction fuel generalizing m with
  | zero => exact h
  | succ f ih =>
    simp only [Bqm.shrinkTo]
    split
    · rename_i hgt
      exact ih (h.removeAt _ (by unfold Bqm.n at hgt ⊢; omega))
    · exact h

theorem WF.resize {m : Bqm} (h : WF m) (k : Int) : WF (m.resize k).1 := by
  unfold Bqm.resize
  by_cases hk : k < 0
  · simp [hk, h]
  · simp only [hk, if_false]
    exact (h.growTo _ _).shrinkTo _ _

/-! ### `VartypeView` and the Python-level operations: compositions of the above -/

theorem foldl_pres {α} (P : Bqm → Prop) (f : Bqm → α → Bqm) (hf : ∀ m a, P m → P (f m a)) (l : List α) (m : Bqm)
    (h : P m) : P (l.foldl f m) := by
  induction l generalizing m with
  | nil => exact h
  | cons a t ih => exact ih _ (hf m a h)

theorem WF.vSetOffset {m : Bqm} (h : WF m) (tv : VT) (b : Rat) : WF (m.vSetOffset tv b) := by
  unfold Bqm.vSetOffset; split <;> exact h.withOff _

theorem WF.vAddLinear {m : Bqm} (h : WF m) (tv : VT) (v : Label) (b : Rat) : WF (m.vAddLinear tv v b) := by
  unfold Bqm.vAddLinear
  split
  · exact h.addLinear v b
  · cases tv
    · exact (h.addLinear _ _).withOff _
    · exact (h.addLinear _ _).withOff _

theorem WF.vAddQuadratic {m : Bqm} (h : WF m) (tv : VT) (u v : Label) (b : Rat) : WF (m.vAddQuadratic tv u v b) := by
  unfold Bqm.vAddQuadratic
  split
  · exact h.quadOp u v b false
  · cases tv
    · exact ((((h.quadOp u v _ false).addLinear _ _).addLinear _ _).withOff _)
    · exact ((((h.quadOp u v _ false).addLinear _ _).addLinear _ _).withOff _)

theorem WF.vAddVariable {m : Bqm} (h : WF m) (tv : VT) (v : Option Label) (b : Rat) : WF (m.vAddVariable tv v b) := by
  unfold Bqm.vAddVariable; exact (h.addLinear _ _).vAddLinear _ _ _

theorem WF.vSetLinear {m : Bqm} (h : WF m) (tv : VT) (v : Label) (b : Rat) : WF (m.vSetLinear tv v b) := by
  unfold Bqm.vSetLinear
  split
  · exact h.setLinear v b
  · simp only []
    split
    · exact h.vAddLinear _ _ _
    · exact (h.vAddLinear _ _ _).vAddLinear _ _ _

theorem WF.vSetQuadratic {m : Bqm} (h : WF m) (tv : VT) (u v : Label) (b : Rat) : WF (m.vSetQuadratic tv u v b).1 := by
  unfold Bqm.vSetQuadratic
  split
  · exact h
  · have h3 := ((h.vAddVariable tv (some u) 0).vAddVariable tv (some v) 0).vAddQuadratic tv u v 0
    simp only []
    split
    · exact h3.vAddQuadratic _ _ _ _
    · exact h3

theorem WF.vRemoveInteraction {m : Bqm} (h : WF m) (tv : VT) (u v : Label) : WF (m.vRemoveInteraction tv u v).1 := by
  unfold Bqm.vRemoveInteraction
  split
  · exact h.removeInteraction u v
  · split
    · exact h
    · split
      · split
        · exact h
        · exact (h.vSetQuadratic tv u v 0).removeInteraction u v
      · exact h

theorem WF.vRemoveVariable {m : Bqm} (h : WF m) (tv : VT) (v : Option Label) : WF (m.vRemoveVariable tv v).1 := by
  unfold Bqm.vRemoveVariable
  split
  · exact h.removeVariable v
  · simp only []
    split
    · exact h
    · split
      · exact h
      · refine WF.removeVariable (WF.vSetLinear ?_ _ _ _) _
        apply foldl_pres WF _ _ _ _ h
        intro a p ha
        unfold Bqm.loopBody
        split
        · exact ha.vSetQuadratic _ _ _ _
        · exact ha

theorem WF.vFixVariable {m : Bqm} (h : WF m) (tv : VT) (v : Label) (a : Rat) : WF (m.vFixVariable tv v a).1 := by
  unfold Bqm.vFixVariable
  split
  · exact h
  · refine WF.vRemoveVariable (WF.vSetOffset ?_ _ _) _ _
    apply foldl_pres WF _ _ _ _ h
    intro a p ha
    unfold Bqm.fixStep
    split
    · exact ha.vAddLinear _ _ _
    · exact ha

theorem WF.vScale {m : Bqm} (h : WF m) (tv : VT) (viaView : Bool) (s : Rat) : WF (m.vScale tv viaView s) := by
  unfold Bqm.vScale
  split
  · exact h.scale s
  · refine WF.vSetOffset ?_ _ _
    apply foldl_pres WF
    · intro a t ha
      unfold Bqm.scaleQuadStep
      split
      · exact ha.vSetQuadratic _ _ _ _
      · exact ha
    · apply foldl_pres WF _ _ _ _ h
      intro a i ha
      unfold Bqm.scaleLinStep
      split
      · exact ha.vSetLinear _ _ _
      · exact ha

theorem WF.vContract {m : Bqm} (h : WF m) (tv : VT) (u v : Label) : WF (m.vContract tv u v).1 := by
  unfold Bqm.vContract
  split
  · split
    · exact h
    · refine WF.vRemoveVariable ?_ _ _
      apply foldl_pres WF
      · intro a p ha
        unfold Bqm.loopBody
        split
        · exact ha.vAddQuadratic _ _ _ _
        · exact ha
      · refine WF.vRemoveInteraction ?_ _ _ _
        cases tv
        · exact (h.vAddLinear _ _ _).vSetOffset _ _
        · exact (h.vAddLinear _ _ _).vAddLinear _ _ _
  · exact h

theorem WF.setQuadVia {m : Bqm} (h : WF m) (tv : VT) (vv : Bool) (u v : Label) (b : Rat) : WF (m.setQuadVia tv vv u v b) := by
  unfold Bqm.setQuadVia
  split
  · exact h.vSetQuadratic _ _ _ _
  · exact h.quadOp _ _ _ _

theorem WF.vFlip {m : Bqm} (h : WF m) (tv : VT) (vv : Bool) (v : Label) : WF (m.vFlip tv vv v).1 := by
  unfold Bqm.vFlip
  split
  · exact h
  · cases tv
    · refine WF.vSetLinear ?_ _ _ _
      apply foldl_pres WF _ _ _ _ h
      intro a p ha
      unfold Bqm.loopBody
      split
      · exact ha.setQuadVia _ _ _ _ _
      · exact ha
    · refine WF.vSetLinear (WF.vSetOffset ?_ _ _) _ _ _
      apply foldl_pres WF _ _ _ _ h
      intro a p ha
      unfold Bqm.loopBody
      split
      · exact (ha.setQuadVia _ _ _ _ _).vAddLinear _ _ _
      · exact ha

theorem WF.vAddLinearFrom {m : Bqm} (h : WF m) (tv : VT) (l : List (Option Label × Rat)) :
    WF (m.vAddLinearFrom tv l).1 := by
  induction l generalizing m with
  | nil => exact h
  | cons p t ih =>
    obtain ⟨v, b⟩ := p
    cases v with
    | none => exact h
    | some v => exact ih (h.vAddLinear tv v b)

theorem WF.vAddQuadraticFrom {m : Bqm} (h : WF m) (tv : VT) (l : List (Option Label × Option Label × Rat)) :
    WF (m.vAddQuadraticFrom tv l).1 := by
  induction l generalizing m with
  | nil => exact h
  | cons p t ih =>
    obtain ⟨u, v, b⟩ := p
    cases u with
    | none => exact h
    | some u =>
      cases v with
      | none => exact h
      | some v =>
        simp only [Bqm.vAddQuadraticFrom]
        split
        · exact h
        · exact ih (h.vAddQuadratic tv u v b)

theorem WF.vUpdate {m : Bqm} (h : WF m) (tv : VT) (o : Bqm) : WF (m.vUpdate tv o) := by
  unfold Bqm.vUpdate
  refine WF.vSetOffset ?_ _ _
  apply foldl_pres WF
  · intro a t ha; exact ha.vAddQuadratic _ _ _ _
  · apply foldl_pres WF _ _ _ _ h
    intro a p ha; exact ha.vAddLinear _ _ _

theorem WF.addLinearFromArray {m : Bqm} (h : WF m) (xs : List Rat) : WF (m.addLinearFromArray xs) := by
  unfold Bqm.addLinearFromArray
  split
  · have h1 : WF (if xs.length > m.n then (m.resize ↑xs.length).1 else m) := by
      split
      · exact h.resize _
      · exact h
    generalize (if xs.length > m.n then (m.resize ↑xs.length).1 else m) = m1 at h1
    refine ⟨?_, ?_⟩
    · show m1.labels.length = ((List.range xs.length).foldl _ m1.lin).length
      have : ∀ (l : List Nat) (lin : List Rat), (l.foldl (fun l i => modifyAt l i (· + xs.getD i 0)) lin).length = lin.length := by
        intro l; induction l with
        | nil => intro lin; rfl
        | cons a t ih => intro lin; simp only [List.foldl]; rw [ih]; simp
      rw [this]; exact h1.labels_len
    · show AdjWF ((List.range xs.length).foldl _ m1.lin).length m1.adj _
      have : ∀ (l : List Nat) (lin : List Rat), (l.foldl (fun l i => modifyAt l i (· + xs.getD i 0)) lin).length = lin.length := by
        intro l; induction l with
        | nil => intro lin; rfl
        | cons a t ih => intro lin; simp only [List.foldl]; rw [ih]; simp
      rw [this]; exact h1.adj
  · apply foldl_pres WF _ _ _ _ h
    intro a i ha; exact ha.addLinear _ _

theorem n_pushVar (m : Bqm) (v : Label) : (m.pushVar v).n = m.n + 1 := by simp [Bqm.pushVar, Bqm.n]

theorem n_removeAt (m : Bqm) (vi : Nat) (h : vi < m.n) : (m.removeAt vi).n = m.n - 1 := by
  unfold Bqm.n at *; exact length_eraseIdx _ _ h

theorem n_growTo_ge (k fuel : Nat) (m : Bqm) (h : k ≤ m.n + fuel) : k ≤ (Bqm.growTo k fuel m).n := by
  induction fuel generalizing m with
  | zero => simpa [Bqm.growTo] using h
  | succ f ih =>
    simp only [Bqm.growTo]
    split
    · apply ih; rw [n_pushVar]; omega
    · omega

theorem n_shrinkTo_ge (k fuel : Nat) (m : Bqm) (h : k ≤ m.n) : k ≤ (Bqm.shrinkTo k fuel m).n := by
  induction fuel generalizing m with
  | zero => simpa [Bqm.shrinkTo] using h
  | succ f ih =>
    simp only [Bqm.shrinkTo]
    split
    · rename_i hgt
      apply ih; rw [n_removeAt _ _ (by omega)]; omega
    · exact h

theorem n_resize_ge (m : Bqm) (k : Nat) : k ≤ (m.resize k).1.n := by
  unfold Bqm.resize
  have : ¬ ((k : Int) < 0) := by omega
  simp only [this, if_false, Int.toNat_natCast]
  exact n_shrinkTo_ge _ _ _ (n_growTo_ge _ _ _ (by omega))

theorem WF.addQ {m : Bqm} (h : WF m) (u v : Nat) (b : Rat) (hu : u < m.n) (hv : v < m.n) (hne : u ≠ v) :
    WF (m.addQ u v b) := h.withAdjSym u v b false hu hv hne

theorem WF.addQuadraticFromDense {m : Bqm} (h : WF m) (k : Nat) (d : List Rat) : WF (m.addQuadraticFromDense k d).1 := by
  unfold Bqm.addQuadraticFromDense
  split
  · exact h
  · split
    · exact h
    · have h1 : WF (if k > m.n then (m.resize ↑k).1 else m) ∧ k ≤ (if k > m.n then (m.resize ↑k).1 else m).n := by
        split
        · exact ⟨h.resize _, n_resize_ge m k⟩
        · exact ⟨h, by omega⟩
      generalize (if k > m.n then (m.resize ↑k).1 else m) = m1 at h1
      simp only []
      have key : ∀ (ps : List (Nat × Nat)) (acc : Bqm), (∀ p ∈ ps, p.1 < p.2 ∧ p.2 < k) → (WF acc ∧ k ≤ acc.n) →
          (WF (ps.foldl (fun acc p =>
            if d.getD (p.1 * k + p.2) 0 + d.getD (p.2 * k + p.1) 0 ≠ 0 then
              acc.addQ p.1 p.2 (d.getD (p.1 * k + p.2) 0 + d.getD (p.2 * k + p.1) 0) else acc) acc)) := by
        intro ps
        induction ps with
        | nil => intro acc _ ha; exact ha.1
        | cons p t ih =>
          intro acc hp ha
          simp only [List.foldl]
          apply ih _ (fun q hq => hp q (List.mem_cons_of_mem _ hq))
          have hp0 := hp p (by simp)
          split
          · exact ⟨ha.1.addQ _ _ _ (by omega) (by omega) (by omega), by show k ≤ acc.lin.length; exact ha.2⟩
          · exact ha
      apply key _ _ _ h1
      intro p hp
      obtain ⟨u, hu, hp⟩ := List.mem_flatMap.mp hp
      obtain ⟨v, hv, rfl⟩ := List.mem_map.mp hp
      have hv' := List.mem_filter.mp hv
      have hvk : v < k := by simpa using hv'.1
      exact ⟨by simpa using hv'.2, hvk⟩

/-- **every step of a history preserves the representation invariant**, whatever the arguments, whether
    the call returns or raises, directly or through a (possibly stale) view -/
theorem WF.step {m : Bqm} (h : WF m) (via : Via) (op : Op) : WF (m.step via op).1 := by
  cases op <;> simp only [Bqm.step, Bqm.lift]
  case malformed => exact h
  case addLinear v b => cases v <;> first | exact h | exact h.vAddLinear _ _ _
  case setLinear v b => cases v <;> first | exact h | exact h.vSetLinear _ _ _
  case addQuadratic u v b =>
    cases u <;> cases v <;> simp only [] <;> first | exact h | (split <;> first | exact h | exact h.vAddQuadratic _ _ _ _)
  case setQuadratic u v b =>
    cases u <;> cases v <;> simp only [] <;> first | exact h | (cases via <;> first | exact h.quadOp _ _ _ _ | exact h.vSetQuadratic _ _ _ _)
  case removeInteraction u v => exact h.vRemoveInteraction _ _ _
  case removeVariable v => exact h.vRemoveVariable _ _
  case addVariable v b => cases via <;> first | exact h.addVariable _ _ | exact h.vAddVariable _ _ _
  case resize k => cases via <;> first | exact h.resize _ | exact h
  case scale s => exact h.vScale _ _ _
  case setOffset b => exact h.vSetOffset _ _
  case changeVartype vt => cases via <;> first | exact h.changeVartype _ | exact h
  case fixVariable v a => exact h.vFixVariable _ _ _
  case contract u v => exact h.vContract _ _ _
  case flip v => exact h.vFlip _ _ _
  case relabel mp => exact h.relabel _
  case relabelInts => exact h.relabelInts
  case clear => exact h.clear
  case update o => exact h.vUpdate _ _
  case addLinearFrom l => exact h.vAddLinearFrom _ _
  case addQuadraticFrom l => exact h.vAddQuadraticFrom _ _
  case addLinearFromArray xs => cases via <;> first | exact h.addLinearFromArray _ | exact h
  case addQuadraticFromDense k d => cases via <;> first | exact h.addQuadraticFromDense _ _ | exact h

theorem WF.run {m : Bqm} (h : WF m) (ops : List (Via × Op)) : WF (m.run ops) := by
  induction ops generalizing m with
  | nil => exact h
  | cons p t ih => obtain ⟨via, op⟩ := p; exact ih (h.step via op)

end Bqm
