import DimodProofs.Sym

/-! C06: the double loops of `BinaryQuadraticModel.__mul__` / `QuadraticModel.__mul__`, and the
    variable-typing invariant that carries the domain hypotheses through an expression tree. -/

namespace Sym

/-- the value lies in the variable's domain as far as arithmetic needs it -/
def InDom : VT → Rat → Prop
  | .binary, a => a * a = a
  | .spin, a => a * a = 1
  | .integer, _ => True
  | .real, _ => True

/-! ### invariants of the primitives: class, vartype, and where variables come from -/

def VarsOK (P : Label → VarInfo → Prop) (vs : List Var) : Prop := ∀ v ∈ vs, P v.l v.info

theorem varsOK_bumpVar (P : Label → VarInfo → Prop) (l : Label) (b : Rat) (vs : List Var) (h : VarsOK P vs) :
    VarsOK P (bumpVar l b vs) := by
  induction vs with
  | nil => exact h
  | cons a t ih =>
    have ha := h a (List.mem_cons_self)
    have ht : VarsOK P t := fun v hv => h v (List.mem_cons_of_mem _ hv)
    simp only [bumpVar]
    split
    · intro v hv
      rcases List.mem_cons.mp hv with rfl | hv'
      · exact ha
      · exact ht v hv'
    · intro v hv
      rcases List.mem_cons.mp hv with rfl | hv'
      · exact ha
      · exact ih ht v hv'

theorem varsOK_append (P : Label → VarInfo → Prop) (a b : List Var) (ha : VarsOK P a) (hb : VarsOK P b) : VarsOK P (a ++ b) := by
  intro v hv
  rcases List.mem_append.mp hv with h | h
  · exact ha v h
  · exact hb v h

theorem addLinear_inv (P : Label → VarInfo → Prop) (m m' : Model) (l : Label) (b : Rat)
    (h : addLinear m l b = .ok m') (hv : VarsOK P m.vars) (hl : m.isQM = false → P l (bqmInfo m.bvt)) :
    VarsOK P m'.vars ∧ m'.isQM = m.isQM ∧ m'.bvt = m.bvt ∧ m'.quad = m.quad := by
  unfold addLinear at h
  by_cases hh : m.has l = true
  · simp only [hh, if_true, Except.ok.injEq] at h
    subst h
    exact ⟨varsOK_bumpVar P l b m.vars hv, rfl, rfl, rfl⟩
  · simp only [hh, Bool.false_eq_true, if_false] at h
    by_cases hq : m.isQM = true
    · simp [hq] at h
    · simp only [hq, Bool.false_eq_true, if_false, Except.ok.injEq] at h
      subst h
      have hq' : m.isQM = false := by simpa using hq
      refine ⟨varsOK_append P _ _ hv ?_, hq'.symm, rfl, rfl⟩
      intro v hv'
      simp only [List.mem_singleton] at hv'
      subst hv'
      exact hl hq'

theorem addQuadratic_inv (P : Label → VarInfo → Prop) (m m' : Model) (u v : Label) (b : Rat)
    (h : addQuadratic m u v b = .ok m') (hv : VarsOK P m.vars)
    (hu : m.isQM = false → P u (bqmInfo m.bvt)) (hv' : m.isQM = false → P v (bqmInfo m.bvt)) :
    VarsOK P m'.vars ∧ m'.isQM = m.isQM ∧ m'.bvt = m.bvt := by
  unfold addQuadratic at h
  by_cases hq : m.isQM = true
  · simp only [hq, if_true] at h
    split at h
    · split at h
      · simp at h
      · split at h
        · simp at h
        · simp only [Except.ok.injEq] at h
          subst h
          exact ⟨hv, hq.symm, rfl⟩
    · simp at h
  · have hq' : m.isQM = false := by simpa using hq
    simp only [hq, Bool.false_eq_true, if_false] at h
    split at h
    · simp at h
    · simp only [Except.ok.injEq] at h
      subst h
      refine ⟨?_, hq'.symm, rfl⟩
      have h1 : VarsOK P (if m.has u then m.vars else m.vars ++ [⟨u, bqmInfo m.bvt, 0⟩]) := by
        split
        · exact hv
        · apply varsOK_append P _ _ hv
          intro w hw
          simp only [List.mem_singleton] at hw
          subst hw; exact hu hq'
      generalize (if m.has u then m.vars else m.vars ++ [(⟨u, bqmInfo m.bvt, 0⟩ : Var)]) = vs1 at h1 ⊢
      by_cases hc : (findVar vs1 v).isSome = true
      · simp only [hc, if_true]; exact h1
      · simp only [hc, Bool.false_eq_true, if_false]
        apply varsOK_append P _ _ h1
        intro w hw
        simp only [List.mem_singleton] at hw
        subst hw; exact hv' hq'

theorem addVariable_inv (P : Label → VarInfo → Prop) (m m' : Model) (l : Label) (i : VarInfo)
    (h : addVariable m l i = .ok m') (hv : VarsOK P m.vars) (hl : P l i) :
    VarsOK P m'.vars ∧ m'.isQM = m.isQM ∧ m'.bvt = m.bvt ∧ m'.quad = m.quad ∧ m'.off = m.off ∧
      ∀ x, linEval x m'.vars = linEval x m.vars := by
  unfold addVariable at h
  split at h
  · split at h
    · simp at h
    · split at h
      · simp at h
      · split at h
        · simp at h
        · simp only [Except.ok.injEq] at h
          subst h
          exact ⟨hv, rfl, rfl, rfl, rfl, fun _ => rfl⟩
  · simp only [Except.ok.injEq] at h
    subst h
    refine ⟨varsOK_append P _ _ hv ?_, rfl, rfl, rfl, rfl, ?_⟩
    · intro w hw
      simp only [List.mem_singleton] at hw
      subst hw; exact hl
    · intro x
      rw [linEval_append]; simp [linEval]

theorem addVariables_inv (P : Label → VarInfo → Prop) (vs : List Var) (m m' : Model)
    (h : addVariables vs m = .ok m') (hv : VarsOK P m.vars) (hvs : VarsOK P vs) :
    VarsOK P m'.vars ∧ m'.isQM = m.isQM ∧ m'.bvt = m.bvt ∧ m'.quad = m.quad ∧ m'.off = m.off ∧
      ∀ x, linEval x m'.vars = linEval x m.vars := by
  induction vs generalizing m with
  | nil =>
    simp only [addVariables, Except.ok.injEq] at h
    subst h
    exact ⟨hv, rfl, rfl, rfl, rfl, fun _ => rfl⟩
  | cons a t ih =>
    simp only [addVariables] at h
    split at h
    · simp at h
    · rename_i acc' hacc
      obtain ⟨h1, h2, h3, h4, h5, h6⟩ := addVariable_inv P m acc' a.l a.info hacc hv (hvs a (List.mem_cons_self))
      obtain ⟨g1, g2, g3, g4, g5, g6⟩ := ih acc' h h1 (fun v hv => hvs v (List.mem_cons_of_mem _ hv))
      exact ⟨g1, g2.trans h2, g3.trans h3, g4.trans h4, g5.trans h5, fun x => (g6 x).trans (h6 x)⟩

/-! ### one step of the inner loop -/

theorem qmMulStep_eval (u v : Var) (acc acc' : Model) (x : Label → Rat)
    (hd : InDom u.info.vt (x u.l)) (h : qmMulStep u v acc = .ok acc') :
    acc'.eval x = acc.eval x + u.bias * v.bias * (x u.l * x v.l) := by
  unfold qmMulStep at h
  by_cases he : u.l = v.l
  · simp only [he, if_true] at h
    rw [← he]
    cases hvt : u.info.vt with
    | binary =>
      simp only [hvt] at h hd
      rw [← he] at h
      rw [eval_addLinear acc acc' _ _ x h]
      simp only [InDom] at hd
      rw [hd]
    | spin =>
      simp only [hvt, Except.ok.injEq] at h hd
      subst h
      rw [eval_addOffset]
      simp only [InDom] at hd
      rw [hd]; ring
    | integer =>
      simp only [hvt] at h
      rw [eval_addQuadratic acc acc' _ _ _ x h, ← he]; ring
    | real =>
      simp only [hvt] at h
      rw [eval_addQuadratic acc acc' _ _ _ x h, ← he]; ring
  · simp only [he, if_false] at h
    rw [eval_addQuadratic acc acc' _ _ _ x h]; ring

theorem bqmMulStep_eval (selfvt : VT) (hsv : selfvt = .spin ∨ selfvt = .binary) (u v : Var) (acc acc' : Model) (x : Label → Rat)
    (hd : InDom selfvt (x u.l)) (h : bqmMulStep selfvt u v acc = .ok acc') :
    acc'.eval x = acc.eval x + u.bias * v.bias * (x u.l * x v.l) := by
  unfold bqmMulStep at h
  by_cases he : u.l = v.l
  · simp only [he, if_true] at h
    rw [← he]
    rcases hsv with hs | hs
    · subst hs
      simp only [reduceCtorEq, if_false, Except.ok.injEq] at h
      subst h
      rw [eval_addOffset]
      simp only [InDom] at hd
      rw [hd]; ring
    · subst hs
      simp only [if_true] at h
      rw [← he] at h
      rw [eval_addLinear acc acc' _ _ x h]
      simp only [InDom] at hd
      rw [hd]
  · simp only [he, if_false] at h
    rw [eval_addQuadratic acc acc' _ _ _ x h]; ring

/-! ### the loops, for any step with the two properties above -/

structure StepOK (step : Var → Var → Model → Except Err Model) (x : Label → Rat) (I : Model → Prop) (us vs : List Var) : Prop where
  eval : ∀ u ∈ us, ∀ v ∈ vs, ∀ acc acc', I acc → step u v acc = .ok acc' →
    acc'.eval x = acc.eval x + u.bias * v.bias * (x u.l * x v.l)
  inv : ∀ u ∈ us, ∀ v ∈ vs, ∀ acc acc', I acc → step u v acc = .ok acc' → I acc'

theorem mulInner_spec (step) (x : Label → Rat) (I : Model → Prop) (u : Var) (vs0 vs : List Var) (hsub : ∀ v ∈ vs, v ∈ vs0)
    (hs : StepOK step x I [u] vs0) (acc acc' : Model) (hI : I acc) (h : mulInner step u vs acc = .ok acc') :
    I acc' ∧ acc'.eval x = acc.eval x + u.bias * x u.l * linEval x vs := by
  induction vs generalizing acc with
  | nil =>
    simp only [mulInner, Except.ok.injEq] at h
    subst h
    exact ⟨hI, by simp [linEval]⟩
  | cons v t ih =>
    simp only [mulInner] at h
    split at h
    · simp at h
    · rename_i a1 ha1
      have hv0 := hsub v (List.mem_cons_self)
      have e1 := hs.eval u (List.mem_singleton.mpr rfl) v hv0 acc a1 hI ha1
      have i1 := hs.inv u (List.mem_singleton.mpr rfl) v hv0 acc a1 hI ha1
      obtain ⟨i2, e2⟩ := ih (fun w hw => hsub w (List.mem_cons_of_mem _ hw)) a1 i1 h
      refine ⟨i2, ?_⟩
      rw [e2, e1]; simp only [linEval]; ring

theorem mulOuter_spec (step) (x : Label → Rat) (I : Model → Prop) (others : List Var) (otherOff : Rat)
    (us0 us : List Var) (hsub : ∀ u ∈ us, u ∈ us0) (hs : StepOK step x I us0 others)
    (hlin : ∀ u ∈ us0, ∀ acc acc' b, I acc → addLinear acc u.l b = .ok acc' → I acc')
    (acc acc' : Model) (hI : I acc) (h : mulOuter step others otherOff us acc = .ok acc') :
    I acc' ∧ acc'.eval x = acc.eval x + linEval x us * linEval x others + linEval x us * otherOff := by
  induction us generalizing acc with
  | nil =>
    simp only [mulOuter, Except.ok.injEq] at h
    subst h
    exact ⟨hI, by simp [linEval]⟩
  | cons u t ih =>
    simp only [mulOuter] at h
    split at h
    · simp at h
    · rename_i a1 ha1
      split at h
      · simp at h
      · rename_i a2 ha2
        have hu0 := hsub u (List.mem_cons_self)
        have hs1 : StepOK step x I [u] others :=
          ⟨fun u' hu' => by rw [List.mem_singleton] at hu'; subst hu'; exact hs.eval _ hu0,
           fun u' hu' => by rw [List.mem_singleton] at hu'; subst hu'; exact hs.inv _ hu0⟩
        obtain ⟨i1, e1⟩ := mulInner_spec step x I u others others (fun _ h => h) hs1 acc a1 hI ha1
        have e2 := eval_addLinear a1 a2 _ _ x ha2
        have i2 := hlin u hu0 a1 a2 _ i1 ha2
        obtain ⟨i3, e3⟩ := ih (fun w hw => hsub w (List.mem_cons_of_mem _ hw)) a2 i2 h
        refine ⟨i3, ?_⟩
        rw [e3, e2, e1]; simp only [linEval]; ring

theorem mulTail_spec (x : Label → Rat) (I : Model → Prop) (selfOff : Rat) (vs0 vs : List Var) (hsub : ∀ v ∈ vs, v ∈ vs0)
    (hlin : ∀ v ∈ vs0, ∀ acc acc' b, I acc → addLinear acc v.l b = .ok acc' → I acc')
    (acc acc' : Model) (hI : I acc) (h : mulTail selfOff vs acc = .ok acc') :
    I acc' ∧ acc'.eval x = acc.eval x + selfOff * linEval x vs := by
  induction vs generalizing acc with
  | nil =>
    simp only [mulTail, Except.ok.injEq] at h
    subst h
    exact ⟨hI, by simp [linEval]⟩
  | cons v t ih =>
    simp only [mulTail] at h
    split at h
    · simp at h
    · rename_i a1 ha1
      have e1 := eval_addLinear acc a1 _ _ x ha1
      have i1 := hlin v (hsub v (List.mem_cons_self)) acc a1 _ hI ha1
      obtain ⟨i2, e2⟩ := ih (fun w hw => hsub w (List.mem_cons_of_mem _ hw)) a1 i1 h
      refine ⟨i2, ?_⟩
      rw [e2, e1]; simp only [linEval]; ring

end Sym
