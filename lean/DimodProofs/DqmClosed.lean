import DimodProofs.Npy
import DimodProofs.DqmFile
import DimodProofs.ZipEnd

/-! # DQM files end to end, closed  (C09 / C10, round 7)

`dumpDqm` writes every byte of `DiscreteQuadraticModel.to_file`: header dictionary (modelled `json.dumps`), `BIAS`, the
length, the `.npz` blob (`.npy` members with their headers, ZIP container at byte level), the `VARS` section.
`loadDqm` is the whole loader with `np.load` handed the `BIAS` section: `read_header`, frame, `_EndRecData` on the blob,
directory walk and per-member checks, `.npy` header parser, `from_numpy_vectors`, `VARS`. -/

namespace FileFmt

/-- `np.savez` / `np.savez_compressed` on the arrays, into a file positioned at `base`: `zipfile` (mode `'w'`) records
    ABSOLUTE file positions, so the offsets inside the blob start at `base`, not at 0 -/
def npzBytes (crc32 : Bytes → Nat) (deflate : Option (Bytes → Bytes)) (μ : Nat → ZMeta) (base : Nat) (ms : List NpyMember) : Bytes :=
  zipBytes base (mkEntries crc32 deflate μ 0 (npzArchive ms))

/-- where `_to_file_numpy` starts writing the blob: after the header, `BIAS` and the 4-byte length -/
def dqmBlobBase (ignore : Bool) (c : DqmContent) (labels : List FLabel) : Nat :=
  (makeHeader dqmPrefix 1 1 (dqmHeaderText (dqmCounts c) (dqmVariablesFlag ignore labels))).length + 8

def dumpDqm (crc32 : Bytes → Nat) (deflate : Option (Bytes → Bytes)) (μ : Nat → ZMeta) (ignore : Bool) (c : DqmContent)
    (labels : List FLabel) : Bytes :=
  dqmEncode (dqmHeaderText (dqmCounts c) (dqmVariablesFlag ignore labels)) (dqmVariablesFlag ignore labels)
    (npzBytes crc32 deflate μ (dqmBlobBase ignore c labels) (dqmMembers c)) (varsTextOf labels)

/-- `np.load(blob)` + `from_numpy_vectors` -/
def readDqmBlob (crc32 : Bytes → Nat) (inflate : Bytes → Option Bytes) (r : EndRec) (blob : Bytes) : Option DqmContent :=
  (readNpzBytes crc32 inflate r blob).bind fun ms => match dqmFromMembers ms with | .ok d => some d | _ => none

def loadDqm (crc32 : Bytes → Nat) (inflate : Bytes → Option Bytes) (file : Bytes) : Res (HDict × DqmContent × Option (List JVal)) :=
  dqmLoad false parseDqmHeader parseVarsReal (readDqmBlob crc32 inflate) (fun d => d.caseStarts.length) file

theorem npzArchive_names_ascii (c : DqmContent) : ∀ x ∈ npzArchive (dqmMembers c), AllAscii x.1 := by
  intro x hx
  simp only [npzArchive, dqmMembers, List.map_cons, List.map_nil, List.mem_cons, List.not_mem_nil, or_false] at hx
  rcases hx with rfl | rfl | rfl | rfl | rfl | rfl
  · show AllAscii (nmCaseStarts ++ npySuffix); decide
  · show AllAscii (nmLinear ++ npySuffix); decide
  · show AllAscii (nmRow ++ npySuffix); decide
  · show AllAscii (nmCol ++ npySuffix); decide
  · show AllAscii (nmQuad ++ npySuffix); decide
  · show AllAscii (nmOffset ++ npySuffix); decide

/-- the blob reader on the blob the writer wrote -/
theorem readDqmBlob_npz (crc32 : Bytes → Nat) (inflate : Bytes → Option Bytes) (deflate : Option (Bytes → Bytes)) (μ : Nat → ZMeta)
    (base : Nat) (c : DqmContent) (wf : DqmWF c) (hnpy : ∀ m ∈ dqmMembers c, m.OK)
    (hcrc : ∀ b, crc32 b < 256 ^ 4) (hcodec : ∀ d, deflate = some d → ∀ b, inflate (d b) = some b) (hμ : ∀ i, (μ i).OK)
    (hfit : ∀ m ∈ npzArchive (dqmMembers c), MemberFits deflate m)
    (hsize : base + (npzBytes crc32 deflate μ base (dqmMembers c)).length < 4294967295) :
    ∃ x e, npzBytes crc32 deflate μ base (dqmMembers c) = x ++ e ∧ e.length = 22 ∧ e.take 4 = sigEOCD ∧ e.drop 20 = [0, 0] ∧
      (EndRec.mk x.length e).sizeCd ≤ x.length ∧ (x ++ e).take 4 = sigLocal ∧
      readNpzBytes crc32 inflate ⟨x.length, e⟩ (x ++ e) = some (dqmMembers c) ∧
      readDqmBlob crc32 inflate ⟨x.length, e⟩ (x ++ e) = some c := by
  have h256 : (256 : Nat) ^ 4 = 4294967296 := by decide
  have hzs := mkEntries_ok crc32 inflate deflate μ hcrc hcodec hμ (npzArchive (dqmMembers c)) 0 hfit
  have hlenz := mkEntries_length crc32 deflate μ (npzArchive (dqmMembers c)) 0
  have hmem := mkEntries_members crc32 deflate μ (npzArchive (dqmMembers c)) 0
  have hne : ∃ z zs', mkEntries crc32 deflate μ 0 (npzArchive (dqmMembers c)) = z :: zs' := ⟨_, _, rfl⟩
  unfold npzBytes at hsize ⊢
  generalize mkEntries crc32 deflate μ 0 (npzArchive (dqmMembers c)) = zs at hzs hlenz hmem hne hsize ⊢
  have hcnt : zs.length < 256 ^ 2 := by rw [hlenz]; simp [npzArchive, dqmMembers]
  have hsz : base + (zipLocals zs).length + (zipCD base zs).length < 4294967295 := by
    simp only [zipBytes, List.length_append] at hsize ⊢; omega
  obtain ⟨a, b, cc⟩ := eocdRecord_shape zs.length (zipCD base zs).length (base + (zipLocals zs).length)
  obtain ⟨d, _, _⟩ := eocdRecord_fields zs.length (zipCD base zs).length (base + (zipLocals zs).length)
    (zipLocals zs ++ zipCD base zs).length (by omega) (by omega) hcnt
  have hnpz : readNpzBytes crc32 inflate ⟨(zipLocals zs ++ zipCD base zs).length, eocdRecord zs.length (zipCD base zs).length (base + (zipLocals zs).length)⟩
      ((zipLocals zs ++ zipCD base zs) ++ eocdRecord zs.length (zipCD base zs).length (base + (zipLocals zs).length)) = some (dqmMembers c) := by
    have hr := readDirBytes_zipBytes_shift crc32 inflate [] base zs hzs hcnt hsz
    simp only [List.nil_append] at hr
    unfold readNpzBytes readDirChars
    rw [hr, hmem]
    simp only [Option.map_some, Option.bind_some]
    rw [asciiRoundtrip_members _ (npzArchive_names_ascii c), npzMembersOf_archive _ hnpy]
  refine ⟨zipLocals zs ++ zipCD base zs, eocdRecord zs.length (zipCD base zs).length (base + (zipLocals zs).length), ?_, a, b, cc, ?_, ?_, hnpz, ?_⟩
  · simp [zipBytes, List.append_assoc]
  · rw [d]; simp only [List.length_append]; omega
  · obtain ⟨z, zs', rfl⟩ := hne
    simp [zipLocals, localEntry, localFixed, sigLocal]
  · unfold readDqmBlob
    rw [hnpz]
    simp only [Option.bind_some, dqmFromMembers_members c wf]

end FileFmt
