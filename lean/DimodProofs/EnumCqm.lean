import DimodProofs.EnumProd
import Mathlib.Tactic.Linarith
import Mathlib.Algebra.Order.Floor.Ring
import Mathlib.Data.Rat.Floor

/-! C07: `_all_cases_cqm` (one-hot blocks for the discrete constraints × meshgrid of the remaining
    domains) and `_iterator_by_vartype` for INTEGER variables. -/

namespace Enum

theorem mem_intsFrom (lo : Int) (k : Nat) (z : Int) : z ∈ intsFrom lo k ↔ lo ≤ z ∧ z < lo + k := by
  induction k generalizing lo with
  | zero => simp [intsFrom]
  | succ k ih =>
    simp only [intsFrom, List.mem_cons, ih]
    constructor
    · rintro (h | ⟨h1, h2⟩)
      · subst h; constructor <;> omega
      · constructor <;> omega
    · rintro ⟨h1, h2⟩
      by_cases h : z = lo
      · exact Or.inl h
      · right; constructor <;> omega

theorem mem_pyRange (a b z : Int) : z ∈ pyRange a b ↔ a ≤ z ∧ z < b := by
  unfold pyRange
  rw [mem_intsFrom]
  constructor
  · rintro ⟨h1, h2⟩; constructor <;> omega
  · rintro ⟨h1, h2⟩; constructor <;> omega

theorem nodup_intsFrom (lo : Int) (k : Nat) : (intsFrom lo k).Nodup := by
  induction k generalizing lo with
  | zero => simp [intsFrom]
  | succ k ih =>
    simp only [intsFrom, List.nodup_cons, mem_intsFrom]
    exact ⟨by omega, ih _⟩

/-- the repaired `_iterator_by_vartype`: exactly the integers within the bounds, each once -/
theorem mem_intDomain (lb ub : Rat) (z : Int) : z ∈ intDomain lb ub ↔ lb ≤ (z : Rat) ∧ (z : Rat) ≤ ub := by
  unfold intDomain rceil
  rw [mem_pyRange]
  constructor
  · rintro ⟨h1, h2⟩
    constructor
    · have : (-lb).floor ≥ -z := by omega
      have h := Rat.le_floor_iff.mp this
      push_cast at h
      linarith
    · have : z ≤ ub.floor := by omega
      exact Rat.le_floor_iff.mp this
  · rintro ⟨h1, h2⟩
    constructor
    · have : (-z : Int) ≤ (-lb).floor := by
        apply Rat.le_floor_iff.mpr
        push_cast
        linarith
      omega
    · have : z ≤ ub.floor := Rat.le_floor_iff.mpr h2
      omega

theorem nodup_intDomain (lb ub : Rat) : (intDomain lb ub).Nodup := nodup_intsFrom _ _

/-- before the D19 repair the iterator leaves the domain: `range(int(0.5), int(3 + 1))` contains 0 -/
theorem intDomainTrunc_wrong : (0 : Int) ∈ intDomainTrunc (1/2) 3 ∧ ¬ ((1/2 : Rat) ≤ ((0 : Int) : Rat)) := by
  constructor
  · decide +kernel
  · decide +kernel

/-- a one-hot vector: position `i` is 1, the others 0 -/
def hotVec (d i : Nat) : List Int := (List.range d).map fun j => if i = j then 1 else 0

theorem mem_oneHot (d : Nat) (v : List Int) : v ∈ oneHot d ↔ ∃ i, i < d ∧ v = hotVec d i := by
  simp [oneHot, hotVec, eq_comm]

theorem hotVec_length (d i : Nat) : (hotVec d i).length = d := by simp [hotVec]

theorem hotVec_entries (d i : Nat) (b : Int) (hb : b ∈ hotVec d i) : b = 0 ∨ b = 1 := by
  simp only [hotVec, List.mem_map] at hb
  obtain ⟨j, _, rfl⟩ := hb
  split <;> simp

theorem hotVec_sum (d i : Nat) (hi : i < d) : (hotVec d i).sum = 1 := by
  unfold hotVec
  induction d generalizing i with
  | zero => omega
  | succ d ih =>
    rw [List.range_succ, List.map_append, List.sum_append]
    by_cases h : i = d
    · subst h
      have : ((List.range i).map fun j => if i = j then (1 : Int) else 0) = (List.range i).map fun _ => 0 := by
        apply List.map_congr_left
        intro j hj
        rw [List.mem_range] at hj
        rw [if_neg (by omega)]
      rw [this]; simp
    · have := ih i (by omega)
      rw [this]; simp [h]

theorem meshRows_ne_nil {α : Type} (doms : List (List α)) (hne : ∀ d ∈ doms, d ≠ []) : meshRows doms ≠ [] := by
  have : ∃ row, IsAssignment row doms := by
    induction doms with
    | nil => exact ⟨[], List.Forall₂.nil⟩
    | cons d ds ih =>
      obtain ⟨r, hr⟩ := ih (fun x hx => hne x (List.mem_cons_of_mem _ hx))
      have hd := hne d (List.mem_cons_self)
      match d, hd with
      | a :: _, _ => exact ⟨a :: r, List.Forall₂.cons (List.mem_cons_self) hr⟩
  obtain ⟨row, hrow⟩ := this
  intro h
  have := (mem_meshRows doms row).mpr hrow
  rw [h] at this
  simp at this

/-- C07 `product_enumerates` for `_all_cases_cqm`: the rows are exactly: for every discrete constraint a
    one-hot block (in constraint order), followed by one value from each remaining variable's domain.
    Hypotheses: the model has at least one variable (the solver returns early otherwise) and no domain
    is empty (`ceil(lb) ≤ floor(ub)` is enforced when an INTEGER variable is created). -/
theorem mem_allCasesCqm (dsizes : List Nat) (doms : List (List Int)) (row : List Int)
    (hvars : ¬ (dsizes = [] ∧ doms = [])) (hne : ∀ d ∈ doms, d ≠ []) :
    row ∈ allCasesCqm dsizes doms ↔
      ∃ hs r, IsAssignment hs (dsizes.map oneHot) ∧ IsAssignment r doms ∧ row = hs.flatten ++ r := by
  unfold allCasesCqm
  by_cases hd : doms = []
  · subst hd
    have hds : dsizes ≠ [] := fun h => hvars ⟨h, rfl⟩
    have e1 : dsizes.isEmpty = false := by cases dsizes <;> simp_all
    simp only [List.isEmpty_nil, if_true, e1, Bool.false_eq_true, if_false, List.mem_map, mem_prodLex]
    constructor
    · rintro ⟨hs, hhs, rfl⟩
      exact ⟨hs, [], hhs, List.Forall₂.nil, by simp⟩
    · rintro ⟨hs, r, hhs, hr, rfl⟩
      cases hr
      exact ⟨hs, hhs, by simp⟩
  · have e0 : doms.isEmpty = false := by cases doms <;> simp_all
    have hm := meshRows_ne_nil doms hne
    have e2 : (meshRows doms).isEmpty = false := by cases h : meshRows doms <;> simp_all
    simp only [e0, Bool.false_eq_true, if_false, e2]
    by_cases hds : dsizes = []
    · subst hds
      simp only [List.isEmpty_nil, if_true, mem_meshRows, List.map_nil]
      constructor
      · intro h; exact ⟨[], row, List.Forall₂.nil, h, by simp⟩
      · rintro ⟨hs, r, hhs, hr, rfl⟩
        cases hhs; simpa using hr
    · have e1 : dsizes.isEmpty = false := by cases dsizes <;> simp_all
      simp only [e1, Bool.false_eq_true, if_false, List.mem_flatMap, List.mem_map, mem_prodLex, mem_meshRows]
      constructor
      · rintro ⟨l, ⟨hs, hhs, rfl⟩, r, hr, rfl⟩
        exact ⟨hs, r, hhs, hr, rfl⟩
      · rintro ⟨hs, r, hhs, hr, rfl⟩
        exact ⟨hs.flatten, ⟨hs, hhs, rfl⟩, r, hr, rfl⟩

end Enum

namespace Enum

theorem nodup_oneHot (d : Nat) : (oneHot d).Nodup := by
  unfold oneHot
  apply List.Nodup.map_on _ List.nodup_range
  intro i hi j hj h
  rw [List.mem_range] at hi hj
  by_contra hne
  have hget := congrArg (fun l => l[i]?) h
  simp only [List.getElem?_map, List.getElem?_range hi, Option.map_some] at hget
  simp [hne] at hget
  exact hne hget.symm

/-- flattening assignments of equally shaped blocks is injective -/
theorem flatten_inj_of_assignment (blocks : List (List (List Int))) (hlen : ∀ B ∈ blocks, ∀ v ∈ B, ∀ w ∈ B, v.length = w.length)
    (hs hs' : List (List Int)) (h1 : IsAssignment hs blocks) (h2 : IsAssignment hs' blocks) (he : hs.flatten = hs'.flatten) : hs = hs' := by
  induction blocks generalizing hs hs' with
  | nil => cases h1; cases h2; rfl
  | cons B rest ih =>
    cases h1 with
    | cons ha ht =>
      cases h2 with
      | cons ha' ht' =>
        rename_i a t a' t'
        simp only [List.flatten_cons] at he
        have hl : a.length = a'.length := hlen B (List.mem_cons_self) a ha a' ha'
        have := List.append_inj he hl
        rw [this.1, ih (fun B' hB' => hlen B' (List.mem_cons_of_mem _ hB')) t t' ht ht' this.2]

theorem length_flatten_of_assignment (dsizes : List Nat) (hs : List (List Int)) (h : IsAssignment hs (dsizes.map oneHot)) :
    hs.flatten.length = dsizes.sum := by
  induction dsizes generalizing hs with
  | nil => cases h; rfl
  | cons d rest ih =>
    simp only [List.map_cons] at h
    cases h with
    | cons ha ht =>
      obtain ⟨i, _, rfl⟩ := (mem_oneHot d _).mp ha
      simp [List.flatten_cons, hotVec_length, ih _ ht]

/-- C07 `product_enumerates` for `_all_cases_cqm`, second half: no row is returned twice -/
theorem nodup_allCasesCqm (dsizes : List Nat) (doms : List (List Int)) (hnd : ∀ d ∈ doms, d.Nodup) :
    (allCasesCqm dsizes doms).Nodup := by
  unfold allCasesCqm
  have hblocks : ∀ B ∈ dsizes.map oneHot, ∀ v ∈ B, ∀ w ∈ B, v.length = w.length := by
    intro B hB v hv w hw
    obtain ⟨d, _, rfl⟩ := List.mem_map.mp hB
    obtain ⟨i, _, rfl⟩ := (mem_oneHot d v).mp hv
    obtain ⟨j, _, rfl⟩ := (mem_oneHot d w).mp hw
    rw [hotVec_length, hotVec_length]
  have hls : ((prodLex (dsizes.map oneHot)).map List.flatten).Nodup := by
    apply List.Nodup.map_on
    · intro a ha b hb he
      exact flatten_inj_of_assignment _ hblocks a b ((mem_prodLex _ _).mp ha) ((mem_prodLex _ _).mp hb) he
    · apply nodup_prodLex
      intro B hB
      obtain ⟨d, _, rfl⟩ := List.mem_map.mp hB
      exact nodup_oneHot d
  have key : ∀ c1 : List (List Int), c1.Nodup →
      (if dsizes.isEmpty then c1
       else if c1.isEmpty then (prodLex (dsizes.map oneHot)).map List.flatten
       else ((prodLex (dsizes.map oneHot)).map List.flatten).flatMap fun l => c1.map fun row => l ++ row).Nodup := by
    intro c1 hc1
    split
    · exact hc1
    · split
      · exact hls
      · rw [List.nodup_flatMap]
        constructor
        · intro l _
          exact hc1.map (fun x y hxy => List.append_cancel_left hxy)
        · apply List.Pairwise.imp_of_mem _ hls
          intro l l' hl hl' hne
          simp only [Function.onFun, List.disjoint_left, List.mem_map]
          rintro x ⟨r, _, rfl⟩ ⟨r', _, he⟩
          obtain ⟨hs, hhs, rfl⟩ := List.mem_map.mp hl
          obtain ⟨hs', hhs', rfl⟩ := List.mem_map.mp hl'
          have e1 := length_flatten_of_assignment dsizes hs ((mem_prodLex _ _).mp hhs)
          have e2 := length_flatten_of_assignment dsizes hs' ((mem_prodLex _ _).mp hhs')
          exact hne (List.append_inj he.symm (by rw [e1, e2])).1
  by_cases hde : doms.isEmpty = true
  · simp only [hde, if_true]
    exact key [] List.nodup_nil
  · simp only [hde, Bool.false_eq_true, if_false]
    exact key (meshRows doms) (nodup_meshRows doms hnd)

end Enum
