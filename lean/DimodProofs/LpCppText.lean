import DimodProofs.LpCppLex

/-! C12: from the written TEXT to the raw tokens of the C++ reader model.  The text of `dump` is a sequence of pieces
without newline (each lexed, in any context, to its raw tokens) and newline characters; `rawTokens` (= `std::getline`
lines, `\r` stripping, `readnexttoken` per line) of such a text is the concatenation of the pieces' tokens. -/

set_option linter.unusedSimpArgs false

namespace LpCpp
open Lp Generated.LpKeywords Generated.LpLabels

/-- a newline-free piece of text that is lexed to `R` in any context (`ns`: provided a stop character follows) -/
def LexPiece (w : List Char) (R : List Raw) (ns : Bool) : Prop :=
  NoNl w ∧ ∃ k, k ≤ w.length ∧
    ∀ fuel rest, (ns = true → Stops rest) → lexLine (fuel + k) (w ++ rest) = (lexLine fuel rest).map (R ++ ·)

/-! ### lines -/

theorem go_end (a : List Char) (h : '\n' ∉ a) : ∀ cur, splitLines.go a cur = [cur.reverse ++ a] := by
  induction a with
  | nil => intro cur; simp [splitLines.go]
  | cons c t ih =>
    intro cur
    have hc : c ≠ '\n' := fun e => h (e ▸ List.mem_cons_self)
    have ht : '\n' ∉ t := fun m => h (List.mem_cons_of_mem _ m)
    rw [splitLines.go]
    simp only [hc, if_false]
    rw [ih ht]; simp

theorem go_nl (a b : List Char) (h : '\n' ∉ a) : ∀ cur,
    splitLines.go (a ++ '\n' :: b) cur = (cur.reverse ++ a) :: splitLines.go b [] := by
  induction a with
  | nil => intro cur; simp [splitLines.go]
  | cons c t ih =>
    intro cur
    have hc : c ≠ '\n' := fun e => h (e ▸ List.mem_cons_self)
    have ht : '\n' ∉ t := fun m => h (List.mem_cons_of_mem _ m)
    rw [List.cons_append, splitLines.go]
    simp only [hc, if_false]
    rw [ih ht]; simp

def stripCR (l : List Char) : List Char := if l.getLast? = some '\r' then l.dropLast else l

theorem stripCR_noNl (l : List Char) (h : NoNl l) : stripCR l = l := by
  unfold stripCR
  split
  · rename_i hl
    have := List.mem_of_getLast? hl
    exact absurd rfl (h _ this).2
  · rfl

theorem splitLines_eq (cs : List Char) : splitLines cs = (splitLines.go cs []).map stripCR := rfl

def lineStep (acc : List Raw) (l : List Char) : Except Err (List Raw) := (lexLine (l.length + 1) l).map (acc ++ ·)

/-- `rawTokens` on a character list (the switch of `readnexttoken` being the modelled one) -/
def rawL (cs : List Char) : Except Err (List Raw) := (splitLines cs).foldlM lineStep []

theorem foldlM_acc (ls : List (List Char)) : ∀ acc, ls.foldlM lineStep acc = (ls.foldlM lineStep []).map (acc ++ ·) := by
  induction ls with
  | nil => intro acc; simp [List.foldlM, Except.map, pure, Except.pure]
  | cons l t ih =>
    intro acc
    simp only [List.foldlM_cons]
    have h1 : lineStep acc l = (lexLine (l.length + 1) l).map (acc ++ ·) := rfl
    have h2 : lineStep [] l = (lexLine (l.length + 1) l).map ([] ++ ·) := rfl
    rw [h1, h2]
    cases hl : lexLine (l.length + 1) l with
    | error e => rfl
    | ok x =>
      show t.foldlM lineStep (acc ++ x) = Except.map (acc ++ ·) (t.foldlM lineStep ([] ++ x))
      rw [ih (acc ++ x), ih ([] ++ x)]
      cases t.foldlM lineStep [] <;> simp [Except.map]

theorem rawL_nl (a b : List Char) (h : NoNl a) :
    rawL (a ++ '\n' :: b) = (lexLine (a.length + 1) a).bind (fun x => (rawL b).map (x ++ ·)) := by
  have hn : '\n' ∉ a := fun m => (h _ m).1 rfl
  unfold rawL
  rw [splitLines_eq, go_nl a b hn, List.map_cons, List.reverse_nil, List.nil_append, stripCR_noNl a h, ← splitLines_eq,
    List.foldlM_cons]
  have h1 : lineStep [] a = (lexLine (a.length + 1) a).map ([] ++ ·) := rfl
  rw [h1]
  cases hl : lexLine (a.length + 1) a with
  | error e => rfl
  | ok x =>
    show (splitLines b).foldlM lineStep ([] ++ x) = Except.map (x ++ ·) ((splitLines b).foldlM lineStep [])
    rw [foldlM_acc (splitLines b) ([] ++ x)]; simp

theorem rawL_end (a : List Char) (h : NoNl a) : rawL a = lexLine (a.length + 1) a := by
  have hn : '\n' ∉ a := fun m => (h _ m).1 rfl
  unfold rawL
  rw [splitLines_eq, go_end a hn, List.map_cons, List.reverse_nil, List.nil_append, stripCR_noNl a h]
  simp only [List.map_nil, List.foldlM_cons, List.foldlM_nil, lineStep]
  cases lexLine (a.length + 1) a <;> simp [Except.map, bind, Except.bind, pure, Except.pure]


/-! ### atoms: pieces and newlines -/

inductive Atom where
  | nl
  | piece (w : List Char) (R : List Raw) (ns : Bool)

def Atom.text : Atom → List Char
  | .nl => ['\n']
  | .piece w _ _ => w

def Atom.raw : Atom → List Raw
  | .nl => []
  | .piece _ R _ => R

def Atom.ok : Atom → Prop
  | .nl => True
  | .piece w R ns => LexPiece w R ns

def Atom.needsStop : Atom → Bool
  | .nl => false
  | .piece _ _ ns => ns

/-- what follows is the end of the text, a newline, or a piece that starts with a blank -/
def nextStop : List Atom → Prop
  | [] => True
  | .nl :: _ => True
  | .piece w _ _ :: _ => ∃ t, w = ' ' :: t

def Chain : List Atom → Prop
  | [] => True
  | a :: as => (a.needsStop = true → nextStop as) ∧ Chain as

def atomsText : List Atom → List Char
  | [] => []
  | a :: as => a.text ++ atomsText as

theorem nextStop_stops (as : List Atom) (h : nextStop as) : Stops (atomsText as) := by
  cases as with
  | nil => exact Or.inl rfl
  | cons a t =>
    cases a with
    | nl => exact Or.inr ⟨'\n', atomsText t, rfl, by decide +kernel⟩
    | piece w R ns =>
      obtain ⟨u, hu⟩ := h
      subst hu
      exact Or.inr ⟨' ', u ++ atomsText t, by simp [atomsText, Atom.text], by decide +kernel⟩

/-- the current line so far (`pre`) is lexed to `P` whatever follows (a stop, when `ns`) -/
def Pref (pre : List Char) (P : List Raw) (ns : Bool) : Prop := LexPiece pre P ns

theorem pref_nil : Pref [] [] false :=
  ⟨noNl_nil, 0, Nat.le_refl _, fun fuel rest _ => by
    show lexLine fuel rest = _
    cases lexLine fuel rest <;> rfl⟩

theorem pref_append (pre w : List Char) (P R : List Raw) (ns ns' : Bool) (hp : Pref pre P ns) (hw : LexPiece w R ns')
    (hs : ns = true → ∃ t, w = ' ' :: t) : Pref (pre ++ w) (P ++ R) ns' := by
  obtain ⟨n1, k1, hk1, h1⟩ := hp
  obtain ⟨n2, k2, hk2, h2⟩ := hw
  refine ⟨noNl_append n1 n2, k1 + k2, by simp; omega, fun fuel rest hr => ?_⟩
  have hstop : ns = true → Stops (w ++ rest) := fun hn => by
    obtain ⟨t, ht⟩ := hs hn
    subst ht
    exact Or.inr ⟨' ', t ++ rest, rfl, by decide +kernel⟩
  have e : fuel + (k1 + k2) = (fuel + k2) + k1 := by omega
  rw [List.append_assoc, e, h1 (fuel + k2) (w ++ rest) hstop, h2 fuel rest hr, map_map_cons]
  cases lexLine fuel rest <;> simp [Except.map]

/-- **the raw tokens of a text made of pieces and newlines** -/
theorem rawL_atoms (as : List Atom) : ∀ (pre : List Char) (P : List Raw) (ns : Bool), Pref pre P ns →
    (ns = true → nextStop as) → Chain as → (∀ a ∈ as, a.ok) →
    rawL (pre ++ atomsText as) = .ok (P ++ as.flatMap Atom.raw) := by
  induction as with
  | nil =>
    intro pre P ns hp _ _ _
    obtain ⟨n1, k1, hk1, h1⟩ := hp
    simp only [atomsText, List.flatMap_nil, List.append_nil]
    rw [rawL_end pre n1]
    have e : pre.length + 1 = (pre.length + 1 - k1) + k1 := by omega
    have := h1 (pre.length + 1 - k1) [] (fun _ => Or.inl rfl)
    rw [List.append_nil] at this
    rw [e, this]
    cases hq : pre.length + 1 - k1 <;> simp [lexLine, Except.map]
  | cons a t ih =>
    intro pre P ns hp hns hch hok
    have hokt : ∀ b ∈ t, b.ok := fun b hb => hok b (List.mem_cons_of_mem _ hb)
    cases a with
    | nl =>
      obtain ⟨n1, k1, hk1, h1⟩ := hp
      have ht : atomsText (Atom.nl :: t) = '\n' :: atomsText t := by simp [atomsText, Atom.text]
      rw [ht, rawL_nl pre _ n1]
      have e : pre.length + 1 = (pre.length + 1 - k1) + k1 := by omega
      have := h1 (pre.length + 1 - k1) [] (fun _ => Or.inl rfl)
      rw [List.append_nil] at this
      rw [e, this]
      have hrec := ih [] [] false pref_nil (fun h => by cases h) hch.2 hokt
      rw [List.nil_append] at hrec
      have hl : lexLine (pre.length + 1 - k1) [] = .ok [] := by
        cases hq : pre.length + 1 - k1 <;> simp [lexLine]
      rw [hl, hrec]
      simp [Except.map, Except.bind, Atom.raw]
    | piece w R ns' =>
      have hw : LexPiece w R ns' := hok _ List.mem_cons_self
      have hp' := pref_append pre w P R ns ns' hp hw (fun hn => hns hn)
      have ht : pre ++ atomsText (Atom.piece w R ns' :: t) = (pre ++ w) ++ atomsText t := by
        simp [atomsText, Atom.text]
      rw [ht, ih (pre ++ w) (P ++ R) ns' hp' (fun hn => hch.1 hn) hch.2 hokt]
      simp [Atom.raw]


/-! ### the pieces of every write of `dump` -/

/-- what the C++ reader model needs of a write: labels are accepted strings, numbers are terminating decimals that are
    binary64 values (every number of a real model) -/
def NumOK (q : Rat) : Prop := Dec60 q ∧ isDouble (absQ q) = true

def TokCppOK : Tok → Prop
  | .lin b v => NumOK b ∧ validLabel v = true
  | .qterm b u v => NumOK b ∧ validLabel u = true ∧ validLabel v = true
  | .const b => NumOK b
  | .clabel l => validLabel l = true
  | .cmp _ q => NumOK q
  | .bound lb v ub => NumOK lb ∧ validLabel v = true ∧ NumOK ub
  | .name v => validLabel v = true
  | _ => True

def rawOf : Tok → List Raw
  | .minimize => [.str "Minimize"]
  | .objLabel => [.str "obj", .colon]
  | .lin b v => [sgnRaw b, .cons (.fin (absQ b)), .str (labelText v)]
  | .qopen => [.plus, .brkop]
  | .qterm b u v => [sgnRaw b, .cons (.fin (absQ b)), .str (labelText u), .asterisk, .str (labelText v)]
  | .qcloseHalf => [.brkcl, .slash, .cons (.fin 2)]
  | .qclose => [.brkcl]
  | .const b => [sgnRaw b, .cons (.fin (absQ b))]
  | .blank2 => []
  | .subjectTo => [.str "Subject", .str "To"]
  | .clabel l => [.str (labelText l), .colon]
  | .cmp sn q => senseRaw sn ++ numRaw q
  | .nl => []
  | .bounds => [.str "Bounds"]
  | .bound lb v ub => numRaw lb ++ [.less, .equal, .str (labelText v), .less, .equal] ++ numRaw ub
  | .section g => [.str (if g then "General" else "Binary")]
  | .name v => [.str (labelText v)]
  | .end_ => [.str "End"]

def cmpBody (sn : Sense) (q : Rat) : List Char := (" " ++ senseText sn ++ " " ++ showFloat q).toList
def boundBody (lb : Rat) (v : Label) (ub : Rat) : List Char :=
  (" " ++ showFloat lb ++ " <= " ++ labelText v ++ " <= " ++ showFloat ub).toList

def tokAtoms : Tok → List Atom
  | .minimize => [.piece "Minimize".toList (rawOf .minimize) true, .nl]
  | .objLabel => [.piece Tok.objLabel.render.toList (rawOf .objLabel) false]
  | .lin b v => [.piece (Tok.lin b v).render.toList (rawOf (.lin b v)) false]
  | .qopen => [.piece Tok.qopen.render.toList (rawOf .qopen) false]
  | .qterm b u v => [.piece (Tok.qterm b u v).render.toList (rawOf (.qterm b u v)) false]
  | .qcloseHalf => [.piece Tok.qcloseHalf.render.toList (rawOf .qcloseHalf) false]
  | .qclose => [.piece Tok.qclose.render.toList (rawOf .qclose) false]
  | .const b => [.piece (Tok.const b).render.toList (rawOf (.const b)) false]
  | .blank2 => [.nl, .nl]
  | .subjectTo => [.piece "Subject To ".toList (rawOf .subjectTo) false, .nl]
  | .clabel l => [.piece (Tok.clabel l).render.toList (rawOf (.clabel l)) false]
  | .cmp sn q => [.piece (cmpBody sn q) (rawOf (.cmp sn q)) true, .nl]
  | .nl => [.nl]
  | .bounds => [.piece "Bounds".toList (rawOf .bounds) true, .nl]
  | .bound lb v ub => [.piece (boundBody lb v ub) (rawOf (.bound lb v ub)) true, .nl]
  | .section g => [.piece (if g then "General" else "Binary").toList (rawOf (.section g)) true, .nl]
  | .name v => [.piece (Tok.name v).render.toList (rawOf (.name v)) true]
  | .end_ => [.piece Tok.end_.render.toList (rawOf .end_) true]

theorem tokAtoms_text (t : Tok) : atomsText (tokAtoms t) = t.render.toList := by
  cases t with
  | «section» g => cases g <;> decide +kernel
  | cmp sn q =>
    show cmpBody sn q ++ (['\n'] ++ []) = ((" " ++ senseText sn ++ " " ++ showFloat q) ++ "\n").toList
    rw [String.toList_append]; rfl
  | bound lb v ub =>
    show boundBody lb v ub ++ (['\n'] ++ []) =
      ((" " ++ showFloat lb ++ " <= " ++ labelText v ++ " <= " ++ showFloat ub) ++ "\n").toList
    rw [String.toList_append]; rfl
  | lin b v => exact List.append_nil _
  | qterm b u v => exact List.append_nil _
  | const b => exact List.append_nil _
  | clabel l => exact List.append_nil _
  | name v => exact List.append_nil _
  | _ => decide +kernel

theorem label_is_str (l : Label) (h : validLabel l = true) : ∃ s, l = .str s := by
  cases l with
  | str s => exact ⟨s, rfl⟩
  | _ => simp [validLabel] at h

theorem label_length (s : String) (h : validLabel (.str s) = true) : 1 ≤ s.toList.length := by
  obtain ⟨c, t, hct, _⟩ := (lexWord_of_label s h).first
  rw [hct]; simp

theorem showAbs_length (b : Rat) (hd : Dec60 b) : 1 ≤ (showAbs b).toList.length := by
  have h0 : 0 ≤ absQ b := by unfold absQ; split <;> grind
  have hsh : showAbs b = if (absQ b).den = 1 then showNat (absQ b).num.toNat else showPosDecimal (absQ b) := rfl
  have hda : Dec60 (absQ b) := by unfold absQ; split; exact dec60_neg b hd; exact hd
  rw [hsh]; split
  · simp only [showNat, String.toList_ofList]
    have := (natDigits_spec (absQ b).num.toNat).1
    cases h : natDigits (absQ b).num.toNat with
    | nil => exact absurd h this
    | cons c t => simp
  · obtain ⟨ip, fp, fd, hw, _⟩ := showPosDecimal_form _ h0 hda
    rw [hw]; simp; omega

theorem sgnChar_noNl (b : Rat) : sgnChar b ≠ '\n' ∧ sgnChar b ≠ '\r' := by
  unfold sgnChar; split <;> decide

theorem piece_lin (b : Rat) (s : String) (hb : NumOK b) (hs : validLabel (.str s) = true) :
    LexPiece (Tok.lin b (.str s)).render.toList (rawOf (.lin b (.str s))) false := by
  have hf : (Tok.lin b (.str s)).render.toList = sgnChar b :: ' ' :: ((showAbs b).toList ++ ' ' :: (s.toList ++ [' '])) := by
    simp [Tok.render, String.toList_append, signText_toList, labelText]
  refine ⟨?_, 6, ?_, fun fuel rest _ => lex_write_lin b s hb.1 hb.2 hs rest fuel⟩
  · rw [hf]
    exact noNl_cons (sgnChar_noNl b) (noNl_cons (by decide) (noNl_append (noNl_showAbs b hb.1)
      (noNl_cons (by decide) (noNl_append (noNl_label s hs) (by decide)))))
  · rw [hf]
    have := showAbs_length b hb.1; have := label_length s hs
    simp; omega

theorem piece_const (b : Rat) (hb : NumOK b) : LexPiece (Tok.const b).render.toList (rawOf (.const b)) false := by
  have hf : (Tok.const b).render.toList = sgnChar b :: ' ' :: ((showAbs b).toList ++ [' ']) := by
    simp [Tok.render, String.toList_append, signText_toList]
  refine ⟨?_, 4, ?_, fun fuel rest _ => lex_write_const b hb.1 hb.2 rest fuel⟩
  · rw [hf]
    exact noNl_cons (sgnChar_noNl b) (noNl_cons (by decide) (noNl_append (noNl_showAbs b hb.1) (by decide)))
  · rw [hf]
    have := showAbs_length b hb.1
    simp; omega

theorem piece_qterm (b : Rat) (u v : String) (hb : NumOK b) (hu : validLabel (.str u) = true) (hv : validLabel (.str v) = true) :
    LexPiece (Tok.qterm b (.str u) (.str v)).render.toList (rawOf (.qterm b (.str u) (.str v))) false := by
  have hf : (Tok.qterm b (.str u) (.str v)).render.toList =
      sgnChar b :: ' ' :: ((showAbs b).toList ++ ' ' :: (u.toList ++ ' ' :: '*' :: ' ' :: (v.toList ++ [' ']))) := by
    simp [Tok.render, String.toList_append, signText_toList, labelText]
  refine ⟨?_, 10, ?_, fun fuel rest _ => lex_write_qterm b u v hb.1 hb.2 hu hv rest fuel⟩
  · rw [hf]
    exact noNl_cons (sgnChar_noNl b) (noNl_cons (by decide) (noNl_append (noNl_showAbs b hb.1)
      (noNl_cons (by decide) (noNl_append (noNl_label u hu) (noNl_cons (by decide) (noNl_cons (by decide)
        (noNl_cons (by decide) (noNl_append (noNl_label v hv) (by decide)))))))))
  · rw [hf]
    have := showAbs_length b hb.1; have := label_length u hu; have := label_length v hv
    simp; omega

theorem piece_clabel (s : String) (hs : validLabel (.str s) = true) :
    LexPiece (Tok.clabel (.str s)).render.toList (rawOf (.clabel (.str s))) false := by
  have hf : (Tok.clabel (.str s)).render.toList = ' ' :: (s.toList ++ [':', ' ']) := by
    simp [Tok.render, String.toList_append, labelText]
  refine ⟨?_, 4, ?_, fun fuel rest _ => lex_write_clabel s hs rest fuel⟩
  · rw [hf]; exact noNl_cons (by decide) (noNl_append (noNl_label s hs) (by decide))
  · rw [hf]; have := label_length s hs; simp; omega

theorem piece_name (s : String) (hs : validLabel (.str s) = true) :
    LexPiece (Tok.name (.str s)).render.toList (rawOf (.name (.str s))) true := by
  have hf : (Tok.name (.str s)).render.toList = ' ' :: s.toList := by
    simp [Tok.render, String.toList_append, labelText]
  refine ⟨?_, 2, ?_, fun fuel rest hr => lex_write_name s hs rest (hr rfl) fuel⟩
  · rw [hf]; exact noNl_cons (by decide) (noNl_label s hs)
  · rw [hf]; have := label_length s hs; simp; omega


theorem piece_word (w : String) (h : LexWord w) (hn : NoNl w.toList) : LexPiece w.toList [.str w] true := by
  obtain ⟨c, t, hct, _⟩ := h.first
  refine ⟨hn, 1, by rw [hct]; simp, fun fuel rest hr => ?_⟩
  rw [lexLine_word w h rest (hr rfl) fuel]; rfl

theorem piece_objLabel : LexPiece Tok.objLabel.render.toList (rawOf .objLabel) false :=
  ⟨by decide +kernel, 4, by decide +kernel, fun fuel rest _ => lex_write_objLabel rest fuel⟩

theorem piece_qopen : LexPiece Tok.qopen.render.toList (rawOf .qopen) false :=
  ⟨by decide +kernel, 4, by decide +kernel, fun fuel rest _ => lex_write_qopen rest fuel⟩

theorem piece_qcloseHalf : LexPiece Tok.qcloseHalf.render.toList (rawOf .qcloseHalf) false :=
  ⟨by decide +kernel, 4, by decide +kernel, fun fuel rest _ => lex_write_qcloseHalf rest fuel⟩

theorem piece_qclose : LexPiece Tok.qclose.render.toList (rawOf .qclose) false :=
  ⟨by decide +kernel, 2, by decide +kernel, fun fuel rest _ => lex_write_qclose rest fuel⟩

theorem piece_end : LexPiece Tok.end_.render.toList (rawOf .end_) true :=
  ⟨by decide +kernel, 1, by decide +kernel, fun fuel rest hr => lex_write_end rest (hr rfl) fuel⟩

theorem piece_subjectTo : LexPiece "Subject To ".toList (rawOf .subjectTo) false := by
  refine ⟨by decide +kernel, 4, by decide +kernel, fun fuel rest _ => ?_⟩
  have hf : "Subject To ".toList ++ rest = "Subject".toList ++ ' ' :: ("To".toList ++ ' ' :: rest) := rfl
  rw [hf, lexLine_word _ lexWord_keywords.2.2.1 _ (stops_blank _), lexLine_blank,
    lexLine_word _ lexWord_keywords.2.2.2.1 _ (stops_blank _), lexLine_blank, map_map_cons]; rfl

theorem senseText_noNl (sn : Sense) : NoNl (senseText sn).toList := by cases sn <;> decide +kernel

theorem showFloat_length (q : Rat) (hd : Dec60 q) : 1 ≤ (showFloat q).toList.length := by
  have := numK_le q hd
  have : 1 ≤ numK q := by unfold numK; split <;> omega
  omega

theorem piece_cmp (sn : Sense) (q : Rat) (hq : NumOK q) : LexPiece (cmpBody sn q) (rawOf (.cmp sn q)) true := by
  have hK := numK_le q hq.1
  cases sn with
  | le =>
    have hf : cmpBody .le q = ' ' :: '<' :: '=' :: ' ' :: (showFloat q).toList := by
      simp [cmpBody, String.toList_append, senseText]
    refine ⟨by rw [hf]; exact noNl_cons (by decide) (noNl_cons (by decide) (noNl_cons (by decide) (noNl_cons (by decide)
      (noNl_showFloat q hq.1)))), numK q + 4, by rw [hf]; simp; omega, fun fuel rest hr => ?_⟩
    have e : fuel + (numK q + 4) = fuel + numK q + 4 := by omega
    rw [hf, e, List.cons_append, List.cons_append, List.cons_append, List.cons_append, lexLine_blank,
      lexLine_single '<' .less (by decide) (by decide), lexLine_single '=' .equal (by decide) (by decide), lexLine_blank,
      lexLine_showFloat q hq.1 hq.2 rest (hr rfl), map_map_cons, map_map_cons]
    rfl
  | ge =>
    have hf : cmpBody .ge q = ' ' :: '>' :: '=' :: ' ' :: (showFloat q).toList := by
      simp [cmpBody, String.toList_append, senseText]
    refine ⟨by rw [hf]; exact noNl_cons (by decide) (noNl_cons (by decide) (noNl_cons (by decide) (noNl_cons (by decide)
      (noNl_showFloat q hq.1)))), numK q + 4, by rw [hf]; simp; omega, fun fuel rest hr => ?_⟩
    have e : fuel + (numK q + 4) = fuel + numK q + 4 := by omega
    rw [hf, e, List.cons_append, List.cons_append, List.cons_append, List.cons_append, lexLine_blank,
      lexLine_single '>' .greater (by decide) (by decide), lexLine_single '=' .equal (by decide) (by decide), lexLine_blank,
      lexLine_showFloat q hq.1 hq.2 rest (hr rfl), map_map_cons, map_map_cons]
    rfl
  | eq =>
    have hf : cmpBody .eq q = ' ' :: '=' :: ' ' :: (showFloat q).toList := by
      simp [cmpBody, String.toList_append, senseText]
    refine ⟨by rw [hf]; exact noNl_cons (by decide) (noNl_cons (by decide) (noNl_cons (by decide)
      (noNl_showFloat q hq.1))), numK q + 3, by rw [hf]; simp; omega, fun fuel rest hr => ?_⟩
    have e : fuel + (numK q + 3) = fuel + numK q + 3 := by omega
    rw [hf, e, List.cons_append, List.cons_append, List.cons_append, lexLine_blank,
      lexLine_single '=' .equal (by decide) (by decide), lexLine_blank,
      lexLine_showFloat q hq.1 hq.2 rest (hr rfl), map_map_cons]
    rfl

theorem piece_bound (lb ub : Rat) (s : String) (hl : NumOK lb) (hs : validLabel (.str s) = true) (hu : NumOK ub) :
    LexPiece (boundBody lb (.str s) ub) (rawOf (.bound lb (.str s) ub)) true := by
  have hKl := numK_le lb hl.1
  have hKu := numK_le ub hu.1
  have hls := label_length s hs
  have hf : boundBody lb (.str s) ub =
      ' ' :: ((showFloat lb).toList ++ ' ' :: '<' :: '=' :: ' ' :: (s.toList ++ ' ' :: '<' :: '=' :: ' ' :: (showFloat ub).toList)) := by
    simp [boundBody, String.toList_append, labelText]
  refine ⟨?_, numK ub + 9 + numK lb + 1, by rw [hf]; simp; omega, fun fuel rest hr => ?_⟩
  · rw [hf]
    exact noNl_cons (by decide) (noNl_append (noNl_showFloat lb hl.1) (noNl_cons (by decide) (noNl_cons (by decide)
      (noNl_cons (by decide) (noNl_cons (by decide) (noNl_append (noNl_label s hs) (noNl_cons (by decide)
        (noNl_cons (by decide) (noNl_cons (by decide) (noNl_cons (by decide) (noNl_showFloat ub hu.1)))))))))))
  · have e : fuel + (numK ub + 9 + numK lb + 1) = fuel + numK ub + 9 + numK lb + 1 := by omega
    have hf2 : boundBody lb (.str s) ub ++ rest =
        ' ' :: ((showFloat lb).toList ++ ' ' :: '<' :: '=' :: ' ' :: (s.toList ++ ' ' :: '<' :: '=' :: ' ' ::
          ((showFloat ub).toList ++ rest))) := by
      rw [hf]; simp
    rw [hf2, e, lexLine_blank, lexLine_showFloat lb hl.1 hl.2 _ (stops_blank _), lexLine_blank,
      lexLine_single '<' .less (by decide) (by decide), lexLine_single '=' .equal (by decide) (by decide), lexLine_blank,
      lexLine_label s hs _ (stops_blank _), lexLine_blank,
      lexLine_single '<' .less (by decide) (by decide), lexLine_single '=' .equal (by decide) (by decide), lexLine_blank,
      lexLine_showFloat ub hu.1 hu.2 rest (hr rfl)]
    cases lexLine fuel rest <;> simp [Except.map, rawOf, labelText]

/-- **every write of `dump` consists of pieces the C++ tokenizer reads as the write's raw tokens** -/
theorem tokAtoms_ok (t : Tok) (h : TokCppOK t) : ∀ a ∈ tokAtoms t, a.ok := by
  cases t with
  | minimize =>
    intro a ha; simp only [tokAtoms, List.mem_cons, List.mem_nil_iff, or_false] at ha
    rcases ha with rfl | rfl
    · exact piece_word "Minimize" lexWord_keywords.1 (by decide +kernel)
    · trivial
  | objLabel => intro a ha; simp only [tokAtoms, List.mem_singleton] at ha; subst ha; exact piece_objLabel
  | lin b v =>
    obtain ⟨s, rfl⟩ := label_is_str v h.2
    intro a ha; simp only [tokAtoms, List.mem_singleton] at ha; subst ha; exact piece_lin b s h.1 h.2
  | qopen => intro a ha; simp only [tokAtoms, List.mem_singleton] at ha; subst ha; exact piece_qopen
  | qterm b u v =>
    obtain ⟨su, rfl⟩ := label_is_str u h.2.1
    obtain ⟨sv, rfl⟩ := label_is_str v h.2.2
    intro a ha; simp only [tokAtoms, List.mem_singleton] at ha; subst ha; exact piece_qterm b su sv h.1 h.2.1 h.2.2
  | qcloseHalf => intro a ha; simp only [tokAtoms, List.mem_singleton] at ha; subst ha; exact piece_qcloseHalf
  | qclose => intro a ha; simp only [tokAtoms, List.mem_singleton] at ha; subst ha; exact piece_qclose
  | const b => intro a ha; simp only [tokAtoms, List.mem_singleton] at ha; subst ha; exact piece_const b h
  | blank2 =>
    intro a ha; simp only [tokAtoms, List.mem_cons, List.mem_nil_iff, or_false] at ha
    rcases ha with rfl | rfl <;> trivial
  | subjectTo =>
    intro a ha; simp only [tokAtoms, List.mem_cons, List.mem_nil_iff, or_false] at ha
    rcases ha with rfl | rfl
    · exact piece_subjectTo
    · trivial
  | clabel l =>
    obtain ⟨s, rfl⟩ := label_is_str l h
    intro a ha; simp only [tokAtoms, List.mem_singleton] at ha; subst ha; exact piece_clabel s h
  | cmp sn q =>
    intro a ha; simp only [tokAtoms, List.mem_cons, List.mem_nil_iff, or_false] at ha
    rcases ha with rfl | rfl
    · exact piece_cmp sn q h
    · trivial
  | nl => intro a ha; simp only [tokAtoms, List.mem_singleton] at ha; subst ha; trivial
  | bounds =>
    intro a ha; simp only [tokAtoms, List.mem_cons, List.mem_nil_iff, or_false] at ha
    rcases ha with rfl | rfl
    · exact piece_word "Bounds" lexWord_keywords.2.2.2.2.1 (by decide +kernel)
    · trivial
  | bound lb v ub =>
    obtain ⟨s, rfl⟩ := label_is_str v h.2.1
    intro a ha; simp only [tokAtoms, List.mem_cons, List.mem_nil_iff, or_false] at ha
    rcases ha with rfl | rfl
    · exact piece_bound lb ub s h.1 h.2.1 h.2.2
    · trivial
  | «section» g =>
    intro a ha; simp only [tokAtoms, List.mem_cons, List.mem_nil_iff, or_false] at ha
    rcases ha with rfl | rfl
    · cases g
      · exact piece_word "Binary" lexWord_keywords.2.2.2.2.2.1 (by decide +kernel)
      · exact piece_word "General" lexWord_keywords.2.2.2.2.2.2.1 (by decide +kernel)
    · trivial
  | name v =>
    obtain ⟨s, rfl⟩ := label_is_str v h
    intro a ha; simp only [tokAtoms, List.mem_singleton] at ha; subst ha; exact piece_name s h
  | end_ => intro a ha; simp only [tokAtoms, List.mem_singleton] at ha; subst ha; exact piece_end


/-! ### the whole text: writes with the breaks of `_WidthLimitedFile` -/

def writeAtoms (p : Bool × Tok) : List Atom := (if p.1 then [.nl, .piece [' '] [] false] else []) ++ tokAtoms p.2

def allAtoms (ws : List (Bool × Tok)) : List Atom := ws.flatMap writeAtoms

theorem atomsText_append (a b : List Atom) : atomsText (a ++ b) = atomsText a ++ atomsText b := by
  induction a with
  | nil => rfl
  | cons x t ih => simp [atomsText, ih]

theorem allAtoms_text (ws : List (Bool × Tok)) :
    atomsText (allAtoms ws) = joinL (ws.map fun p => (p.1, p.2.render.toList)) := by
  induction ws with
  | nil => rfl
  | cons p t ih =>
    obtain ⟨b, tk⟩ := p
    simp only [allAtoms, List.flatMap_cons, List.map_cons, joinL] at ih ⊢
    rw [atomsText_append, ih]
    unfold writeAtoms
    rw [atomsText_append, tokAtoms_text]
    cases b <;> simp [atomsText, Atom.text]

theorem tokAtoms_raw (t : Tok) : (tokAtoms t).flatMap Atom.raw = rawOf t := by
  cases t <;> simp [tokAtoms, Atom.raw, rawOf]

theorem allAtoms_raw (ws : List (Bool × Tok)) : (allAtoms ws).flatMap Atom.raw = (ws.map (·.2)).flatMap rawOf := by
  induction ws with
  | nil => rfl
  | cons p t ih =>
    obtain ⟨b, tk⟩ := p
    simp only [allAtoms, List.flatMap_cons, List.map_cons, List.flatMap_append] at ih ⊢
    rw [ih]
    unfold writeAtoms
    rw [List.flatMap_append, tokAtoms_raw]
    cases b <;> simp [Atom.raw]

theorem piece_blank : LexPiece [' '] [] false :=
  ⟨by decide, 1, by decide, fun fuel rest _ => by
    show lexLine (fuel + 1) (' ' :: rest) = _
    rw [lexLine_blank]; cases lexLine fuel rest <;> rfl⟩

theorem allAtoms_ok (ws : List (Bool × Tok)) (h : ∀ p ∈ ws, TokCppOK p.2) : ∀ a ∈ allAtoms ws, a.ok := by
  intro a ha
  simp only [allAtoms, List.mem_flatMap] at ha
  obtain ⟨p, hp, hap⟩ := ha
  unfold writeAtoms at hap
  rcases List.mem_append.mp hap with h1 | h1
  · split at h1
    · simp only [List.mem_cons, List.mem_nil_iff, or_false] at h1
      rcases h1 with rfl | rfl
      · trivial
      · exact piece_blank
    · cases h1
  · exact tokAtoms_ok p.2 (h p hp) a h1

def endsNs : List Atom → Bool
  | [] => false
  | [a] => a.needsStop
  | _ :: t => endsNs t

theorem nextStop_append (A B : List Atom) (hA : A ≠ []) : nextStop (A ++ B) = nextStop A := by
  cases A with
  | nil => exact absurd rfl hA
  | cons a t => cases a <;> rfl

theorem chain_append (A B : List Atom) (hA : Chain A) (hB : Chain B) (h : endsNs A = true → nextStop B) :
    Chain (A ++ B) := by
  induction A with
  | nil => exact hB
  | cons a t ih =>
    cases t with
    | nil => exact ⟨fun hn => h hn, hB⟩
    | cons b t' =>
      refine ⟨fun hn => ?_, ih hA.2 (fun he => h he)⟩
      have := nextStop_append (b :: t') B (by simp)
      show nextStop ((b :: t') ++ B)
      rw [this]
      exact hA.1 hn

theorem tokAtoms_chain (t : Tok) : Chain (tokAtoms t) := by
  cases t <;> simp [tokAtoms, Chain, Atom.needsStop, nextStop]

theorem tokAtoms_ne_nil (t : Tok) : tokAtoms t ≠ [] := by cases t <;> simp [tokAtoms]

theorem tokAtoms_endsNs (t : Tok) (h : endsNs (tokAtoms t) = true) : endsK t = false := by
  cases t <;> simp [tokAtoms, endsNs, Atom.needsStop, endsK] at h ⊢

theorem tokAtoms_nextStop (t : Tok) (h : startsK t = true) : nextStop (tokAtoms t) := by
  cases t with
  | name v => exact ⟨(labelText v).toList, by simp [Tok.render, String.toList_append]⟩
  | nl => trivial
  | _ => simp [startsK] at h

def startsOK : List (Bool × Tok) → Prop
  | [] => True
  | p :: _ => p.1 = true ∨ startsK p.2 = true

theorem allAtoms_nextStop (ws : List (Bool × Tok)) (h : startsOK ws) : nextStop (allAtoms ws) := by
  cases ws with
  | nil => trivial
  | cons p t =>
    obtain ⟨b, tk⟩ := p
    simp only [allAtoms, List.flatMap_cons, writeAtoms]
    cases b with
    | true => trivial
    | false =>
      simp only [Bool.false_eq_true, if_false, List.nil_append]
      rw [nextStop_append _ _ (tokAtoms_ne_nil tk)]
      rcases h with h | h
      · cases h
      · exact tokAtoms_nextStop tk h

theorem endsNs_append (A B : List Atom) (hB : B ≠ []) : endsNs (A ++ B) = endsNs B := by
  induction A with
  | nil => rfl
  | cons a t ih =>
    cases htb : t ++ B with
    | nil => simp at htb; exact absurd htb.2 hB
    | cons x y => simp only [List.cons_append, htb, endsNs]; rw [← htb, ih]

theorem allAtoms_chain (ws : List (Bool × Tok)) (h : List.IsChain TokSep (ws.map (·.2))) : Chain (allAtoms ws) := by
  induction ws with
  | nil => trivial
  | cons p t ih =>
    obtain ⟨b, tk⟩ := p
    have ht : List.IsChain TokSep (t.map (·.2)) := by
      simp only [List.map_cons] at h; exact List.IsChain.tail h
    simp only [allAtoms, List.flatMap_cons]
    apply chain_append _ _ _ (ih ht)
    · -- the atoms of this write end with a piece that needs a stop: the next write starts with one
      intro he
      have hne := tokAtoms_ne_nil tk
      unfold writeAtoms at he
      rw [endsNs_append _ _ hne] at he
      have hk := tokAtoms_endsNs tk he
      apply allAtoms_nextStop
      cases t with
      | nil => trivial
      | cons q t' =>
        simp only [List.map_cons] at h
        have := (List.isChain_cons_cons.mp h).1
        rcases this with h1 | h1
        · rw [hk] at h1; cases h1
        · exact Or.inr h1
    · unfold writeAtoms
      cases b with
      | true =>
        show Chain (Atom.nl :: Atom.piece [' '] [] false :: tokAtoms tk)
        exact ⟨(fun h => by cases h), ⟨(fun h => by cases h), tokAtoms_chain tk⟩⟩
      | false => simpa using tokAtoms_chain tk

/-- **the raw tokens of any text `_WidthLimitedFile` makes of the writes of `dump`** — whatever breaks were inserted -/
theorem rawL_writes (ws : List (Bool × Tok)) (hok : ∀ p ∈ ws, TokCppOK p.2) (hsep : List.IsChain TokSep (ws.map (·.2))) :
    rawL (joinL (ws.map fun p => (p.1, p.2.render.toList))) = .ok ((ws.map (·.2)).flatMap rawOf) := by
  have := rawL_atoms (allAtoms ws) [] [] false pref_nil (fun h => by cases h) (allAtoms_chain ws hsep) (allAtoms_ok ws hok)
  rw [List.nil_append, allAtoms_text, allAtoms_raw] at this
  simpa using this


/-! ### from the model to its text -/

/-- every number the writer prints for `m` is a terminating decimal (≤ 60 places) and a binary64 value -/
structure CppNumsOK (m : LCqm) : Prop where
  objLin : ∀ p ∈ m.obj.lin, NumOK p.2
  objQuad : ∀ q ∈ m.obj.quad, NumOK (2 * q.2.2)
  objOff : NumOK m.obj.off
  conLin : ∀ c ∈ m.cons, ∀ p ∈ c.lhs.lin, NumOK p.2
  conQuad : ∀ c ∈ m.cons, ∀ q ∈ c.lhs.quad, NumOK q.2.2
  conRhs : ∀ c ∈ m.cons, NumOK (c.rhs - c.lhs.off)
  bounds : ∀ v ∈ m.vars, NumOK v.lb ∧ NumOK v.ub

/-- expressions mention only variables of the model (any accepted label, `To` included) -/
structure ScopedOK (m : LCqm) : Prop where
  objLin : ∀ p ∈ m.obj.lin, ∃ v ∈ m.vars, v.name = p.1
  objQuad : ∀ q ∈ m.obj.quad, (∃ v ∈ m.vars, v.name = q.1) ∧ (∃ v ∈ m.vars, v.name = q.2.1)
  conLin : ∀ c ∈ m.cons, ∀ p ∈ c.lhs.lin, ∃ v ∈ m.vars, v.name = p.1
  conQuad : ∀ c ∈ m.cons, ∀ q ∈ c.lhs.quad, (∃ v ∈ m.vars, v.name = q.1) ∧ (∃ v ∈ m.vars, v.name = q.2.1)

theorem structural_cpp_ok (t : Tok)
    (h : t = .minimize ∨ t = .objLabel ∨ t = .qopen ∨ t = .qcloseHalf ∨ t = .qclose ∨ t = .blank2 ∨ t = .subjectTo ∨
         t = .nl ∨ t = .bounds ∨ t = .section false ∨ t = .section true ∨ t = .end_) : TokCppOK t := by
  rcases h with rfl | rfl | rfl | rfl | rfl | rfl | rfl | rfl | rfl | rfl | rfl | rfl <;> trivial

theorem tokCppOK_of_model (m : LCqm) (ts : List Tok) (h : dumpToks m = .ok ts) (hn : CppNumsOK m) (hl : ScopedOK m) :
    ∀ t ∈ ts, TokCppOK t := by
  obtain ⟨hcl, hvl, rfl⟩ := dumpToks_ok_inv m ts h
  have good : ∀ l, (∃ v ∈ m.vars, v.name = l) → validLabel l = true := by
    rintro l ⟨v, hv, rfl⟩
    exact hvl v hv
  intro t ht
  simp only [List.mem_append, List.mem_cons, List.not_mem_nil, or_false, List.mem_flatMap] at ht
  rcases ht with ((((((ht | ht) | ht) | ht) | ht) | ht) | ht)
  · rcases mem_objToks m.obj t ht with rfl | rfl | h1 | rfl | ⟨q, hq, rfl⟩ | rfl | rfl
    · exact structural_cpp_ok _ (by simp)
    · exact structural_cpp_ok _ (by simp)
    · obtain ⟨p, hp, rfl⟩ := mem_linToks _ t h1
      exact ⟨hn.objLin p hp, good _ (hl.objLin p hp)⟩
    · exact structural_cpp_ok _ (by simp)
    · exact ⟨hn.objQuad _ hq, good _ (hl.objQuad _ hq).1, good _ (hl.objQuad _ hq).2⟩
    · exact structural_cpp_ok _ (by simp)
    · exact hn.objOff
  · exact structural_cpp_ok t (by rcases ht with rfl | rfl <;> simp)
  · obtain ⟨c, hc, htc⟩ := ht
    unfold conToks at htc
    simp only [List.mem_append, List.mem_cons, List.not_mem_nil, or_false] at htc
    rcases htc with ((rfl | htc) | htc) | rfl
    · exact hcl c hc
    · obtain ⟨p, hp, rfl⟩ := mem_linToks _ t htc
      exact ⟨hn.conLin c hc p hp, good _ (hl.conLin c hc p hp)⟩
    · rcases mem_qblock c.lhs.quad _ _ t htc with rfl | ⟨q, hq, rfl⟩ | rfl
      · exact structural_cpp_ok _ (by simp)
      · exact ⟨hn.conQuad c hc _ hq, good _ (hl.conQuad c hc _ hq).1, good _ (hl.conQuad c hc _ hq).2⟩
      · exact structural_cpp_ok _ (by simp)
    · exact hn.conRhs c hc
  · exact structural_cpp_ok t (by rcases ht with rfl | rfl <;> simp)
  · unfold boundToks at ht
    obtain ⟨v, hv, rfl⟩ := List.mem_map.mp ht
    have hvm := (List.mem_filter.mp hv).1
    exact ⟨(hn.bounds v hvm).1, hvl v hvm, (hn.bounds v hvm).2⟩
  · unfold sectionToks at ht
    simp only [List.mem_append, List.mem_cons, List.not_mem_nil, or_false, List.mem_map] at ht
    rcases ht with (((rfl | rfl) | ⟨v, hv, rfl⟩) | (rfl | rfl)) | ⟨v, hv, rfl⟩
    · exact structural_cpp_ok _ (by simp)
    · exact structural_cpp_ok _ (by simp)
    · exact good _ ⟨v, (List.mem_filter.mp hv).1, rfl⟩
    · exact structural_cpp_ok _ (by simp)
    · exact structural_cpp_ok _ (by simp)
    · exact good _ ⟨v, (List.mem_filter.mp hv).1, rfl⟩
  · exact structural_cpp_ok t (by rcases ht with rfl | rfl <;> simp)

theorem zip_flags (W : List (Bool × String)) : ∀ (ts : List Tok), W.map (·.2) = ts.map Tok.render →
    ((W.map (·.1)).zip ts).map (fun p => (p.1, p.2.render.toList)) = W.map (fun p => (p.1, p.2.toList)) ∧
    ((W.map (·.1)).zip ts).map (·.2) = ts := by
  induction W with
  | nil => intro ts h; cases ts with
    | nil => exact ⟨rfl, rfl⟩
    | cons t r => simp at h
  | cons p W' ih =>
    intro ts h
    cases ts with
    | nil => simp at h
    | cons t r =>
      simp only [List.map_cons, List.cons.injEq] at h
      obtain ⟨h1, h2⟩ := ih r h.2
      simp only [List.map_cons, List.zip_cons_cons, h1, h2, h.1]
      exact ⟨trivial, trivial⟩

theorem rawTokens_eq_rawL (text : String) : rawTokens text = rawL text.toList := by
  unfold rawTokens rawL
  rw [if_neg (by decide +kernel)]
  rfl

/-- **the C++ tokenizer on the text of `lp.dumps`**: for every model the writer accepts whose numbers are terminating
    decimals and binary64 values and whose expressions mention only its own variables, the raw tokens are those of
    the writes, in order — whatever lines `_WidthLimitedFile` broke -/
theorem rawTokens_dumps (m : LCqm) (ts : List Tok) (text : String) (h : dumpToks m = .ok ts) (ht : dumps m = .ok text)
    (hn : CppNumsOK m) (hl : ScopedOK m) : rawTokens text = .ok (ts.flatMap rawOf) := by
  have hok := tokCppOK_of_model m ts h hn hl
  have hsep := dumpToks_separated m ts h
  unfold dumps at ht
  rw [h] at ht
  simp only [Except.ok.injEq] at ht
  subst ht
  rw [rawTokens_eq_rawL, joinWrites_toList]
  obtain ⟨z1, z2⟩ := zip_flags (wrapWrites 0 (ts.map Tok.render)) ts (wrapWrites_snd' 0 _)
  rw [← z1]
  have := rawL_writes (((wrapWrites 0 (ts.map Tok.render)).map (·.1)).zip ts)
    (fun p hp => hok p.2 (by rw [← z2]; exact List.mem_map_of_mem hp)) (by rw [z2]; exact hsep)
  rw [z2] at this
  exact this

theorem numOK_of_dyadic (q : Rat) (j : Nat) (hj : j ≤ 60) (h : (q * (2 : Rat) ^ j).den = 1) (hd : isDouble (absQ q) = true) :
    NumOK q := ⟨dec60_of_dyadic q j hj h, hd⟩

end LpCpp
