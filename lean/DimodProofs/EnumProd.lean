import DimodModel.Enumerate
import Mathlib.Data.List.Forall2
import Mathlib.Data.List.Nodup
import Mathlib.Data.List.Perm.Basic

/-! C07: the list products behind `_all_cases_dqm` / `_all_cases_cqm` enumerate each assignment
    exactly once. -/

namespace Enum

variable {α : Type}

/-- an assignment: one value per domain, in order -/
def IsAssignment (row : List α) (doms : List (List α)) : Prop := List.Forall₂ (fun a d => a ∈ d) row doms

theorem mem_prodLex (doms : List (List α)) (row : List α) : row ∈ prodLex doms ↔ IsAssignment row doms := by
  induction doms generalizing row with
  | nil =>
    simp only [prodLex, List.mem_singleton, IsAssignment]
    constructor
    · rintro rfl; exact List.Forall₂.nil
    · intro h; cases h; rfl
  | cons d ds ih =>
    simp only [prodLex, List.mem_flatMap, List.mem_map, IsAssignment]
    constructor
    · rintro ⟨a, ha, t, ht, rfl⟩
      exact List.Forall₂.cons ha ((ih t).mp ht)
    · intro h
      cases h with
      | cons ha ht => exact ⟨_, ha, _, (ih _).mpr ht, rfl⟩

theorem nodup_prodLex [DecidableEq α] (doms : List (List α)) (h : ∀ d ∈ doms, d.Nodup) : (prodLex doms).Nodup := by
  induction doms with
  | nil => simp [prodLex]
  | cons d ds ih =>
    have hd : d.Nodup := h d (List.mem_cons_self)
    have hds := ih (fun x hx => h x (List.mem_cons_of_mem _ hx))
    simp only [prodLex]
    rw [List.nodup_flatMap]
    constructor
    · intro a _
      exact hds.map (fun x y hxy => by simpa using hxy)
    · apply List.Pairwise.imp_of_mem _ hd
      intro a b _ _ hab
      simp only [Function.onFun, List.disjoint_left, List.mem_map]
      rintro x ⟨t, _, rfl⟩ ⟨t', _, h'⟩
      exact hab (by simpa using (List.cons.inj h').1.symm)

theorem length_prodLex (doms : List (List α)) : (prodLex doms).length = (doms.map List.length).prod := by
  induction doms with
  | nil => simp [prodLex]
  | cons d ds ih =>
    simp only [prodLex, List.length_flatMap, List.length_map, ih, List.map_cons, List.prod_cons]
    induction d with
    | nil => simp
    | cons a as iha => simp [List.sum_cons, Nat.succ_mul]; omega

theorem meshUnreorder_reorder (l : List α) : meshUnreorder (meshReorder l) = l := by
  match l with
  | [] => rfl
  | [a] => rfl
  | a :: b :: rest => simp [meshReorder, meshUnreorder]

/-- rows of the meshgrid expression are exactly the assignments -/
theorem mem_meshRows (doms : List (List α)) (row : List α) : row ∈ meshRows doms ↔ IsAssignment row doms := by
  unfold meshRows
  rw [List.mem_map]
  constructor
  · rintro ⟨t, ht, rfl⟩
    rw [mem_prodLex] at ht
    match doms, ht with
    | [], ht => cases ht; exact List.Forall₂.nil
    | [d], ht =>
      cases ht with
      | cons ha hn => cases hn; exact List.Forall₂.cons ha List.Forall₂.nil
    | d1 :: d2 :: ds, ht =>
      unfold IsAssignment at ht ⊢
      simp only [meshReorder] at ht
      rw [← List.forall₂_reverse_iff] at ht
      simp only [List.reverse_append, List.reverse_cons, List.reverse_nil, List.nil_append, List.cons_append, List.reverse_reverse] at ht
      rw [List.forall₂_cons_right_iff] at ht
      obtain ⟨x2, r1, h2, hr1, he⟩ := ht
      rw [List.forall₂_cons_right_iff] at hr1
      obtain ⟨x1, r, h1, hr, he1⟩ := hr1
      subst he1
      simp only [meshUnreorder, he]
      exact List.Forall₂.cons h1 (List.Forall₂.cons h2 hr)
  · intro h
    refine ⟨meshReorder row, ?_, meshUnreorder_reorder row⟩
    rw [mem_prodLex]
    unfold IsAssignment at h ⊢
    match doms, row, h with
    | [], _, h => cases h; exact List.Forall₂.nil
    | [d], _, h =>
      cases h with
      | cons ha hn => cases hn; exact List.Forall₂.cons ha List.Forall₂.nil
    | d1 :: d2 :: ds, _, h =>
      cases h with
      | cons h1 h' =>
        cases h' with
        | cons h2 hr =>
          simp only [meshReorder]
          apply List.rel_append
          · exact List.rel_reverse hr
          · exact List.Forall₂.cons h1 (List.Forall₂.cons h2 List.Forall₂.nil)

theorem meshReorder_unreorder_of_assignment (doms : List (List α)) (t : List α)
    (ht : IsAssignment t (meshReorder doms)) : meshReorder (meshUnreorder t) = t := by
  match doms, ht with
  | [], ht => cases ht; rfl
  | [d], ht =>
    cases ht with
    | cons ha hn => cases hn; rfl
  | d1 :: d2 :: ds, ht =>
    unfold IsAssignment at ht
    simp only [meshReorder] at ht
    rw [← List.forall₂_reverse_iff] at ht
    simp only [List.reverse_append, List.reverse_cons, List.reverse_nil, List.nil_append, List.cons_append, List.reverse_reverse] at ht
    rw [List.forall₂_cons_right_iff] at ht
    obtain ⟨x2, r1, _, hr1, he⟩ := ht
    rw [List.forall₂_cons_right_iff] at hr1
    obtain ⟨x1, r, _, _, he1⟩ := hr1
    subst he1
    have : t = (x2 :: x1 :: r).reverse := by rw [← he, List.reverse_reverse]
    simp only [meshUnreorder, he, meshReorder]
    rw [this]; simp

theorem nodup_meshRows [DecidableEq α] (doms : List (List α)) (h : ∀ d ∈ doms, d.Nodup) : (meshRows doms).Nodup := by
  unfold meshRows
  apply List.Nodup.map_on
  · intro t ht t' ht' he
    rw [mem_prodLex] at ht ht'
    rw [← meshReorder_unreorder_of_assignment doms t ht, ← meshReorder_unreorder_of_assignment doms t' ht', he]
  · apply nodup_prodLex
    intro d hd
    apply h
    match doms, hd with
    | [], hd => simp [meshReorder] at hd
    | [d'], hd => simpa [meshReorder] using hd
    | d1 :: d2 :: ds, hd =>
      simp only [meshReorder, List.mem_append, List.mem_reverse, List.mem_cons, List.not_mem_nil, or_false] at hd
      simp only [List.mem_cons]
      tauto

/-- `_all_cases_dqm`: every case vector exactly once -/
theorem mem_allCasesDqm (numCases : List Nat) (row : List Nat) :
    row ∈ allCasesDqm numCases ↔ List.Forall₂ (fun c k => c < k) row numCases := by
  unfold allCasesDqm
  rw [mem_meshRows]
  unfold IsAssignment
  rw [List.forall₂_map_right_iff]
  simp

theorem nodup_allCasesDqm (numCases : List Nat) : (allCasesDqm numCases).Nodup := by
  apply nodup_meshRows
  intro d hd
  rw [List.mem_map] at hd
  obtain ⟨k, _, rfl⟩ := hd
  exact List.nodup_range

end Enum
