import Generated.SymPrograms
import DimodProofs.SymCmp

/-! C06: the operator programs GENERATED from the source (`Generated/SymPrograms.lean`): which objects they write. -/

namespace Sym

/-- an instruction leaves every existing object that is not its write target as it was -/
theorem step_frame_ne (h h' : Store) (i : Instr) (j : Nat) (hj : j < h.length) (ht : i.target ≠ some j)
    (hs : step h i = .ok h') : h.length ≤ h'.length ∧ h'[j]? = h[j]? := by
  cases i with
  | copy s =>
    simp only [step] at hs
    split at hs
    · simp only [Except.ok.injEq] at hs; subst hs
      exact ⟨by simp, by rw [List.getElem?_append_left hj]⟩
    · simp at hs
  | newQM =>
    simp only [step, Except.ok.injEq] at hs; subst hs
    exact ⟨by simp, by rw [List.getElem?_append_left hj]⟩
  | fromBqm s =>
    simp only [step] at hs
    split at hs
    · simp only [Except.ok.injEq] at hs; subst hs
      exact ⟨by simp, by rw [List.getElem?_append_left hj]⟩
    · simp at hs
  | mulNew a b =>
    simp only [step] at hs
    split at hs
    · split at hs
      · simp only [Except.ok.injEq] at hs; subst hs
        exact ⟨by simp, by rw [List.getElem?_append_left hj]⟩
      · simp at hs
    · simp at hs
  | scale d q =>
    have hd : d ≠ j := fun e => ht (by simp [Instr.target, e])
    simp only [step] at hs
    split at hs
    · simp only [Except.ok.injEq] at hs; subst hs
      exact ⟨by simp [setAt], by simp only [setAt]; rw [List.getElem?_set_ne hd]⟩
    · simp at hs
  | addOffset d q =>
    have hd : d ≠ j := fun e => ht (by simp [Instr.target, e])
    simp only [step] at hs
    split at hs
    · simp only [Except.ok.injEq] at hs; subst hs
      exact ⟨by simp [setAt], by simp only [setAt]; rw [List.getElem?_set_ne hd]⟩
    · simp at hs
  | update d s =>
    have hd : d ≠ j := fun e => ht (by simp [Instr.target, e])
    simp only [step] at hs
    split at hs
    · split at hs
      · simp only [Except.ok.injEq] at hs; subst hs
        exact ⟨by simp [setAt], by simp only [setAt]; rw [List.getElem?_set_ne hd]⟩
      · simp at hs
    · simp at hs

/-- no instruction of the program has `j` as its write target -/
def NoWriteTo (j : Nat) (p : List Instr) : Bool := p.all fun i => decide (i.target ≠ some j)

/-- … then object `j` is the same at the end of the run, also when the run is cut short by an exception -/
theorem execT_frame_ne (p : List Instr) (h : Store) (j : Nat) (hj : j < h.length) (hw : NoWriteTo j p = true) :
    (execT h p).1[j]? = h[j]? := by
  induction p generalizing h with
  | nil => rfl
  | cons i is ih =>
    simp only [NoWriteTo, List.all_cons, Bool.and_eq_true, decide_eq_true_eq] at hw
    unfold execT
    cases hs : step h i with
    | error e => rfl
    | ok h1 =>
      obtain ⟨hl, hf⟩ := step_frame_ne h h1 i j hj hw.1 hs
      show (execT h1 is).1[j]? = h[j]?
      rw [ih h1 (by omega) (by simpa [NoWriteTo] using hw.2), hf]

/-- every generated non-in-place body, and every in-place form that falls back on the binary operator, writes only to
    objects it allocated -/
theorem generated_write_fresh (a b : Nat) (q : Rat) (n : Nat) :
    (Generated.nonInplace a b q n ++ Generated.inplaceFallback a b q n).all (WritesFresh n) = true := by
  simp [Generated.nonInplace, Generated.inplaceFallback, WritesFresh, Instr.target]

/-- every generated mutating in-place form writes to its left operand `a` only -/
theorem generated_inplace_targets (a b : Nat) (q : Rat) (n : Nat) :
    (Generated.inplaceMutating a b q n).all (fun p => p.all fun i => decide (i.target = some a)) = true := by
  simp [Generated.inplaceMutating, Instr.target]

theorem noWrite_of_targets (p : List Instr) (a j : Nat) (hja : j ≠ a)
    (h : (p.all fun i => decide (i.target = some a)) = true) : NoWriteTo j p = true := by
  simp only [NoWriteTo, List.all_eq_true, decide_eq_true_eq] at h ⊢
  intro i hi
  rw [h i hi]
  intro e
  exact hja (Option.some.inj e).symm

/-- the generated `BQM * BQM` of different vartypes (`from_bqm(self) * other` → `BQM.__rmul__`: `from_bqm(other) * qm`)
    computes `mMul` -/
theorem exec_gen_mulDiffer (h : Store) (a b : Nat) (q : Rat) (x y : Model) (ha : h[a]? = some x) (hb : h[b]? = some y)
    (hx : x.isQM = false) (hy : y.isQM = false) (hd : bqmDiffer x y = true)
    (hl : x.isLinear = true ∧ y.isLinear = true) :
    (exec h (Generated.bqm_mul_bqm_differ a b q h.length)).map (fun h' => h'[h.length + 2]?) = (mMul x y).map some := by
  have e1 : (h ++ [x.toQM])[b]? = some y := get_old h _ b y hb
  have e2 : (h ++ [x.toQM] ++ [y.toQM])[h.length]? = some x.toQM := by
    rw [List.append_assoc]; exact get_new0 h _ _
  have e3 : (h ++ [x.toQM] ++ [y.toQM])[h.length + 1]? = some y.toQM := by
    rw [List.append_assoc]; exact get_new1 h _ _ []
  simp only [Generated.bqm_mul_bqm_differ, exec, step, ha, e1, e2, e3]
  have hm : mMul x y = qmMul y.toQM x.toQM := by simp [mMul, hx, hy, hd, hl]
  have hu : mulObj y.toQM x.toQM = qmMul y.toQM x.toQM := by simp [mulObj, Model.toQM]
  rw [hm, hu]
  cases qmMul y.toQM x.toQM with
  | error e => rfl
  | ok m =>
    simp only [exec, Except.map]
    have : (h ++ [x.toQM] ++ [y.toQM] ++ [m])[h.length + 2]? = some m := by
      rw [List.getElem?_append_right (by simp)]; simp
    rw [this]

def evalStore (x : Label → Rat) (h : Store) : List Rat := h.map (·.eval x)

def stepE (e : List Rat) : Instr → Option (List Rat)
  | .copy s => e[s]?.map fun v => e ++ [v]
  | .fromBqm s => e[s]?.map fun v => e ++ [v]
  | .newQM => some (e ++ [0])
  | .scale d q => e[d]?.map fun v => e.set d (q * v)
  | .addOffset d q => e[d]?.map fun v => e.set d (v + q)
  | .update d s => match e[d]?, e[s]? with | some v, some w => some (e.set d (v + w)) | _, _ => none
  | .mulNew _ _ => none

def execE (e : List Rat) : List Instr → Option (List Rat)
  | [] => some e
  | i :: is => match stepE e i with | some e' => execE e' is | none => none

theorem eval_upd (m o m' : Model) (x : Label → Rat) (h : upd m o = .ok m') : m'.eval x = m.eval x + o.eval x := by
  unfold upd at h
  split at h
  · exact eval_qmUpdate m o m' x h
  · simp only [Except.ok.injEq] at h; subst h; exact eval_bqmUpdate m o x

theorem step_evalE (x : Label → Rat) (h h' : Store) (i : Instr) (hs : step h i = .ok h') (hm : ∀ a b, i ≠ .mulNew a b) :
    stepE (evalStore x h) i = some (evalStore x h') := by
  cases i with
  | mulNew a b => exact absurd rfl (hm a b)
  | copy s =>
    simp only [step] at hs
    split at hs
    · rename_i m hm'
      simp only [Except.ok.injEq] at hs; subst hs
      simp [stepE, evalStore, List.getElem?_map, hm']
    · simp at hs
  | fromBqm s =>
    simp only [step] at hs
    split at hs
    · rename_i m hm'
      simp only [Except.ok.injEq] at hs; subst hs
      simp [stepE, evalStore, List.getElem?_map, hm', eval_toQM]
    · simp at hs
  | newQM =>
    simp only [step, Except.ok.injEq] at hs; subst hs
    simp [stepE, evalStore, eval_emptyQM]
  | scale d q =>
    simp only [step] at hs
    split at hs
    · rename_i m hm'
      simp only [Except.ok.injEq] at hs; subst hs
      simp [stepE, evalStore, List.getElem?_map, hm', setAt, List.map_set, eval_scale]
    · simp at hs
  | addOffset d q =>
    simp only [step] at hs
    split at hs
    · rename_i m hm'
      simp only [Except.ok.injEq] at hs; subst hs
      simp [stepE, evalStore, List.getElem?_map, hm', setAt, List.map_set, eval_addOffset]
    · simp at hs
  | update d s =>
    simp only [step] at hs
    split at hs
    · rename_i m o hm' ho'
      split at hs
      · rename_i m' hu
        simp only [Except.ok.injEq] at hs; subst hs
        simp [stepE, evalStore, List.getElem?_map, hm', ho', setAt, List.map_set, eval_upd m o m' x hu]
      · simp at hs
    · simp at hs

def noMul (p : List Instr) : Bool := p.all fun i => match i with | .mulNew _ _ => false | _ => true

theorem exec_evalE (x : Label → Rat) (p : List Instr) (h h' : Store) (he : exec h p = .ok h') (hm : noMul p = true) :
    execE (evalStore x h) p = some (evalStore x h') := by
  induction p generalizing h with
  | nil => simp only [exec, Except.ok.injEq] at he; subst he; rfl
  | cons i is ih =>
    simp only [noMul, List.all_cons, Bool.and_eq_true] at hm
    simp only [exec] at he
    split at he
    · rename_i h1 hs
      have h1' := step_evalE x h h1 i hs (by intro a b e; subst e; simp at hm)
      simp only [execE, h1']
      exact ih h1 he hm.2
    · simp at he

/-- from the energy semantics of a list of forms to the energies of the objects the real store run returns -/
theorem forms_energy (L : List (List Instr × Nat)) (ea eb want : Rat)
    (hE : ∀ pr ∈ L, noMul pr.1 = true ∧ ∃ e', execE [ea, eb] pr.1 = some e' ∧ e'[pr.2]? = some want)
    (x y : Model) (s : Label → Rat) (hx : x.eval s = ea) (hy : y.eval s = eb) :
    ∀ pr ∈ L, ∀ h', exec [x, y] pr.1 = .ok h' → (h'[pr.2]?).map (·.eval s) = some want := by
  intro pr hpr h' he
  obtain ⟨hm, e', h1, h2⟩ := hE pr hpr
  have h3 := exec_evalE s pr.1 [x, y] h' he hm
  simp only [evalStore, List.map, hx, hy] at h3
  rw [h1] at h3
  injection h3 with h3
  subst h3
  rw [← List.getElem?_map]
  exact h2

theorem addForms_E (ea eb q : Rat) :
    ∀ pr ∈ Generated.addForms q, noMul pr.1 = true ∧ ∃ e', execE [ea, eb] pr.1 = some e' ∧ e'[pr.2]? = some (ea + eb) := by
  simp [Generated.addForms, execE, stepE, noMul]

theorem subForms_E (ea eb q : Rat) :
    ∀ pr ∈ Generated.subForms q, noMul pr.1 = true ∧ ∃ e', execE [ea, eb] pr.1 = some e' ∧ e'[pr.2]? = some (ea - eb) := by
  simp [Generated.subForms, execE, stepE, noMul] <;> ring_nf

theorem addNumForms_E (ea eb q : Rat) :
    ∀ pr ∈ Generated.addNumForms q, noMul pr.1 = true ∧ ∃ e', execE [ea, eb] pr.1 = some e' ∧ e'[pr.2]? = some (ea + q) := by
  simp [Generated.addNumForms, execE, stepE, noMul]

theorem subNumForms_E (ea eb q : Rat) :
    ∀ pr ∈ Generated.subNumForms q, noMul pr.1 = true ∧ ∃ e', execE [ea, eb] pr.1 = some e' ∧ e'[pr.2]? = some (ea - q) := by
  simp [Generated.subNumForms, execE, stepE, noMul] <;> ring_nf

theorem rsubNumForms_E (ea eb q : Rat) :
    ∀ pr ∈ Generated.rsubNumForms q, noMul pr.1 = true ∧ ∃ e', execE [ea, eb] pr.1 = some e' ∧ e'[pr.2]? = some (q - ea) := by
  simp [Generated.rsubNumForms, execE, stepE, noMul] <;> ring_nf

theorem scaleForms_E (ea eb q : Rat) :
    ∀ pr ∈ Generated.scaleForms q, noMul pr.1 = true ∧ ∃ e', execE [ea, eb] pr.1 = some e' ∧ e'[pr.2]? = some (q * ea) := by
  simp [Generated.scaleForms, execE, stepE, noMul]

theorem negForms_E (ea eb q : Rat) :
    ∀ pr ∈ Generated.negForms q, noMul pr.1 = true ∧ ∃ e', execE [ea, eb] pr.1 = some e' ∧ e'[pr.2]? = some (-ea) := by
  simp [Generated.negForms, execE, stepE, noMul]

theorem divForms_E (ea eb q : Rat) :
    ∀ pr ∈ Generated.divForms q, noMul pr.1 = true ∧ ∃ e', execE [ea, eb] pr.1 = some e' ∧ e'[pr.2]? = some (ea / q) := by
  simp [Generated.divForms, execE, stepE, noMul] <;> ring_nf

end Sym
