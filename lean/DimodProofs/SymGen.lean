import Generated.SymPrograms
import DimodProofs.SymCmp

/-! C06: the operator programs GENERATED from the source (`Generated/SymPrograms.lean`): which objects they write. -/

namespace Sym

/-- an instruction leaves every existing object that is not its write target as it was -/
theorem step_frame_ne (h h' : Store) (i : Instr) (j : Nat) (hj : j < h.length) (ht : i.target ≠ some j)
    (hs : step h i = .ok h') : h.length ≤ h'.length ∧ h'[j]? = h[j]? := by
  cases i with
  | copy s =>
    simp only [step] at hs
    split at hs
    · simp only [Except.ok.injEq] at hs; subst hs
      exact ⟨by simp, by rw [List.getElem?_append_left hj]⟩
    · simp at hs
  | newQM =>
    simp only [step, Except.ok.injEq] at hs; subst hs
    exact ⟨by simp, by rw [List.getElem?_append_left hj]⟩
  | fromBqm s =>
    simp only [step] at hs
    split at hs
    · simp only [Except.ok.injEq] at hs; subst hs
      exact ⟨by simp, by rw [List.getElem?_append_left hj]⟩
    · simp at hs
  | mulNew a b =>
    simp only [step] at hs
    split at hs
    · split at hs
      · simp only [Except.ok.injEq] at hs; subst hs
        exact ⟨by simp, by rw [List.getElem?_append_left hj]⟩
      · simp at hs
    · simp at hs
  | scale d q =>
    have hd : d ≠ j := fun e => ht (by simp [Instr.target, e])
    simp only [step] at hs
    split at hs
    · simp only [Except.ok.injEq] at hs; subst hs
      exact ⟨by simp [setAt], by simp only [setAt]; rw [List.getElem?_set_ne hd]⟩
    · simp at hs
  | addOffset d q =>
    have hd : d ≠ j := fun e => ht (by simp [Instr.target, e])
    simp only [step] at hs
    split at hs
    · simp only [Except.ok.injEq] at hs; subst hs
      exact ⟨by simp [setAt], by simp only [setAt]; rw [List.getElem?_set_ne hd]⟩
    · simp at hs
  | update d s =>
    have hd : d ≠ j := fun e => ht (by simp [Instr.target, e])
    simp only [step] at hs
    split at hs
    · split at hs
      · simp only [Except.ok.injEq] at hs; subst hs
        exact ⟨by simp [setAt], by simp only [setAt]; rw [List.getElem?_set_ne hd]⟩
      · simp at hs
    · simp at hs

/-- no instruction of the program has `j` as its write target -/
def NoWriteTo (j : Nat) (p : List Instr) : Bool := p.all fun i => decide (i.target ≠ some j)

/-- … then object `j` is the same at the end of the run, also when the run is cut short by an exception -/
theorem execT_frame_ne (p : List Instr) (h : Store) (j : Nat) (hj : j < h.length) (hw : NoWriteTo j p = true) :
    (execT h p).1[j]? = h[j]? := by
  induction p generalizing h with
  | nil => rfl
  | cons i is ih =>
    simp only [NoWriteTo, List.all_cons, Bool.and_eq_true, decide_eq_true_eq] at hw
    unfold execT
    cases hs : step h i with
    | error e => rfl
    | ok h1 =>
      obtain ⟨hl, hf⟩ := step_frame_ne h h1 i j hj hw.1 hs
      show (execT h1 is).1[j]? = h[j]?
      rw [ih h1 (by omega) (by simpa [NoWriteTo] using hw.2), hf]

/-- every generated non-in-place body, and every in-place form that falls back on the binary operator, writes only to
    objects it allocated -/
theorem generated_write_fresh (a b : Nat) (q : Rat) (n : Nat) :
    (Generated.nonInplace a b q n ++ Generated.inplaceFallback a b q n).all (WritesFresh n) = true := by
  simp [Generated.nonInplace, Generated.inplaceFallback, WritesFresh, Instr.target]

/-- every generated mutating in-place form writes to its left operand `a` only -/
theorem generated_inplace_targets (a b : Nat) (q : Rat) (n : Nat) :
    (Generated.inplaceMutating a b q n).all (fun p => p.all fun i => decide (i.target = some a)) = true := by
  simp [Generated.inplaceMutating, Instr.target]

theorem noWrite_of_targets (p : List Instr) (a j : Nat) (hja : j ≠ a)
    (h : (p.all fun i => decide (i.target = some a)) = true) : NoWriteTo j p = true := by
  simp only [NoWriteTo, List.all_eq_true, decide_eq_true_eq] at h ⊢
  intro i hi
  rw [h i hi]
  intro e
  exact hja (Option.some.inj e).symm

/-- the generated `BQM * BQM` of different vartypes (`from_bqm(self) * other` → `BQM.__rmul__`: `from_bqm(other) * qm`)
    computes `mMul` -/
theorem exec_gen_mulDiffer (h : Store) (a b : Nat) (q : Rat) (x y : Model) (ha : h[a]? = some x) (hb : h[b]? = some y)
    (hx : x.isQM = false) (hy : y.isQM = false) (hd : bqmDiffer x y = true)
    (hl : x.isLinear = true ∧ y.isLinear = true) :
    (exec h (Generated.bqm_mul_bqm_differ a b q h.length)).map (fun h' => h'[h.length + 2]?) = (mMul x y).map some := by
  have e1 : (h ++ [x.toQM])[b]? = some y := get_old h _ b y hb
  have e2 : (h ++ [x.toQM] ++ [y.toQM])[h.length]? = some x.toQM := by
    rw [List.append_assoc]; exact get_new0 h _ _
  have e3 : (h ++ [x.toQM] ++ [y.toQM])[h.length + 1]? = some y.toQM := by
    rw [List.append_assoc]; exact get_new1 h _ _ []
  simp only [Generated.bqm_mul_bqm_differ, exec, step, ha, e1, e2, e3]
  have hm : mMul x y = qmMul y.toQM x.toQM := by simp [mMul, hx, hy, hd, hl]
  have hu : mulObj y.toQM x.toQM = qmMul y.toQM x.toQM := by simp [mulObj, Model.toQM]
  rw [hm, hu]
  cases qmMul y.toQM x.toQM with
  | error e => rfl
  | ok m =>
    simp only [exec, Except.map]
    have : (h ++ [x.toQM] ++ [y.toQM] ++ [m])[h.length + 2]? = some m := by
      rw [List.getElem?_append_right (by simp)]; simp
    rw [this]

end Sym
