import DimodModel.Bqm

/-! List-level lemmas about the helpers of the BQM model: `modifyAt`, `eraseIdx`, `nbhAdd`, `nbhCoef`,
    `nbhDrop`, `nbhShift`.  Core Lean only. -/

namespace Bqm

/-! ### `modifyAt` -/

@[simp] theorem length_modifyAt {α} (l : List α) (i : Nat) (f : α → α) : (modifyAt l i f).length = l.length := by
  induction l generalizing i with
  | nil => simp [modifyAt]
  | cons a t ih => cases i <;> simp [modifyAt, ih]

theorem getD_modifyAt {α} (l : List α) (i j : Nat) (f : α → α) (d : α) :
    (modifyAt l i f).getD j d = if i = j ∧ j < l.length then f (l.getD j d) else l.getD j d := by
  induction l generalizing i j with
  | nil => simp [modifyAt]
  | cons a t ih =>
    cases i with
    | zero =>
      cases j with
      | zero => simp [modifyAt]
      | succ j => simp [modifyAt]
    | succ i =>
      cases j with
      | zero => simp [modifyAt]
      | succ j =>
        simp only [modifyAt, List.getD_cons_succ, List.length_cons]
        rw [ih]
        simp

theorem getD_modifyAt_self {α} (l : List α) (i : Nat) (f : α → α) (d : α) (h : i < l.length) :
    (modifyAt l i f).getD i d = f (l.getD i d) := by
  rw [getD_modifyAt]; simp [h]

theorem getD_modifyAt_ne {α} (l : List α) (i j : Nat) (f : α → α) (d : α) (h : i ≠ j) :
    (modifyAt l i f).getD j d = l.getD j d := by
  rw [getD_modifyAt]; simp [h]

theorem modifyAt_of_le {α} (l : List α) (i : Nat) (f : α → α) (h : l.length ≤ i) : modifyAt l i f = l := by
  induction l generalizing i with
  | nil => simp [modifyAt]
  | cons a t ih =>
    cases i with
    | zero => simp at h
    | succ i => simp [modifyAt]; exact ih i (by simpa using h)

theorem mem_modifyAt {α} (l : List α) (i : Nat) (f : α → α) (x : α) (hx : x ∈ modifyAt l i f) :
    x ∈ l ∨ ∃ y ∈ l, x = f y := by
  induction l generalizing i with
  | nil => simp [modifyAt] at hx
  | cons a t ih =>
    cases i with
    | zero =>
      simp only [modifyAt, List.mem_cons] at hx
      rcases hx with rfl | hx
      · right; exact ⟨a, by simp, rfl⟩
      · left; simp [hx]
    | succ i =>
      simp only [modifyAt, List.mem_cons] at hx
      rcases hx with rfl | hx
      · left; simp
      · rcases ih i hx with h | ⟨y, hy, rfl⟩
        · left; simp [h]
        · right; exact ⟨y, by simp [hy], rfl⟩

/-! ### `eraseIdx` (the model's own) -/

/-- position `j` of the list with position `i` erased is position `skip i j` of the original -/
def skip (i j : Nat) : Nat := if j < i then j else j + 1

theorem length_eraseIdx {α} (l : List α) (i : Nat) (h : i < l.length) : (eraseIdx l i).length = l.length - 1 := by
  induction l generalizing i with
  | nil => simp at h
  | cons a t ih =>
    cases i with
    | zero => simp [eraseIdx]
    | succ i =>
      have h' : i < t.length := by simpa using h
      simp only [eraseIdx, List.length_cons, ih i h']
      omega

theorem getD_eraseIdx {α} (l : List α) (i j : Nat) (d : α) :
    (eraseIdx l i).getD j d = l.getD (skip i j) d := by
  induction l generalizing i j with
  | nil => simp [eraseIdx]
  | cons a t ih =>
    cases i with
    | zero => simp [eraseIdx, skip]
    | succ i =>
      cases j with
      | zero => simp [eraseIdx, skip]
      | succ j =>
        simp only [eraseIdx, List.getD_cons_succ, ih]
        unfold skip
        by_cases h : j < i
        · have : j + 1 < i + 1 := by omega
          simp [h, this]
        · have : ¬ (j + 1 < i + 1) := by omega
          simp [h, this]

theorem mem_eraseIdx {α} (l : List α) (i : Nat) (x : α) (hx : x ∈ eraseIdx l i) : x ∈ l := by
  induction l generalizing i with
  | nil => simp [eraseIdx] at hx
  | cons a t ih =>
    cases i with
    | zero => simp only [eraseIdx] at hx; simp [hx]
    | succ i =>
      simp only [eraseIdx, List.mem_cons] at hx
      rcases hx with rfl | hx
      · simp
      · simp [ih i hx]

/-! ### neighbourhoods -/

/-- strictly increasing indices -/
def NbSorted (nb : List (Nat × Rat)) : Prop := nb.Pairwise (fun a b => a.1 < b.1)

theorem nbhCoef_none_of_lt (nb : List (Nat × Rat)) (v : Nat) (h : ∀ p ∈ nb, v < p.1) : nbhCoef nb v = none := by
  induction nb with
  | nil => rfl
  | cons p t ih =>
    obtain ⟨w, c⟩ := p
    have hw : v < w := h (w, c) (by simp)
    simp only [nbhCoef]
    rw [if_neg (by omega)]
    exact ih (fun p hp => h p (List.mem_cons_of_mem _ hp))

theorem nbhCoef_isSome_iff (nb : List (Nat × Rat)) (v : Nat) : (nbhCoef nb v).isSome ↔ ∃ p ∈ nb, p.1 = v := by
  induction nb with
  | nil => simp [nbhCoef]
  | cons p t ih =>
    obtain ⟨w, c⟩ := p
    simp only [nbhCoef]
    by_cases h : w = v
    · simp [h]
    · simp only [h, if_false, ih, List.mem_cons]
      constructor
      · rintro ⟨p, hp, rfl⟩; exact ⟨p, Or.inr hp, rfl⟩
      · rintro ⟨p, hp | hp, hv⟩
        · subst hp; exact absurd hv h
        · exact ⟨p, hp, hv⟩

theorem nbhCoef_eq_some_mem (nb : List (Nat × Rat)) (v : Nat) (c : Rat) (h : nbhCoef nb v = some c) : (v, c) ∈ nb := by
  induction nb with
  | nil => simp [nbhCoef] at h
  | cons p t ih =>
    obtain ⟨w, c'⟩ := p
    simp only [nbhCoef] at h
    by_cases hw : w = v
    · simp only [hw, if_true, Option.some.injEq] at h; subst h; subst hw; simp
    · simp only [hw, if_false] at h; exact List.mem_cons_of_mem _ (ih h)

theorem nbhCoef_of_mem_sorted (nb : List (Nat × Rat)) (hs : NbSorted nb) (v : Nat) (c : Rat) (h : (v, c) ∈ nb) :
    nbhCoef nb v = some c := by
  induction nb with
  | nil => simp at h
  | cons p t ih =>
    obtain ⟨w, c'⟩ := p
    have ht : NbSorted t := (List.pairwise_cons.mp hs).2
    have hw : ∀ q ∈ t, w < q.1 := (List.pairwise_cons.mp hs).1
    simp only [nbhCoef]
    rcases List.mem_cons.mp h with heq | hin
    · cases heq; simp
    · have := hw (v, c) hin
      have hne : ¬ w = v := by simp only [] at this; omega
      simp only [hne, if_false]; exact ih ht hin

/-- keys of a neighbourhood after `nbhAdd` -/
theorem fst_mem_nbhAdd (nb : List (Nat × Rat)) (v : Nat) (b : Rat) (set : Bool) (p : Nat × Rat)
    (hp : p ∈ nbhAdd nb v b set) : p.1 = v ∨ ∃ q ∈ nb, q.1 = p.1 := by
  induction nb with
  | nil => simp [nbhAdd] at hp; left; rw [hp]
  | cons q t ih =>
    obtain ⟨w, c⟩ := q
    simp only [nbhAdd] at hp
    split at hp
    · rcases List.mem_cons.mp hp with rfl | hp
      · right; exact ⟨(w, c), by simp, rfl⟩
      · rcases ih hp with h | ⟨q, hq, hq'⟩
        · left; exact h
        · right; exact ⟨q, List.mem_cons_of_mem _ hq, hq'⟩
    · split at hp
      · rcases List.mem_cons.mp hp with rfl | hp
        · right; exact ⟨(w, c), by simp, rfl⟩
        · right; exact ⟨p, List.mem_cons_of_mem _ hp, rfl⟩
      · rcases List.mem_cons.mp hp with rfl | hp
        · left; rfl
        · right; exact ⟨p, hp, rfl⟩

theorem sorted_nbhAdd (nb : List (Nat × Rat)) (v : Nat) (b : Rat) (set : Bool) (h : NbSorted nb) :
    NbSorted (nbhAdd nb v b set) := by
  induction nb with
  | nil => simp [nbhAdd, NbSorted]
  | cons q t ih =>
    obtain ⟨w, c⟩ := q
    have ht : NbSorted t := (List.pairwise_cons.mp h).2
    have hw : ∀ p ∈ t, w < p.1 := (List.pairwise_cons.mp h).1
    simp only [nbhAdd]
    split
    · rename_i hlt
      refine List.pairwise_cons.mpr ⟨?_, ih ht⟩
      intro p hp
      rcases fst_mem_nbhAdd t v b set p hp with h1 | ⟨q, hq, hq'⟩
      · simp only []; omega
      · have := hw q hq; simp only []; omega
    · split
      · exact List.pairwise_cons.mpr ⟨hw, ht⟩
      · rename_i h1 h2
        refine List.pairwise_cons.mpr ⟨?_, h⟩
        intro p hp
        rcases List.mem_cons.mp hp with rfl | hp
        · simp only []; omega
        · have := hw p hp; simp only []; omega

/-- the law of the sorted insertion: only the coefficient of `v` changes -/
theorem nbhCoef_nbhAdd (nb : List (Nat × Rat)) (v w : Nat) (b : Rat) (set : Bool) (h : NbSorted nb) :
    nbhCoef (nbhAdd nb v b set) w =
      if w = v then some (if set then b else (nbhCoef nb v).getD 0 + b) else nbhCoef nb w := by
  induction nb with
  | nil =>
    simp only [nbhAdd, nbhCoef]
    by_cases hwv : w = v
    · subst hwv; cases set <;> simp [Rat.zero_add]
    · have : ¬ v = w := fun h => hwv h.symm
      simp [hwv, this]
  | cons q t ih =>
    obtain ⟨x, c⟩ := q
    have ht : NbSorted t := (List.pairwise_cons.mp h).2
    have hx : ∀ p ∈ t, x < p.1 := (List.pairwise_cons.mp h).1
    simp only [nbhAdd]
    split
    · rename_i hlt
      simp only [nbhCoef]
      by_cases hxw : x = w
      · subst hxw
        have h1 : ¬ x = v := by omega
        simp [h1]
      · simp only [hxw, if_false]
        rw [ih ht]
        have h1 : ¬ x = v := by omega
        simp [h1]
    · split
      · rename_i h1 h2
        subst h2
        simp only [nbhCoef]
        by_cases hxw : x = w
        · subst hxw; cases set <;> simp
        · have : ¬ w = x := fun h => hxw h.symm
          simp [hxw, this]
      · rename_i h1 h2
        simp only [nbhCoef]
        have hz : nbhCoef t v = none := nbhCoef_none_of_lt t v (fun p hp => by have := hx p hp; omega)
        by_cases hvw : v = w
        · subst hvw
          have : ¬ x = v := fun h => h2 h
          cases set <;> simp [this, hz, Rat.zero_add]
        · have : ¬ w = v := fun h => hvw h.symm
          simp [hvw, this]

/-! `nbhDrop` -/

theorem sorted_nbhDrop (nb : List (Nat × Rat)) (w : Nat) (h : NbSorted nb) : NbSorted (nbhDrop nb w) :=
  List.Pairwise.filter _ h

theorem nbhCoef_nbhDrop (nb : List (Nat × Rat)) (w y : Nat) :
    nbhCoef (nbhDrop nb w) y = if y = w then none else nbhCoef nb y := by
  induction nb with
  | nil => simp [nbhDrop, nbhCoef]
  | cons p t ih =>
    obtain ⟨x, c⟩ := p
    unfold nbhDrop at ih ⊢
    by_cases hx : x = w
    · subst hx
      simp only [List.filter, ne_eq, not_true_eq_false, decide_false]
      rw [ih]
      by_cases hy : y = x
      · simp [hy]
      · have : ¬ x = y := fun h => hy h.symm
        simp [hy, nbhCoef, this]
    · have hd : decide (x ≠ w) = true := by simp [hx]
      simp only [List.filter, hd, nbhCoef]
      by_cases hxy : x = y
      · subst hxy; simp [hx]
      · simp only [hxy, if_false]; exact ih

theorem mem_nbhDrop (nb : List (Nat × Rat)) (w : Nat) (p : Nat × Rat) (h : p ∈ nbhDrop nb w) : p ∈ nb ∧ p.1 ≠ w := by
  unfold nbhDrop at h
  have := List.mem_filter.mp h
  exact ⟨this.1, by simpa using this.2⟩

/-! `nbhShift` -/

/-- inverse of `skip` on indices other than `vi` -/
def unskip (vi k : Nat) : Nat := if k > vi then k - 1 else k

theorem skip_unskip (vi k : Nat) (h : k ≠ vi) : skip vi (unskip vi k) = k := by
  unfold skip unskip
  by_cases h1 : k > vi
  · have : ¬ (k - 1 < vi) := by omega
    simp [h1, this]; omega
  · have : k < vi := by omega
    simp [h1, this]

theorem unskip_skip (vi j : Nat) : unskip vi (skip vi j) = j := by
  unfold skip unskip
  by_cases h : j < vi
  · have : ¬ (j > vi) := by omega
    simp [h, this]
  · have : j + 1 > vi := by omega
    simp [h, this]

theorem skip_ne (vi j : Nat) : skip vi j ≠ vi := by
  unfold skip; by_cases h : j < vi <;> simp [h] <;> omega

theorem shiftEntry_fst (vi : Nat) (p : Nat × Rat) : (shiftEntry vi p).1 = unskip vi p.1 := rfl
theorem shiftEntry_snd (vi : Nat) (p : Nat × Rat) : (shiftEntry vi p).2 = p.2 := rfl

theorem nbhCoef_nbhShift (vi : Nat) (nb : List (Nat × Rat)) (y : Nat) :
    nbhCoef (nbhShift vi nb) y = nbhCoef nb (skip vi y) := by
  induction nb with
  | nil => simp [nbhShift, nbhCoef]
  | cons p t ih =>
    obtain ⟨x, c⟩ := p
    unfold nbhShift at ih ⊢
    by_cases hx : x = vi
    · subst hx
      have hne : ¬ x = skip x y := fun h => skip_ne x y h.symm
      simp only [List.filter, ne_eq, not_true_eq_false, decide_false, nbhCoef, hne, if_false]
      exact ih
    · have hd : decide (x ≠ vi) = true := by simp [hx]
      simp only [List.filter, hd, List.map_cons, nbhCoef]
      by_cases hxy : x = skip vi y
      · have : (shiftEntry vi (x, c)).1 = y := by
          show unskip vi x = y
          rw [hxy]; exact unskip_skip vi y
        rw [if_pos this, if_pos hxy]; rfl
      · have : ¬ (shiftEntry vi (x, c)).1 = y := by
          intro hk
          apply hxy
          have hk' : unskip vi x = y := hk
          rw [← hk', skip_unskip vi x hx]
        rw [if_neg this, if_neg hxy]
        exact ih

theorem sorted_nbhShift (vi : Nat) (nb : List (Nat × Rat)) (h : NbSorted nb) : NbSorted (nbhShift vi nb) := by
  unfold nbhShift NbSorted
  have hf : (nb.filter (fun p => p.1 ≠ vi)).Pairwise (fun a b => a.1 < b.1) := List.Pairwise.filter _ h
  have hne : ∀ p ∈ nb.filter (fun p => p.1 ≠ vi), p.1 ≠ vi := by
    intro p hp; have := (List.mem_filter.mp hp).2; simpa using this
  generalize nb.filter (fun p => p.1 ≠ vi) = l at hf hne
  induction l with
  | nil => simp
  | cons p t ih =>
    have hp := List.pairwise_cons.mp hf
    simp only [List.map_cons]
    refine List.pairwise_cons.mpr ⟨?_, ih hp.2 (fun q hq => hne q (List.mem_cons_of_mem _ hq))⟩
    intro q hq
    obtain ⟨q0, hq0, rfl⟩ := List.mem_map.mp hq
    have h1 := hp.1 q0 hq0
    have h2 := hne p (by simp)
    have h3 := hne q0 (List.mem_cons_of_mem _ hq0)
    simp only [shiftEntry_fst]
    unfold unskip
    by_cases ha : p.1 > vi <;> by_cases hb : q0.1 > vi <;> simp [ha, hb] <;> omega

theorem mem_nbhShift (vi : Nat) (nb : List (Nat × Rat)) (q : Nat × Rat) (h : q ∈ nbhShift vi nb) :
    ∃ p ∈ nb, p.1 ≠ vi ∧ q.1 = unskip vi p.1 ∧ q.2 = p.2 := by
  unfold nbhShift at h
  obtain ⟨p, hp, rfl⟩ := List.mem_map.mp h
  have := List.mem_filter.mp hp
  exact ⟨p, this.1, by simpa using this.2, rfl, rfl⟩

end Bqm
