import DimodProofs.Aggregate

/-! The concrete `np.argsort(kind='stable')` / `np.unique(axis=0)` of the model: stability and lexicographic order
    (what the contracts `IsSortingPerm` / `UniqueSpec` leave open). -/

namespace SSM
open List

theorem idxOf_le_of_getElem? [BEq α] [LawfulBEq α] (l : List α) (a : α) (j : Nat) (h : l[j]? = some a) : l.idxOf a ≤ j := by
  induction l generalizing j with
  | nil => simp at h
  | cons b t ih =>
    rw [List.idxOf_cons]
    cases j with
    | zero => simp at h; subst h; simp
    | succ j =>
      by_cases hb : (b == a) = true
      · simp [hb]
      · simp [hb]; exact ih j (by simpa using h)

theorem pair_sublist_getElem (l : List β) (i j : Nat) (hij : i < j) (hj : j < l.length) :
    [l[i]'(Nat.lt_trans hij hj), l[j]] <+ l := by
  have hi : i < l.length := Nat.lt_trans hij hj
  have h1 : l = l.take i ++ l[i] :: l.drop (i + 1) := by
    rw [← List.drop_eq_getElem_cons hi, List.take_append_drop]
  have hmem : l[j] ∈ l.drop (i + 1) := by
    rw [List.mem_iff_getElem]
    refine ⟨j - (i + 1), by simp; omega, ?_⟩
    rw [List.getElem_drop]
    congr 1; omega
  have h2 : [l[i], l[j]] <+ l[i] :: l.drop (i + 1) :=
    List.Sublist.cons_cons _ (List.singleton_sublist.mpr hmem)
  have h3 := List.sublist_append_of_sublist_right (l₁ := l.take i) h2
  rw [← h1] at h3
  exact h3

/-- **`np.argsort(kind='stable')` as modelled is stable**: of two positions whose keys are in order, the earlier one
    comes first in the result (in particular equal keys keep their original order) -/
theorem argsortBy_stable (le : α → α → Bool)
    (trans : ∀ a b c, le a b = true → le b c = true → le a c = true)
    (total : ∀ a b, (le a b || le b a) = true) (keys : List α) (i j : Nat) (hij : i < j) (hj : j < keys.length)
    (hle : le (keys[i]'(Nat.lt_trans hij hj)) keys[j] = true) : [i, j] <+ argsortBy le keys := by
  have hi : i < keys.length := Nat.lt_trans hij hj
  have hlen : keys.zipIdx.length = keys.length := by simp
  have hp := pair_sublist_getElem keys.zipIdx i j hij (by rw [hlen]; exact hj)
  simp only [List.getElem_zipIdx, Nat.zero_add] at hp
  have hs := List.sublist_mergeSort (le := fun (a b : α × Nat) => le a.1 b.1)
    (fun a b c => trans a.1 b.1 c.1) (fun a b => total a.1 b.1)
    (ys := [(keys[i], i), (keys[j], j)]) (by simp [hle]) hp
  have := hs.map (·.2)
  simpa [argsortBy] using this

theorem argsort_stable (keys : List Rat) (i j : Nat) (hij : i < j) (hj : j < keys.length)
    (hle : keys[i]'(Nat.lt_trans hij hj) ≤ keys[j]) : [i, j] <+ argsort keys :=
  argsortBy_stable _ (fun a b c => by simp only [decide_eq_true_eq]; exact Rat.le_trans)
    (fun a b => by simp only [Bool.or_eq_true, decide_eq_true_eq]; exact Rat.le_total) keys i j hij hj (by simpa using hle)

/-! ### lexicographic order of rows -/

theorem lexLe_total (a b : List Rat) : (lexLe a b || lexLe b a) = true := by
  induction a generalizing b with
  | nil => simp [lexLe]
  | cons x xs ih =>
    cases b with
    | nil => simp [lexLe]
    | cons y ys =>
      simp only [lexLe]
      by_cases h1 : x < y
      · simp [h1]
      · by_cases h2 : y < x
        · simp [h1, h2]
        · simp only [h1, h2, if_false]; exact ih ys

theorem lexLe_trans (a b c : List Rat) (h1 : lexLe a b = true) (h2 : lexLe b c = true) : lexLe a c = true := by
  induction a generalizing b c with
  | nil => simp [lexLe]
  | cons x xs ih =>
    cases b with
    | nil => simp [lexLe] at h1
    | cons y ys =>
      cases c with
      | nil => simp [lexLe] at h2
      | cons z zs =>
        simp only [lexLe] at h1 h2 ⊢
        by_cases hxy : x < y
        · by_cases hyz : y < z
          · simp [Std.lt_trans hxy hyz]
          · by_cases hzy : z < y
            · simp [hyz, hzy] at h2
            · have : y = z := Rat.le_antisymm (Rat.not_lt.mp hzy) (Rat.not_lt.mp hyz)
              subst this; simp [hxy]
        · by_cases hyx : y < x
          · simp [hxy, hyx] at h1
          · have hxy' : x = y := Rat.le_antisymm (Rat.not_lt.mp hyx) (Rat.not_lt.mp hxy)
            subst hxy'
            simp only [hxy, hyx, if_false] at h1
            by_cases hyz : x < z
            · simp [hyz]
            · by_cases hzy : z < x
              · simp [hyz, hzy] at h2
              · simp only [hyz, hzy, if_false] at h2 ⊢
                exact ih ys zs h1 h2

/-- **the concrete `np.unique(axis=0, return_index, return_inverse)`**: the distinct rows in lexicographic order, the
    position of the FIRST occurrence of each, the position of every input row among the distinct ones -/
theorem npUnique_concrete (xs : List (List Rat)) :
    (npUnique xs).u.Pairwise (fun a b => lexLe a b = true) ∧ UniqueSpec xs (npUnique xs) ∧
    (∀ (k i : Nat), (npUnique xs).indices[k]? = some i → xs[i]? = (npUnique xs).u[k]? ∧ ∀ j < i, xs[j]? ≠ (npUnique xs).u[k]?) := by
  refine ⟨List.pairwise_mergeSort lexLe_trans lexLe_total _, npUnique_spec xs, ?_⟩
  intro k i hk
  have hsp := npUnique_spec xs
  rw [hsp.indices, List.getElem?_map] at hk
  cases hu : (npUnique xs).u[k]? with
  | none => simp [hu] at hk
  | some x =>
    simp only [hu, Option.map_some, Option.some.injEq] at hk
    subst hk
    have hx : x ∈ xs := (hsp.mem x).mp (List.mem_of_getElem? hu)
    have hlt : xs.idxOf x < xs.length := List.idxOf_lt_length_iff.mpr hx
    refine ⟨by rw [List.getElem?_eq_getElem hlt, List.getElem_idxOf hlt], ?_⟩
    intro j hj hcontra
    have hjl : j < xs.length := Nat.lt_trans hj hlt
    rw [List.getElem?_eq_getElem hjl, Option.some.injEq] at hcontra
    have := idxOf_le_of_getElem? (l := xs) (a := x) (j := j) (by rw [List.getElem?_eq_getElem hjl, hcontra])
    omega

end SSM
