import DimodProofs.Columns
import DimodProofs.LSpecNodup
import DimodModel.SamplesObject

/-! r8f (C14): label-addressed reads on one sample-set object along a history. -/

namespace SSM

theorem ssobj_relabel_wf (s s' : SS) (hwf : s.WF) (m : List (Label × Label)) (h : s.relabel m = some s') : s'.WF := by
  unfold SS.relabel at h
  split at h
  · rename_i hok
    simp only [Option.some.injEq] at h; subst h
    refine ⟨?_, ?_⟩
    · have := LS.lspec_relabel_nodup s.labels m hwf.1
      simpa [LSpec.step, hok] using this
    · intro r hr
      simp only [LSpec.subst, List.length_map]
      exact hwf.2 r hr
  · cases h

theorem ssobj_shiftEnergy_wf (s : SS) (hwf : s.WF) (off : Rat) : (s.shiftEnergy off).WF := by
  refine ⟨hwf.1, ?_⟩
  intro r hr
  simp only [SS.shiftEnergy, List.mem_map] at hr
  obtain ⟨r0, hr0, rfl⟩ := hr
  exact hwf.2 r0 hr0

theorem ssobj_mapSamples_wf (s : SS) (hwf : s.WF) (f : Rat → Rat) : (s.mapSamples f).WF := by
  refine ⟨hwf.1, ?_⟩
  intro r hr
  simp only [SS.mapSamples, List.mem_map] at hr
  obtain ⟨r0, hr0, rfl⟩ := hr
  show (r0.sample.map f).length = s.labels.length
  rw [List.length_map]; exact hwf.2 r0 hr0

theorem ssobj_changeVartype_wf (s : SS) (hwf : s.WF) (vt : VT) (off : Rat) : (s.changeVartype vt off).1.WF := by
  have hsh : (if off ≠ 0 then s.shiftEnergy off else s).WF := by
    split
    · exact ssobj_shiftEnergy_wf s hwf off
    · exact hwf
  unfold SS.changeVartype
  split
  · exact hsh
  · split
    · exact ssobj_mapSamples_wf _ hsh _
    · split
      · exact ssobj_mapSamples_wf _ hsh _
      · exact hsh

theorem ssobj_next_wf (o : ObjOp) (s : SS) (hwf : s.WF) : (o.next s).WF := by
  cases o with
  | relabelIp m =>
    show ((s.relabel m).getD s).WF
    cases h : s.relabel m with
    | none => exact hwf
    | some s' => exact ssobj_relabel_wf s s' hwf m h
  | changeVtIp vt off => exact ssobj_changeVartype_wf s hwf vt off
  | keep _ _ => exact hwf
  | drop _ => exact hwf
  | getMulti _ _ => exact hwf

theorem runObj_wf (ops : List ObjOp) (s : SS) (hwf : s.WF) : (runObj ops s).WF := by
  induction ops generalizing s with
  | nil => exact hwf
  | cons o ops ih => exact ih (o.next s) (ssobj_next_wf o s hwf)

/-- lookups are invisible: the object after any history is the object after its in-place calls alone -/
theorem runObj_filter (ops : List ObjOp) (s : SS) : runObj ops s = runObj (ops.filter (·.mutates)) s := by
  induction ops generalizing s with
  | nil => rfl
  | cons o ops ih =>
    cases o with
    | relabelIp m => simp only [List.filter_cons, ObjOp.mutates, if_true]; exact ih _
    | changeVtIp vt off => simp only [List.filter_cons, ObjOp.mutates, if_true]; exact ih _
    | keep v b => simp only [List.filter_cons, ObjOp.mutates]; exact ih _
    | drop v => simp only [List.filter_cons, ObjOp.mutates]; exact ih _
    | getMulti a b => simp only [List.filter_cons, ObjOp.mutates]; exact ih _

/-- gathering the positions of labels that are present yields exactly the cells under these labels -/
theorem ssobj_gather_cells (labels : List Label) (sample : List Rat) (cols : List Label)
    (hlen : sample.length = labels.length) (hin : ∀ v ∈ cols, v ∈ labels) :
    (gather sample (cols.map (labels.idxOf ·))).map some = cols.map (cell labels sample) := by
  induction cols with
  | nil => rfl
  | cons v cols ih =>
    have hv : labels.idxOf v < sample.length := by rw [hlen]; exact List.idxOf_lt_length_iff.mpr (hin v (by simp))
    simp only [List.map_cons, gather_cons, List.getElem?_eq_getElem hv, cell]
    rw [ih (fun w hw => hin w (by simp [hw]))]

theorem getMulti_spec (s : SS) (hwf : s.WF) (rowIdx : List Nat) (cols : List Label) (out : List (List Rat))
    (h : s.getMulti rowIdx cols = some out) :
    (∀ v ∈ cols, v ∈ s.labels) ∧
    out.map (·.map some) = (gather s.rows rowIdx).map fun r => cols.map (cell s.labels r.sample) := by
  unfold SS.getMulti at h
  split at h
  · rename_i hall
    simp only [List.all_eq_true, decide_eq_true_eq] at hall
    simp only [Option.some.injEq] at h; subst h
    refine ⟨hall, ?_⟩
    rw [List.map_map]
    apply List.map_congr_left
    intro r hr
    have hr' : r ∈ s.rows := by
      unfold gather at hr
      obtain ⟨i, _, hi⟩ := List.mem_filterMap.mp hr
      exact List.mem_of_getElem? hi
    exact ssobj_gather_cells s.labels r.sample cols (hwf.2 r hr') hall
  · cases h

theorem getMulti_none_iff (s : SS) (rowIdx : List Nat) (cols : List Label) :
    s.getMulti rowIdx cols = none ↔ ∃ v ∈ cols, v ∉ s.labels := by
  unfold SS.getMulti
  by_cases hex : ∃ v ∈ cols, v ∉ s.labels
  · obtain ⟨v, hv, hn⟩ := hex
    have : ¬ (cols.all (fun x => decide (x ∈ s.labels)) = true) := by
      intro hall
      simp only [List.all_eq_true, decide_eq_true_eq] at hall
      exact hn (hall v hv)
    rw [if_neg this]
    exact ⟨fun _ => ⟨v, hv, hn⟩, fun _ => rfl⟩
  · have : cols.all (fun x => decide (x ∈ s.labels)) = true := by
      simp only [List.all_eq_true, decide_eq_true_eq]
      intro v hv
      exact Classical.byContradiction fun hn => hex ⟨v, hv, hn⟩
    rw [if_pos this]
    exact ⟨fun h => (nomatch h), fun h => absurd h hex⟩

end SSM
