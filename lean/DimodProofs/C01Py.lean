import DimodProofs.C01Loops

/-! # C01 — `pyBQM.energies`: `samples.dot(ldata) + (samples[:, irow] * samples[:, icol]).dot(qdata) + offset` -/

open Finset

namespace En
namespace PyBqm

variable {R : Type} [CommRing R]

theorem ldataAt_cons (l : R) (ls : List R) (p : Nat) (ps : List Nat) (j : Nat) :
    ldataAt (l :: ls) (p :: ps) j = if p = j then l else ldataAt ls ps j := by
  unfold ldataAt
  rw [List.idxOf?_cons]
  by_cases h : p = j
  · simp [h]
  · have : (p == j) = false := by simpa using h
    simp only [this, Bool.false_eq_true, if_false, h]
    cases ps.idxOf? j <;> simp

theorem ldataAt_not_mem (lins : List R) (b2s : List Nat) (j : Nat) (h : j ∉ b2s) : ldataAt lins b2s j = 0 := by
  unfold ldataAt
  rw [List.idxOf?_eq_none_iff.mpr h]

theorem foldl_add_eq_sum (l : List R) (a : R) : l.foldl (· + ·) a = a + l.sum := by
  induction l generalizing a with
  | nil => simp
  | cons x t ih => simp only [List.foldl_cons, List.sum_cons]; rw [ih]; ring

/-- the first dot product: Σ_j row[j] · ldata[j] over the sample columns -/
theorem dot_zip (row : List R) (f : Nat → R) (width : Nat) (h : row.length = width) :
    ((row.zip ((List.range width).map f)).map fun p => p.1 * p.2).sum = ∑ j ∈ range width, row.getD j 0 * f j := by
  subst h
  induction row using List.reverseRecOn with
  | nil => simp
  | append_singleton t x ih =>
    simp only [List.length_append, List.length_singleton, List.range_succ, List.map_append, List.map_cons, List.map_nil]
    rw [List.zip_append (by simp), List.map_append, List.sum_append, ih, sum_range_succ]
    simp only [List.zip_cons_cons, List.zip_nil_right, List.map_cons, List.map_nil, List.sum_cons, List.sum_nil, add_zero]
    congr 1
    · apply sum_congr rfl
      intro j hj
      have := mem_range.mp hj
      rw [List.getD_eq_getElem?_getD, List.getD_eq_getElem?_getD, List.getElem?_append_left this]
    · rw [List.getD_eq_getElem?_getD, List.getElem?_append_right (le_refl _)]; simp

/-- Σ over sample columns of `row · ldata` = Σ over model variables of `linear · value` -/
theorem ldata_sum (row : List R) (width : Nat) (lins : List R) (b2s : List Nat) (hlen : b2s.length = lins.length)
    (hnd : b2s.Nodup) (hb : ∀ j ∈ b2s, j < width) :
    ∑ j ∈ range width, row.getD j 0 * ldataAt lins b2s j = linSum (fun u => row.getD (b2s.getD u 0) 0) 0 lins := by
  induction lins generalizing b2s with
  | nil =>
    have : b2s = [] := List.length_eq_zero_iff.mp hlen
    subst this
    simp [ldataAt, linSum]
  | cons l ls ih =>
    cases b2s with
    | nil => simp at hlen
    | cons p ps =>
      have hnd' := (List.nodup_cons.mp hnd).2
      have hp := (List.nodup_cons.mp hnd).1
      have hpw : p < width := hb p (by simp)
      simp only [linSum, List.getD_cons_zero]
      rw [linSum_shift]
      simp only [List.getD_cons_succ]
      rw [← ih ps (by simpa using hlen) hnd' (fun j hj => hb j (List.mem_cons_of_mem _ hj))]
      have : ∀ j ∈ range width, row.getD j 0 * ldataAt (l :: ls) (p :: ps) j
          = row.getD j 0 * ldataAt ls ps j + (if j = p then l * row.getD p 0 else 0) := by
        intro j _
        rw [ldataAt_cons]
        by_cases hj : p = j
        · subst hj; simp [ldataAt_not_mem ls ps p hp]; ring
        · have : ¬ j = p := fun e => hj e.symm
          simp [hj, this]
      rw [sum_congr rfl this, sum_add_distrib, sum_ite_eq' (range width) p]
      simp [hpw]; ring

/-- **`energy_py_eq_eval`**: one row of `pyBQM.energies` is the polynomial of the dict model's reported coefficients
    (`_adj[v][v]`, `iter_quadratic()`, `offset`) at `x u = row[column of variable u]`; sample columns that carry no
    model variable do not contribute -/
theorem energyRow_eq (m : PyBqm R) (b2s : List Nat) (width : Nat) (row : List R)
    (hrow : row.length = width) (hlen : b2s.length = m.rows.length) (hnd : b2s.Nodup) (hb : ∀ j ∈ b2s, j < width) :
    m.energyRow b2s width row = m.reportedEval (pick row b2s) := by
  unfold energyRow reportedEval polyEval
  simp only [foldl_add_eq_sum, zero_add]
  have h1 : ((row.zip ((List.range width).map (ldataAt (m.rows.map (·.1)) b2s))).map fun p => p.1 * p.2).sum
      = linSum (pick row b2s) 0 (m.rows.map (·.1)) := by
    rw [dot_zip row (ldataAt (m.rows.map (·.1)) b2s) width hrow,
        ldata_sum row width (m.rows.map (·.1)) b2s (by simpa using hlen) hnd hb]
    rfl
  have h2 : (m.iterQuadratic.map fun t => pick row b2s t.1 * pick row b2s t.2.1 * t.2.2).sum
      = quadSum (pick row b2s) m.iterQuadratic := by
    induction m.iterQuadratic with
    | nil => simp [quadSum]
    | cons t rest ih => obtain ⟨u, v, b⟩ := t; simp only [List.map_cons, List.sum_cons, quadSum]; rw [ih]; ring
  rw [h1, h2]; ring

end PyBqm
end En

namespace En

variable {R : Type} [CommRing R]

theorem getD_eq_getElem {α : Type} (l : List α) (i : Nat) (d : α) (h : i < l.length) : l.getD i d = l[i] := by
  rw [List.getD_eq_getElem?_getD, List.getElem?_eq_getElem h]; rfl

/-- distinct model labels are found in distinct sample columns, all inside the sample -/
theorem qmToSample_nodup (ml sl : List Label) (q : List Nat) (h : qmToSample ml sl = .ok q) (hml : ml.Nodup) :
    q.Nodup ∧ ∀ j ∈ q, j < sl.length := by
  obtain ⟨hlen, hidx⟩ := qmToSample_ok ml sl q h
  constructor
  · rw [List.nodup_iff_injective_get]
    intro a b hab
    have ha : a.1 < ml.length := by rw [← hlen]; exact a.2
    have hb : b.1 < ml.length := by rw [← hlen]; exact b.2
    have h1 := hidx a.1 ha
    have h2 := hidx b.1 hb
    rw [getD_eq_getElem q a.1 0 a.2] at h1
    rw [getD_eq_getElem q b.1 0 b.2] at h2
    have hab' : q[a.1] = q[b.1] := by simpa [List.get_eq_getElem] using hab
    rw [hab'] at h1
    have e1 := (indexOf?_spec sl _ _ h1).1
    have e2 := (indexOf?_spec sl _ _ h2).1
    rw [e1] at e2
    have : ml.getD a.1 (.int 0) = ml.getD b.1 (.int 0) := by injection e2
    rw [getD_eq_getElem ml a.1 _ ha, getD_eq_getElem ml b.1 _ hb] at this
    exact Fin.ext ((List.Nodup.getElem_inj_iff hml).mp this)
  · intro j hj
    obtain ⟨i, hi, rfl⟩ := List.getElem_of_mem hj
    have hi' : i < ml.length := by rw [← hlen]; exact hi
    have := hidx i hi'
    rw [getD_eq_getElem q i 0 hi] at this
    have e := (indexOf?_spec sl _ _ this).1
    rcases Nat.lt_or_ge q[i] sl.length with h' | h'
    · exact h'
    · rw [List.getElem?_eq_none h'] at e; cases e

/-- **`pyBQM.energies` at label level** (object-dtype BQM): with every model variable among the sample labels, each row
    gets the reported polynomial at the values found under the model's labels -/
theorem PyBqm.energies_eq (m : PyBqm R) (ml sl : List Label) (samples : List (List R))
    (hrows : ∀ r ∈ samples, r.length = sl.length) (hml : ml.length = m.rows.length) (hnd : ml.Nodup)
    (q : List Nat) (hq : qmToSample ml sl = .ok q) :
    m.energies ml samples sl = .ok (samples.map fun row => m.reportedEval (pick row q)) := by
  unfold PyBqm.energies
  rw [hq]
  simp only [bind, Except.bind, pure, Except.pure]
  congr 1
  apply List.map_congr_left
  intro row hr
  obtain ⟨h1, h2⟩ := qmToSample_nodup ml sl q hq hnd
  exact PyBqm.energyRow_eq m q sl.length row (hrows row hr) (by rw [(qmToSample_ok ml sl q hq).1, hml]) h1 h2

theorem PyBqm.energies_missing (m : PyBqm R) (ml sl : List Label) (samples : List (List R)) (h : ∃ v ∈ ml, v ∉ sl) :
    m.energies ml samples sl = .error .value := by
  unfold PyBqm.energies
  rw [qmToSample_missing ml sl h]
  rfl

end En
