import DimodProofs.EnumEnergy
import Mathlib.Data.List.Perm.Basic
import Mathlib.Data.List.Nodup
import Mathlib.Data.List.Perm.Lattice

/-! C07: `fix_variables` (PolyFixedVariableComposite) and `polymorph_response` (HigherOrderComposite). -/

namespace Enum

/-- the assignment extended by the fixed values (a `dict`: first entry of a label wins) -/
def override (x : Label → Rat) (fixed : List (Label × Rat)) : Label → Rat :=
  fun l => match fixed.find? (fun p => p.1 = l) with
    | some p => p.2
    | none => x l

theorem override_cons (x : Label → Rat) (var : Label) (value : Rat) (rest : List (Label × Rat)) (l : Label) :
    override x ((var, value) :: rest) l = if var = l then value else override x rest l := by
  unfold override
  by_cases h : var = l <;> simp [List.find?, h]

theorem termProd_congr (x y : Label → Rat) (k : List Label) (h : ∀ l ∈ k, x l = y l) : termProd x k = termProd y k := by
  induction k with
  | nil => rfl
  | cons a t ih =>
    simp only [termProd]
    rw [h a (List.mem_cons_self), ih (fun l hl => h l (List.mem_cons_of_mem _ hl))]

theorem termProd_perm (x : Label → Rat) (a b : List Label) (h : a.Perm b) : termProd x a = termProd x b := by
  induction h with
  | nil => rfl
  | cons _ _ ih => simp only [termProd, ih]
  | swap _ _ _ => simp only [termProd]; ring
  | trans _ _ ih1 ih2 => rw [ih1, ih2]

theorem termProd_split (z : Label → Rat) (k : List Label) (var : Label) (hk : k.Nodup) (hv : var ∈ k) :
    termProd z k = z var * termProd z (k.filter (· ≠ var)) := by
  induction k with
  | nil => simp at hv
  | cons a t ih =>
    rw [List.nodup_cons] at hk
    by_cases ha : a = var
    · subst ha
      have : (a :: t).filter (· ≠ a) = t := by
        simp only [List.filter_cons, ne_eq, not_true_eq_false, decide_false, Bool.false_eq_true, if_false]
        apply List.filter_eq_self.mpr
        intro b hb
        simp only [ne_eq, decide_not, Bool.not_eq_eq_eq_not, Bool.not_true, decide_eq_false_iff_not]
        rintro rfl; exact hk.1 hb
      rw [this]; rfl
    · have hvt : var ∈ t := by
        rcases List.mem_cons.mp hv with h | h
        · exact absurd h.symm ha
        · exact h
      have : (a :: t).filter (· ≠ var) = a :: t.filter (· ≠ var) := by
        simp [List.filter_cons, ha]
      rw [this]
      simp only [termProd]
      rw [ih hk.2 hvt]; ring

/-- the inner loop of `fix_variables` on one term -/
theorem fixTerm_energy (fixed : List (Label × Rat)) (y : Label → Rat) (k : List Label) (v : Rat) (hk : k.Nodup) :
    (fixTerm fixed k v).2 * termProd y (fixTerm fixed k v).1 = v * termProd (override y fixed) k := by
  induction fixed generalizing k v with
  | nil =>
    simp only [fixTerm]
    congr 1
  | cons a rest ih =>
    obtain ⟨var, value⟩ := a
    simp only [fixTerm]
    by_cases hc : k.contains var = true
    · simp only [hc, if_true]
      have hv : var ∈ k := by simpa using hc
      rw [ih _ _ (hk.filter _)]
      rw [termProd_split (override y ((var, value) :: rest)) k var hk hv]
      have h1 : override y ((var, value) :: rest) var = value := by rw [override_cons]; simp
      rw [h1]
      have h2 : termProd (override y ((var, value) :: rest)) (k.filter (· ≠ var)) = termProd (override y rest) (k.filter (· ≠ var)) := by
        apply termProd_congr
        intro l hl
        rw [override_cons]
        have : l ≠ var := by simpa using (List.mem_filter.mp hl).2
        rw [if_neg (fun h => this h.symm)]
      rw [h2]; ring
    · simp only [hc, Bool.false_eq_true, if_false]
      rw [ih _ _ hk]
      congr 1
      apply termProd_congr
      intro l hl
      rw [override_cons]
      have : var ≠ l := by
        rintro rfl
        exact hc (by simpa using hl)
      rw [if_neg this]

theorem fixTerm_nodup (fixed : List (Label × Rat)) (k : List Label) (v : Rat) (hk : k.Nodup) : (fixTerm fixed k v).1.Nodup := by
  induction fixed generalizing k v with
  | nil => exact hk
  | cons a rest ih =>
    obtain ⟨var, value⟩ := a
    simp only [fixTerm]
    split
    · exact ih _ _ (hk.filter _)
    · exact ih _ _ hk

theorem sameSet_perm (a b : List Label) (ha : a.Nodup) (hb : b.Nodup) (h : sameSet a b = true) : a.Perm b := by
  rw [List.perm_ext_iff_of_nodup ha hb]
  simp only [sameSet, Bool.and_eq_true, List.all_eq_true, List.contains_iff_mem] at h
  intro l
  exact ⟨fun hl => h.1 l hl, fun hl => h.2 l hl⟩

/-- `poly_copy[k] += v` adds `v·∏k` to the energy -/
theorem polyAdd_energy (x : Label → Rat) (p : Poly) (k : List Label) (v : Rat)
    (hp : ∀ t ∈ p, t.1.Nodup) (hk : k.Nodup) :
    polyEnergy x (polyAdd p k v) = polyEnergy x p + v * termProd x k := by
  induction p with
  | nil => simp [polyAdd, polyEnergy]
  | cons a rest ih =>
    obtain ⟨k', v'⟩ := a
    simp only [polyAdd]
    split
    · rename_i hs
      simp only [polyEnergy]
      rw [termProd_perm x k' k (sameSet_perm k' k (hp (k', v') (List.mem_cons_self)) hk hs)]
      ring
    · simp only [polyEnergy]
      rw [ih (fun t ht => hp t (List.mem_cons_of_mem _ ht))]
      ring

theorem polyAdd_nodup (p : Poly) (k : List Label) (v : Rat) (hp : ∀ t ∈ p, t.1.Nodup) (hk : k.Nodup) :
    ∀ t ∈ polyAdd p k v, t.1.Nodup := by
  induction p with
  | nil => intro t ht; simp only [polyAdd, List.mem_singleton] at ht; subst ht; exact hk
  | cons a rest ih =>
    obtain ⟨k', v'⟩ := a
    simp only [polyAdd]
    split
    · intro t ht
      rcases List.mem_cons.mp ht with h | h
      · subst h; exact hp (k', v') (List.mem_cons_self)
      · exact hp t (List.mem_cons_of_mem _ h)
    · intro t ht
      rcases List.mem_cons.mp ht with h | h
      · subst h; exact hp (k', v') (List.mem_cons_self)
      · exact ih (fun t ht => hp t (List.mem_cons_of_mem _ ht)) t h

/-- energy of the non-constant terms -/
def nonConstEnergy (y : Label → Rat) : Poly → Rat
  | [] => 0
  | (k, v) :: p => (if k.isEmpty then 0 else v * termProd y k) + nonConstEnergy y p

/-- the main loop of the repaired `fix_variables` (constant skipped) -/
theorem fixLoop_energy (fixed : List (Label × Rat)) (x : Label → Rat) (p acc : Poly) (off : Rat)
    (hp : ∀ t ∈ p, t.1.Nodup) (hacc : ∀ t ∈ acc, t.1.Nodup) :
    polyEnergy x (fixVariablesLoop true fixed p acc off).1 + (fixVariablesLoop true fixed p acc off).2
      = polyEnergy x acc + off + nonConstEnergy (override x fixed) p := by
  induction p generalizing acc off with
  | nil => simp [fixVariablesLoop, nonConstEnergy]
  | cons a rest ih =>
    obtain ⟨k, v⟩ := a
    have hk : k.Nodup := hp (k, v) (List.mem_cons_self)
    have hrest : ∀ t ∈ rest, t.1.Nodup := fun t ht => hp t (List.mem_cons_of_mem _ ht)
    simp only [fixVariablesLoop, nonConstEnergy, Bool.true_and]
    by_cases he : k.isEmpty = true
    · simp only [he, if_true]
      rw [ih acc off hrest hacc]; ring
    · simp only [he, Bool.false_eq_true, if_false]
      have hft := fixTerm_energy fixed x k v hk
      have hnd := fixTerm_nodup fixed k v hk
      by_cases he' : (fixTerm fixed k v).1.isEmpty = true
      · simp only [he', if_true]
        rw [ih acc _ hrest hacc]
        have : (fixTerm fixed k v).1 = [] := by simpa using he'
        rw [this] at hft
        simp only [termProd, mul_one] at hft
        rw [hft]; ring
      · simp only [he', Bool.false_eq_true, if_false]
        rw [ih _ off hrest (polyAdd_nodup acc _ _ hacc hnd), polyAdd_energy x acc _ _ hacc hnd, hft]
        ring

/-- the polynomial is a `dict`: at most one entry has the empty key -/
def OneConst (p : Poly) : Prop := (p.filter (fun t => t.1.isEmpty)).length ≤ 1

theorem polyEnergy_split (y : Label → Rat) (p : Poly) (h : OneConst p) : polyEnergy y p = constTerm p + nonConstEnergy y p := by
  induction p with
  | nil => simp [polyEnergy, constTerm, nonConstEnergy]
  | cons a rest ih =>
    obtain ⟨k, v⟩ := a
    simp only [polyEnergy, constTerm, nonConstEnergy]
    by_cases he : k.isEmpty = true
    · have hk : k = [] := by simpa using he
      subst hk
      have hrest : (rest.filter (fun t => t.1.isEmpty)).length = 0 := by
        unfold OneConst at h
        simp only [List.filter_cons, List.isEmpty_nil, if_true, List.length_cons] at h
        omega
      have hnone : ∀ q : Poly, (q.filter (fun t => t.1.isEmpty)).length = 0 → polyEnergy y q = nonConstEnergy y q := by
        intro q
        induction q with
        | nil => intro _; rfl
        | cons b t iht =>
          obtain ⟨k2, v2⟩ := b
          intro hq
          by_cases h2 : k2.isEmpty = true
          · simp [List.filter_cons, h2] at hq
          · simp only [List.filter_cons, h2, Bool.false_eq_true, if_false] at hq
            simp only [polyEnergy, nonConstEnergy, h2, Bool.false_eq_true, if_false]
            rw [iht hq]
      simp only [List.isEmpty_nil, if_true, termProd, mul_one]
      rw [hnone rest hrest]; ring
    · simp only [he, Bool.false_eq_true, if_false]
      have : OneConst rest := by
        unfold OneConst at h ⊢
        simpa [List.filter_cons, he] using h
      rw [ih this]; ring

/-- energy of the polynomial handed to the child = energy of the submitted polynomial with the fixed
    values filled in -/
theorem fixVariables_energy (p : Poly) (fixed : List (Label × Rat)) (x : Label → Rat)
    (hp : ∀ t ∈ p, t.1.Nodup) (hc : OneConst p) :
    polyEnergy x (fixVariables true p fixed) = polyEnergy (override x fixed) p := by
  unfold fixVariables
  have h := fixLoop_energy fixed x p [] (constTerm p) hp (by simp)
  have happ : ∀ (a : Poly) (o : Rat), polyEnergy x (a ++ [([], o)]) = polyEnergy x a + o := by
    intro a o
    induction a with
    | nil => simp [polyEnergy, termProd]
    | cons b t iht => obtain ⟨k, v⟩ := b; simp only [List.cons_append, polyEnergy, iht]; ring
  rw [happ, h, polyEnergy_split _ p hc]
  simp [polyEnergy]

/-- before the D5 repair the constant is counted twice: `{(): 5, a: 1}` with `a = 1` gives 11, not 6 -/
theorem fixVariables_unrepaired_wrong :
    polyEnergy (fun _ => 0) (fixVariables false [([], 5), ([.str "a"], 1)] [(.str "a", 1)]) = 11 ∧
    polyEnergy (override (fun _ => 0) [(.str "a", 1)]) [([], 5), ([.str "a"], 1)] = 6 := by
  constructor <;> decide +kernel

theorem append_val (r : Row) (fixed : List (Label × Rat))
    (hd : ∀ p ∈ fixed, r.x.find? (fun q => q.1 = p.1) = none) (l : Label) :
    (r.append fixed).val l = override r.val fixed l := by
  unfold Row.append Row.val override
  simp only [List.find?_append]
  cases hf : fixed.find? (fun p => p.1 = l) with
  | none =>
    simp only [Option.or_none]
  | some p =>
    have hpm := List.mem_of_find?_eq_some hf
    have hpl : p.1 = l := by simpa using List.find?_some hf
    have := hd p hpm
    rw [hpl] at this
    simp [this]

/-- C07 `polyfixed_energy`: rows returned by PolyFixedVariableComposite (fixed values appended as
    columns) carry the energy of the submitted polynomial -/
theorem polyfixed_energy (child : Poly → List Row) (p : Poly) (fixed : List (Label × Rat))
    (hp : ∀ t ∈ p, t.1.Nodup) (hc : OneConst p)
    (hchild : ∀ q, ∀ r ∈ child q, r.energy = polyEnergy r.val q)
    (hdisj : ∀ q, ∀ r ∈ child q, ∀ f ∈ fixed, r.x.find? (fun e => e.1 = f.1) = none) :
    ∀ r ∈ polyFixedSample true child p fixed, r.energy = polyEnergy r.val p := by
  intro r hr
  simp only [polyFixedSample, List.mem_map] at hr
  obtain ⟨r0, hr0, rfl⟩ := hr
  show r0.energy = _
  rw [hchild _ r0 hr0, fixVariables_energy p fixed _ hp hc]
  have : (r0.append fixed).val = override r0.val fixed := funext (append_val r0 fixed (hdisj _ r0 hr0))
  rw [this]

/-- the fixed values sit under their own labels -/
theorem polyfixed_columns (child : Poly → List Row) (p : Poly) (fixed : List (Label × Rat))
    (hdisj : ∀ q, ∀ r ∈ child q, ∀ f ∈ fixed, r.x.find? (fun e => e.1 = f.1) = none) :
    ∀ r ∈ polyFixedSample true child p fixed, ∀ l e, fixed.find? (fun p => p.1 = l) = some e → r.val l = e.2 := by
  intro r hr l e hf
  simp only [polyFixedSample, List.mem_map] at hr
  obtain ⟨r0, hr0, rfl⟩ := hr
  rw [append_val r0 fixed (hdisj _ r0 hr0)]
  simp [override, hf]

/-! ### `polymorph_response` -/

theorem polyEnergy_congr (x y : Label → Rat) (p : Poly) (h : ∀ t ∈ p, ∀ l ∈ t.1, x l = y l) : polyEnergy x p = polyEnergy y p := by
  induction p with
  | nil => rfl
  | cons a rest ih =>
    obtain ⟨k, v⟩ := a
    simp only [polyEnergy]
    rw [termProd_congr x y k (h (k, v) (List.mem_cons_self)), ih (fun t ht => h t (List.mem_cons_of_mem _ ht))]

theorem zip_map_val (ls : List Label) (f : Label → Rat) (l : Label) (hl : l ∈ ls) :
    (Row.mk (ls.zip (ls.map f)) 0).val l = f l := by
  unfold Row.val
  simp only
  induction ls with
  | nil => simp at hl
  | cons a t ih =>
    by_cases ha : a = l
    · subst ha; simp [List.find?]
    · have hlt : l ∈ t := by
        rcases List.mem_cons.mp hl with h | h
        · exact absurd h.symm ha
        · exact h
      simp only [List.map_cons, List.zip_cons_cons, List.find?, ha, decide_false]
      exact ih hlt

/-- C07 `polymorph_columns` / `polymorph_energy` (repaired code: `labelsFromBqm = none`): every returned
    row comes from a row `vals` of the child response; read under the returned labels it has, for every
    polynomial variable (with `keep_penalty_variables`: for every label), the value the child's row has
    under that label; its energy is the polynomial's energy of the child's row; and
    `discard_unsatisfied` keeps only rows whose product variables equal the products. -/
theorem polymorph_spec (keep discard : Bool) (respVars polyVars : List Label) (reds : List Red) (p : Poly)
    (rows : List (List Rat)) :
    let out := polymorph none keep discard respVars polyVars reds p rows
    ∀ o ∈ out.2, ∃ vals ∈ rows,
      o.2.1 = polyEnergy (Row.mk (respVars.zip vals) 0).val p ∧
      (discard = true → penaltyOK reds (Row.mk (respVars.zip vals) 0) = true) ∧
      (∀ l, (keep = true ∨ l ∈ polyVars) →
        (Row.mk (out.1.zip o.1) 0).val l = (Row.mk (respVars.zip vals) 0).val l) := by
  intro out o ho
  simp only [out, polymorph, List.mem_map] at ho
  obtain ⟨vals, hv, rfl⟩ := ho
  have hmem : vals ∈ rows := by
    by_cases hd : discard = true
    · simp only [hd, if_true, List.mem_filter] at hv; exact hv.1
    · simp only [hd, Bool.false_eq_true, if_false] at hv; exact hv
  refine ⟨vals, hmem, rfl, ?_, ?_⟩
  · intro hd
    simp only [hd, if_true, List.mem_filter] at hv
    exact hv.2
  · intro l hl
    by_cases hk : keep = true
    · simp [out, polymorph, hk]
    · have hk' : keep = false := by simpa using hk
      have hlp : l ∈ polyVars := by
        rcases hl with h | h
        · exact absurd h hk
        · exact h
      simp only [out, polymorph, hk', Bool.false_eq_true, if_false]
      exact zip_map_val polyVars _ l hlp

/-- the energy is the polynomial's energy of the *returned* row read by its own labels, as long as the
    polynomial only mentions `poly.variables` -/
theorem polymorph_energy_own_labels (keep discard : Bool) (respVars polyVars : List Label) (reds : List Red) (p : Poly)
    (rows : List (List Rat)) (hp : ∀ t ∈ p, ∀ l ∈ t.1, l ∈ polyVars) :
    let out := polymorph none keep discard respVars polyVars reds p rows
    ∀ o ∈ out.2, o.2.1 = polyEnergy (Row.mk (out.1.zip o.1) 0).val p := by
  intro out o ho
  obtain ⟨vals, _, he, _, hcol⟩ := polymorph_spec keep discard respVars polyVars reds p rows o ho
  rw [he]
  apply polyEnergy_congr
  intro t ht l hl
  exact (hcol l (Or.inr (hp t ht l hl))).symm

/-- before the D6 repair (`keep_penalty_variables=True`): data in `response.variables` order under
    `bqm.variables` labels — the value reported for `y` is the child's value of `x` -/
theorem polymorph_unrepaired_wrong :
    let out := polymorph (some [.str "y", .str "x"]) true false [.str "x", .str "y"] [.str "x", .str "y"] [] [] [[0, 1]]
    (Row.mk (out.1.zip ((out.2.map (·.1)).headD [])) 0).val (.str "y") = 0 ∧
    (Row.mk ([Label.str "x", .str "y"].zip [0, 1]) 0).val (.str "y") = 1 := by
  constructor <;> decide +kernel

/-! ### row filters -/

theorem truncateRows_sublist (n : Nat) (rows : List Row) : (truncateRows n rows).Sublist rows := List.take_sublist n rows

end Enum
