import DimodProofs.ExprFile

/-! # Labels as JSON values, archive paths, and the CQM archive round trip (C09) -/

namespace FileFmt

/-! ## `deserialize_variable ∘ json ∘ serialize_variable` -/

mutual
theorem deserialize_serialize : ∀ l : FLabel, deserializeLabel (serializeLabel l) = l
  | .int _ => rfl
  | .flt _ => rfl
  | .str _ => rfl
  | .tup l => by simp [serializeLabel, deserializeLabel, deserialize_serialize_list l]
theorem deserialize_serialize_list : ∀ l : List FLabel, deserializeLabels (serializeLabels l) = l
  | [] => rfl
  | x :: xs => by simp [serializeLabels, deserializeLabels, deserialize_serialize x, deserialize_serialize_list xs]
end

/-! ## the directory name of a constraint -/

theorem escapeSlash_safe (cs : List Char) : pathSafe (escapeSlash cs) := by
  unfold pathSafe escapeSlash
  intro h
  rw [List.mem_flatMap] at h
  obtain ⟨c, _, hc⟩ := h
  by_cases hs : c = '/'
  · simp only [hs, if_true] at hc
    revert hc; decide
  · simp only [hs, if_false, List.mem_singleton] at hc
    exact hs hc.symm

/-- the `str.replace` leaves every other character alone -/
theorem escapeSlash_id (cs : List Char) (h : pathSafe cs) : escapeSlash cs = cs := by
  unfold pathSafe at h
  unfold escapeSlash
  induction cs with
  | nil => rfl
  | cons c t ih =>
    have hc : c ≠ '/' := fun e => h (by simp [e])
    have ht : '/' ∉ t := fun e => h (by simp [e])
    simp only [List.flatMap_cons, hc, if_false, List.singleton_append, ih ht]

theorem takeWhile_ne_slash (l rest : List Char) (h : pathSafe l) :
    (l ++ '/' :: rest).takeWhile (· ≠ '/') = l := by
  unfold pathSafe at h
  induction l with
  | nil => simp
  | cons c t ih =>
    have hc : c ≠ '/' := fun e => h (by simp [e])
    have ht : '/' ∉ t := fun e => h (by simp [e])
    have := ih ht
    simp only [List.cons_append, List.takeWhile_cons, ne_eq, hc, not_false_eq_true, decide_true, if_true]
    rw [this]

theorem conPrefix_isPrefix (x : List Char) : conPrefix.isPrefixOf (conPrefix ++ x) = true := by
  rw [List.isPrefixOf_iff_prefix]; exact List.prefix_append _ _

/-- `re.match("constraints/([^/]+)/", path).group(1)` gives back the directory name the writer
    used, provided that name is non-empty and free of `/` -/
theorem matchConstraint_path (lstr file : List Char) (h : pathSafe lstr) (hne : lstr ≠ []) :
    matchConstraint (constraintPath lstr file) = some lstr := by
  unfold matchConstraint constraintPath
  rw [conPrefix_isPrefix]
  simp only [if_true, List.drop_left]
  rw [takeWhile_ne_slash lstr file h]
  have : lstr.isEmpty = false := by cases lstr <;> simp_all
  simp only [this, Bool.false_eq_true, if_false, List.drop_left]

/-- … and when the name does contain a `/` (the D11 situation) the split returns something else -/
theorem matchConstraint_unsafe_example :
    matchConstraint (constraintPath ['"', 'a', '/', 'b', '"'] fLhs) = some ['"', 'a'] := by
  decide

theorem constraintPath_inj {l l' f f' : List Char} (h : pathSafe l) (h' : pathSafe l')
    (e : constraintPath l f = constraintPath l' f') : l = l' ∧ f = f' := by
  unfold constraintPath at e
  have e2 := List.append_cancel_left e
  have t1 := takeWhile_ne_slash l f h
  have t2 := takeWhile_ne_slash l' f' h'
  have hl : l = l' := by rw [← t1, ← t2, e2]
  subst hl
  have := List.append_cancel_left e2
  exact ⟨rfl, by simpa using this⟩

/-! ## reading members of an archive -/

theorem read_cons_eq (name : List Char) (b : Bytes) (a : Archive) : Archive.read ((name, b) :: a) name = .ok b := by
  simp [Archive.read, List.find?]

theorem read_cons_ne {n name : List Char} (b : Bytes) (a : Archive) (h : n ≠ name) :
    Archive.read ((n, b) :: a) name = Archive.read a name := by
  simp [Archive.read, List.find?, h]

theorem read_append_skip (a1 a2 : Archive) (name : List Char) (h : ∀ m ∈ a1, m.1 ≠ name) :
    Archive.read (a1 ++ a2) name = Archive.read a2 name := by
  induction a1 with
  | nil => rfl
  | cons m t ih =>
    obtain ⟨n, b⟩ := m
    rw [List.cons_append, read_cons_ne _ _ (h (n, b) (by simp))]
    exact ih (fun x hx => h x (by simp [hx]))

theorem read_absent (a : Archive) (name : List Char) (h : ∀ m ∈ a, m.1 ≠ name) : Archive.read a name = .err .key := by
  have := read_append_skip a [] name h
  rw [List.append_nil] at this
  rw [this]; rfl

theorem read_append_found (a1 a2 : Archive) (name : List Char) (b : Bytes) (h : Archive.read a1 name = .ok b) :
    Archive.read (a1 ++ a2) name = .ok b := by
  induction a1 with
  | nil => simp [Archive.read] at h
  | cons m t ih =>
    obtain ⟨n, x⟩ := m
    by_cases hn : n = name
    · subst hn
      rw [read_cons_eq] at h
      rw [List.cons_append, read_cons_eq]; exact h
    · rw [read_cons_ne _ _ hn] at h
      rw [List.cons_append, read_cons_ne _ _ hn]
      exact ih h

/-! ## names -/

theorem constraintPath_head (l f : List Char) : ∃ t, constraintPath l f = 'c' :: t := ⟨_, rfl⟩

theorem top_ne_path (l f : List Char) :
    nmVarinfo ≠ constraintPath l f ∧ nmLabels ≠ constraintPath l f ∧ nmObjective ≠ constraintPath l f := by
  obtain ⟨t, ht⟩ := constraintPath_head l f
  rw [ht]
  refine ⟨?_, ?_, ?_⟩
  · intro e; unfold nmVarinfo at e; injection e with h1 _; revert h1; decide
  · intro e; unfold nmLabels at e; injection e with h1 _; revert h1; decide
  · intro e; unfold nmObjective at e; injection e with h1 _; revert h1; decide

theorem member_names (isz : Nat) (c : CqmConstraint) : ∀ m ∈ constraintMembers isz c, ∃ f, m.1 = constraintPath c.lstr f := by
  intro m hm
  unfold constraintMembers at hm
  simp only [List.mem_append, List.mem_cons, List.not_mem_nil, or_false] at hm
  rcases hm with ((rfl | rfl | rfl) | hd) | hs
  · exact ⟨_, rfl⟩
  · exact ⟨_, rfl⟩
  · exact ⟨_, rfl⟩
  · split at hd
    · simp only [List.mem_singleton] at hd; subst hd; exact ⟨_, rfl⟩
    · simp at hd
  · split at hs
    · simp only [List.mem_cons, List.not_mem_nil, or_false] at hs
      rcases hs with rfl | rfl <;> exact ⟨_, rfl⟩
    · simp at hs

/-- constraints with path-safe, pairwise different directory names -/
def DirsOK (cs : List CqmConstraint) : Prop :=
  (∀ c ∈ cs, pathSafe c.lstr ∧ c.lstr ≠ []) ∧ (cs.map (·.lstr)).Nodup

/-- **members of one constraint are found in the whole archive under their own directory**: the
    lookup of `constraints/<c>/<file>` in all constraint members equals the lookup among `c`'s own
    members — this is where path-safety of every directory name is used -/
theorem read_constraint_member (isz : Nat) : ∀ (cs : List CqmConstraint), DirsOK cs → ∀ c ∈ cs, ∀ f : List Char,
    Archive.read ((cs.map (constraintMembers isz)).flatten) (constraintPath c.lstr f) =
      Archive.read (constraintMembers isz c) (constraintPath c.lstr f)
  | [], _, c, hc, _ => by simp at hc
  | c0 :: rest, hok, c, hc, f => by
    have hok' : DirsOK rest := ⟨fun x hx => hok.1 x (by simp [hx]), (List.nodup_cons.mp (by simpa using hok.2)).2⟩
    have hnd := List.nodup_cons.mp (show (c0.lstr :: rest.map (·.lstr)).Nodup by simpa using hok.2)
    simp only [List.map_cons, List.flatten_cons]
    rcases List.mem_cons.mp hc with rfl | hin
    · -- the head constraint: found among its own members, or absent everywhere
      cases hr : Archive.read (constraintMembers isz c) (constraintPath c.lstr f) with
      | ok b => exact read_append_found _ _ _ _ hr
      | ub => simp [Archive.read] at hr; split at hr <;> simp at hr
      | err e =>
        have hnone : ∀ m ∈ constraintMembers isz c, m.1 ≠ constraintPath c.lstr f := by
          intro m hm hname
          have : Archive.read (constraintMembers isz c) (constraintPath c.lstr f) = .ok m.2 ∨ True := Or.inr trivial
          unfold Archive.read at hr
          cases hf : (constraintMembers isz c).find? (fun x => x.1 = constraintPath c.lstr f) with
          | some x => rw [hf] at hr; simp at hr
          | none =>
            have := List.find?_eq_none.mp hf m hm
            simp [hname] at this
        rw [read_append_skip _ _ _ hnone]
        have hrest : ∀ m ∈ (rest.map (constraintMembers isz)).flatten, m.1 ≠ constraintPath c.lstr f := by
          intro m hm hname
          rw [List.mem_flatten] at hm
          obtain ⟨ms, hms, hmm⟩ := hm
          rw [List.mem_map] at hms
          obtain ⟨c', hc', rfl⟩ := hms
          obtain ⟨f', hf'⟩ := member_names isz c' m hmm
          rw [hf'] at hname
          have := (constraintPath_inj (hok.1 c' (by simp [hc'])).1 (hok.1 c (by simp)).1 hname).1
          exact hnd.1 (by rw [← this]; exact List.mem_map_of_mem hc')
        rw [read_absent _ _ hrest]
        have : e = .key := by
          unfold Archive.read at hr
          split at hr <;> simp at hr
          exact hr.symm
        rw [this]
    · -- a later constraint: nothing of the head has its directory
      have hskip : ∀ m ∈ constraintMembers isz c0, m.1 ≠ constraintPath c.lstr f := by
        intro m hm hname
        obtain ⟨f', hf'⟩ := member_names isz c0 m hm
        rw [hf'] at hname
        have := (constraintPath_inj (hok.1 c0 (by simp)).1 (hok.1 c (by simp [hin])).1 hname).1
        exact hnd.1 (by rw [this]; exact List.mem_map_of_mem hin)
      rw [read_append_skip _ _ _ hskip]
      exact read_constraint_member isz rest hok' c hin f

/-! ## the members of one constraint -/

theorem path_file_eq_iff (l f f' : List Char) : constraintPath l f = constraintPath l f' ↔ f = f' := by
  constructor
  · intro e
    unfold constraintPath at e
    have := List.append_cancel_left (List.append_cancel_left e)
    simpa using this
  · intro e; rw [e]

theorem files_ne : fLhs ≠ fRhs ∧ fLhs ≠ fSense ∧ fLhs ≠ fDiscrete ∧ fLhs ≠ fWeight ∧ fLhs ≠ fPenalty ∧
    fRhs ≠ fSense ∧ fRhs ≠ fDiscrete ∧ fRhs ≠ fWeight ∧ fRhs ≠ fPenalty ∧
    fSense ≠ fDiscrete ∧ fSense ≠ fWeight ∧ fSense ≠ fPenalty ∧
    fDiscrete ≠ fWeight ∧ fDiscrete ≠ fPenalty ∧ fWeight ≠ fPenalty := by decide

theorem read_members (isz : Nat) (c : CqmConstraint) :
    Archive.read (constraintMembers isz c) (constraintPath c.lstr fLhs) = .ok (exprEncode c.lhsHdrText isz c.lhs) ∧
    Archive.read (constraintMembers isz c) (constraintPath c.lstr fRhs) = .ok c.rhs ∧
    Archive.read (constraintMembers isz c) (constraintPath c.lstr fSense) = .ok c.sense ∧
    Archive.read (constraintMembers isz c) (constraintPath c.lstr fDiscrete) = (if c.discrete then .ok [1] else .err .key) ∧
    Archive.read (constraintMembers isz c) (constraintPath c.lstr fWeight) =
      (match c.soft with | some (w, _) => .ok w | none => .err .key) ∧
    Archive.read (constraintMembers isz c) (constraintPath c.lstr fPenalty) =
      (match c.soft with | some (_, p) => .ok p | none => .err .key) := by
  obtain ⟨h1, h2, h3, h4, h5, h6, h7, h8, h9, h10, h11, h12, h13, h14, h15⟩ := files_ne
  have n1 := h1.symm; have n2 := h2.symm; have n3 := h3.symm; have n4 := h4.symm; have n5 := h5.symm
  have n6 := h6.symm; have n7 := h7.symm; have n8 := h8.symm; have n9 := h9.symm; have n10 := h10.symm
  have n11 := h11.symm; have n12 := h12.symm; have n13 := h13.symm; have n14 := h14.symm; have n15 := h15.symm
  unfold constraintMembers Archive.read
  cases hd : c.discrete <;> cases hs : c.soft with
  | none => simp [List.find?, path_file_eq_iff, *]
  | some wp => obtain ⟨w, p⟩ := wp; simp [List.find?, path_file_eq_iff, *]

theorem readF64_ok (a : Archive) (name : List Char) (b : Bytes) (h : Archive.read a name = .ok b) (h8 : b.length = 8) :
    readF64 a name = .ok b := by
  unfold readF64
  rw [h]
  have : frombuffer 8 b = .ok [b] := by
    have := frombuffer_flatten (rs := 8) (by decide) (recs := [b]) (by simp [h8])
    simpa using this
  simp [Res.bind, this]

theorem readF64_key (a : Archive) (name : List Char) (h : Archive.read a name = .err .key) : readF64 a name = .err .key := by
  unfold readF64; rw [h]; rfl

/-- what `to_file` may assume of one constraint -/
structure ConstraintWF (parse : Bytes → Option (QHeader J)) (isz : Nat) (c : CqmConstraint) : Prop where
  rhs8 : c.rhs.length = 8
  soft8 : ∀ w p, c.soft = some (w, p) → w.length = 8
  hdr : ∃ hc : QHeader J, HeaderOK parse c.lhsHdrText hc ∧ ExprWF hc c.lhs ∧ hc.isize = isz

def CqmConstraint.erase (c : CqmConstraint) : CqmConstraint := { c with lhsHdrText := [] }

theorem onMember_expr (a : Archive) (name : List Char) (parse : Bytes → Option (QHeader J)) (hdrText : Bytes) (isz : Nat)
    (e : ExprContent) (hr : Archive.read a name = .ok (exprEncode hdrText isz e))
    (hw : ∃ hc : QHeader J, HeaderOK parse hdrText hc ∧ ExprWF hc e ∧ hc.isize = isz) :
    ∃ hc, onMember a name (exprDecode true parse) = .ok (hc, e) := by
  obtain ⟨hc, hh, wf, rfl⟩ := hw
  refine ⟨hc, ?_⟩
  unfold onMember
  rw [hr]
  have := (Comp.expr parse hdrText hc e hh wf).full []
  rw [List.append_nil] at this
  simp [Res.bind, this]

/-- loading one constraint from an archive in which its members are found under its directory -/
theorem loadConstraint_ok (parse : Bytes → Option (QHeader J)) (okLabel : List Char → Bool) (isz : Nat) (a : Archive)
    (c : CqmConstraint) (wf : ConstraintWF parse isz c) (hok : okLabel c.lstr = true)
    (hread : ∀ f, Archive.read a (constraintPath c.lstr f) = Archive.read (constraintMembers isz c) (constraintPath c.lstr f)) :
    loadConstraint true parse okLabel a c.lstr = .ok c.erase := by
  obtain ⟨r1, r2, r3, r4, r5, r6⟩ := read_members isz c
  unfold loadConstraint
  simp only [hok, Bool.not_true, Bool.false_eq_true, if_false]
  rw [readF64_ok a _ c.rhs (by rw [hread, r2]) wf.rhs8]
  simp only [Res.bind]
  rw [hread fSense, r3]
  simp only
  obtain ⟨hc, hlhs⟩ := onMember_expr a (constraintPath c.lstr fLhs) parse c.lhsHdrText isz c.lhs (by rw [hread, r1]) wf.hdr
  cases hs : c.soft with
  | none =>
    rw [hs] at r5
    rw [readF64_key a _ (by rw [hread, r5])]
    simp only [Res.bind, hlhs]
    rw [hread fDiscrete, r4]
    cases hd : c.discrete <;> simp [CqmConstraint.erase, hs, hd] <;> rfl
  | some wp =>
    obtain ⟨w, p⟩ := wp
    rw [hs] at r5 r6
    rw [readF64_ok a _ w (by rw [hread, r5]) (wf.soft8 w p hs)]
    simp only
    rw [hread fPenalty, r6]
    simp only [Res.bind, hlhs]
    rw [hread fDiscrete, r4]
    cases hd : c.discrete <;> simp [CqmConstraint.erase, hs, hd] <;> rfl

/-! ## the directory names found by the regular expression -/

theorem filterMap_const {α β : Type} (g : α → Option β) (x : β) : ∀ (l : List α), (∀ m ∈ l, g m = some x) →
    l.filterMap g = List.replicate l.length x
  | [], _ => rfl
  | m :: t, h => by
    rw [List.filterMap_cons, h m (by simp)]
    simp [List.replicate_succ, filterMap_const g x t (fun y hy => h y (by simp [hy]))]

theorem dedup_filter_block (x : List Char) (R : List (List Char)) : ∀ k,
    (dedup (List.replicate k x ++ R)).filter (· ≠ x) = (dedup R).filter (· ≠ x)
  | 0 => rfl
  | k + 1 => by
    have ih := dedup_filter_block x R k
    simp only [List.replicate_succ, List.cons_append, dedup]
    rw [List.filter_cons]
    simp only [ne_eq, not_true_eq_false, decide_false, Bool.false_eq_true, if_false, List.filter_filter, Bool.and_self]
    exact ih

theorem members_length_pos (isz : Nat) (c : CqmConstraint) : ∃ k, (constraintMembers isz c).length = k + 1 := by
  unfold constraintMembers
  exact ⟨_, by simp [List.length_append]; rfl⟩

theorem dedup_dirs (isz : Nat) : ∀ (cs : List CqmConstraint), DirsOK cs →
    dedup (((cs.map (constraintMembers isz)).flatten).filterMap fun m => matchConstraint m.1) = cs.map (·.lstr)
  | [], _ => rfl
  | c :: rest, hok => by
    have hok' : DirsOK rest := ⟨fun x hx => hok.1 x (by simp [hx]), (List.nodup_cons.mp (by simpa using hok.2)).2⟩
    have hnd := List.nodup_cons.mp (show (c.lstr :: rest.map (·.lstr)).Nodup by simpa using hok.2)
    have ih := dedup_dirs isz rest hok'
    have hblock : (constraintMembers isz c).filterMap (fun m => matchConstraint m.1) =
        List.replicate (constraintMembers isz c).length c.lstr := by
      apply filterMap_const
      intro m hm
      obtain ⟨f, hf⟩ := member_names isz c m hm
      rw [hf]
      exact matchConstraint_path _ _ (hok.1 c (by simp)).1 (hok.1 c (by simp)).2
    obtain ⟨k, hk⟩ := members_length_pos isz c
    simp only [List.map_cons, List.flatten_cons, List.filterMap_append, hblock, hk, List.replicate_succ, List.cons_append, dedup]
    rw [dedup_filter_block, ih]
    congr 1
    rw [List.filter_eq_self]
    intro y hy
    simp only [ne_eq, decide_eq_true_eq]
    intro e
    exact hnd.1 (e ▸ hy)

/-! ## the CQM archive round trip -/

def CqmContent.erase (m : CqmContent) : CqmContent :=
  { m with objHdrText := [], constraints := m.constraints.map CqmConstraint.erase }

/-- what `to_file` may assume of a CQM -/
structure CqmWF (parse : Bytes → Option (QHeader J)) (okLabel : List Char → Bool) (isz dsz : Nat) (m : CqmContent) : Prop where
  dirs : DirsOK m.constraints
  cons : ∀ c ∈ m.constraints, ConstraintWF parse isz c ∧ okLabel c.lstr = true
  obj : ∃ ho : QHeader J, HeaderOK parse m.objHdrText ho ∧ ExprWF ho m.objective ∧ ho.isize = isz
  viwf : VarInfoWF dsz m.varinfo
  szvi : (encVarInfo m.varinfo).length + 64 < 256 ^ nlb4

theorem cqmMembers_eq (isz : Nat) (m : CqmContent) :
    cqmMembers isz m = (nmVarinfo, sectionDumps magVTYP nlb4 (encVarInfo m.varinfo)) ::
      (labelsMember m.labelsText ++
        ((nmObjective, exprEncode m.objHdrText isz m.objective) :: (m.constraints.map (constraintMembers isz)).flatten)) := by
  simp [cqmMembers]

theorem read_in_cqm (isz : Nat) (m : CqmContent) (hd : DirsOK m.constraints) (c : CqmConstraint) (hc : c ∈ m.constraints)
    (f : List Char) :
    Archive.read (cqmMembers isz m) (constraintPath c.lstr f) = Archive.read (constraintMembers isz c) (constraintPath c.lstr f) := by
  obtain ⟨t1, t2, t3⟩ := top_ne_path c.lstr f
  rw [cqmMembers_eq, read_cons_ne _ _ t1]
  have hl : ∀ x ∈ labelsMember m.labelsText, x.1 ≠ constraintPath c.lstr f := by
    intro x hx
    cases h : m.labelsText with
    | none => rw [h] at hx; simp [labelsMember] at hx
    | some t => rw [h] at hx; simp only [labelsMember, List.mem_singleton] at hx; subst hx; exact t2
  rw [read_append_skip _ _ _ hl, read_cons_ne _ _ t3]
  exact read_constraint_member isz m.constraints hd c hc f

theorem loadConstraints_ok (parse : Bytes → Option (QHeader J)) (okLabel : List Char → Bool) (a : Archive) :
    ∀ (cs : List CqmConstraint), (∀ c ∈ cs, loadConstraint true parse okLabel a c.lstr = .ok c.erase) →
    loadConstraints true parse okLabel a (cs.map (·.lstr)) = .ok (cs.map CqmConstraint.erase)
  | [], _ => rfl
  | c :: rest, h => by
    simp only [List.map_cons, loadConstraints, h c (by simp), Res.bind,
      loadConstraints_ok parse okLabel a rest (fun x hx => h x (by simp [hx]))]

theorem top_names_ne : nmVarinfo ≠ nmLabels ∧ nmVarinfo ≠ nmObjective ∧ nmLabels ≠ nmObjective := by decide

theorem top_match_none : matchConstraint nmVarinfo = none ∧ matchConstraint nmLabels = none ∧ matchConstraint nmObjective = none := by
  decide

/-- **the CQM archive**: `from_file` applied to the members `to_file` wrote gives back variable
    info, label text, objective and every constraint (directory name, left-hand side, right-hand
    side, sense, discrete mark, weight and penalty), in the writer's order — provided every
    constraint directory name is non-empty, free of `/` and the names are pairwise different -/
theorem cqmDecode_members (parse : Bytes → Option (QHeader J)) (okLabel : List Char → Bool) (isz dsz : Nat) (m : CqmContent)
    (wf : CqmWF parse okLabel isz dsz m) :
    cqmDecode true dsz m.varinfo.length parse okLabel (cqmMembers isz m) = .ok m.erase := by
  obtain ⟨n1, n2, n3⟩ := top_names_ne
  obtain ⟨z1, z2, z3⟩ := top_match_none
  unfold cqmDecode
  -- varinfo
  have hvi : onMember (cqmMembers isz m) nmVarinfo
      (sectionLoadWith magVTYP nlb4 fun d => ivartypesLoad true dsz d m.varinfo.length) = .ok m.varinfo := by
    unfold onMember
    rw [cqmMembers_eq, read_cons_eq]
    have := sectionLoadWith_full magVTYP nlb4 (encVarInfo m.varinfo) (fun d => ivartypesLoad true dsz d m.varinfo.length)
      m.varinfo (by decide) wf.szvi (ivartypesLoad_full true dsz m.varinfo wf.viwf _) []
    rw [List.append_nil] at this
    simp [Res.bind, this]
  -- objective
  have hlabskip : ∀ x ∈ labelsMember m.labelsText, x.1 ≠ nmObjective := by
    intro x hx
    cases h : m.labelsText with
    | none => rw [h] at hx; simp [labelsMember] at hx
    | some t => rw [h] at hx; simp only [labelsMember, List.mem_singleton] at hx; subst hx; exact n3
  have hobjr : Archive.read (cqmMembers isz m) nmObjective = .ok (exprEncode m.objHdrText isz m.objective) := by
    rw [cqmMembers_eq, read_cons_ne _ _ n2, read_append_skip _ _ _ hlabskip, read_cons_eq]
  obtain ⟨ho, hobj⟩ := onMember_expr _ nmObjective parse m.objHdrText isz m.objective hobjr wf.obj
  -- directories
  have hdirs : constraintDirs (cqmMembers isz m) = m.constraints.map (·.lstr) := by
    unfold constraintDirs
    rw [cqmMembers_eq]
    have hlab : (labelsMember m.labelsText).filterMap (fun x => matchConstraint x.1) = [] := by
      cases m.labelsText <;> simp [labelsMember, z2]
    simp only [List.filterMap_cons, z1, List.filterMap_append, hlab, List.nil_append, z3]
    exact dedup_dirs isz m.constraints wf.dirs
  have hcs := loadConstraints_ok parse okLabel (cqmMembers isz m) m.constraints (fun c hc =>
    loadConstraint_ok parse okLabel isz _ c (wf.cons c hc).1 (wf.cons c hc).2 (fun f => read_in_cqm isz m wf.dirs c hc f))
  -- labels
  have hlt : optRead (Archive.read (cqmMembers isz m) nmLabels) = m.labelsText := by
    rw [cqmMembers_eq, read_cons_ne _ _ n1]
    cases h : m.labelsText with
    | some t => simp [labelsMember, read_cons_eq, optRead]
    | none =>
      simp only [labelsMember, List.nil_append]
      rw [read_cons_ne _ _ n3.symm]
      have : ∀ x ∈ (m.constraints.map (constraintMembers isz)).flatten, x.1 ≠ nmLabels := by
        intro x hx e
        rw [List.mem_flatten] at hx
        obtain ⟨ms, hms, hxm⟩ := hx
        rw [List.mem_map] at hms
        obtain ⟨c, _, rfl⟩ := hms
        obtain ⟨f, hf⟩ := member_names isz c x hxm
        exact (top_ne_path c.lstr f).2.1 (by rw [← hf, e])
      rw [read_absent _ _ this]; rfl
  rw [hvi]
  simp only [Res.bind, hobj, hdirs, hcs, hlt]
  rfl

end FileFmt
