import DimodProofs.GenProofs2
import DimodModel.Generators3

/-! # Generators, part 3: frustrated loops, anti-crossing clique, chimera anticluster, MIMO (core Lean only) -/

namespace Gen
open Pen

/-! ## ±1 arithmetic -/

theorem pm_mul (p q : Rat) (hp : p = 1 ∨ p = -1) (hq : q = 1 ∨ q = -1) : p * q = 1 ∨ p * q = -1 := by
  rcases hp with rfl | rfl <;> rcases hq with rfl | rfl <;> grind

theorem pm_sq (p : Rat) (hp : p = 1 ∨ p = -1) : p * p = 1 := by
  rcases hp with rfl | rfl <;> grind

theorem pm_nn (p q : Rat) (hp : p = 1 ∨ p = -1) (hq : q = 1 ∨ q = -1) : 0 ≤ 1 + p + q + p * q := by
  rcases hp with rfl | rfl <;> rcases hq with rfl | rfl <;> grind

theorem pm_le (p : Rat) (hp : p = 1 ∨ p = -1) : -1 ≤ p ∧ p ≤ 1 := by
  rcases hp with rfl | rfl <;> grind

/-! ## frustrated loops -/

/-- `Π (−J)` along a walk -/
def negProd (sg : Nat → Rat) : List Label → Nat → Rat
  | [], _ => 1
  | _ :: r, i => (-(sg i)) * negProd sg r (i + 1)

/-- **a frustrated loop cannot be satisfied**: a closed walk `u → … → last → u` with couplings `±1` whose number of
    anti-ferromagnetic (`+1`) couplings is odd (`Π(−J) = −1`) has energy at least `−(L − 2)` at every spin state
    (`L = r.length + 1` edges) -/
theorem closed_walk_bound (x : Label → Rat) (hx : ∀ v, x v = 1 ∨ x v = -1) (sg : Nat → Rat) (hsg : ∀ i, sg i = 1 ∨ sg i = -1)
    (r : List Label) : ∀ (u : Label) (i : Nat) (j0 : Rat), (j0 = 1 ∨ j0 = -1) → (-j0) * negProd sg r i = -1 →
      1 - (r.length : Rat) ≤ j0 * (x (lastOf u r) * x u) + evalBag x (walkBag sg u r i) := by
  induction r with
  | nil =>
    intro u i j0 hj0 hp
    simp only [negProd, lastOf, walkBag, evalBag, List.length_nil] at *
    have := pm_sq (x u) (hx u)
    rcases hj0 with rfl | rfl <;> grind
  | cons v r ih =>
    intro u i j0 hj0 hp
    simp only [negProd, lastOf, walkBag, evalBag, PTerm.eval, List.length_cons] at *
    have hj' : (-(j0 * sg i)) = 1 ∨ (-(j0 * sg i)) = -1 := by
      rcases pm_mul j0 (sg i) hj0 (hsg i) with h | h <;> grind
    have hp' : (-(-(j0 * sg i))) * negProd sg r (i + 1) = -1 := by grind
    have h1 := ih v (i + 1) (-(j0 * sg i)) hj' hp'
    have hu := pm_sq (x u) (hx u)
    have hP := pm_mul j0 (x (lastOf v r) * x u) hj0 (pm_mul _ _ (hx _) (hx _))
    have hQ := pm_mul (sg i) (x u * x v) (hsg i) (pm_mul _ _ (hx _) (hx _))
    have hnn := pm_nn _ _ hP hQ
    have hc : (j0 * (x (lastOf v r) * x u)) * (sg i * (x u * x v)) = j0 * sg i * (x (lastOf v r) * x v) := by
      have : (j0 * (x (lastOf v r) * x u)) * (sg i * (x u * x v)) = j0 * sg i * (x (lastOf v r) * x v) * (x u * x u) := by grind
      rw [this, hu]; grind
    have hcast : (((r.length + 1 : Nat)) : Rat) = (r.length : Rat) + 1 := by grind
    grind

/-- sum of the couplings along a walk -/
def sgSum (sg : Nat → Rat) : List Label → Nat → Rat
  | [], _ => 0
  | _ :: r, i => sg i + sgSum sg r (i + 1)

theorem walk_ones (sg : Nat → Rat) (r : List Label) : ∀ (u : Label) (i : Nat),
    evalBag (fun _ => (1 : Rat)) (walkBag sg u r i) = sgSum sg r i := by
  induction r with
  | nil => intro u i; rfl
  | cons v r ih => intro u i; simp only [walkBag, evalBag, PTerm.eval, sgSum, ih]; grind

/-- one `+1` at position `idx`, `−1` elsewhere: the product of `−J` and the sum of `J` over positions `i … i+len−1` -/
theorem one_afm (idx : Nat) (r : List Label) : ∀ i : Nat,
    negProd (fun k => if k = idx then 1 else -1) r i = (if i ≤ idx ∧ idx < i + r.length then -1 else 1)
    ∧ sgSum (fun k => if k = idx then 1 else -1) r i = (if i ≤ idx ∧ idx < i + r.length then 2 else 0) - (r.length : Rat) := by
  induction r with
  | nil => intro i; simp only [negProd, sgSum, List.length_nil]; constructor <;> split <;> first | omega | grind
  | cons v r ih =>
    intro i
    have h := ih (i + 1)
    have hcast : (((r.length + 1 : Nat)) : Rat) = (r.length : Rat) + 1 := by grind
    simp only [negProd, sgSum, List.length_cons, h.1, h.2, hcast]
    by_cases hi : i = idx
    · subst hi
      have h1 : ¬ (i + 1 ≤ i ∧ i < i + 1 + r.length) := by omega
      have h2 : (i ≤ i ∧ i < i + (r.length + 1)) := by omega
      simp only [h1, h2, if_true, if_false, and_self]; constructor <;> grind
    · by_cases hc : i ≤ idx ∧ idx < i + (r.length + 1)
      · have h1 : (i + 1 ≤ idx ∧ idx < i + 1 + r.length) := by omega
        simp only [hi, h1, hc, if_true, if_false, and_self]; constructor <;> grind
      · have h1 : ¬ (i + 1 ≤ idx ∧ idx < i + 1 + r.length) := by omega
        simp only [hi, h1, hc, if_false]; constructor <;> grind

/-- a planted loop: never below `−(L − 2)`, and exactly that at the all-(+1) state -/
theorem flPlanted_bound (x : Label → Rat) (hx : ∀ v, x v = 1 ∨ x v = -1) (c : List Label) (idx : Nat) (h : idx < c.length) :
    2 - (c.length : Rat) ≤ evalBag x (flPlanted c idx) ∧ evalBag (fun _ => (1 : Rat)) (flPlanted c idx) = 2 - (c.length : Rat) := by
  cases c with
  | nil => simp at h
  | cons u r =>
    simp only [flPlanted, evalBag, PTerm.eval, List.length_cons]
    have hcast : (((r.length + 1 : Nat)) : Rat) = (r.length : Rat) + 1 := by grind
    have hsg : ∀ i, (fun k => if k = idx then (1 : Rat) else -1) i = 1 ∨ (fun k => if k = idx then (1 : Rat) else -1) i = -1 := by
      intro i; simp only; split <;> simp
    have hone := one_afm idx r 1
    simp only [List.length_cons] at h
    constructor
    · have hj0 : (if 0 = idx then (1 : Rat) else -1) = 1 ∨ (if 0 = idx then (1 : Rat) else -1) = -1 := by split <;> simp
      have hp : (-(if 0 = idx then (1 : Rat) else -1)) * negProd (fun k => if k = idx then 1 else -1) r 1 = -1 := by
        rw [hone.1]
        by_cases h0 : 0 = idx
        · have : ¬ (1 ≤ idx ∧ idx < 1 + r.length) := by omega
          simp only [h0, this, if_true, if_false]; grind
        · have : (1 ≤ idx ∧ idx < 1 + r.length) := by omega
          simp only [h0, this, if_true, if_false, and_self]; grind
      have := closed_walk_bound x hx _ hsg r u 1 _ hj0 hp
      grind
    · rw [walk_ones, hone.2]
      by_cases h0 : 0 = idx
      · have : ¬ (1 ≤ idx ∧ idx < 1 + r.length) := by omega
        simp only [h0, this, if_true, if_false]; grind
      · have : (1 ≤ idx ∧ idx < 1 + r.length) := by omega
        simp only [h0, this, if_true, if_false, and_self]; grind

theorem flClosing_eq (L : Nat) : flClosing L = 1 := by
  unfold flClosing
  rcases Nat.mod_two_eq_zero_or_one (L - 1) with h | h <;> simp only [h] <;> grind

theorem const_afm (r : List Label) : ∀ i : Nat,
    negProd (fun _ => (-1 : Rat)) r i = 1 ∧ sgSum (fun _ => (-1 : Rat)) r i = - (r.length : Rat) := by
  induction r with
  | nil => intro i; simp only [negProd, sgSum, List.length_nil]; constructor <;> grind
  | cons v r ih =>
    intro i
    have hcast : (((r.length + 1 : Nat)) : Rat) = (r.length : Rat) + 1 := by grind
    simp only [negProd, sgSum, List.length_cons, (ih (i + 1)).1, (ih (i + 1)).2, hcast]; constructor <;> grind

/-- `plant_solution=False` as coded: the closing edge is the one anti-ferromagnetic coupler: same bounds -/
theorem flUnplanted_bound (x : Label → Rat) (hx : ∀ v, x v = 1 ∨ x v = -1) (c : List Label) (h : 0 < c.length) :
    2 - (c.length : Rat) ≤ evalBag x (flUnplanted c) ∧ evalBag (fun _ => (1 : Rat)) (flUnplanted c) = 2 - (c.length : Rat) := by
  cases c with
  | nil => simp at h
  | cons u r =>
    simp only [flUnplanted, evalBag_append, evalBag, PTerm.eval, List.length_cons, flClosing_eq]
    have hcast : (((r.length + 1 : Nat)) : Rat) = (r.length : Rat) + 1 := by grind
    have hc := const_afm r 0
    constructor
    · have := closed_walk_bound x hx (fun _ => (-1 : Rat)) (fun _ => Or.inr rfl) r u 0 1 (Or.inl rfl) (by rw [hc.1]; grind)
      grind
    · rw [walk_ones, hc.2]; grind

/-- `Σ (L_c − 2)` over the recorded loops -/
def loopBound : List (List Label × Option Nat) → Rat
  | [] => 0
  | c :: cs => ((c.1.length : Rat) - 2) + loopBound cs

/-- the recorded loops are well formed: non-empty, the anti-ferromagnetic position inside the loop -/
def LoopsOK (cycles : List (List Label × Option Nat)) : Prop :=
  ∀ c ∈ cycles, 0 < c.1.length ∧ ∀ idx, c.2 = some idx → idx < c.1.length

theorem loops_bound (x : Label → Rat) (hx : ∀ v, x v = 1 ∨ x v = -1) (cycles : List (List Label × Option Nat)) (h : LoopsOK cycles) :
    - loopBound cycles ≤ evalBag x (cycles.flatMap (fun c => match c.2 with | some idx => flPlanted c.1 idx | none => flUnplanted c.1))
    ∧ evalBag (fun _ => (1 : Rat)) (cycles.flatMap (fun c => match c.2 with | some idx => flPlanted c.1 idx | none => flUnplanted c.1))
        = - loopBound cycles := by
  induction cycles with
  | nil => simp only [List.flatMap_nil, evalBag, loopBound]; constructor <;> grind
  | cons c cs ih =>
    have ih' := ih (fun c' hc' => h c' (List.mem_cons_of_mem _ hc'))
    have hc := h c (List.mem_cons_self)
    simp only [List.flatMap_cons, evalBag_append, loopBound]
    rcases c with ⟨cl, _ | idx⟩
    · have := flUnplanted_bound x hx cl hc.1
      simp only at this ⊢; constructor <;> grind
    · have := flPlanted_bound x hx cl idx (hc.2 idx rfl)
      simp only at this ⊢; constructor <;> grind

theorem evalBag_zeroQuads (x : Label → Rat) (edges : List (Label × Label)) :
    evalBag x (edges.map (fun e => PTerm.quad e.1 e.2 0)) = 0 := by
  induction edges with
  | nil => rfl
  | cons e r ih => simp only [List.map_cons, evalBag, PTerm.eval, ih]; grind

/-- the gauge `J_uv ← J_uv·p(u)·p(v)` is the change of variables `x ↦ p·x` (on bags whose linear terms are 0) -/
theorem gauge_eval (p x : Label → Rat) (bag : List (PTerm Label)) (h : ∀ t ∈ bag, ∀ v c, t = PTerm.lin v c → c = 0) :
    evalBag x (bag.map (gaugeTerm p)) = evalBag (fun v => p v * x v) bag := by
  induction bag with
  | nil => rfl
  | cons t ts ih =>
    simp only [List.map_cons, evalBag]
    rw [ih (fun t' ht' => h t' (List.mem_cons_of_mem _ ht'))]
    cases t with
    | const c => simp only [gaugeTerm, PTerm.eval]
    | lin v c => have := h (.lin v c) (List.mem_cons_self) v c rfl; subst this; simp only [gaugeTerm, PTerm.eval]; grind
    | quad u v c => simp only [gaugeTerm, PTerm.eval]; grind

/-! ## anti-crossing clique -/

theorem evalBag_negPairs (x : Label → Rat) (hx : ∀ v, x v = 1 ∨ x v = -1) (u : Label) (f : Nat → Label) (l : List Nat) :
    - (l.length : Rat) ≤ evalBag x (l.map (fun k => PTerm.quad u (f k) (-1)))
    ∧ evalBag (fun _ => (1 : Rat)) (l.map (fun k => PTerm.quad u (f k) (-1))) = - (l.length : Rat) := by
  induction l with
  | nil => simp only [List.map_nil, evalBag, List.length_nil]; constructor <;> grind
  | cons k r ih =>
    have hcast : (((r.length + 1 : Nat)) : Rat) = (r.length : Rat) + 1 := by grind
    have := pm_le _ (pm_mul _ _ (hx u) (hx (f k)))
    simp only [List.map_cons, evalBag, PTerm.eval, List.length_cons, hcast]; constructor <;> grind

/-- each row of the generator is minimal at the all-(+1) state -/
theorem acCliqueRow_bound (x : Label → Rat) (hx : ∀ v, x v = 1 ∨ x v = -1) (hf n : Nat) :
    evalBag (fun _ => (1 : Rat)) (acCliqueRow hf n) ≤ evalBag x (acCliqueRow hf n) := by
  unfold acCliqueRow
  have h := evalBag_negPairs x hx (iv n) (fun k => iv (n + 1 + k)) (List.range (hf - (n + 1)))
  simp only [evalBag_append, evalBag, PTerm.eval]
  rw [h.2]
  rcases hx (iv n) with h1 | h1 <;> rcases hx (iv (n + hf)) with h2 | h2 <;> rw [h1, h2] <;> grind

theorem acCliqueAdds_bound (x : Label → Rat) (hx : ∀ v, x v = 1 ∨ x v = -1) (hf : Nat) (l : List Nat) :
    evalBag (fun _ => (1 : Rat)) (l.flatMap (acCliqueRow hf)) ≤ evalBag x (l.flatMap (acCliqueRow hf)) := by
  induction l with
  | nil => simp [evalBag]
  | cons n r ih =>
    simp only [List.flatMap_cons, evalBag_append]
    have := acCliqueRow_bound x hx hf n
    grind

/-! ### `set_linear` -/

section setlin
variable {α : Type} [DecidableEq α]

theorem linSum_setKey (x : α → Rat) (m : List (α × Rat)) (k : α) (c : Rat) :
    Bq.linSum x (Bq.setKey m k c) = Bq.linSum x m + (c - Bq.lookupKey m k) * x k := by
  induction m with
  | nil => simp only [Bq.setKey, Bq.linSum, Bq.lookupKey]; grind
  | cons e m ih =>
    rcases e with ⟨k', c'⟩
    simp only [Bq.setKey, Bq.lookupKey]
    split
    · rename_i h; subst h; simp only [Bq.linSum]; grind
    · simp only [Bq.linSum, ih]; grind

theorem energy_setLinear (b : Bq α) (x : α → Rat) (v : α) (c : Rat) :
    (b.setLinear v c).energy x = b.energy x + (c - Bq.lookupKey b.lin v) * x v := by
  simp only [Bq.setLinear, Bq.energy, linSum_setKey]; grind

theorem lookup_addKey (m : List (α × Rat)) (k k' : α) (c : Rat) :
    Bq.lookupKey (addKey m k c) k' = Bq.lookupKey m k' + (if k = k' then c else 0) := by
  induction m with
  | nil => simp only [addKey, Bq.lookupKey]; split <;> grind
  | cons e m ih =>
    rcases e with ⟨a, ca⟩
    simp only [addKey]
    split
    · rename_i h; subst h; simp only [Bq.lookupKey]; split <;> grind
    · rename_i h; simp only [Bq.lookupKey, ih]; split <;> grind

/-- the linear bias a term adds to `k` (an interaction only creates its variables) -/
def linCoef (k : α) : List (PTerm α) → Rat
  | [] => 0
  | .lin v c :: ts => (if v = k then c else 0) + linCoef k ts
  | _ :: ts => linCoef k ts

theorem lookup_applyTerm (b : Bq α) (hvt : b.vt = .spin) (t : PTerm α) (k : α) :
    Bq.lookupKey (b.applyTerm t).lin k = Bq.lookupKey b.lin k + linCoef k [t] := by
  cases t with
  | const c => simp only [Bq.applyTerm, linCoef]; grind
  | lin v c => simp only [Bq.applyTerm, Bq.addLinear, lookup_addKey, linCoef]; grind
  | quad u v c =>
    simp only [Bq.applyTerm, Bq.addQuadratic, linCoef, hvt]
    split
    · simp only [Bq.addLinear, lookup_addKey]; split <;> grind
    · simp only [Bq.addLinear, lookup_addKey]; split <;> split <;> grind

theorem linCoef_cons (k : α) (t : PTerm α) (ts : List (PTerm α)) : linCoef k (t :: ts) = linCoef k [t] + linCoef k ts := by
  cases t <;> simp only [linCoef] <;> grind

theorem lookup_apply (b : Bq α) (hvt : b.vt = .spin) (ts : List (PTerm α)) (k : α) :
    Bq.lookupKey (b.apply ts).lin k = Bq.lookupKey b.lin k + linCoef k ts := by
  induction ts generalizing b with
  | nil => simp only [Bq.apply, linCoef]; grind
  | cons t ts ih =>
    simp only [Bq.apply]
    rw [ih (b.applyTerm t) (by rw [vt_applyTerm]; exact hvt), lookup_applyTerm b hvt, linCoef_cons k t ts]; grind

theorem linCoef_append (k : α) (a b : List (PTerm α)) : linCoef k (a ++ b) = linCoef k a + linCoef k b := by
  induction a with
  | nil => simp only [List.nil_append, linCoef]; grind
  | cons t ts ih => rw [List.cons_append, linCoef_cons, linCoef_cons k t ts, ih]; grind

theorem linCoef_quads {β : Type} (k : α) (l : List β) (f g : β → α) (c : β → Rat) :
    linCoef k (l.map (fun b => PTerm.quad (f b) (g b) (c b))) = 0 := by
  induction l with
  | nil => rfl
  | cons b r ih => simp only [List.map_cons, linCoef, ih]

end setlin

theorem iv_inj (a b : Nat) : iv a = iv b ↔ a = b := by
  unfold iv; constructor
  · intro h; injection h with h; omega
  · intro h; rw [h]

theorem linCoef_acRows (hf : Nat) (h : 2 ≤ hf) (l : List Nat) :
    linCoef (iv 1) (l.flatMap (acCliqueRow hf)) = (l.count 1 : Rat) := by
  induction l with
  | nil => rfl
  | cons n r ih =>
    simp only [List.flatMap_cons, linCoef_append, ih, acCliqueRow, linCoef_quads, linCoef, iv_inj, List.count_cons]
    have h2 : ¬ (n + hf = 1) := by omega
    by_cases h1 : n = 1
    · simp only [h1, h2, if_true, if_false, beq_self_eq_true]; grind
    · have : (n == 1) = false := by simp [h1]
      simp only [h1, h2, this, if_false]; grind

theorem count_one_range (hf : Nat) : (List.range hf).count 1 = if 2 ≤ hf then 1 else 0 := by
  induction hf with
  | zero => rfl
  | succ k ih =>
    rw [List.range_succ, List.count_append, ih]
    by_cases hk : k = 1
    · subst hk; rfl
    · have : List.count 1 [k] = 0 := by simp [List.count_cons, hk]
      rw [this]; split <;> split <;> omega

/-! ## chimera anticluster: magnitudes of the couplers -/

theorem pm_draw (draws : List Nat) (i : Nat) : pm draws i = 1 ∨ pm draws i = -1 := by
  unfold pm; split <;> simp

/-! ## MIMO -/

/-- `Σ_{i < n} f i` -/
def sumN : Nat → (Nat → Rat) → Rat
  | 0, _ => 0
  | n + 1, f => sumN n f + f n

theorem sumN_zero (n : Nat) (f : Nat → Rat) (h : ∀ i, f i = 0) : sumN n f = 0 := by
  induction n with
  | zero => rfl
  | succ k ih => simp only [sumN, ih, h]; grind

theorem sumN_congr (n : Nat) (f g : Nat → Rat) (h : ∀ i, i < n → f i = g i) : sumN n f = sumN n g := by
  induction n with
  | zero => rfl
  | succ k ih => simp only [sumN]; rw [ih (fun i hi => h i (by omega)), h k (by omega)]

theorem sumN_add (n : Nat) (f g : Nat → Rat) : sumN n (fun i => f i + g i) = sumN n f + sumN n g := by
  induction n with
  | zero => simp only [sumN]; grind
  | succ k ih => simp only [sumN, ih]; grind

theorem sumN_mul (n : Nat) (c : Rat) (f : Nat → Rat) : sumN n (fun i => c * f i) = c * sumN n f := by
  induction n with
  | zero => simp only [sumN]; grind
  | succ k ih => simp only [sumN, ih]; grind

theorem evalBag_rangeMap (x : Label → Rat) (n : Nat) (f : Nat → PTerm Label) :
    evalBag x ((List.range n).map f) = sumN n (fun i => (f i).eval x) := by
  induction n with
  | zero => rfl
  | succ k ih => rw [List.range_succ, List.map_append, evalBag_append, ih]; simp only [List.map_cons, List.map_nil, evalBag, sumN]; grind

theorem evalBag_rangeFlatMap (x : Label → Rat) (n : Nat) (g : Nat → List (PTerm Label)) :
    evalBag x ((List.range n).flatMap g) = sumN n (fun i => evalBag x (g i)) := by
  induction n with
  | zero => rfl
  | succ k ih => rw [List.range_succ, List.flatMap_append, evalBag_append, ih]; simp only [List.flatMap_cons, List.flatMap_nil, List.append_nil, sumN]

/-- value of row `i` of the dense add: the zero test does not change the value -/
theorem denseRow_eval (x : Label → Rat) (nt : Nat) (J : Nat → Nat → Rat) (i : Nat) :
    evalBag x (denseRow nt J i)
      = J i i * (x (iv i) * x (iv i)) + sumN (nt - (i + 1)) (fun k => (J i (i + 1 + k) + J (i + 1 + k) i) * (x (iv i) * x (iv (i + 1 + k)))) := by
  unfold denseRow
  simp only [evalBag, PTerm.eval, evalBag_rangeFlatMap]
  congr 1
  apply sumN_congr
  intro k _
  split
  · rename_i h; simp only [evalBag, h]; grind
  · simp only [evalBag, PTerm.eval]; grind

/-- `(Σ_{i<n} a i)² = Σ_{i<n} (a i² + Σ_{k < n−(i+1)} 2·a i·a (i+1+k))` -/
theorem sq_sumN (n : Nat) (a : Nat → Rat) :
    sumN n a * sumN n a = sumN n (fun i => a i * a i + sumN (n - (i + 1)) (fun k => 2 * (a i * a (i + 1 + k)))) := by
  induction n with
  | zero => simp only [sumN]; grind
  | succ m ih =>
    simp only [sumN]
    have hrow : sumN m (fun i => a i * a i + sumN (m + 1 - (i + 1)) (fun k => 2 * (a i * a (i + 1 + k))))
        = sumN m (fun i => (a i * a i + sumN (m - (i + 1)) (fun k => 2 * (a i * a (i + 1 + k)))) + 2 * (a i * a m)) := by
      apply sumN_congr
      intro i hi
      have h1 : m + 1 - (i + 1) = (m - (i + 1)) + 1 := by omega
      have h2 : i + 1 + (m - (i + 1)) = m := by omega
      rw [h1]; simp only [sumN, h2]; grind
    have hz : m + 1 - (m + 1) = 0 := by omega
    rw [hrow, sumN_add, ← ih, hz]
    have : sumN m (fun i => 2 * (a i * a m)) = 2 * a m * sumN m a := by
      rw [← sumN_mul]; apply sumN_congr; intro i _; grind
    rw [this]; simp only [sumN]; grind

/-- `Σ_r (y_r − Σ_i F_ri x_i)²` -/
def residual (x : Label → Rat) (nt : Nat) : List Rat → List (List Rat) → Rat
  | y0 :: y, row :: F => (y0 - sumN nt (fun i => row.getD i 0 * x (iv i))) * (y0 - sumN nt (fun i => row.getD i 0 * x (iv i))) + residual x nt y F
  | _, _ => 0

/-- the value of the model as three sums -/
def mimoVal (x : Label → Rat) (nt : Nat) (y : List Rat) (F : List (List Rat)) : Rat :=
  sumN nt (fun i => (-2 * dot (col F i) y) * x (iv i))
  + sumN nt (fun i => gram F i i * (x (iv i) * x (iv i))
      + sumN (nt - (i + 1)) (fun k => (gram F i (i + 1 + k) + gram F (i + 1 + k) i) * (x (iv i) * x (iv (i + 1 + k)))))
  + dot y y

theorem mimoVal_residual (x : Label → Rat) (nt : Nat) : ∀ (y : List Rat) (F : List (List Rat)), F.length = y.length →
    mimoVal x nt y F = residual x nt y F := by
  intro y F
  induction F generalizing y with
  | nil =>
    intro h
    cases y with
    | nil =>
      simp only [mimoVal, residual, col, gram, List.map_nil, dot]
      have h1 : sumN nt (fun i => (-2 * (0 : Rat)) * x (iv i)) = 0 := sumN_zero _ _ (fun i => by grind)
      have h3 : sumN nt (fun i => (0 : Rat) * (x (iv i) * x (iv i))
          + sumN (nt - (i + 1)) (fun k => ((0 : Rat) + 0) * (x (iv i) * x (iv (i + 1 + k))))) = 0 := by
        apply sumN_zero; intro i
        rw [sumN_zero _ _ (fun k => by grind)]; grind
      rw [h1, h3]; grind
    | cons y0 y => simp at h
  | cons row F ih =>
    intro h
    cases y with
    | nil => simp at h
    | cons y0 y =>
      have hlen : F.length = y.length := by simpa using h
      have ih' := ih y hlen
      simp only [residual, ← ih']
      simp only [mimoVal, col, gram, List.map_cons, dot]
      have hsq := sq_sumN nt (fun i => row.getD i 0 * x (iv i))
      -- split each sum into the contribution of the first row and the rest
      have e1 : sumN nt (fun i => (-2 * (row.getD i 0 * y0 + dot (List.map (fun row => row.getD i 0) F) y)) * x (iv i))
          = -2 * y0 * sumN nt (fun i => row.getD i 0 * x (iv i)) + sumN nt (fun i => (-2 * dot (List.map (fun row => row.getD i 0) F) y) * x (iv i)) := by
        rw [← sumN_mul, ← sumN_add]; apply sumN_congr; intro i _; grind
      have e2 : sumN nt (fun i => (row.getD i 0 * row.getD i 0 + dot (List.map (fun row => row.getD i 0) F) (List.map (fun row => row.getD i 0) F)) * (x (iv i) * x (iv i))
            + sumN (nt - (i + 1)) (fun k =>
                (row.getD i 0 * row.getD (i + 1 + k) 0 + dot (List.map (fun row => row.getD i 0) F) (List.map (fun row => row.getD (i + 1 + k) 0) F)
                 + (row.getD (i + 1 + k) 0 * row.getD i 0 + dot (List.map (fun row => row.getD (i + 1 + k) 0) F) (List.map (fun row => row.getD i 0) F)))
                * (x (iv i) * x (iv (i + 1 + k)))))
          = sumN nt (fun i => (row.getD i 0 * x (iv i)) * (row.getD i 0 * x (iv i))
                + sumN (nt - (i + 1)) (fun k => 2 * ((row.getD i 0 * x (iv i)) * (row.getD (i + 1 + k) 0 * x (iv (i + 1 + k))))))
            + sumN nt (fun i => dot (List.map (fun row => row.getD i 0) F) (List.map (fun row => row.getD i 0) F) * (x (iv i) * x (iv i))
                + sumN (nt - (i + 1)) (fun k =>
                    (dot (List.map (fun row => row.getD i 0) F) (List.map (fun row => row.getD (i + 1 + k) 0) F)
                     + dot (List.map (fun row => row.getD (i + 1 + k) 0) F) (List.map (fun row => row.getD i 0) F))
                    * (x (iv i) * x (iv (i + 1 + k))))) := by
        rw [← sumN_add]; apply sumN_congr; intro i _
        have : sumN (nt - (i + 1)) (fun k =>
                (row.getD i 0 * row.getD (i + 1 + k) 0 + dot (List.map (fun row => row.getD i 0) F) (List.map (fun row => row.getD (i + 1 + k) 0) F)
                 + (row.getD (i + 1 + k) 0 * row.getD i 0 + dot (List.map (fun row => row.getD (i + 1 + k) 0) F) (List.map (fun row => row.getD i 0) F)))
                * (x (iv i) * x (iv (i + 1 + k))))
            = sumN (nt - (i + 1)) (fun k => 2 * ((row.getD i 0 * x (iv i)) * (row.getD (i + 1 + k) 0 * x (iv (i + 1 + k)))))
              + sumN (nt - (i + 1)) (fun k =>
                    (dot (List.map (fun row => row.getD i 0) F) (List.map (fun row => row.getD (i + 1 + k) 0) F)
                     + dot (List.map (fun row => row.getD (i + 1 + k) 0) F) (List.map (fun row => row.getD i 0) F))
                    * (x (iv i) * x (iv (i + 1 + k)))) := by
          rw [← sumN_add]; apply sumN_congr; intro k _; grind
        rw [this]; grind
      rw [e1, e2, ← hsq]; grind

theorem sumN_shift (n : Nat) (f : Nat → Rat) : sumN (n + 1) f = f 0 + sumN n (fun i => f (i + 1)) := by
  induction n with
  | zero => simp only [sumN]; grind
  | succ k ih => rw [sumN, ih]; simp only [sumN]; grind

theorem dot_eq_sumN : ∀ (a b : List Rat), dot a b = sumN b.length (fun i => a.getD i 0 * b.getD i 0) := by
  intro a b
  induction b generalizing a with
  | nil => cases a <;> simp [dot, sumN]
  | cons y ys ih =>
    cases a with
    | nil =>
      simp only [dot, List.length_cons]
      rw [sumN_zero]; intro i; simp
    | cons x xs =>
      simp only [dot, List.length_cons, sumN_shift, ih xs]
      simp only [List.getD_cons_zero, List.getD_cons_succ]

/-- **no noise: the transmitted symbols have energy 0** (`y = F·v`, sample `x = v`) -/
theorem residual_transmitted (x : Label → Rat) (nt : Nat) (v : List Rat) (hv : v.length = nt) (hx : ∀ i, i < nt → x (iv i) = v.getD i 0) :
    ∀ F : List (List Rat), residual x nt (matVec F v) F = 0 := by
  intro F
  induction F with
  | nil => simp [matVec, residual]
  | cons row F ih =>
    simp only [matVec, List.map_cons, residual] at ih ⊢
    rw [ih, dot_eq_sumN, hv]
    have : sumN nt (fun i => row.getD i 0 * x (iv i)) = sumN nt (fun i => row.getD i 0 * v.getD i 0) :=
      sumN_congr _ _ _ (fun i hi => by rw [hx i hi])
    rw [this]; grind

/-! ## anti-crossing loops: the coefficients after the `set_quadratic` / `add_linear` / `set_linear` calls -/

/-- the same unordered pair -/
def samePair (u v u' v' : Label) : Bool := (decide (u = u') && decide (v = v')) || (decide (u = v') && decide (v = u'))

theorem lookupPair_setPair (m : List ((Label × Label) × Rat)) (u v u' v' : Label) (c : Rat) :
    Bq.lookupPair (Bq.setPair m u v c) u' v' = if samePair u v u' v' = true then c else Bq.lookupPair m u' v' := by
  induction m with
  | nil =>
    simp only [Bq.setPair, Bq.lookupPair, samePair, Bool.or_eq_true, Bool.and_eq_true, decide_eq_true_eq]
  | cons e m ih =>
    rcases e with ⟨⟨a, b⟩, c'⟩
    simp only [Bq.setPair, samePair, Bool.or_eq_true, Bool.and_eq_true, decide_eq_true_eq] at ih ⊢
    split
    · simp only [Bq.lookupPair]; split <;> split <;> grind
    · simp only [Bq.lookupPair, ih]; split <;> split <;> grind

/-- the pairs written by `set_quadratic`, in order -/
def pairsOf : List SetOp → List (Label × Label)
  | [] => []
  | .setQuad u v _ :: os => (u, v) :: pairsOf os
  | _ :: os => pairsOf os

/-- only `set_quadratic(u, v, -1)` with `u ≠ v`, `add_linear`, `set_linear` -/
def NegSets : List SetOp → Prop
  | [] => True
  | .setQuad u v c :: os => u ≠ v ∧ c = -1 ∧ NegSets os
  | .addQuad _ _ _ :: _ => False
  | _ :: os => NegSets os

theorem lookupPair_runOps (ops : List SetOp) (h : NegSets ops) (u' v' : Label) : ∀ b : Bq Label,
    Bq.lookupPair (runOps b ops).quad u' v'
      = if (pairsOf ops).any (fun p => samePair p.1 p.2 u' v') = true then -1 else Bq.lookupPair b.quad u' v' := by
  induction ops with
  | nil => intro b; simp [runOps, pairsOf]
  | cons o os ih =>
    intro b
    cases o with
    | addQuad u v c => simp [NegSets] at h
    | setQuad u v c =>
      simp only [NegSets] at h
      obtain ⟨hne, hc, hos⟩ := h
      subst hc
      simp only [runOps, pairsOf, List.any_cons, Bool.or_eq_true]
      rw [ih hos]
      simp only [SetOp.run, Bq.setQuadratic, hne, if_false, lookupPair_setPair]
      split <;> split <;> simp_all
    | addLin v c => simp only [NegSets] at h; simp only [runOps, pairsOf]; rw [ih h]; rfl
    | setLin v c => simp only [NegSets] at h; simp only [runOps, pairsOf]; rw [ih h]; rfl

theorem lookupKey_setKey (m : List (Label × Rat)) (k k' : Label) (c : Rat) :
    Bq.lookupKey (Bq.setKey m k c) k' = if k = k' then c else Bq.lookupKey m k' := by
  induction m with
  | nil => simp only [Bq.setKey, Bq.lookupKey]
  | cons e m ih =>
    rcases e with ⟨a, ca⟩
    simp only [Bq.setKey]
    split
    · simp only [Bq.lookupKey]; grind
    · simp only [Bq.lookupKey, ih]; grind

/-- the linear bias the `add_linear` calls add to `k` -/
def linAdd (k : Label) : List SetOp → Rat
  | [] => 0
  | .addLin v c :: os => (if v = k then c else 0) + linAdd k os
  | _ :: os => linAdd k os

/-- no `set_linear`, no `add_quadratic`, `set_quadratic` only between different variables -/
def NoSetLin : List SetOp → Prop
  | [] => True
  | .setLin _ _ :: _ => False
  | .addQuad _ _ _ :: _ => False
  | .setQuad u v _ :: os => u ≠ v ∧ NoSetLin os
  | _ :: os => NoSetLin os

theorem lookupKey_runOps (ops : List SetOp) (h : NoSetLin ops) (k : Label) : ∀ b : Bq Label,
    Bq.lookupKey (runOps b ops).lin k = Bq.lookupKey b.lin k + linAdd k ops := by
  induction ops with
  | nil => intro b; simp only [runOps, linAdd]; grind
  | cons o os ih =>
    intro b
    cases o with
    | addQuad u v c => simp [NoSetLin] at h
    | setLin v c => simp [NoSetLin] at h
    | setQuad u v c =>
      simp only [NoSetLin] at h
      simp only [runOps, linAdd]; rw [ih h.2]
      simp only [SetOp.run, Bq.setQuadratic, h.1, if_false, Bq.addLinear, lookup_addKey]; split <;> split <;> grind
    | addLin v c =>
      simp only [NoSetLin] at h
      simp only [runOps, linAdd]; rw [ih h]
      simp only [SetOp.run, Bq.addLinear, lookup_addKey]; grind

theorem runOps_append (a b : List SetOp) : ∀ s : Bq Label, runOps s (a ++ b) = runOps (runOps s a) b := by
  induction a with
  | nil => intro s; rfl
  | cons o os ih => intro s; simp only [List.cons_append, runOps, ih]

theorem linAdd_append (k : Label) (a b : List SetOp) : linAdd k (a ++ b) = linAdd k a + linAdd k b := by
  induction a with
  | nil => simp only [List.nil_append, linAdd]; grind
  | cons o os ih => cases o <;> simp only [List.cons_append, linAdd, ih] <;> grind

theorem linAdd_rangeFlatMap (k : Label) (n : Nat) (g : Nat → List SetOp) :
    linAdd k ((List.range n).flatMap g) = sumN n (fun i => linAdd k (g i)) := by
  induction n with
  | zero => rfl
  | succ m ih => rw [List.range_succ, List.flatMap_append, linAdd_append, ih]; simp only [List.flatMap_cons, List.flatMap_nil, List.append_nil, sumN]

theorem sumN_indicator (N a k : Nat) :
    sumN N (fun n => if n + a = k then (1 : Rat) else 0) = if a ≤ k ∧ k < a + N then 1 else 0 := by
  induction N with
  | zero => simp only [sumN]; split <;> first | omega | rfl
  | succ m ih =>
    simp only [sumN, ih]
    by_cases h1 : m + a = k
    · have : ¬ (a ≤ k ∧ k < a + m) := by omega
      have h2 : (a ≤ k ∧ k < a + (m + 1)) := by omega
      simp only [h1, this, h2, if_true, if_false, and_self]; grind
    · by_cases h2 : a ≤ k ∧ k < a + m
      · have : (a ≤ k ∧ k < a + (m + 1)) := by omega
        simp only [h1, h2, this, if_true, if_false, and_self]; grind
      · have : ¬ (a ≤ k ∧ k < a + (m + 1)) := by omega
        simp only [h1, h2, this, if_false]; grind

theorem NegSets_append (a b : List SetOp) (ha : NegSets a) (hb : NegSets b) : NegSets (a ++ b) := by
  induction a with
  | nil => exact hb
  | cons o os ih => cases o <;> simp only [List.cons_append, NegSets] at ha ⊢ <;> first | exact ih ha | exact ⟨ha.1, ha.2.1, ih ha.2.2⟩ | exact ha

theorem NoSetLin_append (a b : List SetOp) (ha : NoSetLin a) (hb : NoSetLin b) : NoSetLin (a ++ b) := by
  induction a with
  | nil => exact hb
  | cons o os ih => cases o <;> simp only [List.cons_append, NoSetLin] at ha ⊢ <;> first | exact ih ha | exact ⟨ha.1, ih ha.2⟩ | exact ha

theorem acLoopsRows_ok (hf : Nat) (h : 2 ≤ hf) (l : List Nat) (hl : ∀ n ∈ l, n < hf) :
    NegSets (l.flatMap (acLoopsRow hf)) ∧ NoSetLin (l.flatMap (acLoopsRow hf)) := by
  induction l with
  | nil => exact ⟨trivial, trivial⟩
  | cons n r ih =>
    have ih' := ih (fun m hm => hl m (List.mem_cons_of_mem _ hm))
    have hn := hl n List.mem_cons_self
    have hmod : (n + 1) % hf < hf := Nat.mod_lt _ (by omega)
    have hne : (n + 1) % hf ≠ n := by
      by_cases hlast : n + 1 = hf
      · rw [hlast, Nat.mod_self]; omega
      · rw [Nat.mod_eq_of_lt (by omega)]; omega
    have row : NegSets (acLoopsRow hf n) ∧ NoSetLin (acLoopsRow hf n) := by
      unfold acLoopsRow
      by_cases hodd : n % 2 = 1
      · simp only [hodd, if_true, List.cons_append, List.nil_append, NegSets, NoSetLin, iv_inj, ne_eq]
        refine ⟨?_, ?_⟩ <;> (repeat' constructor) <;> first | trivial | omega
      · simp only [hodd, if_false, List.nil_append, NegSets, NoSetLin, iv_inj, ne_eq]
        refine ⟨?_, ?_⟩ <;> (repeat' constructor) <;> first | trivial | omega
    simp only [List.flatMap_cons]
    exact ⟨NegSets_append _ _ row.1 ih'.1, NoSetLin_append _ _ row.2 ih'.2⟩

theorem linAdd_acLoopsRow (hf n k : Nat) :
    linAdd (iv k) (acLoopsRow hf n)
      = (if n + 0 = k then (1 : Rat) else 0) + (if n + hf = k then 1 else 0)
        + (-1) * (if n + 2 * hf = k then 1 else 0) + (-1) * (if n + 3 * hf = k then 1 else 0) := by
  unfold acLoopsRow
  split <;> simp only [List.cons_append, List.nil_append, linAdd, iv_inj, Nat.add_zero] <;> (repeat' split) <;> grind

theorem pairsOf_append (a b : List SetOp) : pairsOf (a ++ b) = pairsOf a ++ pairsOf b := by
  induction a with
  | nil => rfl
  | cons o os ih => cases o <;> simp only [List.cons_append, pairsOf, ih]

theorem pairsOf_flatMap (l : List Nat) (g : Nat → List SetOp) : pairsOf (l.flatMap g) = l.flatMap (fun n => pairsOf (g n)) := by
  induction l with
  | nil => rfl
  | cons n r ih => simp only [List.flatMap_cons, pairsOf_append, ih]

theorem pairsOf_acLoopsRow (hf n : Nat) :
    pairsOf (acLoopsRow hf n)
      = (if n % 2 = 1 then [(iv n, iv (n + hf))] else [])
        ++ [(iv n, iv ((n + 1) % hf)), (iv (n + hf), iv ((n + 1) % hf + hf)), (iv n, iv (n + 2 * hf)), (iv (n + hf), iv (n + 3 * hf))] := by
  unfold acLoopsRow; split <;> rfl

/-! ## anti-crossing clique: the ground state is unique -/

/-- a member of the list whose product with `u` is `−1` costs 2 -/
theorem evalBag_negPairs_strict (x : Label → Rat) (hx : ∀ v, x v = 1 ∨ x v = -1) (u : Label) (f : Nat → Label) (l : List Nat)
    (k : Nat) (hk : k ∈ l) (hneg : x u * x (f k) = -1) :
    - (l.length : Rat) + 2 ≤ evalBag x (l.map (fun k => PTerm.quad u (f k) (-1))) := by
  induction l with
  | nil => simp at hk
  | cons a r ih =>
    have hcast : (((r.length + 1 : Nat)) : Rat) = (r.length : Rat) + 1 := by grind
    simp only [List.map_cons, evalBag, PTerm.eval, List.length_cons, hcast]
    rcases List.mem_cons.mp hk with rfl | hk'
    · have := (evalBag_negPairs x hx u f r).1
      rw [hneg]; grind
    · have := ih hk'
      have := pm_le _ (pm_mul _ _ (hx u) (hx (f a)))
      grind

/-- row `n` when the pair `(n, m)`, `n < m < hf`, is unsatisfied: at least 2 above its value at all-(+1) -/
theorem acCliqueRow_pair_gap (x : Label → Rat) (hx : ∀ v, x v = 1 ∨ x v = -1) (hf n m : Nat) (hnm : n < m) (hm : m < hf)
    (hneg : x (iv n) * x (iv m) = -1) :
    evalBag (fun _ => (1 : Rat)) (acCliqueRow hf n) + 2 ≤ evalBag x (acCliqueRow hf n) := by
  unfold acCliqueRow
  have hmem : (m - (n + 1)) ∈ List.range (hf - (n + 1)) := List.mem_range.mpr (by omega)
  have he : n + 1 + (m - (n + 1)) = m := by omega
  have h := evalBag_negPairs_strict x hx (iv n) (fun k => iv (n + 1 + k)) (List.range (hf - (n + 1))) (m - (n + 1)) hmem (by simp only [he]; exact hneg)
  have h1 := (evalBag_negPairs x hx (iv n) (fun k => iv (n + 1 + k)) (List.range (hf - (n + 1)))).2
  simp only [evalBag_append, evalBag, PTerm.eval]
  rw [h1]
  rcases hx (iv n) with h2 | h2 <;> rcases hx (iv (n + hf)) with h3 | h3 <;> rw [h2, h3] <;> grind

/-- row `n` when `x n = +1` and the attached variable is `−1`: 4 above -/
theorem acCliqueRow_pendant_gap (x : Label → Rat) (hx : ∀ v, x v = 1 ∨ x v = -1) (hf n : Nat)
    (h1 : x (iv n) = 1) (h2 : x (iv (n + hf)) = -1) :
    evalBag (fun _ => (1 : Rat)) (acCliqueRow hf n) + 2 ≤ evalBag x (acCliqueRow hf n) := by
  unfold acCliqueRow
  have h := evalBag_negPairs x hx (iv n) (fun k => iv (n + 1 + k)) (List.range (hf - (n + 1)))
  simp only [evalBag_append, evalBag, PTerm.eval]
  rw [h.2, h1, h2]; grind

/-- a gap in one row is a gap of the whole model -/
theorem acCliqueAdds_gap (x : Label → Rat) (hx : ∀ v, x v = 1 ∨ x v = -1) (hf : Nat) (l : List Nat) (n : Nat) (hn : n ∈ l)
    (hgap : evalBag (fun _ => (1 : Rat)) (acCliqueRow hf n) + 2 ≤ evalBag x (acCliqueRow hf n)) :
    evalBag (fun _ => (1 : Rat)) (l.flatMap (acCliqueRow hf)) + 2 ≤ evalBag x (l.flatMap (acCliqueRow hf)) := by
  induction l with
  | nil => simp at hn
  | cons a r ih =>
    simp only [List.flatMap_cons, evalBag_append]
    rcases List.mem_cons.mp hn with rfl | hn'
    · have := acCliqueAdds_bound x hx hf r; grind
    · have := ih hn'
      have := acCliqueRow_bound x hx hf a
      grind

/-! ## chimera: the tile edges -/

theorem mem_rangeStep (a b s x : Nat) (hs : 0 < s) : x ∈ rangeStep a b s ↔ ∃ q, x = a + s * q ∧ a + s * q < b := by
  unfold rangeStep
  simp only [List.mem_map, List.mem_range]
  have key : ∀ q, q < (b - a + s - 1) / s ↔ a + s * q < b := by
    intro q
    rw [Nat.lt_div_iff_mul_lt hs]
    have : q * s = s * q := Nat.mul_comm q s
    omega
  constructor
  · rintro ⟨q, hq, rfl⟩; exact ⟨q, rfl, (key q).mp hq⟩
  · rintro ⟨q, rfl, hq⟩; exact ⟨q, (key q).mpr hq, rfl⟩

theorem mul_lt_iff (s q n : Nat) (hs : 0 < s) : s * q < n * s ↔ q < n := by
  rw [Nat.mul_comm n s]; exact Nat.mul_lt_mul_left hs

theorem offset_lt_iff (i V q m : Nat) (hi : i < V) : i + V * q < m * V ↔ q < m := by
  rw [Nat.mul_comm m V]
  constructor
  · intro h
    apply Classical.byContradiction
    intro hq
    have : V * m ≤ V * q := Nat.mul_le_mul_left V (by omega)
    omega
  · intro h
    have h1 : V * (q + 1) ≤ V * m := Nat.mul_le_mul_left V (by omega)
    have h2 : V * (q + 1) = V * q + V := Nat.mul_succ V q
    omega

theorem offset_lt_sub_iff (i V q n : Nat) (hi : i < V) : i + V * q < n * V - V ↔ q + 1 < n := by
  have h2 : V * (q + 1) = V * q + V := Nat.mul_succ V q
  have key := offset_lt_iff i V (q + 1) n hi
  constructor
  · intro h; apply key.mp; omega
  · intro h; have := key.mpr h; omega

end Gen
