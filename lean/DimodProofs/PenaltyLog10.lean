import DimodProofs.Slack
import DimodModel.PenaltyLog10

/-! Proofs for `DimodModel/PenaltyLog10.lean`: `clog10 S` IS the number of decimal digits of `S ≥ 1`; with fewer digit
    variables than that the slack cannot reach `S` (every reachable value is `< 10^n`). -/

namespace Pen
open Generated.SlackRule

theorem decDigits_pos (S : Nat) : 1 ≤ decDigits S := by
  unfold decDigits; split <;> omega

/-- `10^(d-1) ≤ S < 10^d` for `d = decDigits S`, `S ≥ 1` -/
theorem decDigits_spec (S : Nat) (h : 1 ≤ S) : 10 ^ (decDigits S - 1) ≤ S ∧ S < 10 ^ decDigits S := by
  induction S using Nat.strongRecOn with
  | _ S ih =>
    unfold decDigits
    split
    · simp; omega
    · rename_i h10
      have hq : 1 ≤ S / 10 := by omega
      have hlt : S / 10 < S := by omega
      obtain ⟨h1, h2⟩ := ih (S / 10) hlt hq
      have hp := decDigits_pos (S / 10)
      have e : decDigits (S / 10) + 1 - 1 = (decDigits (S / 10) - 1) + 1 := by omega
      rw [e, Nat.pow_succ, Nat.pow_succ]
      constructor <;> omega

theorem clog10_go_min (S : Nat) (fuel k p : Nat) (hp : p = 10 ^ k) (hprev : k = 0 ∨ 10 ^ (k - 1) < S + 1) :
    clog10.go S fuel k p = 0 ∨ 10 ^ (clog10.go S fuel k p - 1) < S + 1 := by
  induction fuel generalizing k p with
  | zero => simp only [clog10.go]; exact hprev
  | succ f ih =>
    simp only [clog10.go]
    split
    · exact hprev
    · rename_i hn
      apply ih (k + 1) (p * 10) (by rw [hp, Nat.pow_succ])
      right; simp only [Nat.add_sub_cancel]; rw [← hp]; omega

/-- `clog10 S` digits are needed: `10^(clog10 S − 1) ≤ S` -/
theorem clog10_min (S : Nat) : clog10 S = 0 ∨ 10 ^ (clog10 S - 1) < S + 1 := by
  unfold clog10
  exact clog10_go_min S (S + 1) 0 1 rfl (Or.inl rfl)

theorem decDigits_unique (S a b : Nat) (ha : 10 ^ (a - 1) ≤ S ∧ S < 10 ^ a) (hb : 10 ^ (b - 1) ≤ S ∧ S < 10 ^ b) (ha1 : 1 ≤ a) (hb1 : 1 ≤ b) : a = b := by
  rcases Nat.lt_trichotomy a b with h | h | h
  · have : 10 ^ a ≤ 10 ^ (b - 1) := Nat.pow_le_pow_right (by omega) (by omega)
    omega
  · exact h
  · have : 10 ^ b ≤ 10 ^ (a - 1) := Nat.pow_le_pow_right (by omega) (by omega)
    omega

/-- the model's `clog10` (smallest `k` with `S + 1 ≤ 10^k`) is `len(str(S))` -/
theorem clog10_eq_decDigits (S : Nat) (h : 1 ≤ S) : clog10 S = decDigits S := by
  have hs := clog10_spec S
  have hm := clog10_min S
  have h1 : 1 ≤ clog10 S := by
    rcases Nat.eq_zero_or_pos (clog10 S) with h0 | h0
    · rw [h0] at hs; simp at hs; omega
    · exact h0
  apply decDigits_unique S _ _ ⟨by rcases hm with hm | hm <;> omega, by omega⟩ (decDigits_spec S h) h1 (decDigits_pos S)

theorem slackLog10By_eq_digs (n S : Nat) : slackLog10By n S = digs S 0 n := by
  simp [slackLog10By, digs, List.range_eq_range']

/-- every value the digit variables of positions `j … j+len-1` can take is at most `10^(j+len) − 10^j` -/
theorem log10_digs_bound (S len j t : Nat) (h : RepsOH (digs S j len) t) : t + 10 ^ j ≤ 10 ^ (j + len) := by
  induction len generalizing j t with
  | zero =>
    simp only [digs, List.range'_zero, List.map_nil, RepsOH] at h
    rw [h]; simp
  | succ len ih =>
    simp only [digs, List.range'_succ, List.map_cons, RepsOH] at h
    obtain ⟨a, ha, r, hr, rfl⟩ := h
    have hr' := ih (j + 1) r hr
    have e : j + 1 + len = j + (len + 1) := by omega
    rw [e] at hr'
    have hQ : 10 ^ (j + 1) = 10 ^ j * 10 := Nat.pow_succ ..
    have hP : 0 < 10 ^ j := Nat.pow_pos (by omega)
    have ha9 : a ≤ 9 * 10 ^ j := by
      rcases ha with ha | ha
      · omega
      · rw [mem_rangeStepTail] at ha
        obtain ⟨hlt, hmod, _⟩ := ha
        have hlt' : a < 10 ^ (j + 1) := by omega
        have hd := Nat.div_add_mod a (10 ^ j)
        rw [hmod] at hd
        have hq : a / 10 ^ j < 10 := by
          apply Nat.div_lt_of_lt_mul; rw [hQ] at hlt'; exact hlt'
        have : 10 ^ j * (a / 10 ^ j) ≤ 10 ^ j * 9 := Nat.mul_le_mul_left _ (by omega)
        omega
    omega

/-- with `n` digit variables every reachable slack value is `< 10^n` -/
theorem slackLog10By_lt (n S t : Nat) (h : RepsOH (slackLog10By n S) t) : t < 10 ^ n := by
  rw [slackLog10By_eq_digs] at h
  have := log10_digs_bound S n 0 t h
  simp at this; omega

theorem slackLog10Dqm_eq (fl : Nat → Nat) (S : Nat) (h : 1 ≤ S) (hr : dqmNumDigits = .decimalDigits) : slackLog10Dqm fl S = slackLog10 S := by
  simp only [slackLog10Dqm, numDigitsBy, hr, slackLog10By, slackLog10, clog10_eq_decDigits S h]

end Pen
