import DimodProofs.CqmLiftModel

/-! More of `cqm_step_refines` (property C05) on label-keyed polynomials: soft constraints from iterables, what `set_weight`
    accepts, the bounds setters, `spin_to_binary`, and `remove_constraint(cascade=True)`. -/

namespace CqmP
open Expr Cqm

/-! ### soft constraints from an iterable -/

/-- **`add_constraint(iterable, sense, rhs, label, weight, penalty)`** when it returns: the label was new, the weight and
    penalty are acceptable for the sum of the terms (`LCqm.weightOK`), and there is one more constraint at the end: that
    polynomial, sense, rhs, weight and penalty type; nothing else changed -/
theorem refines_addConstraintTermsW {m m' : Cqm} (hwf : CqmWF m) (hl : CqmLabelsOK m) (ts : List Term) (sense : Sense) (rhs : Rat)
    (label : Label) (weight : Option Rat) (pen : Nat)
    (h : m.step (.addConstraintTerms ts sense rhs label weight pen) = (m', none)) :
    label ∉ m.clabels
    ∧ (weight = none ∨ (absCqm m).weightOK (ts.foldl (LPoly.addTerm (absCqm m).vtOf) LPoly.empty) weight pen)
    ∧ absCqm m' = { absCqm m with cons := (absCqm m).cons ++
        [(label, { LCons.hard (ts.foldl (LPoly.addTerm (absCqm m).vtOf) LPoly.empty) sense rhs with
                    weight := weight, quadPenalty := weight.isSome && decide (pen = 1) })] } := by
  have h' : m.addConstraintTerms ts sense rhs label weight pen = (m', none) := h
  unfold Cqm.addConstraintTerms at h'
  by_cases hlab : label ∈ m.clabels
  · rw [if_pos hlab] at h'; cases (Prod.mk.inj h').2
  · rw [if_neg hlab] at h'
    cases hr : m.addTerms ts {} with
    | mk e r =>
      rw [hr] at h'
      cases r with
      | some c => simp only [] at h'; cases (Prod.mk.inj h').2
      | none =>
        simp only [] at h'
        have hw := addTerms_wf hwf ts {} exprWF_empty (by intro g hg; cases hg)
        rw [hr] at hw
        have he := absExpr_addTerms hwf hl ts {} exprWF_empty exprSorted_empty (by intro g hg; cases hg) (by rw [hr])
        rw [hr] at he
        simp only [] at he
        rw [absExpr_empty] at he
        obtain ⟨p1, p2, _⟩ := pushCons_spec hwf hl.labels_nodup hw.1 hw.2 sense rhs label weight pen
        rw [he] at p1 p2
        have hok : (m.pushCons e sense rhs label weight pen).2 = none := by rw [h']
        refine ⟨hlab, p1.mp hok, ?_⟩
        rw [← p2 hok, h']

/-! ### `set_weight` through a constraint view: what is accepted -/

/-- the constraint labelled `l` -/
def LCqm.consOf (s : LCqm) (l : Label) : Option LCons := (s.cons.find? (fun p => p.1 = l)).map (·.2)

theorem find_zip_findIdx {β} (l : Label) (d : β) : ∀ (ls : List Label) (cs : List β) (s ci : Nat), findIdx l ls s = some ci →
    ls.length ≤ cs.length → (ls.zip cs).find? (fun p => p.1 = l) = some (l, cs.getD (ci - s) d) := by
  intro ls
  induction ls with
  | nil => intro cs s ci h; cases h
  | cons a t ih =>
    intro cs s ci h hlen
    cases cs with
    | nil => simp at hlen
    | cons c cs' =>
      unfold findIdx at h
      by_cases hal : a = l
      · rw [if_pos hal] at h
        cases h
        simp [hal]
      · rw [if_neg hal] at h
        have hlt := findIdx_lt h
        have hci : ci - s = (ci - (s + 1)) + 1 := by omega
        rw [hci]
        simp only [List.zip_cons_cons, List.getD_cons_succ]
        rw [List.find?_cons_of_neg (by simpa using hal)]
        exact ih cs' (s + 1) ci h (by simpa using hlen)

theorem consOf_abs {m : Cqm} (hwf : CqmWF m) {l : Label} {ci : Nat} (h : m.cidx? l = some ci) :
    (absCqm m).consOf l = some (absCons m.labels (m.cons.getD ci {})) := by
  unfold LCqm.consOf absCqm
  simp only []
  have hlt := cidx?_lt hwf h
  rw [find_zip_findIdx l (absCons m.labels {}) m.clabels (m.cons.map (absCons m.labels)) 0 ci h
    (by rw [List.length_map, hwf.clabels_len])]
  simp only [Option.map_some, Nat.sub_zero]
  rw [List.getD_eq_getElem?_getD, List.getD_eq_getElem?_getD, List.getElem?_map, List.getElem?_eq_getElem hlt]
  rfl

theorem consOf_none {m : Cqm} {l : Label} (h : m.cidx? l = none) : (absCqm m).consOf l = none := by
  unfold LCqm.consOf absCqm
  simp only []
  have hn : l ∉ m.clabels := findIdx_none_iff.mp h
  rw [Option.map_eq_none_iff, List.find?_eq_none]
  intro p hp hpl
  exact hn (by have := (List.of_mem_zip hp).1; simpa using (of_decide_eq_true hpl) ▸ this)

/-- **`cqm.constraints[l].lhs.set_weight(weight, penalty)`**: returns iff `l` labels a constraint and the weight is positive
    (or `None`) and the penalty is `'linear'`, or `'quadratic'` with every variable *of that constraint* BINARY or SPIN *in
    the model*; otherwise the model is unchanged (`KeyError` for an unknown label, `ValueError` else).  What it then
    stores is `cqm_step_refines` (`refines_viewSetWeight`). -/
theorem viewSetWeight_accepts {m : Cqm} (hwf : CqmWF m) (hl : CqmLabelsOK m) (l : Label) (weight : Option Rat) (pen : Nat) :
    ((m.step (.viewSetWeight l weight pen)).2 = none
        ↔ ∃ c, (absCqm m).consOf l = some c ∧ (absCqm m).weightOK c.p weight pen)
    ∧ ((m.step (.viewSetWeight l weight pen)).2 ≠ none → (m.step (.viewSetWeight l weight pen)).1 = m)
    ∧ ((absCqm m).consOf l = none → (m.step (.viewSetWeight l weight pen)).2 = some .index) := by
  show ((m.viewSetWeight l weight pen).2 = none ↔ _) ∧ ((m.viewSetWeight l weight pen).2 ≠ none → (m.viewSetWeight l weight pen).1 = m)
    ∧ (_ → (m.viewSetWeight l weight pen).2 = some .index)
  unfold Cqm.viewSetWeight
  cases hci : m.cidx? l with
  | none =>
    simp only []
    rw [consOf_none hci]
    exact ⟨⟨fun h => (by cases h), fun ⟨c, hc, _⟩ => (by cases hc)⟩, fun _ => trivial, fun _ => trivial⟩
  | some ci =>
    simp only []
    rw [consOf_abs hwf hci]
    have hin : ExprIn m.vt.length (m.cons.getD ci {}).e :=
      hwf.cons_lt _ (getD_mem _ _ _ (cidx?_lt hwf hci))
    obtain ⟨s1, _, s3⟩ := setWeight_spec hwf hl.labels_nodup ci hin weight pen
    refine ⟨⟨fun h => ⟨_, rfl, s1.mp h⟩, fun ⟨c, hc, hok⟩ => ?_⟩, s3, fun h => (by cases h)⟩
    cases hc
    exact s1.mpr hok


/-! ### the bounds setters -/

theorem info_of_idx {m : Cqm} {v : Label} {g : Nat} (hg : m.idx? v = some g) :
    (absCqm m).info v = some (m.vt.getD g .binary, m.lb.getD g 0, m.ub.getD g 0) := by
  unfold absCqm; simp only []
  rw [show findIdx v m.labels 0 = some g from hg]; rfl

/-- **`set_lower_bound(v, x)`** when it returns: `v` is an INTEGER or REAL variable, `x` is not below the type's minimum and
    not above the upper bound (for INTEGER: an integer still fits, ⌈x⌉ ≤ ⌊ub⌋); only the lower bound of `v` changes -/
theorem refines_setLowerBound {m m' : Cqm} (hwf : CqmWF m) (hl : CqmLabelsOK m) (v : Label) (x : Rat)
    (h : m.step (.setLowerBound v x) = (m', none)) :
    ∃ vt lb ub, (absCqm m).info v = some (vt, lb, ub) ∧ vt ≠ .binary ∧ vt ≠ .spin ∧ vt.min ≤ x ∧ x ≤ ub
      ∧ (vt = .integer → x.ceil ≤ ub.floor)
      ∧ absCqm m' = (absCqm m).setInfo v (vt, x, ub) := by
  have h' : m.setLowerBound v x = (m', none) := h
  unfold Cqm.setLowerBound at h'
  cases hg : m.idx? v with
  | none => rw [hg] at h'; cases (Prod.mk.inj h').2
  | some g =>
    rw [hg] at h'
    simp only [] at h'
    have hgl := idx?_get hg
    have hglt : g < m.vt.length := idx?_lt hwf hg
    split_ifs at h' with c1 c2 c3 c4
    · cases (Prod.mk.inj h').2
    · cases (Prod.mk.inj h').2
    · cases (Prod.mk.inj h').2
    · cases (Prod.mk.inj h').2
    · refine ⟨_, _, _, info_of_idx hg, ?_, ?_, not_lt.mp c2, not_lt.mp c3, ?_, ?_⟩
      · intro hb; exact c1 (by rw [hb]; rfl)
      · intro hb; exact c1 (by rw [hb]; rfl)
      · intro hi; have := c4; simp only [hi, decide_true, Bool.true_and, decide_eq_true_eq, not_lt] at this; exact this
      · rw [← (Prod.mk.inj h').1]
        refine LCqm.ext' rfl ?_ rfl rfl
        exact absCqm_setInfo hwf hl hgl m.vt _ m.ub _ _ _
          (fun k => by by_cases hk : k = g <;> simp [hk])
          (fun k => getD_setAt _ _ _ _ _ (by rw [hwf.lb_len]; exact hglt))
          (fun k => by by_cases hk : k = g <;> simp [hk]) m rfl

/-- **`set_upper_bound(v, x)`**, symmetrically -/
theorem refines_setUpperBound {m m' : Cqm} (hwf : CqmWF m) (hl : CqmLabelsOK m) (v : Label) (x : Rat)
    (h : m.step (.setUpperBound v x) = (m', none)) :
    ∃ vt lb ub, (absCqm m).info v = some (vt, lb, ub) ∧ vt ≠ .binary ∧ vt ≠ .spin ∧ x ≤ vt.max ∧ lb ≤ x
      ∧ (vt = .integer → lb.ceil ≤ x.floor)
      ∧ absCqm m' = (absCqm m).setInfo v (vt, lb, x) := by
  have h' : m.setUpperBound v x = (m', none) := h
  unfold Cqm.setUpperBound at h'
  cases hg : m.idx? v with
  | none => rw [hg] at h'; cases (Prod.mk.inj h').2
  | some g =>
    rw [hg] at h'
    simp only [] at h'
    have hgl := idx?_get hg
    have hglt : g < m.vt.length := idx?_lt hwf hg
    split_ifs at h' with c1 c2 c3 c4
    · cases (Prod.mk.inj h').2
    · cases (Prod.mk.inj h').2
    · cases (Prod.mk.inj h').2
    · cases (Prod.mk.inj h').2
    · refine ⟨_, _, _, info_of_idx hg, ?_, ?_, not_lt.mp c2, not_lt.mp c3, ?_, ?_⟩
      · intro hb; exact c1 (by rw [hb]; rfl)
      · intro hb; exact c1 (by rw [hb]; rfl)
      · intro hi; have := c4; simp only [hi, decide_true, Bool.true_and, decide_eq_true_eq, not_lt] at this; exact this
      · rw [← (Prod.mk.inj h').1]
        refine LCqm.ext' rfl ?_ rfl rfl
        exact absCqm_setInfo hwf hl hgl m.vt m.lb _ _ _ _
          (fun k => by by_cases hk : k = g <;> simp [hk])
          (fun k => by by_cases hk : k = g <;> simp [hk])
          (fun k => getD_setAt _ _ _ _ _ (by rw [hwf.ub_len]; exact hglt)) m rfl


/-! ### `spin_to_binary` -/

/-- one variable of `spin_to_binary`: a SPIN variable becomes BINARY — `s = 2x − 1` in the objective and every constraint,
    type BINARY, bounds [0, 1]; any other variable is left alone -/
def LCqm.spinToBinaryAt (s : LCqm) (l : Label) : LCqm :=
  if s.vtOf l = .spin then (s.mapPolys (·.substitute l 2 (-1))).setInfo l (.binary, 0, 1) else s

structure AllInv (m : Cqm) : Prop where
  wf : CqmWF m
  labels : CqmLabelsOK m
  ks : AllExprs ExprKS m
  sorted : AllExprs ExprSorted m

theorem AllInv.step {m : Cqm} (h : AllInv m) (op : Op) (hop : OpOK op) : AllInv (m.step op).1 :=
  ⟨step_wf h.wf op hop, step_labels h.labels op, step_all exprKS_closed h.wf h.ks op hop,
   step_all exprSorted_closed h.wf h.sorted op hop⟩

theorem spinStep {m : Cqm} (h : AllInv m) {g : Nat} {l : Label} (hgl : m.labels[g]? = some l) :
    absCqm (if m.vt.getD g .binary = .spin then (m.changeVartypeAt .binary g).1 else m) = (absCqm m).spinToBinaryAt l
    ∧ AllInv (if m.vt.getD g .binary = .spin then (m.changeVartypeAt .binary g).1 else m)
    ∧ (if m.vt.getD g .binary = .spin then (m.changeVartypeAt .binary g).1 else m).labels = m.labels := by
  have hglt : g < m.vt.length := by rw [← h.wf.labels_len]; exact lt_of_getElem? hgl
  have hidx : m.idx? l = some g := findIdx_of_get h.labels.labels_nodup hgl
  have hvt : (absCqm m).vtOf l = m.vt.getD g .binary := by
    unfold LCqm.vtOf; rw [info_of_idx hidx]
  unfold LCqm.spinToBinaryAt
  rw [hvt]
  by_cases hsp : m.vt.getD g .binary = .spin
  · rw [if_pos hsp, if_pos hsp]
    have hsrc : m.vt.getD g .integer = .spin := by
      rw [List.getD_eq_getElem?_getD, List.getElem?_eq_getElem hglt] at hsp ⊢; exact hsp
    have hres : m.changeVartypeAt .binary g
        = ({ m.mapExprs (·.substitute g 2 (-1)) with vt := setAt m.vt g .binary, lb := setAt m.lb g 0, ub := setAt m.ub g 1 }, true) := by
      unfold Cqm.changeVartypeAt
      simp only [hsrc]
      rfl
    have hstep : (m.step (.changeVartype .binary l)).1 = (m.changeVartypeAt .binary g).1 := by
      show (m.changeVartypeR .binary l).1 = _
      unfold Cqm.changeVartypeR
      rw [hidx]
      simp only []
      rw [hres]
    refine ⟨?_, hstep ▸ h.step (.changeVartype .binary l) trivial, by rw [hres]; rfl⟩
    rw [hres]
    have hms := absCqm_mapSubstitute h.labels h.ks h.sorted hgl 2 (-1)
    refine LCqm.ext' rfl ?_ ?_ ?_
    · exact absCqm_setInfo h.wf h.labels hgl _ _ _ .binary 0 1
        (fun k => getD_setAt _ _ _ _ _ hglt)
        (fun k => getD_setAt _ _ _ _ _ (by rw [h.wf.lb_len]; exact hglt))
        (fun k => getD_setAt _ _ _ _ _ (by rw [h.wf.ub_len]; exact hglt)) _ rfl
    · have ho := congrArg LCqm.obj hms; exact ho
    · have hc := congrArg LCqm.cons hms; exact hc
  · rw [if_neg hsp, if_neg hsp]
    exact ⟨rfl, h, rfl⟩

theorem spinFold (L : List Label) : ∀ (gs : List Nat) (ls : List Label), List.Forall₂ (fun g l => L[g]? = some l) gs ls →
    ∀ (m : Cqm), AllInv m → m.labels = L →
      absCqm (gs.foldl (fun m g => if m.vt.getD g .binary = .spin then (m.changeVartypeAt .binary g).1 else m) m)
        = ls.foldl LCqm.spinToBinaryAt (absCqm m) := by
  intro gs ls hf
  induction hf with
  | nil => intro m _ _; rfl
  | @cons g l gs' ls' hab _ ih =>
    intro m h hL
    rw [List.foldl_cons, List.foldl_cons]
    obtain ⟨a, b, c⟩ := spinStep h (hL ▸ hab)
    rw [ih _ b (c.trans hL), a]

theorem forall2_range' : ∀ (L pre : List Label),
    List.Forall₂ (fun g l => (pre ++ L)[g]? = some l) (List.range' pre.length L.length) L := by
  intro L
  induction L with
  | nil => intro pre; exact List.Forall₂.nil
  | cons a t ih =>
    intro pre
    rw [List.length_cons, List.range'_succ]
    refine List.Forall₂.cons (by simp) ?_
    have := ih (pre ++ [a])
    simpa using this

/-- **`spin_to_binary(inplace=True)`**: variable by variable in model order, every SPIN variable becomes BINARY with
    `s = 2x − 1` substituted in the objective and in every constraint; nothing else changes -/
theorem refines_spinToBinary {m m' : Cqm} (h : AllInv m) (hs : m.step .spinToBinary = (m', none)) :
    absCqm m' = (absCqm m).labels.foldl LCqm.spinToBinaryAt (absCqm m) := by
  have h' : (m.spinToBinary, (none : Option ErrC)) = (m', none) := hs
  rw [← (Prod.mk.inj h').1]
  unfold Cqm.spinToBinary Cqm.numVars
  have hr : List.Forall₂ (fun g l => m.labels[g]? = some l) (List.range m.vt.length) m.labels := by
    have := forall2_range' m.labels []
    rw [List.range_eq_range', ← h.wf.labels_len]
    simpa using this
  exact spinFold m.labels _ _ hr m h rfl


/-! ### `remove_constraint(label, cascade=True)` -/

/-- **which variables a cascading removal takes with it**: the variables of the removed constraint that the objective does
    not use and no *other* constraint uses (in the constraint's own variable order) -/
def LCqm.cascadeLabels (s : LCqm) (label : Label) : List Label :=
  match s.consOf label with
  | none => []
  | some c => c.p.vars.filter fun l =>
      decide (l ∉ s.obj.vars) && !(s.cons.any fun q => decide (q.1 ≠ label) && decide (l ∈ q.2.p.vars))

theorem refines_removeVariable {m m' : Cqm} (hwf : CqmWF m) (hnd : m.labels.Nodup) (v : Label)
    (h : m.removeVariableR v = (m', none)) : absCqm m' = (absCqm m).removeVariable v := by
  unfold Cqm.removeVariableR at h
  cases hidx : m.idx? v with
  | none => rw [hidx] at h; cases h
  | some g =>
    rw [hidx] at h
    simp only [] at h
    by_cases hd : m.inDiscrete g = true
    · rw [if_pos hd] at h; cases h
    · rw [if_neg hd] at h
      rw [← (Prod.mk.inj h).1]
      exact absCqm_removeVarAt hwf hnd (idx?_get hidx)

theorem refines_removeLabels (ls : List Label) : ∀ {m m' : Cqm}, CqmWF m → CqmLabelsOK m → m.removeLabels ls = (m', none) →
    absCqm m' = ls.foldl LCqm.removeVariable (absCqm m) := by
  induction ls with
  | nil => intro m m' _ _ h; rw [← (Prod.mk.inj (show (m, (none : Option ErrC)) = (m', none) from h)).1]; rfl
  | cons v t ih =>
    intro m m' hwf hl h
    unfold Cqm.removeLabels at h
    cases hr : m.removeVariableR v with
    | mk m1 e1 =>
      rw [hr] at h
      cases e1 with
      | some e => simp only [] at h; cases (Prod.mk.inj h).2
      | none =>
        simp only [] at h
        have e1 : (m.step (.removeVariable v)).1 = m1 := by show (m.removeVariableR v).1 = m1; rw [hr]
        rw [List.foldl_cons, ← refines_removeVariable hwf hl.labels_nodup v hr]
        exact ih (e1 ▸ step_wf hwf (.removeVariable v) trivial) (e1 ▸ step_labels hl (.removeVariable v)) h

theorem bnot_eq_decide_not {b : Bool} {p : Prop} [Decidable p] (h : b = true ↔ p) : (!b) = decide (¬ p) := by
  cases b with
  | true => have := h.mp rfl; simp [this]
  | false => have : ¬ p := fun hp => by cases h.mpr hp
             simp [this]

/-- the labels of the variables the model removes are the specification's -/
theorem cascadeVars_labels {m : Cqm} (hwf : CqmWF m) (hl : CqmLabelsOK m) {label : Label} {c : Nat} (hc : m.cidx? label = some c) :
    (m.cascadeVars c).map (m.labels.getD · dl) = (absCqm m).cascadeLabels label := by
  have hclt := cidx?_lt hwf hc
  have hcin : ExprIn m.labels.length (m.cons.getD c {}).e := by
    rw [hwf.labels_len]; exact hwf.cons_lt _ (getD_mem _ _ _ hclt)
  have hcl : m.clabels[c]? = some label := by have := findIdx_get hc; simpa using this
  unfold LCqm.cascadeLabels Cqm.cascadeVars
  rw [consOf_abs hwf hc]
  simp only []
  show _ = List.filter _ ((m.cons.getD c {}).e.vars.map (m.labels.getD · dl))
  rw [List.filter_map]
  congr 1
  apply List.filter_congr
  intro g hg
  have hgl : g < m.labels.length := hcin g hg
  have hlab : m.labels[g]? = some (m.labels.getD g dl) := by
    rw [List.getD_eq_getElem?_getD, List.getElem?_eq_getElem hgl]; rfl
  have mem_iff : ∀ (e : Expr), ExprWF e → ExprIn m.labels.length e →
      (e.hasVar g = true ↔ m.labels.getD g dl ∈ (absExpr m.labels e).vars) := by
    intro e he hin
    rw [hasVar_iff_mem he, label_mem_absVars hl.labels_nodup hin hlab]
  have hobjin : ExprIn m.labels.length m.obj := by rw [hwf.labels_len]; exact hwf.obj_lt
  simp only [Function.comp]
  congr 1
  · exact bnot_eq_decide_not (mem_iff m.obj hwf.obj hobjin)
  · congr 1
    rw [Bool.eq_iff_iff]
    simp only [List.any_eq_true, Bool.and_eq_true, decide_eq_true_eq, List.mem_range]
    constructor
    · rintro ⟨cj, hcj, hne, hv⟩
      have hcjl : cj < m.clabels.length := by rw [hwf.clabels_len]; exact hcj
      refine ⟨(m.clabels[cj], absCons m.labels (m.cons.getD cj {})), ?_, ?_, ?_⟩
      · have : ((absCqm m).cons)[cj]? = some (m.clabels[cj], absCons m.labels (m.cons.getD cj {})) := by
          unfold absCqm; simp only []
          rw [List.getElem?_zip_eq_some]
          refine ⟨List.getElem?_eq_getElem hcjl, ?_⟩
          rw [List.getElem?_map, List.getD_eq_getElem?_getD, List.getElem?_eq_getElem hcj]; rfl
        exact mem_of_getElem? this
      · intro heq
        apply hne
        exact idx_unique_label hl.clabels_nodup (by rw [List.getElem?_eq_getElem hcjl]; exact congrArg some heq) hcl
      · have hin : ExprIn m.labels.length (m.cons.getD cj {}).e := by
          rw [hwf.labels_len]; exact hwf.cons_lt _ (getD_mem _ _ _ hcj)
        exact (mem_iff _ (hwf.cons _ (getD_mem _ _ _ hcj)) hin).mp hv
    · rintro ⟨q, hq, hne, hv⟩
      obtain ⟨cj, hcj⟩ := List.getElem?_of_mem hq
      unfold absCqm at hcj; simp only [] at hcj
      rw [List.getElem?_zip_eq_some] at hcj
      obtain ⟨h1, h2⟩ := hcj
      have hcjl : cj < m.cons.length := by rw [← hwf.clabels_len]; exact lt_of_getElem? h1
      rw [List.getElem?_map, List.getElem?_eq_getElem hcjl] at h2
      have hq2 : q.2 = absCons m.labels (m.cons.getD cj {}) := by
        rw [List.getD_eq_getElem?_getD, List.getElem?_eq_getElem hcjl]
        exact (Option.some.inj h2).symm
      refine ⟨cj, hcjl, ?_, ?_⟩
      · intro heq; subst heq
        rw [hcl] at h1; exact hne (Option.some.inj h1).symm
      · have hin : ExprIn m.labels.length (m.cons.getD cj {}).e := by
          rw [hwf.labels_len]; exact hwf.cons_lt _ (getD_mem _ _ _ hcjl)
        rw [hq2] at hv
        exact (mem_iff _ (hwf.cons _ (getD_mem _ _ _ hcjl)) hin).mpr hv

/-- **`remove_constraint(label, cascade=True)`** when it returns: the constraint goes, and with it exactly the variables
    `cascadeLabels` names — those of its variables used neither by the objective nor by any other constraint — each
    removed as `remove_variable` does; everything else stays -/
theorem refines_removeConstraintCascade {m m' : Cqm} (hwf : CqmWF m) (hl : CqmLabelsOK m) (label : Label)
    (h : m.step (.removeConstraint label true) = (m', none)) :
    absCqm m' = ((absCqm m).cascadeLabels label).foldl LCqm.removeVariable
      { absCqm m with cons := (absCqm m).cons.filter (fun p => p.1 ≠ label) } := by
  have h' : m.removeConstraintR label true = (m', none) := h
  unfold Cqm.removeConstraintR at h'
  cases hc : m.cidx? label with
  | none => rw [hc] at h'; cases (Prod.mk.inj h').2
  | some c =>
    rw [hc] at h'
    simp only [if_true] at h'
    have hclt := cidx?_lt hwf hc
    have h0 : m.step (.removeConstraint label false) = (m.removeConstraintAt c, none) := by
      show m.removeConstraintR label false = _
      unfold Cqm.removeConstraintR; rw [hc]; rfl
    have e0 : (m.step (.removeConstraint label false)).1 = m.removeConstraintAt c := by rw [h0]
    rw [← cascadeVars_labels hwf hl hc, ← refines_removeConstraint hl label h0]
    exact refines_removeLabels _ (removeConstraintAt_wf hwf hclt) (e0 ▸ step_labels hl (.removeConstraint label false)) h'

end CqmP
