import DimodProofs.Slack

/-! # `binary_encoding` and the value-level statement of the slack methods (core Lean only) -/

namespace Pen

/-- the coefficient list of `binary_encoding(v, ub)` is the log2 slack list of `ub` -/
theorem binaryEncoding_coeffs (v : Label) (ub : Nat) (l : List (Label × Nat)) (h : binaryEncoding v ub = some l) :
    2 ≤ ub ∧ l.map (·.2) = slackLog2 ub := by
  unfold binaryEncoding at h
  split at h
  · simp at h
  · rename_i hub
    simp only [Option.some.injEq] at h
    subst h
    refine ⟨by omega, ?_⟩
    have hlo := Nat.log2_self_le (n := ub) (by omega)
    simp only [List.map_append, List.map_map, List.map_cons, List.map_nil, slackLog2]
    congr 1
    · clear hlo hub
      generalize Nat.log2 ub = k
      induction k with
      | zero => rfl
      | succ k ih =>
        rw [List.range_succ, List.map_append, ih]
        simp [pows]
    · congr 1
      have hpos : 0 < 2 ^ Nat.log2 ub := Nat.pow_pos (by omega)
      generalize 2 ^ Nat.log2 ub = p at hlo hpos ⊢
      omega

/-- C16 `binary_encoding_exact`: for every `ub ≥ 2` the bit patterns of `binary_encoding(v, ub)` represent exactly `0..ub` -/
theorem binaryEncoding_exact (v : Label) (ub : Nat) (l : List (Label × Nat)) (h : binaryEncoding v ub = some l) (t : Nat) :
    Reps (l.map (·.2)) t ↔ t ≤ ub := by
  obtain ⟨h2, hc⟩ := binaryEncoding_coeffs v ub l h
  rw [hc]; exact slack_covers ub (by omega) t

theorem binaryEncoding_refuses (v : Label) (ub : Nat) : binaryEncoding v ub = none ↔ ub < 2 := by
  unfold binaryEncoding
  split <;> simp_all

/-- value-level statement shared by every slack method: if the values the slack variables can take
    are exactly `0..S`, then (for a value `T` of the linear form within the term bounds) the squared
    residual can be made 0 exactly when the constraint holds, and is ≥ 1 for every slack value otherwise -/
theorem slack_value_iff (coeffs : List Int) (c lb ub T : Int) (hlo : sumNeg coeffs ≤ T) (hhi : T ≤ sumPos coeffs)
    (ubc lbc : Int) (S : Nat) (hplan : ineqPlan coeffs c lb ub = .slack ubc lbc S)
    (Vals : Nat → Prop) (hV : ∀ t, Vals t ↔ t ≤ S) :
    ((lb ≤ T + c ∧ T + c ≤ ub) ↔ ∃ t, Vals t ∧ (T + t - ubc) * (T + t - ubc) = 0)
    ∧ (¬ (lb ≤ T + c ∧ T + c ≤ ub) → ∀ t, Vals t → 1 ≤ (T + t - ubc) * (T + t - ubc)) := by
  have hs := ineqPlan_sound coeffs c lb ub T hlo hhi
  rw [hplan] at hs
  simp only at hs
  obtain ⟨_, hiff⟩ := hs
  constructor
  · constructor
    · intro hf
      obtain ⟨t, ht, h0⟩ := hiff.1 hf
      exact ⟨t, (hV t).2 ht, by rw [h0]; rfl⟩
    · rintro ⟨t, ht, h0⟩
      apply hiff.2
      refine ⟨t, (hV t).1 ht, ?_⟩
      rcases Int.mul_eq_zero.1 h0 with h | h <;> exact h
  · intro hnf t ht
    apply one_le_sq
    intro h0
    exact hnf (hiff.2 ⟨t, (hV t).1 ht, h0⟩)

/-- weaker hypothesis (log10, D17): the slack values only *contain* `0..S`.  Then a satisfied
    constraint can still be given penalty 0; nothing is claimed for violated ones. -/
theorem slack_value_partial (coeffs : List Int) (c lb ub T : Int) (hlo : sumNeg coeffs ≤ T) (hhi : T ≤ sumPos coeffs)
    (ubc lbc : Int) (S : Nat) (hplan : ineqPlan coeffs c lb ub = .slack ubc lbc S)
    (Vals : Nat → Prop) (hV : ∀ t, t ≤ S → Vals t) :
    (lb ≤ T + c ∧ T + c ≤ ub) → ∃ t, Vals t ∧ (T + t - ubc) * (T + t - ubc) = 0 := by
  have hs := ineqPlan_sound coeffs c lb ub T hlo hhi
  rw [hplan] at hs
  simp only at hs
  intro hf
  obtain ⟨t, ht, h0⟩ := hs.2.1 hf
  exact ⟨t, hV t ht, by rw [h0]; rfl⟩

end Pen
