import DimodProofs.C02Convert

/-! # C02 — `ising_to_qubo`: the QUBO dict + offset has the Ising energy at `s = 2x − 1` -/

namespace En

variable {R : Type}

/-- `Σ Q[(u,v)] · x_u · x_v` -/
def pairSum [CommRing R] (x : Label → R) (q : PairMap R) : R := (q.map fun e => e.2 * x e.1.1 * x e.1.2).sum

/-- `Σ h[v] · s_v` -/
def labelSum [CommRing R] (s : Label → R) (h : ODict Label R) : R := (h.map fun e => e.2 * s e.1).sum

section
variable [CommRing R]

theorem pairSum_set (x : Label → R) (q : PairMap R) (k : Label × Label) (v : R) :
    pairSum x (ODict.set q k v) = pairSum x q + (v - (ODict.get? q k).getD 0) * x k.1 * x k.2 := by
  induction q with
  | nil => simp [ODict.set, ODict.get?, pairSum]
  | cons e rest ih =>
    obtain ⟨k', b⟩ := e
    unfold pairSum at ih ⊢
    simp only [ODict.set, ODict.get?]
    by_cases hk : k' = k
    · subst hk; simp; ring
    · simp only [hk, if_false, List.map_cons, List.sum_cons]; rw [ih]; ring

theorem get?_set_ne {α β : Type} [DecidableEq α] (q : ODict α β) (k k' : α) (v : β) (h : k ≠ k') :
    ODict.get? (ODict.set q k v) k' = ODict.get? q k' := by
  induction q with
  | nil => simp [ODict.set, ODict.get?, h]
  | cons e rest ih =>
    obtain ⟨k0, b⟩ := e
    simp only [ODict.set]
    by_cases h0 : k0 = k
    · subst h0; simp [ODict.get?, h]
    · simp only [h0, if_false, ODict.get?]
      by_cases h1 : k0 = k' <;> simp [h1, ih]

variable [DecidableEq R]

/-- one iteration of the loop over `J.items()` -/
def quboStep (q : PairMap R) (e : (Label × Label) × R) : PairMap R :=
  if e.2 = 0 then q else
  let q := q.set (e.1.1, e.1.2) (two * two * e.2)
  let q := q.set (e.1.1, e.1.1) ((q.get? (e.1.1, e.1.1)).getD 0 - two * e.2)
  q.set (e.1.2, e.1.2) ((q.get? (e.1.2, e.1.2)).getD 0 - two * e.2)

theorem quboStep_pairSum (x : Label → R) (q : PairMap R) (e : (Label × Label) × R)
    (hfresh : ODict.get? q e.1 = none) :
    pairSum x (quboStep q e)
      = pairSum x q + (two * two * e.2 * x e.1.1 * x e.1.2 - two * e.2 * x e.1.1 * x e.1.1 - two * e.2 * x e.1.2 * x e.1.2) := by
  unfold quboStep
  by_cases hb : e.2 = 0
  · simp [hb]
  · simp only [hb, if_false]
    rw [pairSum_set, pairSum_set, pairSum_set]
    have : ODict.get? q (e.1.1, e.1.2) = none := hfresh
    rw [this]
    simp only [Option.getD_none]
    ring

theorem quboStep_fresh (q : PairMap R) (e : (Label × Label) × R) (k : Label × Label)
    (hk : k ≠ e.1) (hoff : k.1 ≠ k.2) (h : ODict.get? q k = none) : ODict.get? (quboStep q e) k = none := by
  unfold quboStep
  by_cases hb : e.2 = 0
  · simp [hb, h]
  · simp only [hb, if_false]
    rw [get?_set_ne _ _ _ _ (by intro he; apply hoff; rw [← he]),
        get?_set_ne _ _ _ _ (by intro he; apply hoff; rw [← he]),
        get?_set_ne _ _ _ _ (by intro he; apply hk; rw [← he])]
    exact h

theorem foldl_quboStep (x : Label → R) (J : PairMap R) (q : PairMap R)
    (hJ : (J.map (·.1)).Nodup) (hJd : ∀ e ∈ J, e.1.1 ≠ e.1.2) (hfresh : ∀ e ∈ J, ODict.get? q e.1 = none) :
    pairSum x (J.foldl quboStep q)
      = pairSum x q + (J.map fun e => two * two * e.2 * x e.1.1 * x e.1.2 - two * e.2 * x e.1.1 * x e.1.1
                                      - two * e.2 * x e.1.2 * x e.1.2).sum := by
  induction J generalizing q with
  | nil => simp
  | cons e rest ih =>
    have hnd := List.nodup_cons.mp hJ
    simp only [List.foldl_cons, List.map_cons, List.sum_cons]
    rw [ih (quboStep q e) hnd.2 (fun e' he' => hJd e' (List.mem_cons_of_mem _ he'))]
    · rw [quboStep_pairSum x q e (hfresh e (by simp))]; ring
    · intro e' he'
      apply quboStep_fresh q e e'.1
      · intro heq
        exact hnd.1 (List.mem_map.mpr ⟨e', he', heq⟩)
      · exact hJd e' (List.mem_cons_of_mem _ he')
      · exact hfresh e' (List.mem_cons_of_mem _ he')

theorem get?_diag_none (h : ODict Label R) (k : Label × Label) (hk : k.1 ≠ k.2) :
    ODict.get? (h.map fun p => ((p.1, p.1), two * p.2)) k = none := by
  induction h with
  | nil => rfl
  | cons p rest ih =>
    simp only [List.map_cons, ODict.get?]
    have : ¬ (p.1, p.1) = k := by
      intro he; apply hk; rw [← he]
    simp [this, ih]

theorem foldl_add (l : List ((Label × Label) × R)) (a : R) : l.foldl (fun a e => a + e.2) a = a + (l.map (·.2)).sum := by
  induction l generalizing a with
  | nil => simp
  | cons e rest ih => simp only [List.foldl_cons, List.map_cons, List.sum_cons]; rw [ih]; ring

theorem foldl_add' (l : List (Label × R)) (a : R) : l.foldl (fun a e => a + e.2) a = a + (l.map (·.2)).sum := by
  induction l generalizing a with
  | nil => simp
  | cons e rest ih => simp only [List.foldl_cons, List.map_cons, List.sum_cons]; rw [ih]; ring

theorem sum_h_part (x : Label → R) (h : ODict Label R) :
    (h.map fun p => two * p.2 * x p.1).sum - (h.map (·.2)).sum = (h.map fun e => e.2 * (two * x e.1 - 1)).sum := by
  induction h with
  | nil => simp
  | cons p rest ih => simp only [List.map_cons, List.sum_cons]; rw [← ih]; ring

theorem sum_J_part (x : Label → R) (hx : ∀ v, x v * x v = x v) (J : PairMap R) :
    (J.map fun e => two * two * e.2 * x e.1.1 * x e.1.2 - two * e.2 * x e.1.1 * x e.1.1 - two * e.2 * x e.1.2 * x e.1.2).sum
      + (J.map (·.2)).sum = (J.map fun e => e.2 * (two * x e.1.1 - 1) * (two * x e.1.2 - 1)).sum := by
  induction J with
  | nil => simp
  | cons e rest ih =>
    simp only [List.map_cons, List.sum_cons]
    rw [← ih]
    have h1 := hx e.1.1
    have h2 := hx e.1.2
    linear_combination (-(two * e.2)) * h1 + (-(two * e.2)) * h2

/-- **`ising_qubo_energy`**: for binary `x` (`x_v² = x_v`), the QUBO returned by `ising_to_qubo(h, J, offset)` together with
    its offset has the Ising energy at `s = 2x − 1`.  `J` is a dict of interactions between *distinct* variables. -/
theorem isingToQubo_energy (h : ODict Label R) (J : PairMap R) (offset : R) (x : Label → R)
    (hx : ∀ v, x v * x v = x v) (hJ : (J.map (·.1)).Nodup) (hJd : ∀ e ∈ J, e.1.1 ≠ e.1.2) :
    pairSum x (isingToQubo h J offset).1 + (isingToQubo h J offset).2
      = labelSum (fun v => two * x v - 1) h + pairSum (fun v => two * x v - 1) J + offset := by
  have hstep : (isingToQubo h J offset).1 = J.foldl quboStep (h.map fun p => ((p.1, p.1), two * p.2)) := by
    unfold isingToQubo
    simp only []
    congr 1
  have hoff : (isingToQubo h J offset).2 = offset + ((J.map (·.2)).sum - (h.map (·.2)).sum) := by
    unfold isingToQubo
    simp only [foldl_add, foldl_add', zero_add]
  rw [hstep, hoff, foldl_quboStep x J _ hJ hJd (fun e he => get?_diag_none h e.1 (hJd e he))]
  have hdiag : pairSum x (h.map fun p => ((p.1, p.1), two * p.2)) = (h.map fun p => two * p.2 * x p.1).sum := by
    unfold pairSum
    rw [List.map_map]
    congr 1
    apply List.map_congr_left
    intro p _
    simp only [Function.comp]
    rw [mul_assoc, hx]
  rw [hdiag]
  unfold labelSum pairSum
  rw [← sum_h_part x h, ← sum_J_part x hx J]; ring

end

end En

/-! # `qubo_to_ising` -/

namespace En

variable {R : Type} [CommRing R] [DecidableEq R]

/-- `h[u] += x` / `h[u] = x` -/
def addToH (h : ODict Label R) (u : Label) (x : R) : ODict Label R :=
  match h.get? u with
  | some y => h.set u (y + x)
  | none => h.set u x

theorem labelSum_set (s : Label → R) (h : ODict Label R) (u : Label) (v : R) :
    labelSum s (ODict.set h u v) = labelSum s h + (v - (ODict.get? h u).getD 0) * s u := by
  induction h with
  | nil => simp [ODict.set, ODict.get?, labelSum]
  | cons e rest ih =>
    obtain ⟨k, b⟩ := e
    unfold labelSum at ih ⊢
    simp only [ODict.set, ODict.get?]
    by_cases hk : k = u
    · subst hk; simp; ring
    · simp only [hk, if_false, List.map_cons, List.sum_cons]; rw [ih]; ring

theorem labelSum_addToH (s : Label → R) (h : ODict Label R) (u : Label) (x : R) :
    labelSum s (addToH h u x) = labelSum s h + x * s u := by
  unfold addToH
  cases hg : h.get? u with
  | some y => simp only []; rw [labelSum_set, hg]; simp
  | none => simp only []; rw [labelSum_set, hg]; simp

/-- one iteration of the loop over `Q.items()`; state = (h, J, linear_offset, quadratic_offset) -/
def isingStep (half quarter : R) (st : ODict Label R × PairMap R × R × R) (e : (Label × Label) × R) :
    ODict Label R × PairMap R × R × R :=
  if e.1.1 = e.1.2 then (addToH st.1 e.1.1 (half * e.2), st.2.1, st.2.2.1 + e.2, st.2.2.2)
  else
    (addToH (addToH st.1 e.1.1 (quarter * e.2)) e.1.2 (quarter * e.2),
     (if e.2 ≠ 0 then st.2.1.set (e.1.1, e.1.2) (quarter * e.2) else st.2.1), st.2.2.1, st.2.2.2 + e.2)

/-- the value the state stands for -/
def isingVal (half quarter : R) (s : Label → R) (st : ODict Label R × PairMap R × R × R) : R :=
  labelSum s st.1 + pairSum s st.2.1 + (half * st.2.2.1 + quarter * st.2.2.2)

theorem isingStep_val (half quarter : R) (s : Label → R) (hs : ∀ v, s v * s v = 1)
    (st : ODict Label R × PairMap R × R × R) (e : (Label × Label) × R)
    (hfresh : ODict.get? st.2.1 e.1 = none) :
    isingVal half quarter s (isingStep half quarter st e)
      = isingVal half quarter s st
        + (if e.1.1 = e.1.2 then half * e.2 * (s e.1.1 + 1)
           else quarter * e.2 * (s e.1.1 * s e.1.2 + s e.1.1 + s e.1.2 + 1)) := by
  unfold isingStep isingVal
  by_cases hd : e.1.1 = e.1.2
  · simp only [hd, if_true]
    rw [labelSum_addToH]; ring
  · simp only [hd, if_false]
    rw [labelSum_addToH, labelSum_addToH]
    by_cases hb : e.2 = 0
    · simp [hb]
    · simp only [ne_eq, hb, not_false_eq_true, if_true]
      rw [pairSum_set]
      have : ODict.get? st.2.1 (e.1.1, e.1.2) = none := hfresh
      rw [this]; simp only [Option.getD_none]; ring

theorem isingStep_fresh (half quarter : R) (st : ODict Label R × PairMap R × R × R) (e : (Label × Label) × R)
    (k : Label × Label) (hk : k ≠ e.1) (h : ODict.get? st.2.1 k = none) :
    ODict.get? (isingStep half quarter st e).2.1 k = none := by
  unfold isingStep
  by_cases hd : e.1.1 = e.1.2
  · simp [hd, h]
  · simp only [hd, if_false]
    by_cases hb : e.2 = 0
    · simp [hb, h]
    · simp only [ne_eq, hb, not_false_eq_true, if_true]
      rw [get?_set_ne _ _ _ _ (by intro he; apply hk; rw [← he])]
      exact h

theorem foldl_isingStep (half quarter : R) (s : Label → R) (hs : ∀ v, s v * s v = 1) (Q : PairMap R)
    (st : ODict Label R × PairMap R × R × R) (hQ : (Q.map (·.1)).Nodup) (hfresh : ∀ e ∈ Q, ODict.get? st.2.1 e.1 = none) :
    isingVal half quarter s (Q.foldl (isingStep half quarter) st)
      = isingVal half quarter s st
        + (Q.map fun e => if e.1.1 = e.1.2 then half * e.2 * (s e.1.1 + 1)
                          else quarter * e.2 * (s e.1.1 * s e.1.2 + s e.1.1 + s e.1.2 + 1)).sum := by
  induction Q generalizing st with
  | nil => simp
  | cons e rest ih =>
    have hnd := List.nodup_cons.mp hQ
    simp only [List.foldl_cons, List.map_cons, List.sum_cons]
    rw [ih (isingStep half quarter st e) hnd.2]
    · rw [isingStep_val half quarter s hs st e (hfresh e (by simp))]; ring
    · intro e' he'
      apply isingStep_fresh
      · intro heq; exact hnd.1 (List.mem_map.mpr ⟨e', he', heq⟩)
      · exact hfresh e' (List.mem_cons_of_mem _ he')

/-- **`qubo_to_ising`**: for spins `s` (`s_v² = 1`), `h·s + s·J·s + new offset` is the QUBO energy at `x = (s + 1)/2`
    (`half`, `quarter` are the literals `.5`, `.25` of the source: `2·half = 1`, `4·quarter = 1`) -/
theorem quboToIsing_energy (half quarter : R) (hh : two * half = 1) (hq : two * two * quarter = 1)
    (Q : PairMap R) (offset : R) (s : Label → R) (hs : ∀ v, s v * s v = 1) (hQ : (Q.map (·.1)).Nodup) :
    labelSum s (quboToIsing half quarter Q offset).1 + pairSum s (quboToIsing half quarter Q offset).2.1
        + (quboToIsing half quarter Q offset).2.2
      = pairSum (fun v => half * (s v + 1)) Q + offset := by
  have hfold : quboToIsing half quarter Q offset
      = ((Q.foldl (isingStep half quarter) ([], [], 0, 0)).1, (Q.foldl (isingStep half quarter) ([], [], 0, 0)).2.1,
         offset + (half * (Q.foldl (isingStep half quarter) ([], [], 0, 0)).2.2.1
                   + quarter * (Q.foldl (isingStep half quarter) ([], [], 0, 0)).2.2.2)) := by
    unfold quboToIsing
    simp only []
    congr 1
  have hv := foldl_isingStep half quarter s hs Q ([], [], 0, 0) hQ (by intro e _; rfl)
  unfold isingVal at hv
  rw [hfold]
  simp only []
  have h0 : labelSum s ([] : ODict Label R) + pairSum s ([] : PairMap R) + (half * 0 + quarter * 0) = 0 := by
    simp [labelSum, pairSum]
  rw [h0, zero_add] at hv
  have hq' : quarter = half * half := by
    unfold two at hh hq
    linear_combination quarter * hq - quarter * ((1 + 1) * half + 1) * hh - (quarter - half * half) * hq
  have hsum : (Q.map fun e => if e.1.1 = e.1.2 then half * e.2 * (s e.1.1 + 1)
      else quarter * e.2 * (s e.1.1 * s e.1.2 + s e.1.1 + s e.1.2 + 1)).sum
      = pairSum (fun v => half * (s v + 1)) Q := by
    unfold pairSum
    congr 1
    apply List.map_congr_left
    intro e _
    by_cases hd : e.1.1 = e.1.2
    · simp only [hd, if_true]
      have h1 := hs e.1.2
      unfold two at hh
      linear_combination (-(half * e.2 * (s e.1.2 + 1))) * hh + (-(e.2 * half * half)) * h1
    · simp only [hd, if_false]
      rw [hq']; ring
  rw [← hsum, ← hv]; ring

end En
