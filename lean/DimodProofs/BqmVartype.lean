import DimodProofs.BqmFlip

/-! `change_vartype` (`substitute_variables(mult, c)` as coded: every directed entry visited once) refines the same
    loops on the label-keyed polynomial: per variable the loop over its neighbour list, for the offset the loop over
    all variables.  Core Lean only. -/

namespace Bqm

/-- `substitute_variables(mult, c)` on the polynomial -/
def LPoly.substituteAll (p : LPoly) (mult c : Rat) : LPoly :=
  { p with
    lin := fun l => (p.nbrs l).foldl (fun a lc => a + mult * c * lc.2) (p.lin l * mult),
    quad := fun a b => (p.quad a b).map (· * (mult * mult)),
    off := p.vars.foldl (fun acc l => (p.nbrs l).foldl (fun a lc => a + c * c / 2 * lc.2) acc)
             (p.vars.foldl (fun acc l => acc + p.lin l * c) p.off) }

def LPoly.changeVartype (p : LPoly) (t : VT) : LPoly :=
  if p.vt = t then p else
  match t with
  | .spin => { p.substituteAll (1/2) (1/2) with vt := .spin }
  | .binary => { p.substituteAll 2 (-1) with vt := .binary }

theorem list_eq_map_range {α} (l : List α) (d : α) : l = (List.range l.length).map (fun j => l.getD j d) := by
  apply List.ext_getElem
  · simp
  · intro j h1 h2
    simp [List.getD, List.getElem?_eq_getElem h1]

theorem foldl_eq_range {α β} (l : List α) (f : β → α → β) (z : β) (d : α) :
    l.foldl f z = (List.range l.length).foldl (fun acc i => f acc (l.getD i d)) z := by
  conv => lhs; rw [list_eq_map_range l d]
  rw [List.foldl_map]

theorem foldl_congr_mem {α β} (l : List α) (f g : β → α → β) (z : β) (h : ∀ acc, ∀ x ∈ l, f acc x = g acc x) :
    l.foldl f z = l.foldl g z := by
  induction l generalizing z with
  | nil => rfl
  | cons a t ih =>
    simp only [List.foldl]
    rw [h z a (by simp)]
    exact ih _ (fun acc x hx => h acc x (List.mem_cons_of_mem _ hx))

/-- a fold over the stored neighbourhood of the variable at index `j` is the fold over the polynomial's
    neighbour list of its label -/
theorem foldl_nbh {m : Bqm} (i : Inv m) (j : Nat) (hj : j < m.labels.length) (g : Rat → Rat → Rat) (z : Rat) :
    ((absL m).nbrs (m.labels.getD j (.int 0))).foldl (fun a lc => g a lc.2) z = (m.adj.getD j []).foldl (fun a p => g a p.2) z := by
  have hget : m.labels[j]? = some (m.labels.getD j (.int 0)) := by simp [List.getD, List.getElem?_eq_getElem hj]
  rw [nbrs_absL i (indexOf?_of_get i.nodup hget), List.foldl_map]
  rfl

theorem substituteAll_refines {m : Bqm} (i : Inv m) (mult c : Rat) :
    absL (m.substituteAll mult c) = (absL m).substituteAll mult c := by
  have hadj : m.adj.length = m.labels.length := by rw [i.wf.adj.len, i.wf.labels_len]
  have hlin : m.lin.length = m.labels.length := i.wf.labels_len.symm
  apply LPoly.ext'
  · rfl
  · intro l
    show linL (m.substituteAll mult c) l = ((absL m).nbrs l).foldl (fun a lc => a + mult * c * lc.2) (m.linL l * mult)
    unfold linL
    show (match m.indexOf? l with
          | some j => (((m.lin.map (· * mult)).zip m.adj).map fun (x : Rat × List (Nat × Rat)) => x.2.foldl (fun a (p : Nat × Rat) => a + mult * c * p.2) x.1).getD j 0
          | none => 0) = _
    cases hl : m.indexOf? l with
    | none =>
      have hnone : (absL m).nbrs l = [] := by
        unfold LPoly.nbrs
        apply filterMap_none
        intro w _
        show (m.quadL l w).map _ = none
        unfold quadL; rw [hl]; rfl
      rw [hnone]; simp [Rat.zero_mul]
    | some j =>
      have hj : j < m.labels.length := (indexOf?_some hl).1
      have hgetl : m.labels.getD j (.int 0) = l := by
        have := (indexOf?_some hl).2
        simp [List.getD, this]
      simp only []
      have hz : j < ((m.lin.map (· * mult)).zip m.adj).length := by simp [List.length_zip, hadj, hlin]; exact hj
      rw [← hgetl, foldl_nbh i j hj (fun a b => a + mult * c * b)]
      simp only [List.getD, List.getElem?_map, List.getElem?_eq_getElem hz, Option.map_some, Option.getD_some,
        List.getElem_zip, List.getElem_map]
      have h1 : j < m.lin.length := by rw [hlin]; exact hj
      have h2 : j < m.adj.length := by rw [hadj]; exact hj
      simp [List.getElem?_eq_getElem h1, List.getElem?_eq_getElem h2]
  · intro a b
    show quadL (m.substituteAll mult c) a b = (m.quadL a b).map (· * (mult * mult))
    unfold quadL
    show (match m.indexOf? a, m.indexOf? b with
          | some x, some y => coefAt (adjScale m.adj (mult * mult)) x y
          | _, _ => none) = _
    cases m.indexOf? a with
    | none => rfl
    | some x =>
      cases m.indexOf? b with
      | none => rfl
      | some y => exact coefAt_adjScale m.adj _ x y
  · show m.adj.foldl (fun acc nb => nb.foldl (fun a p => a + c * c / 2 * p.2) acc) (m.lin.foldl (fun acc l => acc + l * c) m.off)
        = m.labels.foldl (fun acc l => ((absL m).nbrs l).foldl (fun a lc => a + c * c / 2 * lc.2) acc)
            (m.labels.foldl (fun acc l => acc + m.linL l * c) m.off)
    have e1 : m.lin.foldl (fun acc l => acc + l * c) m.off = m.labels.foldl (fun acc l => acc + m.linL l * c) m.off := by
      rw [foldl_eq_range m.lin _ _ 0, foldl_eq_range m.labels _ _ (.int 0), hlin]
      apply foldl_congr_mem
      intro acc j hj
      have hj' : j < m.labels.length := List.mem_range.mp hj
      have hget : m.labels[j]? = some (m.labels.getD j (.int 0)) := by simp [List.getD, List.getElem?_eq_getElem hj']
      unfold linL; rw [indexOf?_of_get i.nodup hget]
    have e2 : ∀ z : Rat, m.adj.foldl (fun acc nb => nb.foldl (fun a p => a + c * c / 2 * p.2) acc) z
        = m.labels.foldl (fun acc l => ((absL m).nbrs l).foldl (fun a lc => a + c * c / 2 * lc.2) acc) z := by
      intro z
      rw [foldl_eq_range m.adj _ z [], foldl_eq_range m.labels _ z (.int 0), hadj]
      apply foldl_congr_mem
      intro acc j hj
      have hj' : j < m.labels.length := List.mem_range.mp hj
      exact (foldl_nbh i j hj' (fun a b => a + c * c / 2 * b) acc).symm
    rw [e1, e2]
  · rfl

theorem changeVartype_refines {m : Bqm} (i : Inv m) (t : VT) :
    absL (m.changeVartype t) = (absL m).changeVartype t ∧ Inv (m.changeVartype t) := by
  refine ⟨?_, ⟨i.wf.changeVartype t, ?_⟩⟩
  · unfold Bqm.changeVartype LPoly.changeVartype
    rw [absL_vt]
    by_cases h : m.vt = t
    · simp [h]
    · simp only [h, if_false]
      cases t with
      | spin =>
        show absL { m.substituteAll (1/2) (1/2) with vt := .spin } = _
        have := substituteAll_refines i (1/2) (1/2)
        show ({ absL (m.substituteAll (1/2) (1/2)) with vt := VT.spin } : LPoly) = _
        rw [this]
      | binary =>
        have := substituteAll_refines i 2 (-1)
        show ({ absL (m.substituteAll 2 (-1)) with vt := VT.binary } : LPoly) = _
        rw [this]
  · unfold Bqm.changeVartype
    by_cases h : m.vt = t
    · simp [h, i.nodup]
    · simp only [h, if_false]
      cases t <;> exact i.nodup

end Bqm
