import DimodProofs.VarsKeys
import DimodProofs.VarsMore

/-! `_relabel(mapping)` over Python objects factors through `canon`: the plan of `iter_safe_relabels`
    (conflict test, intermediate labels) computed with `==` lookups maps to the label-level plan, and the
    sequential application commutes with the abstraction because every intermediate label-level state is
    sound (`PlanOK`). -/

namespace VState

open LSpec (lookup subst dictOf relabelOk)

/-- one pair of the `_relabel` loop -/
def stepOne (s : VState) (p : Label × Label) : VState :=
  if p.1 = p.2 || !(s.count p.1) then s else s.relabelOne p.1 p.2

/-- the side conditions under which a sub-mapping applied pair by pair is the simultaneous substitution -/
def SubOK (s : VState) (sub : Dict) : Prop :=
  (vals sub).Nodup ∧ (∀ v ∈ vals sub, v ∉ keys sub) ∧ (∀ v ∈ vals sub, v ∉ s.abs)

theorem SubOK.step {s : VState} (h : s.Inv) {p : Label × Label} {t : Dict} (ok : SubOK s (p :: t)) :
    (s.stepOne p).Inv ∧ SubOK (s.stepOne p) t := by
  obtain ⟨k, v⟩ := p
  obtain ⟨hn, hk, ha⟩ := ok
  simp only [vals_cons, keys_cons, List.nodup_cons, List.mem_cons] at hn hk ha
  have hkv : k ≠ v := fun e => (hk v (Or.inl rfl)) (Or.inl e.symm)
  unfold stepOne
  simp only [hkv, decide_false, Bool.false_or]
  by_cases hc : k ∈ s.abs
  · have hcc := (s.count_iff h k).2 hc
    simp only [hcc, Bool.not_true, Bool.false_eq_true, if_false]
    have hvs : v ∉ s.abs := ha v (Or.inl rfl)
    obtain ⟨hi1, ha1⟩ := relabelOne_spec s h k v hc hvs
    refine ⟨hi1, hn.2, fun v' hv' hk' => hk v' (Or.inr hv') (Or.inr hk'), ?_⟩
    intro v' hv' hm
    rw [ha1] at hm
    obtain ⟨x, hx, e⟩ := List.mem_map.1 hm
    split at e
    · exact hn.1 (e ▸ hv')
    · exact ha v' (Or.inr hv') (e ▸ hx)
  · have hcc := (s.count_eq_false_iff h k).2 hc
    simp only [hcc, Bool.not_false, if_true]
    exact ⟨h, hn.2, fun v' hv' hk' => hk v' (Or.inr hv') (Or.inr hk'), fun v' hv' => ha v' (Or.inr hv')⟩

theorem seqRelabel_cons' (s : VState) (p : Label × Label) (t : Dict) :
    seqRelabel s (p :: t) = seqRelabel (s.stepOne p) t := rfl

/-- every phase of a plan meets the side conditions on the state it is applied to -/
def PlanOK : VState → List Dict → Prop
  | _, [] => True
  | s, sub :: rest => SubOK s sub ∧ PlanOK (seqRelabel s sub) rest

theorem twoPhase_planOK (s : VState) (hI : s.Inv) (m : Dict) (hk : (keys m).Nodup)
    (hvn : (vals m).Nodup) (hchk : ∀ v ∈ vals m, v ∈ s.abs → v ∈ keys m)
    (ctr : Nat) (B : Nat × Dict × Dict) (ok : BuildOK s m ctr m B) : PlanOK s [B.2.1, B.2.2] := by
  obtain ⟨ctr', O, I⟩ := B
  simp only at ok ⊢
  have hOsub : ∀ k, k ∈ keys O → k ∈ keys m := by
    intro k hk'
    obtain ⟨v, hm, _⟩ := (ok.keysO k).1 hk'
    exact mem_keys_of_mem hm
  have c1 : SubOK s O := by
    refine ⟨ok.valsO_nodup, ?_, ?_⟩
    · intro w hw hk'
      have hkm := hOsub w hk'
      rcases ok.valsO w hw with ⟨c, e, _, _, h5⟩ | ⟨k, hm, _, hc⟩
      · exact ((forb_eq_false_iff s hI m _).1 h5).2.1 (e ▸ hkm)
      · exact ((conf_eq_false_iff m _).1 hc).2 hkm
    · intro w hw hmem
      rcases ok.valsO w hw with ⟨c, e, _, _, h5⟩ | ⟨k, hm, _, hc⟩
      · exact ((forb_eq_false_iff s hI m _).1 h5).2.2 (e ▸ hmem)
      · exact ((conf_eq_false_iff m _).1 hc).2 (hchk w (mem_vals_of_mem hm) hmem)
  obtain ⟨_, ha1⟩ := seqRelabel_spec O s hI c1.1 c1.2.1 c1.2.2
  have hIfree : ∀ x, x ∈ keys I → x ∉ vals m ∧ x ∉ s.abs := by
    intro x hx
    obtain ⟨c, e, _, _, h5⟩ := ok.keysI x hx
    have := (forb_eq_false_iff s hI m _).1 h5
    exact ⟨e ▸ this.1, e ▸ this.2.2⟩
  have c2 : SubOK (seqRelabel s O) I := by
    refine ⟨ok.valsI_nodup, ?_, ?_⟩
    · intro v hv hk'
      obtain ⟨k, hm, _⟩ := ok.valsI v hv
      exact (hIfree v hk').1 (mem_vals_of_mem hm)
    · intro v hv hmem
      obtain ⟨k, hm, hne, hc⟩ := ok.valsI v hv
      rw [ha1] at hmem
      obtain ⟨x, hx, e⟩ := List.mem_map.1 hmem
      cases hl : lookup O x with
      | none =>
        simp only [hl, Option.getD_none] at e
        subst e
        obtain ⟨v', hm'⟩ := exists_of_mem_keys (hchk x (mem_vals_of_mem hm) hx)
        by_cases hxv : x = v'
        · subst hxv
          exact hne (eq_of_mem_same_val hvn hm hm')
        · exact (lookup_eq_none_iff O x).1 hl ((ok.keysO x).2 ⟨v', hm', hxv⟩)
      | some w =>
        simp only [hl, Option.getD_some] at e
        subst e
        rcases ok.valsO w (mem_vals_of_mem (lookup_mem hl)) with ⟨c, e, _, _, h5⟩ | ⟨k', hm', _, hc'⟩
        · exact ((forb_eq_false_iff s hI m _).1 h5).1 (e ▸ mem_vals_of_mem hm)
        · have := eq_of_mem_same_val hvn hm hm'
          subst this
          rw [hc] at hc'; simp at hc'
  exact ⟨c1, c2, trivial⟩

/-- the plan `iter_safe_relabels` yields for a mapping with distinct keys is applicable phase by phase -/
theorem safeRelabels_planOK (s : VState) (hI : s.Inv) (m : Dict) (hk : (keys m).Nodup) (subs : List Dict)
    (h : s.safeRelabels m = some subs) : PlanOK s subs := by
  rw [safeRelabels_eq] at h
  by_cases h1 : (newLabels m).length < m.length
  · rw [if_pos h1] at h; cases h
  · have hvn : (vals m).Nodup := by
      apply Classical.byContradiction
      intro hc; exact h1 ((length_newLabels_lt_iff m).2 hc)
    rw [if_neg h1] at h
    by_cases h2 : ((newLabels m).any fun p => s.count p.1 && !(dictHas m p.1)) = true
    · rw [if_pos h2] at h; cases h
    · have hchk : ∀ v ∈ vals m, v ∈ s.abs → v ∈ keys m := by
        intro v hv hl
        apply Classical.byContradiction
        intro hnk
        apply h2
        obtain ⟨o, ho⟩ := exists_of_mem_keys ((mem_keys_newLabels m v).2 hv)
        apply List.any_eq_true.2
        refine ⟨(v, o), ho, ?_⟩
        simp only [Bool.and_eq_true, Bool.not_eq_true', dictHas_eq_false_iff]
        exact ⟨(s.count_iff hI _).2 hl, hnk⟩
      rw [if_neg h2] at h
      by_cases h3 : (m.any fun p => dictHas (newLabels m) p.1) = true
      · rw [if_pos h3] at h
        have hb := foldl_rstep_eq_build s m m (2 * m.length) [] [] hk (by simp) (by simp)
        rw [hb] at h
        simp only [List.nil_append, Option.some.injEq] at h
        subst h
        exact twoPhase_planOK s hI m hk hvn hchk _ _ (build_ok s hI m m _ (fun _ h => h) hk hvn)
      · rw [if_neg h3] at h
        simp only [Option.some.injEq] at h
        subst h
        have hnk : ∀ v ∈ vals m, v ∉ keys m := by
          intro v hv hkm
          apply h3
          obtain ⟨w, hm⟩ := exists_of_mem_keys hkm
          apply List.any_eq_true.2
          exact ⟨(v, w), hm, (dictHas_iff _ _).2 ((mem_keys_newLabels m v).2 hv)⟩
        exact ⟨⟨hvn, hnk, fun v hv hl => hnk v hv (hchk v hv hl)⟩, trivial⟩

end VState

namespace KState
open PyKey VState

theorem kdictSet_map (d : KDict) (k v : PyKey) : (kdictSet d k v).map cc = dictSet (d.map cc) (canon k) (canon v) := by
  induction d with
  | nil => rfl
  | cons p d ih =>
    obtain ⟨a, b⟩ := p
    simp only [kdictSet, List.map_cons, dictSet, cc, pyEq_eq_decide, decide_eq_true_eq]
    by_cases e : canon a = canon k
    · simp [e, cc]
    · simp only [e, if_false, List.map_cons, cc]
      rw [← ih]

theorem kdictHas_map (d : KDict) (k : PyKey) : kdictHas d k = dictHas (d.map cc) (canon k) := by
  simp only [kdictHas, dictHas, List.any_map, pyEq_eq_decide]
  rfl

theorem knewLabels_map (m : KDict) : (knewLabels m).map cc = newLabels (m.map cc) := by
  unfold knewLabels newLabels
  have gen : ∀ (m d : KDict), (m.foldl (fun d p => kdictSet d p.2 p.1) d).map cc =
      (m.map cc).foldl (fun d p => dictSet d p.2 p.1) (d.map cc) := by
    intro m
    induction m with
    | nil => intro d; rfl
    | cons p m ih => intro d; simp only [List.foldl_cons, List.map_cons, ih, kdictSet_map]; rfl
  exact gen m []

theorem kfresh_factors (k : KState) (h : k.toV.Inv) (m : KDict) (f c : Nat) :
    kfresh k m f c = safeRelabels.fresh k.toV (newLabels (m.map cc)) (fun x => dictHas (m.map cc) x) f c := by
  induction f generalizing c with
  | zero => simp [kfresh, safeRelabels.fresh]
  | succ f ih =>
    simp only [kfresh, safeRelabels.fresh, kdictHas_map, knewLabels_map, count_factors k h, canon, ih]

theorem krstep_map (k : KState) (h : k.toV.Inv) (m : KDict) (acc : Nat × KDict × KDict) (p : PyKey × PyKey) :
    ((krstep k m acc p).1, (krstep k m acc p).2.1.map cc, (krstep k m acc p).2.2.map cc) =
      rstep k.toV (m.map cc) (acc.1, acc.2.1.map cc, acc.2.2.map cc) (cc p) := by
  obtain ⟨ctr, o2i, i2n⟩ := acc
  have hlen : (m.map cc).length = m.length := List.length_map _
  have hstop : k.toV.stop = k.stop := rfl
  simp only [krstep, rstep, conf, freshOf, cc, pyEq_eq_decide, decide_eq_true_eq, kdictHas_map, knewLabels_map,
    kfresh_factors k h, hlen, hstop]
  by_cases e : canon p.1 = canon p.2
  · simp [e]
  · simp only [e, if_false]
    split
    · simp only [kdictSet_map, canon]
    · simp only [kdictSet_map]

theorem foldl_krstep_map (k : KState) (h : k.toV.Inv) (m : KDict) (t : KDict) : ∀ (acc : Nat × KDict × KDict),
    ((t.foldl (krstep k m) acc).1, (t.foldl (krstep k m) acc).2.1.map cc, (t.foldl (krstep k m) acc).2.2.map cc) =
      (t.map cc).foldl (rstep k.toV (m.map cc)) (acc.1, acc.2.1.map cc, acc.2.2.map cc) := by
  induction t with
  | nil => intro acc; rfl
  | cons p t ih =>
    intro acc
    simp only [List.foldl_cons, List.map_cons]
    rw [ih, krstep_map k h]

/-- the plan of `iter_safe_relabels` over objects is the label-level plan of the canonicalised mapping -/
theorem ksafeRelabels_factors (k : KState) (h : k.toV.Inv) (m : KDict) :
    (k.ksafeRelabels m).map (List.map (List.map cc)) = k.toV.safeRelabels (m.map cc) := by
  rw [safeRelabels_eq]
  unfold ksafeRelabels
  have hlen : (m.map cc).length = m.length := List.length_map _
  have hnl : (newLabels (m.map cc)).length = (knewLabels m).length := by rw [← knewLabels_map, List.length_map]
  have hany1 : ((newLabels (m.map cc)).any fun p => k.toV.count p.1 && !(dictHas (m.map cc) p.1)) =
      ((knewLabels m).any fun p => k.count p.1 && !(kdictHas m p.1)) := by
    rw [← knewLabels_map, List.any_map]
    congr 1
    funext p
    simp only [Function.comp, cc, count_factors k h, kdictHas_map]
  have hany3 : ((m.map cc).any fun p => dictHas (newLabels (m.map cc)) p.1) =
      (m.any fun p => kdictHas (knewLabels m) p.1) := by
    rw [List.any_map]
    congr 1
    funext p
    simp only [Function.comp, cc, kdictHas_map, knewLabels_map]
  rw [hlen, hnl, hany1, hany3]
  by_cases c1 : (knewLabels m).length < m.length
  · rw [if_pos c1, if_pos c1]; rfl
  · rw [if_neg c1, if_neg c1]
    by_cases c2 : ((knewLabels m).any fun p => k.count p.1 && !(kdictHas m p.1)) = true
    · rw [if_pos c2, if_pos c2]; rfl
    · rw [if_neg c2, if_neg c2]
      by_cases c3 : (m.any fun p => kdictHas (knewLabels m) p.1) = true
      · have hf := foldl_krstep_map k h m m (2 * m.length, [], [])
        simp only [List.map_nil] at hf
        rw [if_pos c3, if_pos c3, ← hf]
        rfl
      · rw [if_neg c3, if_neg c3]
        rfl

/-- the `_relabel` loop over one sub-mapping commutes with the abstraction when the sub-mapping is applicable -/
theorem kseq_factors (sub : KDict) : ∀ (k : KState), k.toV.Inv → SubOK k.toV (sub.map cc) →
    (k.kseq sub).toV = seqRelabel k.toV (sub.map cc) := by
  induction sub with
  | nil => intro k _ _; rfl
  | cons p t ih =>
    intro k h ok
    have hstep : (if pyEq p.1 p.2 || !(k.count p.1) then k else k.relabelOne p.1 p.2).toV = k.toV.stepOne (cc p) := by
      unfold stepOne
      have e1 : pyEq p.1 p.2 = decide ((cc p).1 = (cc p).2) := pyEq_eq_decide _ _
      have e2 : k.count p.1 = k.toV.count (cc p).1 := count_factors k h p.1
      rw [e1, e2, apply_ite toV, relabelOne_factors]
      rfl
    obtain ⟨hI1, ok1⟩ := SubOK.step h (p := cc p) (t := t.map cc) ok
    rw [← hstep] at hI1 ok1
    have := ih _ hI1 ok1
    simp only [kseq, List.foldl_cons, List.map_cons] at this ⊢
    rw [seqRelabel_cons', ← hstep]
    exact this

theorem plan_factors (subs : List KDict) : ∀ (k : KState), k.toV.Inv → PlanOK k.toV (subs.map (List.map cc)) →
    (subs.foldl kseq k).toV = (subs.map (List.map cc)).foldl seqRelabel k.toV := by
  induction subs with
  | nil => intro k _ _; rfl
  | cons sub rest ih =>
    intro k h ok
    obtain ⟨ok1, ok2⟩ := ok
    have e := kseq_factors sub k h ok1
    have hI := (seqRelabel_spec (sub.map cc) k.toV h ok1.1 ok1.2.1 ok1.2.2).1
    rw [← e] at hI ok2
    simp only [List.foldl_cons, List.map_cons]
    rw [ih _ hI ok2, e]

/-- **`_relabel(mapping)` over objects factors through `canon`** (mapping keys distinct as labels, which a Python
    dict guarantees): same accept / reject, and the resulting object-level state abstracts to the label-level result -/
theorem relabel_factors (k : KState) (h : k.toV.Inv) (m : KDict) (hk : (keys (m.map cc)).Nodup) :
    (k.relabel m).map toV = k.toV.relabel (m.map cc) := by
  have hs := ksafeRelabels_factors k h m
  rw [relabel_eq, ← hs]
  unfold relabel
  cases hsub : k.ksafeRelabels m with
  | none => rfl
  | some subs =>
    rw [hsub] at hs
    simp only [Option.map_some] at hs ⊢
    have ok := safeRelabels_planOK k.toV h (m.map cc) hk _ hs.symm
    rw [plan_factors subs k h ok]

end KState

namespace KState
open PyKey VState

/-- `_remove(v)` over objects factors through `canon` -/
theorem remove_factors (k : KState) (h : k.toV.Inv) (v : PyKey) :
    (k.remove v).map toV = k.toV.remove (canon v) := by
  unfold remove VState.remove
  rw [count_factors k h v]
  cases hc : k.toV.count (canon v) with
  | false => rfl
  | true =>
    have hmem := (k.toV.count_iff h _).1 hc
    have h0 : k.stop ≠ 0 := by
      intro e
      have : k.toV.abs = [] := (abs_eq_nil_iff k.toV).2 e
      rw [this] at hmem; cases hmem
    have hidx := idxOf_factors k v
    have hmap : ((List.range (k.stop - 1 - k.idxOf v)).map fun j =>
        (k.labelAt (k.idxOf v + j), k.labelAt (k.idxOf v + j + 1))).map cc =
        (List.range (k.toV.stop - 1 - k.toV.idxOf (canon v))).map fun j =>
          (k.toV.labelAt (k.toV.idxOf (canon v) + j), k.toV.labelAt (k.toV.idxOf (canon v) + j + 1)) := by
      rw [List.map_map, ← hidx]
      apply List.map_congr_left
      intro j _
      simp only [Function.comp, cc, labelAt_factors]
    simp only [Bool.not_true, Bool.false_eq_true, if_false, pop_factors k h0]
    have hpI : k.pop.1.toV.Inv := by
      have := popState_inv k.toV h h0
      have e : k.toV.pop = some (k.toV.popState, k.toV.labelAt (k.toV.stop - 1)) := by
        rw [pop_eq, if_neg (show ¬ k.toV.stop = 0 from h0)]
      rw [pop_factors k h0] at e
      simp only [Option.some.injEq, Prod.mk.injEq] at e
      rw [e.1]; exact this
    have hvi := (h.idxOf_spec hmem).1
    rw [← hmap]
    apply relabel_factors k.pop.1 hpI
    -- the chain keys are the labels at pairwise distinct positions
    rw [hmap]
    have : keys ((List.range (k.toV.stop - 1 - k.toV.idxOf (canon v))).map fun j =>
        (k.toV.labelAt (k.toV.idxOf (canon v) + j), k.toV.labelAt (k.toV.idxOf (canon v) + j + 1))) =
        (List.range (k.toV.stop - 1 - k.toV.idxOf (canon v))).map fun j => k.toV.labelAt (k.toV.idxOf (canon v) + j) := by
      simp [keys, List.map_map, Function.comp_def]
    rw [this]
    apply nodup_map_of_injOn _ _ List.nodup_range
    intro x hx y hy e
    have hx' := List.mem_range.mp hx
    have hy' := List.mem_range.mp hy
    have := h.labelAt_inj (i := k.toV.idxOf (canon v) + x) (j := k.toV.idxOf (canon v) + y) (by omega) (by omega) e
    omega

/-- every mutator over objects abstracts to the label-level step of the canonicalised operation -/
theorem step2_factors (k : KState) (h : k.toV.Inv) (op : KOp2) (hwf : op.toOp.WF) :
    ((k.step2 op).1.toV, (k.step2 op).2) = k.toV.step op.toOp := by
  cases op with
  | base op => exact step_factors k h op
  | relabel m =>
    have := relabel_factors k h m hwf
    simp only [step2, VState.step, KOp2.toOp]
    rw [← this]
    cases k.relabel m <;> rfl
  | remove v =>
    have := remove_factors k h v
    simp only [step2, VState.step, KOp2.toOp]
    rw [← this]
    cases k.remove v <;> rfl

/-- **histories of all mutators over objects** abstract step by step to the label-level history -/
theorem history2_factors (ops : List KOp2) : ∀ (k : KState), k.toV.Inv → (∀ op ∈ ops, op.toOp.WF) →
    (ops.foldl (fun k op => (k.step2 op).1) k).toV = (ops.map KOp2.toOp).foldl (fun s op => (s.step op).1) k.toV ∧
    (ops.foldl (fun k op => (k.step2 op).1) k).toV.Inv := by
  induction ops with
  | nil => intro k h _; exact ⟨rfl, h⟩
  | cons op ops ih =>
    intro k h hwf
    have hs := step2_factors k h op (hwf op List.mem_cons_self)
    have h1 : (k.step2 op).1.toV = (k.toV.step op.toOp).1 := congrArg Prod.fst hs
    have hI : (k.step2 op).1.toV.Inv := by
      rw [h1]
      exact (VState.step_refines k.toV h op.toOp (hwf op List.mem_cons_self)).1
    obtain ⟨e, hI'⟩ := ih (k.step2 op).1 hI (fun o ho => hwf o (List.mem_cons_of_mem _ ho))
    simp only [List.foldl_cons, List.map_cons]
    refine ⟨?_, hI'⟩
    rw [e, h1]

end KState
