import DimodProofs.CqmFileProofs
import DimodProofs.BqmFileProofs

/-! # Files whose body is a container (CQM: zip, DQM: npz): framing round trip and truncation
    under the stated contract of the container -/

namespace FileFmt

open Prog

/-- the contract of a container format: the complete body opens to `a`, no proper prefix of it
    opens at all -/
structure ContainerContract (openBody : Bytes → Option β) (body : Bytes) (a : β) : Prop where
  full : openBody body = some a
  cut : ∀ j, j < body.length → openBody (body.take j) = none

theorem containerLoad_full (pre text body : Bytes) (maj min : UInt8) (parse : Bytes → Option H) (h : H)
    (verOk : List Nat → Bool) (openBody : Bytes → Option β) (a : β)
    (hh : HeaderOK parse text h) (hver : verOk [maj.toNat, min.toNat] = true) (hc : ContainerContract openBody body a) :
    containerLoad pre parse verOk openBody (makeHeader pre maj min text ++ body) = .ok (h, a) := by
  unfold containerLoad
  rw [readHeader_full pre text maj min parse h hh.1 hh.2.1 hh.2.2 body]
  simp [hver, hc.full]

theorem containerLoad_cut (pre text body : Bytes) (maj min : UInt8) (parse : Bytes → Option H) (h : H)
    (verOk : List Nat → Bool) (openBody : Bytes → Option β) (a : β)
    (hh : HeaderOK parse text h) (hc : ContainerContract openBody body a) (hne : body ≠ [])
    (k : Nat) (hk : k < (makeHeader pre maj min text ++ body).length) :
    ∃ e, containerLoad pre parse verOk openBody ((makeHeader pre maj min text ++ body).take k) = .err e := by
  have hcomp := Comp.header pre text maj min parse h hh.1 hh.2.1 hh.2.2
  have hb0 : 0 < body.length := List.length_pos_iff.mpr hne
  unfold containerLoad
  by_cases hlt : k < (makeHeader pre maj min text).length
  · rw [take_append_lt (Nat.le_of_lt hlt)]
    rcases hcomp.cut k hlt with ⟨e, he⟩ | ⟨_, hok⟩
    · exact ⟨e, by rw [he]⟩
    · rw [hok]
      by_cases hv : verOk [maj.toNat, min.toNat] = true
      · have := hc.cut 0 hb0
        simp only [List.take_zero] at this
        exact ⟨.zip, by simp [hv, this]⟩
      · exact ⟨.value, by simp [hv]⟩
  · have hge : (makeHeader pre maj min text).length ≤ k := Nat.le_of_not_lt hlt
    rw [take_append_ge hge, hcomp.full]
    have hk2 : k - (makeHeader pre maj min text).length < body.length := by simp at hk; omega
    by_cases hv : verOk [maj.toNat, min.toNat] = true
    · exact ⟨.zip, by simp [hv, hc.cut _ hk2]⟩
    · exact ⟨.value, by simp [hv]⟩

/-! ## DQM -/

theorem Comp.bind_noread {p : Prog α} {g : α → Prog β} {xs : Bytes} {a : α} {b : β} {pad : Nat}
    (h : Comp p xs a pad) (hg : ∀ s, (g a).run s = .ok (b, s)) : Comp (p.bind g) xs b pad := by
  constructor
  · intro rest; rw [run_bind_ok (h.full rest)]; exact hg rest
  · intro k hk
    rcases h.cut k hk with ⟨e, he⟩ | ⟨hle, hok⟩
    · exact .inl ⟨e, run_bind_err he⟩
    · exact .inr ⟨hle, by rw [run_bind_ok hok]; exact hg []⟩

theorem magBIAS_ne : magBIAS ≠ [] := by decide

theorem dqmEncode_eq (hdrText : Bytes) (labelled : Bool) (npz varsText : Bytes) :
    dqmEncode hdrText labelled npz varsText = makeHeader dqmPrefix 1 1 hdrText ++ (magBIAS ++ (toLE 4 npz.length ++ (npz ++
      (if labelled then sectionDumps magVARS nlb4 varsText else [])))) := by
  simp [dqmEncode]

/-- **DQM framing** (header, `BIAS` + length + npz blob, optional `VARS`) under the npz contract -/
theorem Comp.dqm (parse : Bytes → Option (Bool × H)) (parseVars : Bytes → Option (List J)) (npLoad : Bytes → Option D)
    (nvarsOf : D → Nat) (hdrText npz varsText : Bytes) (labelled : Bool) (h : H) (d : D) (labels : List J)
    (hh : HeaderOK parse hdrText (labelled, h)) (hz : ContainerContract npLoad npz d) (hsz : npz.length < 256 ^ 4)
    (hv : labelled = true → VarsOK parseVars varsText labels ∧ labels.length = nvarsOf d) :
    ∃ pad, pad < 64 ∧ Comp (dqmDecode parse parseVars npLoad nvarsOf) (dqmEncode hdrText labelled npz varsText)
      (h, d, if labelled then some labels else none) pad := by
  rw [dqmEncode_eq]
  unfold dqmDecode
  have hver : (!tupleLt [(1 : UInt8).toNat, (1 : UInt8).toNat] [2, 0]) = false := by decide
  suffices hbody : ∃ pad, pad < 64 ∧ Comp (dqmBody parseVars npLoad nvarsOf labelled h)
      (magBIAS ++ (toLE 4 npz.length ++ (npz ++ (if labelled then sectionDumps magVARS nlb4 varsText else []))))
      (h, d, if labelled then some labels else none) pad by
    obtain ⟨pad, hp, hb⟩ := hbody
    refine ⟨pad, hp, ?_⟩
    refine Comp.bind_padded (Comp.header dqmPrefix hdrText 1 1 parse (labelled, h) hh.1 hh.2.1 hh.2.2) ?_ ?_
    · simp only [hver, Bool.false_eq_true, if_false]
      exact EofFails.bind _ (EofFails.expect _ magBIAS_ne)
    · simp only [hver, Bool.false_eq_true, if_false]
      exact hb
  unfold dqmBody
  cases labelled with
  | true =>
    obtain ⟨hvars, hlen⟩ := hv rfl
    refine ⟨sectionPad magVARS nlb4 varsText, padLen_lt _, ?_⟩
    refine Comp.bind_strict (Comp.expect magBIAS) ?_
    refine Comp.bind_strict (Comp.readLen 4 npz.length hsz (by decide)) ?_
    refine Comp.bind_lenient (fun rest => readN_full npz rest) (NoUB.readN _) ?_ ?_
    · intro blob
      unfold dqmFinish
      cases npLoad blob with
      | none => exact ⟨.zip, rfl⟩
      | some d' => simp only [if_true]; exact EofFails.bind _ (EofFails.section _ _ _ magVARS_ne)
    · unfold dqmFinish
      simp only [hz.full, if_true]
      refine Comp.bind_noread (Comp.vars parseVars varsText labels hvars.1 hvars.2.1 hvars.2.2) ?_
      intro s
      simp [hlen, run]
  | false =>
    refine ⟨0, by omega, ?_⟩
    simp only [Bool.false_eq_true, if_false, List.append_nil]
    refine Comp.bind_strict (Comp.expect magBIAS) ?_
    have hfin : ∀ blob, dqmFinish parseVars npLoad nvarsOf false h blob =
        Prog.ofRes (match npLoad blob with | none => .err .zip | some d' => .ok (h, d', none)) := by
      intro blob; unfold dqmFinish; cases npLoad blob <;> rfl
    have hre := Comp.readLoads npz (fun blob => match npLoad blob with | none => Res.err FErr.zip | some d' => Res.ok (h, d', (none : Option (List J))))
      (h, d, none) 0 (by simp [hz.full]) (fun j hj => .inl ⟨.zip, by simp [hz.cut j hj]⟩)
    refine Comp.bind_strict (Comp.readLen 4 npz.length hsz (by decide)) ?_
    simp only [hfin]
    exact hre

/-! ## containers located from their END (zip / npz: the end-of-central-directory record) -/

/-- **the zip contract.**  `zipfile.ZipFile` finds the archive through the end-of-central-directory
    record, which is the last thing in the data apart from `tail` further bytes (an archive
    comment; `0` for everything dimod writes).  The complete data opens to `a`; a proper prefix
    opens — with the same members — exactly when only bytes after that record were lost, and
    otherwise does not open at all.  This is the only trusted statement about the container; it
    is validated by the every-prefix sweep of C10. -/
structure ZipContract (openZip : Bytes → Option β) (body : Bytes) (a : β) (tail : Nat) : Prop where
  full : openZip body = some a
  keep : ∀ j, j < body.length → body.length ≤ j + tail → openZip (body.take j) = some a
  lose : ∀ j, j + tail < body.length → openZip (body.take j) = none

theorem ContainerContract.toZip {openZip : Bytes → Option β} {body : Bytes} {a : β} (h : ContainerContract openZip body a) :
    ZipContract openZip body a 0 :=
  ⟨h.full, fun j hj hle => by omega, fun j hj => h.cut j (by omega)⟩

/-- header + container read to the end of the file, cut anywhere -/
theorem containerLoad_trunc (pre text body : Bytes) (maj min : UInt8) (parse : Bytes → Option H) (h : H)
    (verOk : List Nat → Bool) (openBody : Bytes → Option β) (a : β) (tail : Nat)
    (hh : HeaderOK parse text h) (hver : verOk [maj.toNat, min.toNat] = true) (hc : ZipContract openBody body a tail)
    (htail : tail < body.length) (k : Nat) (hk : k < (makeHeader pre maj min text ++ body).length) :
    (∃ e, containerLoad pre parse verOk openBody ((makeHeader pre maj min text ++ body).take k) = .err e) ∨
    (containerLoad pre parse verOk openBody ((makeHeader pre maj min text ++ body).take k) = .ok (h, a) ∧
      (makeHeader pre maj min text ++ body).length ≤ k + tail) := by
  have hcomp := Comp.header pre text maj min parse h hh.1 hh.2.1 hh.2.2
  unfold containerLoad
  by_cases hlt : k < (makeHeader pre maj min text).length
  · left
    rw [take_append_lt (Nat.le_of_lt hlt)]
    rcases hcomp.cut k hlt with ⟨e, he⟩ | ⟨_, hok⟩
    · exact ⟨e, by rw [he]⟩
    · rw [hok]
      have := hc.lose 0 (by omega)
      simp only [List.take_zero] at this
      exact ⟨.zip, by simp [hver, this]⟩
  · have hge : (makeHeader pre maj min text).length ≤ k := Nat.le_of_not_lt hlt
    rw [take_append_ge hge, hcomp.full]
    have hk2 : k - (makeHeader pre maj min text).length < body.length := by simp at hk; omega
    by_cases hl : (k - (makeHeader pre maj min text).length) + tail < body.length
    · left; exact ⟨.zip, by simp [hver, hc.lose _ hl]⟩
    · right
      refine ⟨by simp [hver, hc.keep _ hk2 (by omega)], ?_⟩
      simp only [List.length_append]; omega

/-- **DQM files under the zip contract for the npz blob** -/
theorem Comp.dqmZ (parse : Bytes → Option (Bool × H)) (parseVars : Bytes → Option (List J)) (npLoad : Bytes → Option D)
    (nvarsOf : D → Nat) (hdrText npz varsText : Bytes) (labelled : Bool) (h : H) (d : D) (labels : List J) (tail : Nat)
    (hh : HeaderOK parse hdrText (labelled, h)) (hz : ZipContract npLoad npz d tail) (hsz : npz.length < 256 ^ 4)
    (hv : labelled = true → VarsOK parseVars varsText labels ∧ labels.length = nvarsOf d) :
    ∃ pad, (pad < 64 ∨ pad = tail) ∧ Comp (dqmDecode parse parseVars npLoad nvarsOf) (dqmEncode hdrText labelled npz varsText)
      (h, d, if labelled then some labels else none) pad := by
  rw [dqmEncode_eq]
  unfold dqmDecode
  have hver : (!tupleLt [(1 : UInt8).toNat, (1 : UInt8).toNat] [2, 0]) = false := by decide
  suffices hbody : ∃ pad, (pad < 64 ∨ pad = tail) ∧ Comp (dqmBody parseVars npLoad nvarsOf labelled h)
      (magBIAS ++ (toLE 4 npz.length ++ (npz ++ (if labelled then sectionDumps magVARS nlb4 varsText else []))))
      (h, d, if labelled then some labels else none) pad by
    obtain ⟨pad, hp, hb⟩ := hbody
    refine ⟨pad, hp, ?_⟩
    refine Comp.bind_padded (Comp.header dqmPrefix hdrText 1 1 parse (labelled, h) hh.1 hh.2.1 hh.2.2) ?_ ?_
    · simp only [hver, Bool.false_eq_true, if_false]
      exact EofFails.bind _ (EofFails.expect _ magBIAS_ne)
    · simp only [hver, Bool.false_eq_true, if_false]
      exact hb
  unfold dqmBody
  cases labelled with
  | true =>
    obtain ⟨hvars, hlen⟩ := hv rfl
    refine ⟨sectionPad magVARS nlb4 varsText, .inl (padLen_lt _), ?_⟩
    refine Comp.bind_strict (Comp.expect magBIAS) ?_
    refine Comp.bind_strict (Comp.readLen 4 npz.length hsz (by decide)) ?_
    refine Comp.bind_lenient (fun rest => readN_full npz rest) (NoUB.readN _) ?_ ?_
    · intro blob
      unfold dqmFinish
      cases npLoad blob with
      | none => exact ⟨.zip, rfl⟩
      | some d' => simp only [if_true]; exact EofFails.bind _ (EofFails.section _ _ _ magVARS_ne)
    · unfold dqmFinish
      simp only [hz.full, if_true]
      refine Comp.bind_noread (Comp.vars parseVars varsText labels hvars.1 hvars.2.1 hvars.2.2) ?_
      intro s
      simp [hlen, run]
  | false =>
    refine ⟨tail, .inr rfl, ?_⟩
    simp only [Bool.false_eq_true, if_false, List.append_nil]
    refine Comp.bind_strict (Comp.expect magBIAS) ?_
    have hfin : ∀ blob, dqmFinish parseVars npLoad nvarsOf false h blob =
        Prog.ofRes (match npLoad blob with | none => .err .zip | some d' => .ok (h, d', none)) := by
      intro blob; unfold dqmFinish; cases npLoad blob <;> rfl
    have hre := Comp.readLoads npz (fun blob => match npLoad blob with | none => Res.err FErr.zip | some d' => Res.ok (h, d', (none : Option (List J))))
      (h, d, none) tail (by simp [hz.full]) (fun j hj => by
        by_cases hl : j + tail < npz.length
        · exact .inl ⟨.zip, by simp [hz.lose j hl]⟩
        · exact .inr ⟨by omega, by simp [hz.keep j hj (by omega)]⟩)
    refine Comp.bind_strict (Comp.readLen 4 npz.length hsz (by decide)) ?_
    simp only [hfin]
    exact hre

end FileFmt
