import DimodProofs.VarsSteps
import DimodProofs.VarsMore
import DimodModel.LabelF

/-! Proofs for `DimodModel/LabelF.lean`: the encoding is injective and `int`-preserving, the embedding of `Label` is
    injective and never meets a label with a non-integral number, the image of the encoding is closed under every step
    of the list specification, hence every state reached by a `LabelF` history is the encoding of a duplicate-free
    `LabelF` list. -/

namespace LabelF

mutual
theorem enc_inj : ∀ (a b : LabelF), enc a = enc b → a = b
  | .int x, .int y, h => by simp only [enc, Label.int.injEq] at h; rw [h]
  | .str x, .str y, h => by simp only [enc, Label.str.injEq] at h; rw [h]
  | .frac n d, .frac n' d', h => by
      simp only [enc, Label.tup.injEq, List.cons.injEq, Label.int.injEq, and_true, true_and] at h
      obtain ⟨h1, h2⟩ := h
      rw [h1, Int.ofNat_inj.mp h2]
  | .tup x, .tup y, h => by
      simp only [enc, Label.tup.injEq, List.cons.injEq, true_and] at h
      rw [encList_inj x y h]
  | .int _, .str _, h => by simp [enc] at h
  | .int _, .frac _ _, h => by simp [enc] at h
  | .int _, .tup _, h => by simp [enc] at h
  | .str _, .int _, h => by simp [enc] at h
  | .str _, .frac _ _, h => by simp [enc] at h
  | .str _, .tup _, h => by simp [enc] at h
  | .frac _ _, .int _, h => by simp [enc] at h
  | .frac _ _, .str _, h => by simp [enc] at h
  | .frac _ _, .tup _, h => by simp [enc, fracTag, tupTag] at h
  | .tup _, .int _, h => by simp [enc] at h
  | .tup _, .str _, h => by simp [enc] at h
  | .tup _, .frac _ _, h => by simp [enc, fracTag, tupTag] at h
theorem encList_inj : ∀ (x y : List LabelF), encList x = encList y → x = y
  | [], [], _ => rfl
  | [], _ :: _, h => by simp [encList] at h
  | _ :: _, [], h => by simp [encList] at h
  | a :: x, b :: y, h => by
      simp only [encList, List.cons.injEq] at h
      rw [enc_inj a b h.1, encList_inj x y h.2]
end

theorem enc_eq_iff (a b : LabelF) : enc a = enc b ↔ a = b := ⟨enc_inj a b, fun h => by rw [h]⟩

/-- the integers of the encoded side are exactly the encoded integers -/
theorem enc_eq_int_iff (a : LabelF) (z : Int) : enc a = .int z ↔ a = .int z := by
  cases a <;> simp [enc]

mutual
theorem ofLabel_inj : ∀ (a b : Label), ofLabel a = ofLabel b → a = b
  | .int x, .int y, h => by simp only [ofLabel, LabelF.int.injEq] at h; rw [h]
  | .str x, .str y, h => by simp only [ofLabel, LabelF.str.injEq] at h; rw [h]
  | .tup x, .tup y, h => by
      simp only [ofLabel, LabelF.tup.injEq] at h
      rw [ofLabelList_inj x y h]
  | .int _, .str _, h => by simp [ofLabel] at h
  | .int _, .tup _, h => by simp [ofLabel] at h
  | .str _, .int _, h => by simp [ofLabel] at h
  | .str _, .tup _, h => by simp [ofLabel] at h
  | .tup _, .int _, h => by simp [ofLabel] at h
  | .tup _, .str _, h => by simp [ofLabel] at h
theorem ofLabelList_inj : ∀ (x y : List Label), ofLabelList x = ofLabelList y → x = y
  | [], [], _ => rfl
  | [], _ :: _, h => by simp [ofLabelList] at h
  | _ :: _, [], h => by simp [ofLabelList] at h
  | a :: x, b :: y, h => by
      simp only [ofLabelList, List.cons.injEq] at h
      rw [ofLabel_inj a b h.1, ofLabelList_inj x y h.2]
end

mutual
/-- an embedded plain label contains no non-integral number -/
theorem hasFrac_ofLabel : ∀ (a : Label), hasFrac (ofLabel a) = false
  | .int _ => rfl
  | .str _ => rfl
  | .tup l => by simp only [ofLabel, hasFrac]; exact hasFracList_ofLabelList l
theorem hasFracList_ofLabelList : ∀ (l : List Label), hasFracList (ofLabelList l) = false
  | [] => rfl
  | a :: l => by simp only [ofLabelList, hasFracList, hasFrac_ofLabel a, hasFracList_ofLabelList l, Bool.or_self]
end

/-- a label with a non-integral number somewhere is no embedded plain label: it aliases nothing of the old model -/
theorem frac_ne_ofLabel (a : LabelF) (h : hasFrac a = true) (l : Label) : a ≠ ofLabel l := by
  intro e; rw [e, hasFrac_ofLabel] at h; cases h

end LabelF

/-! ### the image of the encoding is closed under the list specification -/

namespace LabelF

/-- `x` is the encoding of some `LabelF` -/
def InImg (x : Label) : Prop := ∃ y : LabelF, enc y = x

theorem inImg_int (z : Int) : InImg (.int z) := ⟨.int z, rfl⟩
theorem inImg_enc (y : LabelF) : InImg (enc y) := ⟨y, rfl⟩

theorem autoLabel_int (l : List Label) : ∃ n : Int, LSpec.autoLabel l = .int n := by
  unfold LSpec.autoLabel
  split
  · exact ⟨_, rfl⟩
  · exact ⟨_, rfl⟩

theorem lookup_mem (m : List (Label × Label)) (k y : Label) (h : LSpec.lookup m k = some y) : y ∈ m.map Prod.snd := by
  induction m with
  | nil => simp [LSpec.lookup] at h
  | cons p t ih =>
    obtain ⟨a, b⟩ := p
    simp only [LSpec.lookup] at h
    split at h
    · simp only [Option.some.injEq] at h; simp [h]
    · simp only [List.map_cons, List.mem_cons]; exact Or.inr (ih h)

theorem keys_enc_nodup (m : List (LabelF × LabelF)) (h : (m.map Prod.fst).Nodup) :
    ((m.map fun p => (p.1.enc, p.2.enc)).map Prod.fst).Nodup := by
  rw [List.map_map]
  have : (Prod.fst ∘ fun p : LabelF × LabelF => (p.1.enc, p.2.enc)) = enc ∘ Prod.fst := by funext p; rfl
  rw [this, ← List.map_map]
  rw [List.Nodup, List.pairwise_map]
  exact List.Pairwise.imp (fun hne he => hne (enc_inj _ _ he)) h

theorem wf_enc (op : OpF) (h : op.WF) : op.enc.WF := by
  cases op <;> simp only [OpF.enc, VState.Op.WF]
  exact keys_enc_nodup _ h

/-- one step of the list specification with an encoded argument keeps every label in the image -/
theorem step_closed (l : List Label) (hl : ∀ x ∈ l, InImg x) (op : OpF) (hwf : op.WF) :
    ∀ x ∈ (LSpec.step l op.enc).1, InImg x := by
  cases op with
  | append v p =>
    cases v with
    | none =>
      simp only [OpF.enc, Option.map_none, LSpec.step]
      intro x hx
      rcases List.mem_append.mp hx with hx | hx
      · exact hl x hx
      · obtain ⟨n, hn⟩ := autoLabel_int l
        simp only [List.mem_singleton] at hx; rw [hx, hn]; exact inImg_int n
    | some v =>
      simp only [OpF.enc, Option.map_some, LSpec.step]
      split
      · exact hl
      · intro x hx
        rcases List.mem_append.mp hx with hx | hx
        · exact hl x hx
        · simp only [List.mem_singleton] at hx; rw [hx]; exact inImg_enc v
  | pop =>
    simp only [OpF.enc, LSpec.step]
    split
    · exact hl
    · intro x hx; exact hl x ((List.dropLast_sublist l).mem hx)
  | clear => simp [OpF.enc, LSpec.step]
  | relabel m =>
    simp only [OpF.enc, LSpec.step]
    split
    · intro x hx
      have hn := keys_enc_nodup m hwf
      rw [VState.dictOf_eq_self _ hn] at hx
      simp only [LSpec.subst, List.mem_map] at hx
      obtain ⟨y, hy, rfl⟩ := hx
      cases hlk : LSpec.lookup (m.map fun p => (p.1.enc, p.2.enc)) y with
      | none => simp only [Option.getD_none]; exact hl y hy
      | some z =>
        simp only [Option.getD_some]
        have := lookup_mem _ _ _ hlk
        simp only [List.map_map, List.mem_map, Function.comp] at this
        obtain ⟨p, _, rfl⟩ := this
        exact inImg_enc p.2
    · exact hl
  | relabelInts =>
    simp only [OpF.enc, LSpec.step]
    intro x hx
    simp only [List.mem_map] at hx
    obtain ⟨i, _, rfl⟩ := hx
    exact inImg_int _
  | remove v =>
    simp only [OpF.enc, LSpec.step]
    split
    · intro x hx; exact hl x (List.mem_of_mem_erase hx)
    · exact hl

/-- a list of labels in the image is the encoding of a list -/
theorem exists_preimage (l : List Label) (hl : ∀ x ∈ l, InImg x) : ∃ lF : List LabelF, lF.map enc = l := by
  induction l with
  | nil => exact ⟨[], rfl⟩
  | cons a t ih =>
    obtain ⟨y, hy⟩ := hl a (List.mem_cons_self ..)
    obtain ⟨tF, htF⟩ := ih (fun x hx => hl x (List.mem_cons_of_mem _ hx))
    exact ⟨y :: tF, by simp [hy, htF]⟩

theorem mem_map_enc (lF : List LabelF) (v : LabelF) : enc v ∈ lF.map enc ↔ v ∈ lF := by
  simp only [List.mem_map]
  constructor
  · rintro ⟨w, hw, he⟩; rw [← enc_inj _ _ he]; exact hw
  · intro h; exact ⟨v, h, rfl⟩

end LabelF

namespace VState

/-- every `LabelF` history keeps the invariant, refines the list specification run on the encoded history, and stays in
    the image of the encoding -/
theorem runF_spec (ops : List OpF) (hwf : ∀ op ∈ ops, op.WF) :
    (runF ops).Inv ∧ (runF ops).abs = LSpec.runF ops ∧ ∀ x ∈ (runF ops).abs, LabelF.InImg x := by
  have gen : ∀ (ops : List OpF) (s : VState) (l : List Label), s.Inv → s.abs = l → (∀ x ∈ l, LabelF.InImg x) → (∀ op ∈ ops, op.WF) →
      (ops.foldl (fun s op => (s.step op.enc).1) s).Inv ∧
      (ops.foldl (fun s op => (s.step op.enc).1) s).abs = ops.foldl (fun l op => (LSpec.step l op.enc).1) l ∧
      ∀ x ∈ (ops.foldl (fun s op => (s.step op.enc).1) s).abs, LabelF.InImg x := by
    intro ops
    induction ops with
    | nil => intro s l hi ha hl _; exact ⟨hi, ha, by simpa [ha] using hl⟩
    | cons op t ih =>
      intro s l hi ha hl hw
      have hop := hw op (List.mem_cons_self ..)
      have hr := step_refines s hi op.enc (LabelF.wf_enc op hop)
      have habs : (s.step op.enc).1.abs = (LSpec.step l op.enc).1 := by
        have := congrArg Prod.fst hr.2; simpa [ha] using this
      simp only [List.foldl_cons]
      exact ih _ _ hr.1 habs (LabelF.step_closed l hl op hop) (fun o ho => hw o (List.mem_cons_of_mem _ ho))
  exact gen ops empty [] inv_empty (by decide) (by simp) hwf

end VState

/-! ### the extended alphabet -/

namespace LabelF

theorem wf_enc2 (op : OpF2) (h : op.WF) : op.enc.WF := by
  cases op <;> simp only [OpF2.enc, VState.Op2.WF]
  exact wf_enc _ h

theorem extend_closed (vs : List (Option LabelF)) (p : Bool) (l : List Label) (hl : ∀ x ∈ l, InImg x) :
    ∀ x ∈ (LSpec.extend l (vs.map (Option.map enc)) p).1, InImg x := by
  induction vs generalizing l with
  | nil => simpa [LSpec.extend] using hl
  | cons v t ih =>
    simp only [List.map_cons, LSpec.extend]
    split
    · exact ih _ (step_closed l hl (.append v p) trivial)
    · exact hl

theorem step2_closed (l : List Label) (hl : ∀ x ∈ l, InImg x) (op : OpF2) (hwf : op.WF) :
    ∀ x ∈ (LSpec.step2 l op.enc).1, InImg x := by
  cases op with
  | base op => exact step_closed l hl op hwf
  | extend vs p => exact extend_closed vs p l hl
  | copy => exact hl
  | pickle => exact hl
  | slice sl =>
    simp only [OpF2.enc, LSpec.step2]
    split
    · rename_i l' hsl
      intro x hx
      simp only [LSpec.slice, Option.map_eq_some_iff] at hsl
      obtain ⟨idx, _, rfl⟩ := hsl
      exact hl x (SSM.mem_gather hx)
    · exact hl

end LabelF

namespace VState

theorem runF2_spec (ops : List OpF2) (hwf : ∀ op ∈ ops, op.WF) :
    (runF2 ops).Inv ∧ (runF2 ops).abs = LSpec.runF2 ops ∧ ∀ x ∈ (runF2 ops).abs, LabelF.InImg x := by
  have gen : ∀ (ops : List OpF2) (s : VState) (l : List Label), s.Inv → s.abs = l → (∀ x ∈ l, LabelF.InImg x) → (∀ op ∈ ops, op.WF) →
      (ops.foldl (fun s op => (s.step2 op.enc).1) s).Inv ∧
      (ops.foldl (fun s op => (s.step2 op.enc).1) s).abs = ops.foldl (fun l op => (LSpec.step2 l op.enc).1) l ∧
      ∀ x ∈ (ops.foldl (fun s op => (s.step2 op.enc).1) s).abs, LabelF.InImg x := by
    intro ops
    induction ops with
    | nil => intro s l hi ha hl _; exact ⟨hi, ha, by simpa [ha] using hl⟩
    | cons op t ih =>
      intro s l hi ha hl hw
      have hop := hw op (List.mem_cons_self ..)
      have hr := step2_refines s hi op.enc (LabelF.wf_enc2 op hop)
      have habs : (s.step2 op.enc).1.abs = (LSpec.step2 l op.enc).1 := by
        have := congrArg Prod.fst hr.2; simpa [ha] using this
      simp only [List.foldl_cons]
      exact ih _ _ hr.1 habs (LabelF.step2_closed l hl op hop) (fun o ho => hw o (List.mem_cons_of_mem _ ho))
  exact gen ops empty [] inv_empty (by decide) (by simp) hwf

/-- a sound state all of whose labels are encodings IS (the encoding of) a duplicate-free `LabelF` list, and `count` / `index`
    of any `LabelF` label are membership / position in it -/
theorem labelF_view (s : VState) (hinv : s.Inv) (himg : ∀ x ∈ s.abs, LabelF.InImg x) :
    ∃ lF : List LabelF, lF.map LabelF.enc = s.abs ∧ lF.Nodup ∧ lF.length = s.stop ∧
      (∀ v : LabelF, s.count v.enc = true ↔ v ∈ lF) ∧
      (∀ (v : LabelF) (i : Nat), s.index? v.enc = some i ↔ lF[i]? = some v) := by
  obtain ⟨lF, hlF⟩ := LabelF.exists_preimage _ himg
  refine ⟨lF, hlF, ?_, ?_, ?_, ?_⟩
  · have hn := abs_nodup _ hinv
    rw [← hlF, List.Nodup, List.pairwise_map] at hn
    exact List.Pairwise.imp (fun hne he => hne (by rw [he])) hn
  · have := abs_length s
    rw [← hlF, List.length_map] at this; exact this
  · intro v
    rw [count_iff _ hinv, ← hlF]; exact LabelF.mem_map_enc lF v
  · intro v i
    rw [index?_eq_some_iff _ hinv, ← hlF, List.getElem?_map]
    cases lF[i]? with
    | none => simp
    | some w => simp [LabelF.enc_eq_iff]

end VState
