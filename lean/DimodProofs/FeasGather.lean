import DimodProofs.FeasMore
import DimodProofs.FeasCqm
import Mathlib.Data.List.TakeWhile

/-! C08 — samples wider than the model: the gather step of `_energies` reads each variable by LABEL, so superfluous columns and
    the column order are irrelevant. -/

namespace Feas
open CqmP

theorem nbhEnergy_congr (u : Nat) (x y : Nat → Rat) (nb : List (Nat × Rat)) (h : ∀ i, i ≤ u → x i = y i) :
    nbhEnergy u x nb = nbhEnergy u y nb := by
  unfold nbhEnergy
  congr 1
  apply List.map_congr_left
  intro p hp
  have hle : p.1 ≤ u := by simpa using List.mem_takeWhile_imp hp
  rw [h u (le_refl u), h p.1 hle]

theorem qbEnergy_congr (q : QB) (x y : Nat → Rat) (h : ∀ i, i < q.lin.length → x i = y i) : qbEnergy q x = qbEnergy q y := by
  unfold qbEnergy
  congr 2
  apply List.map_congr_left
  intro u hu
  have hu' : u < q.lin.length := List.mem_range.mp hu
  rw [h u hu', nbhEnergy_congr u x y _ (fun i hi => h i (lt_of_le_of_lt hi hu'))]


theorem exprEnergyOfSample_eq (modelLabels sampleLabels : List Label) (row : List Rat) (e : Expr)
    (hlen : e.qb.lin.length = e.vars.length) :
    exprEnergyOfSample modelLabels sampleLabels row e
      = exprEnergy e (fun g => sampleVal sampleLabels row (modelLabels.getD g (.int 0))) := by
  unfold exprEnergyOfSample exprEnergy exprEnergyWith polyValue
  split
  · rfl
  · apply qbEnergy_congr
    intro i hi
    rw [hlen] at hi
    unfold gatherRow
    simp [List.getD_eq_getElem?_getD, List.getElem?_map, List.getElem?_eq_getElem hi]

theorem sampleVal_get {s : List Label} (hnd : s.Nodup) (row : List Rat) {j : Nat} {l : Label} (hj : s[j]? = some l) :
    sampleVal s row l = row.getD j 0 := by
  unfold sampleVal
  rw [(findIdx_eq_some_iff hnd).mpr hj]

end Feas
