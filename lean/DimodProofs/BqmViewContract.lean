import DimodProofs.BqmViewRemove

/-! `contract_variables(u, v)` through a `VartypeView` of the other vartype: a chain of the view's own methods, so what
    the view shows goes through `LPoly.contract` — the same specification as for the call on the model itself.
    Core Lean only. -/

namespace Bqm

/-! ### the data's vartype is never changed by a write through a view -/

theorem vt_vAddLinear (m : Bqm) (tv : VT) (v : Label) (b : Rat) : (m.vAddLinear tv v b).vt = m.vt := by
  unfold Bqm.vAddLinear
  split
  · exact vt_addLinear m v b
  · cases tv
    · exact vt_addLinear m v (2 * b)
    · exact vt_addLinear m v (b / 2)

theorem vt_vSetOffset (m : Bqm) (tv : VT) (b : Rat) : (m.vSetOffset tv b).vt = m.vt := by
  unfold Bqm.vSetOffset; split <;> rfl

theorem vt_vAddQuadratic (m : Bqm) (tv : VT) (u v : Label) (b : Rat) : (m.vAddQuadratic tv u v b).vt = m.vt := by
  unfold Bqm.vAddQuadratic
  split
  · exact vt_quadOp m u v b false
  · cases tv
    · show (((m.quadOp u v (4 * b) false).1.addLinear u (-2 * b)).addLinear v (-2 * b)).vt = m.vt
      rw [vt_addLinear, vt_addLinear, vt_quadOp]
    · show (((m.quadOp u v (b / 4) false).1.addLinear u (b / 4)).addLinear v (b / 4)).vt = m.vt
      rw [vt_addLinear, vt_addLinear, vt_quadOp]

theorem vt_vAddVariable (m : Bqm) (tv : VT) (v : Option Label) (b : Rat) : (m.vAddVariable tv v b).vt = m.vt := by
  unfold Bqm.vAddVariable
  simp only []
  rw [vt_vAddLinear, vt_addLinear]

theorem vt_vSetQuadratic (m : Bqm) (tv : VT) (u v : Label) (b : Rat) : (m.vSetQuadratic tv u v b).1.vt = m.vt := by
  unfold Bqm.vSetQuadratic
  split
  · rfl
  · simp only []
    split
    · rw [vt_vAddQuadratic, vt_vAddQuadratic, vt_vAddVariable, vt_vAddVariable]
    · rw [vt_vAddQuadratic, vt_vAddVariable, vt_vAddVariable]

theorem vt_vRemoveInteraction (m : Bqm) (tv : VT) (u v : Label) : (m.vRemoveInteraction tv u v).1.vt = m.vt := by
  unfold Bqm.vRemoveInteraction
  split
  · exact vt_removeInteraction m u v
  · split
    · rfl
    · split
      · split
        · rfl
        · simp only []; rw [vt_removeInteraction, vt_vSetQuadratic]
      · rfl

theorem loop_vt (stepM : Bqm → Label → Rat → Bqm) (h : ∀ acc l c, (stepM acc l c).vt = acc.vt) (items : List (Nat × Rat)) (acc : Bqm) :
    (items.foldl (loopBody stepM) acc).vt = acc.vt := by
  induction items generalizing acc with
  | nil => rfl
  | cons p t ih =>
    simp only [List.foldl]
    rw [ih]
    unfold loopBody
    split
    · exact h _ _ _
    · rfl

/-- the part of `contract_variables` after the linear bias of `v` and the bias of `(u, v)` have been folded in, through
    a view of the other vartype -/
theorem view_contract_tail {m2 : Bqm} (i2 : Inv m2) (tv : VT) (htv2 : tv ≠ m2.vt) (u v : Label) {ui vi : Nat}
    (hu2 : m2.indexOf? u = some ui) (hv2 : m2.indexOf? v = some vi) :
    (absL (((m2.vRemoveInteraction tv u v).1.nbhAt vi).foldl
        (loopBody fun acc wl c => acc.vAddQuadratic tv u wl ((m2.vRemoveInteraction tv u v).1.vQuadFactor tv * c))
        (m2.vRemoveInteraction tv u v).1 |>.vRemoveVariable tv (some v)).1).viewP tv = ((absL m2).viewP tv).contractTail u v ∧
    (((m2.vRemoveInteraction tv u v).1.nbhAt vi).foldl
        (loopBody fun acc wl c => acc.vAddQuadratic tv u wl ((m2.vRemoveInteraction tv u v).1.vQuadFactor tv * c))
        (m2.vRemoveInteraction tv u v).1 |>.vRemoveVariable tv (some v)).2 = none ∧
    Inv (((m2.vRemoveInteraction tv u v).1.nbhAt vi).foldl
        (loopBody fun acc wl c => acc.vAddQuadratic tv u wl ((m2.vRemoveInteraction tv u v).1.vQuadFactor tv * c))
        (m2.vRemoveInteraction tv u v).1 |>.vRemoveVariable tv (some v)).1 := by
  -- 4. remove the interaction (u, v)
  have r3 := view_removeInteraction i2 tv u v htv2
  have vt3' : (m2.vRemoveInteraction tv u v).1.vt = m2.vt := vt_vRemoveInteraction m2 tv u v
  have e3' : LabelsExt m2 (m2.vRemoveInteraction tv u v).1 := ext_vRemoveInteraction m2 tv u v
  generalize (m2.vRemoveInteraction tv u v).1 = m3 at r3 vt3' e3'
  have hv3 := e3'.indexOf? hv2
  have i3 := r3.2.2
  -- what the view shows now has no (v, u) entry
  have hvu3 : ((absL m3).viewP tv).quad v u = none := by
    rw [r3.1]
    by_cases hs : (((absL m2).viewP tv).quad u v).isSome = true
    · rw [if_pos hs]
      show (if (v = u ∧ u = v) ∨ (v = v ∧ u = u) then none else _) = none
      rw [if_pos (Or.inr ⟨rfl, rfl⟩)]
    · rw [if_neg hs]
      have hsym : ((absL m2).viewP tv).quad v u = ((absL m2).viewP tv).quad u v := by
        show ((absL m2).quad v u).map _ = ((absL m2).quad u v).map _
        rw [quad_symm i2 v u]
      rw [hsym]
      cases hc : ((absL m2).viewP tv).quad u v with
      | none => rfl
      | some c => rw [hc] at hs; exact absurd rfl hs
  have hdata3 : (absL m3).quad v u = none := by
    have h' : ((absL m3).quad v u).map ((absL m3).viewFactor tv * ·) = none := hvu3
    cases hc : (absL m3).quad v u with
    | none => rfl
    | some c => rw [hc] at h'; cases h'
  -- 5. the interactions of `v` move to `u`
  have facts := nbh_label_facts i3 hv3
  have hb : ∀ p ∈ m3.nbhAt vi, p.1 < m3.labels.length := fun p hp => (facts p hp).1
  have hgood : ∀ p ∈ m3.nbhAt vi, u ≠ (m3.labels.getD p.1 (.int 0)) := by
    intro p hp e
    have := (facts p hp).2
    rw [← e, hdata3] at this; cases this
  have L := loop_view tv m3 (m3.nbhAt vi) hb (fun acc wl c => acc.vAddQuadratic tv u wl (m3.vQuadFactor tv * c))
    (fun q wl c => q.quadOp u wl (m3.vQuadFactor tv * c) false) (fun wl => u ≠ wl) hgood
    (by
      intro acc ia wl c hwl
      have r := view_addQuadratic ia tv u wl (m3.vQuadFactor tv * c) hwl
      exact ⟨r.1, r.2, ext_vAddQuadratic acc tv u wl _⟩)
    m3 i3 (LabelsExt.refl m3)
  rw [← nbrs_absL i3 hv3] at L
  obtain ⟨hL, iL, eL⟩ := L
  have vt4 := loop_vt (fun acc wl c => acc.vAddQuadratic tv u wl (m3.vQuadFactor tv * c))
    (fun acc l c => vt_vAddQuadratic acc tv u l _) (m3.nbhAt vi) m3
  generalize (m3.nbhAt vi).foldl (loopBody fun acc wl c => acc.vAddQuadratic tv u wl (m3.vQuadFactor tv * c)) m3 = m4 at hL iL eL vt4
  have hv4 := eL.indexOf? hv3
  have htv4 : tv ≠ m4.vt := by rw [vt4, vt3']; exact htv2
  -- 6. drop `v`
  have r5 := view_removeKey iL tv v hv4 htv4
  refine ⟨?_, r5.2.1, r5.2.2⟩
  rw [r5.1, hL]
  unfold LPoly.contractTail
  have hnb : ((absL m3).viewP tv).nbrs v = ((absL m3).nbrs v).map fun lc => (lc.1, m3.vQuadFactor tv * lc.2) := nbrs_viewP (absL m3) tv v
  rw [← r3.1]
  dsimp only
  rw [hnb, List.foldl_map]

/-- **`contract_variables(u, v)` through a view of the other vartype** -/
theorem view_contract {m : Bqm} (i : Inv m) (tv : VT) (u v : Label) {ui vi : Nat} (hu : m.indexOf? u = some ui)
    (hv : m.indexOf? v = some vi) (hne : u ≠ v) (htv : tv ≠ m.vt) :
    (absL (m.vContract tv u v).1).viewP tv = ((absL m).viewP tv).contract u v ∧ (m.vContract tv u v).2 = none ∧
    Inv (m.vContract tv u v).1 := by
  have hne' : ui ≠ vi := fun e => hne ((idx_eq_iff hu hv).mp e)
  -- 1. the linear bias of `v` goes to `u`
  have r1 := view_addLinear i tv u (m.vGetLinear tv vi)
  have e1 : LabelsExt m (m.vAddLinear tv u (m.vGetLinear tv vi)) := ext_vAddLinear m tv u _
  have vt1 : (m.vAddLinear tv u (m.vGetLinear tv vi)).vt = m.vt := vt_vAddLinear m tv u _
  have hlin := view_read_lin i tv hv
  unfold Bqm.vContract LPoly.contract
  rw [hu, hv]
  simp only [hne', if_false]
  have hvtP : ((absL m).viewP tv).vt = tv := rfl
  rw [hvtP]
  generalize m.vAddLinear tv u (m.vGetLinear tv vi) = m1 at r1 e1 vt1
  rw [hlin] at r1
  have hu1 := e1.indexOf? hu
  have hv1 := e1.indexOf? hv
  -- 2. the bias of the pair as the view reads it
  have hq : (m1.vGetQuadratic tv ui vi).getD 0 = ((((absL m).viewP tv).addLinear u (((absL m).viewP tv).lin v)).quad u v).getD 0 := by
    rw [← r1.1]
    show ((m1.quadAt ui vi).map (m1.vQuadFactor tv * ·)).getD 0 = (((absL m1).quad u v).map ((absL m1).viewFactor tv * ·)).getD 0
    rw [quad_absL hu1 hv1]; rfl
  rw [hq]
  generalize ((((absL m).viewP tv).addLinear u (((absL m).viewP tv).lin v)).quad u v).getD 0 = q
  cases tv with
  | binary =>
    simp only []
    -- 3. … folded into `u`
    have r2 := view_addLinear r1.2 .binary u q
    have e2 : LabelsExt m1 (m1.vAddLinear .binary u q) := ext_vAddLinear m1 .binary u q
    have vt2 : (m1.vAddLinear .binary u q).vt = m.vt := by rw [vt_vAddLinear, vt1]
    generalize m1.vAddLinear .binary u q = m2 at r2 e2 vt2
    have t := view_contract_tail r2.2 .binary (by rw [vt2]; exact htv) u v (e2.indexOf? hu1) (e2.indexOf? hv1)
    refine ⟨?_, t.2.1, t.2.2⟩
    rw [t.1, r2.1, r1.1]
  | spin =>
    simp only []
    -- 3. … folded into the offset
    have r2 := view_setOffset r1.2 .spin (m1.vOffset .spin + q)
    have e2 : LabelsExt m1 (m1.vSetOffset .spin (m1.vOffset .spin + q)) := ext_vSetOffset m1 .spin _
    have vt2 : (m1.vSetOffset .spin (m1.vOffset .spin + q)).vt = m.vt := by rw [vt_vSetOffset, vt1]
    have hoff : m1.vOffset .spin = ((absL m1).viewP .spin).off := (viewOff_absL r1.2 .spin).symm
    generalize m1.vSetOffset .spin (m1.vOffset .spin + q) = m2 at r2 e2 vt2
    have t := view_contract_tail r2.2 .spin (by rw [vt2]; exact htv) u v (e2.indexOf? hu1) (e2.indexOf? hv1)
    refine ⟨?_, t.2.1, t.2.2⟩
    rw [t.1, r2.1, hoff, r1.1]

end Bqm
