import DimodProofs.CqmRefine
import Mathlib.Data.List.Perm.Subperm

/-! The two label lists of a CQM stay duplicate free under every operation (property C05; the list
    semantics of `Variables` itself is property C13's). -/

namespace CqmP
open Cqm

/-! ### `Variables._relabel` on the list specification keeps a duplicate-free list duplicate free -/

theorem lspec_lookup_mem {d : List (Label × Label)} {k v : Label} (h : LSpec.lookup d k = some v) : (k, v) ∈ d := by
  induction d with
  | nil => cases h
  | cons p t ih =>
    obtain ⟨a, b⟩ := p
    unfold LSpec.lookup at h
    split_ifs at h with hak
    · cases h; rw [hak]; exact List.mem_cons_self
    · exact List.mem_cons_of_mem _ (ih h)

theorem lspec_lookup_none {d : List (Label × Label)} {k : Label} (h : LSpec.lookup d k = none) : VState.dictHas d k = false := by
  induction d with
  | nil => rfl
  | cons p t ih =>
    obtain ⟨a, b⟩ := p
    unfold LSpec.lookup at h
    split_ifs at h with hak
    unfold VState.dictHas
    simp only [List.any_cons, hak, decide_false, Bool.false_or]
    exact ih h

theorem snd_inj_of_nodup {d : List (Label × Label)} (hnd : (d.map (·.2)).Nodup) {x y a : Label}
    (hx : (x, a) ∈ d) (hy : (y, a) ∈ d) : x = y := by
  induction d with
  | nil => cases hx
  | cons p t ih =>
    rw [List.map_cons, List.nodup_cons] at hnd
    rcases List.mem_cons.mp hx with h1 | h1 <;> rcases List.mem_cons.mp hy with h2 | h2
    · rw [← h2] at h1; exact (Prod.mk.inj h1).1
    · exfalso; apply hnd.1; rw [← h1]; exact List.mem_map.mpr ⟨(y, a), h2, rfl⟩
    · exfalso; apply hnd.1; rw [← h2]; exact List.mem_map.mpr ⟨(x, a), h1, rfl⟩
    · exact ih hnd.2 h1 h2

theorem lspec_relabel_nodup (l : List Label) (mp : List (Label × Label)) (hnd : l.Nodup) :
    (LSpec.step l (.relabel mp)).1.Nodup := by
  show (if LSpec.relabelOk mp l then (LSpec.subst (LSpec.dictOf mp) l, true) else (l, false)).1.Nodup
  split_ifs with hok
  swap
  · exact hnd
  · unfold LSpec.relabelOk at hok
    simp only [Bool.and_eq_true, decide_eq_true_eq, List.all_eq_true] at hok
    obtain ⟨hnews, hall⟩ := hok
    unfold LSpec.subst
    apply List.Nodup.map_on _ hnd
    intro x hx y hy hxy
    cases hlx : LSpec.lookup (LSpec.dictOf mp) x with
    | some a =>
      cases hly : LSpec.lookup (LSpec.dictOf mp) y with
      | some b =>
        rw [hlx, hly] at hxy
        simp only [Option.getD_some] at hxy
        subst hxy
        exact snd_inj_of_nodup hnews (lspec_lookup_mem hlx) (lspec_lookup_mem hly)
      | none =>
        rw [hlx, hly] at hxy
        simp only [Option.getD_some, Option.getD_none] at hxy
        exfalso
        have := hall (x, a) (lspec_lookup_mem hlx)
        simp only [hxy, hy, decide_true, lspec_lookup_none hly, Bool.not_false, Bool.and_self, Bool.not_true,
          Bool.false_eq_true] at this
    | none =>
      cases hly : LSpec.lookup (LSpec.dictOf mp) y with
      | some b =>
        rw [hlx, hly] at hxy
        simp only [Option.getD_some, Option.getD_none] at hxy
        exfalso
        have := hall (y, b) (lspec_lookup_mem hly)
        simp only [← hxy, hx, decide_true, lspec_lookup_none hlx, Bool.not_false, Bool.and_self, Bool.not_true,
          Bool.false_eq_true] at this
      | none =>
        rw [hlx, hly] at hxy
        simpa using hxy


/-! ### the generated label is fresh -/

theorem least_fresh (l : List Label) : ∀ (fuel i : Nat), (∃ j, i ≤ j ∧ j < i + fuel ∧ Label.int j ∉ l) →
    Label.int (LSpec.autoLabel.least l fuel i) ∉ l := by
  intro fuel
  induction fuel with
  | zero => intro i ⟨j, h1, h2, _⟩; omega
  | succ f ih =>
    intro i ⟨j, h1, h2, h3⟩
    unfold LSpec.autoLabel.least
    split_ifs with hi
    · apply ih
      have : j ≠ i := by intro h; subst h; exact h3 hi
      exact ⟨j, by omega, by omega, h3⟩
    · exact hi

theorem exists_free (l : List Label) : ∃ j, 0 ≤ j ∧ j < 0 + (l.length + 1) ∧ Label.int (j : Nat) ∉ l := by
  by_contra hcon
  have hall : ∀ j, j < l.length + 1 → Label.int (j : Nat) ∈ l := by
    intro j hj
    by_contra hnot
    exact hcon ⟨j, Nat.zero_le _, by omega, hnot⟩
  have hsub : (List.range (l.length + 1)).map (fun j : Nat => Label.int j) ⊆ l := by
    intro x hx
    obtain ⟨j, hj, rfl⟩ := List.mem_map.mp hx
    exact hall j (List.mem_range.mp hj)
  have hnd : ((List.range (l.length + 1)).map (fun j : Nat => Label.int j)).Nodup := by
    apply List.Nodup.map_on _ List.nodup_range
    intro a _ b _ hab
    have : (a : Int) = (b : Int) := by injection hab
    exact_mod_cast this
  have := (List.subperm_of_subset hnd hsub).length_le
  simp at this
  omega

theorem autoLabel_fresh (l : List Label) : LSpec.autoLabel l ∉ l := by
  unfold LSpec.autoLabel
  split_ifs with h
  · exact least_fresh l _ _ (exists_free l)
  · exact h

/-! ### every operation keeps both label lists duplicate free -/

theorem nodup_append_fresh {l : List Label} (h : l.Nodup) {v : Label} (hv : v ∉ l) : (l ++ [v]).Nodup := by
  rw [List.nodup_append]
  refine ⟨h, by simp, ?_⟩
  intro a ha b hb
  have : b = v := by simpa using hb
  subst this; intro hab; subst hab; exact hv ha

theorem idx?_none_not_mem {m : Cqm} {v : Label} (h : m.idx? v = none) : v ∉ m.labels := findIdx_none_iff.mp h

theorem addVariableCore_labels {m : Cqm} (h : CqmLabelsOK m) (vt : VT4) (v : Option Label) (lbG ubG : Bool) (lbv ubv : Rat) :
    CqmLabelsOK (m.addVariableCore vt v lbG ubG lbv ubv).1 := by
  unfold Cqm.addVariableCore
  split_ifs
  all_goals try exact h
  split
  · split_ifs <;> exact h
  · rename_i hnone
    refine ⟨?_, h.clabels_nodup⟩
    show (m.labels ++ [_]).Nodup
    apply nodup_append_fresh h.labels_nodup
    cases v with
    | none => exact autoLabel_fresh _
    | some l => exact idx?_none_not_mem hnone

theorem addOne_labels {m : Cqm} (h : CqmLabelsOK m) (p : Label × VT4 × Rat × Rat) : CqmLabelsOK (addOne m p) := by
  unfold addOne
  cases hidx : m.idx? p.1 with
  | some g => exact h
  | none => exact ⟨nodup_append_fresh h.labels_nodup (idx?_none_not_mem hidx), h.clabels_nodup⟩

theorem addMissing_labels {m : Cqm} (h : CqmLabelsOK m) (mi : ModelIn) : CqmLabelsOK (m.addMissing mi) := by
  rw [addMissing_eq]
  generalize mi.vars.zip mi.info = l
  induction l generalizing m with
  | nil => exact h
  | cons p t ih => rw [List.foldl_cons]; exact ih (addOne_labels h p)

theorem addMissing_clabels (m : Cqm) (mi : ModelIn) : (m.addMissing mi).clabels = m.clabels := by
  rw [addMissing_eq]
  generalize mi.vars.zip mi.info = l
  induction l generalizing m with
  | nil => rfl
  | cons p t ih =>
    rw [List.foldl_cons, ih]
    unfold addOne
    cases m.idx? p.1 <;> rfl

theorem setWeight_labels {m : Cqm} (h : CqmLabelsOK m) (ci : Nat) (w : Option Rat) (pen : Nat) :
    CqmLabelsOK (m.setWeight ci w pen).1 := by
  unfold Cqm.setWeight
  split <;> split_ifs <;> first | exact h | exact ⟨h.labels_nodup, h.clabels_nodup⟩

theorem pushCons_labels {m : Cqm} (h : CqmLabelsOK m) (e : Expr) (sense : Sense) (rhs : Rat) {label : Label}
    (hl : label ∉ m.clabels) (weight : Option Rat) (pen : Nat) : CqmLabelsOK (m.pushCons e sense rhs label weight pen).1 := by
  have h1 : CqmLabelsOK ({ m with cons := m.cons ++ [({ e := e, sense := sense, rhs := rhs } : Cons)],
                                   clabels := m.clabels ++ [label] } : Cqm) :=
    ⟨h.labels_nodup, nodup_append_fresh h.clabels_nodup hl⟩
  unfold Cqm.pushCons
  simp only []
  split
  · exact h1
  · exact setWeight_labels h1 _ _ _

theorem addConstraintModel_labels {m : Cqm} (h : CqmLabelsOK m) (mi : ModelIn) (sense : Sense) (rhs : Rat) (label : Label)
    (copy : Bool) (weight : Option Rat) (pen : Nat) : CqmLabelsOK (m.addConstraintModel mi sense rhs label copy weight pen).1 := by
  unfold Cqm.addConstraintModel
  by_cases hl : label ∈ m.clabels
  · rw [if_pos hl]; exact h
  · rw [if_neg hl]
    by_cases hcf : m.conflicts mi = true
    · rw [if_pos hcf]; exact h
    · rw [if_neg hcf]
      exact pushCons_labels (addMissing_labels h mi) _ _ _ (by rw [addMissing_clabels]; exact hl) _ _

theorem markLast_labels {r : Res} (hr : CqmLabelsOK r.1) (k : Nat) :
    CqmLabelsOK (match r with
      | (m1, none) => ((m1.modCons k fun c => { c with discrete := true }, none) : Res)
      | r => r).1 := by
  obtain ⟨m1, e⟩ := r
  cases e with
  | none => exact ⟨hr.labels_nodup, hr.clabels_nodup⟩
  | some c => exact hr

theorem removeVariableR_labels {m : Cqm} (h : CqmLabelsOK m) (v : Label) : CqmLabelsOK (m.removeVariableR v).1 := by
  unfold Cqm.removeVariableR
  split
  · exact h
  · split_ifs
    · exact h
    · exact removeVarAt_labelsOK h _

theorem removeLabels_labels (ls : List Label) : ∀ {m : Cqm}, CqmLabelsOK m → CqmLabelsOK (m.removeLabels ls).1 := by
  induction ls with
  | nil => intro m h; exact h
  | cons v t ih =>
    intro m h
    unfold Cqm.removeLabels
    have h1 := removeVariableR_labels h v
    cases hr : m.removeVariableR v with
    | mk m1 r =>
      rw [hr] at h1
      cases r with
      | none => exact ih h1
      | some c => exact h1

theorem fixVariableR_labels {m : Cqm} (h : CqmLabelsOK m) (v : Label) (a : Rat) : CqmLabelsOK (m.fixVariableR v a).1 := by
  unfold Cqm.fixVariableR
  split
  · exact h
  · exact removeVarAt_labelsOK (m := m.mapExprs _) ⟨h.labels_nodup, h.clabels_nodup⟩ _

theorem fixVariablesInplace_labels (fixed : List (Label × Rat)) : ∀ {m : Cqm}, CqmLabelsOK m → CqmLabelsOK (m.fixVariablesInplace fixed).1 := by
  induction fixed with
  | nil => intro m h; exact h
  | cons p t ih =>
    intro m h
    obtain ⟨v, a⟩ := p
    unfold Cqm.fixVariablesInplace
    have h1 := fixVariableR_labels h v a
    cases hr : m.fixVariableR v a with
    | mk m1 r =>
      rw [hr] at h1
      cases r with
      | none => exact ih h1
      | some c => exact h1

theorem changeVartypeAt_labels {m : Cqm} (h : CqmLabelsOK m) (vt : VT4) (g : Nat) : CqmLabelsOK (m.changeVartypeAt vt g).1 := by
  unfold Cqm.changeVartypeAt
  simp only []
  split_ifs <;> first | exact h | exact ⟨h.labels_nodup, h.clabels_nodup⟩

theorem spinToBinary_labels {m : Cqm} (h : CqmLabelsOK m) : CqmLabelsOK m.spinToBinary := by
  unfold Cqm.spinToBinary
  generalize List.range m.numVars = l
  induction l generalizing m with
  | nil => exact h
  | cons g t ih =>
    rw [List.foldl_cons]
    apply ih
    split_ifs
    · exact changeVartypeAt_labels h _ g
    · exact h

theorem ofOpt_modExpr_labels {m : Cqm} (h : CqmLabelsOK m) (w : Option Label) (f : Expr → Expr) :
    CqmLabelsOK (m.ofOpt (m.modExpr w f)).1 := by
  unfold Cqm.modExpr
  cases w with
  | none => exact ⟨h.labels_nodup, h.clabels_nodup⟩
  | some l =>
    simp only []
    cases m.cidx? l with
    | none => exact h
    | some ci => exact ⟨h.labels_nodup, h.clabels_nodup⟩

theorem step_labels {m : Cqm} (h : CqmLabelsOK m) (op : Op) : CqmLabelsOK (m.step op).1 := by
  cases op with
  | addVariable vt v lb ub => exact addVariableCore_labels h _ _ _ _ _ _
  | setObjectiveModel mi =>
    show CqmLabelsOK (m.setObjectiveModel mi).1
    unfold Cqm.setObjectiveModel
    split_ifs
    · exact h
    · have := addMissing_labels h mi
      exact ⟨this.labels_nodup, this.clabels_nodup⟩
  | setObjectiveTerms ts => exact ⟨h.labels_nodup, h.clabels_nodup⟩
  | addConstraintModel mi sense rhs label copy weight pen => exact addConstraintModel_labels h _ _ _ _ _ _ _
  | addConstraintTerms ts sense rhs label weight pen =>
    show CqmLabelsOK (m.addConstraintTerms ts sense rhs label weight pen).1
    unfold Cqm.addConstraintTerms
    by_cases hl : label ∈ m.clabels
    · rw [if_pos hl]; exact h
    · rw [if_neg hl]
      split
      · exact pushCons_labels h _ _ _ hl _ _
      · exact h
  | addDiscreteModel mi label copy chk =>
    show CqmLabelsOK (m.addDiscreteModel mi label copy chk).1
    unfold Cqm.addDiscreteModel
    split_ifs
    · exact h
    · exact h
    · exact markLast_labels (addConstraintModel_labels h mi .eq 1 label copy none 0) m.cons.length
  | addDiscreteComparison mi sense rhs label copy chk =>
    show CqmLabelsOK (m.addDiscreteComparison mi sense rhs label copy chk).1
    unfold Cqm.addDiscreteComparison Cqm.addDiscreteModel
    split_ifs
    all_goals try exact h
    exact markLast_labels (addConstraintModel_labels h mi .eq 1 label copy none 0) m.cons.length
  | addDiscreteVars vs label chk =>
    show CqmLabelsOK (m.addDiscreteVars vs label chk).1
    unfold Cqm.addDiscreteVars
    split_ifs
    · exact h
    · exact h
    · exact markLast_labels (addConstraintModel_labels h (discreteModelOf vs) .eq 1 label false none 0) m.cons.length
  | removeVariable v => exact removeVariableR_labels h v
  | fixVariable v a => exact fixVariableR_labels h v a
  | fixVariables fixed => exact fixVariablesInplace_labels fixed h
  | flipVariable v =>
    show CqmLabelsOK (m.flipVariableR v).1
    unfold Cqm.flipVariableR
    split
    · exact h
    · split <;> first | exact h | exact ⟨h.labels_nodup, h.clabels_nodup⟩
  | changeVartype vt v =>
    show CqmLabelsOK (m.changeVartypeR vt v).1
    unfold Cqm.changeVartypeR
    split
    · exact h
    · rename_i g _
      have := changeVartypeAt_labels h vt g
      cases hr : m.changeVartypeAt vt g with
      | mk m1 ok =>
        rw [hr] at this
        cases ok <;> exact this
  | spinToBinary => exact spinToBinary_labels h
  | removeConstraint label cascade =>
    show CqmLabelsOK (m.removeConstraintR label cascade).1
    unfold Cqm.removeConstraintR
    split
    · exact h
    · rename_i c _
      have h1 : CqmLabelsOK (m.removeConstraintAt c) := by
        refine ⟨h.labels_nodup, ?_⟩
        show (Bqm.eraseIdx m.clabels c).Nodup
        rw [eraseIdx_eq]
        exact List.Nodup.sublist (List.eraseIdx_sublist _ _) h.clabels_nodup
      split_ifs
      · exact removeLabels_labels _ h1
      · exact h1
  | relabelVariables mp =>
    show CqmLabelsOK (m.relabelVariables mp).1
    unfold Cqm.relabelVariables
    split
    · rename_i l hl
      have := lspec_relabel_nodup m.labels mp h.labels_nodup
      rw [hl] at this
      exact ⟨this, h.clabels_nodup⟩
    · exact h
  | relabelConstraints mp =>
    show CqmLabelsOK (m.relabelConstraints mp).1
    unfold Cqm.relabelConstraints
    split
    · rename_i l hl
      have := lspec_relabel_nodup m.clabels mp h.clabels_nodup
      rw [hl] at this
      exact ⟨h.labels_nodup, this⟩
    · exact h
  | setLowerBound v x =>
    show CqmLabelsOK (m.setLowerBound v x).1
    unfold Cqm.setLowerBound
    split
    · exact h
    · simp only []
      split_ifs <;> first | exact h | exact ⟨h.labels_nodup, h.clabels_nodup⟩
  | setUpperBound v x =>
    show CqmLabelsOK (m.setUpperBound v x).1
    unfold Cqm.setUpperBound
    split
    · exact h
    · simp only []
      split_ifs <;> first | exact h | exact ⟨h.labels_nodup, h.clabels_nodup⟩
  | viewAddLinear w v b =>
    show CqmLabelsOK (m.viewAddLinear w v b).1
    unfold Cqm.viewAddLinear
    split_ifs
    · exact h
    · split
      · exact h
      · exact ofOpt_modExpr_labels h _ _
  | viewSetLinear w v b =>
    show CqmLabelsOK (m.viewSetLinear w v b).1
    unfold Cqm.viewSetLinear
    split_ifs
    · exact h
    · split
      · exact h
      · exact ofOpt_modExpr_labels h _ _
  | viewAddQuadratic w u v b =>
    show CqmLabelsOK (m.viewAddQuadratic w u v b).1
    unfold Cqm.viewAddQuadratic
    split_ifs
    · exact h
    · split
      · split_ifs
        all_goals try exact h
        exact ofOpt_modExpr_labels h _ _
      · exact h
  | viewRemoveInteraction w u v =>
    show CqmLabelsOK (m.viewRemoveInteraction w u v).1
    unfold Cqm.viewRemoveInteraction
    split_ifs
    · exact h
    · split
      · exact ofOpt_modExpr_labels h _ _
      · exact h
  | viewRemoveVariable w v =>
    show CqmLabelsOK (m.viewRemoveVariable w v).1
    unfold Cqm.viewRemoveVariable
    split_ifs
    · exact h
    · split
      · exact h
      · exact ofOpt_modExpr_labels h _ _
  | viewSetOffset w b => exact ofOpt_modExpr_labels h _ _
  | viewMarkDiscrete l mark =>
    show CqmLabelsOK (m.viewMarkDiscrete l mark).1
    unfold Cqm.viewMarkDiscrete
    split
    · exact h
    · exact ⟨h.labels_nodup, h.clabels_nodup⟩
  | viewSetWeight l weight pen =>
    show CqmLabelsOK (m.viewSetWeight l weight pen).1
    unfold Cqm.viewSetWeight
    split
    · exact h
    · exact setWeight_labels h _ _ _
  | deepcopy => exact h

theorem run_labels (ops : List Op) : ∀ {m : Cqm}, CqmLabelsOK m → CqmLabelsOK (m.run ops) := by
  induction ops with
  | nil => intro m h; exact h
  | cons op t ih =>
    intro m h
    unfold Cqm.run
    rw [List.foldl_cons]
    exact ih (step_labels h op)

end CqmP
