import DimodProofs.DqmAdj

/-! # C16: `energies()` of a DQM as coded (through `adj_`) vs the case-level model (core Lean only)

`Dqm.energyCoded` walks the variable-level adjacency; `Bq.energy` sums every stored coefficient at the
one-hot indicator of the sample.  `energyCoded_eq` shows they agree for a well-formed DQM (`Dqm.WF`: unique
keys, every stored interaction joins cases of two *adjacent* variables, adjacency lists strictly sorted). -/

namespace Pen

/-! ## sums -/

def sumF {β : Type} (f : β → Rat) : List β → Rat
  | [] => 0
  | a :: r => f a + sumF f r

theorem foldl_add_eq (l : List Rat) (a : Rat) : l.foldl (· + ·) a = a + sumF id l := by
  induction l generalizing a with
  | nil => simp only [List.foldl_nil, sumF]; grind
  | cons b r ih => simp only [List.foldl_cons, ih, sumF, id]; grind

theorem sumF_map {β γ : Type} (f : γ → Rat) (g : β → γ) (l : List β) : sumF id ((l.map g).map f) = sumF (fun b => f (g b)) l := by
  induction l with
  | nil => rfl
  | cons a r ih => simp only [List.map_cons, sumF, id, ih]

theorem sumF_map' {β : Type} (f : β → Rat) (l : List β) : sumF id (l.map f) = sumF f l := by
  induction l with
  | nil => rfl
  | cons a r ih => simp only [List.map_cons, sumF, id, ih]

theorem sumF_add {β : Type} (f g : β → Rat) (l : List β) : sumF (fun b => f b + g b) l = sumF f l + sumF g l := by
  induction l with
  | nil => simp only [sumF]; grind
  | cons a r ih => simp only [sumF, ih]; grind

theorem sumF_zero {β : Type} (l : List β) (f : β → Rat) (h : ∀ b ∈ l, f b = 0) : sumF f l = 0 := by
  induction l with
  | nil => rfl
  | cons a r ih => simp only [sumF, h a (by simp), ih (fun b hb => h b (by simp [hb]))]; grind

theorem sumF_congr {β : Type} (l : List β) (f g : β → Rat) (h : ∀ b ∈ l, f b = g b) : sumF f l = sumF g l := by
  induction l with
  | nil => rfl
  | cons a r ih => simp only [sumF, h a (by simp), ih (fun b hb => h b (by simp [hb]))]

theorem sumF_mul {β : Type} (c : Rat) (f : β → Rat) (l : List β) : sumF (fun b => c * f b) l = c * sumF f l := by
  induction l with
  | nil => simp only [sumF]; grind
  | cons a r ih => simp only [sumF, ih]; grind

/-- the indicator of one element summed over a duplicate-free list -/
theorem sumF_ind {β : Type} [DecidableEq β] (l : List β) (hnd : l.Nodup) (a : β) :
    sumF (fun b => if b = a then (1 : Rat) else 0) l = if a ∈ l then 1 else 0 := by
  induction l with
  | nil => simp [sumF]
  | cons b r ih =>
    simp only [List.nodup_cons] at hnd
    simp only [sumF, ih hnd.2, List.mem_cons]
    by_cases hba : b = a
    · subst hba
      simp [hnd.1]; grind
    · have : ¬ a = b := fun h => hba h.symm
      simp [hba, this]; grind

/-! ## samples and their global case indices -/

/-- one case per variable, each in range -/
def ValidSample (nc s : List Nat) : Prop := s.length = nc.length ∧ ∀ u, u < nc.length → s.getD u 0 < nc.getD u 0

def gcase (nc s : List Nat) (u : Nat) : Nat := (caseStarts nc).getD u 0 + s.getD u 0

theorem caseStarts_length (nc : List Nat) : (caseStarts nc).length = nc.length + 1 := by
  induction nc with
  | nil => rfl
  | cons n t ih => simp [caseStarts, ih]

theorem varOfCase_gcase (nc s : List Nat) (hv : ValidSample nc s) (u : Nat) (hu : u < nc.length) :
    varOfCase nc (gcase nc s u) = u := by
  induction nc generalizing s u with
  | nil => simp at hu
  | cons n t ih =>
    cases s with
    | nil => simp [ValidSample] at hv
    | cons s0 st =>
      have hlen : st.length = t.length := by have := hv.1; simpa using this
      cases u with
      | zero =>
        have := hv.2 0 (by simp)
        simp only [List.getD_cons_zero] at this
        simp [gcase, caseStarts, varOfCase, this]
      | succ k =>
        have hk : k < t.length := by simpa using hu
        have hvt : ValidSample t st := ⟨hlen, fun u hu' => by
          have := hv.2 (u + 1) (by simp; omega)
          simpa using this⟩
        have hget : ((caseStarts t).map (· + n)).getD k 0 = (caseStarts t).getD k 0 + n := by
          have : k < (caseStarts t).length := by rw [caseStarts_length]; omega
          simp [List.getD_eq_getElem?_getD, this]
        have ihk := ih st hvt k hk
        unfold gcase at ihk ⊢
        simp only [caseStarts, List.getD_cons_succ, hget, varOfCase]
        have hge : ¬ ((caseStarts t).getD k 0 + n + st.getD k 0 < n) := by omega
        rw [if_neg hge]
        have : (caseStarts t).getD k 0 + n + st.getD k 0 - n = (caseStarts t).getD k 0 + st.getD k 0 := by omega
        rw [this, ihk]

theorem gcase_inj (nc s : List Nat) (hv : ValidSample nc s) (u v : Nat) (hu : u < nc.length) (hw : v < nc.length)
    (h : gcase nc s u = gcase nc s v) : u = v := by
  have h1 := varOfCase_gcase nc s hv u hu
  have h2 := varOfCase_gcase nc s hv v hw
  rw [h] at h1; omega

/-- the selected global cases -/
def selected (nc s : List Nat) : List Nat := (List.range nc.length).map (gcase nc s)

theorem nodup_map_of_injOn {β γ : Type} (l : List β) (hnd : l.Nodup) (f : β → γ)
    (hinj : ∀ a ∈ l, ∀ b ∈ l, f a = f b → a = b) : (l.map f).Nodup := by
  induction l with
  | nil => simp
  | cons a r ih =>
    simp only [List.nodup_cons] at hnd
    simp only [List.map_cons, List.nodup_cons, List.mem_map, not_exists, not_and]
    refine ⟨?_, ih hnd.2 (fun x hx y hy h => hinj x (by simp [hx]) y (by simp [hy]) h)⟩
    intro b hb heq
    have := hinj b (by simp [hb]) a (by simp) heq
    subst this; exact hnd.1 hb

theorem selected_nodup (nc s : List Nat) (hv : ValidSample nc s) : (selected nc s).Nodup := by
  unfold selected
  apply nodup_map_of_injOn _ List.nodup_range
  intro u hu v hw h
  exact gcase_inj nc s hv u v (by simpa using hu) (by simpa using hw) h

/-- the one-hot indicator of a sample over global case indices -/
def indic (nc s : List Nat) (c : Nat) : Rat := if c ∈ selected nc s then 1 else 0

theorem sum_ind_gcase (nc s : List Nat) (hv : ValidSample nc s) (c : Nat) :
    sumF (fun u => if gcase nc s u = c then (1 : Rat) else 0) (List.range nc.length) = indic nc s c := by
  have := sumF_ind (selected nc s) (selected_nodup nc s hv) c
  unfold selected at this
  have h2 : sumF (fun b => if b = c then (1 : Rat) else 0) ((List.range nc.length).map (gcase nc s))
      = sumF (fun u => if gcase nc s u = c then (1 : Rat) else 0) (List.range nc.length) := by
    generalize List.range nc.length = l
    induction l with
    | nil => rfl
    | cons a r ih => simp only [List.map_cons, sumF, ih]
  rw [← h2, this]; rfl

/-! ## the linear part -/

def linCoefL (lin : List (Nat × Rat)) (a : Nat) : Rat := ((lin.find? (fun e => e.1 = a)).map (·.2)).getD 0

theorem linCoefL_cons (c : Nat) (q : Rat) (r : List (Nat × Rat)) (k : Nat) :
    linCoefL ((c, q) :: r) k = if c = k then q else linCoefL r k := by
  unfold linCoefL
  simp only [List.find?_cons]
  by_cases h : c = k <;> simp [h]

theorem linCoefL_absent (r : List (Nat × Rat)) (c : Nat) (h : c ∉ r.map (·.1)) : linCoefL r c = 0 := by
  unfold linCoefL
  have : r.find? (fun e => decide (e.1 = c)) = none := by
    rw [List.find?_eq_none]
    intro e he hc
    apply h
    simp only [decide_eq_true_eq] at hc
    exact List.mem_map.2 ⟨e, he, hc⟩
  rw [this]; rfl

theorem lin_bridge (nc s : List Nat) (hv : ValidSample nc s) (lin : List (Nat × Rat)) (hk : (lin.map (·.1)).Nodup) :
    Bq.linSum (indic nc s) lin = sumF (fun u => linCoefL lin (gcase nc s u)) (List.range nc.length) := by
  induction lin with
  | nil =>
    simp only [Bq.linSum]
    rw [sumF_zero]; intro b _; rfl
  | cons e r ih =>
    obtain ⟨c, q⟩ := e
    simp only [List.map_cons, List.nodup_cons] at hk
    simp only [Bq.linSum, ih hk.2]
    have hpt : ∀ u ∈ List.range nc.length, linCoefL ((c, q) :: r) (gcase nc s u)
        = linCoefL r (gcase nc s u) + q * (if gcase nc s u = c then (1 : Rat) else 0) := by
      intro u _
      rw [linCoefL_cons]
      by_cases h : c = gcase nc s u
      · have h' : gcase nc s u = c := h.symm
        rw [if_pos h, if_pos h', ← h, linCoefL_absent r c hk.1]; grind
      · have h' : ¬ gcase nc s u = c := fun e => h e.symm
        rw [if_neg h, if_neg h']; grind
    rw [sumF_congr _ _ _ hpt, sumF_add, sumF_mul, sum_ind_gcase nc s hv c]
    grind

/-! ## the quadratic part -/

def keyMatch (p q : Nat × Nat) : Prop := (p.1 = q.1 ∧ p.2 = q.2) ∨ (p.1 = q.2 ∧ p.2 = q.1)

instance (p q : Nat × Nat) : Decidable (keyMatch p q) := by unfold keyMatch; exact inferInstance

def quadCoefL (quad : List ((Nat × Nat) × Rat)) (a b : Nat) : Rat :=
  ((quad.find? (fun e => (e.1.1 = a ∧ e.1.2 = b) ∨ (e.1.1 = b ∧ e.1.2 = a))).map (·.2)).getD 0

theorem quadCoefL_cons (k : Nat × Nat) (q : Rat) (r : List ((Nat × Nat) × Rat)) (a b : Nat) :
    quadCoefL ((k, q) :: r) a b = if keyMatch k (a, b) then q else quadCoefL r a b := by
  unfold quadCoefL keyMatch
  simp only [List.find?_cons]
  by_cases h : (k.1 = a ∧ k.2 = b) ∨ (k.1 = b ∧ k.2 = a) <;> simp [h]

theorem quadCoefL_absent (r : List ((Nat × Nat) × Rat)) (a b : Nat) (h : ∀ e ∈ r, ¬ keyMatch e.1 (a, b)) : quadCoefL r a b = 0 := by
  unfold quadCoefL
  have : r.find? (fun e => decide ((e.1.1 = a ∧ e.1.2 = b) ∨ (e.1.1 = b ∧ e.1.2 = a))) = none := by
    rw [List.find?_eq_none]
    intro e he hc
    simp only [decide_eq_true_eq] at hc
    exact h e he hc
  rw [this]; rfl

theorem mem_takeWhile_le (l : List Nat) (hs : StrictSorted l) (u v : Nat) :
    v ∈ l.takeWhile (fun w => decide (w ≤ u)) ↔ (v ∈ l ∧ v ≤ u) := by
  unfold StrictSorted at hs
  induction l with
  | nil => simp
  | cons a r ih =>
    simp only [List.pairwise_cons] at hs
    simp only [List.takeWhile_cons]
    by_cases ha : a ≤ u
    · simp only [ha, decide_true, if_true, List.mem_cons, ih hs.2]
      constructor
      · rintro (h | h)
        · subst h; exact ⟨Or.inl rfl, ha⟩
        · exact ⟨Or.inr h.1, h.2⟩
      · rintro ⟨h | h, h2⟩
        · exact Or.inl h
        · exact Or.inr ⟨h, h2⟩
    · simp only [ha, decide_false, Bool.false_eq_true, if_false, List.not_mem_nil, List.mem_cons, false_iff]
      rintro ⟨h | h, h2⟩
      · subst h; exact ha h2
      · have := hs.1 v h; omega

/-- the variable pairs `energies()` visits: `u`, then the neighbours `v ≤ u` of `u` up to the first one above `u` -/
def visited (adj : List (List Nat)) (n : Nat) : List (Nat × Nat) :=
  (List.range n).flatMap (fun u => ((adj.getD u []).takeWhile (fun v => decide (v ≤ u))).map (fun v => (u, v)))

theorem sumF_flatMap {β γ : Type} (f : γ → Rat) (g : β → List γ) (l : List β) :
    sumF f (l.flatMap g) = sumF (fun b => sumF f (g b)) l := by
  induction l with
  | nil => rfl
  | cons a r ih =>
    simp only [List.flatMap_cons, sumF, ← ih]
    generalize g a = la
    induction la with
    | nil => simp only [List.nil_append, sumF]; grind
    | cons x xs ihx => simp only [List.cons_append, sumF, ihx]; grind

theorem mem_visited (adj : List (List Nat)) (n : Nat) (hs : ∀ u, u < n → StrictSorted (adj.getD u [])) (u v : Nat) :
    (u, v) ∈ visited adj n ↔ (u < n ∧ v ∈ adj.getD u [] ∧ v ≤ u) := by
  unfold visited
  simp only [List.mem_flatMap, List.mem_range, List.mem_map, Prod.mk.injEq]
  constructor
  · rintro ⟨u', hu', v', hv', rfl, rfl⟩
    exact ⟨hu', (mem_takeWhile_le _ (hs u' hu') u' v').1 hv'⟩
  · rintro ⟨hu, hv, hle⟩
    exact ⟨u, hu, v, (mem_takeWhile_le _ (hs u hu) u v).2 ⟨hv, hle⟩, rfl, rfl⟩

theorem visited_nodup (adj : List (List Nat)) (n : Nat) (hs : ∀ u, u < n → StrictSorted (adj.getD u [])) : (visited adj n).Nodup := by
  unfold visited
  have hrange : ∀ (l : List Nat), l.Nodup → (∀ u ∈ l, u < n) →
      (l.flatMap (fun u => ((adj.getD u []).takeWhile (fun v => decide (v ≤ u))).map (fun v => (u, v)))).Nodup := by
    intro l
    induction l with
    | nil => intro _ _; simp
    | cons a r ih =>
      intro hnd hlt
      simp only [List.nodup_cons] at hnd
      simp only [List.flatMap_cons]
      rw [List.nodup_append]
      refine ⟨?_, ih hnd.2 (fun u hu => hlt u (by simp [hu])), ?_⟩
      · apply nodup_map_of_injOn
        · have hss := hs a (hlt a (by simp))
          have : (adj.getD a []).Nodup := by
            unfold StrictSorted at hss
            exact hss.imp (fun h => by omega)
          exact (List.takeWhile_sublist _).nodup this
        · intro x _ y _ h; simpa using h
      · intro p hp q hq
        simp only [List.mem_map] at hp
        obtain ⟨v, _, rfl⟩ := hp
        simp only [List.mem_flatMap, List.mem_map] at hq
        obtain ⟨u', hu', v', _, rfl⟩ := hq
        intro heq
        simp only [Prod.mk.injEq] at heq
        exact hnd.1 (heq.1 ▸ hu')
  exact hrange (List.range n) List.nodup_range (fun u hu => by simpa using hu)

/-- a stored interaction joins cases of two different, mutually adjacent variables -/
def Covered (nc : List Nat) (adj : List (List Nat)) (k : Nat × Nat) : Prop :=
  varOfCase nc k.1 ≠ varOfCase nc k.2
  ∧ varOfCase nc k.2 ∈ adj.getD (varOfCase nc k.1) []
  ∧ varOfCase nc k.1 ∈ adj.getD (varOfCase nc k.2) []

theorem mem_selected (nc s : List Nat) (c : Nat) : c ∈ selected nc s ↔ ∃ u, u < nc.length ∧ gcase nc s u = c := by
  simp [selected]

theorem keyMatch_trans_left (k e p : Nat × Nat) (h1 : keyMatch k p) (h2 : keyMatch e p) : keyMatch k e := by
  unfold keyMatch at *
  omega

/-- a covered key is matched by exactly one visited variable pair when both its cases are selected, by none otherwise -/
theorem count_match (nc s : List Nat) (hv : ValidSample nc s) (adj : List (List Nat))
    (hs : ∀ u, u < nc.length → StrictSorted (adj.getD u [])) (k : Nat × Nat) (hcov : Covered nc adj k) :
    sumF (fun p : Nat × Nat => if keyMatch k (gcase nc s p.1, gcase nc s p.2) then (1 : Rat) else 0) (visited adj nc.length)
      = indic nc s k.1 * indic nc s k.2 := by
  have hvis : ∀ p ∈ visited adj nc.length, p.1 < nc.length ∧ p.2 < nc.length := by
    intro p hp
    have := (mem_visited adj nc.length hs p.1 p.2).1 hp
    exact ⟨this.1, by omega⟩
  by_cases h1 : k.1 ∈ selected nc s
  · by_cases h2 : k.2 ∈ selected nc s
    · obtain ⟨ua, hua, ga⟩ := (mem_selected nc s k.1).1 h1
      obtain ⟨ub, hub, gb⟩ := (mem_selected nc s k.2).1 h2
      have va : varOfCase nc k.1 = ua := by rw [← ga]; exact varOfCase_gcase nc s hv ua hua
      have vb : varOfCase nc k.2 = ub := by rw [← gb]; exact varOfCase_gcase nc s hv ub hub
      unfold Covered at hcov
      rw [va, vb] at hcov
      obtain ⟨hne, hab, hba⟩ := hcov
      have hpt : ∀ p ∈ visited adj nc.length,
          (if keyMatch k (gcase nc s p.1, gcase nc s p.2) then (1 : Rat) else 0)
            = (if p = (ua, ub) then (1 : Rat) else 0) + (if p = (ub, ua) then (1 : Rat) else 0) := by
        intro p hp
        have hlt := hvis p hp
        by_cases hm : keyMatch k (gcase nc s p.1, gcase nc s p.2)
        · rw [if_pos hm]
          unfold keyMatch at hm
          rcases hm with ⟨e1, e2⟩ | ⟨e1, e2⟩
          · simp only at e1 e2
            have i1 := gcase_inj nc s hv p.1 ua hlt.1 hua (by rw [ga]; exact e1.symm)
            have i2 := gcase_inj nc s hv p.2 ub hlt.2 hub (by rw [gb]; exact e2.symm)
            have hp1 : p = (ua, ub) := by rw [← i1, ← i2]
            have hp2 : ¬ p = (ub, ua) := by
              intro h'; rw [hp1] at h'; simp only [Prod.mk.injEq] at h'; exact hne h'.1
            rw [if_pos hp1, if_neg hp2]; grind
          · simp only at e1 e2
            have i1 := gcase_inj nc s hv p.2 ua hlt.2 hua (by rw [ga]; exact e1.symm)
            have i2 := gcase_inj nc s hv p.1 ub hlt.1 hub (by rw [gb]; exact e2.symm)
            have hp1 : p = (ub, ua) := by rw [← i1, ← i2]
            have hp2 : ¬ p = (ua, ub) := by
              intro h'; rw [hp1] at h'; simp only [Prod.mk.injEq] at h'; exact hne h'.1.symm
            rw [if_neg hp2, if_pos hp1]; grind
        · rw [if_neg hm]
          have hp1 : ¬ p = (ua, ub) := by
            intro h'; apply hm; rw [h']; unfold keyMatch; left; exact ⟨ga.symm, gb.symm⟩
          have hp2 : ¬ p = (ub, ua) := by
            intro h'; apply hm; rw [h']; unfold keyMatch; right; exact ⟨ga.symm, gb.symm⟩
          rw [if_neg hp1, if_neg hp2]; grind
      rw [sumF_congr _ _ _ hpt, sumF_add, sumF_ind _ (visited_nodup adj nc.length hs), sumF_ind _ (visited_nodup adj nc.length hs)]
      simp only [mem_visited adj nc.length hs]
      unfold indic
      rw [if_pos h1, if_pos h2]
      by_cases hle : ub ≤ ua
      · have : ¬ ua ≤ ub := by omega
        simp [hua, hub, hab, hba, hle, this]; grind
      · have : ua ≤ ub := by omega
        simp [hua, hub, hab, hba, hle, this]; grind
    · rw [sumF_zero]
      · unfold indic; rw [if_neg h2]; grind
      · intro p hp
        have hlt := hvis p hp
        rw [if_neg]
        intro hm
        apply h2
        unfold keyMatch at hm
        rcases hm with ⟨_, e2⟩ | ⟨_, e2⟩
        · exact (mem_selected nc s k.2).2 ⟨p.2, hlt.2, e2.symm⟩
        · exact (mem_selected nc s k.2).2 ⟨p.1, hlt.1, e2.symm⟩
  · rw [sumF_zero]
    · unfold indic; rw [if_neg h1]; grind
    · intro p hp
      have hlt := hvis p hp
      rw [if_neg]
      intro hm
      apply h1
      unfold keyMatch at hm
      rcases hm with ⟨e1, _⟩ | ⟨e1, _⟩
      · exact (mem_selected nc s k.1).2 ⟨p.1, hlt.1, e1.symm⟩
      · exact (mem_selected nc s k.1).2 ⟨p.2, hlt.2, e1.symm⟩

theorem quad_bridge (nc s : List Nat) (hv : ValidSample nc s) (adj : List (List Nat))
    (hs : ∀ u, u < nc.length → StrictSorted (adj.getD u [])) (quad : List ((Nat × Nat) × Rat))
    (huniq : quad.Pairwise (fun e f => ¬ keyMatch e.1 f.1)) (hcov : ∀ e ∈ quad, Covered nc adj e.1) :
    Bq.quadSum (indic nc s) quad
      = sumF (fun p : Nat × Nat => quadCoefL quad (gcase nc s p.1) (gcase nc s p.2)) (visited adj nc.length) := by
  induction quad with
  | nil =>
    simp only [Bq.quadSum]
    rw [sumF_zero]; intro b _; rfl
  | cons e r ih =>
    obtain ⟨k, q⟩ := e
    simp only [List.pairwise_cons] at huniq
    have ihr := ih huniq.2 (fun e he => hcov e (by simp [he]))
    have hpt : ∀ p ∈ visited adj nc.length, quadCoefL ((k, q) :: r) (gcase nc s p.1) (gcase nc s p.2)
        = quadCoefL r (gcase nc s p.1) (gcase nc s p.2)
          + q * (if keyMatch k (gcase nc s p.1, gcase nc s p.2) then (1 : Rat) else 0) := by
      intro p _
      rw [quadCoefL_cons]
      by_cases hm : keyMatch k (gcase nc s p.1, gcase nc s p.2)
      · rw [if_pos hm, if_pos hm, quadCoefL_absent r _ _ (fun e he hme => huniq.1 e he (keyMatch_trans_left k e.1 _ hm hme))]
        grind
      · rw [if_neg hm, if_neg hm]; grind
    rw [sumF_congr _ _ _ hpt, sumF_add, sumF_mul, count_match nc s hv adj hs k (hcov (k, q) (by simp)), ← ihr]
    obtain ⟨a, b⟩ := k
    simp only [Bq.quadSum]
    grind

/-! ## `energies()` as coded = the case-level energy at the one-hot indicator -/

structure Dqm.WF (d : Dqm) : Prop where
  sorted : ∀ u, u < d.ncases.length → StrictSorted (d.adj.getD u [])
  linKeys : (d.bq.lin.map (·.1)).Nodup
  quadKeys : d.bq.quad.Pairwise (fun e f => ¬ keyMatch e.1 f.1)
  cov : ∀ e ∈ d.bq.quad, Covered d.ncases d.adj e.1

theorem sumF_map_pair (f : Nat × Nat → Rat) (u : Nat) (l : List Nat) :
    sumF f (l.map (fun v => (u, v))) = sumF (fun v => f (u, v)) l := by
  induction l with
  | nil => rfl
  | cons a r ih => simp only [List.map_cons, sumF, ih]

theorem energyCoded_eq (d : Dqm) (hwf : d.WF) (s : List Nat) (hv : ValidSample d.ncases s) :
    d.energyCoded s = d.bq.energy (indic d.ncases s) := by
  have hlin := lin_bridge d.ncases s hv d.bq.lin hwf.linKeys
  have hquad := quad_bridge d.ncases s hv d.adj hwf.sorted d.bq.quad hwf.quadKeys hwf.cov
  unfold Dqm.energyCoded Bq.energy
  simp only
  rw [foldl_add_eq, sumF_map', hlin, hquad]
  have hinner : ∀ u, (((d.adj.getD u []).takeWhile (fun v => decide (v ≤ u))).map
        (fun v => d.quadCoef ((caseStarts d.ncases).getD u 0 + s.getD u 0) ((caseStarts d.ncases).getD v 0 + s.getD v 0))).foldl (· + ·) 0
      = sumF (fun v => quadCoefL d.bq.quad (gcase d.ncases s u) (gcase d.ncases s v)) ((d.adj.getD u []).takeWhile (fun v => decide (v ≤ u))) := by
    intro u
    rw [foldl_add_eq, sumF_map']
    have : ∀ a b, d.quadCoef a b = quadCoefL d.bq.quad a b := fun a b => rfl
    simp only [this, gcase]; grind
  have hl : ∀ a, d.linCoef a = linCoefL d.bq.lin a := fun a => rfl
  simp only [hinner, hl]
  rw [sumF_add]
  unfold visited
  rw [sumF_flatMap]
  simp only [sumF_map_pair, gcase]
  grind

/-- the indicator of a valid sample is a one-hot sample -/
theorem oneHot_indic (nc s : List Nat) (hv : ValidSample nc s) : OneHot nc (indic nc s) := by
  constructor
  · intro c; unfold indic; split <;> grind
  · intro c c' hne hvar
    unfold indic
    by_cases h1 : c ∈ selected nc s
    · by_cases h2 : c' ∈ selected nc s
      · exfalso
        obtain ⟨u, hu, gu⟩ := (mem_selected nc s c).1 h1
        obtain ⟨u', hu', gu'⟩ := (mem_selected nc s c').1 h2
        have v1 := varOfCase_gcase nc s hv u hu
        have v2 := varOfCase_gcase nc s hv u' hu'
        rw [gu] at v1; rw [gu'] at v2
        have : u = u' := by rw [← v1, ← v2, hvar]
        subst this
        exact hne (gu.symm.trans gu')
      · rw [if_neg h2]; grind
    · rw [if_neg h1]; grind

/-! ## the constraint keeps the DQM well formed -/

theorem keys_addKeyN (m : List (Nat × Rat)) (k : Nat) (c : Rat) :
    ∀ w, w ∈ (addKey m k c).map (·.1) ↔ (w ∈ m.map (·.1) ∨ w = k) := by
  induction m with
  | nil => intro w; simp [addKey]
  | cons h t ih =>
    intro w
    obtain ⟨k', c'⟩ := h
    simp only [addKey]
    split
    · rename_i hk; subst hk; simp; grind
    · simp only [List.map_cons, List.mem_cons, ih]; grind

theorem nodup_addKeyN (m : List (Nat × Rat)) (k : Nat) (c : Rat) (h : (m.map (·.1)).Nodup) : ((addKey m k c).map (·.1)).Nodup := by
  induction m with
  | nil => simp [addKey]
  | cons hd t ih =>
    obtain ⟨k', c'⟩ := hd
    simp only [addKey]
    simp only [List.map_cons, List.nodup_cons] at h
    split
    · simp only [List.map_cons, List.nodup_cons]; exact h
    · rename_i hne
      simp only [List.map_cons, List.nodup_cons]
      refine ⟨?_, ih h.2⟩
      intro hmem
      rcases (keys_addKeyN t k c k').1 hmem with h1 | h1
      · exact h.1 h1
      · exact hne h1

/-- keys of the quadratic map after `add_quadratic(u, v, ·)`: the old ones, or `(u, v)` when no old key matched -/
theorem keys_addPair (m : List ((Nat × Nat) × Rat)) (u v : Nat) (c : Rat) :
    ∀ e ∈ addPair m u v c, (∃ e' ∈ m, e.1 = e'.1) ∨ (e.1 = (u, v) ∧ ∀ e' ∈ m, ¬ keyMatch e'.1 (u, v)) := by
  induction m with
  | nil => intro e he; simp only [addPair, List.mem_singleton] at he; subst he; exact Or.inr ⟨rfl, by simp⟩
  | cons a r ih =>
    obtain ⟨⟨x, y⟩, c'⟩ := a
    intro e he
    simp only [addPair] at he
    split at he
    · simp only [List.mem_cons] at he
      rcases he with rfl | he
      · exact Or.inl ⟨((x, y), c'), by simp, rfl⟩
      · exact Or.inl ⟨e, by simp [he], rfl⟩
    · rename_i hnm
      simp only [List.mem_cons] at he
      rcases he with rfl | he
      · exact Or.inl ⟨((x, y), c'), by simp, rfl⟩
      · rcases ih e he with ⟨e', he', h⟩ | ⟨h1, h2⟩
        · exact Or.inl ⟨e', by simp [he'], h⟩
        · refine Or.inr ⟨h1, ?_⟩
          intro e' he'
          simp only [List.mem_cons] at he'
          rcases he' with rfl | he'
          · unfold keyMatch; simpa using hnm
          · exact h2 e' he'

theorem keyMatch_symm (p q : Nat × Nat) (h : keyMatch p q) : keyMatch q p := by unfold keyMatch at *; omega

theorem pairwise_addPair (m : List ((Nat × Nat) × Rat)) (u v : Nat) (c : Rat)
    (h : m.Pairwise (fun e f => ¬ keyMatch e.1 f.1)) : (addPair m u v c).Pairwise (fun e f => ¬ keyMatch e.1 f.1) := by
  induction m with
  | nil => simp [addPair]
  | cons a r ih =>
    obtain ⟨⟨x, y⟩, c'⟩ := a
    simp only [List.pairwise_cons] at h
    simp only [addPair]
    split
    · simp only [List.pairwise_cons]; exact h
    · rename_i hnm
      simp only [List.pairwise_cons]
      refine ⟨?_, ih h.2⟩
      intro e he
      rcases keys_addPair r u v c e he with ⟨e', he', heq⟩ | ⟨heq, _⟩
      · rw [heq]; exact h.1 e' he'
      · rw [heq]; unfold keyMatch; simpa using hnm

/-- invariant of the case-level model used here: unique keys, every interaction satisfies `P` (a property
    of unordered case pairs) -/
def BqInv (P : Nat × Nat → Prop) (b : Bq Nat) : Prop :=
  (b.lin.map (·.1)).Nodup ∧ b.quad.Pairwise (fun e f => ¬ keyMatch e.1 f.1) ∧ ∀ e ∈ b.quad, P e.1

theorem bqInv_applyTerm (P : Nat × Nat → Prop) (b : Bq Nat) (hb : BqInv P b) (t : PTerm Nat)
    (ht : ∀ u v c, t = PTerm.quad u v c → u ≠ v ∧ P (u, v)) : BqInv P (b.applyTerm t) := by
  obtain ⟨h1, h2, h3⟩ := hb
  cases t with
  | const c => exact ⟨h1, h2, h3⟩
  | lin v c => exact ⟨nodup_addKeyN b.lin v c h1, h2, h3⟩
  | quad u v c =>
    obtain ⟨hne, hP⟩ := ht u v c rfl
    simp only [Bq.applyTerm, Bq.addQuadratic, if_neg hne, Bq.addLinear]
    refine ⟨nodup_addKeyN _ v 0 (nodup_addKeyN b.lin u 0 h1), pairwise_addPair b.quad u v c h2, ?_⟩
    intro e he
    rcases keys_addPair b.quad u v c e he with ⟨e', he', heq⟩ | ⟨heq, _⟩
    · rw [heq]; exact h3 e' he'
    · rw [heq]; exact hP

theorem bqInv_apply (P : Nat × Nat → Prop) (b : Bq Nat) (hb : BqInv P b) (bag : List (PTerm Nat))
    (ht : ∀ t ∈ bag, ∀ u v c, t = PTerm.quad u v c → u ≠ v ∧ P (u, v)) : BqInv P (b.apply bag) := by
  induction bag generalizing b with
  | nil => exact hb
  | cons t r ih =>
    simp only [Bq.apply]
    exact ih _ (bqInv_applyTerm P b hb t (ht t (by simp))) (fun t' ht' => ht t' (by simp [ht']))

theorem varOfCase_start (nc : List Nat) (v c : Nat) (hv : v < nc.length) (hc : c < nc.getD v 0) :
    varOfCase nc ((caseStarts nc).getD v 0 + c) = v := by
  induction nc generalizing v with
  | nil => simp at hv
  | cons n t ih =>
    cases v with
    | zero =>
      simp only [List.getD_cons_zero] at hc
      simp [caseStarts, varOfCase, hc]
    | succ k =>
      have hk : k < t.length := by simpa using hv
      have hck : c < t.getD k 0 := by simpa using hc
      have hget : ((caseStarts t).map (· + n)).getD k 0 = (caseStarts t).getD k 0 + n := by
        have : k < (caseStarts t).length := by rw [caseStarts_length]; omega
        simp [List.getD_eq_getElem?_getD, this]
      simp only [caseStarts, List.getD_cons_succ, hget, varOfCase]
      have hge : ¬ ((caseStarts t).getD k 0 + n + c < n) := by omega
      rw [if_neg hge]
      have : (caseStarts t).getD k 0 + n + c - n = (caseStarts t).getD k 0 + c := by omega
      rw [this, ih k hk hck]

theorem dqmResolve_valid (nc : List Nat) (terms : List (Nat × Nat × Rat)) (r : List (Nat × Rat))
    (h : dqmResolve nc terms = some r) : ∀ e ∈ r, varOfCase nc e.1 < nc.length := by
  induction terms generalizing r with
  | nil => simp only [dqmResolve, Option.some.injEq] at h; subst h; simp
  | cons t ts ih =>
    obtain ⟨v, c, b⟩ := t
    simp only [dqmResolve] at h
    split at h
    · rename_i hv
      split at h
      · rename_i hc
        cases hr : dqmResolve nc ts with
        | none => rw [hr] at h; simp at h
        | some r' =>
          rw [hr] at h
          simp only [Option.map_some, Option.some.injEq] at h
          subst h
          intro e he
          simp only [List.mem_cons] at he
          rcases he with rfl | he
          · have hc' : c < nc.getD v 0 := by simpa [List.getD_eq_getElem?_getD, hv] using hc
            simp only
            rw [varOfCase_start nc v c hv hc']; exact hv
          · exact ih r' hr e he
      · simp at h
    · simp at h

theorem mem_sortByCase (l : List (Nat × Rat)) (e : Nat × Rat) : e ∈ sortByCase l ↔ e ∈ l := by
  induction l with
  | nil => simp [sortByCase]
  | cons a r ih => simp only [sortByCase, mem_insertByCase, ih, List.mem_cons]

theorem keys_mergeAdj (l : List (Nat × Rat)) : ∀ e ∈ mergeAdj l, ∃ e' ∈ l, e.1 = e'.1 := by
  fun_induction mergeAdj l with
  | case1 => intro e he; simp at he
  | case2 t => intro e he; exact ⟨e, he, rfl⟩
  | case3 a b r heq ih =>
    intro e he
    obtain ⟨e', he', h⟩ := ih e he
    simp only [List.mem_cons] at he'
    rcases he' with rfl | he'
    · exact ⟨a, by simp, h⟩
    · exact ⟨e', by simp [he'], h⟩
  | case4 a b r hne ih =>
    intro e he
    simp only [List.mem_cons] at he
    rcases he with rfl | he
    · exact ⟨e, by simp, rfl⟩
    · obtain ⟨e', he', h⟩ := ih e he
      exact ⟨e', by simp only [List.mem_cons] at he' ⊢; exact Or.inr he', h⟩

/-- the quadratic calls of the constraint join merged terms of two different variables -/
theorem mem_go_quad (nc : List Nat) (lam C : Rat) (m : List (Nat × Rat)) :
    ∀ t ∈ dqmEqTermsOf.go nc lam C m, ∀ u v c, t = PTerm.quad u v c →
      (∃ a ∈ m, ∃ b ∈ m, u = a.1 ∧ v = b.1) ∧ varOfCase nc u ≠ varOfCase nc v := by
  induction m with
  | nil => intro t ht; simp [dqmEqTermsOf.go] at ht
  | cons a r ih =>
    intro t ht u v c heq
    simp only [dqmEqTermsOf.go, List.cons_append, List.mem_cons, List.mem_append, List.mem_map, List.mem_filter] at ht
    rcases ht with h | ⟨b, ⟨hb, hvar⟩, h⟩ | h
    · rw [heq] at h; cases h
    · rw [heq] at h
      injection h with h1 h2 h3
      subst h1; subst h2
      exact ⟨⟨a, by simp, b, by simp [hb], rfl, rfl⟩, by simpa using hvar⟩
    · obtain ⟨⟨a', ha', b', hb', h1, h2⟩, h3⟩ := ih t h u v c heq
      exact ⟨⟨a', by simp [ha'], b', by simp [hb'], h1, h2⟩, h3⟩

theorem adjUpdate_length (adj : List (List Nat)) (vars : List Nat) : (adjUpdate adj vars).length = adj.length := by
  simp [adjUpdate]

theorem getD_nonempty_lt (adj : List (List Nat)) (i w : Nat) (h : w ∈ adj.getD i []) : i < adj.length := by
  by_cases hi : i < adj.length
  · exact hi
  · have : adj.getD i [] = [] := by simp [List.getD_eq_getElem?_getD, Nat.le_of_not_lt hi]
    rw [this] at h; simp at h

/-- `add_linear_equality_constraint` keeps a DQM well formed (unique keys, sorted adjacency, every stored
    interaction between adjacent variables) -/
theorem dqmAddEq_wf (d : Dqm) (hwf : d.WF) (hlen : d.adj.length = d.ncases.length)
    (terms : List (Nat × Nat × Rat)) (lam C : Rat) (d' : Dqm) (h : dqmAddEq d terms lam C = some d') :
    d'.WF ∧ d'.adj.length = d'.ncases.length ∧ d'.ncases = d.ncases := by
  unfold dqmAddEq at h
  cases hr : dqmResolve d.ncases terms with
  | none => rw [hr] at h; simp at h
  | some r =>
    rw [hr] at h
    simp only [Option.map_some, Option.some.injEq] at h
    subst h
    simp only
    have hvs := sortedVars_spec d.ncases (mergeAdj (sortByCase r))
    have hvalid : ∀ e ∈ mergeAdj (sortByCase r), varOfCase d.ncases e.1 < d.adj.length := by
      intro e he
      obtain ⟨e', he', heq⟩ := keys_mergeAdj _ e he
      rw [heq, hlen]
      exact dqmResolve_valid d.ncases terms r hr e' ((mem_sortByCase r e').1 he')
    -- old neighbours are kept
    have hkeep : ∀ i w, w ∈ d.adj.getD i [] → w ∈ (adjUpdate d.adj (sortedVars d.ncases (mergeAdj (sortByCase r)))).getD i [] := by
      intro i w hw
      exact ((adjUpdate_spec d.adj _ hvs.1 i (getD_nonempty_lt d.adj i w hw)).1 w).2 (Or.inl hw)
    have hbq : BqInv (Covered d.ncases (adjUpdate d.adj (sortedVars d.ncases (mergeAdj (sortByCase r)))))
        (d.bq.apply (dqmEqTermsOf d.ncases lam C (mergeAdj (sortByCase r)))) := by
      apply bqInv_apply
      · refine ⟨hwf.linKeys, hwf.quadKeys, ?_⟩
        intro e he
        obtain ⟨c1, c2, c3⟩ := hwf.cov e he
        exact ⟨c1, hkeep _ _ c2, hkeep _ _ c3⟩
      · intro t ht u v c heq
        unfold dqmEqTermsOf at ht
        simp only [List.mem_cons] at ht
        rcases ht with h0 | ht
        · rw [heq] at h0; cases h0
        · obtain ⟨⟨a, ha, b, hb, hu, hv⟩, hne⟩ := mem_go_quad d.ncases lam C _ t ht u v c heq
          refine ⟨fun e => hne (by rw [e]), hne, ?_, ?_⟩
          · simp only
            rw [hu, hv]
            refine ((adjUpdate_spec d.adj _ hvs.1 _ (hvalid a ha)).1 _).2 (Or.inr ⟨(hvs.2 _).2 ⟨a, ha, rfl⟩, (hvs.2 _).2 ⟨b, hb, rfl⟩, ?_⟩)
            rw [← hu, ← hv]; exact fun e => hne e.symm
          · simp only
            rw [hu, hv]
            refine ((adjUpdate_spec d.adj _ hvs.1 _ (hvalid b hb)).1 _).2 (Or.inr ⟨(hvs.2 _).2 ⟨b, hb, rfl⟩, (hvs.2 _).2 ⟨a, ha, rfl⟩, ?_⟩)
            rw [← hu, ← hv]; exact hne
    refine ⟨⟨?_, hbq.1, hbq.2.1, hbq.2.2⟩, by rw [adjUpdate_length]; exact hlen, trivial⟩
    intro u hu
    exact (adjUpdate_spec d.adj _ hvs.1 u (by rw [hlen]; exact hu)).2 (hwf.sorted u hu)

/-- **`energies()` after `add_linear_equality_constraint`** on any well-formed DQM: at every sample, the
    energy *as `energies()` computes it* (through `adj_`) grows by exactly `λ(Σ aₖ·[case k chosen] + C)²` -/
theorem dqm_energies_add_square (d : Dqm) (hwf : d.WF) (hlen : d.adj.length = d.ncases.length) (hvt : d.bq.vt = .binary)
    (terms : List (Nat × Nat × Rat)) (lam C : Rat) (d' : Dqm) (h : dqmAddEq d terms lam C = some d')
    (s : List Nat) (hv : ValidSample d.ncases s) :
    ∃ r, dqmResolve d.ncases terms = some r
      ∧ d'.energyCoded s = d.energyCoded s
          + lam * ((lsum (indic d.ncases s) r + C) * (lsum (indic d.ncases s) r + C)) := by
  obtain ⟨hwf', _, hnc⟩ := dqmAddEq_wf d hwf hlen terms lam C d' h
  have e' := energyCoded_eq d' hwf' s (by rw [hnc]; exact hv)
  have e0 := energyCoded_eq d hwf s hv
  unfold dqmAddEq at h
  cases hr : dqmResolve d.ncases terms with
  | none => rw [hr] at h; simp at h
  | some r =>
    rw [hr] at h
    simp only [Option.map_some, Option.some.injEq] at h
    refine ⟨r, rfl, ?_⟩
    rw [e', e0, hnc]
    rw [← h]
    simp only
    have hoh := oneHot_indic d.ncases s hv
    rw [apply_energy d.bq (indic d.ncases s) (by rw [hvt]; exact hoh.1), dqmEqTerms_eval d.ncases _ hoh r lam C]

end Pen
