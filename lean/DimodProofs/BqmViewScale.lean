import DimodProofs.BqmViewFix

/-! `scale(s)` through a `VartypeView` (the generic Python loop: `set_linear(v, s·get_linear(v))` for every variable,
    `set_quadratic(u, v, s·get_quadratic(u, v))` for every interaction, offset): the view shows `LPoly.scale`.
    Core Lean only. -/

namespace Bqm

/-! ### what a view shows is a well-formed polynomial -/

theorem LWF.viewP {q : LPoly} (w : LWF q) (tv : VT) : LWF (q.viewP tv) := by
  refine ⟨w.nodup, ?_, ?_, ?_, ?_⟩
  · intro l hl
    show q.viewLin tv l = 0
    have hnb : q.nbrs l = [] := by
      unfold LPoly.nbrs
      apply filterMap_none
      intro x _
      cases hc : q.quad l x with
      | none => rfl
      | some c => exact absurd (w.closed l x (by rw [hc]; rfl)).1 hl
    have hs : q.sumNb l = 0 := by unfold LPoly.sumNb; rw [hnb]; rfl
    unfold LPoly.viewLin
    rw [w.lin0 l hl, hs]
    split
    · rfl
    · cases tv <;> simp only [] <;> grind
  · intro a b hs
    have hs' : ((q.quad a b).map (q.viewFactor tv * ·)).isSome := hs
    apply w.closed a b
    cases hc : q.quad a b with
    | none => rw [hc] at hs'; cases hs'
    | some c => rfl
  · intro a b
    show (q.quad a b).map _ = (q.quad b a).map _
    rw [w.symm a b]
  · intro a
    show (q.quad a a).map _ = none
    rw [w.noself a]; rfl

/-! ### the two loops on the polynomial -/

/-- `set_linear(l, s · get_linear(l))` for a list of distinct known labels -/
theorem setFold (s : Rat) (ls : List Label) (hnd : ls.Nodup) : ∀ (P : LPoly), (∀ l ∈ ls, l ∈ P.vars) →
    (ls.foldl (fun q l => q.setLinear l (s * q.lin l)) P).vars = P.vars ∧
    (ls.foldl (fun q l => q.setLinear l (s * q.lin l)) P).quad = P.quad ∧
    (ls.foldl (fun q l => q.setLinear l (s * q.lin l)) P).off = P.off ∧
    (ls.foldl (fun q l => q.setLinear l (s * q.lin l)) P).vt = P.vt ∧
    (∀ x, (ls.foldl (fun q l => q.setLinear l (s * q.lin l)) P).lin x = if x ∈ ls then s * P.lin x else P.lin x) := by
  induction ls with
  | nil => intro P _; exact ⟨rfl, rfl, rfl, rfl, fun x => by simp⟩
  | cons k t ih =>
    intro P hmem
    have hndt := (List.nodup_cons.mp hnd).2
    have hkt := (List.nodup_cons.mp hnd).1
    have hk : k ∈ P.vars := hmem k (by simp)
    simp only [List.foldl]
    have hv' : (P.setLinear k (s * P.lin k)).vars = P.vars := by
      show (P.ensure k).vars = P.vars
      rw [ensure_vars']; simp [hk]
    have r := ih hndt (P.setLinear k (s * P.lin k)) (fun l hl => by rw [hv']; exact hmem l (List.mem_cons_of_mem _ hl))
    refine ⟨r.1.trans hv', r.2.1.trans (by unfold LPoly.setLinear; exact ensure_quad P k),
      r.2.2.1.trans (by unfold LPoly.setLinear; exact ensure_off P k), r.2.2.2.1.trans (by unfold LPoly.setLinear; exact ensure_vt P k), ?_⟩
    intro x
    rw [r.2.2.2.2 x]
    show (if x ∈ t then s * (if x = k then s * P.lin k else P.lin x) else (if x = k then s * P.lin k else P.lin x)) = _
    by_cases hx : x = k
    · rw [hx]; simp [hkt]
    · simp [hx]

/-- unordered-pair membership in a list of ordered pairs with a payload -/
def inPairs (ps : List (Label × Label × Rat)) (a b : Label) : Prop := ∃ t ∈ ps, (t.1 = a ∧ t.2.1 = b) ∨ (t.1 = b ∧ t.2.1 = a)

/-- `set_quadratic(u, v, s · get_quadratic(u, v))` for a list of pairs of known variables, no pair twice -/
theorem quadSetFold (s : Rat) (ps : List (Label × Label × Rat))
    (hdist : ps.Pairwise fun t t' => ¬ ((t.1 = t'.1 ∧ t.2.1 = t'.2.1) ∨ (t.1 = t'.2.1 ∧ t.2.1 = t'.1))) :
    ∀ (P : LPoly), (∀ a b, P.quad a b = P.quad b a) → (∀ t ∈ ps, t.1 ∈ P.vars ∧ t.2.1 ∈ P.vars ∧ t.1 ≠ t.2.1) →
    (ps.foldl (fun q t => q.quadOp t.1 t.2.1 (s * (q.quad t.1 t.2.1).getD 0) true) P).vars = P.vars ∧
    (ps.foldl (fun q t => q.quadOp t.1 t.2.1 (s * (q.quad t.1 t.2.1).getD 0) true) P).lin = P.lin ∧
    (ps.foldl (fun q t => q.quadOp t.1 t.2.1 (s * (q.quad t.1 t.2.1).getD 0) true) P).off = P.off ∧
    (ps.foldl (fun q t => q.quadOp t.1 t.2.1 (s * (q.quad t.1 t.2.1).getD 0) true) P).vt = P.vt ∧
    (∀ a b, (∃ t ∈ ps, (t.1 = a ∧ t.2.1 = b) ∨ (t.1 = b ∧ t.2.1 = a)) →
      (ps.foldl (fun q t => q.quadOp t.1 t.2.1 (s * (q.quad t.1 t.2.1).getD 0) true) P).quad a b = some (s * (P.quad a b).getD 0)) ∧
    (∀ a b, ¬ (∃ t ∈ ps, (t.1 = a ∧ t.2.1 = b) ∨ (t.1 = b ∧ t.2.1 = a)) →
      (ps.foldl (fun q t => q.quadOp t.1 t.2.1 (s * (q.quad t.1 t.2.1).getD 0) true) P).quad a b = P.quad a b) := by
  induction ps with
  | nil =>
    intro P _ _
    exact ⟨rfl, rfl, rfl, rfl, fun a b h => (by obtain ⟨t, ht, _⟩ := h; cases ht), fun _ _ _ => rfl⟩
  | cons e t ih =>
    intro P hsym hmem
    have hd := List.pairwise_cons.mp hdist
    have he := hmem e (by simp)
    simp only [List.foldl]
    generalize hP' : P.quadOp e.1 e.2.1 (s * (P.quad e.1 e.2.1).getD 0) true = P'
    have hv' : P'.vars = P.vars := by rw [← hP', vars_quadOp]; exact ensure2_idem P e.1 e.2.1 he.1 he.2.1
    have hq' : ∀ a b, P'.quad a b = if (a = e.1 ∧ b = e.2.1) ∨ (a = e.2.1 ∧ b = e.1) then some (s * (P.quad e.1 e.2.1).getD 0) else P.quad a b := by
      intro a b; rw [← hP', quad_quadOp]; simp
    have hsym' : ∀ a b, P'.quad a b = P'.quad b a := by
      intro a b
      rw [hq', hq']
      by_cases hc : (a = e.1 ∧ b = e.2.1) ∨ (a = e.2.1 ∧ b = e.1)
      · have hc' : (b = e.1 ∧ a = e.2.1) ∨ (b = e.2.1 ∧ a = e.1) := by
          rcases hc with ⟨x1, x2⟩ | ⟨x1, x2⟩
          · exact Or.inr ⟨x2, x1⟩
          · exact Or.inl ⟨x2, x1⟩
        rw [if_pos hc, if_pos hc']
      · have hc' : ¬ ((b = e.1 ∧ a = e.2.1) ∨ (b = e.2.1 ∧ a = e.1)) := by
          intro h; apply hc
          rcases h with ⟨x1, x2⟩ | ⟨x1, x2⟩
          · exact Or.inr ⟨x2, x1⟩
          · exact Or.inl ⟨x2, x1⟩
        rw [if_neg hc, if_neg hc']; exact hsym a b
    have r := ih hd.2 P' hsym' (fun x hx => by rw [hv']; exact hmem x (List.mem_cons_of_mem _ hx))
    refine ⟨r.1.trans hv', r.2.1.trans (by rw [← hP']; exact lin_quadOp P _ _ _ _), r.2.2.1.trans (by rw [← hP']; exact off_quadOp P _ _ _ _),
      r.2.2.2.1.trans (by rw [← hP']; exact vt_quadOp' P _ _ _ _), ?_, ?_⟩
    · intro a b hab
      by_cases hin : ∃ x ∈ t, (x.1 = a ∧ x.2.1 = b) ∨ (x.1 = b ∧ x.2.1 = a)
      · -- handled later in the list: its entry is untouched by the head
        rw [r.2.2.2.2.1 a b hin, hq']
        obtain ⟨x, hx, hxab⟩ := hin
        have hne := hd.1 x hx
        have : ¬ ((a = e.1 ∧ b = e.2.1) ∨ (a = e.2.1 ∧ b = e.1)) := by
          intro h; apply hne
          rcases hxab with ⟨y1, y2⟩ | ⟨y1, y2⟩ <;> rcases h with ⟨z1, z2⟩ | ⟨z1, z2⟩
          · exact Or.inl ⟨z1.symm.trans y1.symm, z2.symm.trans y2.symm⟩
          · exact Or.inr ⟨z2.symm.trans y2.symm, z1.symm.trans y1.symm⟩
          · exact Or.inr ⟨z1.symm.trans y2.symm, z2.symm.trans y1.symm⟩
          · exact Or.inl ⟨z2.symm.trans y1.symm, z1.symm.trans y2.symm⟩
        rw [if_neg this]
      · rw [r.2.2.2.2.2 a b hin, hq']
        obtain ⟨x, hx, hxab⟩ := hab
        rcases List.mem_cons.mp hx with hxe | hxt
        · rw [hxe] at hxab
          rcases hxab with ⟨y1, y2⟩ | ⟨y1, y2⟩
          · rw [if_pos (Or.inl ⟨y1.symm, y2.symm⟩), y1, y2]
          · rw [if_pos (Or.inr ⟨y2.symm, y1.symm⟩), y1, y2, hsym b a]
        · exact absurd ⟨x, hxt, hxab⟩ hin
    · intro a b hab
      have hin : ¬ ∃ x ∈ t, (x.1 = a ∧ x.2.1 = b) ∨ (x.1 = b ∧ x.2.1 = a) := by
        intro ⟨x, hx, h⟩; exact hab ⟨x, List.mem_cons_of_mem _ hx, h⟩
      rw [r.2.2.2.2.2 a b hin, hq']
      have : ¬ ((a = e.1 ∧ b = e.2.1) ∨ (a = e.2.1 ∧ b = e.1)) := by
        intro h; apply hab
        refine ⟨e, by simp, ?_⟩
        rcases h with ⟨z1, z2⟩ | ⟨z1, z2⟩
        · exact Or.inl ⟨z1.symm, z2.symm⟩
        · exact Or.inr ⟨z2.symm, z1.symm⟩
      rw [if_neg this]

/-! ### the lower triangle lists every interaction exactly once -/

theorem mem_nbrs_of {q : LPoly} {v w : Label} {c : Rat} (hw : w ∈ q.vars) (h : q.quad v w = some c) : (w, c) ∈ q.nbrs v := by
  unfold LPoly.nbrs
  exact List.mem_filterMap.mpr ⟨w, hw, by rw [h]; rfl⟩

theorem mem_lower {q : LPoly} {t : Label × Label × Rat} (h : t ∈ q.lower) :
    t.1 ∈ q.vars ∧ q.quad t.1 t.2.1 = some t.2.2 ∧ q.pos t.2.1 < q.pos t.1 := by
  unfold LPoly.lower at h
  obtain ⟨u, hu, hr⟩ := List.mem_flatMap.mp h
  obtain ⟨lc, hlc, e⟩ := List.mem_map.mp hr
  have hf := List.mem_filter.mp hlc
  have hq := mem_nbrs (show (lc.1, lc.2) ∈ q.nbrs u from hf.1)
  rw [← e]
  exact ⟨hu, hq, by simpa using hf.2⟩

theorem mem_lower_of {q : LPoly} (w : LWF q) {a b : Label} {c : Rat} (h : q.quad a b = some c) (hp : q.pos b < q.pos a) :
    (a, b, c) ∈ q.lower := by
  have hm := w.closed a b (by rw [h]; rfl)
  unfold LPoly.lower
  refine List.mem_flatMap.mpr ⟨a, hm.1, ?_⟩
  refine List.mem_map.mpr ⟨(b, c), ?_, rfl⟩
  exact List.mem_filter.mpr ⟨mem_nbrs_of hm.2 h, by simpa using hp⟩

theorem lower_covers {q : LPoly} (w : LWF q) {a b : Label} (h : (q.quad a b).isSome) :
    ∃ t ∈ q.lower, (t.1 = a ∧ t.2.1 = b) ∨ (t.1 = b ∧ t.2.1 = a) := by
  cases hc : q.quad a b with
  | none => rw [hc] at h; cases h
  | some c =>
    have hm := w.closed a b h
    have hne : a ≠ b := by intro e; rw [e, w.noself b] at hc; cases hc
    have hpos : q.pos a ≠ q.pos b := fun e => hne (pos_inj w.nodup hm.1 hm.2 e)
    by_cases hp : q.pos b < q.pos a
    · exact ⟨(a, b, c), mem_lower_of w hc hp, Or.inl ⟨rfl, rfl⟩⟩
    · have hp' : q.pos a < q.pos b := by omega
      have hc' : q.quad b a = some c := by rw [w.symm b a]; exact hc
      exact ⟨(b, a, c), mem_lower_of w hc' hp', Or.inr ⟨rfl, rfl⟩⟩

theorem lower_pairwise {q : LPoly} (w : LWF q) :
    q.lower.Pairwise fun t t' => ¬ ((t.1 = t'.1 ∧ t.2.1 = t'.2.1) ∨ (t.1 = t'.2.1 ∧ t.2.1 = t'.1)) := by
  unfold LPoly.lower
  rw [List.pairwise_flatMap]
  constructor
  · intro u hu
    rw [List.pairwise_map]
    apply List.Pairwise.filter
    -- distinct neighbours
    unfold LPoly.nbrs
    have hv : q.vars.Pairwise (· ≠ ·) := w.nodup
    refine List.Pairwise.filterMap _ ?_ hv
    intro x y hxy lc hlc lc' hlc'
    cases hqx : q.quad u x with
    | none => rw [hqx] at hlc; cases hlc
    | some cx =>
      cases hqy : q.quad u y with
      | none => rw [hqy] at hlc'; cases hlc'
      | some cy =>
        rw [hqx] at hlc; rw [hqy] at hlc'
        simp only [Option.map_some, Option.some.injEq] at hlc hlc'
        rw [← hlc, ← hlc']
        intro h
        rcases h with ⟨_, h2⟩ | ⟨h1, h2⟩
        · exact hxy h2
        · -- `u` its own neighbour: no self-loop
          simp only [] at h1 h2
          rw [← h2, w.noself] at hqx; cases hqx
  · have hv : q.vars.Pairwise (· ≠ ·) := w.nodup
    refine hv.imp ?_
    intro u1 u2 hne x hx y hy
    obtain ⟨lc, hlc, ex⟩ := List.mem_map.mp hx
    obtain ⟨lc', hlc', ey⟩ := List.mem_map.mp hy
    have f1 := List.mem_filter.mp hlc
    have f2 := List.mem_filter.mp hlc'
    rw [← ex, ← ey]
    intro h
    rcases h with ⟨h1, _⟩ | ⟨h1, h2⟩
    · exact hne h1
    · simp only [] at h1 h2
      have p1 : q.pos lc.1 < q.pos u1 := by simpa using f1.2
      have p2 : q.pos lc'.1 < q.pos u2 := by simpa using f2.2
      rw [h2] at p1; rw [← h1] at p2
      omega

/-! ### the loops of the model -/

theorem scaleLin_view (tv : VT) (s : Rat) (m : Bqm) (is : List Nat) (hb : ∀ j ∈ is, j < m.labels.length) :
    ∀ acc, Inv acc → LabelsExt m acc →
      (absL (is.foldl (scaleLinStep tv s) acc)).viewP tv =
        (is.map fun j => m.labels.getD j (.int 0)).foldl (fun q l => q.setLinear l (s * q.lin l)) ((absL acc).viewP tv) ∧
      Inv (is.foldl (scaleLinStep tv s) acc) ∧ LabelsExt m (is.foldl (scaleLinStep tv s) acc) := by
  induction is with
  | nil => intro acc ia ea; exact ⟨rfl, ia, ea⟩
  | cons j t ih =>
    intro acc ia ea
    have hj := hb j (by simp)
    have hget : m.labels[j]? = some (m.labels.getD j (.int 0)) := getD_label hj
    have hacc : acc.labels[j]? = some (m.labels.getD j (.int 0)) := ea.get hget
    have hidx : acc.indexOf? (m.labels.getD j (.int 0)) = some j := indexOf?_of_get ia.nodup hacc
    simp only [List.foldl, List.map_cons]
    have hstep : scaleLinStep tv s acc j = acc.vSetLinear tv (m.labels.getD j (.int 0)) (s * acc.vGetLinear tv j) := by
      unfold scaleLinStep; rw [hacc]
    rw [hstep]
    have r := view_setLinear ia tv (m.labels.getD j (.int 0)) (s * acc.vGetLinear tv j)
    rw [view_read_lin ia tv hidx] at r
    rw [view_read_lin ia tv hidx, ← r.1]
    exact ih (fun x hx => hb x (List.mem_cons_of_mem _ hx)) _ r.2 (ea.trans (ext_vSetLinear acc tv _ _))

theorem scaleQuad_view (tv : VT) (s : Rat) (m : Bqm) (ts : List (Nat × Nat × Rat))
    (hb : ∀ t ∈ ts, t.1 < m.labels.length ∧ t.2.1 < m.labels.length ∧ t.1 ≠ t.2.1) (hn : m.labels.Nodup) :
    ∀ acc, Inv acc → LabelsExt m acc →
      (absL (ts.foldl (scaleQuadStep tv s) acc)).viewP tv =
        (ts.map fun t => (m.labels.getD t.1 (.int 0), m.labels.getD t.2.1 (.int 0), t.2.2)).foldl
          (fun q t => q.quadOp t.1 t.2.1 (s * (q.quad t.1 t.2.1).getD 0) true) ((absL acc).viewP tv) ∧
      Inv (ts.foldl (scaleQuadStep tv s) acc) ∧ LabelsExt m (ts.foldl (scaleQuadStep tv s) acc) := by
  induction ts with
  | nil => intro acc ia ea; exact ⟨rfl, ia, ea⟩
  | cons t rest ih =>
    intro acc ia ea
    have ht := hb t (by simp)
    have hu : acc.labels[t.1]? = some (m.labels.getD t.1 (.int 0)) := ea.get (getD_label ht.1)
    have hv : acc.labels[t.2.1]? = some (m.labels.getD t.2.1 (.int 0)) := ea.get (getD_label ht.2.1)
    have hiu := indexOf?_of_get ia.nodup hu
    have hiv := indexOf?_of_get ia.nodup hv
    have hne : m.labels.getD t.1 (.int 0) ≠ m.labels.getD t.2.1 (.int 0) := nodup_getD_ne hn ht.1 ht.2.1 ht.2.2
    simp only [List.foldl, List.map_cons]
    have hstep : scaleQuadStep tv s acc t =
        (acc.vSetQuadratic tv (m.labels.getD t.1 (.int 0)) (m.labels.getD t.2.1 (.int 0)) (s * ((acc.vGetQuadratic tv t.1 t.2.1).getD 0))).1 := by
      unfold scaleQuadStep; rw [hu, hv]
    rw [hstep]
    have hread : (acc.vGetQuadratic tv t.1 t.2.1).getD 0 =
        (((absL acc).viewP tv).quad (m.labels.getD t.1 (.int 0)) (m.labels.getD t.2.1 (.int 0))).getD 0 := by
      show ((acc.quadAt t.1 t.2.1).map (acc.vQuadFactor tv * ·)).getD 0 = (((absL acc).quad _ _).map ((absL acc).viewFactor tv * ·)).getD 0
      rw [quad_absL hiu hiv]; rfl
    have r := view_setQuadratic ia tv _ _ (s * ((acc.vGetQuadratic tv t.1 t.2.1).getD 0)) hne
    rw [hread] at r
    rw [hread, ← r.1]
    exact ih (fun x hx => hb x (List.mem_cons_of_mem _ hx)) _ r.2.2 (ea.trans (ext_vSetQuadratic acc tv _ _ _))

/-- **`scale(s)` through a view** (the generic loop of `BinaryQuadraticModel.scale`) -/
theorem view_scale {m : Bqm} (i : Inv m) (tv : VT) (s : Rat) :
    (absL (m.vScale tv true s)).viewP tv = ((absL m).viewP tv).scale s ∧ Inv (m.vScale tv true s) := by
  unfold Bqm.vScale
  simp only [Bool.not_true, Bool.false_eq_true, if_false]
  -- loop 1
  have L1 := scaleLin_view tv s m (List.range m.labels.length) (fun j hj => List.mem_range.mp hj) m i (LabelsExt.refl m)
  have hlabs : (List.range m.labels.length).map (fun j => m.labels.getD j (.int 0)) = m.labels := (list_eq_map_range m.labels (.int 0)).symm
  rw [hlabs] at L1
  obtain ⟨h1, i1, e1⟩ := L1
  generalize (List.range m.labels.length).foldl (scaleLinStep tv s) m = m1 at h1 i1 e1
  have wP := (LWF.absL i).viewP tv
  have S1 := setFold s m.labels i.nodup ((absL m).viewP tv) (fun l hl => hl)
  rw [← h1] at S1
  -- loop 2
  have hb2 : ∀ t ∈ m1.lowerTriples, t.1 < m1.labels.length ∧ t.2.1 < m1.labels.length ∧ t.1 ≠ t.2.1 := by
    intro t ht
    have := lowerTriples_bound i1 t ht
    exact ⟨this.1, by omega, by omega⟩
  have L2 := scaleQuad_view tv s m1 m1.lowerTriples hb2 i1.nodup m1 i1 (LabelsExt.refl m1)
  rw [← lower_absL i1] at L2
  obtain ⟨h2, i2, e2⟩ := L2
  generalize m1.lowerTriples.foldl (scaleQuadStep tv s) m1 = m2 at h2 i2 e2
  have w1 := LWF.absL i1
  have wP1 := w1.viewP tv
  have hmem2 : ∀ t ∈ (absL m1).lower, t.1 ∈ ((absL m1).viewP tv).vars ∧ t.2.1 ∈ ((absL m1).viewP tv).vars ∧ t.1 ≠ t.2.1 := by
    intro t ht
    have f := mem_lower ht
    have hm := w1.closed t.1 t.2.1 (by rw [f.2.1]; rfl)
    refine ⟨hm.1, hm.2, ?_⟩
    intro e; rw [e, w1.noself] at f; cases f.2.1
  have S2 := quadSetFold s (absL m1).lower (lower_pairwise w1) ((absL m1).viewP tv) wP1.symm hmem2
  rw [← h2] at S2
  -- the offset
  have r3 := view_setOffset i2 tv (m2.vOffset tv * s)
  refine ⟨?_, r3.2⟩
  rw [r3.1, ← viewOff_absL i2]
  -- compare with `scale`
  have hq1 : ((absL m1).viewP tv).quad = ((absL m).viewP tv).quad := S1.2.1
  apply LPoly.ext'
  · show ((absL m2).viewP tv).vars = ((absL m).viewP tv).vars
    rw [S2.1, S1.1]
  · intro x
    show ((absL m2).viewP tv).lin x = ((absL m).viewP tv).lin x * s
    rw [S2.2.1, S1.2.2.2.2 x]
    by_cases hx : x ∈ m.labels
    · rw [if_pos hx]; exact Rat.mul_comm _ _
    · rw [if_neg hx, wP.lin0 x hx, Rat.zero_mul]
  · intro a b
    show ((absL m2).viewP tv).quad a b = (((absL m).viewP tv).quad a b).map (· * s)
    by_cases hs : (((absL m1).viewP tv).quad a b).isSome
    · have hcov : ∃ t ∈ (absL m1).lower, (t.1 = a ∧ t.2.1 = b) ∨ (t.1 = b ∧ t.2.1 = a) := by
        apply lower_covers w1
        have hs' : (((absL m1).quad a b).map ((absL m1).viewFactor tv * ·)).isSome := hs
        cases hc : (absL m1).quad a b with
        | none => rw [hc] at hs'; cases hs'
        | some c => rfl
      rw [S2.2.2.2.2.1 a b hcov, hq1]
      rw [hq1] at hs
      cases hc : ((absL m).viewP tv).quad a b with
      | none => rw [hc] at hs; cases hs
      | some c => simp only [Option.getD_some, Option.map_some]; rw [Rat.mul_comm]
    · have hnc : ¬ ∃ t ∈ (absL m1).lower, (t.1 = a ∧ t.2.1 = b) ∨ (t.1 = b ∧ t.2.1 = a) := by
        intro ⟨t, ht, hab⟩
        apply hs
        have f := mem_lower ht
        have hsome : ((absL m1).quad a b).isSome := by
          rcases hab with ⟨x1, x2⟩ | ⟨x1, x2⟩
          · rw [← x1, ← x2, f.2.1]; rfl
          · rw [w1.symm a b, ← x1, ← x2, f.2.1]; rfl
        show (((absL m1).quad a b).map _).isSome
        cases hc : (absL m1).quad a b with
        | none => rw [hc] at hsome; cases hsome
        | some c => rfl
      rw [S2.2.2.2.2.2 a b hnc, hq1]
      rw [hq1] at hs
      cases hc : ((absL m).viewP tv).quad a b with
      | none => rfl
      | some c => rw [hc] at hs; exact absurd rfl hs
  · show ((absL m2).viewP tv).off * s = ((absL m).viewP tv).off * s
    rw [S2.2.2.1, S1.2.2.1]
  · rfl

end Bqm
