import DimodModel.ViewHeap
import Mathlib.Tactic.Ring
import Mathlib.Algebra.Order.Field.Rat

/-! The object graph of `.spin` / `.binary` views: every object always reads the base model in its own vartype (C02, round 8). -/

namespace ViewHeap
namespace Heap

theorem toSpin_conv (a b : VT) (x : Nat → Rat) : toSpin b (conv a b x) = toSpin a x := by
  cases a <;> cases b <;> funext i <;> simp only [toSpin, conv] <;> ring

theorem cellVal_eq (F : (Nat → Rat) → Rat) (h : Heap) (hv : ∀ (k : Nat) (p : Nat × VT), h.views[k]? = some p → p.1 ≤ k) :
    ∀ fuel c x, c < fuel → c ≤ h.views.length → cellVal F h fuel c x = F (toSpin (h.cellVt c) x) := by
  intro fuel
  induction fuel with
  | zero => intro c x hc; omega
  | succ fuel ih =>
    intro c x hc hlen
    cases c with
    | zero => rfl
    | succ c =>
      have hlt : c < h.views.length := by omega
      have hsome : h.views[c]? = some h.views[c] := List.getElem?_eq_getElem hlt
      have hle := hv c _ hsome
      have hcv : h.cellVt (c + 1) = h.views[c].2 := by simp only [cellVt, hsome]
      have hstep : cellVal F h (fuel + 1) (c + 1) x = cellVal F h fuel h.views[c].1 (conv h.views[c].2 (h.cellVt h.views[c].1) x) := by
        simp only [cellVal, hsome]
      rw [hstep, hcv, ih _ _ (by omega) (by omega), toSpin_conv]

theorem objVal_eq (F : (Nat → Rat) → Rat) (h : Heap) (hwf : h.WF) (o : Nat) (ho : o < h.objs.length) (x : Nat → Rat) :
    objVal F h o x = F (toSpin (h.objVt o) x) := by
  unfold objVal objVt
  have hmem : h.objs.getD o { data := 0 } ∈ h.objs := by
    rw [List.getD_eq_getElem?_getD, List.getElem?_eq_getElem ho]; exact List.getElem_mem ho
  have hd := hwf.objs _ hmem
  exact cellVal_eq F h hwf.views _ _ x (by omega) hd

theorem wf_init (vt : VT) : (init vt).WF :=
  ⟨by intro k p h; simp [init] at h, by intro o ho; simp [init] at ho; subst ho; exact Nat.le_refl 0, by simp [init]⟩

theorem getD_data_le {h : Heap} (hwf : h.WF) (o : Nat) : (h.objs.getD o { data := 0 }).data ≤ h.views.length := by
  by_cases ho : o < h.objs.length
  · apply hwf.objs
    rw [List.getD_eq_getElem?_getD, List.getElem?_eq_getElem ho]; exact List.getElem_mem ho
  · rw [List.getD_eq_getElem?_getD, List.getElem?_eq_none (by omega)]; exact Nat.zero_le _

theorem wf_stack {h : Heap} (hwf : h.WF) (o : Nat) (vt : VT) : (h.stack o vt).1.WF := by
  refine ⟨?_, ?_, ?_⟩
  · intro k p hk
    simp only [stack] at hk
    by_cases hlt : k < h.views.length
    · rw [List.getElem?_append_left hlt] at hk; exact hwf.views k p hk
    · have hge : h.views.length ≤ k := by omega
      rw [List.getElem?_append_right hge] at hk
      have hk0 : k - h.views.length = 0 := by
        by_contra hne
        rw [List.getElem?_eq_none (by simp; omega)] at hk; cases hk
      rw [hk0] at hk
      simp only [List.getElem?_cons_zero, Option.some.injEq] at hk
      subst hk
      have := getD_data_le hwf o
      simp only []; omega
  · intro ob hob
    simp only [stack, List.mem_append, List.mem_singleton, List.length_append, List.length_singleton] at hob ⊢
    rcases hob with hob | hob
    · rcases List.mem_or_eq_of_mem_set hob with hmem | heq
      · have := hwf.objs ob hmem; omega
      · have := getD_data_le hwf o
        subst heq; cases vt <;> simp only [] <;> omega
    · subst hob; cases vt <;> simp only [] <;> omega
  · simp only [stack, List.length_append, List.length_singleton]; omega

theorem wf_getView {h : Heap} (hwf : h.WF) (o : Nat) (vt : VT) : (h.getView o vt).1.WF := by
  unfold getView
  split
  · exact hwf
  · split
    · split
      · exact hwf
      · exact wf_stack hwf o vt
    · exact wf_stack hwf o vt

theorem wf_changeVartype {h : Heap} (hwf : h.WF) (o : Nat) (vt : VT) : (h.changeVartype o vt).WF := by
  unfold changeVartype
  split
  · exact ⟨hwf.views, hwf.objs, hwf.nonempty⟩
  · rename_i c _
    refine ⟨?_, ?_, hwf.nonempty⟩
    · intro k p hk
      simp only [List.getElem?_set] at hk
      by_cases hck : c = k
      · subst hck
        by_cases hlt : c < h.views.length
        · rw [if_pos rfl, if_pos hlt] at hk
          simp only [Option.some.injEq] at hk
          subst hk
          simp only []
          have hsome : h.views[c]? = some h.views[c] := List.getElem?_eq_getElem hlt
          have := hwf.views c _ hsome
          rw [List.getD_eq_getElem?_getD, hsome]; exact this
        · rw [if_pos rfl, if_neg hlt] at hk; cases hk
      · rw [if_neg hck] at hk; exact hwf.views k p hk
    · intro ob hob
      simp only [List.length_set]
      exact hwf.objs ob hob

theorem wf_step {h : Heap} (hwf : h.WF) (op : Op) : (h.step op).1.WF := by
  cases op with
  | binary o =>
    show (if o < h.objs.length then h.getView o .binary else (h, o)).1.WF
    by_cases ho : o < h.objs.length
    · rw [if_pos ho]; exact wf_getView hwf o _
    · rw [if_neg ho]; exact hwf
  | spin o =>
    show (if o < h.objs.length then h.getView o .spin else (h, o)).1.WF
    by_cases ho : o < h.objs.length
    · rw [if_pos ho]; exact wf_getView hwf o _
    · rw [if_neg ho]; exact hwf
  | changeVartype o vt =>
    show (if o < h.objs.length then (h.changeVartype o vt, o) else (h, o)).1.WF
    by_cases ho : o < h.objs.length
    · rw [if_pos ho]; exact wf_changeVartype hwf o vt
    · rw [if_neg ho]; exact hwf

theorem wf_run {h : Heap} (hwf : h.WF) (ops : List Op) : (h.run ops).WF := by
  unfold run
  induction ops generalizing h with
  | nil => exact hwf
  | cons op t ih => rw [List.foldl_cons]; exact ih (wf_step hwf op)

/-- the object `stack` creates has the requested vartype -/
theorem stack_vt (h : Heap) (o : Nat) (vt : VT) : (h.stack o vt).1.objVt (h.stack o vt).2 = vt := by
  cases vt <;> simp [stack, objVt, cellVt, List.getElem?_append_right]

theorem getView_vt (h : Heap) (o : Nat) (vt : VT) : (h.getView o vt).1.objVt (h.getView o vt).2 = vt := by
  unfold getView
  split
  · assumption
  · split
    · split
      · rename_i hc
        rcases hc with hc | hc
        · exact absurd hc (by decide)
        · exact hc
      · exact stack_vt h o vt
    · exact stack_vt h o vt

end Heap
end ViewHeap
