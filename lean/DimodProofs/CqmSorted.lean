import DimodProofs.CqmLabels
import Mathlib.Tactic.Ring
import Mathlib.Algebra.Order.Field.Rat

/-! Neighbourhoods stay strictly sorted by local index (what `std::lower_bound` in
    `asymmetric_quadratic_ref` and the `break` in `abc::energy` rely on), and with that the coefficient-level
    effect of adding a quadratic term (property C05). -/

namespace CqmP
open Expr Cqm

def AdjSorted (adj : List (List (Nat × Rat))) : Prop := ∀ ks ∈ keysOf adj, ks.Pairwise (· < ·)

def ExprSorted (e : Expr) : Prop := AdjSorted e.qb.adj

theorem adjSorted_of_keys {a b : List (List (Nat × Rat))} (h : keysOf a = keysOf b) (hb : AdjSorted b) : AdjSorted a := by
  unfold AdjSorted; rw [h]; exact hb

theorem adjSorted_iff {adj : List (List (Nat × Rat))} : AdjSorted adj ↔ ∀ nb ∈ adj, (nb.map Prod.fst).Pairwise (· < ·) := by
  unfold AdjSorted keysOf
  constructor
  · intro h nb hnb; exact h _ (List.mem_map.mpr ⟨nb, hnb, rfl⟩)
  · intro h ks hks
    obtain ⟨nb, hnb, rfl⟩ := List.mem_map.mp hks
    exact h nb hnb

/-! ### sorted insertion -/

theorem nbhAdd_cons (w : Nat) (c : Rat) (t : List (Nat × Rat)) (v : Nat) (b : Rat) (s : Bool) :
    Bqm.nbhAdd ((w, c) :: t) v b s =
      if w < v then (w, c) :: Bqm.nbhAdd t v b s
      else if w = v then (w, if s then b else c + b) :: t
      else (v, b) :: (w, c) :: t := by
  rw [Bqm.nbhAdd]

theorem sorted_nbhAdd {nb : List (Nat × Rat)} (h : (nb.map Prod.fst).Pairwise (· < ·)) (v : Nat) (b : Rat) (s : Bool) :
    ((Bqm.nbhAdd nb v b s).map Prod.fst).Pairwise (· < ·) := by
  induction nb with
  | nil => simp [Bqm.nbhAdd]
  | cons q t ih =>
    obtain ⟨w, c⟩ := q
    rw [List.map_cons, List.pairwise_cons] at h
    rw [nbhAdd_cons]
    by_cases h1 : w < v
    · rw [if_pos h1, List.map_cons, List.pairwise_cons]
      refine ⟨?_, ih h.2⟩
      intro k hk
      obtain ⟨p, hp, rfl⟩ := List.mem_map.mp hk
      rcases mem_nbhAdd hp with hpv | ⟨q', hq', hqe⟩
      · show w < p.1; rw [hpv]; exact h1
      · show w < p.1; rw [← hqe]; exact h.1 _ (List.mem_map.mpr ⟨q', hq', rfl⟩)
    · rw [if_neg h1]
      by_cases h2 : w = v
      · rw [if_pos h2, List.map_cons, List.pairwise_cons]; exact ⟨h.1, h.2⟩
      · rw [if_neg h2, List.map_cons, List.pairwise_cons]
        refine ⟨?_, by rw [List.map_cons, List.pairwise_cons]; exact h⟩
        intro k hk
        rw [List.map_cons] at hk
        rcases List.mem_cons.mp hk with hkw | hk
        · rw [hkw]; show v < w; omega
        · have : w < k := h.1 k hk
          omega

theorem nbhCoef_zero_of_lt {t : List (Nat × Rat)} {v : Nat} (hall : ∀ p ∈ t, v < p.1) : QB.nbhCoef t v = 0 := by
  induction t with
  | nil => rfl
  | cons p t' ih =>
    obtain ⟨x, y⟩ := p
    have hx : v < x := hall (x, y) List.mem_cons_self
    rw [QB.nbhCoef]
    have : ¬ x = v := by omega
    rw [if_neg this]
    exact ih (fun p hp => hall p (List.mem_cons_of_mem _ hp))

/-- the bias a neighbourhood stores for `k` after `asymmetric_quadratic_ref(·, v) += b` -/
theorem nbhCoef_nbhAdd {nb : List (Nat × Rat)} (h : (nb.map Prod.fst).Pairwise (· < ·)) (v : Nat) (b : Rat) (k : Nat) :
    QB.nbhCoef (Bqm.nbhAdd nb v b false) k = QB.nbhCoef nb k + (if k = v then b else 0) := by
  induction nb with
  | nil =>
    rw [Bqm.nbhAdd, QB.nbhCoef, QB.nbhCoef, QB.nbhCoef]
    by_cases hk : k = v
    · rw [if_pos hk.symm, if_pos hk]; simp
    · rw [if_neg (fun h => hk h.symm), if_neg hk]; simp
  | cons q t ih =>
    obtain ⟨w, c⟩ := q
    rw [List.map_cons, List.pairwise_cons] at h
    rw [nbhAdd_cons]
    by_cases h1 : w < v
    · rw [if_pos h1, QB.nbhCoef, QB.nbhCoef]
      by_cases hwk : w = k
      · rw [if_pos hwk, if_pos hwk]
        have : ¬ k = v := by omega
        rw [if_neg this]; simp
      · rw [if_neg hwk, if_neg hwk]; exact ih h.2
    · rw [if_neg h1]
      by_cases h2 : w = v
      · rw [if_pos h2, QB.nbhCoef, QB.nbhCoef]
        simp only [Bool.false_eq_true, if_false]
        by_cases hwk : w = k
        · rw [if_pos hwk, if_pos hwk, if_pos (hwk.symm.trans h2)]
        · rw [if_neg hwk, if_neg hwk]
          have : ¬ k = v := fun hkv => hwk (h2.trans hkv.symm)
          rw [if_neg this]; simp
      · rw [if_neg h2, QB.nbhCoef]
        by_cases hvk : v = k
        · rw [if_pos hvk, if_pos hvk.symm, QB.nbhCoef]
          have hwk : ¬ w = k := fun hh => h2 (hh.trans hvk.symm)
          rw [if_neg hwk]
          have hz : QB.nbhCoef t k = 0 := by
            apply nbhCoef_zero_of_lt
            intro p hp
            have : w < p.1 := h.1 p.1 (List.mem_map.mpr ⟨p, hp, rfl⟩)
            omega
          rw [hz]; simp
        · rw [if_neg hvk, if_neg (fun hh => hvk hh.symm)]; simp

/-! ### the other primitives keep the order -/

theorem sorted_shiftNbh (i : Nat) {nb : List (Nat × Rat)} (h : (nb.map Prod.fst).Pairwise (· < ·)) :
    ((QB.shiftNbh i nb).map Prod.fst).Pairwise (· < ·) := by
  unfold QB.shiftNbh
  induction nb with
  | nil => simp
  | cons p t ih =>
    rw [List.map_cons, List.pairwise_cons] at h
    by_cases hp : p.1 = i
    · simp only [List.filter_cons, ne_eq, hp, not_true_eq_false, decide_false, Bool.false_eq_true, if_false]
      exact ih h.2
    · simp only [List.filter_cons, ne_eq, hp, not_false_eq_true, decide_true, if_true, List.map_cons, List.pairwise_cons]
      refine ⟨?_, ih h.2⟩
      intro k hk
      obtain ⟨q, hq, rfl⟩ := List.mem_map.mp hk
      obtain ⟨q0, hq0, rfl⟩ := List.mem_map.mp hq
      rw [List.mem_filter] at hq0
      have hlt := h.1 q0.1 (List.mem_map.mpr ⟨q0, hq0.1, rfl⟩)
      have hq0i : q0.1 ≠ i := by simpa using hq0.2
      have e1 : (if p.1 > i then (p.1 - 1, p.2) else p).1 = shift i p.1 := by unfold shift; split <;> rfl
      have e2 : (if q0.1 > i then (q0.1 - 1, q0.2) else q0).1 = shift i q0.1 := by unfold shift; split <;> rfl
      rw [e1, e2]
      unfold shift
      split <;> split <;> omega

theorem sorted_filter {nb : List (Nat × Rat)} (p : Nat × Rat → Bool) (h : (nb.map Prod.fst).Pairwise (· < ·)) :
    ((nb.filter p).map Prod.fst).Pairwise (· < ·) :=
  List.Pairwise.sublist (List.Sublist.map _ List.filter_sublist) h

theorem adjSorted_modifyAt {adj : List (List (Nat × Rat))} (h : AdjSorted adj) (i : Nat) (f : List (Nat × Rat) → List (Nat × Rat))
    (hf : ∀ nb, (nb.map Prod.fst).Pairwise (· < ·) → ((f nb).map Prod.fst).Pairwise (· < ·)) :
    AdjSorted (Bqm.modifyAt adj i f) := by
  rw [adjSorted_iff] at h ⊢
  intro nb hnb
  rcases mem_modifyAt hnb with h1 | ⟨nb0, hnb0, rfl⟩
  · exact h nb h1
  · exact hf nb0 (h nb0 hnb0)

theorem asym_sorted {q : QB} (h : AdjSorted q.adj) (u v : Nat) (b : Rat) (s : Bool) : AdjSorted (q.asym u v b s).adj :=
  adjSorted_modifyAt h u _ (fun _ hnb => sorted_nbhAdd hnb v b s)

theorem addQuadraticQB_sorted {q : QB} (h : AdjSorted q.adj) (vt : VT4) (u v : Nat) (b : Rat) :
    AdjSorted (q.addQuadratic vt u v b).adj := by
  unfold QB.addQuadratic
  split
  · cases vt with
    | binary => exact h
    | spin => exact h
    | integer => exact asym_sorted h _ _ _ _
    | real => exact asym_sorted h _ _ _ _
  · exact asym_sorted (asym_sorted h _ _ _ _) _ _ _ _

theorem removeVarQB_sorted {q : QB} (h : AdjSorted q.adj) (i : Nat) : AdjSorted (q.removeVar i).adj := by
  rw [adjSorted_iff] at h ⊢
  intro nb hnb
  have hnb' : nb ∈ (Bqm.eraseIdx q.adj i).map (QB.shiftNbh i) := hnb
  obtain ⟨nb0, hnb0, rfl⟩ := List.mem_map.mp hnb'
  rw [eraseIdx_eq] at hnb0
  exact sorted_shiftNbh i (h nb0 ((List.eraseIdx_sublist _ _).subset hnb0))

/-! ### expressions -/

theorem exprSorted_empty : ExprSorted ({} : Expr) := by intro ks h; cases h

theorem enforce_sorted {e : Expr} (h : ExprSorted e) (g : Nat) : ExprSorted (e.enforce g).1 := by
  cases hg : e.idx.get? g with
  | some i => rw [enforce_of_some hg]; exact h
  | none =>
    rw [enforce_of_none hg]
    show AdjSorted (e.qb.adj ++ [[]])
    unfold ExprSorted at h
    rw [adjSorted_iff] at h ⊢
    intro nb hnb
    rcases List.mem_append.mp hnb with h1 | h1
    · exact h nb h1
    · have : nb = [] := by simpa using h1
      subst this; simp

theorem addLinear_sorted {e : Expr} (h : ExprSorted e) (g : Nat) (b : Rat) : ExprSorted (e.addLinear g b) := enforce_sorted h g
theorem setLinear_sorted {e : Expr} (h : ExprSorted e) (g : Nat) (b : Rat) : ExprSorted (e.setLinear g b) := enforce_sorted h g
theorem addOffset_sorted {e : Expr} (h : ExprSorted e) (b : Rat) : ExprSorted (e.addOffset b) := h

theorem addQuadratic_sorted {e : Expr} (h : ExprSorted e) (vt : List VT4) (gu gv : Nat) (b : Rat) :
    ExprSorted (e.addQuadratic vt gu gv b) :=
  addQuadraticQB_sorted (enforce_sorted (enforce_sorted h gv) gu) _ _ _ _

theorem substitute_sorted {e : Expr} (h : ExprSorted e) (g : Nat) (m c : Rat) : ExprSorted (e.substitute g m c) := by
  unfold Expr.substitute
  cases e.idx.get? g with
  | none => exact h
  | some i => exact adjSorted_of_keys (substituteWith_shape _ e.qb i m c).2 h

theorem reindex_sorted {e : Expr} (h : ExprSorted e) (v : Nat) : ExprSorted (e.reindex v) := by
  unfold ExprSorted
  rw [reindex_qb]
  cases e.idx.get? v with
  | none => exact h
  | some i => exact removeVarQB_sorted h i

theorem removeVar_sorted {e : Expr} (h : ExprSorted e) (g : Nat) : ExprSorted (e.removeVar g) := by
  unfold Expr.removeVar
  cases e.idx.get? g with
  | none => exact h
  | some i => exact removeVarQB_sorted h i

theorem removeInteraction_sorted {e : Expr} (h : ExprSorted e) (gu gv : Nat) : ExprSorted (e.removeInteraction gu gv) := by
  unfold Expr.removeInteraction
  cases e.idx.get? gu with
  | none => exact h
  | some i =>
    cases e.idx.get? gv with
    | none => exact h
    | some j =>
      show AdjSorted (e.qb.removeInteraction i j).1.adj
      unfold QB.removeInteraction
      split
      · exact adjSorted_modifyAt (adjSorted_modifyAt h _ _ (fun _ hnb => sorted_filter _ hnb)) _ _
          (fun _ hnb => sorted_filter _ hnb)
      · exact h

theorem toQB_sorted (mi : ModelIn) : AdjSorted mi.toQB.adj := by
  unfold Cqm.ModelIn.toQB
  have : ∀ (l : List (Nat × Nat × Rat)) (q : QB), AdjSorted q.adj → AdjSorted (l.foldl (fun q t =>
      if t.1 = t.2.1 then q.asym t.1 t.1 t.2.2 false else (q.asym t.1 t.2.1 t.2.2 false).asym t.2.1 t.1 t.2.2 false) q).adj := by
    intro l
    induction l with
    | nil => intro q hq; exact hq
    | cons t ts ih =>
      intro q hq
      rw [List.foldl_cons]
      apply ih
      split_ifs
      · exact asym_sorted hq _ _ _ _
      · exact asym_sorted (asym_sorted hq _ _ _ _) _ _ _ _
  apply this
  rw [adjSorted_iff]
  intro nb hnb
  obtain ⟨_, _, rfl⟩ := List.mem_map.mp hnb
  simp

theorem buildMove_sorted (gs : List Nat) (mi : ModelIn) : ExprSorted (buildMove gs mi) := toQB_sorted mi


/-! ### any property of expressions that the primitives preserve is preserved by every operation -/

structure ExprClosed (P : Expr → Prop) : Prop where
  empty : P {}
  addLinear : ∀ e g b, P e → P (e.addLinear g b)
  setLinear : ∀ e g b, P e → P (e.setLinear g b)
  addOffset : ∀ e b, P e → P (e.addOffset b)
  setOffset : ∀ (e : Expr) (b : Rat), P e → P { e with qb := { e.qb with off := b } }
  addQuadratic : ∀ e vt gu gv b, P e → P (e.addQuadratic vt gu gv b)
  substitute : ∀ e g a c, P e → P (e.substitute g a c)
  reindex : ∀ e v, P e → P (e.reindex v)
  removeVar : ∀ e g, P e → P (e.removeVar g)
  removeInteraction : ∀ e gu gv, P e → P (e.removeInteraction gu gv)
  move : ∀ (gs : List Nat) (mi : ModelIn), ModelInOK mi → gs.Nodup → gs.length = mi.vars.length → P (buildMove gs mi)

def AllExprs (P : Expr → Prop) (m : Cqm) : Prop := P m.obj ∧ ∀ c ∈ m.cons, P c.e

section closed
variable {P : Expr → Prop} (hP : ExprClosed P)
include hP

omit hP in
theorem all_mapExprs {m : Cqm} (h : AllExprs P m) (f : Expr → Expr) (hf : ∀ e, P e → P (f e)) : AllExprs P (m.mapExprs f) := by
  refine ⟨hf _ h.1, ?_⟩
  intro c hc
  have hc' : c ∈ m.cons.map (fun c => { c with e := f c.e }) := hc
  obtain ⟨c0, hc0, rfl⟩ := List.mem_map.mp hc'
  exact hf _ (h.2 c0 hc0)

omit hP in
theorem all_modCons {m : Cqm} (h : AllExprs P m) (ci : Nat) (f : Cons → Cons) (hf : ∀ c, P c.e → P (f c).e) :
    AllExprs P (m.modCons ci f) := by
  refine ⟨h.1, ?_⟩
  intro c hc
  have hc' : c ∈ Bqm.modifyAt m.cons ci f := hc
  rcases mem_modifyAt hc' with h1 | ⟨c0, hc0, rfl⟩
  · exact h.2 c h1
  · exact hf _ (h.2 c0 hc0)

omit hP in
theorem all_mapCons_attr {m : Cqm} (h : AllExprs P m) (f : Cons → Cons) (hf : ∀ c, (f c).e = c.e) :
    AllExprs P { m with cons := m.cons.map f } := by
  refine ⟨h.1, ?_⟩
  intro c hc
  obtain ⟨c0, hc0, rfl⟩ := List.mem_map.mp hc
  rw [hf c0]; exact h.2 c0 hc0

omit hP in
theorem all_ofOpt_modExpr {m : Cqm} (h : AllExprs P m) (w : Option Label) (f : Expr → Expr) (hf : ∀ e, P e → P (f e)) :
    AllExprs P (m.ofOpt (m.modExpr w f)).1 := by
  unfold Cqm.modExpr
  cases w with
  | none => exact ⟨hf _ h.1, h.2⟩
  | some l =>
    simp only []
    cases m.cidx? l with
    | none => exact h
    | some ci => exact all_modCons h ci _ (fun c hc => hf _ hc)

omit hP in
theorem all_setWeight {m : Cqm} (h : AllExprs P m) (ci : Nat) (w : Option Rat) (pen : Nat) : AllExprs P (m.setWeight ci w pen).1 := by
  unfold Cqm.setWeight
  split <;> split_ifs <;> first | exact h | exact all_modCons h _ _ (fun _ hc => hc)

omit hP in
theorem all_pushCons {m : Cqm} (h : AllExprs P m) {e : Expr} (he : P e) (sense : Sense) (rhs : Rat) (label : Label)
    (weight : Option Rat) (pen : Nat) : AllExprs P (m.pushCons e sense rhs label weight pen).1 := by
  have h1 : AllExprs P ({ m with cons := m.cons ++ [({ e := e, sense := sense, rhs := rhs } : Cons)],
                                 clabels := m.clabels ++ [label] } : Cqm) := by
    refine ⟨h.1, ?_⟩
    intro c hc
    have hc' : c ∈ m.cons ++ [({ e := e, sense := sense, rhs := rhs } : Cons)] := hc
    rcases List.mem_append.mp hc' with h2 | h2
    · exact h.2 c h2
    · have : c = ({ e := e, sense := sense, rhs := rhs } : Cons) := by simpa using h2
      subst this; exact he
  unfold Cqm.pushCons
  simp only []
  split
  · exact h1
  · exact all_setWeight h1 _ _ _

theorem all_addTerms (m : Cqm) (ts : List Term) : ∀ e, P e → P (m.addTerms ts e).1 := by
  induction ts with
  | nil => intro e h; exact h
  | cons t ts ih =>
    intro e h
    unfold Cqm.addTerms
    split
    · exact ih _ (hP.addOffset _ _ h)
    · split
      · exact ih _ (hP.addLinear _ _ _ h)
      · exact h
    · split
      · exact ih _ (hP.addQuadratic _ _ _ _ _ h)
      · exact h
    · exact h

theorem all_buildCopy (vt : List VT4) (gs : List Nat) (mi : ModelIn) : P (buildCopy vt gs mi) := by
  unfold Cqm.buildCopy
  apply hP.addOffset
  have lin : ∀ (l : List (Nat × Rat)) e, P e → P (l.foldl (fun e p => e.addLinear p.1 p.2) e) := by
    intro l
    induction l with
    | nil => intro e h; exact h
    | cons p t ih => intro e h; rw [List.foldl_cons]; exact ih _ (hP.addLinear _ _ _ h)
  have quad : ∀ (l : List (Nat × Nat × Rat)) e, P e →
      P (l.foldl (fun e t => e.addQuadratic vt (gs.getD t.1 0) (gs.getD t.2.1 0) t.2.2) e) := by
    intro l
    induction l with
    | nil => intro e h; exact h
    | cons p t ih => intro e h; rw [List.foldl_cons]; exact ih _ (hP.addQuadratic _ _ _ _ _ h)
  exact quad _ _ (lin _ _ hP.empty)

omit hP in
theorem all_addMissing {m : Cqm} (h : AllExprs P m) (mi : ModelIn) : AllExprs P (m.addMissing mi) := by
  rw [addMissing_eq]
  generalize mi.vars.zip mi.info = l
  induction l generalizing m with
  | nil => exact h
  | cons p t ih =>
    rw [List.foldl_cons]
    apply ih
    unfold addOne
    cases m.idx? p.1 <;> exact h

theorem all_removeVarAt {m : Cqm} (h : AllExprs P m) (g : Nat) : AllExprs P (m.removeVarAt g) :=
  all_mapExprs h _ (fun e he => hP.reindex e g he)

theorem all_removeVariableR {m : Cqm} (h : AllExprs P m) (v : Label) : AllExprs P (m.removeVariableR v).1 := by
  unfold Cqm.removeVariableR
  split
  · exact h
  · split_ifs
    · exact h
    · exact all_removeVarAt hP h _

theorem all_removeLabels (ls : List Label) : ∀ {m : Cqm}, AllExprs P m → AllExprs P (m.removeLabels ls).1 := by
  induction ls with
  | nil => intro m h; exact h
  | cons v t ih =>
    intro m h
    unfold Cqm.removeLabels
    have h1 := all_removeVariableR hP h v
    cases hr : m.removeVariableR v with
    | mk m1 r =>
      rw [hr] at h1
      cases r with
      | none => exact ih h1
      | some c => exact h1

theorem all_fixVariableR {m : Cqm} (h : AllExprs P m) (v : Label) (a : Rat) : AllExprs P (m.fixVariableR v a).1 := by
  unfold Cqm.fixVariableR
  split
  · exact h
  · exact all_removeVarAt hP (all_mapExprs h _ (fun e he => hP.substitute e _ _ _ he)) _

theorem all_fixVariablesInplace (fixed : List (Label × Rat)) : ∀ {m : Cqm}, AllExprs P m → AllExprs P (m.fixVariablesInplace fixed).1 := by
  induction fixed with
  | nil => intro m h; exact h
  | cons p t ih =>
    intro m h
    obtain ⟨v, a⟩ := p
    unfold Cqm.fixVariablesInplace
    have h1 := all_fixVariableR hP h v a
    cases hr : m.fixVariableR v a with
    | mk m1 r =>
      rw [hr] at h1
      cases r with
      | none => exact ih h1
      | some c => exact h1

theorem all_changeVartypeAt {m : Cqm} (h : AllExprs P m) (vt : VT4) (g : Nat) : AllExprs P (m.changeVartypeAt vt g).1 := by
  unfold Cqm.changeVartypeAt
  simp only []
  split_ifs
  all_goals first
    | exact h
    | exact all_mapExprs h _ (fun e he => hP.substitute e _ _ _ he)

theorem all_spinToBinary {m : Cqm} (h : AllExprs P m) : AllExprs P m.spinToBinary := by
  unfold Cqm.spinToBinary
  generalize List.range m.numVars = l
  induction l generalizing m with
  | nil => exact h
  | cons g t ih =>
    rw [List.foldl_cons]
    apply ih
    split_ifs
    · exact all_changeVartypeAt hP h _ g
    · exact h

theorem all_addConstraintModel {m : Cqm} (hwf : CqmWF m) (h : AllExprs P m) {mi : ModelIn} (hmi : ModelInOK mi) (sense : Sense)
    (rhs : Rat) (label : Label)
    (copy : Bool) (weight : Option Rat) (pen : Nat) : AllExprs P (m.addConstraintModel mi sense rhs label copy weight pen).1 := by
  obtain ⟨_, _, _, _, _, hlen, _, hndm⟩ := mapping_props hwf hmi
  unfold Cqm.addConstraintModel
  by_cases hl : label ∈ m.clabels
  · rw [if_pos hl]; exact h
  · rw [if_neg hl]
    by_cases hcf : m.conflicts mi = true
    · rw [if_pos hcf]; exact h
    · rw [if_neg hcf]
      simp only []
      cases copy with
      | true => exact all_pushCons (all_addMissing h mi) (all_buildCopy hP _ _ _) _ _ _ _ _
      | false => exact all_pushCons (all_addMissing h mi) (hP.move _ _ hmi hndm hlen) _ _ _ _ _

omit hP in
theorem all_markLast {r : Res} (hr : AllExprs P r.1) (k : Nat) :
    AllExprs P (match r with
      | (m1, none) => ((m1.modCons k fun c => { c with discrete := true }, none) : Res)
      | r => r).1 := by
  obtain ⟨m1, e⟩ := r
  cases e with
  | none => exact all_modCons hr _ _ (fun _ hc => hc)
  | some c => exact hr

omit hP in
theorem all_addVariableCore {m : Cqm} (h : AllExprs P m) (vt : VT4) (v : Option Label) (lbG ubG : Bool) (lbv ubv : Rat) :
    AllExprs P (m.addVariableCore vt v lbG ubG lbv ubv).1 := by
  unfold Cqm.addVariableCore
  split_ifs
  all_goals try exact h
  split
  · split_ifs <;> exact h
  · exact h

theorem step_all {m : Cqm} (hwf : CqmWF m) (h : AllExprs P m) (op : Op) (hop : OpOK op) : AllExprs P (m.step op).1 := by
  cases op with
  | addVariable vt v lb ub => exact all_addVariableCore h _ _ _ _ _ _
  | setObjectiveModel mi =>
    show AllExprs P (m.setObjectiveModel mi).1
    unfold Cqm.setObjectiveModel
    split_ifs
    · exact h
    · exact ⟨all_buildCopy hP _ _ _, (all_addMissing h mi).2⟩
  | setObjectiveTerms ts => exact ⟨all_addTerms hP m ts _ hP.empty, h.2⟩
  | addConstraintModel mi sense rhs label copy weight pen => exact all_addConstraintModel hP hwf h hop _ _ _ _ _ _
  | addConstraintTerms ts sense rhs label weight pen =>
    show AllExprs P (m.addConstraintTerms ts sense rhs label weight pen).1
    unfold Cqm.addConstraintTerms
    split_ifs
    · exact h
    · have := all_addTerms hP m ts _ hP.empty
      split
      · rename_i e he
        rw [he] at this
        exact all_pushCons h this _ _ _ _ _
      · exact h
  | addDiscreteModel mi label copy chk =>
    show AllExprs P (m.addDiscreteModel mi label copy chk).1
    unfold Cqm.addDiscreteModel
    split_ifs
    · exact h
    · exact h
    · exact all_markLast (all_addConstraintModel hP hwf h hop .eq 1 label copy none 0) m.cons.length
  | addDiscreteComparison mi sense rhs label copy chk =>
    show AllExprs P (m.addDiscreteComparison mi sense rhs label copy chk).1
    unfold Cqm.addDiscreteComparison Cqm.addDiscreteModel
    split_ifs
    all_goals try exact h
    exact all_markLast (all_addConstraintModel hP hwf h hop .eq 1 label copy none 0) m.cons.length
  | addDiscreteVars vs label chk =>
    show AllExprs P (m.addDiscreteVars vs label chk).1
    unfold Cqm.addDiscreteVars
    split_ifs
    · exact h
    · exact h
    · exact all_markLast (all_addConstraintModel hP hwf h (discreteModelOf_ok vs) .eq 1 label false none 0) m.cons.length
  | removeVariable v => exact all_removeVariableR hP h v
  | fixVariable v a => exact all_fixVariableR hP h v a
  | fixVariables fixed => exact all_fixVariablesInplace hP fixed h
  | flipVariable v =>
    show AllExprs P (m.flipVariableR v).1
    unfold Cqm.flipVariableR
    split
    · exact h
    · split
      · exact all_mapExprs h _ (fun e he => hP.substitute e _ _ _ he)
      · unfold Cqm.unmarkDiscreteWith
        exact all_mapCons_attr (all_mapExprs h _ (fun e he => hP.substitute e _ _ _ he)) _ (fun c => by split_ifs <;> rfl)
      · exact h
  | changeVartype vt v =>
    show AllExprs P (m.changeVartypeR vt v).1
    unfold Cqm.changeVartypeR
    split
    · exact h
    · rename_i g _
      have := all_changeVartypeAt hP h vt g
      cases hr : m.changeVartypeAt vt g with
      | mk m1 ok =>
        rw [hr] at this
        cases ok <;> exact this
  | spinToBinary => exact all_spinToBinary hP h
  | removeConstraint label cascade =>
    show AllExprs P (m.removeConstraintR label cascade).1
    unfold Cqm.removeConstraintR
    split
    · exact h
    · rename_i c _
      have h1 : AllExprs P (m.removeConstraintAt c) := by
        refine ⟨h.1, ?_⟩
        intro x hx
        have hx' : x ∈ Bqm.eraseIdx m.cons c := hx
        rw [eraseIdx_eq] at hx'
        exact h.2 x ((List.eraseIdx_sublist _ _).subset hx')
      split_ifs
      · exact all_removeLabels hP _ h1
      · exact h1
  | relabelVariables mp =>
    show AllExprs P (m.relabelVariables mp).1
    unfold Cqm.relabelVariables
    split <;> exact h
  | relabelConstraints mp =>
    show AllExprs P (m.relabelConstraints mp).1
    unfold Cqm.relabelConstraints
    split <;> exact h
  | setLowerBound v x =>
    show AllExprs P (m.setLowerBound v x).1
    unfold Cqm.setLowerBound
    split
    · exact h
    · simp only []
      split_ifs <;> exact h
  | setUpperBound v x =>
    show AllExprs P (m.setUpperBound v x).1
    unfold Cqm.setUpperBound
    split
    · exact h
    · simp only []
      split_ifs <;> exact h
  | viewAddLinear w v b =>
    show AllExprs P (m.viewAddLinear w v b).1
    unfold Cqm.viewAddLinear
    split_ifs
    · exact h
    · split
      · exact h
      · exact all_ofOpt_modExpr h _ _ (fun e he => hP.addLinear e _ _ he)
  | viewSetLinear w v b =>
    show AllExprs P (m.viewSetLinear w v b).1
    unfold Cqm.viewSetLinear
    split_ifs
    · exact h
    · split
      · exact h
      · exact all_ofOpt_modExpr h _ _ (fun e he => hP.setLinear e _ _ he)
  | viewAddQuadratic w u v b =>
    show AllExprs P (m.viewAddQuadratic w u v b).1
    unfold Cqm.viewAddQuadratic
    split_ifs
    · exact h
    · split
      · split_ifs
        all_goals try exact h
        exact all_ofOpt_modExpr h _ _ (fun e he => hP.addQuadratic e _ _ _ _ he)
      · exact h
  | viewRemoveInteraction w u v =>
    show AllExprs P (m.viewRemoveInteraction w u v).1
    unfold Cqm.viewRemoveInteraction
    split_ifs
    · exact h
    · split
      · exact all_ofOpt_modExpr h _ _ (fun e he => hP.removeInteraction e _ _ he)
      · exact h
  | viewRemoveVariable w v =>
    show AllExprs P (m.viewRemoveVariable w v).1
    unfold Cqm.viewRemoveVariable
    split_ifs
    · exact h
    · split
      · exact h
      · exact all_ofOpt_modExpr h _ _ (fun e he => hP.removeVar e _ he)
  | viewSetOffset w b => exact all_ofOpt_modExpr h _ _ (fun e he => hP.setOffset e b he)
  | viewMarkDiscrete l mark =>
    show AllExprs P (m.viewMarkDiscrete l mark).1
    unfold Cqm.viewMarkDiscrete
    split
    · exact h
    · exact all_modCons h _ _ (fun _ hc => hc)
  | viewSetWeight l weight pen =>
    show AllExprs P (m.viewSetWeight l weight pen).1
    unfold Cqm.viewSetWeight
    split
    · exact h
    · exact all_setWeight h _ _ _
  | deepcopy => exact h

theorem run_all (ops : List Op) : ∀ {m : Cqm}, CqmWF m → AllExprs P m → (∀ op ∈ ops, OpOK op) → AllExprs P (m.run ops) := by
  induction ops with
  | nil => intro m _ h _; exact h
  | cons op t ih =>
    intro m hwf h hops
    unfold Cqm.run
    rw [List.foldl_cons]
    exact ih (step_wf hwf op (hops op List.mem_cons_self)) (step_all hP hwf h op (hops op List.mem_cons_self))
      (fun o ho => hops o (List.mem_cons_of_mem _ ho))

end closed

theorem exprSorted_closed : ExprClosed ExprSorted :=
  ⟨exprSorted_empty, fun _ g b h => addLinear_sorted h g b, fun _ g b h => setLinear_sorted h g b,
   fun _ b h => addOffset_sorted h b, fun _ _ h => h, fun _ vt gu gv b h => addQuadratic_sorted h vt gu gv b,
   fun _ g a c h => substitute_sorted h g a c, fun _ v h => reindex_sorted h v, fun _ g h => removeVar_sorted h g,
   fun _ gu gv h => removeInteraction_sorted h gu gv, fun gs mi _ _ _ => buildMove_sorted gs mi⟩

/-- after any history every neighbourhood of every expression is strictly sorted by local index -/
theorem run_sorted (ops : List Op) (hops : ∀ op ∈ ops, OpOK op) : AllExprs ExprSorted (({} : Cqm).run ops) :=
  run_all exprSorted_closed ops cqmWF_empty ⟨exprSorted_empty, by intro c hc; cases hc⟩ hops


/-! ### adding a quadratic term, seen on the coefficients -/

theorem nbhCoef_zero_of_no_key {nb : List (Nat × Rat)} {k : Nat} (h : ∀ p ∈ nb, p.1 ≠ k) : QB.nbhCoef nb k = 0 := by
  induction nb with
  | nil => rfl
  | cons p t ih =>
    obtain ⟨w, c⟩ := p
    rw [QB.nbhCoef, if_neg (h (w, c) List.mem_cons_self)]
    exact ih (fun p hp => h p (List.mem_cons_of_mem _ hp))

theorem quadratic_of_idx {e : Expr} {x y i j : Nat} (hx : e.idx.get? x = some i) (hy : e.idx.get? y = some j) :
    e.quadratic x y = QB.nbhCoef (e.qb.adj.getD i []) j := by
  unfold Expr.quadratic; rw [hx, hy]

theorem quadratic_of_none_left {e : Expr} {x : Nat} (y : Nat) (hx : e.idx.get? x = none) : e.quadratic x y = 0 := by
  unfold Expr.quadratic; rw [hx]

theorem quadratic_of_none_right {e : Expr} (x : Nat) {y : Nat} (hy : e.idx.get? y = none) : e.quadratic x y = 0 := by
  unfold Expr.quadratic; rw [hy]; cases e.idx.get? x <;> rfl

theorem enforce_idx_new {e : Expr} {g k : Nat} (hg : e.idx.get? g = none) (hk : k ≠ g) :
    (e.enforce g).1.idx.get? k = e.idx.get? k := by
  rw [enforce_of_none hg]
  show (e.idx.set g e.vars.length).get? k = _
  rw [get?_set, if_neg (fun h => hk h.symm)]

theorem enforce_quadratic {e : Expr} (hwf : ExprWF e) (g x y : Nat) : (e.enforce g).1.quadratic x y = e.quadratic x y := by
  cases hg : e.idx.get? g with
  | some i => rw [enforce_of_some hg]
  | none =>
    have hnew : (e.enforce g).1.idx.get? g = some e.vars.length := by
      have := enforce_idx (e := e) g; rw [enforce_of_none hg] at this ⊢; exact this
    have hadj : (e.enforce g).1.qb.adj = e.qb.adj ++ [[]] := by rw [enforce_of_none hg]; rfl
    by_cases hx : x = g
    · subst hx
      rw [quadratic_of_none_left y hg]
      cases hy : (e.enforce x).1.idx.get? y with
      | none => exact quadratic_of_none_right x hy
      | some j =>
        rw [quadratic_of_idx hnew hy, hadj, List.getD_eq_getElem?_getD,
          List.getElem?_append_right (by rw [hwf.adj_len])]
        simp [hwf.adj_len, QB.nbhCoef]
    · cases hxi : e.idx.get? x with
      | none =>
        rw [quadratic_of_none_left y hxi, quadratic_of_none_left y (by rw [enforce_idx_new hg hx]; exact hxi)]
      | some i =>
        have hxi' : (e.enforce g).1.idx.get? x = some i := by rw [enforce_idx_new hg hx]; exact hxi
        have hil : i < e.qb.adj.length := by rw [hwf.adj_len]; exact lt_of_getElem? ((hwf.idx x i).mp hxi)
        by_cases hy : y = g
        · subst hy
          rw [quadratic_of_none_right x hg, quadratic_of_idx hxi' hnew, hadj, List.getD_eq_getElem?_getD,
            List.getElem?_append_left hil]
          apply nbhCoef_zero_of_no_key
          intro p hp
          have hmem : e.qb.adj[i] ∈ e.qb.adj := List.getElem_mem hil
          have : p.1 < e.vars.length := hwf.adj_lt _ hmem p (by simpa [List.getElem?_eq_getElem hil] using hp)
          omega
        · cases hyj : e.idx.get? y with
          | none =>
            rw [quadratic_of_none_right x hyj, quadratic_of_none_right x (by rw [enforce_idx_new hg hy]; exact hyj)]
          | some j =>
            have hyj' : (e.enforce g).1.idx.get? y = some j := by rw [enforce_idx_new hg hy]; exact hyj
            rw [quadratic_of_idx hxi' hyj', quadratic_of_idx hxi hyj, hadj, List.getD_eq_getElem?_getD,
              List.getElem?_append_left hil, ← List.getD_eq_getElem?_getD]

theorem getD_sorted {adj : List (List (Nat × Rat))} (h : AdjSorted adj) (i : Nat) : ((adj.getD i []).map Prod.fst).Pairwise (· < ·) := by
  rw [adjSorted_iff] at h
  rw [List.getD_eq_getElem?_getD]
  cases hi : adj[i]? with
  | none => simp
  | some nb => exact h nb (mem_of_getElem? hi)

/-- `add_quadratic(u, v, b)` with `u ≠ v` adds `b` to the bias of the pair {u, v} — in both neighbourhoods — and to
    nothing else; linear biases and the offset are untouched. -/
theorem addQuadratic_quadratic {e : Expr} (hwf : ExprWF e) (hs : ExprSorted e) (vt : List VT4) {gu gv : Nat} (hne : gu ≠ gv)
    (b : Rat) (x y : Nat) :
    (e.addQuadratic vt gu gv b).quadratic x y
      = e.quadratic x y + (if (x = gu ∧ y = gv) ∨ (x = gv ∧ y = gu) then b else 0) := by
  -- the expression after both `enforce_variable` calls
  have h1 := enforce_wf hwf gv
  have h2 := enforce_wf h1 gu
  have s2 : ExprSorted ((e.enforce gv).1.enforce gu).1 := enforce_sorted (enforce_sorted hs gv) gu
  have hq : e.quadratic x y = ((e.enforce gv).1.enforce gu).1.quadratic x y := by
    rw [enforce_quadratic h1, enforce_quadratic hwf]
  rw [hq]
  have hui := enforce_idx (e := (e.enforce gv).1) gu
  have hvi : ((e.enforce gv).1.enforce gu).1.idx.get? gv = some (e.enforce gv).2 := enforce_idx_old gu gv (enforce_idx gv)
  generalize hE : ((e.enforce gv).1.enforce gu).1 = E at *
  generalize hU : ((e.enforce gv).1.enforce gu).2 = ui at *
  generalize hV : (e.enforce gv).2 = vi at *
  have huv : ui ≠ vi := by
    intro h; subst h
    have a1 := (h2.idx gu _).mp hui
    have a2 := (h2.idx gv _).mp hvi
    rw [a1] at a2; exact hne (Option.some.inj a2)
  have hul : ui < E.qb.adj.length := by rw [h2.adj_len]; exact lt_of_getElem? ((h2.idx gu ui).mp hui)
  have hvl : vi < E.qb.adj.length := by rw [h2.adj_len]; exact lt_of_getElem? ((h2.idx gv vi).mp hvi)
  -- the new expression shares `idx` with `E` and has the two neighbourhoods updated
  have hnew : e.addQuadratic vt gu gv b = { E with qb := E.qb.addQuadratic (vt.getD gu .binary) ui vi b } := by
    unfold Expr.addQuadratic; rw [hE, hU, hV]
  rw [hnew]
  have hqb : (E.qb.addQuadratic (vt.getD gu .binary) ui vi b).adj
      = Bqm.modifyAt (Bqm.modifyAt E.qb.adj ui (fun nb => Bqm.nbhAdd nb vi b false)) vi (fun nb => Bqm.nbhAdd nb ui b false) := by
    unfold QB.addQuadratic; rw [if_neg huv]; rfl
  cases hx : E.idx.get? x with
  | none =>
    have : ¬ ((x = gu ∧ y = gv) ∨ (x = gv ∧ y = gu)) := by
      intro h; rcases h with ⟨h, _⟩ | ⟨h, _⟩
      · rw [h, hui] at hx; cases hx
      · rw [h, hvi] at hx; cases hx
    rw [if_neg this, quadratic_of_none_left y hx]
    rw [show ({ E with qb := E.qb.addQuadratic (vt.getD gu .binary) ui vi b } : Expr).quadratic x y = 0 from
      quadratic_of_none_left (e := { E with qb := _ }) y hx]
    simp
  | some i =>
    cases hy : E.idx.get? y with
    | none =>
      have : ¬ ((x = gu ∧ y = gv) ∨ (x = gv ∧ y = gu)) := by
        intro h; rcases h with ⟨_, h⟩ | ⟨_, h⟩
        · rw [h, hvi] at hy; cases hy
        · rw [h, hui] at hy; cases hy
      rw [if_neg this, quadratic_of_none_right x hy]
      rw [show ({ E with qb := E.qb.addQuadratic (vt.getD gu .binary) ui vi b } : Expr).quadratic x y = 0 from
        quadratic_of_none_right (e := { E with qb := _ }) x hy]
      simp
    | some j =>
      rw [quadratic_of_idx hx hy]
      rw [show ({ E with qb := E.qb.addQuadratic (vt.getD gu .binary) ui vi b } : Expr).quadratic x y
          = QB.nbhCoef ((E.qb.addQuadratic (vt.getD gu .binary) ui vi b).adj.getD i []) j from
        quadratic_of_idx (e := { E with qb := _ }) hx hy]
      rw [hqb]
      -- which global variables sit at `ui` / `vi`
      have xi : i = ui ↔ x = gu := by
        constructor
        · intro h; subst h
          have a1 := (h2.idx x _).mp hx
          have a2 := (h2.idx gu _).mp hui
          rw [a1] at a2; exact Option.some.inj a2
        · intro h; subst h; rw [hui] at hx; exact (Option.some.inj hx).symm
      have xv : i = vi ↔ x = gv := by
        constructor
        · intro h; subst h
          have a1 := (h2.idx x _).mp hx
          have a2 := (h2.idx gv _).mp hvi
          rw [a1] at a2; exact Option.some.inj a2
        · intro h; subst h; rw [hvi] at hx; exact (Option.some.inj hx).symm
      have yi : j = ui ↔ y = gu := by
        constructor
        · intro h; subst h
          have a1 := (h2.idx y _).mp hy
          have a2 := (h2.idx gu _).mp hui
          rw [a1] at a2; exact Option.some.inj a2
        · intro h; subst h; rw [hui] at hy; exact (Option.some.inj hy).symm
      have yv : j = vi ↔ y = gv := by
        constructor
        · intro h; subst h
          have a1 := (h2.idx y _).mp hy
          have a2 := (h2.idx gv _).mp hvi
          rw [a1] at a2; exact Option.some.inj a2
        · intro h; subst h; rw [hvi] at hy; exact (Option.some.inj hy).symm
      have hlen1 : ui < (Bqm.modifyAt E.qb.adj ui (fun nb => Bqm.nbhAdd nb vi b false)).length := by
        rw [length_modifyAt]; exact hul
      have hlen2 : vi < (Bqm.modifyAt E.qb.adj ui (fun nb => Bqm.nbhAdd nb vi b false)).length := by
        rw [length_modifyAt]; exact hvl
      rw [getD_modifyAt _ _ _ _ _ hlen2]
      by_cases hiv : i = vi
      · -- the neighbourhood of `v` gets the entry for `u`
        rw [if_pos hiv, getD_modifyAt _ _ _ _ _ hul, if_neg (fun h => huv h.symm)]
        rw [nbhCoef_nbhAdd (getD_sorted s2 vi), hiv]
        congr 1
        have hxv := xv.mp hiv
        by_cases hju : j = ui
        · have := yi.mp hju
          rw [if_pos hju, if_pos (Or.inr ⟨hxv, this⟩)]
        · have : ¬ ((x = gu ∧ y = gv) ∨ (x = gv ∧ y = gu)) := by
            intro h; rcases h with ⟨h, _⟩ | ⟨_, h⟩
            · exact hne (h.symm.trans hxv)
            · exact hju (yi.mpr h)
          rw [if_neg hju, if_neg this]
      · rw [if_neg hiv, getD_modifyAt _ _ _ _ _ hul]
        by_cases hiu : i = ui
        · rw [if_pos hiu, nbhCoef_nbhAdd (getD_sorted s2 ui), hiu]
          congr 1
          have hxu := xi.mp hiu
          by_cases hjv : j = vi
          · have := yv.mp hjv
            rw [if_pos hjv, if_pos (Or.inl ⟨hxu, this⟩)]
          · have : ¬ ((x = gu ∧ y = gv) ∨ (x = gv ∧ y = gu)) := by
              intro h; rcases h with ⟨_, h⟩ | ⟨h, _⟩
              · exact hjv (yv.mpr h)
              · exact hne (hxu.symm.trans h)
            rw [if_neg hjv, if_neg this]
        · rw [if_neg hiu]
          have : ¬ ((x = gu ∧ y = gv) ∨ (x = gv ∧ y = gu)) := by
            intro h; rcases h with ⟨h, _⟩ | ⟨h, _⟩
            · exact hiu (xi.mpr h)
            · exact hiv (xv.mpr h)
          rw [if_neg this]; simp

end CqmP
