import DimodProofs.HocOptions

/-! # C15: `polymorph_response` — the whole returned sample set as coded (helper lemmas; core Lean only) -/

namespace Red
open Pen

theorem indexOf?_isSome_iff (v : Label) (vars : List Label) : (indexOf? v vars).isSome = true ↔ v ∈ vars := by
  induction vars with
  | nil => simp [indexOf?]
  | cons w r ih =>
    unfold indexOf?
    by_cases h : w = v
    · simp [h]
    · rw [if_neg h, Option.isSome_map, ih]
      constructor
      · intro hm; exact List.mem_cons_of_mem _ hm
      · intro hm
        rcases List.mem_cons.1 hm with h' | h'
        · exact absurd h'.symm h
        · exact h'

theorem indexOf?_eq_none_iff (v : Label) (vars : List Label) : indexOf? v vars = none ↔ v ∉ vars := by
  rw [← indexOf?_isSome_iff]
  cases indexOf? v vars <;> simp

theorem rowFn_of_index (vars : List Label) (s : List Rat) (v : Label) (i : Nat) (h : indexOf? v vars = some i) :
    rowFn vars s v = s.getD i 0 := by
  unfold rowFn; rw [h]

/-! ## `penalty_satisfaction` -/

theorem satProduct_le_one (s : List Rat) (idxs : List (Nat × Nat × Nat)) : satProduct s idxs = 0 ∨ satProduct s idxs = 1 := by
  induction idxs with
  | nil => right; rfl
  | cons a r ih =>
    obtain ⟨i, j, k⟩ := a
    simp only [satProduct]
    split
    · rcases ih with h | h <;> simp [h]
    · left; simp

theorem prodIdxs_spec (vars : List Label) (red : List (Pair × Label)) (idxs : List (Nat × Nat × Nat))
    (h : prodIdxs vars red = some idxs) (s : List Rat) :
    satProduct s idxs = (if penaltySatisfied red (rowFn vars s) then 1 else 0) := by
  induction red generalizing idxs with
  | nil =>
    simp only [prodIdxs, Option.some.injEq] at h
    subst h
    simp [satProduct, penaltySatisfied]
  | cons c r ih =>
    unfold prodIdxs at h
    split at h
    · rename_i a rest ha hrest
      simp only [Option.some.injEq] at h
      subst h
      obtain ⟨i, j, k⟩ := a
      unfold prodIdx at ha
      split at ha
      · rename_i i' j' k' hi hj hk
        simp only [Option.some.injEq, Prod.mk.injEq] at ha
        obtain ⟨rfl, rfl, rfl⟩ := ha
        simp only [satProduct]
        rw [ih rest hrest]
        have e1 := rowFn_of_index vars s _ _ hi
        have e2 := rowFn_of_index vars s _ _ hj
        have e3 := rowFn_of_index vars s _ _ hk
        unfold penaltySatisfied
        simp only [List.all_cons, e1, e2, e3]
        cases h1 : (s.getD i' 0 * s.getD j' 0 == s.getD k' 0) <;>
          cases h2 : (r.all fun c => rowFn vars s c.1.1 * rowFn vars s c.1.2 == rowFn vars s c.2) <;> simp
      · simp at ha
    · simp at h

theorem prodIdxs_none_iff (vars : List Label) (red : List (Pair × Label)) :
    prodIdxs vars red = none ↔ ∃ c ∈ red, c.1.1 ∉ vars ∨ c.1.2 ∉ vars ∨ c.2 ∉ vars := by
  induction red with
  | nil => simp [prodIdxs]
  | cons c r ih =>
    have hc : prodIdx vars c = none ↔ (c.1.1 ∉ vars ∨ c.1.2 ∉ vars ∨ c.2 ∉ vars) := by
      unfold prodIdx
      rw [← indexOf?_eq_none_iff, ← indexOf?_eq_none_iff, ← indexOf?_eq_none_iff]
      cases indexOf? c.1.1 vars <;> cases indexOf? c.1.2 vars <;> cases indexOf? c.2 vars <;> simp
    unfold prodIdxs
    cases h1 : prodIdx vars c with
    | none =>
      simp only [List.mem_cons, exists_eq_or_imp]
      exact ⟨fun _ => Or.inl (hc.1 h1), fun _ => trivial⟩
    | some a =>
      have hnc : ¬ (c.1.1 ∉ vars ∨ c.1.2 ∉ vars ∨ c.2 ∉ vars) := fun hh => by
        have := hc.2 hh; rw [h1] at this; simp at this
      cases h2 : prodIdxs vars r with
      | none =>
        simp only [List.mem_cons, exists_eq_or_imp]
        exact ⟨fun _ => Or.inr (ih.1 h2), fun _ => trivial⟩
      | some rest =>
        simp only [List.mem_cons, exists_eq_or_imp]
        constructor
        · intro hh; simp at hh
        · rintro (hh | hh)
          · exact absurd hh hnc
          · have := ih.2 hh; rw [h2] at this; simp at this

/-- the vector `penalty_satisfaction` returns -/
theorem penaltyVector_ok (red : List (Pair × Label)) (resp : SampleSetM) (pv : List Nat)
    (h : penaltyVector red resp = .ok pv) :
    pv = resp.rows.map (fun r => if penaltySatisfied red (rowFn resp.vars r.sample) then 1 else 0) := by
  unfold penaltyVector at h
  split at h
  · rename_i he
    simp only [Except.ok.injEq] at h
    subst h
    have : red = [] := by cases red <;> simp_all
    subst this
    simp [penaltySatisfied]
  · split at h
    · simp at h
    · rename_i idxs hidx
      simp only [Except.ok.injEq] at h
      subst h
      apply List.map_congr_left
      intro r _
      exact prodIdxs_spec resp.vars red idxs hidx r.sample

theorem penaltyVector_error_iff (red : List (Pair × Label)) (resp : SampleSetM) :
    (∃ e, penaltyVector red resp = .error e) ↔ ∃ c ∈ red, c.1.1 ∉ resp.vars ∨ c.1.2 ∉ resp.vars ∨ c.2 ∉ resp.vars := by
  unfold penaltyVector
  split
  · rename_i he
    have : red = [] := by cases red <;> simp_all
    subst this
    simp
  · cases h : prodIdxs resp.vars red with
    | none => simp only [exists_eq', true_iff, Except.error.injEq]; exact (prodIdxs_none_iff _ _).1 h
    | some idxs =>
      constructor
      · rintro ⟨e, he⟩; simp at he
      · intro hh; have := (prodIdxs_none_iff _ _).2 hh; rw [h] at this; simp at this

/-! ## masks, columns, column-wise assembly -/

theorem maskFilter_map {α : Type} (l : List α) (p : α → Bool) : maskFilter l (l.map p) = l.filter p := by
  induction l with
  | nil => rfl
  | cons a r ih =>
    simp only [List.map_cons, maskFilter, List.filter_cons]
    rw [ih]

theorem colIdxs_spec (vars order : List Label) (idxs : List Nat) (h : colIdxs vars order = some idxs) (s : List Rat) :
    idxs.map (fun i => s.getD i 0) = order.map (rowFn vars s) := by
  induction order generalizing idxs with
  | nil => simp only [colIdxs, Option.some.injEq] at h; subst h; rfl
  | cons v r ih =>
    unfold colIdxs at h
    split at h
    · rename_i i rest hi hrest
      simp only [Option.some.injEq] at h
      subst h
      simp only [List.map_cons]
      rw [ih rest hrest, rowFn_of_index vars s v i hi]
    · simp at h

theorem colIdxs_none_iff (vars order : List Label) : colIdxs vars order = none ↔ ∃ v ∈ order, v ∉ vars := by
  induction order with
  | nil => simp [colIdxs]
  | cons v r ih =>
    unfold colIdxs
    cases h1 : indexOf? v vars with
    | none =>
      simp only [List.mem_cons, exists_eq_or_imp]
      exact ⟨fun _ => Or.inl ((indexOf?_eq_none_iff _ _).1 h1), fun _ => trivial⟩
    | some i =>
      have hv : ¬ v ∉ vars := fun hh => by
        have := (indexOf?_eq_none_iff _ _).2 hh; rw [h1] at this; simp at this
      cases h2 : colIdxs vars r with
      | none =>
        simp only [List.mem_cons, exists_eq_or_imp]
        exact ⟨fun _ => Or.inr (ih.1 h2), fun _ => trivial⟩
      | some rest =>
        simp only [List.mem_cons, exists_eq_or_imp]
        constructor
        · intro hh; simp at hh
        · rintro (hh | hh)
          · exact absurd hh hv
          · have := ih.2 hh; rw [h2] at this; simp at this

/-- assembling a record array column by column from columns that were computed row by row gives the rows -/
theorem assemble_rows {α β : Type} (l : List α) (d : α) (f : α → Rat) (g : α → Nat) (F : α → Rat → Nat → β) :
    (List.range l.length).map (fun i => F (l.getD i d) ((l.map f).getD i 0) ((l.map g).getD i 0))
      = l.map (fun a => F a (f a) (g a)) := by
  apply List.ext_getElem
  · simp
  · intro i h1 h2
    simp only [List.length_map, List.length_range] at h1
    simp [List.getD_eq_getElem?_getD, h1]

/-- a row of a well-formed record (as many values as variables, labels pairwise different) is its own column map -/
theorem row_eq_map_rowFn (vars : List Label) (hnd : vars.Nodup) (s : List Rat) (hl : s.length = vars.length) :
    s = vars.map (rowFn vars s) := by
  induction vars generalizing s with
  | nil => cases s with
    | nil => rfl
    | cons a t => simp at hl
  | cons w r ih =>
    cases s with
    | nil => simp at hl
    | cons a t =>
      simp only [List.length_cons, Nat.add_right_cancel_iff] at hl
      have hnd' := List.nodup_cons.1 hnd
      simp only [List.map_cons]
      have h0 : rowFn (w :: r) (a :: t) w = a := by simp [rowFn, indexOf?]
      rw [h0]
      congr 1
      have hrow : ∀ v ∈ r, rowFn r t v = rowFn (w :: r) (a :: t) v := by
        intro v hv
        have hne : ¬ w = v := fun e => hnd'.1 (e ▸ hv)
        unfold rowFn
        simp only [indexOf?, if_neg hne]
        cases indexOf? v r <;> simp
      calc t = r.map (rowFn r t) := ih hnd'.2 t hl
        _ = r.map (rowFn (w :: r) (a :: t)) := List.map_congr_left hrow

/-! ## rows as total assignments: extension by `1` outside the response's variables (SPIN) -/

/-- the row extended by `1` outside the response's variables -/
def rowFn1 (vars : List Label) (s : List Rat) : Label → Rat :=
  fun v => match indexOf? v vars with
    | some i => s.getD i 1
    | none => 1

theorem indexOf?_lt (v : Label) (vars : List Label) (i : Nat) (h : indexOf? v vars = some i) : i < vars.length := by
  induction vars generalizing i with
  | nil => simp [indexOf?] at h
  | cons w r ih =>
    unfold indexOf? at h
    split at h
    · simp only [Option.some.injEq] at h; subst h; simp
    · cases hr : indexOf? v r with
      | none => rw [hr] at h; simp at h
      | some j =>
        rw [hr] at h
        simp only [Option.map_some, Option.some.injEq] at h
        subst h
        have := ih j hr
        simp only [List.length_cons]; omega

theorem rowFn1_eq_rowFn (vars : List Label) (s : List Rat) (hl : s.length = vars.length) (v : Label) (hv : v ∈ vars) :
    rowFn1 vars s v = rowFn vars s v := by
  unfold rowFn1 rowFn
  cases h : indexOf? v vars with
  | none => exact absurd hv ((indexOf?_eq_none_iff v vars).1 h)
  | some i =>
    have hi := indexOf?_lt v vars i h
    simp only [List.getD_eq_getElem?_getD]
    rw [List.getElem?_eq_getElem (by omega)]
    rfl

theorem rowFn1_spin (vars : List Label) (s : List Rat) (hs : ∀ a ∈ s, a ∈ [(-1 : Rat), 1]) (l : Label) :
    rowFn1 vars s l ∈ [(-1 : Rat), 1] := by
  unfold rowFn1
  cases indexOf? l vars with
  | none => simp
  | some i =>
    simp only [List.getD_eq_getElem?_getD]
    cases hi : s[i]? with
    | none => simp
    | some a => simpa using hs a (List.mem_of_getElem? hi)

theorem penaltySatisfied_congr (red : List (Pair × Label)) (x y : Label → Rat)
    (h : ∀ c ∈ red, x c.1.1 = y c.1.1 ∧ x c.1.2 = y c.1.2 ∧ x c.2 = y c.2) :
    penaltySatisfied red x = penaltySatisfied red y := by
  unfold penaltySatisfied
  induction red with
  | nil => rfl
  | cons c r ih =>
    simp only [List.all_cons]
    obtain ⟨h1, h2, h3⟩ := h c List.mem_cons_self
    rw [h1, h2, h3, ih (fun c' hc' => h c' (List.mem_cons_of_mem _ hc'))]

/-! ## `polymorph_response` -/

/-- the row `polymorph_response` builds from a kept record of the child -/
def outRowOf (poly : List (LTerm × Rat)) (order : List Label) (reduction : List (Pair × Label)) (keep discard : Bool)
    (vars : List Label) (r : RecRow) : OutRow :=
  { sample := if keep then r.sample else order.map (rowFn vars r.sample),
    energy := polyEnergy (rowFn vars r.sample) poly,
    sat := if discard || penaltySatisfied reduction (rowFn vars r.sample) then 1 else 0,
    vectors := r.vectors }

/-- the `info` of the returned sample set: the child's, then `reduction`, then `penalty_strength` (when given) -/
def outInfo (reduction : List (Pair × Label)) (strength : Option Rat) (info : List (String × String)) : List (String × InfoVal) :=
  let info1 := setInfo (info.map (fun e => (e.1, InfoVal.opaque e.2))) Generated.HocLayout.reductionKey (.reduction reduction)
  match strength with
  | none => info1
  | some q => setInfo info1 Generated.HocLayout.strengthKey (.strength q)

theorem polymorphRecord_ok (poly : List (LTerm × Rat)) (order : List Label) (reduction : List (Pair × Label))
    (strength : Option Rat) (keep discard : Bool) (resp : SampleSetM) (out : OutSet)
    (h : polymorphRecord poly order reduction strength keep discard resp = .ok out) :
    out.rows = (resp.rows.filter (fun r => !discard || penaltySatisfied reduction (rowFn resp.vars r.sample))).map
                 (outRowOf poly order reduction keep discard resp.vars)
    ∧ out.vars = (if keep then resp.vars else order)
    ∧ out.fields = Generated.HocLayout.headFields ++ resp.names
    ∧ out.vt = resp.vt
    ∧ out.info = outInfo reduction strength resp.info
    ∧ out.satDtype = (if discard then
          (if (resp.rows.filter (fun r => !discard || penaltySatisfied reduction (rowFn resp.vars r.sample))).isEmpty then .float64 else .bool)
        else if reduction.isEmpty then (if resp.rows.isEmpty then .float64 else .int64) else .int64) := by
  unfold polymorphRecord at h
  split at h
  · simp at h
  · rename_i pv hpv
    have hpv' := penaltyVector_ok reduction resp pv hpv
    simp only at h
    split at h
    · simp at h
    · rename_i energies hen
      split at h
      · simp at h
      · rename_i sel hsel
        split at h
        · simp at h
        · simp only [Except.ok.injEq] at h
          subst h
          have hkept : maskFilter resp.rows (if discard then pv.map (fun n => n != 0) else resp.rows.map (fun _ => true))
              = resp.rows.filter (fun r => !discard || penaltySatisfied reduction (rowFn resp.vars r.sample)) := by
            cases discard with
            | true =>
              have e : (if true = true then pv.map (fun n => n != 0) else resp.rows.map (fun _ => true)) = pv.map (fun n => n != 0) := by simp
              rw [e, hpv', List.map_map, maskFilter_map]
              apply List.filter_congr
              intro r _
              cases hps : penaltySatisfied reduction (rowFn resp.vars r.sample) <;> simp [hps]
            | false =>
              have e : (if false = true then pv.map (fun n => n != 0) else resp.rows.map (fun _ => true)) = resp.rows.map (fun _ => true) := by simp
              rw [e, maskFilter_map]
              apply List.filter_congr
              intro r _
              simp
          refine ⟨?_, rfl, rfl, rfl, ?_, ?_⟩
          · -- the kept rows
            rw [hkept] at hen ⊢
            generalize hk : resp.rows.filter (fun r => !discard || penaltySatisfied reduction (rowFn resp.vars r.sample)) = kept at hen ⊢
            -- energies
            unfold polyEnergiesM at hen
            split at hen
            · simp only [Except.ok.injEq] at hen
              subst hen
              rw [List.map_map]
              -- stored penalty vector
              have hst : (if discard then kept.map (fun _ => 1) else pv)
                  = kept.map (fun r => if discard || penaltySatisfied reduction (rowFn resp.vars r.sample) then 1 else 0) := by
                cases discard with
                | true => simp
                | false =>
                  have hall : resp.rows.filter (fun r => !false || penaltySatisfied reduction (rowFn resp.vars r.sample)) = resp.rows :=
                    List.filter_eq_self.2 (by intro a _; simp)
                  rw [hall] at hk
                  subst hk
                  simp only [Bool.false_eq_true, if_false, Bool.false_or]
                  exact hpv'
              rw [hst]
              have := assemble_rows kept ⟨[], 0, []⟩ ((fun s => polyEnergy (rowFn resp.vars s) poly) ∘ fun r => r.sample)
                (fun r => if discard || penaltySatisfied reduction (rowFn resp.vars r.sample) then 1 else 0)
                (fun r e n => ({ sample := selectCols sel r.sample, energy := e, sat := n, vectors := r.vectors } : OutRow))
              rw [this]
              apply List.map_congr_left
              intro r _
              unfold outRowOf
              cases keep with
              | true =>
                simp only [if_true, Option.some.injEq] at hsel
                subst hsel
                simp [selectCols]
              | false =>
                simp only [Bool.false_eq_true, if_false] at hsel
                cases hc : colIdxs resp.vars order with
                | none => rw [hc] at hsel; simp at hsel
                | some idxs =>
                  rw [hc] at hsel
                  simp only [Option.map_some, Option.some.injEq] at hsel
                  subst hsel
                  simp only [Bool.false_eq_true, if_false, Function.comp, selectCols]
                  rw [colIdxs_spec resp.vars order idxs hc r.sample]
            · simp at hen
          · unfold outInfo
            cases strength <;> rfl
          · simp only
            rw [hkept]

/-- **when `polymorph_response` raises** -/
theorem polymorphRecord_error_iff (poly : List (LTerm × Rat)) (order : List Label) (horder : ∀ v ∈ order, v ∈ polyVars poly)
    (reduction : List (Pair × Label)) (strength : Option Rat) (keep discard : Bool) (resp : SampleSetM) :
    (∃ e, polymorphRecord poly order reduction strength keep discard resp = .error e)
      ↔ ((∃ c ∈ reduction, c.1.1 ∉ resp.vars ∨ c.1.2 ∉ resp.vars ∨ c.2 ∉ resp.vars)
          ∨ (∃ v ∈ polyVars poly, v ∉ resp.vars)
          ∨ (∃ n ∈ resp.names, n ∈ Generated.HocLayout.headFields)) := by
  have hall : (poly.all (fun tb => tb.1.all (fun v => (indexOf? v resp.vars).isSome)) = true) ↔ ∀ v ∈ polyVars poly, v ∈ resp.vars := by
    simp only [List.all_eq_true, indexOf?_isSome_iff]
    constructor
    · intro hh v hv
      unfold polyVars at hv
      have hv' : v ∈ poly.flatMap (·.1) := by
        have : ∀ (l : List Label) (w : Label), w ∈ dedup l → w ∈ l := by
          intro l
          induction l with
          | nil => intro w hw; simp [dedup] at hw
          | cons a t ih =>
            intro w hw
            unfold dedup at hw
            split at hw
            · exact List.mem_cons_of_mem _ (ih w hw)
            · rcases List.mem_cons.1 hw with rfl | hw'
              · exact List.mem_cons_self
              · exact List.mem_cons_of_mem _ (ih w hw')
        exact this _ v hv
      obtain ⟨tb, htb, hvt⟩ := List.mem_flatMap.1 hv'
      exact hh tb htb v hvt
    · intro hh tb htb v hv
      exact hh v (polyVars_mem poly tb htb v hv)
  unfold polymorphRecord
  cases hpv : penaltyVector reduction resp with
  | error e =>
    simp only [Except.error.injEq, exists_eq', true_iff]
    exact Or.inl ((penaltyVector_error_iff reduction resp).1 ⟨e, hpv⟩)
  | ok pv =>
    have hno : ¬ ∃ c ∈ reduction, c.1.1 ∉ resp.vars ∨ c.1.2 ∉ resp.vars ∨ c.2 ∉ resp.vars := by
      intro hh
      obtain ⟨e, he⟩ := (penaltyVector_error_iff reduction resp).2 hh
      rw [hpv] at he; simp at he
    simp only
    unfold polyEnergiesM
    by_cases hp : poly.all (fun tb => tb.1.all (fun v => (indexOf? v resp.vars).isSome)) = true
    · rw [if_pos hp]
      simp only
      have hpv2 := hall.1 hp
      have hsel : (if keep then some none else (colIdxs resp.vars order).map some) ≠ none := by
        cases keep with
        | true => simp
        | false =>
          simp only [Bool.false_eq_true, if_false, ne_eq, Option.map_eq_none_iff]
          intro hc
          obtain ⟨v, hv, hnv⟩ := (colIdxs_none_iff _ _).1 hc
          exact hnv (hpv2 v (horder v hv))
      cases hs : (if keep then some none else (colIdxs resp.vars order).map some) with
      | none => exact absurd hs hsel
      | some sel =>
        simp only
        have hdup : (resp.names.any (fun n => Generated.HocLayout.headFields.contains n) = true)
            ↔ ∃ n ∈ resp.names, n ∈ Generated.HocLayout.headFields := by
          simp only [List.any_eq_true, List.contains_iff_mem]
        by_cases hd : resp.names.any (fun n => Generated.HocLayout.headFields.contains n) = true
        · rw [if_pos hd]
          simp only [Except.error.injEq, exists_eq', true_iff]
          right; right
          exact hdup.1 hd
        · rw [if_neg hd]
          constructor
          · rintro ⟨e, he⟩; simp at he
          · rintro (hh | hh | hh)
            · exact absurd hh hno
            · obtain ⟨v, hv, hnv⟩ := hh; exact absurd (hpv2 v hv) hnv
            · exact absurd (hdup.2 hh) hd
    · rw [if_neg hp]
      simp only [Except.error.injEq, exists_eq', true_iff]
      right; left
      apply Classical.byContradiction
      intro hne
      apply hp
      apply hall.2
      intro v hv
      apply Classical.byContradiction
      intro hnv
      exact hne ⟨v, hv, hnv⟩

end Red
