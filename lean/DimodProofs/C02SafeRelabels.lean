import DimodProofs.VarsRelabel
import DimodModel.PyRelabel

/-! # C02 — `iter_safe_relabels(mapping, self.variables)`: the split of a relabelling into safe sub-mappings (round 7)

`pyBQM.relabel_variables` walks the sub-mappings `iter_safe_relabels` yields and applies every `(old, new)` pair in place
(`LBqm.relabelOne`, C02's history theorems).  The model of `iter_safe_relabels` / `resolve_label_conflict` is the one of C13
(`VState.safeRelabels`, as coded: `new_labels` dict, the two error checks, the counter starting at `2·len(mapping)`).  Here: the
split is safe. -/

namespace VState

open LSpec (lookup subst dictOf relabelOk)

/-- a sub-mapping can be applied pair by pair in place: the new labels are distinct and no new label of a real (non-self) pair is
    one of the old labels of the same sub-mapping (no key/value overlap) -/
def SafeSub (sub : Dict) : Prop :=
  (vals sub).Nodup ∧ ∀ p ∈ sub, p.1 ≠ p.2 → p.2 ∉ keys sub

/-- one sub-mapping as a function on labels -/
def applySub (sub : Dict) (x : Label) : Label := (lookup sub x).getD x

theorem safeRelabels_safe (s : VState) (hI : s.Inv) (m : Dict) (hk : (keys m).Nodup) :
    (relabelOk m s.abs = true →
      ∃ subs, s.safeRelabels m = some subs ∧ subs.length ≤ 2 ∧
        (∀ sub ∈ subs, SafeSub sub) ∧
        (∀ x v, (x, v) ∈ m → x ≠ v → subs.foldl (fun y sub => applySub sub y) x = v)) ∧
    (relabelOk m s.abs = false → s.safeRelabels m = none) := by
  rw [safeRelabels_eq]
  have hok := relabelOk_iff m hk s.abs
  by_cases h1 : (newLabels m).length < m.length
  · have : ¬ (vals m).Nodup := (length_newLabels_lt_iff m).1 h1
    have hf : relabelOk m s.abs = false := by
      cases hr : relabelOk m s.abs with
      | false => rfl
      | true => exact absurd (hok.1 hr).1 this
    rw [if_pos h1]; simp [hf]
  · have hvn : (vals m).Nodup := by
      apply Classical.byContradiction
      intro hc; exact h1 ((length_newLabels_lt_iff m).2 hc)
    rw [if_neg h1]
    by_cases h2 : ((newLabels m).any fun p => s.count p.1 && !(dictHas m p.1)) = true
    · have hf : relabelOk m s.abs = false := by
        cases hr : relabelOk m s.abs with
        | false => rfl
        | true =>
          exfalso
          obtain ⟨p, hp, hc⟩ := List.any_eq_true.1 h2
          simp only [Bool.and_eq_true, Bool.not_eq_true', dictHas_eq_false_iff] at hc
          have hv : p.1 ∈ vals m := (mem_keys_newLabels m p.1).1 (mem_keys_of_mem (v := p.2) hp)
          exact hc.2 ((hok.1 hr).2 _ hv ((s.count_iff hI _).1 hc.1))
      rw [if_pos h2]; simp [hf]
    · have hchk : ∀ v ∈ vals m, v ∈ s.abs → v ∈ keys m := by
        intro v hv hl
        apply Classical.byContradiction
        intro hnk
        apply h2
        obtain ⟨o, ho⟩ := exists_of_mem_keys ((mem_keys_newLabels m v).2 hv)
        apply List.any_eq_true.2
        refine ⟨(v, o), ho, ?_⟩
        simp only [Bool.and_eq_true, Bool.not_eq_true', dictHas_eq_false_iff]
        exact ⟨(s.count_iff hI _).2 hl, hnk⟩
      have ht : relabelOk m s.abs = true := hok.2 ⟨hvn, hchk⟩
      rw [if_neg h2]
      by_cases h3 : (m.any fun p => dictHas (newLabels m) p.1) = true
      · rw [if_pos h3]
        refine ⟨fun _ => ⟨_, rfl, by simp, ?_, ?_⟩, fun hf => by rw [ht] at hf; simp at hf⟩
        all_goals
          have hb := foldl_rstep_eq_build s m m (2 * m.length) [] [] hk (by simp) (by simp)
          rw [hb]
          simp only [List.nil_append]
          have ok := build_ok s hI m m (2 * m.length) (fun _ h => h) hk hvn
          generalize build s m (2 * m.length) m = B at ok ⊢
          obtain ⟨ctr', O, I⟩ := B
          simp only at ok ⊢
          have hOsub : ∀ k, k ∈ keys O → k ∈ keys m := by
            intro k hk'
            obtain ⟨v, hm, _⟩ := (ok.keysO k).1 hk'
            exact mem_keys_of_mem hm
          have hIfresh : ∀ k ∈ keys I, k ∉ vals m := by
            intro k hk'
            obtain ⟨c, rfl, _, _, hf⟩ := ok.keysI k hk'
            exact ((forb_eq_false_iff s hI m _).1 hf).1
        · intro sub hsub
          simp only [List.mem_cons, List.not_mem_nil, or_false] at hsub
          rcases hsub with rfl | rfl
          · refine ⟨ok.valsO_nodup, ?_⟩
            intro p hp _ hcontra
            have hkm := hOsub _ hcontra
            rcases ok.valsO p.2 (mem_vals_of_mem hp) with ⟨c, hc, _, _, hf⟩ | ⟨k, hkm', _, hcf⟩
            · rw [hc] at hkm
              exact ((forb_eq_false_iff s hI m _).1 hf).2.1 hkm
            · exact ((conf_eq_false_iff m _).1 hcf).2 hkm
          · refine ⟨ok.valsI_nodup, ?_⟩
            intro p hp _ hcontra
            obtain ⟨k, hkm, _, _⟩ := ok.valsI p.2 (mem_vals_of_mem hp)
            exact hIfresh _ hcontra (mem_vals_of_mem hkm)
        · intro x v hxv hne
          simp only [List.foldl_cons, List.foldl_nil, applySub]
          cases hc : conf m (x, v) with
          | false =>
            rw [ok.look_direct x v hxv hne hc]
            simp only [Option.getD_some]
            have : lookup I v = none := (lookup_eq_none_iff I v).2 (fun h => hIfresh v h (mem_vals_of_mem hxv))
            rw [this]; rfl
          | true =>
            obtain ⟨c, _, h1', h2'⟩ := ok.look_conf x v hxv hne hc
            rw [h1']
            simp only [Option.getD_some]
            rw [h2']; rfl
      · rw [if_neg h3]
        have hnk : ∀ v ∈ vals m, v ∉ keys m := by
          intro v hv hkm
          apply h3
          obtain ⟨w, hm⟩ := exists_of_mem_keys hkm
          apply List.any_eq_true.2
          exact ⟨(v, w), hm, (dictHas_iff _ _).2 ((mem_keys_newLabels m v).2 hv)⟩
        refine ⟨fun _ => ⟨_, rfl, by simp, ?_, ?_⟩, fun hf => by rw [ht] at hf; simp at hf⟩
        · intro sub hsub
          simp only [List.mem_cons, List.not_mem_nil, or_false] at hsub
          subst hsub
          exact ⟨hvn, fun p hp _ => hnk _ (mem_vals_of_mem hp)⟩
        · intro x v hxv _
          simp only [List.foldl_cons, List.foldl_nil, applySub]
          rw [lookup_of_mem hk hxv]; rfl


/-- the `Variables` object built from distinct labels satisfies its invariant and lists exactly those labels -/
theorem variablesOf_spec (labels : List Label) (hnd : labels.Nodup) :
    (En.LBqm.variablesOf labels).Inv ∧ (En.LBqm.variablesOf labels).abs = labels := by
  unfold En.LBqm.variablesOf
  have gen : ∀ (ls : List Label) (s : VState), s.Inv → (s.abs ++ ls).Nodup →
      (ls.foldl VState.append s).Inv ∧ (ls.foldl VState.append s).abs = s.abs ++ ls := by
    intro ls
    induction ls with
    | nil => intro s hI _; simp [hI]
    | cons v t ih =>
      intro s hI hn
      have hv : v ∉ s.abs := by
        intro hmem
        have := List.nodup_append.mp hn
        exact this.2.2 v hmem v (by simp) rfl
      have hI' := append_inv s hI v hv
      have ha' := VState.abs_append s hI v hv
      simp only [List.foldl_cons]
      have := ih (s.append v) hI' (by rw [ha']; simpa [List.append_assoc] using hn)
      rw [ha'] at this
      simpa [List.append_assoc] using this
  have h0 : VState.empty.abs = [] := by simp [VState.empty, VState.abs]
  have := gen labels VState.empty inv_empty (by rw [h0]; simpa using hnd)
  rw [h0] at this
  simpa using this

end VState
