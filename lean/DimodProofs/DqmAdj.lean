import DimodProofs.Penalty

/-! # C16: the variable-level adjacency of a DQM after `add_linear_equality_constraint` (core Lean only)

`energies()` only visits the variable pairs in `adj_`; the constraint therefore merges its (sorted)
variables into every `adj_[v]`.  `mem_adjMerge` / `sorted_adjMerge`: the coded merge keeps the old
neighbours, adds every other constraint variable, and keeps the list strictly increasing (the energy
loop breaks at the first neighbour above `u`, so order matters). -/

namespace Pen

def StrictSorted (l : List Nat) : Prop := l.Pairwise (· < ·)

theorem mem_adjMerge (v : Nat) (xs nb : List Nat) (w : Nat) :
    w ∈ adjMerge v xs nb ↔ (w ∈ nb ∨ (w ∈ xs ∧ w ≠ v)) := by
  fun_induction adjMerge v xs nb with
  | case1 nb => simp
  | case2 xs ih => rw [ih]; simp; grind
  | case3 x xs hx ih => simp only [List.mem_cons, ih]; grind
  | case4 xs n ns ih => rw [ih]; simp; grind
  | case5 x xs n ns hx hlt ih => simp only [List.mem_cons, ih]; grind
  | case6 x xs n ns hx hlt hgt ih => simp only [List.mem_cons, ih]; grind
  | case7 x xs n ns hx hlt hgt ih =>
    have : x = n := by omega
    subst this
    simp only [List.mem_cons, ih]; grind

theorem sorted_adjMerge (v : Nat) (xs nb : List Nat) (hx : StrictSorted xs) (hn : StrictSorted nb) :
    StrictSorted (adjMerge v xs nb) := by
  unfold StrictSorted at *
  fun_induction adjMerge v xs nb with
  | case1 nb => exact hn
  | case2 xs ih =>
    simp only [List.pairwise_cons] at hx; exact ih hx.2 hn
  | case3 x xs hxv ih =>
    simp only [List.pairwise_cons] at hx ⊢
    refine ⟨?_, ih hx.2 hn⟩
    intro w hw
    rcases (mem_adjMerge v xs [] w).1 hw with h | h
    · simp at h
    · exact hx.1 w h.1
  | case4 xs n ns ih =>
    simp only [List.pairwise_cons] at hx; exact ih hx.2 hn
  | case5 x xs n ns hxv hlt ih =>
    have hn' := hn
    simp only [List.pairwise_cons] at hx hn ⊢
    refine ⟨?_, ih hx.2 hn'⟩
    intro w hw
    rcases (mem_adjMerge v xs (n :: ns) w).1 hw with h | h
    · simp only [List.mem_cons] at h
      rcases h with rfl | h
      · exact hlt
      · have := hn.1 w h; omega
    · exact hx.1 w h.1
  | case6 x xs n ns hxv hlt hgt ih =>
    have hx' := hx
    simp only [List.pairwise_cons] at hx hn ⊢
    refine ⟨?_, ih hx' hn.2⟩
    intro w hw
    rcases (mem_adjMerge v (x :: xs) ns w).1 hw with h | h
    · exact hn.1 w h
    · simp only [List.mem_cons] at h
      rcases h.1 with rfl | h1
      · exact hgt
      · have := hx.1 w h1; omega
  | case7 x xs n ns hxv hlt hgt ih =>
    have : x = n := by omega
    subst this
    simp only [List.pairwise_cons] at hx hn ⊢
    refine ⟨?_, ih hx.2 hn.2⟩
    intro w hw
    rcases (mem_adjMerge v xs ns w).1 hw with h | h
    · exact hn.1 w h
    · exact hx.1 w h.1

theorem mem_insertUniq (a w : Nat) (l : List Nat) : w ∈ insertUniq a l ↔ (w = a ∨ w ∈ l) := by
  induction l with
  | nil => simp [insertUniq]
  | cons b r ih =>
    simp only [insertUniq]
    split
    · simp
    · split
      · rename_i h; subst h; simp
      · simp only [List.mem_cons, ih]; grind

theorem sorted_insertUniq (a : Nat) (l : List Nat) (h : StrictSorted l) : StrictSorted (insertUniq a l) := by
  unfold StrictSorted at *
  induction l with
  | nil => simp [insertUniq]
  | cons b r ih =>
    simp only [List.pairwise_cons] at h
    simp only [insertUniq]
    split
    · rename_i hlt
      simp only [List.pairwise_cons]
      refine ⟨?_, h⟩
      intro w hw
      simp only [List.mem_cons] at hw
      rcases hw with rfl | hw
      · exact hlt
      · have := h.1 w hw; omega
    · split
      · simp only [List.pairwise_cons]; exact h
      · rename_i h1 h2
        simp only [List.pairwise_cons]
        refine ⟨?_, ih h.2⟩
        intro w hw
        rcases (mem_insertUniq a w r).1 hw with rfl | hw
        · omega
        · exact h.1 w hw

/-- the sorted variable list of the merged terms: exactly the variables of the terms, strictly increasing -/
theorem sortedVars_spec (nc : List Nat) (m : List (Nat × Rat)) :
    StrictSorted (sortedVars nc m) ∧ ∀ w, w ∈ sortedVars nc m ↔ ∃ t ∈ m, varOfCase nc t.1 = w := by
  induction m with
  | nil => simp [sortedVars, StrictSorted]
  | cons t r ih =>
    simp only [sortedVars, List.foldr_cons] at ih ⊢
    refine ⟨sorted_insertUniq _ _ ih.1, ?_⟩
    intro w
    rw [mem_insertUniq, ih.2 w]
    simp only [List.mem_cons, exists_eq_or_imp]
    constructor
    · rintro (h | h)
      · exact Or.inl h.symm
      · exact Or.inr h
    · rintro (h | h)
      · exact Or.inl h.symm
      · exact Or.inr h

/-- **adjacency after the constraint**: for every variable `i` of the DQM, `adj_[i]` keeps its old
    neighbours and, when `i` is a constraint variable, gains every other constraint variable — nothing
    else; strictly increasing lists stay strictly increasing -/
theorem adjUpdate_spec (adj : List (List Nat)) (vars : List Nat) (hv : StrictSorted vars) (i : Nat) (hi : i < adj.length) :
    (∀ w, w ∈ (adjUpdate adj vars).getD i [] ↔ (w ∈ adj.getD i [] ∨ (i ∈ vars ∧ w ∈ vars ∧ w ≠ i)))
    ∧ (StrictSorted (adj.getD i []) → StrictSorted ((adjUpdate adj vars).getD i [])) := by
  have hget : (adjUpdate adj vars).getD i [] = if vars.contains i then adjMerge i vars (adj.getD i []) else adj.getD i [] := by
    unfold adjUpdate
    simp [List.getD_eq_getElem?_getD, hi]
  rw [hget]
  by_cases hc : vars.contains i = true
  · rw [if_pos hc]
    have him : i ∈ vars := by simpa using hc
    refine ⟨?_, fun hs => sorted_adjMerge i vars _ hv hs⟩
    intro w; rw [mem_adjMerge]; grind
  · rw [if_neg hc]
    have him : i ∉ vars := by simpa using hc
    refine ⟨?_, fun hs => hs⟩
    intro w; grind

end Pen
