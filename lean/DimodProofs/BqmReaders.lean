import DimodProofs.BqmUpdate
import DimodProofs.Counts

/-! Every read path of the BQM model is a function of the label-keyed polynomial `absL m` (variables in order,
    linear bias per label, bias per pair, offset): two models holding the same polynomial cannot be told apart by
    any reader, and the readers agree among themselves.  Core Lean only. -/

namespace Bqm

theorem nbhCoef_filter (nb : List (Nat × Rat)) (f : Nat → Bool) (v : Nat) :
    nbhCoef (nb.filter fun p => f p.1) v = if f v then nbhCoef nb v else none := by
  induction nb with
  | nil => simp [nbhCoef]
  | cons p t ih =>
    obtain ⟨w, c⟩ := p
    simp only [List.filter_cons]
    by_cases hw : f w = true
    · simp only [hw, if_true, nbhCoef]
      by_cases hwv : w = v
      · subst hwv; simp [hw]
      · simp only [hwv, if_false]; exact ih
    · have hw' : f w = false := by simpa using hw
      simp only [hw', Bool.false_eq_true, if_false, nbhCoef]
      by_cases hwv : w = v
      · subst hwv; simp only [if_true]; rw [ih]; simp [hw']
      · simp only [hwv, if_false]; exact ih

theorem sumTo_eq_zero (n : Nat) (f : Nat → Nat) (h : sumTo n f = 0) : ∀ u, u < n → f u = 0 := by
  induction n with
  | zero => intro u hu; omega
  | succ k ih =>
    have hk : sumTo (k + 1) f = sumTo k f + f k := rfl
    intro u hu
    by_cases e : u = k
    · subst e; omega
    · exact ih (by omega) u (by omega)

theorem length_flatMap_range {α} (n : Nat) (f : Nat → List α) :
    ((List.range n).flatMap f).length = sumTo n (fun u => (f u).length) := by
  induction n with
  | zero => rfl
  | succ k ih =>
    rw [List.range_succ, List.flatMap_append, List.length_append, ih]
    simp [sumTo]

/-- the lower-triangle list has one entry per unordered interacting pair -/
theorem lowerTriples_length {m : Bqm} (h : WF m) : m.lowerTriples.length = pairCount m.adj m.lin.length := by
  unfold Bqm.lowerTriples pairCount
  rw [length_flatMap_range, h.adj.len]
  apply sumTo_congr
  intro u hu
  rw [List.length_map]
  have hs : NbSorted ((m.nbhAt u).filter fun p => decide (p.1 < u)) := List.Pairwise.filter _ (h.adj.sorted u)
  have hb : ∀ p ∈ (m.nbhAt u).filter (fun p => decide (p.1 < u)), p.1 < m.lin.length := by
    intro p hp
    have hp' := (List.mem_filter.mp hp).1
    apply h.adj.bound u p.1
    show (nbhCoef (m.adj.getD u []) p.1).isSome
    rw [nbhCoef_isSome_iff]; exact ⟨p, hp', rfl⟩
  rw [length_eq_sum _ m.lin.length hs hb]
  apply sumTo_congr
  intro v _
  unfold indNb
  rw [nbhCoef_filter (m.nbhAt u) (fun w => decide (w < u)) v]
  unfold ind coefAt Bqm.nbhAt
  by_cases hvu : v < u
  · have : v ≤ u := by omega
    simp [hvu, this]
  · by_cases he : v = u
    · subst he
      have hn : coefAt m.adj v v = none := h.adj.noself v rfl
      unfold coefAt at hn
      simp only [Nat.lt_irrefl, decide_false, Bool.false_eq_true, if_false, Nat.le_refl, if_true, hn]
    · have : ¬ v ≤ u := by omega
      simp [hvu, this]

theorem numInteractions_eq (m : Bqm) (h : WF m) : m.numInteractions = m.lowerTriples.length := by
  let c : CppM := { bvt := some .spin, q := { CppM.emptyQ with lin := m.lin, adj := m.adj } }
  have e : m.numInteractions = c.numInteractions := rfl
  rw [e, CppM.numInteractions_eq_pairCount c (l := fun _ => false) h.adj, lowerTriples_length h]

theorem all_isEmpty_iff (adj : AdjT) : adj.all (·.isEmpty) = true ↔ ∀ u, adj.getD u [] = [] := by
  constructor
  · intro ha u
    by_cases hu : u < adj.length
    · have hm : adj.getD u [] ∈ adj := by
        simp only [List.getD, List.getElem?_eq_getElem hu, Option.getD_some]; exact List.getElem_mem hu
      have := List.all_eq_true.mp ha _ hm
      simpa using this
    · exact getD_of_ge _ _ _ (by omega)
  · intro hall
    apply List.all_eq_true.mpr
    intro nb hnb
    obtain ⟨u, hu, hget⟩ := List.getElem_of_mem hnb
    have := hall u
    simp only [List.getD, List.getElem?_eq_getElem hu, Option.getD_some] at this
    rw [← hget, this]; rfl

/-- the polynomial-level readers -/
def LPoly.getLinear (p : LPoly) (v : Label) : Option Rat := if v ∈ p.vars then some (p.lin v) else none
def LPoly.iterNeighborhood (p : LPoly) (v : Label) : Option (List (Label × Rat)) := if v ∈ p.vars then some (p.nbrs v) else none
def LPoly.degree (p : LPoly) (v : Label) : Option Nat := if v ∈ p.vars then some (p.nbrs v).length else none
def LPoly.iterLinear (p : LPoly) : List (Label × Rat) := p.vars.map fun l => (l, p.lin l)
def LPoly.toNumpyVectors (p : LPoly) : List Rat × List (Nat × Nat × Rat) × Rat :=
  (p.vars.map p.lin, p.lower.map (fun t => (p.pos t.1, p.pos t.2.1, t.2.2)), p.off)

theorem getLinear_absL {m : Bqm} (i : Inv m) (v : Label) : m.getLinear v = (absL m).getLinear v := by
  unfold Bqm.getLinear LPoly.getLinear
  by_cases hv : v ∈ (absL m).vars
  · obtain ⟨vi, hvi⟩ := (mem_labels_iff m v).mp hv
    rw [if_pos hv, hvi, lin_absL hvi]; rfl
  · have hnone : m.indexOf? v = none := by
      cases hk : m.indexOf? v with
      | none => rfl
      | some k => exact absurd ((mem_labels_iff m v).mpr ⟨k, hk⟩) hv
    rw [if_neg hv, hnone]; rfl

theorem iterNeighborhood_absL {m : Bqm} (i : Inv m) (v : Label) : m.iterNeighborhood v = (absL m).iterNeighborhood v := by
  unfold Bqm.iterNeighborhood LPoly.iterNeighborhood
  by_cases hv : v ∈ (absL m).vars
  · obtain ⟨vi, hvi⟩ := (mem_labels_iff m v).mp hv
    rw [if_pos hv, hvi, nbrs_absL i hvi]; rfl
  · have hnone : m.indexOf? v = none := by
      cases hk : m.indexOf? v with
      | none => rfl
      | some k => exact absurd ((mem_labels_iff m v).mpr ⟨k, hk⟩) hv
    rw [if_neg hv, hnone]; rfl

theorem degree_absL {m : Bqm} (i : Inv m) (v : Label) : m.degree v = (absL m).degree v := by
  unfold Bqm.degree LPoly.degree
  by_cases hv : v ∈ (absL m).vars
  · obtain ⟨vi, hvi⟩ := (mem_labels_iff m v).mp hv
    rw [if_pos hv, hvi, nbrs_absL i hvi, List.length_map]; rfl
  · have hnone : m.indexOf? v = none := by
      cases hk : m.indexOf? v with
      | none => rfl
      | some k => exact absurd ((mem_labels_iff m v).mpr ⟨k, hk⟩) hv
    rw [if_neg hv, hnone]; rfl

theorem iterLinear_absL {m : Bqm} (i : Inv m) : m.iterLinear = (absL m).iterLinear := by
  unfold Bqm.iterLinear LPoly.iterLinear
  show m.labels.zip m.lin = m.labels.map fun l => (l, m.linL l)
  apply List.ext_getElem
  · simp [List.length_zip, i.wf.labels_len]
  · intro j h1 h2
    have hj : j < m.labels.length := by simpa using h2
    have hjl : j < m.lin.length := by rw [← i.wf.labels_len]; exact hj
    simp only [List.getElem_zip, List.getElem_map]
    have hidx := indexOf?_of_get i.nodup (List.getElem?_eq_getElem hj)
    unfold linL; rw [hidx]
    simp [List.getD, List.getElem?_eq_getElem hjl]

theorem lin_eq_map {m : Bqm} (i : Inv m) : m.lin = m.labels.map m.linL := by
  have := iterLinear_absL i
  unfold Bqm.iterLinear LPoly.iterLinear at this
  have h2 := congrArg (List.map Prod.snd) this
  rw [List.map_map] at h2
  have hz : (m.labels.zip m.lin).map Prod.snd = m.lin := by
    rw [← List.unzip_snd, List.unzip_zip (by rw [i.wf.labels_len])]
  rw [hz] at h2
  exact h2

theorem toNumpyVectors_absL {m : Bqm} (i : Inv m) : m.toNumpyVectors = (absL m).toNumpyVectors := by
  unfold Bqm.toNumpyVectors LPoly.toNumpyVectors
  have hl : m.lin = (absL m).vars.map (absL m).lin := lin_eq_map i
  have hq : m.lowerTriples = (absL m).lower.map (fun t => ((absL m).pos t.1, (absL m).pos t.2.1, t.2.2)) := by
    rw [lower_absL i, List.map_map]
    conv => lhs; rw [← List.map_id m.lowerTriples]
    apply List.map_congr_left
    intro t ht
    have hb := lowerTriples_bound i t ht
    simp only [Function.comp, id]
    rw [pos_absL i hb.1, pos_absL i (show t.2.1 < m.labels.length by omega)]
  rw [← hl, ← hq]; rfl

theorem isLinear_absL {m : Bqm} (i : Inv m) : m.isLinear = (absL m).lower.isEmpty := by
  have hnum := numInteractions_eq m i.wf
  rw [lower_absL i, List.isEmpty_map]
  cases hlin : m.isLinear with
  | true =>
    have hall := (all_isEmpty_iff m.adj).mp hlin
    have : m.lowerTriples = [] := by
      unfold Bqm.lowerTriples
      apply List.flatMap_eq_nil_iff.mpr
      intro u _
      unfold Bqm.nbhAt; rw [hall u]; rfl
    rw [this]; rfl
  | false =>
    cases hlt : m.lowerTriples with
    | cons a t => rfl
    | nil =>
      exfalso
      have h0 : pairCount m.adj m.lin.length = 0 := by rw [← lowerTriples_length i.wf, hlt]; rfl
      have hsz := sizes_plus_loops i.wf.adj
      rw [h0] at hsz
      have hrows : ∀ u, u < m.lin.length → (m.adj.getD u []).length = 0 := by
        intro u hu
        have : sumTo m.lin.length (fun u => (m.adj.getD u []).length) = 0 := by omega
        exact sumTo_eq_zero _ _ this u hu
      have : m.isLinear = true := by
        apply (all_isEmpty_iff m.adj).mpr
        intro u
        by_cases hu : u < m.lin.length
        · exact List.length_eq_zero_iff.mp (hrows u hu)
        · exact getD_of_ge _ _ _ (by rw [i.wf.adj.len]; omega)
      rw [this] at hlin; cases hlin

end Bqm
