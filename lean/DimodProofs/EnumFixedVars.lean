import DimodProofs.EnumComposite

/-! C07: when `fix_variables` leaves no variable (`not poly_copy.variables`), every variable of the submitted polynomial is
    among the fixed ones — the one row `PolyFixedVariableComposite` then builds from `fixed_variables` assigns them all. -/

namespace Enum

/-- what is left of a term: its labels that are not fixed -/
theorem mem_fixTerm (fixed : List (Label × Rat)) : ∀ (k : List Label) (v : Rat) (l : Label),
    l ∈ (fixTerm fixed k v).1 ↔ (l ∈ k ∧ ∀ f ∈ fixed, f.1 ≠ l) := by
  induction fixed with
  | nil => intro k v l; simp [fixTerm]
  | cons f rest ih =>
    intro k v l
    obtain ⟨var, value⟩ := f
    unfold fixTerm
    by_cases hc : k.contains var = true
    · rw [if_pos hc, ih]
      simp only [List.mem_filter, List.mem_cons, forall_eq_or_imp, decide_eq_true_eq, ne_eq]
      constructor
      · rintro ⟨⟨h1, h2⟩, h3⟩; exact ⟨h1, fun e => h2 e.symm, h3⟩
      · rintro ⟨h1, h2, h3⟩; exact ⟨⟨h1, fun e => h2 e.symm⟩, h3⟩
    · rw [if_neg hc, ih]
      have hnot : var ∉ k := by simpa using hc
      simp only [List.mem_cons, forall_eq_or_imp, ne_eq]
      constructor
      · rintro ⟨h1, h3⟩; exact ⟨h1, fun e => hnot (e ▸ h1), h3⟩
      · rintro ⟨h1, _, h3⟩; exact ⟨h1, h3⟩

/-- some key of the polynomial is a non-empty term -/
def HasVar (p : Poly) : Prop := ∃ t ∈ p, t.1 ≠ []

theorem polyAdd_hasVar_keep (p : Poly) (k : List Label) (v : Rat) (h : HasVar p) : HasVar (polyAdd p k v) := by
  induction p with
  | nil => obtain ⟨t, ht, _⟩ := h; simp at ht
  | cons a rest ih =>
    obtain ⟨k', v'⟩ := a
    obtain ⟨t, ht, hne⟩ := h
    unfold polyAdd
    by_cases hs : sameSet k' k = true
    · rw [if_pos hs]
      rcases List.mem_cons.mp ht with h1 | h1
      · exact ⟨(k', v' + v), List.mem_cons_self, by rw [h1] at hne; exact hne⟩
      · exact ⟨t, List.mem_cons_of_mem _ h1, hne⟩
    · rw [if_neg hs]
      rcases List.mem_cons.mp ht with h1 | h1
      · exact ⟨(k', v'), List.mem_cons_self, by rw [h1] at hne; exact hne⟩
      · obtain ⟨t', ht', hne'⟩ := ih ⟨t, h1, hne⟩
        exact ⟨t', List.mem_cons_of_mem _ ht', hne'⟩

theorem polyAdd_hasVar_new (p : Poly) (k : List Label) (v : Rat) (hk : k ≠ []) : HasVar (polyAdd p k v) := by
  induction p with
  | nil => exact ⟨(k, v), by simp [polyAdd], hk⟩
  | cons a rest ih =>
    obtain ⟨k', v'⟩ := a
    unfold polyAdd
    by_cases hs : sameSet k' k = true
    · rw [if_pos hs]
      refine ⟨(k', v' + v), List.mem_cons_self, ?_⟩
      intro e
      simp only at e
      subst e
      obtain ⟨x, xs, rfl⟩ := List.exists_cons_of_ne_nil hk
      simp [sameSet] at hs
    · rw [if_neg hs]
      obtain ⟨t', ht', hne'⟩ := ih
      exact ⟨t', List.mem_cons_of_mem _ ht', hne'⟩

theorem fixLoop_hasVar (fixed : List (Label × Rat)) : ∀ (p acc : Poly) (off : Rat),
    (HasVar acc ∨ ∃ t ∈ p, t.1 ≠ [] ∧ (fixTerm fixed t.1 t.2).1 ≠ []) → HasVar (fixVariablesLoop true fixed p acc off).1 := by
  intro p
  induction p with
  | nil =>
    intro acc off h
    rcases h with h | ⟨t, ht, _⟩
    · simpa [fixVariablesLoop] using h
    · simp at ht
  | cons a rest ih =>
    intro acc off h
    obtain ⟨k, v⟩ := a
    unfold fixVariablesLoop
    by_cases hke : k.isEmpty = true
    · have hk : k = [] := by simpa using hke
      simp only [Bool.true_and, hke, if_true]
      apply ih
      rcases h with h | ⟨t, ht, h1, h2⟩
      · exact Or.inl h
      · rcases List.mem_cons.mp ht with e | e
        · rw [e] at h1; exact absurd hk h1
        · exact Or.inr ⟨t, e, h1, h2⟩
    · simp only [Bool.true_and, hke, Bool.false_eq_true, if_false]
      by_cases hk' : (fixTerm fixed k v).1.isEmpty = true
      · rw [show fixTerm fixed k v = ((fixTerm fixed k v).1, (fixTerm fixed k v).2) from rfl]
        simp only [hk', if_true]
        apply ih
        rcases h with h | ⟨t, ht, h1, h2⟩
        · exact Or.inl h
        · rcases List.mem_cons.mp ht with e | e
          · rw [e] at h2; exact absurd (by simpa using hk') h2
          · exact Or.inr ⟨t, e, h1, h2⟩
      · rw [show fixTerm fixed k v = ((fixTerm fixed k v).1, (fixTerm fixed k v).2) from rfl]
        simp only [hk', Bool.false_eq_true, if_false]
        apply ih
        exact Or.inl (polyAdd_hasVar_new acc _ _ (by simpa using hk'))

/-- **no variable left ⇒ everything is fixed** -/
theorem noVars_all_fixed (p : Poly) (fx : List (Label × Rat)) (h : polyNoVars (fixVariables true p fx) = true) :
    ∀ t ∈ p, ∀ l ∈ t.1, l ∈ fx.map (·.1) := by
  intro t ht l hl
  by_contra hnot
  have hne : t.1 ≠ [] := by intro e; rw [e] at hl; simp at hl
  have hleft : (fixTerm fx t.1 t.2).1 ≠ [] := by
    have : l ∈ (fixTerm fx t.1 t.2).1 := (mem_fixTerm fx t.1 t.2 l).mpr
      ⟨hl, fun f hf e => hnot (List.mem_map.mpr ⟨f, hf, e⟩)⟩
    intro e; rw [e] at this; simp at this
  have hv := fixLoop_hasVar fx p [] (constTerm p) (Or.inr ⟨t, ht, hne, hleft⟩)
  obtain ⟨t', ht', hne'⟩ := hv
  unfold polyNoVars fixVariables at h
  have hall := List.all_eq_true.mp h t' (by
    show t' ∈ (match fixVariablesLoop true fx p [] (constTerm p) with | (acc, off) => acc ++ [([], off)])
    exact List.mem_append_left _ ht')
  exact hne' (by simpa using hall)

end Enum
