import DimodModel.Vars

/-! `Variables._relabel` keeps a duplicate-free label list duplicate-free — the `LSpec`-only part of `DimodProofs/BqmRelabel.lean`,
    restated without the BQM model in scope (r8f, for the sample-set object histories of C14).  Core Lean only. -/

namespace SSM.LS


theorem lookup_mem {d : List (Label × Label)} {k v : Label} (h : LSpec.lookup d k = some v) : (k, v) ∈ d := by
  induction d with
  | nil => cases h
  | cons p t ih =>
    obtain ⟨a, b⟩ := p
    unfold LSpec.lookup at h
    by_cases hak : a = k
    · simp only [hak, if_true, Option.some.injEq] at h; subst h; subst hak; simp
    · simp only [hak, if_false] at h; exact List.mem_cons_of_mem _ (ih h)

theorem lookup_none {d : List (Label × Label)} {k : Label} (h : LSpec.lookup d k = none) : VState.dictHas d k = false := by
  induction d with
  | nil => rfl
  | cons p t ih =>
    obtain ⟨a, b⟩ := p
    unfold LSpec.lookup at h
    by_cases hak : a = k
    · simp [hak] at h
    · simp only [hak, if_false] at h
      unfold VState.dictHas
      simp only [List.any_cons, hak, decide_false, Bool.false_or]
      exact ih h

theorem snd_inj_of_nodup {d : List (Label × Label)} (hnd : (d.map (·.2)).Nodup) {x y a : Label}
    (hx : (x, a) ∈ d) (hy : (y, a) ∈ d) : x = y := by
  induction d with
  | nil => cases hx
  | cons p t ih =>
    rw [List.map_cons, List.nodup_cons] at hnd
    rcases List.mem_cons.mp hx with h1 | h1 <;> rcases List.mem_cons.mp hy with h2 | h2
    · rw [← h2] at h1; exact (Prod.mk.inj h1).1
    · exfalso; apply hnd.1; rw [← h1]; exact List.mem_map.mpr ⟨(y, a), h2, rfl⟩
    · exfalso; apply hnd.1; rw [← h2]; exact List.mem_map.mpr ⟨(x, a), h1, rfl⟩
    · exact ih hnd.2 h1 h2

theorem nodup_map_on {α β} (f : α → β) (l : List α) (hn : l.Nodup) (hinj : ∀ x ∈ l, ∀ y ∈ l, f x = f y → x = y) :
    (l.map f).Nodup := by
  induction l with
  | nil => simp
  | cons a t ih =>
    have hat := (List.nodup_cons.mp hn).1
    have hnt := (List.nodup_cons.mp hn).2
    rw [List.map_cons, List.nodup_cons]
    refine ⟨?_, ih hnt (fun x hx y hy => hinj x (List.mem_cons_of_mem _ hx) y (List.mem_cons_of_mem _ hy))⟩
    intro hm
    obtain ⟨b, hb, hfb⟩ := List.mem_map.mp hm
    have := hinj b (List.mem_cons_of_mem _ hb) a (by simp) hfb
    subst this; exact hat hb

theorem lspec_relabel_nodup (l : List Label) (mp : List (Label × Label)) (hnd : l.Nodup) :
    (LSpec.step l (.relabel mp)).1.Nodup := by
  show (if LSpec.relabelOk mp l then (LSpec.subst (LSpec.dictOf mp) l, true) else (l, false)).1.Nodup
  by_cases hok : LSpec.relabelOk mp l = true
  · rw [if_pos hok]
    unfold LSpec.relabelOk at hok
    simp only [Bool.and_eq_true, decide_eq_true_eq, List.all_eq_true] at hok
    obtain ⟨hnews, hall⟩ := hok
    unfold LSpec.subst
    apply nodup_map_on _ _ hnd
    intro x hx y hy hxy
    cases hlx : LSpec.lookup (LSpec.dictOf mp) x with
    | some a =>
      cases hly : LSpec.lookup (LSpec.dictOf mp) y with
      | some b =>
        rw [hlx, hly] at hxy
        simp only [Option.getD_some] at hxy
        subst hxy
        exact snd_inj_of_nodup hnews (lookup_mem hlx) (lookup_mem hly)
      | none =>
        rw [hlx, hly] at hxy
        simp only [Option.getD_some, Option.getD_none] at hxy
        exfalso
        have := hall (x, a) (lookup_mem hlx)
        simp [hxy, hy, lookup_none hly] at this
    | none =>
      cases hly : LSpec.lookup (LSpec.dictOf mp) y with
      | some b =>
        rw [hlx, hly] at hxy
        simp only [Option.getD_some, Option.getD_none] at hxy
        exfalso
        have := hall (y, b) (lookup_mem hly)
        simp [← hxy, hx, lookup_none hlx] at this
      | none =>
        rw [hlx, hly] at hxy
        simpa using hxy
  · have : LSpec.relabelOk mp l = false := by simpa using hok
    rw [this]; exact hnd

end SSM.LS
