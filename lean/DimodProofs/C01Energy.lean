import DimodModel.Energy
import DimodProofs.Dense
import Mathlib.Algebra.BigOperators.Fin
import Mathlib.Algebra.BigOperators.Ring.Finset
import Mathlib.Algebra.BigOperators.Intervals
import Mathlib.Tactic.Ring
import Mathlib.Tactic.Linarith

/-! # C01 — the evaluation loops compute the reported polynomial

Helper lemmas about `DimodModel/Energy.lean`.  `R` is any commutative ring. -/

open Finset

namespace En

variable {R : Type} [CommRing R]

/-! ## list-level facts about the specification sums -/

theorem quadSum_append (x : Nat → R) (l₁ l₂ : List (Nat × Nat × R)) :
    quadSum x (l₁ ++ l₂) = quadSum x l₁ + quadSum x l₂ := by
  induction l₁ with
  | nil => simp [quadSum]
  | cons t l ih => obtain ⟨u, v, b⟩ := t; simp [quadSum, ih, add_assoc]

/-! facts about `linSum` used in several places -/

theorem linSum_congr (x y : Nat → R) (u0 : Nat) (lin : List R) (h : ∀ i, i < lin.length → x (u0 + i) = y (u0 + i)) :
    linSum x u0 lin = linSum y u0 lin := by
  induction lin generalizing u0 with
  | nil => rfl
  | cons l ls ih =>
    simp only [linSum]
    have h0 := h 0 (by simp)
    simp only [Nat.add_zero] at h0
    rw [h0, ih (u0 + 1) (by
      intro i hi
      have := h (i + 1) (by simp; omega)
      have e : u0 + (i + 1) = u0 + 1 + i := by omega
      rw [e] at this; exact this)]

theorem linSum_shift (x : Nat → R) (u0 : Nat) (lin : List R) :
    linSum x (u0 + 1) lin = linSum (fun i => x (i + 1)) u0 lin := by
  induction lin generalizing u0 with
  | nil => rfl
  | cons l ls ih => simp only [linSum]; rw [ih]

namespace QMB

/-! ## the loops against the reported terms (no well-formedness needed beyond equal lengths) -/

theorem lowerLoop_eq (x : Nat → R) (u : Nat) (nb : Nbh R) (en : R) :
    lowerLoop x u nb en = en + quadSum x (lowerTerms u nb) := by
  induction nb generalizing en with
  | nil => simp [lowerLoop, lowerTerms, quadSum]
  | cons p t ih =>
    obtain ⟨v, b⟩ := p
    simp only [lowerLoop, lowerTerms]
    by_cases h : v > u
    · have h' : ¬ v ≤ u := by omega
      simp [h, h', quadSum]
    · have h' : v ≤ u := by omega
      simp only [h, h', if_false, if_true, quadSum]
      rw [ih]; ring

theorem linLoop_eq (x : Nat → R) (u : Nat) (ls : List R) (en : R) :
    linLoop x u ls en = en + linSum x u ls := by
  induction ls generalizing u en with
  | nil => simp [linLoop, linSum]
  | cons l ls ih => simp only [linLoop, linSum]; rw [ih]; ring

theorem adjLoop_eq (x : Nat → R) (a : List (Nbh R)) (u : Nat) (ls : List R) (en : R) :
    adjLoop x a u ls en
      = en + linSum x u ls + quadSum x (iterQuadraticFrom u ((a.drop u).take ls.length)) := by
  induction ls generalizing u en with
  | nil => simp [adjLoop, linSum, iterQuadraticFrom, quadSum]
  | cons l ls ih =>
    simp only [adjLoop, linSum, List.length_cons]
    rw [ih, lowerLoop_eq]
    by_cases hu : u < a.length
    · have hd : a.drop u = a[u] :: a.drop (u+1) := by
        rw [List.drop_eq_getElem_cons hu]
      have hg : a.getD u [] = a[u] := by simp [List.getD, hu]
      rw [hd, hg]
      simp only [List.take_succ_cons, iterQuadraticFrom, quadSum_append]
      ring
    · have hd : a.drop u = [] := List.drop_eq_nil_of_le (by omega)
      have hd' : a.drop (u+1) = [] := List.drop_eq_nil_of_le (by omega)
      have hg : a.getD u [] = [] := by
        rw [List.getD_eq_getElem?_getD, List.getElem?_eq_none (by omega)]; rfl
      rw [hd, hd', hg]
      simp [iterQuadraticFrom, lowerTerms, quadSum]
      ring

/-- **`energy` is the polynomial of the reported coefficients** (`linear`, `offset`, `iter_quadratic`), for
    every model whose adjacency, when allocated, has one row per variable. -/
theorem energy_eq_reported (m : QMB R) (x : Nat → R)
    (hlen : ∀ a, m.adj = some a → a.length = m.lin.length) :
    m.energy x = m.reportedEval x := by
  unfold energy reportedEval polyEval iterQuadratic
  cases h : m.adj with
  | none => simp [linLoop_eq, quadSum]
  | some a =>
    have hl := hlen a h
    simp only []
    rw [adjLoop_eq]
    simp [← hl]

/-- the Cython loop (`cyQMBase._energies`, one row) is the C++ loop -/
theorem cyEnergy_eq_energy (m : QMB R) (x : Nat → R) : m.cyEnergy x = m.energy x := by
  unfold cyEnergy energy
  cases h : m.adj with
  | some a => simp
  | none =>
    simp only [Option.getD_none]
    rw [adjLoop_eq, linLoop_eq]
    simp [iterQuadraticFrom, quadSum]

end QMB

end En

/-! ## bridge to the dense coefficient view -/

namespace En

variable {R : Type} [CommRing R]

/-- strictly increasing neighbour indices -/
def Nbh.Sorted (nb : Nbh R) : Prop := nb.Pairwise (fun p q => p.1 < q.1)

namespace QMB

/-- linear coefficient of `u` (what `linear(u)` reports) -/
def L (m : QMB R) (u : Nat) : R := m.lin.getD u 0
/-- stored coefficient of the pair (what `quadratic(u, v)` reports) -/
def Q (m : QMB R) (u v : Nat) : R := coef (m.nbh u) v
/-- lower-triangle dense view: the coefficient of `x u * x v` for `v ≤ u`, 0 above the diagonal -/
def T (m : QMB R) (u v : Nat) : R := if v ≤ u then m.Q u v else 0

/-- the representation invariant of `abc.h`'s adjacency -/
structure WF (m : QMB R) : Prop where
  len : ∀ a, m.adj = some a → a.length = m.lin.length
  sorted : ∀ u, Nbh.Sorted (m.nbh u)
  bound : ∀ u, ∀ p ∈ m.nbh u, p.1 < m.n
  symm : ∀ u v b, (v, b) ∈ m.nbh u → (u, b) ∈ m.nbh v

theorem coef_eq_zero_of_lt (nb : Nbh R) (v : Nat) (h : ∀ p ∈ nb, v < p.1) : coef nb v = 0 := by
  induction nb with
  | nil => rfl
  | cons p t ih =>
    obtain ⟨w, c⟩ := p
    have hw : v < w := h (w, c) (by simp)
    simp only [coef]
    rw [if_neg (by omega)]
    exact ih (fun p hp => h p (List.mem_cons_of_mem _ hp))

theorem coef_eq_zero_of_not_mem (nb : Nbh R) (v : Nat) (h : ∀ p ∈ nb, p.1 ≠ v) : coef nb v = 0 := by
  induction nb with
  | nil => rfl
  | cons p t ih =>
    obtain ⟨w, c⟩ := p
    have hw : w ≠ v := h (w, c) (by simp)
    simp only [coef]
    rw [if_neg hw]
    exact ih (fun p hp => h p (List.mem_cons_of_mem _ hp))

theorem coef_of_mem (nb : Nbh R) (hs : Nbh.Sorted nb) (v : Nat) (b : R) (h : (v, b) ∈ nb) : coef nb v = b := by
  induction nb with
  | nil => cases h
  | cons p t ih =>
    obtain ⟨w, c⟩ := p
    have ht : Nbh.Sorted t := (List.pairwise_cons.mp hs).2
    have hw : ∀ q ∈ t, w < q.1 := (List.pairwise_cons.mp hs).1
    simp only [coef]
    rcases List.mem_cons.mp h with h | h
    · cases h; simp
    · have := hw _ h
      rw [if_neg (by simp at this; omega)]
      exact ih ht h

theorem linSum_eq_sum (x : Nat → R) (u : Nat) (ls : List R) :
    linSum x u ls = ∑ i ∈ range ls.length, ls.getD i 0 * x (u + i) := by
  induction ls generalizing u with
  | nil => simp [linSum]
  | cons l ls ih =>
    simp only [linSum, List.length_cons]
    rw [sum_range_succ', ih]
    simp only [List.getD_cons_zero, List.getD_cons_succ, add_zero]
    rw [add_comm]
    congr 1
    apply sum_congr rfl
    intro i _
    congr 2
    omega

/-- the entries a row contributes, as a sum over all column indices -/
theorem quadSum_lowerTerms (x : Nat → R) (n u : Nat) (nb : Nbh R) (hs : Nbh.Sorted nb)
    (hb : ∀ p ∈ nb, p.1 < n) :
    quadSum x (lowerTerms u nb) = ∑ v ∈ range n, (if v ≤ u then coef nb v else 0) * x u * x v := by
  induction nb with
  | nil => simp [lowerTerms, quadSum, coef]
  | cons p t ih =>
    obtain ⟨w, c⟩ := p
    have ht : Nbh.Sorted t := (List.pairwise_cons.mp hs).2
    have hw : ∀ q ∈ t, w < q.1 := (List.pairwise_cons.mp hs).1
    have hwn : w < n := hb (w, c) (by simp)
    have hbt : ∀ p ∈ t, p.1 < n := fun p hp => hb p (List.mem_cons_of_mem _ hp)
    simp only [lowerTerms]
    by_cases hwu : w ≤ u
    · simp only [hwu, if_true, quadSum]
      rw [ih ht hbt]
      have hz : coef t w = 0 := coef_eq_zero_of_lt t w hw
      have : ∀ v ∈ range n, (if v ≤ u then coef ((w, c) :: t) v else 0) * x u * x v
          = (if v ≤ u then coef t v else 0) * x u * x v + (if v = w then c * x u * x w else 0) := by
        intro v _
        simp only [coef]
        by_cases hvw : v = w
        · subst hvw; simp [hwu, hz]
        · have : ¬ w = v := fun h => hvw h.symm
          simp [hvw, this]
      rw [sum_congr rfl this, sum_add_distrib, sum_ite_eq' (range n) w]
      simp [hwn]; ring
    · simp only [hwu, if_false, quadSum]
      symm
      apply sum_eq_zero
      intro v _
      by_cases hvu : v ≤ u
      · have : coef ((w, c) :: t) v = 0 := by
          apply coef_eq_zero_of_lt
          intro p hp
          rcases List.mem_cons.mp hp with rfl | hp
          · simp only []; omega
          · have := hw p hp; omega
        simp [hvu, this]
      · simp [hvu]

theorem quadSum_iterQuadraticFrom (x : Nat → R) (u0 : Nat) (rows : List (Nbh R)) :
    quadSum x (iterQuadraticFrom u0 rows)
      = ∑ i ∈ range rows.length, quadSum x (lowerTerms (u0 + i) (rows.getD i [])) := by
  induction rows generalizing u0 with
  | nil => simp [iterQuadraticFrom, quadSum]
  | cons nb rows ih =>
    simp only [iterQuadraticFrom, quadSum_append, List.length_cons]
    rw [sum_range_succ', ih]
    simp only [List.getD_cons_zero, List.getD_cons_succ, add_zero]
    rw [add_comm]
    congr 1
    apply sum_congr rfl
    intro i _
    congr 2
    omega

theorem nbh_some (m : QMB R) (a : List (Nbh R)) (h : m.adj = some a) (u : Nat) : m.nbh u = a.getD u [] := by
  simp [nbh, h]

theorem nbh_none (m : QMB R) (h : m.adj = none) (u : Nat) : m.nbh u = [] := by
  simp [nbh, h]

/-- the reported polynomial is the dense polynomial of the coefficient view -/
theorem reported_eq_evalR (m : QMB R) (hm : m.WF) (x : Nat → R) :
    m.reportedEval x = evalR m.n m.off m.L m.T x := by
  unfold reportedEval polyEval evalR
  have h1 : linSum x 0 m.lin = ∑ u ∈ range m.n, m.L u * x u := by
    rw [linSum_eq_sum]; simp [n, L]
  rw [h1]
  congr 1
  unfold iterQuadratic
  cases h : m.adj with
  | none =>
    simp only [quadSum]
    symm
    apply sum_eq_zero; intro u _
    apply sum_eq_zero; intro v _
    simp [T, Q, nbh_none m h, coef]
  | some a =>
    simp only []
    rw [quadSum_iterQuadraticFrom]
    have hl : a.length = m.n := hm.len a h
    rw [hl]
    apply sum_congr rfl
    intro u _
    rw [Nat.zero_add, ← nbh_some m a h u]
    rw [quadSum_lowerTerms x m.n u (m.nbh u) (hm.sorted u) (hm.bound u)]
    apply sum_congr rfl
    intro v _
    simp [T, Q]

/-- **`energy_adj_eq_eval`**: on a well-formed adjacency the lower-triangle loop is the dense polynomial of
    the coefficients `linear(u)`, `quadratic(u, v)`, `offset` -/
theorem energy_eq_evalR (m : QMB R) (hm : m.WF) (x : Nat → R) :
    m.energy x = evalR m.n m.off m.L m.T x := by
  rw [energy_eq_reported m x hm.len, reported_eq_evalR m hm x]

end QMB

end En
