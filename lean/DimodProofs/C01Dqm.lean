import DimodProofs.C01Labels

/-! # C01 — `cyDiscreteQuadraticModel.energies`: case-offset indexing with the range check -/

open Finset

namespace En
namespace Dqm

variable {R : Type} [CommRing R]

/-- index of the selected case of variable `u` in the case-level model: `case_starts_[u] + case_u` -/
def cs (d : Dqm R) (row : List Int) (u : Nat) : Nat := d.starts.getD u 0 + (row.getD u 0).toNat

theorem nbLoop_eq (d : Dqm R) (row : List Int) (u cu : Nat) (nbs : List Nat) (en : R) :
    nbLoop d row u cu nbs en
      = en + ((nbs.takeWhile (fun v => decide (v ≤ u))).map (fun v => d.caseQuad cu (d.cs row v))).sum := by
  induction nbs generalizing en with
  | nil => simp [nbLoop]
  | cons v t ih =>
    simp only [nbLoop]
    by_cases h : v > u
    · have h' : ¬ v ≤ u := by omega
      simp [h, h']
    · have h' : v ≤ u := by omega
      simp only [h, if_false, List.takeWhile_cons, h', decide_true, if_true, List.map_cons, List.sum_cons]
      rw [ih]; unfold cs; ring

/-- contribution of variable `u` as the loop computes it -/
def rowTerm (d : Dqm R) (row : List Int) (u : Nat) (nb : List Nat) : R :=
  d.caseLin (d.cs row u) + ((nb.takeWhile (fun v => decide (v ≤ u))).map (fun v => d.caseQuad (d.cs row u) (d.cs row v))).sum

/-- the cases named by `row` for variables `u0 … u0 + k - 1` are in range -/
def InRange (d : Dqm R) (row : List Int) (u0 k : Nat) : Prop :=
  ∀ i, i < k → 0 ≤ row.getD (u0 + i) 0 ∧ row.getD (u0 + i) 0 < (d.numCases (u0 + i) : Int)

theorem rowLoop_ok (d : Dqm R) (row : List Int) (u0 : Nat) (rest : List (List Nat)) (en : R)
    (h : d.InRange row u0 rest.length) :
    rowLoop d row u0 rest en = some (en + ∑ i ∈ range rest.length, d.rowTerm row (u0 + i) (rest.getD i [])) := by
  induction rest generalizing u0 en with
  | nil => simp [rowLoop]
  | cons nb rest ih =>
    have h0 := h 0 (by simp)
    simp only [Nat.add_zero] at h0
    have hcond : ¬ (row.getD u0 0 < 0 ∨ row.getD u0 0 ≥ (d.numCases u0 : Int)) := by omega
    simp only [rowLoop]
    rw [if_neg hcond]
    have h' : d.InRange row (u0 + 1) rest.length := by
      intro i hi
      have := h (i + 1) (by simp; omega)
      have e : u0 + (i + 1) = u0 + 1 + i := by omega
      rw [e] at this; exact this
    rw [ih (u0 + 1) _ h', nbLoop_eq]
    simp only [List.length_cons]
    rw [sum_range_succ']
    simp only [List.getD_cons_zero, List.getD_cons_succ, Nat.add_zero]
    have : ∀ i, u0 + 1 + i = u0 + (i + 1) := by intro i; omega
    simp only [this]
    unfold rowTerm cs
    ring_nf

theorem rowLoop_bad (d : Dqm R) (row : List Int) (u0 : Nat) (rest : List (List Nat)) (en : R)
    (h : ∃ i, i < rest.length ∧ (row.getD (u0 + i) 0 < 0 ∨ row.getD (u0 + i) 0 ≥ (d.numCases (u0 + i) : Int))) :
    rowLoop d row u0 rest en = none := by
  induction rest generalizing u0 en with
  | nil => obtain ⟨i, hi, _⟩ := h; simp at hi
  | cons nb rest ih =>
    simp only [rowLoop]
    by_cases hc : row.getD u0 0 < 0 ∨ row.getD u0 0 ≥ (d.numCases u0 : Int)
    · rw [if_pos hc]
    · rw [if_neg hc]
      apply ih
      obtain ⟨i, hi, hbad⟩ := h
      cases i with
      | zero => simp only [Nat.add_zero] at hbad; exact absurd hbad hc
      | succ i =>
        refine ⟨i, by simpa using hi, ?_⟩
        have e : u0 + (i + 1) = u0 + 1 + i := by omega
        rw [e] at hbad; exact hbad

/-- the invariant of the variable-level adjacency `adj_` relative to the case-level model -/
structure WF (d : Dqm R) : Prop where
  sorted : ∀ u, (d.adj.getD u []).Pairwise (· < ·)
  noSelf : ∀ u, u ∉ d.adj.getD u []
  /-- two variables that are not adjacent have no case interaction -/
  cover : ∀ u v cu cv, v < u → v ∉ d.adj.getD u [] → d.caseQuad cu cv = 0

theorem takeWhile_eq_filter (l : List Nat) (u : Nat) (hs : l.Pairwise (· < ·)) :
    l.takeWhile (fun v => decide (v ≤ u)) = l.filter (fun v => decide (v ≤ u)) := by
  induction l with
  | nil => rfl
  | cons a t ih =>
    have ht := (List.pairwise_cons.mp hs).2
    have ha := (List.pairwise_cons.mp hs).1
    by_cases h : a ≤ u
    · simp [List.takeWhile_cons, List.filter_cons, h, ih ht]
    · simp only [List.takeWhile_cons, List.filter_cons, h, decide_false, Bool.false_eq_true, if_false]
      symm
      apply List.filter_eq_nil_iff.mpr
      intro b hb
      have := ha b hb
      simp; omega

/-- under the invariant, the loop over the sorted neighbour list with `break` is the sum over all earlier variables -/
theorem rowTerm_eq (d : Dqm R) (hd : d.WF) (row : List Int) (u : Nat) :
    d.rowTerm row u (d.adj.getD u [])
      = d.caseLin (d.cs row u) + ∑ v ∈ range u, d.caseQuad (d.cs row u) (d.cs row v) := by
  unfold rowTerm
  congr 1
  rw [takeWhile_eq_filter _ u (hd.sorted u)]
  have hnd : ((d.adj.getD u []).filter (fun v => decide (v ≤ u))).Nodup :=
    List.Nodup.filter _ ((hd.sorted u).imp (fun h => Nat.ne_of_lt h))
  rw [← List.sum_toFinset _ hnd]
  apply sum_subset_zero_on_sdiff
  · intro v hv
    simp only [List.mem_toFinset, List.mem_filter, decide_eq_true_eq] at hv
    have : v ≠ u := fun e => hd.noSelf u (e ▸ hv.1)
    simp only [Finset.mem_range]; omega
  · intro v hv
    simp only [mem_sdiff, Finset.mem_range, List.mem_toFinset, List.mem_filter, decide_eq_true_eq, not_and] at hv
    apply hd.cover u v _ _ hv.1
    intro hmem
    exact hv.2 hmem (by omega)
  · intro v _; rfl

/-- `energy_dqm_eq_eval`: for cases in range the loop returns
    offset + Σ_u linear(u, case_u) + Σ_u Σ_{v<u} quadratic(u, case_u, v, case_v) -/
theorem rowLoop_eq_spec (d : Dqm R) (hd : d.WF) (row : List Int) (h : d.InRange row 0 d.numVariables) :
    rowLoop d row 0 d.adj d.off
      = some (d.off + ∑ u ∈ range d.numVariables,
          (d.caseLin (d.cs row u) + ∑ v ∈ range u, d.caseQuad (d.cs row u) (d.cs row v))) := by
  rw [rowLoop_ok d row 0 d.adj d.off h]
  congr 2
  apply sum_congr rfl
  intro u _
  simp only [Nat.zero_add]
  exact rowTerm_eq d hd row u

/-- `dqm_rejects_out_of_range`: a negative case or a case `≥ num_cases(u)` is rejected (`ValueError`) -/
theorem rowLoop_rejects (d : Dqm R) (row : List Int) (u : Nat) (hu : u < d.numVariables)
    (hbad : row.getD u 0 < 0 ∨ row.getD u 0 ≥ (d.numCases u : Int)) :
    rowLoop d row 0 d.adj d.off = none := by
  apply rowLoop_bad
  exact ⟨u, hu, by simpa using hbad⟩

theorem mapM_rejects (d : Dqm R) (samples : List (List Int)) (row : List Int) (hrow : row ∈ samples)
    (hr : rowLoop d row 0 d.adj d.off = none) :
    (samples.mapM fun row => match rowLoop d row 0 d.adj d.off with
        | some e => Except.ok e
        | none => Except.error Err.value) = .error .value := by
  induction samples with
  | nil => cases hrow
  | cons s rest ih =>
    rw [List.mapM_cons]
    rcases List.mem_cons.mp hrow with rfl | hmem
    · rw [hr]; rfl
    · cases hs : rowLoop d s 0 d.adj d.off with
      | none => rfl
      | some e =>
        rw [ih hmem]; rfl

theorem cyEnergies_rejects (d : Dqm R) (samples : List (List Int)) (row : List Int) (hrow : row ∈ samples)
    (u : Nat) (hu : u < d.numVariables)
    (hbad : row.getD u 0 < 0 ∨ row.getD u 0 ≥ (d.numCases u : Int)) :
    d.cyEnergies samples = .error .value := by
  unfold cyEnergies
  split
  · rfl
  · exact mapM_rejects d samples row hrow (rowLoop_rejects d row u hu hbad)

end Dqm
end En
