import DimodProofs.ReduceBK

/-! # C15: the index invariant of the coded bookkeeping (core Lean only)

`absIdx idx p` = what `idx[p]` holds (a missing key holds nothing).  The lemmas below describe the effect
of the primitive updates (`del idx[p]`, `idx[p][t] = b`, `_remove_old`) on `absIdx`; `bkStep_inv` shows
that one iteration of `while idx:` keeps

    for every pair {a, b}:  idx[{a, b}] lists exactly the current terms of degree > 2 containing a and b. -/

namespace Red
open Pen

/-! ## `pairEq` is an equivalence -/

theorem pairEq_iff (p q : Pair) : pairEq p q = true ↔ (p.1 = q.1 ∧ p.2 = q.2) ∨ (p.1 = q.2 ∧ p.2 = q.1) := by
  simp [pairEq]

theorem pairEq_refl (p : Pair) : pairEq p p = true := by rw [pairEq_iff]; exact Or.inl ⟨rfl, rfl⟩

theorem pairEq_symm' (p q : Pair) (h : pairEq p q = true) : pairEq q p = true := by
  rw [pairEq_iff] at h ⊢
  rcases h with ⟨a, b⟩ | ⟨a, b⟩
  · exact Or.inl ⟨a.symm, b.symm⟩
  · exact Or.inr ⟨b.symm, a.symm⟩

theorem pairEq_trans (p q r : Pair) (h1 : pairEq p q = true) (h2 : pairEq q r = true) : pairEq p r = true := by
  rw [pairEq_iff] at *
  rcases h1 with ⟨a, b⟩ | ⟨a, b⟩ <;> rcases h2 with ⟨c, d⟩ | ⟨c, d⟩
  · exact Or.inl ⟨a.trans c, b.trans d⟩
  · exact Or.inr ⟨a.trans c, b.trans d⟩
  · exact Or.inr ⟨a.trans d, b.trans c⟩
  · exact Or.inl ⟨a.trans d, b.trans c⟩

/-- matching an entry key against two equivalent keys gives the same answer -/
theorem pairEq_congr_right (e p q : Pair) (h : pairEq p q = true) : pairEq e p = pairEq e q := by
  cases h1 : pairEq e p with
  | true => exact (pairEq_trans e p q h1 h).symm
  | false =>
    cases h2 : pairEq e q with
    | false => rfl
    | true =>
      have := pairEq_trans e q p h2 (pairEq_symm' p q h)
      rw [h1] at this; cases this

theorem pairEq_false_of (e p q : Pair) (hep : pairEq e p = true) (hpq : pairEq p q = false) : pairEq e q = false := by
  cases h : pairEq e q with
  | false => rfl
  | true =>
    have := pairEq_trans p e q (pairEq_symm' e p hep) h
    rw [hpq] at this; cases this

/-! ## the index as a function -/

abbrev Idx := List (Pair × List (LTerm × Rat))

def absIdx (idx : Idx) (p : Pair) : List (LTerm × Rat) := (idxGet idx p).getD []

/-- keys are pairwise different `frozenset`s -/
def KeysOK (idx : Idx) : Prop := idx.Pairwise (fun e f => pairEq e.1 f.1 = false)

theorem idxGet_congr (idx : Idx) (p q : Pair) (h : pairEq p q = true) : idxGet idx p = idxGet idx q := by
  induction idx with
  | nil => rfl
  | cons e r ih => simp only [idxGet, pairEq_congr_right e.1 p q h, ih]

theorem idxGet_none_of_forall (idx : Idx) (p : Pair) (h : ∀ e ∈ idx, pairEq e.1 p = false) : idxGet idx p = none := by
  induction idx with
  | nil => rfl
  | cons e r ih =>
    simp only [idxGet, h e (by simp)]
    exact ih (fun e' he' => h e' (by simp [he']))

theorem idxGet_idxSet (idx : Idx) (p : Pair) (t : LTerm) (b : Rat) (q : Pair) :
    idxGet (idxSet idx p t b) q = if pairEq p q = true then some (setT t b (absIdx idx p)) else idxGet idx q := by
  induction idx with
  | nil =>
    simp only [idxSet, idxGet, absIdx, Option.getD, setT]
  | cons e r ih =>
    simp only [idxSet]
    by_cases hep : pairEq e.1 p = true
    · simp only [hep, if_true, idxGet, absIdx, Option.getD]
      by_cases hpq : pairEq p q = true
      · simp [hpq, pairEq_trans _ _ _ hep hpq]
      · have hpq' : pairEq p q = false := by simpa using hpq
        simp [hpq', pairEq_false_of e.1 p q hep hpq']
    · have hep' : pairEq e.1 p = false := by simpa using hep
      simp only [hep', Bool.false_eq_true, if_false, idxGet]
      by_cases heq : pairEq e.1 q = true
      · have hpq : pairEq p q = false := by
          cases h : pairEq p q with
          | false => rfl
          | true =>
            have := pairEq_trans e.1 q p heq (pairEq_symm' p q h)
            rw [hep'] at this; cases this
        simp [heq, hpq]
      · have heq' : pairEq e.1 q = false := by simpa using heq
        simp only [heq', Bool.false_eq_true, if_false, ih]
        simp only [absIdx, idxGet, hep', Bool.false_eq_true, if_false]

theorem idxGet_idxErase (idx : Idx) (hk : KeysOK idx) (p q : Pair) :
    idxGet (idxErase idx p) q = if pairEq p q = true then none else idxGet idx q := by
  induction idx with
  | nil => simp [idxErase, idxGet]
  | cons e r ih =>
    unfold KeysOK at hk
    simp only [List.pairwise_cons] at hk
    simp only [idxErase]
    by_cases hep : pairEq e.1 p = true
    · simp only [hep, if_true]
      by_cases hpq : pairEq p q = true
      · simp only [hpq, if_true]
        apply idxGet_none_of_forall
        intro e' he'
        have h1 := hk.1 e' he'
        cases h : pairEq e'.1 q with
        | false => rfl
        | true =>
          have : pairEq e.1 e'.1 = true :=
            pairEq_trans e.1 p e'.1 hep (pairEq_trans p q e'.1 hpq (pairEq_symm' _ _ h))
          rw [h1] at this; cases this
      · have hpq' : pairEq p q = false := by simpa using hpq
        simp [hpq', idxGet, pairEq_false_of e.1 p q hep hpq']
    · have hep' : pairEq e.1 p = false := by simpa using hep
      simp only [hep', Bool.false_eq_true, if_false, idxGet]
      by_cases heq : pairEq e.1 q = true
      · have hpq : pairEq p q = false := by
          cases h : pairEq p q with
          | false => rfl
          | true =>
            have := pairEq_trans e.1 q p heq (pairEq_symm' p q h)
            rw [hep'] at this; cases this
        simp [heq, hpq]
      · have heq' : pairEq e.1 q = false := by simpa using heq
        simp only [heq', Bool.false_eq_true, if_false]
        exact ih hk.2

theorem idxGet_idxPut (idx : Idx) (p : Pair) (m : List (LTerm × Rat)) (q : Pair) (hsome : (idxGet idx p).isSome = true) :
    idxGet (idxPut idx p m) q = if pairEq p q = true then some m else idxGet idx q := by
  induction idx with
  | nil => simp [idxGet] at hsome
  | cons e r ih =>
    simp only [idxPut]
    by_cases hep : pairEq e.1 p = true
    · simp only [hep, if_true, idxGet]
      by_cases hpq : pairEq p q = true
      · simp [hpq, pairEq_trans _ _ _ hep hpq]
      · have hpq' : pairEq p q = false := by simpa using hpq
        simp [hpq', pairEq_false_of e.1 p q hep hpq']
    · have hep' : pairEq e.1 p = false := by simpa using hep
      simp only [hep', Bool.false_eq_true, if_false, idxGet]
      simp only [idxGet, hep', Bool.false_eq_true, if_false] at hsome
      by_cases heq : pairEq e.1 q = true
      · have hpq : pairEq p q = false := by
          cases h : pairEq p q with
          | false => rfl
          | true =>
            have := pairEq_trans e.1 q p heq (pairEq_symm' p q h)
            rw [hep'] at this; cases this
        simp [heq, hpq]
      · have heq' : pairEq e.1 q = false := by simpa using heq
        simp only [heq', Bool.false_eq_true, if_false]
        exact ih hsome

/-! ### keys stay pairwise different -/

theorem keys_idxSet (idx : Idx) (p : Pair) (t : LTerm) (b : Rat) :
    ∀ e ∈ idxSet idx p t b, (∃ e' ∈ idx, e.1 = e'.1) ∨ (e.1 = p ∧ ∀ e' ∈ idx, pairEq e'.1 p = false) := by
  induction idx with
  | nil => intro e he; simp only [idxSet, List.mem_singleton] at he; subst he; exact Or.inr ⟨rfl, by simp⟩
  | cons a r ih =>
    intro e he
    simp only [idxSet] at he
    by_cases hap : pairEq a.1 p = true
    · simp only [hap, if_true, List.mem_cons] at he
      rcases he with rfl | he
      · exact Or.inl ⟨a, by simp, rfl⟩
      · exact Or.inl ⟨e, by simp [he], rfl⟩
    · have hap' : pairEq a.1 p = false := by simpa using hap
      simp only [hap', Bool.false_eq_true, if_false, List.mem_cons] at he
      rcases he with rfl | he
      · exact Or.inl ⟨e, by simp, rfl⟩
      · rcases ih e he with ⟨e', he', h⟩ | ⟨h1, h2⟩
        · exact Or.inl ⟨e', by simp [he'], h⟩
        · refine Or.inr ⟨h1, ?_⟩
          intro e' he'
          simp only [List.mem_cons] at he'
          rcases he' with rfl | he'
          · exact hap'
          · exact h2 e' he'

theorem keysOK_idxSet (idx : Idx) (hk : KeysOK idx) (p : Pair) (t : LTerm) (b : Rat) : KeysOK (idxSet idx p t b) := by
  induction idx with
  | nil => simp [idxSet, KeysOK]
  | cons a r ih =>
    unfold KeysOK at hk ⊢
    simp only [List.pairwise_cons] at hk
    simp only [idxSet]
    by_cases hap : pairEq a.1 p = true
    · simp only [hap, if_true, List.pairwise_cons]
      exact ⟨hk.1, hk.2⟩
    · have hap' : pairEq a.1 p = false := by simpa using hap
      simp only [hap', Bool.false_eq_true, if_false, List.pairwise_cons]
      refine ⟨?_, ih hk.2⟩
      intro e he
      rcases keys_idxSet r p t b e he with ⟨e', he', h⟩ | ⟨h1, _⟩
      · rw [h]; exact hk.1 e' he'
      · rw [h1]; exact hap'

theorem mem_idxErase (idx : Idx) (p : Pair) : ∀ e ∈ idxErase idx p, e ∈ idx := by
  induction idx with
  | nil => intro e he; simp [idxErase] at he
  | cons a r ih =>
    intro e he
    simp only [idxErase] at he
    split at he
    · simp [he]
    · simp only [List.mem_cons] at he ⊢
      rcases he with rfl | he
      · exact Or.inl rfl
      · exact Or.inr (ih e he)

theorem keysOK_idxErase (idx : Idx) (hk : KeysOK idx) (p : Pair) : KeysOK (idxErase idx p) := by
  induction idx with
  | nil => simp [idxErase, KeysOK]
  | cons a r ih =>
    unfold KeysOK at hk ⊢
    simp only [List.pairwise_cons] at hk
    simp only [idxErase]
    split
    · exact hk.2
    · simp only [List.pairwise_cons]
      exact ⟨fun e he => hk.1 e (mem_idxErase r p e he), ih hk.2⟩

theorem keys_idxPut (idx : Idx) (p : Pair) (m : List (LTerm × Rat)) : ∀ e ∈ idxPut idx p m, ∃ e' ∈ idx, e.1 = e'.1 := by
  induction idx with
  | nil => intro e he; simp [idxPut] at he
  | cons a r ih =>
    intro e he
    simp only [idxPut] at he
    split at he
    · simp only [List.mem_cons] at he
      rcases he with rfl | he
      · exact ⟨a, by simp, rfl⟩
      · exact ⟨e, by simp [he], rfl⟩
    · simp only [List.mem_cons] at he
      rcases he with rfl | he
      · exact ⟨e, by simp, rfl⟩
      · obtain ⟨e', he', h⟩ := ih e he
        exact ⟨e', by simp [he'], h⟩

theorem keysOK_idxPut (idx : Idx) (hk : KeysOK idx) (p : Pair) (m : List (LTerm × Rat)) : KeysOK (idxPut idx p m) := by
  induction idx with
  | nil => simp [idxPut, KeysOK]
  | cons a r ih =>
    unfold KeysOK at hk ⊢
    simp only [List.pairwise_cons] at hk
    simp only [idxPut]
    split
    · simp only [List.pairwise_cons]; exact hk
    · simp only [List.pairwise_cons]
      refine ⟨?_, ih hk.2⟩
      intro e he
      obtain ⟨e', he', h⟩ := keys_idxPut r p m e he
      rw [h]; exact hk.1 e' he'

/-! ## inner dicts: `sameSet` is set equality -/

theorem subset_iff (a b : LTerm) : subset a b = true ↔ ∀ v ∈ a, v ∈ b := by
  simp [subset, List.all_eq_true]

theorem sameSet_iff (a b : LTerm) : sameSet a b = true ↔ ∀ v, v ∈ a ↔ v ∈ b := by
  simp only [sameSet, Bool.and_eq_true, subset_iff]
  constructor
  · rintro ⟨h1, h2⟩ v; exact ⟨h1 v, h2 v⟩
  · intro h; exact ⟨fun v hv => (h v).1 hv, fun v hv => (h v).2 hv⟩

theorem sameSet_refl (a : LTerm) : sameSet a a = true := (sameSet_iff a a).2 (fun _ => Iff.rfl)

theorem sameSet_symm (a b : LTerm) (h : sameSet a b = true) : sameSet b a = true :=
  (sameSet_iff b a).2 (fun v => ((sameSet_iff a b).1 h v).symm)

theorem sameSet_trans (a b c : LTerm) (h1 : sameSet a b = true) (h2 : sameSet b c = true) : sameSet a c = true :=
  (sameSet_iff a c).2 (fun v => ((sameSet_iff a b).1 h1 v).trans ((sameSet_iff b c).1 h2 v))

/-- entries of an inner dict are pairwise different `frozenset`s -/
def InnerOK (m : List (LTerm × Rat)) : Prop := m.Pairwise (fun e f => sameSet e.1 f.1 = false)

theorem innerOK_nodup (m : List (LTerm × Rat)) (h : InnerOK m) : m.Nodup := by
  unfold InnerOK at h
  induction m with
  | nil => simp
  | cons e r ih =>
    simp only [List.pairwise_cons] at h
    simp only [List.nodup_cons]
    refine ⟨?_, ih h.2⟩
    intro hmem
    have := h.1 e hmem
    rw [sameSet_refl] at this; cases this

theorem setT_fresh (t : LTerm) (b : Rat) (m : List (LTerm × Rat)) (h : ∀ e ∈ m, sameSet e.1 t = false) :
    setT t b m = m ++ [(t, b)] := by
  induction m with
  | nil => rfl
  | cons e r ih =>
    simp only [setT, h e (by simp), Bool.false_eq_true, if_false, List.cons_append]
    rw [ih (fun e' he' => h e' (by simp [he']))]

theorem mem_delT (t : LTerm) (m : List (LTerm × Rat)) (hm : InnerOK m) (tb : LTerm × Rat) :
    tb ∈ delT t m ↔ tb ∈ m ∧ sameSet tb.1 t = false := by
  induction m with
  | nil => simp [delT]
  | cons e r ih =>
    unfold InnerOK at hm
    simp only [List.pairwise_cons] at hm
    simp only [delT]
    by_cases het : sameSet e.1 t = true
    · simp only [het, if_true, List.mem_cons]
      constructor
      · intro h
        refine ⟨Or.inr h, ?_⟩
        have := hm.1 tb h
        cases hs : sameSet tb.1 t with
        | false => rfl
        | true =>
          have := sameSet_trans e.1 t tb.1 het (sameSet_symm _ _ hs)
          rw [hm.1 tb h] at this; cases this
      · rintro ⟨h | h, hs⟩
        · subst h; rw [het] at hs; cases hs
        · exact h
    · have het' : sameSet e.1 t = false := by simpa using het
      simp only [het', Bool.false_eq_true, if_false, List.mem_cons, ih hm.2]
      constructor
      · rintro (h | ⟨h, hs⟩)
        · subst h; exact ⟨Or.inl rfl, het'⟩
        · exact ⟨Or.inr h, hs⟩
      · rintro ⟨h | h, hs⟩
        · exact Or.inl h
        · exact Or.inr ⟨h, hs⟩

theorem innerOK_delT (t : LTerm) (m : List (LTerm × Rat)) (hm : InnerOK m) : InnerOK (delT t m) := by
  induction m with
  | nil => simp [delT, InnerOK]
  | cons e r ih =>
    unfold InnerOK at hm ⊢
    simp only [List.pairwise_cons] at hm
    simp only [delT]
    split
    · exact hm.2
    · simp only [List.pairwise_cons]
      refine ⟨?_, ih hm.2⟩
      intro e' he'
      have : e' ∈ r := by
        have := (mem_delT t r hm.2 e').1 he'
        exact this.1
      exact hm.1 e' this

theorem innerOK_append_fresh (m : List (LTerm × Rat)) (hm : InnerOK m) (t : LTerm) (b : Rat) (h : ∀ e ∈ m, sameSet e.1 t = false) :
    InnerOK (m ++ [(t, b)]) := by
  unfold InnerOK at hm ⊢
  rw [List.pairwise_append]
  refine ⟨hm, by simp, ?_⟩
  intro e he f hf
  simp only [List.mem_singleton] at hf
  subst hf
  exact h e he

/-! ## effect of the primitive updates on `absIdx` -/

def IdxWF (idx : Idx) : Prop := KeysOK idx ∧ ∀ e ∈ idx, InnerOK e.2

theorem absIdx_congr (idx : Idx) (p q : Pair) (h : pairEq p q = true) : absIdx idx p = absIdx idx q := by
  unfold absIdx; rw [idxGet_congr idx p q h]

theorem idxGet_mem (idx : Idx) (p : Pair) (m : List (LTerm × Rat)) (h : idxGet idx p = some m) : ∃ e ∈ idx, e.2 = m ∧ pairEq e.1 p = true := by
  induction idx with
  | nil => simp [idxGet] at h
  | cons e r ih =>
    simp only [idxGet] at h
    split at h
    · rename_i hp
      simp only [Option.some.injEq] at h
      exact ⟨e, by simp, h, hp⟩
    · obtain ⟨e', he', h1, h2⟩ := ih h
      exact ⟨e', by simp [he'], h1, h2⟩

theorem innerOK_absIdx (idx : Idx) (hwf : IdxWF idx) (p : Pair) : InnerOK (absIdx idx p) := by
  unfold absIdx
  cases h : idxGet idx p with
  | none => simp [InnerOK]
  | some m =>
    obtain ⟨e, he, h1, _⟩ := idxGet_mem idx p m h
    simp only [Option.getD]
    rw [← h1]; exact hwf.2 e he

theorem absIdx_idxSet (idx : Idx) (p : Pair) (t : LTerm) (b : Rat) (q : Pair) :
    absIdx (idxSet idx p t b) q = if pairEq p q = true then setT t b (absIdx idx p) else absIdx idx q := by
  unfold absIdx
  rw [idxGet_idxSet]
  split <;> rfl

theorem absIdx_idxErase (idx : Idx) (hk : KeysOK idx) (p q : Pair) :
    absIdx (idxErase idx p) q = if pairEq p q = true then [] else absIdx idx q := by
  unfold absIdx
  rw [idxGet_idxErase idx hk]
  split <;> rfl

theorem absIdx_idxPut (idx : Idx) (p : Pair) (m : List (LTerm × Rat)) (q : Pair) (hsome : (idxGet idx p).isSome = true) :
    absIdx (idxPut idx p m) q = if pairEq p q = true then m else absIdx idx q := by
  unfold absIdx
  rw [idxGet_idxPut idx p m q hsome]
  split <;> rfl

theorem mem_idxSet (idx : Idx) (p : Pair) (t : LTerm) (b : Rat) :
    ∀ e ∈ idxSet idx p t b, e ∈ idx ∨ e.2 = setT t b (absIdx idx p) := by
  induction idx with
  | nil => intro e he; simp only [idxSet, List.mem_singleton] at he; subst he; right; rfl
  | cons a r ih =>
    intro e he
    simp only [idxSet] at he
    by_cases hap : pairEq a.1 p = true
    · simp only [hap, if_true, List.mem_cons] at he
      rcases he with rfl | he
      · right; simp [absIdx, idxGet, hap]
      · left; simp [he]
    · have hap' : pairEq a.1 p = false := by simpa using hap
      simp only [hap', Bool.false_eq_true, if_false, List.mem_cons] at he
      rcases he with rfl | he
      · left; simp
      · rcases ih e he with h | h
        · left; simp [h]
        · right; rw [h]; simp [absIdx, idxGet, hap']

theorem idxWF_idxSet (idx : Idx) (hwf : IdxWF idx) (p : Pair) (t : LTerm) (b : Rat)
    (hfresh : ∀ e ∈ absIdx idx p, sameSet e.1 t = false) : IdxWF (idxSet idx p t b) := by
  refine ⟨keysOK_idxSet idx hwf.1 p t b, ?_⟩
  intro e he
  rcases mem_idxSet idx p t b e he with h | h
  · exact hwf.2 e h
  · rw [h, setT_fresh t b _ hfresh]
    exact innerOK_append_fresh _ (innerOK_absIdx idx hwf p) t b hfresh

theorem mem_idxPut (idx : Idx) (p : Pair) (m : List (LTerm × Rat)) : ∀ e ∈ idxPut idx p m, e ∈ idx ∨ e.2 = m := by
  induction idx with
  | nil => intro e he; simp [idxPut] at he
  | cons a r ih =>
    intro e he
    simp only [idxPut] at he
    split at he
    · simp only [List.mem_cons] at he
      rcases he with rfl | he
      · right; rfl
      · left; simp [he]
    · simp only [List.mem_cons] at he
      rcases he with rfl | he
      · left; simp
      · rcases ih e he with h | h
        · left; simp [h]
        · right; exact h

/-- `_remove_old(idx, t, p)`: when it does not raise, `t` was in `idx[p]` and is removed from it; nothing else changes -/
theorem removeOld_spec (s : BK) (t : LTerm) (p : Pair) (s' : BK) (h : removeOld s t p = some s') (hwf : IdxWF s.idx) :
    IdxWF s'.idx ∧ s'.que = s.que ∧
    ∀ q, absIdx s'.idx q = if pairEq p q = true then delT t (absIdx s.idx p) else absIdx s.idx q := by
  unfold removeOld at h
  cases hi : idxGet s.idx p with
  | none => rw [hi] at h; simp at h
  | some m =>
    rw [hi] at h
    simp only at h
    have habs : absIdx s.idx p = m := by unfold absIdx; rw [hi]; rfl
    have hm : InnerOK m := by rw [← habs]; exact innerOK_absIdx s.idx hwf p
    split at h
    · simp only [Option.some.injEq] at h
      subst h
      simp only
      by_cases hemp : (delT t m).isEmpty = true
      · rw [if_pos hemp]
        have hnil : delT t m = [] := by simpa using hemp
        refine ⟨⟨keysOK_idxErase s.idx hwf.1 p, fun e he => hwf.2 e (mem_idxErase s.idx p e he)⟩, trivial, ?_⟩
        intro q
        rw [absIdx_idxErase s.idx hwf.1, habs, hnil]
      · rw [if_neg hemp]
        refine ⟨⟨keysOK_idxPut s.idx hwf.1 p _, ?_⟩, trivial, ?_⟩
        · intro e he
          rcases mem_idxPut s.idx p _ e he with h1 | h1
          · exact hwf.2 e h1
          · rw [h1]; exact innerOK_delT t m hm
        · intro q
          rw [absIdx_idxPut s.idx p _ q (by rw [hi]; rfl), habs]
    · simp at h

theorem decrementCount_idx (s : BK) (p : Pair) (s' : BK) (h : decrementCount s p = some s') : s'.idx = s.idx := by
  unfold decrementCount at h
  cases hi : idxGet s.idx p with
  | none => rw [hi] at h; simp at h
  | some m =>
    rw [hi] at h
    simp only at h
    cases hq : queRemove s.que m.length p with
    | none => rw [hq] at h; simp at h
    | some q => rw [hq] at h; simp only [Option.some.injEq] at h; subst h; rfl

/-! ## the three loops of `for old_term, bias in terms.items()` -/

theorem mem_absIdx_removeOld (s : BK) (t : LTerm) (p : Pair) (s' : BK) (h : removeOld s t p = some s') (hwf : IdxWF s.idx)
    (q : Pair) (tb : LTerm × Rat) :
    tb ∈ absIdx s'.idx q ↔ (tb ∈ absIdx s.idx q ∧ ¬ (pairEq p q = true ∧ sameSet tb.1 t = true)) := by
  obtain ⟨_, _, hq⟩ := removeOld_spec s t p s' h hwf
  rw [hq q]
  by_cases hpq : pairEq p q = true
  · rw [if_pos hpq, mem_delT t _ (innerOK_absIdx s.idx hwf p), absIdx_congr s.idx p q hpq]
    constructor
    · rintro ⟨h1, h2⟩; exact ⟨h1, fun ⟨_, h3⟩ => by rw [h2] at h3; cases h3⟩
    · rintro ⟨h1, h2⟩
      refine ⟨h1, ?_⟩
      cases hs : sameSet tb.1 t with
      | false => rfl
      | true => exact absurd ⟨hpq, hs⟩ h2
  · rw [if_neg hpq]
    constructor
    · intro h1; exact ⟨h1, fun ⟨h3, _⟩ => hpq h3⟩
    · rintro ⟨h1, _⟩; exact h1

/-- loop 1: `_decrement_count; _remove_old` for the pairs `L` -/
theorem fold_decRem (t : LTerm) (L : List Pair) (s s' : BK) (h : L.foldlM (decRem t) s = some s') (hwf : IdxWF s.idx) :
    IdxWF s'.idx ∧ ∀ q tb, tb ∈ absIdx s'.idx q ↔
      (tb ∈ absIdx s.idx q ∧ ¬ (L.any (fun p => pairEq p q) = true ∧ sameSet tb.1 t = true)) := by
  induction L generalizing s with
  | nil =>
    simp only [List.foldlM_nil, pure, Option.some.injEq] at h
    subst h
    exact ⟨hwf, fun q tb => by simp⟩
  | cons p r ih =>
    simp only [List.foldlM_cons, bind, Option.bind] at h
    cases hd : decRem t s p with
    | none => rw [hd] at h; simp at h
    | some s1 =>
      rw [hd] at h
      unfold decRem at hd
      cases hdc : decrementCount s p with
      | none => rw [hdc] at hd; simp at hd
      | some s0 =>
        rw [hdc] at hd
        simp only [Option.bind] at hd
        have hidx0 : s0.idx = s.idx := decrementCount_idx s p s0 hdc
        have hwf0 : IdxWF s0.idx := by rw [hidx0]; exact hwf
        have hwf1 : IdxWF s1.idx := (removeOld_spec s0 t p s1 hd hwf0).1
        obtain ⟨hwf', hq'⟩ := ih s1 h hwf1
        refine ⟨hwf', ?_⟩
        intro q tb
        rw [hq' q tb, mem_absIdx_removeOld s0 t p s1 hd hwf0 q tb, hidx0]
        simp only [List.any_cons, Bool.or_eq_true]
        constructor
        · rintro ⟨⟨h1, h2⟩, h3⟩
          refine ⟨h1, ?_⟩
          rintro ⟨h4 | h4, h5⟩
          · exact h2 ⟨h4, h5⟩
          · exact h3 ⟨h4, h5⟩
        · rintro ⟨h1, h2⟩
          exact ⟨⟨h1, fun ⟨h4, h5⟩ => h2 ⟨Or.inl h4, h5⟩⟩, fun ⟨h4, h5⟩ => h2 ⟨Or.inr h4, h5⟩⟩

/-- `idx[p][nt] = b` for the pairwise different pairs `L`, `nt` not yet present under these keys -/
theorem fold_idxSet (nt : LTerm) (b : Rat) (L : List Pair) (idx : Idx) (hwf : IdxWF idx)
    (hL : L.Pairwise (fun p p' => pairEq p p' = false))
    (hfresh : ∀ p ∈ L, ∀ e ∈ absIdx idx p, sameSet e.1 nt = false) :
    IdxWF (L.foldl (fun i p => idxSet i p nt b) idx) ∧
    ∀ q tb, tb ∈ absIdx (L.foldl (fun i p => idxSet i p nt b) idx) q ↔
      (tb ∈ absIdx idx q ∨ (L.any (fun p => pairEq p q) = true ∧ tb = (nt, b))) := by
  induction L generalizing idx with
  | nil => exact ⟨hwf, fun q tb => by simp⟩
  | cons p r ih =>
    simp only [List.pairwise_cons] at hL
    simp only [List.foldl_cons]
    have hfp := hfresh p (by simp)
    have hwf1 := idxWF_idxSet idx hwf p nt b hfp
    have habs1 : ∀ q, absIdx (idxSet idx p nt b) q = if pairEq p q = true then absIdx idx p ++ [(nt, b)] else absIdx idx q := by
      intro q; rw [absIdx_idxSet, setT_fresh nt b _ hfp]
    obtain ⟨hwf', hq'⟩ := ih (idxSet idx p nt b) hwf1 hL.2 (by
      intro p' hp' e he
      rw [habs1 p', if_neg (by rw [hL.1 p' hp']; simp)] at he
      exact hfresh p' (by simp [hp']) e he)
    refine ⟨hwf', ?_⟩
    intro q tb
    rw [hq' q tb, habs1 q]
    simp only [List.any_cons, Bool.or_eq_true]
    by_cases hpq : pairEq p q = true
    · rw [if_pos hpq, List.mem_append, List.mem_singleton, absIdx_congr idx p q hpq]
      constructor
      · rintro ((h1 | h1) | ⟨_, h2⟩)
        · exact Or.inl h1
        · exact Or.inr ⟨Or.inl hpq, h1⟩
        · exact Or.inr ⟨Or.inl hpq, h2⟩
      · rintro (h1 | ⟨_, h2⟩)
        · exact Or.inl (Or.inl h1)
        · exact Or.inl (Or.inr h2)
    · rw [if_neg hpq]
      constructor
      · rintro (h1 | ⟨h1, h2⟩)
        · exact Or.inl h1
        · exact Or.inr ⟨Or.inr h1, h2⟩
      · rintro (h1 | ⟨h1 | h1, h2⟩)
        · exact Or.inl h1
        · exact absurd h1 hpq
        · exact Or.inr ⟨h1, h2⟩

/-- loop 2: `idx[cp][nt] = b; _remove_old(idx, t, cp)` for the pairwise different pairs `L` -/
theorem fold_setRem (nt : LTerm) (b : Rat) (t : LTerm) (hnt : sameSet nt t = false) (L : List Pair) (s s' : BK)
    (h : L.foldlM (setRem nt b t) s = some s') (hwf : IdxWF s.idx)
    (hL : L.Pairwise (fun p p' => pairEq p p' = false))
    (hfresh : ∀ p ∈ L, ∀ e ∈ absIdx s.idx p, sameSet e.1 nt = false) :
    IdxWF s'.idx ∧ ∀ q tb, tb ∈ absIdx s'.idx q ↔
      ((tb ∈ absIdx s.idx q ∧ ¬ (L.any (fun p => pairEq p q) = true ∧ sameSet tb.1 t = true))
        ∨ (L.any (fun p => pairEq p q) = true ∧ tb = (nt, b))) := by
  induction L generalizing s with
  | nil =>
    simp only [List.foldlM_nil, pure, Option.some.injEq] at h
    subst h
    exact ⟨hwf, fun q tb => by simp⟩
  | cons p r ih =>
    simp only [List.pairwise_cons] at hL
    simp only [List.foldlM_cons, bind, Option.bind] at h
    cases hd : setRem nt b t s p with
    | none => rw [hd] at h; simp at h
    | some s1 =>
      rw [hd] at h
      unfold setRem at hd
      have hfp := hfresh p (by simp)
      have hwfm : IdxWF (idxSet s.idx p nt b) := idxWF_idxSet s.idx hwf p nt b hfp
      have habsm : ∀ q, absIdx (idxSet s.idx p nt b) q = if pairEq p q = true then absIdx s.idx p ++ [(nt, b)] else absIdx s.idx q := by
        intro q; rw [absIdx_idxSet, setT_fresh nt b _ hfp]
      have hrem := mem_absIdx_removeOld { s with idx := idxSet s.idx p nt b } t p s1 hd hwfm
      have hwf1 : IdxWF s1.idx := (removeOld_spec _ t p s1 hd hwfm).1
      have h1mem : ∀ q tb, tb ∈ absIdx s1.idx q ↔
          ((tb ∈ absIdx s.idx q ∧ ¬ (pairEq p q = true ∧ sameSet tb.1 t = true)) ∨ (pairEq p q = true ∧ tb = (nt, b))) := by
        intro q tb
        rw [hrem q tb]
        simp only
        rw [habsm q]
        by_cases hpq : pairEq p q = true
        · rw [if_pos hpq, List.mem_append, List.mem_singleton, absIdx_congr s.idx p q hpq]
          constructor
          · rintro ⟨h1 | h1, h2⟩
            · exact Or.inl ⟨h1, h2⟩
            · exact Or.inr ⟨hpq, h1⟩
          · rintro (⟨h1, h2⟩ | ⟨_, h2⟩)
            · exact ⟨Or.inl h1, h2⟩
            · refine ⟨Or.inr h2, ?_⟩
              rintro ⟨_, h3⟩
              rw [h2] at h3; simp only at h3; rw [hnt] at h3; cases h3
        · rw [if_neg hpq]
          constructor
          · rintro ⟨h1, _⟩; exact Or.inl ⟨h1, fun ⟨h3, _⟩ => hpq h3⟩
          · rintro (⟨h1, _⟩ | ⟨h1, _⟩)
            · exact ⟨h1, fun ⟨h3, _⟩ => hpq h3⟩
            · exact absurd h1 hpq
      obtain ⟨hwf', hq'⟩ := ih s1 h hwf1 hL.2 (by
        intro p' hp' e he
        have hne : ¬ pairEq p p' = true := by rw [hL.1 p' hp']; simp
        rcases (h1mem p' e).1 he with ⟨h1, _⟩ | ⟨h1, _⟩
        · exact hfresh p' (by simp [hp']) e h1
        · exact absurd h1 hne)
      refine ⟨hwf', ?_⟩
      intro q tb
      rw [hq' q tb, h1mem q tb]
      simp only [List.any_cons, Bool.or_eq_true]
      constructor
      · rintro (⟨(⟨h1, h2⟩ | ⟨h1, h2⟩), h3⟩ | ⟨h1, h2⟩)
        · left; refine ⟨h1, ?_⟩
          rintro ⟨h4 | h4, h5⟩
          · exact h2 ⟨h4, h5⟩
          · exact h3 ⟨h4, h5⟩
        · right; exact ⟨Or.inl h1, h2⟩
        · right; exact ⟨Or.inr h1, h2⟩
      · rintro (⟨h1, h2⟩ | ⟨h1 | h1, h2⟩)
        · left; exact ⟨Or.inl ⟨h1, fun ⟨h4, h5⟩ => h2 ⟨Or.inl h4, h5⟩⟩, fun ⟨h4, h5⟩ => h2 ⟨Or.inr h4, h5⟩⟩
        · by_cases hr : r.any (fun p => pairEq p q) = true
          · right; exact ⟨hr, h2⟩
          · left; refine ⟨Or.inr ⟨h1, h2⟩, fun ⟨h4, _⟩ => hr h4⟩
        · right; exact ⟨h1, h2⟩

/-! ## pairs of a duplicate-free list -/

theorem mem_pairsLt (l : List Label) (p : Pair) (h : p ∈ pairsLt l) : p.1 ∈ l ∧ p.2 ∈ l := by
  induction l with
  | nil => simp [pairsLt] at h
  | cons a r ih =>
    simp only [pairsLt, List.mem_append, List.mem_map] at h
    rcases h with ⟨b, hb, rfl⟩ | h
    · exact ⟨by simp, by simp [hb]⟩
    · have := ih h; exact ⟨by simp [this.1], by simp [this.2]⟩

theorem pairsLt_ne (l : List Label) (hnd : l.Nodup) (p : Pair) (h : p ∈ pairsLt l) : p.1 ≠ p.2 := by
  induction l with
  | nil => simp [pairsLt] at h
  | cons a r ih =>
    simp only [List.nodup_cons] at hnd
    simp only [pairsLt, List.mem_append, List.mem_map] at h
    rcases h with ⟨b, hb, rfl⟩ | h
    · intro heq; simp only at heq; subst heq; exact hnd.1 hb
    · exact ih hnd.2 h

theorem pairsLt_any (l : List Label) (a b : Label) (ha : a ∈ l) (hb : b ∈ l) (hab : a ≠ b) :
    (pairsLt l).any (fun p => pairEq p (a, b)) = true := by
  induction l with
  | nil => simp at ha
  | cons c r ih =>
    simp only [pairsLt, List.any_append, Bool.or_eq_true, List.any_map, List.any_eq_true, Function.comp]
    simp only [List.mem_cons] at ha hb
    rcases ha with rfl | ha
    · rcases hb with rfl | hb
      · exact absurd rfl hab
      · left; exact ⟨b, hb, by simp [pairEq]⟩
    · rcases hb with rfl | hb
      · left; exact ⟨a, ha, by simp [pairEq]⟩
      · right
        have := ih ha hb
        simpa [List.any_eq_true] using this

theorem pairsLt_pairwise (l : List Label) (hnd : l.Nodup) : (pairsLt l).Pairwise (fun p p' => pairEq p p' = false) := by
  induction l with
  | nil => simp [pairsLt]
  | cons a r ih =>
    simp only [List.nodup_cons] at hnd
    simp only [pairsLt]
    rw [List.pairwise_append]
    refine ⟨?_, ih hnd.2, ?_⟩
    · rw [List.pairwise_map]
      have : r.Pairwise (fun x y => x ≠ y) := hnd.2
      refine this.imp_of_mem ?_
      intro x y hx hy hxy
      cases h : pairEq (a, x) (a, y) with
      | false => rfl
      | true =>
        rw [pairEq_iff] at h
        rcases h with ⟨_, h2⟩ | ⟨h1, _⟩
        · exact absurd h2 hxy
        · simp only at h1; subst h1; exact absurd hy hnd.1
    · intro p hp p' hp'
      simp only [List.mem_map] at hp
      obtain ⟨x, hx, rfl⟩ := hp
      have hm := mem_pairsLt r p' hp'
      cases h : pairEq (a, x) p' with
      | false => rfl
      | true =>
        rw [pairEq_iff] at h
        rcases h with ⟨h1, _⟩ | ⟨h1, _⟩
        · simp only at h1; rw [h1] at hnd; exact absurd hm.1 hnd.1
        · simp only at h1; rw [h1] at hnd; exact absurd hm.2 hnd.1

/-- the pairs `(a, c)`, `c ∈ l`, for a fixed `a ∉ l`, are pairwise different -/
theorem mapPair_pairwise (a : Label) (l : List Label) (hnd : l.Nodup) (ha : a ∉ l) :
    (l.map (fun c => (a, c))).Pairwise (fun p p' => pairEq p p' = false) := by
  rw [List.pairwise_map]
  have : l.Pairwise (fun x y => x ≠ y) := hnd
  refine this.imp_of_mem ?_
  intro x y hx hy hxy
  cases h : pairEq (a, x) (a, y) with
  | false => rfl
  | true =>
    rw [pairEq_iff] at h
    rcases h with ⟨_, h2⟩ | ⟨h1, _⟩
    · exact absurd h2 hxy
    · simp only at h1; subst h1; exact absurd hy ha

/-! ## the invariant through one `old_term` -/

/-- terms are duplicate-free lists and pairwise different sets -/
def TermsOK (cur : List (LTerm × Rat)) : Prop :=
  (∀ tb ∈ cur, tb.1.Nodup) ∧ cur.Pairwise (fun a b => sameSet a.1 b.1 = false)

/-- `idx[{a, b}]` lists exactly the terms of `cur` containing `a` and `b` (nothing for the excluded pair) -/
def IdxInv (idx : Idx) (cur : List (LTerm × Rat)) (ex : Pair → Bool) : Prop :=
  ∀ a b, a ≠ b → ∀ tb, tb ∈ absIdx idx (a, b) ↔ (ex (a, b) = false ∧ tb ∈ cur ∧ hasPair a b tb.1 = true)

/-- the term list after `old_term` has been rewritten -/
def procTerm (u v prod : Label) (cur : List (LTerm × Rat)) (tb : LTerm × Rat) : List (LTerm × Rat) :=
  cur.filter (fun tb' => !sameSet tb'.1 tb.1)
  ++ (if (substTerm u v prod tb.1).length > 2 then [(substTerm u v prod tb.1, tb.2)] else [])

theorem addNew_idx (nt : LTerm) (b : Rat) (prod : Label) (l : List Label) (acc : BK × List Pair) :
    (l.foldl (addNew nt b prod) acc).1.idx = (l.map (fun c => (prod, c))).foldl (fun i p => idxSet i p nt b) acc.1.idx := by
  induction l generalizing acc with
  | nil => rfl
  | cons c r ih => simp only [List.foldl_cons, List.map_cons]; rw [ih]; rfl

theorem any_map_pair (a : Label) (l : List Label) (q : Pair) :
    (l.map (fun c => (a, c))).any (fun p => pairEq p q) = true ↔ ∃ c ∈ l, pairEq (a, c) q = true := by
  simp [List.any_eq_true]

theorem hasPair_iff' (a b : Label) (t : LTerm) : hasPair a b t = true ↔ a ∈ t ∧ b ∈ t := by simp [hasPair]

theorem mem_of_sameSet (t t' : LTerm) (h : sameSet t' t = true) (a : Label) : a ∈ t' ↔ a ∈ t := (sameSet_iff t' t).1 h a

theorem bkTerm_inv (u v prod : Label) (huv : u ≠ v) (hpu : prod ≠ u) (hpv : prod ≠ v)
    (acc : BK × List Pair) (tb : LTerm × Rat) (acc' : BK × List Pair) (h : bkTerm u v prod acc tb = some acc')
    (cur : List (LTerm × Rat)) (hwf : IdxWF acc.1.idx) (hinv : IdxInv acc.1.idx cur (fun q => pairEq (u, v) q))
    (hnd : tb.1.Nodup) (hu : u ∈ tb.1) (hv : v ∈ tb.1) (hprod : prod ∉ tb.1)
    (hfresh : ∀ tb' ∈ cur, sameSet tb'.1 (substTerm u v prod tb.1) = false) :
    IdxWF acc'.1.idx ∧ IdxInv acc'.1.idx (procTerm u v prod cur tb) (fun q => pairEq (u, v) q) := by
  -- names
  have hcommon_def : substTerm u v prod tb.1 = tb.1.filter (fun w => w ≠ u ∧ w ≠ v) ++ [prod] := rfl
  generalize hc : tb.1.filter (fun w => decide (w ≠ u ∧ w ≠ v)) = common at *
  have hcm : ∀ c, c ∈ common ↔ (c ∈ tb.1 ∧ c ≠ u ∧ c ≠ v) := by
    intro c; rw [← hc]; simp [List.mem_filter]
  have hcnd : common.Nodup := by rw [← hc]; exact hnd.filter _
  have hpc : prod ∉ common := fun hm => hprod ((hcm prod).1 hm).1
  have huc : u ∉ common := fun hm => ((hcm u).1 hm).2.1 rfl
  have hvc : v ∉ common := fun hm => ((hcm v).1 hm).2.2 rfl
  have hnt_mem : ∀ a, a ∈ common ++ [prod] ↔ (a ∈ common ∨ a = prod) := by intro a; simp
  have hnt_t : sameSet (common ++ [prod]) tb.1 = false := by
    cases hs : sameSet (common ++ [prod]) tb.1 with
    | false => rfl
    | true => exact absurd ((mem_of_sameSet _ _ hs prod).1 (by simp)) hprod
  have hfresh' : ∀ tb' ∈ cur, sameSet tb'.1 (common ++ [prod]) = false := by
    intro tb' h'; rw [← hcommon_def]; exact hfresh tb' h'
  -- entries of the index are terms of `cur`
  have hentries : ∀ p : Pair, p.1 ≠ p.2 → ∀ e ∈ absIdx acc.1.idx p, sameSet e.1 (common ++ [prod]) = false := by
    intro p hp e he
    have := (hinv p.1 p.2 hp e).1 he
    exact hfresh' e this.2.1
  unfold bkTerm at h
  simp only [hc] at h
  split at h
  · simp at h
  · rename_i s1 h1
    split at h
    · simp at h
    · rename_i s2 h2
      -- loop 1
      obtain ⟨hwf1, hm1⟩ := fold_decRem tb.1 _ acc.1 s1 h1 hwf
      -- loop 2
      have hL2 := pairsLt_pairwise common hcnd
      obtain ⟨hwf2, hm2⟩ := fold_setRem (common ++ [prod]) tb.2 tb.1 hnt_t (pairsOf common) s1 s2 h2 hwf1 hL2 (by
        intro p hp e he
        have hne := pairsLt_ne common hcnd p hp
        exact hentries p hne e ((hm1 p e).1 he).1)
      -- membership of a pair in the two pair lists
      have hL1any : ∀ q : Pair, (([u, v].flatMap (fun a => common.map (fun c => (a, c)))).any (fun p => pairEq p q) = true)
          ↔ (∃ c ∈ common, pairEq (u, c) q = true ∨ pairEq (v, c) q = true) := by
        intro q
        simp only [List.flatMap_cons, List.flatMap_nil, List.append_nil, List.any_append, Bool.or_eq_true, any_map_pair]
        constructor
        · rintro (⟨c, hc', h'⟩ | ⟨c, hc', h'⟩)
          · exact ⟨c, hc', Or.inl h'⟩
          · exact ⟨c, hc', Or.inr h'⟩
        · rintro ⟨c, hc', h' | h'⟩
          · exact Or.inl ⟨c, hc', h'⟩
          · exact Or.inr ⟨c, hc', h'⟩
      -- every pair of the old term other than {u, v} is visited by loop 1 or loop 2
      have hcover : ∀ a b, a ≠ b → a ∈ tb.1 → b ∈ tb.1 → pairEq (u, v) (a, b) = false →
          (([u, v].flatMap (fun a => common.map (fun c => (a, c)))).any (fun p => pairEq p (a, b)) = true)
          ∨ ((pairsOf common).any (fun p => pairEq p (a, b)) = true) := by
        intro a b hab ha hb hex
        by_cases hau : a = u
        · subst hau
          have hbv : b ≠ v := by
            intro hbv; subst hbv
            rw [pairEq_refl] at hex; cases hex
          left; rw [hL1any]; exact ⟨b, (hcm b).2 ⟨hb, fun h' => hab h'.symm, hbv⟩, Or.inl (pairEq_refl _)⟩
        · by_cases hav : a = v
          · subst hav
            have hbu : b ≠ u := by
              intro hbu; subst hbu
              have : pairEq (b, a) (a, b) = true := by rw [pairEq_iff]; exact Or.inr ⟨rfl, rfl⟩
              rw [this] at hex; cases hex
            left; rw [hL1any]; exact ⟨b, (hcm b).2 ⟨hb, hbu, fun h' => hab h'.symm⟩, Or.inr (pairEq_refl _)⟩
          · have hac : a ∈ common := (hcm a).2 ⟨ha, hau, hav⟩
            by_cases hbu : b = u
            · subst hbu
              left; rw [hL1any]; exact ⟨a, hac, Or.inl (by rw [pairEq_iff]; exact Or.inr ⟨rfl, rfl⟩)⟩
            · by_cases hbv : b = v
              · subst hbv
                left; rw [hL1any]; exact ⟨a, hac, Or.inr (by rw [pairEq_iff]; exact Or.inr ⟨rfl, rfl⟩)⟩
              · right; exact pairsLt_any common a b hac ((hcm b).2 ⟨hb, hbu, hbv⟩) hab
      -- a pair visited by loop 2 lies inside `common`
      have hL2in : ∀ a b, (pairsOf common).any (fun p => pairEq p (a, b)) = true → a ∈ common ∧ b ∈ common := by
        intro a b hany
        simp only [List.any_eq_true] at hany
        obtain ⟨p, hp, hpe⟩ := hany
        have hm := mem_pairsLt common p hp
        rw [pairEq_iff] at hpe
        rcases hpe with ⟨e1, e2⟩ | ⟨e1, e2⟩
        · simp only at e1 e2; rw [← e1, ← e2]; exact hm
        · simp only at e1 e2; rw [← e1, ← e2]; exact ⟨hm.2, hm.1⟩
      have hex_common : ∀ a b, a ∈ common ∨ a = prod → b ∈ common ∨ b = prod → pairEq (u, v) (a, b) = false := by
        intro a b ha hb
        cases hx : pairEq (u, v) (a, b) with
        | false => rfl
        | true =>
          rw [pairEq_iff] at hx
          rcases hx with ⟨e1, _⟩ | ⟨_, e2⟩
          · simp only at e1; subst e1
            rcases ha with ha | ha
            · exact absurd ha huc
            · exact absurd ha.symm hpu
          · simp only at e2; subst e2
            rcases ha with ha | ha
            · exact absurd ha hvc
            · exact absurd ha.symm hpv
      -- the common statement about `s2`
      have hs2 : ∀ a b, a ≠ b → ∀ tb', tb' ∈ absIdx s2.idx (a, b) ↔
          ((pairEq (u, v) (a, b) = false ∧ tb' ∈ cur ∧ sameSet tb'.1 tb.1 = false ∧ hasPair a b tb'.1 = true)
            ∨ (a ∈ common ∧ b ∈ common ∧ tb' = (common ++ [prod], tb.2))) := by
        intro a b hab tb'
        rw [hm2 (a, b) tb', hm1 (a, b) tb', hinv a b hab tb']
        simp only
        constructor
        · rintro (⟨⟨⟨hex, hcur, hhp⟩, hn1⟩, hn2⟩ | ⟨hany, heq⟩)
          · left
            refine ⟨hex, hcur, ?_, hhp⟩
            cases hs : sameSet tb'.1 tb.1 with
            | false => rfl
            | true =>
              exfalso
              have hp' := (hasPair_iff' a b tb'.1).1 hhp
              rcases hcover a b hab ((mem_of_sameSet _ _ hs a).1 hp'.1) ((mem_of_sameSet _ _ hs b).1 hp'.2) hex with hc1 | hc2
              · exact hn1 ⟨hc1, hs⟩
              · exact hn2 ⟨hc2, hs⟩
          · right
            have := hL2in a b hany
            exact ⟨this.1, this.2, heq⟩
        · rintro (⟨hex, hcur, hns, hhp⟩ | ⟨ha, hb, heq⟩)
          · left
            exact ⟨⟨⟨hex, hcur, hhp⟩, fun ⟨_, hs⟩ => by rw [hns] at hs; cases hs⟩, fun ⟨_, hs⟩ => by rw [hns] at hs; cases hs⟩
          · right
            exact ⟨pairsLt_any common a b ha hb hab, heq⟩
      have hlen : (common ++ [prod]).length > 2 ↔ 2 ≤ common.length := by simp; omega
      split at h
      · -- the rewritten term still has degree > 2: loop 3
        rename_i hbig
        simp only [Option.some.injEq] at h
        subst h
        have hL3 := mapPair_pairwise prod common hcnd hpc
        have hidx3 := addNew_idx (common ++ [prod]) tb.2 prod common (s2, acc.2)
        obtain ⟨hwf3, hm3⟩ := fold_idxSet (common ++ [prod]) tb.2 (common.map (fun c => (prod, c))) s2.idx hwf2 hL3 (by
          intro p hp e he
          simp only [List.mem_map] at hp
          obtain ⟨c, hc', rfl⟩ := hp
          have hpcne : prod ≠ c := fun h' => hpc (h' ▸ hc')
          rcases (hs2 prod c hpcne e).1 he with ⟨_, hcur, _, _⟩ | ⟨hpin, _, _⟩
          · exact hfresh' e hcur
          · exact absurd hpin hpc)
        simp only at hidx3
        refine ⟨by rw [hidx3]; exact hwf3, ?_⟩
        intro a b hab tb'
        rw [hidx3, hm3 (a, b) tb', hs2 a b hab tb']
        unfold procTerm
        rw [hcommon_def, if_pos hbig]
        simp only [List.mem_append, List.mem_filter, List.mem_singleton, Bool.not_eq_true', any_map_pair]
        constructor
        · rintro ((⟨hex, hcur, hns, hhp⟩ | ⟨ha, hb, heq⟩) | ⟨⟨c, hc', hpe⟩, heq⟩)
          · exact ⟨hex, Or.inl ⟨hcur, hns⟩, hhp⟩
          · refine ⟨hex_common a b (Or.inl ha) (Or.inl hb), Or.inr heq, ?_⟩
            rw [heq, hasPair_iff']; simp [ha, hb]
          · rw [pairEq_iff] at hpe
            rcases hpe with ⟨e1, e2⟩ | ⟨e1, e2⟩
            · simp only at e1 e2; subst e1; subst e2
              refine ⟨hex_common _ _ (Or.inr rfl) (Or.inl hc'), Or.inr heq, ?_⟩
              rw [heq, hasPair_iff']; simp [hc']
            · simp only at e1 e2; subst e1; subst e2
              refine ⟨hex_common _ _ (Or.inl hc') (Or.inr rfl), Or.inr heq, ?_⟩
              rw [heq, hasPair_iff']; simp [hc']
        · rintro ⟨hex, (⟨hcur, hns⟩ | heq), hhp⟩
          · exact Or.inl (Or.inl ⟨hex, hcur, hns, hhp⟩)
          · subst heq
            rw [hasPair_iff'] at hhp
            simp only [List.mem_append, List.mem_singleton] at hhp
            rcases hhp with ⟨ha | ha, hb | hb⟩
            · exact Or.inl (Or.inr ⟨ha, hb, rfl⟩)
            · subst hb; exact Or.inr ⟨⟨a, ha, by rw [pairEq_iff]; exact Or.inr ⟨rfl, rfl⟩⟩, rfl⟩
            · subst ha; exact Or.inr ⟨⟨b, hb, pairEq_refl _⟩, rfl⟩
            · subst ha; subst hb; exact absurd rfl hab
      · -- the rewritten term has degree ≤ 2: it goes to `reduced_terms`
        rename_i hsmall
        simp only [Option.some.injEq] at h
        subst h
        have hshort : common.length < 2 := by
          have : ¬ 2 ≤ common.length := fun h' => hsmall (hlen.2 h')
          omega
        refine ⟨hwf2, ?_⟩
        intro a b hab tb'
        show tb' ∈ absIdx s2.idx (a, b) ↔ _
        rw [hs2 a b hab tb']
        unfold procTerm
        rw [hcommon_def, if_neg hsmall]
        simp only [List.append_nil, List.mem_filter, Bool.not_eq_true']
        constructor
        · rintro (⟨hex, hcur, hns, hhp⟩ | ⟨ha, hb, _⟩)
          · exact ⟨hex, ⟨hcur, hns⟩, hhp⟩
          · exfalso
            -- two different members need length ≥ 2
            have : 2 ≤ common.length := by
              match common, ha, hb with
              | [], ha, _ => simp at ha
              | [c], ha, hb =>
                simp only [List.mem_singleton] at ha hb
                exact absurd (ha.trans hb.symm) hab
              | _ :: _ :: _, _, _ => simp
            omega
        · rintro ⟨hex, ⟨hcur, hns⟩, hhp⟩
          exact Or.inl ⟨hex, hcur, hns, hhp⟩

/-! ## all `old_term`s of one iteration -/

theorem mem_substTerm (u v p w : Label) (t : LTerm) : w ∈ substTerm u v p t ↔ ((w ∈ t ∧ w ≠ u ∧ w ≠ v) ∨ w = p) := by
  simp [substTerm, List.mem_filter]

/-- rewriting is injective on the terms that contain the pair and not the product variable -/
theorem substTerm_inj (u v p : Label) (t t' : LTerm) (hu : u ∈ t) (hv : v ∈ t) (hu' : u ∈ t') (hv' : v ∈ t')
    (hp : p ∉ t) (hp' : p ∉ t') (h : sameSet (substTerm u v p t) (substTerm u v p t') = true) : sameSet t t' = true := by
  rw [sameSet_iff] at h ⊢
  intro w
  by_cases hwu : w = u
  · subst hwu; exact ⟨fun _ => hu', fun _ => hu⟩
  · by_cases hwv : w = v
    · subst hwv; exact ⟨fun _ => hv', fun _ => hv⟩
    · have := h w
      rw [mem_substTerm, mem_substTerm] at this
      constructor
      · intro hw
        rcases this.1 (Or.inl ⟨hw, hwu, hwv⟩) with h1 | h1
        · exact h1.1
        · subst h1; exact absurd hw hp
      · intro hw
        rcases this.2 (Or.inl ⟨hw, hwu, hwv⟩) with h1 | h1
        · exact h1.1
        · subst h1; exact absurd hw hp'

def procAll (u v prod : Label) (cur : List (LTerm × Rat)) (T : List (LTerm × Rat)) : List (LTerm × Rat) :=
  T.foldl (procTerm u v prod) cur

theorem bkTerms_inv (u v prod : Label) (huv : u ≠ v) (hpu : prod ≠ u) (hpv : prod ≠ v)
    (T : List (LTerm × Rat)) (acc acc' : BK × List Pair) (h : T.foldlM (bkTerm u v prod) acc = some acc')
    (cur : List (LTerm × Rat)) (hwf : IdxWF acc.1.idx) (hinv : IdxInv acc.1.idx cur (fun q => pairEq (u, v) q))
    (hT : InnerOK T) (hTs : ∀ tb ∈ T, tb.1.Nodup ∧ u ∈ tb.1 ∧ v ∈ tb.1 ∧ prod ∉ tb.1)
    (hnew : ∀ tb' ∈ cur, prod ∈ tb'.1 → ∀ tb ∈ T, sameSet tb'.1 (substTerm u v prod tb.1) = false) :
    IdxWF acc'.1.idx ∧ IdxInv acc'.1.idx (procAll u v prod cur T) (fun q => pairEq (u, v) q) := by
  induction T generalizing acc cur with
  | nil =>
    simp only [List.foldlM_nil, pure, Option.some.injEq] at h
    subst h; exact ⟨hwf, hinv⟩
  | cons tb r ih =>
    simp only [List.foldlM_cons, bind, Option.bind] at h
    cases hb : bkTerm u v prod acc tb with
    | none => rw [hb] at h; simp at h
    | some a1 =>
      rw [hb] at h
      have hs := hTs tb (by simp)
      unfold InnerOK at hT
      simp only [List.pairwise_cons] at hT
      have hfresh : ∀ tb' ∈ cur, sameSet tb'.1 (substTerm u v prod tb.1) = false := by
        intro tb' htb'
        by_cases hp : prod ∈ tb'.1
        · exact hnew tb' htb' hp tb (by simp)
        · cases hss : sameSet tb'.1 (substTerm u v prod tb.1) with
          | false => rfl
          | true =>
            exfalso; apply hp
            rw [mem_of_sameSet _ _ hss, mem_substTerm]; exact Or.inr rfl
      obtain ⟨hwf1, hinv1⟩ := bkTerm_inv u v prod huv hpu hpv acc tb a1 hb cur hwf hinv hs.1 hs.2.1 hs.2.2.1 hs.2.2.2 hfresh
      have := ih a1 h (procTerm u v prod cur tb) hwf1 hinv1 hT.2 (fun tb' h' => hTs tb' (by simp [h'])) (by
        intro tb'' hmem hp t2 ht2
        unfold procTerm at hmem
        simp only [List.mem_append, List.mem_filter] at hmem
        rcases hmem with ⟨hc, _⟩ | hmem
        · exact hnew tb'' hc hp t2 (by simp [ht2])
        · split at hmem
          · simp only [List.mem_singleton] at hmem
            subst hmem
            simp only
            cases hss : sameSet (substTerm u v prod tb.1) (substTerm u v prod t2.1) with
            | false => rfl
            | true =>
              have hs2 := hTs t2 (by simp [ht2])
              have := substTerm_inj u v prod tb.1 t2.1 hs.2.1 hs.2.2.1 hs2.2.1 hs2.2.2.1 hs.2.2.2 hs2.2.2.2 hss
              rw [hT.1 t2 ht2] at this; cases this
          · simp at hmem)
      simpa [procAll] using this

theorem sameSet_subst_false (u v prod : Label) (t t2 : LTerm) (hp : prod ∉ t2) : sameSet (substTerm u v prod t) t2 = false := by
  cases hss : sameSet (substTerm u v prod t) t2 with
  | false => rfl
  | true =>
    exfalso; apply hp
    rw [← mem_of_sameSet _ _ hss, mem_substTerm]; exact Or.inr rfl

/-- what is in the term list after all the rewritten terms have been handled -/
theorem mem_procAll (u v prod : Label) (T cur : List (LTerm × Rat)) (hT : ∀ t ∈ T, prod ∉ t.1) (tb' : LTerm × Rat) :
    tb' ∈ procAll u v prod cur T ↔
      ((tb' ∈ cur ∧ ∀ t ∈ T, sameSet tb'.1 t.1 = false)
        ∨ (∃ t ∈ T, (substTerm u v prod t.1).length > 2 ∧ tb' = (substTerm u v prod t.1, t.2))) := by
  induction T generalizing cur with
  | nil => simp [procAll]
  | cons t r ih =>
    have ihr := ih (procTerm u v prod cur t) (fun t' h' => hT t' (by simp [h']))
    simp only [procAll, List.foldl_cons] at ihr ⊢
    rw [ihr]
    unfold procTerm
    simp only [List.mem_append, List.mem_filter, Bool.not_eq_true', List.mem_cons, forall_eq_or_imp, exists_eq_or_imp]
    constructor
    · rintro (⟨(⟨h1, h2⟩ | h1), h3⟩ | ⟨t1, ht1, hl, heq⟩)
      · exact Or.inl ⟨h1, h2, h3⟩
      · split at h1
        · rename_i hbig
          simp only [List.mem_singleton] at h1
          exact Or.inr (Or.inl ⟨hbig, h1⟩)
        · simp at h1
      · exact Or.inr (Or.inr ⟨t1, ht1, hl, heq⟩)
    · rintro (⟨h1, h2, h3⟩ | ⟨hbig, heq⟩ | ⟨t1, ht1, hl, heq⟩)
      · exact Or.inl ⟨Or.inl ⟨h1, h2⟩, h3⟩
      · left
        refine ⟨Or.inr (by rw [if_pos hbig]; simp [heq]), ?_⟩
        intro t2 ht2
        rw [heq]
        exact sameSet_subst_false u v prod t.1 t2.1 (hT t2 (by simp [ht2]))
      · exact Or.inr ⟨t1, ht1, hl, heq⟩

/-! ## one iteration of `while idx:` keeps the invariant -/

/-- labels of the terms are known variables -/
def LabelsIn (cur : List (LTerm × Rat)) (vars : List Label) : Prop := ∀ tb ∈ cur, ∀ w ∈ tb.1, w ∈ vars

/-- the higher-degree terms after the semantic step -/
def hiAfter (u v prod : Label) (cur : List (LTerm × Rat)) : List (LTerm × Rat) :=
  cur.filter (fun tb => !hasPair u v tb.1)
  ++ ((cur.filter (fun tb => hasPair u v tb.1)).map (fun tb => (substTerm u v prod tb.1, tb.2))).filter (fun tb => decide (tb.1.length > 2))

theorem hiAfter_eq_step (u v prod : Label) (lo cur : List (LTerm × Rat)) : (step u v prod ⟨lo, cur⟩).hi = hiAfter u v prod cur := rfl

theorem termsOK_eq_or (cur : List (LTerm × Rat)) (h : TermsOK cur) (x y : LTerm × Rat) (hx : x ∈ cur) (hy : y ∈ cur) :
    x = y ∨ sameSet x.1 y.1 = false := by
  have hp := h.2
  induction cur with
  | nil => simp at hx
  | cons a r ih =>
    simp only [List.pairwise_cons] at hp
    simp only [List.mem_cons] at hx hy
    rcases hx with rfl | hx <;> rcases hy with rfl | hy
    · exact Or.inl rfl
    · exact Or.inr (hp.1 y hy)
    · right
      cases hs : sameSet x.1 y.1 with
      | false => rfl
      | true =>
        have := hp.1 x hx
        rw [sameSet_symm _ _ hs] at this; cases this
    · exact ih ⟨fun tb h' => h.1 tb (by simp [h']), hp.2⟩ hx hy hp.2

theorem mem_hiAfter (u v prod : Label) (cur : List (LTerm × Rat)) (tb : LTerm × Rat) :
    tb ∈ hiAfter u v prod cur ↔
      ((tb ∈ cur ∧ hasPair u v tb.1 = false)
        ∨ (∃ t ∈ cur, hasPair u v t.1 = true ∧ (substTerm u v prod t.1).length > 2 ∧ tb = (substTerm u v prod t.1, t.2))) := by
  unfold hiAfter
  simp only [List.mem_append, List.mem_filter, List.mem_map, Bool.not_eq_true', decide_eq_true_eq]
  constructor
  · rintro (h | ⟨⟨t, ⟨ht, hp⟩, rfl⟩, hl⟩)
    · exact Or.inl h
    · exact Or.inr ⟨t, ht, hp, hl, rfl⟩
  · rintro (h | ⟨t, ht, hp, hl, rfl⟩)
    · exact Or.inl h
    · exact Or.inr ⟨⟨t, ⟨ht, hp⟩, rfl⟩, hl⟩

theorem bkStep_inv (s : BK) (choice : Pair) (s' : BK) (h : bkStep s choice = some s') (hne : choice.1 ≠ choice.2)
    (cur : List (LTerm × Rat)) (hwf : IdxWF s.idx) (hinv : IdxInv s.idx cur (fun _ => false)) (hcur : TermsOK cur)
    (hlab : LabelsIn cur s.vars) :
    IdxWF s'.idx
    ∧ IdxInv s'.idx (hiAfter choice.1 choice.2 (newProduct s.vars choice.1 choice.2) cur) (fun _ => false)
    ∧ TermsOK (hiAfter choice.1 choice.2 (newProduct s.vars choice.1 choice.2) cur)
    ∧ LabelsIn (hiAfter choice.1 choice.2 (newProduct s.vars choice.1 choice.2) cur) s'.vars
    ∧ (∀ terms, idxGet s.idx choice = some terms → terms.Perm (cur.filter (fun tb => hasPair choice.1 choice.2 tb.1))) := by
  obtain ⟨u, v⟩ := choice
  simp only at hne ⊢
  generalize hprod : newProduct s.vars u v = prod
  have hpfresh : prod ∉ s.vars := by rw [← hprod]; exact newProduct_fresh s.vars u v
  have hpcur : ∀ tb ∈ cur, prod ∉ tb.1 := fun tb htb hm => hpfresh (hlab tb htb prod hm)
  have hvars' : s'.vars = s.vars ++ [prod] := by
    obtain ⟨_, _, _, _, hv⟩ := bkStep_spec s (u, v) s' h
    rw [hv, hprod]
  -- membership in idx[choice]
  have hTmem : ∀ tb, tb ∈ absIdx s.idx (u, v) ↔ (tb ∈ cur ∧ hasPair u v tb.1 = true) := by
    intro tb; rw [hinv u v hne tb]; simp
  have hT : InnerOK (absIdx s.idx (u, v)) := innerOK_absIdx s.idx hwf (u, v)
  -- the Perm statement
  have hperm : ∀ terms, idxGet s.idx (u, v) = some terms → terms.Perm (cur.filter (fun tb => hasPair u v tb.1)) := by
    intro terms hi
    have habs : absIdx s.idx (u, v) = terms := by unfold absIdx; rw [hi]; rfl
    rw [← habs]
    apply (List.perm_ext_iff_of_nodup (innerOK_nodup _ hT) ?_).2
    · intro tb; rw [hTmem tb]; simp [List.mem_filter]
    · exact (innerOK_nodup cur hcur.2).filter _
  -- open the step
  have hsp := h
  unfold bkStep at hsp
  simp only at hsp
  split at hsp
  · simp at hsp
  · split at hsp
    · simp at hsp
    · split at hsp
      · rename_i que terms hq hi
        split at hsp
        · simp at hsp
        · rename_i s1 newPairs hfold
          simp only [Option.some.injEq] at hsp
          have hidx' : s'.idx = s1.idx := by rw [← hsp]
          rw [hprod] at hfold
          have habs : absIdx s.idx (u, v) = terms := by unfold absIdx; rw [hi]; rfl
          rw [habs] at hTmem hT
          have hwf0 : IdxWF (idxErase s.idx (u, v)) :=
            ⟨keysOK_idxErase s.idx hwf.1 (u, v), fun e he => hwf.2 e (mem_idxErase s.idx (u, v) e he)⟩
          have hinv0 : IdxInv (idxErase s.idx (u, v)) cur (fun q => pairEq (u, v) q) := by
            intro a b hab tb
            rw [absIdx_idxErase s.idx hwf.1]
            by_cases hpq : pairEq (u, v) (a, b) = true
            · simp [hpq]
            · have hpq' : pairEq (u, v) (a, b) = false := by simpa using hpq
              rw [if_neg hpq, hinv a b hab tb]; simp [hpq']
          have hTs : ∀ tb ∈ terms, tb.1.Nodup ∧ u ∈ tb.1 ∧ v ∈ tb.1 ∧ prod ∉ tb.1 := by
            intro tb htb
            have := (hTmem tb).1 htb
            have hp := (hasPair_iff' u v tb.1).1 this.2
            exact ⟨hcur.1 tb this.1, hp.1, hp.2, hpcur tb this.1⟩
          have hcase : (prod ≠ u ∧ prod ≠ v) ∨ terms = [] := by
            cases hterms : terms with
            | nil => exact Or.inr rfl
            | cons t0 r =>
              left
              have h0 := hTs t0 (by rw [hterms]; simp)
              have hc0 := (hTmem t0).1 (by rw [hterms]; simp)
              exact ⟨fun e => hpfresh (e ▸ hlab t0 hc0.1 u h0.2.1), fun e => hpfresh (e ▸ hlab t0 hc0.1 v h0.2.2.1)⟩
          have hmain : IdxWF s1.idx ∧ IdxInv s1.idx (procAll u v prod cur terms) (fun q => pairEq (u, v) q) := by
            rcases hcase with ⟨hpu, hpv⟩ | hnil
            · exact bkTerms_inv u v prod hne hpu hpv terms _ (s1, newPairs) hfold cur hwf0 hinv0 hT hTs
                (fun tb' htb' hp => absurd hp (hpcur tb' htb'))
            · subst hnil
              simp only [List.foldlM_nil, pure, Option.some.injEq, Prod.mk.injEq] at hfold
              rw [← hfold.1]
              exact ⟨hwf0, hinv0⟩
          obtain ⟨hwf1, hinv1⟩ := hmain
          -- the processed list is the semantic `hi` after the step
          have hmemEq : ∀ tb, tb ∈ procAll u v prod cur terms ↔ tb ∈ hiAfter u v prod cur := by
            intro tb
            rw [mem_procAll u v prod terms cur (fun t ht => (hTs t ht).2.2.2) tb, mem_hiAfter]
            constructor
            · rintro (⟨hc, hall⟩ | ⟨t, ht, hl, heq⟩)
              · left
                refine ⟨hc, ?_⟩
                cases hp : hasPair u v tb.1 with
                | false => rfl
                | true =>
                  have := hall tb ((hTmem tb).2 ⟨hc, hp⟩)
                  rw [sameSet_refl] at this; cases this
              · right
                have := (hTmem t).1 ht
                exact ⟨t, this.1, this.2, hl, heq⟩
            · rintro (⟨hc, hnp⟩ | ⟨t, htc, hp, hl, heq⟩)
              · left
                refine ⟨hc, ?_⟩
                intro t ht
                cases hss : sameSet tb.1 t.1 with
                | false => rfl
                | true =>
                  have htp := (hTs t ht)
                  have : hasPair u v tb.1 = true := by
                    rw [hasPair_iff', mem_of_sameSet _ _ hss, mem_of_sameSet _ _ hss]; exact ⟨htp.2.1, htp.2.2.1⟩
                  rw [hnp] at this; cases this
              · right; exact ⟨t, (hTmem t).2 ⟨htc, hp⟩, hl, heq⟩
          -- no term of the new list contains both `u` and `v`
          have hnopair : ∀ tb ∈ hiAfter u v prod cur, ¬ (u ∈ tb.1 ∧ v ∈ tb.1) := by
            intro tb htb
            rcases (mem_hiAfter u v prod cur tb).1 htb with ⟨_, hnp⟩ | ⟨t, htc, hp, _, heq⟩
            · intro hboth
              have : hasPair u v tb.1 = true := (hasPair_iff' u v tb.1).2 hboth
              rw [hnp] at this; cases this
            · have htne : terms ≠ [] := by
                intro e; have := (hTmem t).2 ⟨htc, hp⟩; rw [e] at this; simp at this
              rcases hcase with ⟨hpu, _⟩ | hnil
              · rintro ⟨hu', _⟩
                rw [heq] at hu'
                simp only at hu'
                rw [mem_substTerm] at hu'
                rcases hu' with ⟨_, h2, _⟩ | h2
                · exact h2 rfl
                · exact hpu h2.symm
              · exact absurd hnil htne
          refine ⟨by rw [hidx']; exact hwf1, ?_, ?_, ?_, hperm⟩
          · -- the invariant, exclusion dropped
            intro a b hab tb
            rw [hidx', hinv1 a b hab tb, hmemEq tb]
            simp only [true_and]
            constructor
            · rintro ⟨_, h2, h3⟩; exact ⟨h2, h3⟩
            · rintro ⟨h2, h3⟩
              refine ⟨?_, h2, h3⟩
              cases hx : pairEq (u, v) (a, b) with
              | false => rfl
              | true =>
                exfalso
                have hp := (hasPair_iff' a b tb.1).1 h3
                rw [pairEq_iff] at hx
                rcases hx with ⟨e1, e2⟩ | ⟨e1, e2⟩
                · simp only at e1 e2; subst e1; subst e2; exact hnopair tb h2 hp
                · simp only at e1 e2; subst e1; subst e2; exact hnopair tb h2 ⟨hp.2, hp.1⟩
          · -- the new term list is well formed
            constructor
            · intro tb htb
              rcases (mem_hiAfter u v prod cur tb).1 htb with ⟨hc, _⟩ | ⟨t, htc, _, _, heq⟩
              · exact hcur.1 tb hc
              · rw [heq]; exact nodup_subst u v prod t.1 (hcur.1 t htc) (hpcur t htc)
            · unfold hiAfter
              rw [List.pairwise_append]
              refine ⟨hcur.2.filter _, ?_, ?_⟩
              · apply List.Pairwise.filter
                rw [List.pairwise_map]
                have hpw : (cur.filter (fun tb => hasPair u v tb.1)).Pairwise (fun a b => sameSet a.1 b.1 = false) := hcur.2.filter _
                refine hpw.imp_of_mem ?_
                intro x y hx hy hxy
                simp only [List.mem_filter] at hx hy
                cases hss : sameSet (substTerm u v prod x.1) (substTerm u v prod y.1) with
                | false => rfl
                | true =>
                  have hpx := (hasPair_iff' u v x.1).1 hx.2
                  have hpy := (hasPair_iff' u v y.1).1 hy.2
                  have := substTerm_inj u v prod x.1 y.1 hpx.1 hpx.2 hpy.1 hpy.2 (hpcur x hx.1) (hpcur y hy.1) hss
                  rw [hxy] at this; cases this
              · intro x hx y hy
                simp only [List.mem_filter, List.mem_map] at hx hy
                obtain ⟨⟨t, _, rfl⟩, _⟩ := hy
                cases hss : sameSet x.1 (substTerm u v prod t.1) with
                | false => rfl
                | true =>
                  exfalso
                  apply hpcur x hx.1
                  rw [mem_of_sameSet _ _ hss, mem_substTerm]; exact Or.inr rfl
          · -- labels
            intro tb htb w hw
            rw [hvars']
            rcases (mem_hiAfter u v prod cur tb).1 htb with ⟨hc, _⟩ | ⟨t, htc, _, _, heq⟩
            · exact List.mem_append_left _ (hlab tb hc w hw)
            · rw [heq] at hw
              simp only at hw
              rw [mem_substTerm] at hw
              rcases hw with ⟨h1, _⟩ | h1
              · exact List.mem_append_left _ (hlab t htc w h1)
              · subst h1; simp
      · simp at hsp

/-! ## the initial index -/

def hiOf (poly : List (LTerm × Rat)) : List (LTerm × Rat) := poly.filter (fun tb => decide (tb.1.length > 2))

theorem any_pairsLt_iff (l : List Label) (hnd : l.Nodup) (a b : Label) (hab : a ≠ b) :
    (pairsLt l).any (fun p => pairEq p (a, b)) = true ↔ (a ∈ l ∧ b ∈ l) := by
  constructor
  · intro hany
    simp only [List.any_eq_true] at hany
    obtain ⟨p, hp, hpe⟩ := hany
    have hm := mem_pairsLt l p hp
    rw [pairEq_iff] at hpe
    rcases hpe with ⟨e1, e2⟩ | ⟨e1, e2⟩
    · simp only at e1 e2; rw [← e1, ← e2]; exact hm
    · simp only at e1 e2; rw [← e1, ← e2]; exact ⟨hm.2, hm.1⟩
  · rintro ⟨ha, hb⟩; exact pairsLt_any l a b ha hb hab

theorem init_fold_inv (rest done : List (LTerm × Rat)) (idx : Idx) (hwf : IdxWF idx)
    (hinv : IdxInv idx (hiOf done) (fun _ => false)) (hok : TermsOK (done ++ rest)) :
    let idx' := rest.foldl (fun idx tb =>
        if tb.1.length ≤ 2 then idx else (pairsOf tb.1).foldl (fun idx p => idxSet idx p tb.1 tb.2) idx) idx
    IdxWF idx' ∧ IdxInv idx' (hiOf (done ++ rest)) (fun _ => false) := by
  induction rest generalizing done idx with
  | nil => simpa using ⟨hwf, hinv⟩
  | cons tb r ih =>
    simp only [List.foldl_cons]
    have hok' : TermsOK ((done ++ [tb]) ++ r) := by simpa using hok
    have happ : done ++ tb :: r = (done ++ [tb]) ++ r := by simp
    rw [happ]
    by_cases hlen : tb.1.length ≤ 2
    · rw [if_pos hlen]
      apply ih (done ++ [tb]) idx hwf ?_ hok'
      have : hiOf (done ++ [tb]) = hiOf done := by
        unfold hiOf
        rw [List.filter_append]
        have : ¬ tb.1.length > 2 := by omega
        simp [this]
      rw [this]; exact hinv
    · rw [if_neg hlen]
      have htb_nd : tb.1.Nodup := hok.1 tb (by simp)
      have hdist : ∀ e ∈ done, sameSet e.1 tb.1 = false := by
        intro e he
        have hp := hok.2
        rw [List.pairwise_append] at hp
        exact hp.2.2 e he tb (by simp)
      obtain ⟨hwf1, hm1⟩ := fold_idxSet tb.1 tb.2 (pairsOf tb.1) idx hwf (pairsLt_pairwise tb.1 htb_nd) (by
        intro p hp e he
        have hne := pairsLt_ne tb.1 htb_nd p hp
        have := (hinv p.1 p.2 hne e).1 he
        have hmem : e ∈ done := (List.mem_filter.1 this.2.1).1
        exact hdist e hmem)
      apply ih (done ++ [tb]) _ hwf1 ?_ hok'
      intro a b hab tb'
      rw [hm1 (a, b) tb', hinv a b hab tb']
      simp only [pairsOf]
      rw [any_pairsLt_iff tb.1 htb_nd a b hab]
      have hhi : hiOf (done ++ [tb]) = hiOf done ++ [tb] := by
        unfold hiOf
        rw [List.filter_append]
        have : tb.1.length > 2 := by omega
        simp [this]
      rw [hhi]
      simp only [true_and, List.mem_append, List.mem_singleton]
      constructor
      · rintro (⟨h1, h2⟩ | ⟨⟨ha, hb⟩, heq⟩)
        · exact ⟨Or.inl h1, h2⟩
        · subst heq; exact ⟨Or.inr rfl, (hasPair_iff' a b _).2 ⟨ha, hb⟩⟩
      · rintro ⟨h1 | h1, h2⟩
        · exact Or.inl ⟨h1, h2⟩
        · subst h1; exact Or.inr ⟨(hasPair_iff' a b _).1 h2, rfl⟩

theorem init_inv (poly : List (LTerm × Rat)) (vars : List Label) (hok : TermsOK poly) :
    IdxWF (BK.init poly vars).idx ∧ IdxInv (BK.init poly vars).idx (hiOf poly) (fun _ => false) := by
  have := init_fold_inv poly [] [] ⟨by simp [KeysOK], by simp⟩ (by
    intro a b _ tb; simp [absIdx, idxGet, hiOf]) (by simpa using hok)
  simpa [BK.init] using this

/-! ## the whole run -/

structure RunInv (s : BK) (hl : HiLo Label) : Prop where
  wf : IdxWF s.idx
  inv : IdxInv s.idx hl.hi (fun _ => false)
  ok : TermsOK hl.hi
  lab : LabelsIn hl.hi s.vars
  red : s.reduced.Perm hl.lo

theorem runInv_step (s : BK) (hl : HiLo Label) (hr : RunInv s hl) (c : Pair) (hne : c.1 ≠ c.2) (s' : BK) (h : bkStep s c = some s') :
    RunInv s' (step c.1 c.2 (newProduct s.vars c.1 c.2) hl)
    ∧ hl.Fresh (newProduct s.vars c.1 c.2)
    ∧ s'.constraints = s.constraints ++ [(c, newProduct s.vars c.1 c.2)] := by
  obtain ⟨h1, h2, h3, h4, h5⟩ := bkStep_inv s c s' h hne hl.hi hr.wf hr.inv hr.ok hr.lab
  have hred := bkStep_refines_step s c s' h hl hr.red h5
  obtain ⟨_, _, _, hcons, _⟩ := bkStep_spec s c s' h
  refine ⟨⟨h1, h2, h3, h4, hred⟩, ?_, hcons⟩
  intro tb htb hm
  exact newProduct_fresh s.vars c.1 c.2 (hr.lab tb htb _ hm)

/-- **refinement of the whole loop**: whenever the coded bookkeeping completes on an oracle whose pairs
    have two different members, its `constraints` name a legal sequence of semantic choices, its
    `reduced_terms` are (up to order) the degree-≤-2 terms of the semantic reduction on that sequence,
    and its index describes exactly the terms the semantic reduction still has to reduce -/
theorem bkFold_refines (choices : List Pair) (s0 : BK) (hl0 : HiLo Label) (h0 : RunInv s0 hl0)
    (hch : ∀ c ∈ choices, c.1 ≠ c.2) (s : BK) (h : choices.foldlM bkStep s0 = some s) :
    ∃ named : List (Label × Label × Label),
      named.map (fun c => (c.1, c.2.1)) = choices
      ∧ s.constraints = s0.constraints ++ named.map (fun c => ((c.1, c.2.1), c.2.2))
      ∧ Valid named hl0
      ∧ RunInv s (semReduce named hl0) := by
  induction choices generalizing s0 hl0 with
  | nil =>
    simp only [List.foldlM_nil, pure, Option.some.injEq] at h
    subst h
    exact ⟨[], rfl, by simp, trivial, h0⟩
  | cons c r ih =>
    simp only [List.foldlM_cons, bind, Option.bind] at h
    cases hs : bkStep s0 c with
    | none => rw [hs] at h; simp at h
    | some s1 =>
      rw [hs] at h
      have hne := hch c (by simp)
      obtain ⟨hr1, hfresh, hcons⟩ := runInv_step s0 hl0 h0 c hne s1 hs
      obtain ⟨named, hn1, hn2, hn3, hn4⟩ := ih s1 _ hr1 (fun c' hc' => hch c' (by simp [hc'])) h
      refine ⟨(c.1, c.2, newProduct s0.vars c.1 c.2) :: named, ?_, ?_, ?_, ?_⟩
      · simp [hn1]
      · rw [hn2, hcons]; simp
      · exact ⟨hne, hfresh, hn3⟩
      · simpa [semReduce] using hn4

theorem termsOK_filter (poly : List (LTerm × Rat)) (h : TermsOK poly) (P : LTerm × Rat → Bool) : TermsOK (poly.filter P) :=
  ⟨fun tb htb => h.1 tb (List.mem_filter.1 htb).1, h.2.filter P⟩

theorem runInv_init (poly : List (LTerm × Rat)) (vars : List Label) (hok : TermsOK poly)
    (hvars : ∀ tb ∈ poly, ∀ w ∈ tb.1, w ∈ vars) : RunInv (BK.init poly vars) (HiLo.init poly) := by
  obtain ⟨h1, h2⟩ := init_inv poly vars hok
  exact ⟨h1, h2, termsOK_filter poly hok _,
    fun tb htb w hw => hvars tb (List.mem_filter.1 htb).1 w hw, List.Perm.refl _⟩

theorem polyEnergy_perm (x : Label → Rat) (a b : List (LTerm × Rat)) (h : a.Perm b) : polyEnergy x a = polyEnergy x b := by
  induction h with
  | nil => rfl
  | cons t _ ih => simp only [polyEnergy, ih]
  | swap t t' l => simp only [polyEnergy]; grind
  | trans _ _ ih1 ih2 => rw [ih1, ih2]

/-- terms of degree > 2 -/
def AllHigh (l : List (LTerm × Rat)) : Prop := ∀ tb ∈ l, tb.1.length > 2

theorem allHigh_init (poly : List (LTerm × Rat)) : AllHigh (HiLo.init poly).hi := by
  intro tb h; simp only [HiLo.init, List.mem_filter, decide_eq_true_eq] at h; exact h.2

theorem allHigh_step (u v p : Label) (s : HiLo Label) (h : AllHigh s.hi) : AllHigh (step u v p s).hi := by
  intro tb htb
  simp only [step, List.mem_append, List.mem_filter, decide_eq_true_eq] at htb
  rcases htb with ⟨h1, _⟩ | ⟨_, h2⟩
  · exact h tb h1
  · exact h2

theorem allHigh_semReduce (named : List (Label × Label × Label)) (s : HiLo Label) (h : AllHigh s.hi) : AllHigh (semReduce named s).hi := by
  induction named generalizing s with
  | nil => exact h
  | cons c r ih => exact ih _ (allHigh_step _ _ _ s h)

/-- with an empty index nothing of degree > 2 is left -/
theorem hi_nil_of_idx_nil (idx : Idx) (cur : List (LTerm × Rat)) (hidx : idx = []) (hinv : IdxInv idx cur (fun _ => false))
    (hok : TermsOK cur) (hhigh : AllHigh cur) : cur = [] := by
  cases hc : cur with
  | nil => rfl
  | cons tb r =>
    exfalso
    have hmem : tb ∈ cur := by rw [hc]; simp
    have hlen := hhigh tb hmem
    have hnd := hok.1 tb hmem
    match htb : tb.1, hlen, hnd with
    | a :: b :: _, _, hnd' =>
      have hab : a ≠ b := by
        intro e; subst e
        simp at hnd'
      have := (hinv a b hab tb).2 ⟨rfl, hmem, by rw [hasPair_iff', htb]; simp⟩
      rw [hidx] at this
      simp [absIdx, idxGet] at this

/-! ## `BinaryPolynomial.__init__` produces duplicate-free, pairwise different terms -/

theorem dedup_nodup (l : List Label) : (dedup l).Nodup := by
  induction l with
  | nil => simp [dedup]
  | cons a r ih =>
    simp only [dedup]
    split
    · exact ih
    · rename_i h
      simp only [List.nodup_cons]
      refine ⟨?_, ih⟩
      intro hm
      apply h
      simp only [List.contains_iff_mem]
      exact (mem_dedup r a).1 hm

theorem normTerm_nodup (vt : VT) (t : List Label) : (normTerm vt t).Nodup := by
  cases vt with
  | binary => exact dedup_nodup t
  | spin => exact (dedup_nodup t).filter _

/-- members of `addTerm l t b` carry the key of a member of `l`, or are the new term -/
theorem addTerm_keys (t : LTerm) (b : Rat) (l : List (LTerm × Rat)) (tb : LTerm × Rat) (h : tb ∈ addTerm l t b) :
    (∃ e' ∈ l, tb.1 = e'.1) ∨ tb.1 = t := by
  induction l with
  | nil => simp only [addTerm, List.mem_singleton] at h; right; rw [h]
  | cons a l' ihl =>
    simp only [addTerm] at h
    split at h
    · simp only [List.mem_cons] at h
      rcases h with h | h
      · left; exact ⟨a, by simp, by rw [h]⟩
      · left; exact ⟨tb, by simp [h], rfl⟩
    · simp only [List.mem_cons] at h
      rcases h with h | h
      · left; exact ⟨a, by simp, by rw [h]⟩
      · rcases ihl h with ⟨e', he', h'⟩ | h'
        · left; exact ⟨e', by simp [he'], h'⟩
        · right; exact h'

theorem addTerm_nodup (t : LTerm) (ht : t.Nodup) (b : Rat) (l : List (LTerm × Rat)) (hl : ∀ tb ∈ l, tb.1.Nodup) :
    ∀ tb ∈ addTerm l t b, tb.1.Nodup := by
  intro tb h
  rcases addTerm_keys t b l tb h with ⟨e', he', h'⟩ | h'
  · rw [h']; exact hl e' he'
  · rw [h']; exact ht

theorem addTerm_ok (l : List (LTerm × Rat)) (hl : TermsOK l) (t : LTerm) (ht : t.Nodup) (b : Rat) : TermsOK (addTerm l t b) := by
  refine ⟨addTerm_nodup t ht b l hl.1, ?_⟩
  have hp := hl.2
  clear hl
  induction l with
  | nil => simp [addTerm]
  | cons e r ih =>
    simp only [List.pairwise_cons] at hp
    simp only [addTerm]
    split
    · simp only [List.pairwise_cons]; exact hp
    · rename_i hne
      simp only [List.pairwise_cons]
      refine ⟨?_, ih hp.2⟩
      intro tb htb
      rcases addTerm_keys t b r tb htb with ⟨e', he', h'⟩ | h'
      · rw [h']; exact hp.1 e' he'
      · rw [h']; simpa using hne

theorem normPoly_ok (vt : VT) (raw : List (List Label × Rat)) : TermsOK (normPoly vt raw) := by
  unfold normPoly
  have : ∀ (acc : List (LTerm × Rat)), TermsOK acc →
      TermsOK (raw.foldl (fun acc tb => addTerm acc (normTerm vt tb.1) tb.2) acc) := by
    induction raw with
    | nil => intro acc h; exact h
    | cons tb r ih => intro acc h; exact ih _ (addTerm_ok acc h _ (normTerm_nodup vt tb.1) tb.2)
  exact this [] ⟨by simp, by simp⟩

theorem polyVars_mem (poly : List (LTerm × Rat)) : ∀ tb ∈ poly, ∀ w ∈ tb.1, w ∈ polyVars poly := by
  intro tb htb w hw
  simp only [polyVars, mem_dedup, List.mem_flatMap]
  exact ⟨tb, htb, hw⟩

end Red
