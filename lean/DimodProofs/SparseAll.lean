import DimodProofs.Sparse
import Mathlib.Tactic.FieldSimp

/-! # `substitute_variables(mult, c)`: the whole-model substitution used by `BinaryQuadraticModel::change_vartype` -/

open Finset

namespace En
namespace QMB

variable {R : Type}

section Ring
variable [CommRing R]

/-- Σ over the entries of a sorted, in-range neighbourhood = Σ over all indices of the coefficient lookup -/
theorem entries_sum (n : Nat) (nb : Nbh R) (hs : Nbh.Sorted nb) (hb : ∀ p ∈ nb, p.1 < n) :
    (nb.map (·.2)).sum = ∑ w ∈ range n, coef nb w := by
  induction nb with
  | nil => simp [coef]
  | cons p t ih =>
    obtain ⟨k, b⟩ := p
    have ht : Nbh.Sorted t := (List.pairwise_cons.mp hs).2
    have hk : ∀ q ∈ t, k < q.1 := (List.pairwise_cons.mp hs).1
    have hkn : k < n := hb (k, b) (by simp)
    have hz : coef t k = 0 := coef_eq_zero_of_lt t k hk
    simp only [List.map_cons, List.sum_cons]
    rw [ih ht (fun q hq => hb q (List.mem_cons_of_mem _ hq))]
    have : ∀ w ∈ range n, coef ((k, b) :: t) w = coef t w + (if w = k then b else 0) := by
      intro w _
      simp only [coef]
      by_cases hw : k = w
      · subst hw; simp [hz]
      · have : ¬ w = k := fun e => hw e.symm
        simp [hw, this]
    rw [sum_congr rfl this, sum_add_distrib, sum_ite_eq' (range n) k]
    simp [hkn]; ring

theorem foldl_add_mul (nb : Nbh R) (k l0 : R) :
    nb.foldl (fun l p => l + k * p.2) l0 = l0 + k * (nb.map (·.2)).sum := by
  induction nb generalizing l0 with
  | nil => simp
  | cons p t ih => simp only [List.foldl_cons, List.map_cons, List.sum_cons]; rw [ih]; ring

theorem foldl_lin_off (lin : List R) (c o : R) :
    lin.foldl (fun o l => o + l * c) o = o + c * ∑ u ∈ range lin.length, lin.getD u 0 := by
  induction lin generalizing o with
  | nil => simp
  | cons l ls ih =>
    simp only [List.foldl_cons, List.length_cons]
    rw [ih, sum_range_succ']
    simp only [List.getD_cons_zero, List.getD_cons_succ]
    ring

theorem foldl_rows_off (a : List (Nbh R)) (k o : R) :
    a.foldl (fun o nb => nb.foldl (fun o p => o + k * p.2) o) o
      = o + k * ∑ u ∈ range a.length, ((a.getD u []).map (·.2)).sum := by
  induction a generalizing o with
  | nil => simp
  | cons nb rest ih =>
    simp only [List.foldl_cons, List.length_cons]
    rw [ih, foldl_add_mul, sum_range_succ']
    simp only [List.getD_cons_zero, List.getD_cons_succ]
    ring

theorem getD_zipWith {α β γ : Type} (f : α → β → γ) (l1 : List α) (l2 : List β) (i : Nat) (da : α) (db : β) (dc : γ)
    (h1 : i < l1.length) (h2 : i < l2.length) :
    (List.zipWith f l1 l2).getD i dc = f (l1.getD i da) (l2.getD i db) := by
  rw [List.getD_eq_getElem?_getD, List.getD_eq_getElem?_getD, List.getD_eq_getElem?_getD, List.getElem?_zipWith]
  rw [List.getElem?_eq_getElem h1, List.getElem?_eq_getElem h2]
  rfl

/-- scale every entry of a neighbourhood -/
theorem coef_map_scale (nb : Nbh R) (k : R) (w : Nat) :
    coef (nb.map fun p => (p.1, p.2 * k)) w = coef nb w * k := by
  induction nb with
  | nil => simp [coef]
  | cons p t ih =>
    obtain ⟨x, b⟩ := p
    simp only [List.map_cons, coef]
    by_cases hx : x = w <;> simp [hx, ih]

end Ring

section Field
variable [Field R]

theorem nbh_substituteVariables (m : QMB R) (mult c : R) (u : Nat) :
    (m.substituteVariables mult c).nbh u = (m.nbh u).map fun p => (p.1, p.2 * (mult * mult)) := by
  unfold substituteVariables nbh
  cases h : m.adj with
  | none => simp
  | some a =>
    simp only []
    rw [List.getD_eq_getElem?_getD, List.getElem?_map, List.getD_eq_getElem?_getD]
    cases a[u]? <;> simp

theorem n_substituteVariables (m : QMB R) (hm : m.WF) (mult c : R) : (m.substituteVariables mult c).n = m.n := by
  unfold substituteVariables n
  cases h : m.adj with
  | none => simp
  | some a => simp [hm.len a h]

theorem WF_substituteVariables (m : QMB R) (hm : m.WF) (mult c : R) : (m.substituteVariables mult c).WF := by
  have hnb := nbh_substituteVariables m mult c
  have hkeys : ∀ (nb : Nbh R), (nb.map fun p => (p.1, p.2 * (mult * mult))).map (·.1) = nb.map (·.1) := by
    intro nb; rw [List.map_map]; rfl
  refine ⟨?_, ?_, ?_, ?_⟩
  · intro a' ha'
    have hn := n_substituteVariables m hm mult c
    unfold n at hn
    rw [hn]
    unfold substituteVariables at ha'
    cases h : m.adj with
    | none => simp [h] at ha'
    | some a =>
      simp only [h, Option.some.injEq] at ha'
      rw [← ha', List.length_map]
      exact hm.len a h
  · intro u; rw [hnb]; exact sorted_of_keys _ _ (hkeys _) (hm.sorted u)
  · intro u p hp
    rw [hnb] at hp
    rw [n_substituteVariables m hm]
    obtain ⟨q, hq, rfl⟩ := List.mem_map.mp hp
    exact hm.bound u q hq
  · intro u w b h
    rw [hnb] at h ⊢
    obtain ⟨q, hq, hqe⟩ := List.mem_map.mp h
    obtain ⟨qw, qb⟩ := q
    simp only [Prod.mk.injEq] at hqe
    obtain ⟨rfl, rfl⟩ := hqe
    exact List.mem_map.mpr ⟨(u, qb), hm.symm u qw qb hq, rfl⟩

theorem Q_substituteVariables (m : QMB R) (mult c : R) (u w : Nat) :
    (m.substituteVariables mult c).Q u w = m.Q u w * (mult * mult) := by
  unfold Q
  rw [nbh_substituteVariables, coef_map_scale]

/-- Σ of a variable's stored interactions -/
def rowSum (m : QMB R) (u : Nat) : R := ∑ w ∈ range m.n, m.Q u w

theorem rowEntries_sum (m : QMB R) (hm : m.WF) (u : Nat) : ((m.nbh u).map (·.2)).sum = m.rowSum u :=
  entries_sum m.n (m.nbh u) (hm.sorted u) (hm.bound u)

theorem L_substituteVariables (m : QMB R) (hm : m.WF) (mult c : R) (u : Nat) (hu : u < m.n) :
    (m.substituteVariables mult c).L u = m.L u * mult + mult * c * m.rowSum u := by
  unfold substituteVariables
  cases h : m.adj with
  | none =>
    simp only [L]
    have : m.rowSum u = 0 := by
      unfold rowSum; apply sum_eq_zero; intro w _; simp [Q, nbh, h, coef]
    rw [this, List.getD_eq_getElem?_getD, List.getElem?_map, List.getD_eq_getElem?_getD]
    have hu' : u < m.lin.length := hu
    rw [List.getElem?_eq_getElem hu']
    simp
  | some a =>
    simp only [L]
    have hl : a.length = m.lin.length := hm.len a h
    have hu' : u < m.lin.length := hu
    rw [getD_zipWith _ _ _ u 0 [] 0 (by simpa using hu') (by omega), foldl_add_mul]
    rw [← nbh_some m a h u, rowEntries_sum m hm u]
    rw [List.getD_eq_getElem?_getD, List.getElem?_map, List.getElem?_eq_getElem hu', List.getD_eq_getElem?_getD,
        List.getElem?_eq_getElem hu']
    simp

theorem off_substituteVariables (m : QMB R) (hm : m.WF) (mult c : R) :
    (m.substituteVariables mult c).off
      = m.off + c * ∑ u ∈ range m.n, m.L u + c * c / two * ∑ u ∈ range m.n, m.rowSum u := by
  unfold substituteVariables
  cases h : m.adj with
  | none =>
    simp only []
    rw [foldl_lin_off]
    have : ∑ u ∈ range m.n, m.rowSum u = 0 := by
      apply sum_eq_zero; intro u _; unfold rowSum; apply sum_eq_zero; intro w _; simp [Q, nbh, h, coef]
    rw [this]; simp [n, L]
  | some a =>
    simp only []
    rw [foldl_rows_off, foldl_lin_off, hm.len a h]
    have : ∀ u ∈ range m.lin.length, ((a.getD u []).map (·.2)).sum = m.rowSum u := by
      intro u _
      rw [← nbh_some m a h u, rowEntries_sum m hm u]
    rw [sum_congr rfl this]
    simp [n, L]

/-- **`substVars_eval`**: on a well-formed model without squared terms (a BQM), `substitute_variables(mult, c)`
    is the substitution `x = mult · y + c` for every variable.  Needs `2 ≠ 0` in the field (the code halves `c²`). -/
theorem substituteVariables_energy (m : QMB R) (hm : m.WF) (hns : ∀ u, m.Q u u = 0) (h2 : (two : R) ≠ 0)
    (mult c : R) (y : Nat → R) :
    (m.substituteVariables mult c).energy y = m.energy (fun u => mult * y u + c) := by
  rw [energy_eq_evalR _ (WF_substituteVariables m hm mult c), energy_eq_evalR m hm,
      n_substituteVariables m hm, ← substAll_evalR m.n m.off m.L m.T mult c y]
  -- row sums of the stored coefficients in terms of the lower triangle
  have hpair : ∀ u v, m.T u v + m.T v u = m.Q u v := by
    intro u v
    by_cases huv : v = u
    · subst huv; rw [T_diag, hns]; simp
    · have := T_pair m hm u v huv
      rw [add_comm]; exact this
  have hrow : ∀ u, ∑ v ∈ range m.n, m.T u v + ∑ v ∈ range m.n, m.T v u = m.rowSum u := by
    intro u
    rw [← sum_add_distrib]
    unfold rowSum
    apply sum_congr rfl
    intro v _; exact hpair u v
  have hall : two * ∑ u ∈ range m.n, ∑ v ∈ range m.n, m.T u v = ∑ u ∈ range m.n, m.rowSum u := by
    have : ∑ u ∈ range m.n, m.rowSum u
        = ∑ u ∈ range m.n, ∑ v ∈ range m.n, m.T u v + ∑ u ∈ range m.n, ∑ v ∈ range m.n, m.T v u := by
      rw [← sum_add_distrib]
      apply sum_congr rfl
      intro u _; exact (hrow u).symm
    rw [this, sum_comm (f := fun u v => m.T v u)]
    unfold two; ring
  apply evalR_congr
  · rw [off_substituteVariables m hm, ← hall]
    field_simp
  · intro u hu
    rw [L_substituteVariables m hm mult c u hu, hrow u]; ring
  · intro u w _ _
    unfold T
    rw [Q_substituteVariables]
    split <;> ring
  · intro _ _; rfl

end Field

end QMB
end En
