import DimodModel.Penalty

/-! # Slack encodings of `add_linear_inequality_constraint` / `binary_encoding` (core Lean only)

* `slack_covers`: the subset sums of `[1, 2, …, 2^(k-1), S − 2^k + 1]`, `k = Nat.log2 S`, are exactly `0..S`;
* `slack_linear_covers`: the one-hot list `1..S` (or nothing) gives exactly `0..S`;
* `slack_log10_covers`: the digit lists of the `log10` method reach every value `0..S` (the converse is
  false — `slack_log10_overshoots`: for `S = 15` the value 19 is reachable, D17);
* `ineqPlan_sound`: the bound tightening and the four outcomes of the planning step. -/

open Pen

/-- dot product of a 0/1 choice vector with coefficients -/
def dot : List Bool → List Nat → Nat
  | b :: bs, c :: cs => (if b then c else 0) + dot bs cs
  | _, _ => 0

/-- `t` is a subset sum of the coefficient list -/
def Reps (cs : List Nat) (t : Nat) : Prop := ∃ bs : List Bool, bs.length = cs.length ∧ dot bs cs = t

theorem dot_append (b1 b2 : List Bool) (c1 c2 : List Nat) (h : b1.length = c1.length) :
    dot (b1 ++ b2) (c1 ++ c2) = dot b1 c1 + dot b2 c2 := by
  induction b1 generalizing c1 with
  | nil => cases c1 <;> simp_all [dot]
  | cons b bs ih =>
    cases c1 with
    | nil => simp at h
    | cons c cs =>
      simp only [List.cons_append, dot]
      rw [ih cs (by simpa using h)]
      omega

theorem pows_length (k : Nat) : (pows k).length = k := by
  induction k with
  | zero => rfl
  | succ k ih => simp [pows, ih]

theorem dot_le_sum (bs : List Bool) (cs : List Nat) : dot bs cs ≤ cs.sum := by
  induction bs generalizing cs with
  | nil => cases cs <;> simp [dot]
  | cons b bs ih =>
    cases cs with
    | nil => simp [dot]
    | cons c cs =>
      have := ih cs
      simp only [dot, List.sum_cons]
      split <;> omega

theorem pows_sum (k : Nat) : (pows k).sum + 1 = 2^k := by
  induction k with
  | zero => rfl
  | succ k ih => simp [pows, List.sum_append, Nat.pow_succ]; omega

/-- every `t < 2^k` is a subset sum of the first `k` powers of two -/
theorem pows_repr (k t : Nat) (h : t < 2^k) : Reps (pows k) t := by
  induction k generalizing t with
  | zero => exact ⟨[], rfl, by simp [pows, dot]; omega⟩
  | succ k ih =>
    by_cases hlt : t < 2^k
    · obtain ⟨bs, hl, hd⟩ := ih t hlt
      refine ⟨bs ++ [false], by simp [pows, hl], ?_⟩
      rw [pows, dot_append _ _ _ _ hl, hd]; simp [dot]
    · have : t - 2^k < 2^k := by rw [Nat.pow_succ] at h; omega
      obtain ⟨bs, hl, hd⟩ := ih (t - 2^k) this
      refine ⟨bs ++ [true], by simp [pows, hl], ?_⟩
      rw [pows, dot_append _ _ _ _ hl, hd]; simp [dot]; omega

/-- the coefficient list built by `add_linear_inequality_constraint` / `binary_encoding` -/
abbrev slackCoeffs (S : Nat) : List Nat := slackLog2 S

theorem log2_spec (S : Nat) (h : S ≠ 0) : 2^(Nat.log2 S) ≤ S ∧ S < 2^(Nat.log2 S + 1) :=
  ⟨Nat.log2_self_le h, Nat.lt_log2_self⟩

/-- C16 `slack_log2_covers`: exactly the integers `0..S`. -/
theorem slack_covers (S : Nat) (hS : 1 ≤ S) (t : Nat) : Reps (slackLog2 S) t ↔ t ≤ S := by
  have ⟨hlo, hhi⟩ := log2_spec S (by omega)
  have hsum := pows_sum (Nat.log2 S)
  constructor
  · rintro ⟨bs, _, rfl⟩
    have := dot_le_sum bs (slackLog2 S)
    simp only [slackLog2, List.sum_append, List.sum_cons, List.sum_nil] at this ⊢
    omega
  · intro ht
    rw [Nat.pow_succ] at hhi
    by_cases hlt : t < 2^(Nat.log2 S)
    · obtain ⟨bs, hl, hd⟩ := pows_repr _ t hlt
      refine ⟨bs ++ [false], by simp [slackLog2, hl], ?_⟩
      rw [slackLog2, dot_append _ _ _ _ hl, hd]; simp [dot]
    · have : t - (S - 2^(Nat.log2 S) + 1) < 2^(Nat.log2 S) := by omega
      obtain ⟨bs, hl, hd⟩ := pows_repr _ _ this
      refine ⟨bs ++ [true], by simp [slackLog2, hl], ?_⟩
      rw [slackLog2, dot_append _ _ _ _ hl, hd]; simp [dot]; omega

example : Reps (slackLog2 6) 5 := (slack_covers 6 (by decide) 5).2 (by decide)

/-! ## linear method: one slack variable whose case `i` (1 ≤ i ≤ S) is worth `i`, case 0 worth nothing -/

theorem mem_slackLinear (S t : Nat) : t ∈ slackLinear S ↔ 1 ≤ t ∧ t ≤ S := by
  simp only [slackLinear, List.mem_map, List.mem_range]
  constructor
  · rintro ⟨a, ha, rfl⟩; omega
  · intro h; exact ⟨t - 1, by omega, by omega⟩

/-- C16 `slack_linear_covers`: the value of the one-hot slack variable ranges over exactly `0..S` -/
theorem slack_linear_covers (S t : Nat) : (t = 0 ∨ t ∈ slackLinear S) ↔ t ≤ S := by
  rw [mem_slackLinear]; omega

/-! ## the planning step -/

/-- `Σ aᵢ·[bᵢ]` for a 0/1 assignment of the positions -/
def idot : List Bool → List Int → Int
  | b :: bs, c :: cs => (if b then c else 0) + idot bs cs
  | _, _ => 0

/-- for 0/1 variables the linear form lies between the sum of its negative and of its positive coefficients -/
theorem idot_bounds (bs : List Bool) (cs : List Int) : sumNeg cs ≤ idot bs cs ∧ idot bs cs ≤ sumPos cs := by
  induction cs generalizing bs with
  | nil => cases bs <;> simp [idot, sumNeg, sumPos]
  | cons c cs ih =>
    cases bs with
    | nil =>
      have := ih []
      simp only [idot, sumNeg, sumPos] at this ⊢
      constructor <;> split <;> omega
    | cons b bs =>
      have := ih bs
      simp only [idot, sumNeg, sumPos]
      constructor <;> split <;> split <;> omega

/-- what each outcome of the planning step means for a value `T` of the linear form inside its
    term bounds (`T` = `Σ aᵢxᵢ` at any 0/1 sample, by `idot_bounds`) -/
theorem ineqPlan_sound (coeffs : List Int) (c lb ub T : Int) (hlo : sumNeg coeffs ≤ T) (hhi : T ≤ sumPos coeffs) :
    match ineqPlan coeffs c lb ub with
    | .skip => lb ≤ T + c ∧ T + c ≤ ub
    | .infeasible => ¬ (lb ≤ T + c ∧ T + c ≤ ub)
    | .equality ubc => (lb ≤ T + c ∧ T + c ≤ ub) ↔ T - ubc = 0
    | .slack ubc _ S => 1 ≤ S ∧ ((lb ≤ T + c ∧ T + c ≤ ub) ↔ ∃ t : Nat, t ≤ S ∧ T + t - ubc = 0) := by
  simp only [ineqPlan]
  generalize hu : min (sumPos coeffs) (ub - c) = ubc
  generalize hl : max (sumNeg coeffs) (lb - c) = lbc
  have hu1 : ubc ≤ sumPos coeffs ∧ ubc ≤ ub - c ∧ (ubc = sumPos coeffs ∨ ubc = ub - c) := by omega
  have hl1 : sumNeg coeffs ≤ lbc ∧ lb - c ≤ lbc ∧ (lbc = sumNeg coeffs ∨ lbc = lb - c) := by omega
  by_cases h1 : sumPos coeffs ≤ ubc ∧ sumNeg coeffs ≥ lbc
  · rw [if_pos h1]; simp only; omega
  · rw [if_neg h1]
    by_cases h2 : ubc < lbc
    · rw [if_pos h2]; simp only; omega
    · rw [if_neg h2]
      by_cases h3 : (ubc - lbc).toNat = 0
      · rw [if_pos h3]; simp only; omega
      · rw [if_neg h3]
        simp only
        refine ⟨by omega, ?_⟩
        constructor
        · intro hf
          exact ⟨(ubc - T).toNat, by omega, by omega⟩
        · rintro ⟨t, ht, heq⟩
          omega

/-- a nonzero integer has square at least one: the gap of the penalty -/
theorem one_le_sq (k : Int) (h : k ≠ 0) : 1 ≤ k * k := by
  rcases Int.lt_or_gt_of_ne h with h | h
  · have := Int.mul_pos_of_neg_of_neg h h; omega
  · have := Int.mul_pos h h; omega

/-! ## log10 method: one slack variable per decimal digit -/

/-- values of a family of one-hot slack variables: each contributes 0 or one entry of its list -/
def RepsOH : List (List Nat) → Nat → Prop
  | [], t => t = 0
  | d :: ds, t => ∃ a, (a = 0 ∨ a ∈ d) ∧ ∃ r, RepsOH ds r ∧ t = a + r

theorem mem_rangeStepTail (stop step i : Nat) : i ∈ rangeStepTail stop step ↔ i < stop ∧ i % step = 0 ∧ i ≠ 0 := by
  simp [rangeStepTail, List.mem_filter, List.mem_range]

theorem clog10_go_spec (S : Nat) (fuel k p : Nat) (hp : p = 10 ^ k) (hf : S + 1 ≤ fuel + p) :
    S + 1 ≤ 10 ^ (clog10.go S fuel k p) := by
  induction fuel generalizing k p with
  | zero => simp only [clog10.go]; omega
  | succ f ih =>
    simp only [clog10.go]
    split
    · omega
    · apply ih (k + 1) (p * 10)
      · rw [hp, Nat.pow_succ]
      · have : 1 ≤ p := by rw [hp]; exact Nat.pow_pos (by omega)
        omega

/-- `clog10 S` decimal digits suffice for `S` (the code's `ceil(log10(S + 1))`; float vs exact is a test) -/
theorem clog10_spec (S : Nat) : S + 1 ≤ 10 ^ clog10 S := by
  unfold clog10
  exact clog10_go_spec S (S + 1) 0 1 rfl (by omega)

/-- the digit lists for positions `j, j+1, …, j+len-1` -/
def digs (S : Nat) (j len : Nat) : List (List Nat) :=
  (List.range' j len).map (fun i => rangeStepTail (min (S + 1) (10 ^ (i + 1))) (10 ^ i))

theorem slackLog10_eq_digs (S : Nat) : slackLog10 S = digs S 0 (clog10 S) := by
  simp [slackLog10, digs, List.range_eq_range']

theorem digs_reps (S len j t : Nat) (hdiv : t % 10 ^ j = 0) (hlt : t < 10 ^ (j + len)) (hS : t ≤ S) :
    RepsOH (digs S j len) t := by
  induction len generalizing j t with
  | zero =>
    simp only [digs, List.range'_zero, List.map_nil, RepsOH]
    have : t < 10 ^ j := by simpa using hlt
    have hd := Nat.div_add_mod t (10 ^ j)
    have : t / 10 ^ j = 0 := Nat.div_eq_of_lt this
    rw [this, hdiv] at hd; simp at hd; omega
  | succ len ih =>
    have hm : 0 < 10 ^ (j + 1) := Nat.pow_pos (by omega)
    have hdm := Nat.div_add_mod t (10 ^ (j + 1))
    have hmodlt := Nat.mod_lt t hm
    simp only [digs, List.range'_succ, List.map_cons, RepsOH]
    refine ⟨t % 10 ^ (j + 1), ?_, t - t % 10 ^ (j + 1), ?_, by omega⟩
    · by_cases h0 : t % 10 ^ (j + 1) = 0
      · exact Or.inl h0
      · right
        rw [mem_rangeStepTail]
        refine ⟨by omega, ?_, h0⟩
        rw [Nat.mod_mod_of_dvd _ (Nat.pow_dvd_pow 10 (Nat.le_succ j))]
        exact hdiv
    · have hr : t - t % 10 ^ (j + 1) = 10 ^ (j + 1) * (t / 10 ^ (j + 1)) := by omega
      apply ih (j + 1) _
      · rw [hr]; exact Nat.mul_mod_right _ _
      · have : j + 1 + len = j + (len + 1) := by omega
        rw [this]; omega
      · omega

/-- C16 `slack_log10_covers_partial`: every value `0..S` is reachable with the log10 digit variables.
    The converse fails (`slack_log10_overshoots`), which is defect D17. -/
theorem slack_log10_covers (S t : Nat) (h : t ≤ S) : RepsOH (slackLog10 S) t := by
  rw [slackLog10_eq_digs]
  apply digs_reps S (clog10 S) 0 t (by simp [Nat.mod_one]) _ h
  have := clog10_spec S
  simp only [Nat.zero_add]; omega

/-- D17 witness: for `S = 15` the digit variables `[1..9]` and `[10]` reach 19 > S -/
theorem slack_log10_overshoots : RepsOH (slackLog10 15) 19 ∧ ¬ (19 ≤ 15) := by
  refine ⟨⟨9, Or.inr (by decide), 10, ⟨10, Or.inr (by decide), 0, rfl, rfl⟩, rfl⟩, by decide⟩
