/-! Feasibility prototype (scratch, not part of /verif): slack coefficients
    `[1,2,..,2^(k-1)] ++ [S - 2^k + 1]`, `k = Nat.log2 S`, represent exactly `0..S`. -/

/-- dot product of a 0/1 choice vector with coefficients -/
def dot : List Bool → List Nat → Nat
  | b :: bs, c :: cs => (if b then c else 0) + dot bs cs
  | _, _ => 0

def Reps (cs : List Nat) (t : Nat) : Prop := ∃ bs : List Bool, bs.length = cs.length ∧ dot bs cs = t

/-- powers of two `2^0 .. 2^(k-1)` -/
def pows : Nat → List Nat
  | 0 => []
  | k+1 => pows k ++ [2^k]

theorem dot_append (b1 b2 : List Bool) (c1 c2 : List Nat) (h : b1.length = c1.length) :
    dot (b1 ++ b2) (c1 ++ c2) = dot b1 c1 + dot b2 c2 := by
  induction b1 generalizing c1 with
  | nil => cases c1 <;> simp_all [dot]
  | cons b bs ih =>
    cases c1 with
    | nil => simp at h
    | cons c cs =>
      simp only [List.cons_append, dot]
      rw [ih cs (by simpa using h)]
      omega

theorem pows_length (k : Nat) : (pows k).length = k := by
  induction k with
  | zero => rfl
  | succ k ih => simp [pows, ih]

theorem dot_le_sum (bs : List Bool) (cs : List Nat) : dot bs cs ≤ cs.sum := by
  induction bs generalizing cs with
  | nil => cases cs <;> simp [dot]
  | cons b bs ih =>
    cases cs with
    | nil => simp [dot]
    | cons c cs =>
      have := ih cs
      simp only [dot, List.sum_cons]
      split <;> omega

theorem pows_sum (k : Nat) : (pows k).sum + 1 = 2^k := by
  induction k with
  | zero => rfl
  | succ k ih => simp [pows, List.sum_append, Nat.pow_succ]; omega

/-- every `t < 2^k` is a subset sum of the first `k` powers of two -/
theorem pows_repr (k t : Nat) (h : t < 2^k) : Reps (pows k) t := by
  induction k generalizing t with
  | zero => exact ⟨[], rfl, by simp [pows, dot]; omega⟩
  | succ k ih =>
    by_cases hlt : t < 2^k
    · obtain ⟨bs, hl, hd⟩ := ih t hlt
      refine ⟨bs ++ [false], by simp [pows, hl], ?_⟩
      rw [pows, dot_append _ _ _ _ hl, hd]; simp [dot]
    · have : t - 2^k < 2^k := by rw [Nat.pow_succ] at h; omega
      obtain ⟨bs, hl, hd⟩ := ih (t - 2^k) this
      refine ⟨bs ++ [true], by simp [pows, hl], ?_⟩
      rw [pows, dot_append _ _ _ _ hl, hd]; simp [dot]; omega

/-- the coefficient list built by `add_linear_inequality_constraint` / `binary_encoding` -/
def slackCoeffs (S : Nat) : List Nat := pows (Nat.log2 S) ++ [S - 2^(Nat.log2 S) + 1]

theorem log2_spec (S : Nat) (h : S ≠ 0) : 2^(Nat.log2 S) ≤ S ∧ S < 2^(Nat.log2 S + 1) :=
  ⟨Nat.log2_self_le h, Nat.lt_log2_self⟩

/-- C16 `slack_log2_covers`: exactly the integers `0..S`. -/
theorem slack_covers (S : Nat) (hS : 1 ≤ S) (t : Nat) : Reps (slackCoeffs S) t ↔ t ≤ S := by
  have ⟨hlo, hhi⟩ := log2_spec S (by omega)
  have hsum := pows_sum (Nat.log2 S)
  constructor
  · rintro ⟨bs, _, rfl⟩
    have := dot_le_sum bs (slackCoeffs S)
    simp only [slackCoeffs, List.sum_append, List.sum_cons, List.sum_nil] at this ⊢
    omega
  · intro ht
    rw [Nat.pow_succ] at hhi
    by_cases hlt : t < 2^(Nat.log2 S)
    · obtain ⟨bs, hl, hd⟩ := pows_repr _ t hlt
      refine ⟨bs ++ [false], by simp [slackCoeffs, hl], ?_⟩
      rw [slackCoeffs, dot_append _ _ _ _ hl, hd]; simp [dot]
    · have : t - (S - 2^(Nat.log2 S) + 1) < 2^(Nat.log2 S) := by omega
      obtain ⟨bs, hl, hd⟩ := pows_repr _ _ this
      refine ⟨bs ++ [true], by simp [slackCoeffs, hl], ?_⟩
      rw [slackCoeffs, dot_append _ _ _ _ hl, hd]; simp [dot]; omega

#print axioms slack_covers
example : Reps (slackCoeffs 6) 5 := (slack_covers 6 (by decide) 5).2 (by decide)
