import DimodProofs.BqmLoops

/-! `flip_variable` and `contract_variables`, issued on the model itself, refine the same loops of algebraic
    steps over the polynomial's neighbour list.  Core Lean only. -/

namespace Bqm

/-! ### small facts -/

theorem vt_indexP (m : Bqm) (v : Label) : (m.indexP v).1.vt = m.vt := by
  unfold Bqm.indexP; cases m.indexOf? v <;> rfl

theorem vt_addLinear (m : Bqm) (v : Label) (b : Rat) : (m.addLinear v b).vt = m.vt := by
  unfold Bqm.addLinear; exact vt_indexP m v

theorem vt_setLinear (m : Bqm) (v : Label) (b : Rat) : (m.setLinear v b).vt = m.vt := by
  unfold Bqm.setLinear; exact vt_indexP m v

theorem vt_quadOp (m : Bqm) (u v : Label) (b : Rat) (s : Bool) : (m.quadOp u v b s).1.vt = m.vt := by
  unfold Bqm.quadOp
  split
  · rfl
  · show ((m.indexP u).1.indexP v).1.vt = m.vt
    rw [vt_indexP, vt_indexP]

theorem vt_removeInteraction (m : Bqm) (u v : Label) : (m.removeInteraction u v).1.vt = m.vt := by
  unfold Bqm.removeInteraction
  cases m.indexOf? u with
  | none => rfl
  | some ui =>
    cases m.indexOf? v with
    | none => rfl
    | some vi => simp only []; cases nbhCoef (m.adj.getD ui []) vi <;> rfl

theorem vQuadFactor_self (m : Bqm) : m.vQuadFactor m.vt = 1 := by unfold Bqm.vQuadFactor; simp

/-- the stored neighbourhood of `v`, seen from the polynomial -/
theorem nbh_label_facts {m : Bqm} (i : Inv m) {v : Label} {vi : Nat} (hv : m.indexOf? v = some vi) :
    ∀ p ∈ m.nbhAt vi, p.1 < m.labels.length ∧ (absL m).quad v (m.labels.getD p.1 (.int 0)) = some p.2 := by
  intro p hp
  have hlt : p.1 < m.labels.length := by
    rw [i.wf.labels_len]
    apply i.wf.adj.bound vi p.1
    show (nbhCoef (m.adj.getD vi []) p.1).isSome
    rw [nbhCoef_isSome_iff]; exact ⟨p, hp, rfl⟩
  refine ⟨hlt, ?_⟩
  apply mem_nbrs
  rw [nbrs_absL i hv]
  exact List.mem_map.mpr ⟨p, hp, rfl⟩

theorem quad_self_none {m : Bqm} (i : Inv m) (v : Label) : (absL m).quad v v = none := by
  show m.quadL v v = none
  unfold quadL
  cases hv : m.indexOf? v with
  | none => rfl
  | some vi => exact i.wf.adj.noself vi rfl

theorem lin_absL {m : Bqm} {v : Label} {vi : Nat} (hv : m.indexOf? v = some vi) : (absL m).lin v = m.linAt vi := by
  show m.linL v = _; unfold linL Bqm.linAt; rw [hv]

/-! ### flip -/

/-- `flip_variable(v)` on the polynomial: the loop of the Python method over the neighbours of `v` -/
def LPoly.flip (p : LPoly) (v : Label) : LPoly :=
  match p.vt with
  | .spin =>
    let q := (p.nbrs v).foldl (fun q lc => q.quadOp lc.1 v (-1 * lc.2) true) p
    q.setLinear v (-1 * q.lin v)
  | .binary =>
    let q := (p.nbrs v).foldl (fun q lc => (q.quadOp lc.1 v (-1 * lc.2) true).addLinear lc.1 lc.2) p
    let q2 : LPoly := { q with off := q.off + q.lin v }
    q2.setLinear v (-1 * q2.lin v)

theorem absL_vt (m : Bqm) : (absL m).vt = m.vt := rfl

theorem flip_refines {m : Bqm} (i : Inv m) (v : Label) {vi : Nat} (hv : m.indexOf? v = some vi) :
    absL (m.vFlip m.vt false v).1 = (absL m).flip v ∧ (m.vFlip m.vt false v).2 = none ∧ Inv (m.vFlip m.vt false v).1 := by
  have facts := nbh_label_facts i hv
  have hb : ∀ p ∈ m.nbhAt vi, p.1 < m.labels.length := fun p hp => (facts p hp).1
  have hgood : ∀ p ∈ m.nbhAt vi, (m.labels.getD p.1 (.int 0)) ≠ v := by
    intro p hp e
    have := (facts p hp).2
    rw [e, quad_self_none i v] at this; cases this
  unfold Bqm.vFlip LPoly.flip
  rw [hv, absL_vt, vQuadFactor_self]
  simp only []
  cases hvt : m.vt with
  | spin =>
    simp only []
    have L := loop_refines m (m.nbhAt vi) hb
      (fun acc ul c => acc.setQuadVia VT.spin false ul v (-1 * (1 * c)))
      (fun q l c => q.quadOp l v (-1 * c) true) (fun a => a.vt = m.vt) (fun l => l ≠ v) hgood
      (by
        intro acc ia qa l c hl
        have e : (1 : Rat) * c = c := Rat.one_mul c
        show absL (acc.setQuadVia VT.spin false l v (-1 * (1 * c))) = _ ∧ _
        rw [e]
        unfold Bqm.setQuadVia
        simp only [Bool.false_eq_true, if_false]
        exact ⟨quadOp_refines ia.wf l v _ true hl, ia.quadOp l v _ true, ext_quadOp acc l v _ true,
          by rw [vt_quadOp]; exact qa⟩)
      m i (LabelsExt.refl m) rfl
    rw [← nbrs_absL i hv] at L
    obtain ⟨hL, iL, eL, qL⟩ := L
    generalize (m.nbhAt vi).foldl (loopBody fun acc ul c => acc.setQuadVia VT.spin false ul v (-1 * (1 * c))) m = m1 at hL iL eL qL
    have hv1 : m1.indexOf? v = some vi := eL.indexOf? hv
    have e1 : m1.vSetLinear VT.spin v (-1 * m1.vGetLinear VT.spin vi) = m1.setLinear v (-1 * m1.linAt vi) := by
      unfold Bqm.vSetLinear Bqm.vGetLinear
      rw [qL, hvt]; simp
    rw [e1]
    refine ⟨?_, trivial, iL.setLinear v _⟩
    rw [setLinear_refines iL.wf, ← lin_absL hv1, hL]
  | binary =>
    simp only []
    have L := loop_refines m (m.nbhAt vi) hb
      (fun acc ul c => (acc.setQuadVia VT.binary false ul v (-1 * (1 * c))).vAddLinear VT.binary ul (1 * c))
      (fun q l c => (q.quadOp l v (-1 * c) true).addLinear l c) (fun a => a.vt = m.vt) (fun l => l ≠ v) hgood
      (by
        intro acc ia qa l c hl
        have e : (1 : Rat) * c = c := Rat.one_mul c
        show absL ((acc.setQuadVia VT.binary false l v (-1 * (1 * c))).vAddLinear VT.binary l (1 * c)) = _ ∧ _
        rw [e]
        unfold Bqm.setQuadVia
        simp only [Bool.false_eq_true, if_false]
        have hq := ia.quadOp l v (-1 * c) true
        have hvq : (acc.quadOp l v (-1 * c) true).1.vt = VT.binary := by rw [vt_quadOp, qa, hvt]
        have ev : (acc.quadOp l v (-1 * c) true).1.vAddLinear VT.binary l c = (acc.quadOp l v (-1 * c) true).1.addLinear l c := by
          unfold Bqm.vAddLinear; rw [hvq]; simp
        rw [ev]
        refine ⟨?_, hq.addLinear l c, (ext_quadOp acc l v _ true).trans (ext_addLinear _ l c), ?_⟩
        · rw [addLinear_refines hq.wf, quadOp_refines ia.wf l v _ true hl]
        · rw [vt_addLinear, vt_quadOp]; exact qa)
      m i (LabelsExt.refl m) rfl
    rw [← nbrs_absL i hv] at L
    obtain ⟨hL, iL, eL, qL⟩ := L
    generalize (m.nbhAt vi).foldl (loopBody fun acc ul c =>
      (acc.setQuadVia VT.binary false ul v (-1 * (1 * c))).vAddLinear VT.binary ul (1 * c)) m = m1 at hL iL eL qL
    have hv1 : m1.indexOf? v = some vi := eL.indexOf? hv
    have e0 : m1.vSetOffset VT.binary (m1.vOffset VT.binary + m1.vGetLinear VT.binary vi) = { m1 with off := m1.off + m1.linAt vi } := by
      unfold Bqm.vSetOffset Bqm.vOffset Bqm.vGetLinear
      rw [qL, hvt]; simp
    rw [e0]
    have i2 : Inv { m1 with off := m1.off + m1.linAt vi } := iL.withOff _
    have hv2 : ({ m1 with off := m1.off + m1.linAt vi } : Bqm).indexOf? v = some vi := hv1
    have e1 : ({ m1 with off := m1.off + m1.linAt vi } : Bqm).vSetLinear VT.binary v
        (-1 * ({ m1 with off := m1.off + m1.linAt vi } : Bqm).vGetLinear VT.binary vi)
        = ({ m1 with off := m1.off + m1.linAt vi } : Bqm).setLinear v (-1 * m1.linAt vi) := by
      unfold Bqm.vSetLinear Bqm.vGetLinear
      show (if VT.binary = m1.vt then _ else _) = _
      rw [qL, hvt]; simp; rfl
    rw [e1]
    refine ⟨?_, trivial, i2.setLinear v _⟩
    have hoff : m1.off = (absL m1).off := rfl
    rw [setLinear_refines i2.wf, absL_withOff, ← lin_absL hv1, hoff, hL]

/-! ### contract -/

theorem quad_absL {m : Bqm} {a b : Label} {x y : Nat} (ha : m.indexOf? a = some x) (hb : m.indexOf? b = some y) :
    (absL m).quad a b = coefAt m.adj x y := by
  show m.quadL a b = _; unfold quadL; rw [ha, hb]

theorem quad_symm {m : Bqm} (i : Inv m) (a b : Label) : (absL m).quad a b = (absL m).quad b a := by
  show m.quadL a b = m.quadL b a
  unfold quadL
  cases m.indexOf? a with
  | none => cases m.indexOf? b <;> rfl
  | some x =>
    cases m.indexOf? b with
    | none => rfl
    | some y => exact i.wf.adj.symm x y

/-- the part of `contract_variables` after the linear bias of `v` and the bias of `(u, v)` have been folded in -/
def LPoly.contractTail (p2 : LPoly) (u v : Label) : LPoly :=
  let p3 := if (p2.quad u v).isSome then p2.removeInteraction u v else p2
  let p4 := (p3.nbrs v).foldl (fun r lc => r.quadOp u lc.1 lc.2 false) p3
  p4.removeVariable v

theorem contract_tail {m2 : Bqm} (tv : VT) (i2 : Inv m2) (vt2 : m2.vt = tv) (u v : Label) {ui vi : Nat}
    (hu2 : m2.indexOf? u = some ui) (hv2 : m2.indexOf? v = some vi) :
    absL (((m2.vRemoveInteraction tv u v).1.nbhAt vi).foldl
        (loopBody fun acc wl c => acc.vAddQuadratic tv u wl ((m2.vRemoveInteraction tv u v).1.vQuadFactor tv * c))
        (m2.vRemoveInteraction tv u v).1 |>.vRemoveVariable tv (some v)).1 = (absL m2).contractTail u v ∧
    (((m2.vRemoveInteraction tv u v).1.nbhAt vi).foldl
        (loopBody fun acc wl c => acc.vAddQuadratic tv u wl ((m2.vRemoveInteraction tv u v).1.vQuadFactor tv * c))
        (m2.vRemoveInteraction tv u v).1 |>.vRemoveVariable tv (some v)).2 = none ∧
    Inv (((m2.vRemoveInteraction tv u v).1.nbhAt vi).foldl
        (loopBody fun acc wl c => acc.vAddQuadratic tv u wl ((m2.vRemoveInteraction tv u v).1.vQuadFactor tv * c))
        (m2.vRemoveInteraction tv u v).1 |>.vRemoveVariable tv (some v)).1 := by
  subst vt2
  unfold LPoly.contractTail
  have e3 : m2.vRemoveInteraction m2.vt u v = m2.removeInteraction u v := by
    unfold Bqm.vRemoveInteraction; simp
  rw [e3]
  have step3 : absL (m2.removeInteraction u v).1 = (if ((absL m2).quad u v).isSome then (absL m2).removeInteraction u v else absL m2) ∧
      (absL (m2.removeInteraction u v).1).quad v u = none := by
    by_cases hq : ((absL m2).quad u v).isSome
    · have r := removeInteraction_refines i2.wf u v hq
      rw [if_pos hq, r.1]
      refine ⟨rfl, ?_⟩
      show (if (v = u ∧ u = v) ∨ (v = v ∧ u = u) then none else (absL m2).quad v u) = none
      simp
    · rw [if_neg hq]
      have hnone : (absL m2).quad u v = none := by
        cases h : (absL m2).quad u v with
        | none => rfl
        | some c => rw [h] at hq; exact absurd rfl hq
      have key : m2.removeInteraction u v = (m2, some ErrC.value) := by
        unfold Bqm.removeInteraction
        rw [hu2, hv2]
        have : nbhCoef (m2.adj.getD ui []) vi = none := by
          have := hnone; rw [quad_absL hu2 hv2] at this; exact this
        simp only [this]
      rw [key]
      exact ⟨rfl, by rw [quad_symm i2]; exact hnone⟩
  have i3 := i2.removeInteraction u v
  have x3 := ext_removeInteraction m2 u v
  have vt3 : (m2.removeInteraction u v).1.vt = m2.vt := vt_removeInteraction m2 u v
  obtain ⟨r3, hnone3⟩ := step3
  rw [← r3]
  generalize (m2.removeInteraction u v).1 = m3 at i3 x3 vt3 r3 hnone3
  have hu3 := x3.indexOf? hu2
  have hv3 := x3.indexOf? hv2
  have facts := nbh_label_facts i3 hv3
  have hf : m3.vQuadFactor m2.vt = 1 := by rw [← vt3]; exact vQuadFactor_self m3
  rw [hf]
  have L := loop_refines m3 (m3.nbhAt vi) (fun p hp => (facts p hp).1)
    (fun acc wl c => acc.vAddQuadratic m2.vt u wl (1 * c))
    (fun r l c => r.quadOp u l c false) (fun a => a.vt = m2.vt) (fun l => u ≠ l)
    (by
      intro p hp e
      have := (facts p hp).2
      rw [← e, hnone3] at this; cases this)
    (by
      intro acc ia qa l c hl
      have e : (1 : Rat) * c = c := Rat.one_mul c
      show absL (acc.vAddQuadratic m2.vt u l (1 * c)) = _ ∧ _
      rw [e]
      have ev : acc.vAddQuadratic m2.vt u l c = (acc.quadOp u l c false).1 := by
        unfold Bqm.vAddQuadratic; rw [qa]; simp
      rw [ev]
      exact ⟨quadOp_refines ia.wf u l c false hl, ia.quadOp u l c false, ext_quadOp acc u l c false,
        by rw [vt_quadOp]; exact qa⟩)
    m3 i3 (LabelsExt.refl m3) vt3
  rw [← nbrs_absL i3 hv3] at L
  obtain ⟨hL, iL, eL, qL⟩ := L
  generalize (m3.nbhAt vi).foldl (loopBody fun acc wl c => acc.vAddQuadratic m2.vt u wl (1 * c)) m3 = m4 at hL iL eL qL
  have hv4 := eL.indexOf? hv3
  have e5 : m4.vRemoveVariable m2.vt (some v) = (m4.removeAt vi, none) := by
    unfold Bqm.vRemoveVariable; rw [qL]; simp only [if_true]
    unfold Bqm.removeVariable; simp only [hv4]
  rw [e5]
  refine ⟨?_, rfl, iL.removeAt vi (by rw [← iL.wf.labels_len]; exact (indexOf?_some hv4).1)⟩
  rw [removeAt_refines iL.wf iL.nodup hv4, hL]

/-- `contract_variables(u, v)` on the polynomial, as the Python method does it -/
def LPoly.contract (p : LPoly) (u v : Label) : LPoly :=
  let p1 := p.addLinear u (p.lin v)
  let q := (p1.quad u v).getD 0
  match p.vt with
  | .binary => (p1.addLinear u q).contractTail u v
  | .spin => ({ p1 with off := p1.off + q } : LPoly).contractTail u v

theorem contract_refines {m : Bqm} (i : Inv m) (u v : Label) {ui vi : Nat} (hu : m.indexOf? u = some ui)
    (hv : m.indexOf? v = some vi) (hne : u ≠ v) :
    absL (m.vContract m.vt u v).1 = (absL m).contract u v ∧ (m.vContract m.vt u v).2 = none ∧
    Inv (m.vContract m.vt u v).1 := by
  have hne' : ui ≠ vi := fun e => hne ((idx_eq_iff hu hv).mp e)
  unfold Bqm.vContract LPoly.contract
  rw [hu, hv, absL_vt]
  simp only [hne', if_false]
  have e1 : m.vAddLinear m.vt u (m.vGetLinear m.vt vi) = m.addLinear u (m.linAt vi) := by
    unfold Bqm.vAddLinear Bqm.vGetLinear; simp
  rw [e1, ← lin_absL hv]
  have i1 := i.addLinear u ((absL m).lin v)
  have r1 := addLinear_refines i.wf u ((absL m).lin v)
  have x1 := ext_addLinear m u ((absL m).lin v)
  have vt1 := vt_addLinear m u ((absL m).lin v)
  rw [← r1]
  generalize m.addLinear u ((absL m).lin v) = m1 at i1 r1 x1 vt1
  have hu1 := x1.indexOf? hu
  have hv1 := x1.indexOf? hv
  have eq1 : (m1.vGetQuadratic m.vt ui vi).getD 0 = ((absL m1).quad u v).getD 0 := by
    unfold Bqm.vGetQuadratic
    rw [← vt1, vQuadFactor_self, quad_absL hu1 hv1]
    show ((coefAt m1.adj ui vi).map (1 * ·)).getD 0 = _
    cases coefAt m1.adj ui vi with
    | none => rfl
    | some c => simp [Rat.one_mul]
  rw [eq1]
  cases hvt : m.vt with
  | binary =>
    simp only []
    have e : m1.vAddLinear VT.binary u (((absL m1).quad u v).getD 0) = m1.addLinear u (((absL m1).quad u v).getD 0) := by
      unfold Bqm.vAddLinear; rw [vt1, hvt]; simp
    rw [e, ← addLinear_refines i1.wf]
    exact contract_tail VT.binary (i1.addLinear u _) (by rw [vt_addLinear, vt1, hvt]) u v
      ((ext_addLinear m1 u _).indexOf? hu1) ((ext_addLinear m1 u _).indexOf? hv1)
  | spin =>
    simp only []
    have e : m1.vSetOffset VT.spin (m1.vOffset VT.spin + ((absL m1).quad u v).getD 0)
        = { m1 with off := m1.off + ((absL m1).quad u v).getD 0 } := by
      unfold Bqm.vSetOffset Bqm.vOffset; rw [vt1, hvt]; simp
    rw [e]
    have hoff : (absL m1).off = m1.off := rfl
    rw [hoff, ← absL_withOff]
    exact contract_tail VT.spin (i1.withOff _) (by show m1.vt = VT.spin; rw [vt1, hvt]) u v hu1 hv1

end Bqm
