import DimodProofs.ZipStrict
import DimodProofs.CqmClosed

/-! # Every proper prefix of a written archive file is refused by the round-8 opener, whatever the payload  (C10, round 8)

Pieces: what `_EndRecData` returns lies inside the file and carries the signature (`endRecData_spec`); the walk only moves
forward (`tilesFromStrict_mono`) and a walk that ends inside a prefix of a file is a walk on the file
(`tilesFromStrict_of_take`); over written local entries followed by something that is not a local header the walk lists at
most the written members (`tilesFromStrict_sound'`); a directory needs `PK\x01\x02` where it starts (`parseCD_head`). -/

namespace FileFmt

theorem zipTrunc_take4_of_sigAt {w : Bytes} {i : Nat} (h : SigAt w i) : (w.drop i).take 4 = sigEOCD := by
  unfold SigAt at h
  obtain ⟨t, ht⟩ := h
  rw [← ht, List.take_left' (by rfl)]

/-- the record `_EndRecData` returns lies inside the file and starts with the end-record signature -/
theorem endRecData_spec (P : Bytes) (r : EndRec) (h : endRecData P = some r) :
    r.location + 22 ≤ P.length ∧ (P.drop r.location).take 4 = sigEOCD := by
  unfold endRecData at h
  split at h
  · rename_i hc
    obtain ⟨h22, hsig, _⟩ := hc
    simp only [Option.some.injEq] at h
    subst h
    simp only
    rw [List.length_drop] at h22
    exact ⟨by omega, hsig⟩
  · split at h
    · simp at h
    · rename_i start hs
      split at h
      · simp at h
      · rename_i hl
        simp only [Option.some.injEq] at h
        subst h
        simp only
        have h4 := zipTrunc_take4_of_sigAt (rfindSig_sigAt _ _ hs)
        rw [List.drop_drop] at h4 hl
        simp only [ne_eq, Decidable.not_not, List.length_take, List.length_drop] at hl
        exact ⟨by omega, h4⟩

/-- the walk only moves forward -/
theorem tilesFromStrict_mono (file : Bytes) (sd ocd : Nat) : ∀ (infos : List CDInfo) (pos p : Nat),
    tilesFromStrict file sd ocd pos infos = some p → pos ≤ p
  | [], pos, p, h => by simp only [tilesFromStrict, Option.some.injEq] at h; omega
  | i :: t, pos, p, h => by
    simp only [tilesFromStrict] at h
    split at h
    · simp at h
    · split at h
      · simp at h
      · have := tilesFromStrict_mono file sd ocd t _ p h; omega

theorem zipTrunc_take_drop_take (F : Bytes) (k x n : Nat) (h : x + n ≤ k) : ((F.take k).drop x).take n = (F.drop x).take n := by
  rw [List.drop_take, List.take_take]; congr 1; omega

/-- what the walk reads of one member, as a function of the bytes from the member's position on -/
def walkReads (loc : Bytes) : Bytes × Nat × Nat × Bytes × Bytes :=
  let h := loc.take 30
  let nlen := leNat ((h.drop 26).take 2)
  let elen := leNat ((h.drop 28).take 2)
  (h, nlen, elen, (loc.drop 30).take nlen, (loc.drop (30 + nlen)).take elen)

theorem tilesFromStrict_cons (file : Bytes) (sd ocd pos : Nat) (i : CDInfo) (t : List CDInfo) :
    tilesFromStrict file sd ocd pos (i :: t) =
      if i.offset + sd < ocd then none
      else
        let w := walkReads (file.drop (i.offset + sd - ocd))
        if i.offset + sd - ocd ≠ pos ∨ w.1.length ≠ 30 ∨ w.1.take 4 ≠ sigLocal ∨ w.2.2.2.2.length ≠ w.2.2.1 ∨
            localSize w.1 w.2.2.2.2 ≠ i.csize ∨ w.2.2.2.1 ≠ i.name then none
        else tilesFromStrict file sd ocd (pos + 30 + w.2.1 + w.2.2.1 + i.csize) t := by
  simp only [tilesFromStrict, walkReads]
  rfl

/-- the reads of one member that ends before `k` are the same in the file and in its first `k` bytes -/
theorem walkReads_take (F : Bytes) (k x : Nat) (hx : x + 30 ≤ k)
    (hk : x + 30 + (walkReads ((F.take k).drop x)).2.1 + (walkReads ((F.take k).drop x)).2.2.1 ≤ k) :
    walkReads ((F.take k).drop x) = walkReads (F.drop x) := by
  have e30 : ((F.take k).drop x).take 30 = (F.drop x).take 30 := zipTrunc_take_drop_take F k x 30 hx
  simp only [walkReads] at hk ⊢
  rw [e30] at hk ⊢
  have en : (((F.take k).drop x).drop 30).take (leNat ((((F.drop x).take 30).drop 26).take 2)) =
      ((F.drop x).drop 30).take (leNat ((((F.drop x).take 30).drop 26).take 2)) := by
    rw [List.drop_drop, List.drop_drop, zipTrunc_take_drop_take F k (x + 30) _ (by omega)]
  have ee : (((F.take k).drop x).drop (30 + leNat ((((F.drop x).take 30).drop 26).take 2))).take (leNat ((((F.drop x).take 30).drop 28).take 2)) =
      ((F.drop x).drop (30 + leNat ((((F.drop x).take 30).drop 26).take 2))).take (leNat ((((F.drop x).take 30).drop 28).take 2)) := by
    rw [List.drop_drop, List.drop_drop, zipTrunc_take_drop_take F k _ _ (by omega)]
  rw [en, ee]

/-- **a walk that ends inside the first `k` bytes of a file is a walk on the file** -/
theorem tilesFromStrict_of_take (F : Bytes) (k sd ocd : Nat) : ∀ (infos : List CDInfo) (pos p : Nat),
    tilesFromStrict (F.take k) sd ocd pos infos = some p → p ≤ k → tilesFromStrict F sd ocd pos infos = some p
  | [], pos, p, h, _ => by simpa [tilesFromStrict] using h
  | i :: t, pos, p, h, hp => by
    rw [tilesFromStrict_cons] at h ⊢
    split at h
    · simp at h
    · rename_i hoff
      rw [if_neg hoff]
      simp only at h ⊢
      split at h
      · simp at h
      · rename_i hc
        have hm := tilesFromStrict_mono _ sd ocd t _ p h
        simp only [not_or, ne_eq, Decidable.not_not] at hc
        have hx : i.offset + sd - ocd = pos := hc.1
        have hw := walkReads_take F k (i.offset + sd - ocd) (by omega) (by omega)
        rw [hw] at h hc
        rw [if_neg (by simp only [not_or, ne_eq, Decidable.not_not]; exact hc)]
        exact tilesFromStrict_of_take F k sd ocd t _ p h hp

/-- over the written local entries `zs` followed by bytes that do not start a local header, the walk lists at most the
    written members: names, sizes, order, boundary (no bound on `infos` assumed) -/
theorem tilesFromStrict_sound' (sd ocd : Nat) :
    ∀ (zs : List ZEntry) (pre post : Bytes) (infos : List CDInfo) (p : Nat), (∀ z ∈ zs, z.LocalOK) → post.take 4 ≠ sigLocal →
    tilesFromStrict (pre ++ (zipLocals zs ++ post)) sd ocd pre.length infos = some p →
    infos.length ≤ zs.length ∧ p = pre.length + (zipLocals (zs.take infos.length)).length
  | _, _, _, [], p, _, _, h => by
    simp only [tilesFromStrict, Option.some.injEq] at h
    simp [zipLocals, h.symm]
  | [], pre, post, i :: t, p, _, hpost, h => by
    rw [tilesFromStrict_cons] at h
    split at h
    · simp at h
    · simp only at h
      split at h
      · simp at h
      · rename_i hc
        simp only [not_or, ne_eq, Decidable.not_not] at hc
        obtain ⟨hx, _, hsig, _⟩ := hc
        rw [hx] at hsig
        simp only [walkReads, zipLocals, List.nil_append, List.drop_left' rfl] at hsig
        rw [List.take_take] at hsig
        exact absurd hsig hpost
  | z :: zs, pre, post, i :: t, p, hz, hpost, h => by
    obtain ⟨hsz, hn, he⟩ := hz z (by simp)
    have h2 : pre ++ (zipLocals (z :: zs) ++ post) = pre ++ (localEntry z ++ (zipLocals zs ++ post)) := by simp [zipLocals]
    have h3 : pre ++ (localEntry z ++ (zipLocals zs ++ post)) = (pre ++ localEntry z) ++ (zipLocals zs ++ post) := by simp
    rw [h2, tilesFromStrict_step sd ocd z pre _ i t hn he] at h
    split at h
    · rename_i hc
      obtain ⟨_, _, hcs, _⟩ := hc
      have hl : (pre ++ localEntry z).length = pre.length + 30 + z.name.length + z.lextra.length + i.csize := by
        rw [List.length_append, localEntry_length, ← hcs, hsz]; omega
      rw [h3, ← hl] at h
      obtain ⟨ih1, ih2⟩ := tilesFromStrict_sound' sd ocd zs (pre ++ localEntry z) post t p (fun y hy => hz y (by simp [hy])) hpost h
      refine ⟨by simp; omega, ?_⟩
      rw [ih2]
      simp only [List.length_cons, List.take_succ_cons, zipLocals, List.length_append]
      omega
    · exact absurd h (by simp)

/-- a non-empty directory starts with a complete 46-byte record carrying the directory signature -/
theorem parseCD_head (fuel s : Nat) (data : Bytes) (infos : List CDInfo) (h : parseCD fuel s data = some infos) (hs : s ≠ 0) :
    data.take 4 = sigCD := by
  cases fuel with
  | zero => simp [parseCD] at h
  | succ f =>
    simp only [parseCD] at h
    rw [if_neg hs] at h
    split at h
    · simp at h
    · rename_i hc
      simp only [not_or, ne_eq, Decidable.not_not] at hc
      have := hc.2
      rwa [List.take_take] at this

/-- an empty directory lists nothing -/
theorem parseCD_zero (fuel : Nat) (data : Bytes) (infos : List CDInfo) (h : parseCD fuel 0 data = some infos) : infos = [] := by
  cases fuel with
  | zero => simp [parseCD] at h
  | succ f => simpa [parseCD] using h.symm

theorem sortByOffset_length : ∀ l : List CDInfo, (sortByOffset l).length = l.length
  | [] => rfl
  | i :: t => by
    have hins : ∀ (j : CDInfo) (l : List CDInfo), (insertByOffset j l).length = l.length + 1 := by
      intro j l
      induction l with
      | nil => rfl
      | cons a l ih => simp only [insertByOffset]; split <;> simp [ih]
    simp [sortByOffset, hins, sortByOffset_length t]

/-! ### where a directory can stand -/

theorem zipLocals_append : ∀ a b : List ZEntry, zipLocals (a ++ b) = zipLocals a ++ zipLocals b
  | [], _ => rfl
  | z :: a, b => by simp [zipLocals, zipLocals_append a b]

theorem zipCD_append : ∀ (a b : List ZEntry) (off : Nat), zipCD off (a ++ b) = zipCD off a ++ zipCD (off + (zipLocals a).length) b
  | [], _, _ => by simp [zipCD, zipLocals]
  | z :: a, b, off => by
    simp only [List.cons_append, zipCD, zipLocals, zipCD_append a b, List.append_assoc, List.length_append]
    congr 3; omega

/-- at the boundary after `m < zs.length` written members the file holds a local header -/
theorem zipTrunc_boundary_is_local (pre post : Bytes) (zs : List ZEntry) (m : Nat) (hm : m < zs.length) :
    ((pre ++ (zipLocals zs ++ post)).drop (pre.length + (zipLocals (zs.take m)).length)).take 4 = sigLocal := by
  obtain ⟨z, rest, hd⟩ : ∃ z rest, zs.drop m = z :: rest := by
    cases h : zs.drop m with
    | nil => rw [List.drop_eq_nil_iff] at h; omega
    | cons z rest => exact ⟨z, rest, rfl⟩
  have hsplit : zs = zs.take m ++ z :: rest := by rw [← hd, List.take_append_drop]
  have hF : pre ++ (zipLocals zs ++ post) = (pre ++ zipLocals (zs.take m)) ++ (localFixed z ++ (z.name ++ (z.lextra ++ (z.stored ++ (zipLocals rest ++ post))))) := by
    conv => lhs; rw [hsplit]
    simp [zipLocals_append, zipLocals, localEntry, List.append_assoc]
  rw [hF, List.drop_left' (by simp), List.take_append_of_le_length (by rw [localFixed_length]; omega)]
  exact (localFixed_fields z).1

/-- one step of the directory loop on data cut after `s` bytes: only the number of records matters here -/
theorem parseCD_step_take (crc32 : Bytes → Nat) (inflate : Bytes → Option Bytes) (fuel s : Nat) (z : ZEntry) (off : Nat) (rest : Bytes)
    (hz : z.OK crc32 inflate) (hs : s ≠ 0) (infos : List CDInfo)
    (h : parseCD (fuel + 1) s ((cdEntry z off ++ rest).take s) = some infos) :
    46 ≤ s ∧ ∃ i infos', infos = i :: infos' ∧
      parseCD fuel (s - (cdEntry z off).length) (rest.take (s - (cdEntry z off).length)) = some infos' := by
  obtain ⟨_, _, _, _, _, hn, _, hce, _, _⟩ := hz
  obtain ⟨_, _, _, _, _, _, f7, f8, f9, _⟩ := cdFixed_fields z off
  have h46 : 46 ≤ s := by
    rw [parseCD, if_neg hs] at h
    simp only at h
    split at h
    · simp at h
    · rename_i hc
      simp only [not_or, ne_eq, Decidable.not_not] at hc
      have := hc.1
      rw [List.take_take, List.length_take] at this
      omega
  refine ⟨h46, ?_⟩
  have htake : ((cdEntry z off ++ rest).take s).take 46 = cdFixed z off := by
    rw [List.take_take, Nat.min_eq_left h46, cdEntry, List.append_assoc, List.take_left' (cdFixed_length z off)]
  have hdrop2 : ((cdEntry z off ++ rest).take s).drop (46 + z.name.length + z.cextra.length + 0) = rest.take (s - (cdEntry z off).length) := by
    rw [Nat.add_zero, ← cdEntry_length z off, List.drop_take, List.drop_left' rfl]
  rw [parseCD] at h
  simp only [if_neg hs, htake, f7, f8, f9, leNat_toLE 2 _ hn, leNat_toLE 2 _ hce, leNat_toLE 2 0 (by decide), hdrop2] at h
  split at h
  · simp at h
  · split at h
    · simp at h
    · rw [← cdEntry_length z off] at h
      simp only [Nat.add_zero] at h
      cases hp : parseCD fuel (s - (cdEntry z off).length) (rest.take (s - (cdEntry z off).length)) with
      | none => rw [hp] at h; simp at h
      | some infos' =>
        rw [hp] at h
        simp only [Option.map_some, Option.some.injEq] at h
        exact ⟨_, infos', h.symm, rfl⟩

/-- a directory of as many records as the writer wrote, read from the first `s` bytes of the written directory (+ anything),
    reaches into the last record's name -/
theorem parseCD_count (crc32 : Bytes → Nat) (inflate : Bytes → Option Bytes) (zl : ZEntry) (tail : Bytes) :
    ∀ (front : List ZEntry) (off fuel s : Nat) (infos : List CDInfo), (∀ z ∈ front ++ [zl], z.OK crc32 inflate) → s ≠ 0 →
    parseCD fuel s ((zipCD off (front ++ [zl]) ++ tail).take s) = some infos → infos.length = (front ++ [zl]).length →
    (zipCD off (front ++ [zl])).length ≤ s + zl.name.length + zl.cextra.length
  | [], off, fuel, s, infos, hz, hs, h, _ => by
    cases fuel with
    | zero => simp [parseCD] at h
    | succ f =>
      simp only [List.nil_append, zipCD, List.append_nil] at h ⊢
      obtain ⟨h46, _⟩ := parseCD_step_take crc32 inflate f s zl off tail (hz zl (by simp)) hs infos h
      rw [cdEntry_length]; omega
  | z :: front, off, fuel, s, infos, hz, hs, h, hlen => by
    cases fuel with
    | zero => simp [parseCD] at h
    | succ f =>
      simp only [List.cons_append, zipCD, List.append_assoc] at h ⊢
      obtain ⟨h46, i, infos', hi, hrest⟩ := parseCD_step_take crc32 inflate f s z off _ (hz z (by simp)) hs infos h
      subst hi
      have hlen' : infos'.length = (front ++ [zl]).length := by simpa using hlen
      have hs' : s - (cdEntry z off).length ≠ 0 := by
        intro h0
        rw [h0] at hrest
        have := parseCD_zero f _ infos' hrest
        rw [this] at hlen'
        simp at hlen'
      have ih := parseCD_count crc32 inflate zl tail front _ f _ infos' (fun y hy => hz y (by simp [hy])) hs' hrest hlen'
      rw [List.length_append]
      omega

/-- the end-record signature cannot start inside `x ++ e` before `e` when `x` has no byte 6 and `e` starts with the signature -/
theorem zipTrunc_no_sig_in_name (x e : Bytes) (d : Nat) (hd : d < x.length) (h6 : (6 : UInt8) ∉ x) (he : e.take 4 = sigEOCD) :
    ((x ++ e).drop d).take 4 ≠ sigEOCD := by
  intro h
  have h3 : (((x ++ e).drop d).take 4)[3]? = some 6 := by rw [h]; rfl
  rw [List.getElem?_take_of_lt (by omega), List.getElem?_drop] at h3
  by_cases hlt : d + 3 < x.length
  · rw [List.getElem?_append_left hlt] at h3
    exact h6 (List.mem_of_getElem? h3)
  · rw [List.getElem?_append_right (by omega)] at h3
    have hj : d + 3 - x.length < 3 := by omega
    have he' : (e.take 4)[d + 3 - x.length]? = e[d + 3 - x.length]? := List.getElem?_take_of_lt (by omega)
    rw [he] at he'
    rw [← he'] at h3
    have : d + 3 - x.length = 0 ∨ d + 3 - x.length = 1 ∨ d + 3 - x.length = 2 := by omega
    rcases this with h0 | h0 | h0 <;> rw [h0] at h3 <;> simp [sigEOCD] at h3

/-! ### the theorem -/

theorem zipTrunc_sig_ne : sigEOCD ≠ sigLocal ∧ sigCD ≠ sigLocal := by decide

/-- core: `F` = bytes in front, the written local entries, the written directory `CD`, a 22-byte end record `E` -/
theorem openTiledStrict_take_none_core (crc32 : Bytes → Nat) (inflate : Bytes → Option Bytes) (pre CD E F : Bytes) (front : List ZEntry)
    (zl : ZEntry) (hCD : CD = zipCD pre.length (front ++ [zl])) (hE22 : E.length = 22) (hEsig : E.take 4 = sigEOCD)
    (hF : F = pre ++ (zipLocals (front ++ [zl]) ++ (CD ++ E)))
    (hz : ∀ z ∈ front ++ [zl], z.OK crc32 inflate) (hl : ∀ z ∈ front ++ [zl], z.LocalOK)
    (h6 : (6 : UInt8) ∉ zl.name ++ zl.cextra) (k : Nat) (hk : k < F.length) :
    openTiledStrict crc32 inflate pre.length (F.take k) = none := by
  have hkl : (F.take k).length = k := by rw [List.length_take]; omega
  have hzpos : 0 < (front ++ [zl]).length := by simp
  have hCDhead : (CD ++ E).take 4 = sigCD := by
    rw [hCD, zipCD_append]
    simp only [zipCD, List.append_nil]
    cases front with
    | nil => simp [zipCD, cdEntry, cdFixed, sigCD]
    | cons z f => simp [zipCD, cdEntry, cdFixed, sigCD]
  have hFlen : F.length = pre.length + (zipLocals (front ++ [zl])).length + CD.length + 22 := by
    rw [hF]; simp only [List.length_append, hE22]; omega
  unfold openTiledStrict
  cases hr : endRecData (F.take k) with
  | none => rfl
  | some r =>
    simp only
    obtain ⟨hloc, hsigP⟩ := endRecData_spec _ r hr
    rw [hkl] at hloc
    cases hsd : r.startDir with
    | none => rfl
    | some sd =>
      simp only
      have hsdloc : sd + r.sizeCd = r.location := by
        unfold EndRec.startDir at hsd
        split at hsd
        · simp at hsd
        · simp only [Option.some.injEq] at hsd; omega
      cases hp : parseCD (r.sizeCd + 1) r.sizeCd (((F.take k).drop sd).take r.sizeCd) with
      | none => rfl
      | some infos =>
        simp only
        rw [if_neg]
        intro hw
        have hwF := tilesFromStrict_of_take F k sd r.offsetCd _ _ _ hw (by omega)
        rw [hF] at hwF
        obtain ⟨hm, hsdm⟩ := tilesFromStrict_sound' sd r.offsetCd (front ++ [zl]) pre (CD ++ E) _ sd hl
          (by rw [hCDhead]; exact zipTrunc_sig_ne.2) hwF
        rw [sortByOffset_length] at hm hsdm
        have hsigF : (F.drop r.location).take 4 = sigEOCD := by
          rw [← zipTrunc_take_drop_take F k r.location 4 (by omega)]; exact hsigP
        by_cases h0 : r.sizeCd = 0
        · rw [h0] at hp
          have hnil := parseCD_zero _ _ _ hp
          subst hnil
          have hb := zipTrunc_boundary_is_local pre (CD ++ E) (front ++ [zl]) 0 hzpos
          rw [← hF] at hb
          simp only [List.length_nil] at hsdm
          rw [← hsdm, show sd = r.location by omega, hsigF] at hb
          exact zipTrunc_sig_ne.1 hb
        · have hhead := parseCD_head _ _ _ _ hp h0
          have h4 : 4 ≤ r.sizeCd := by
            have := congrArg List.length hhead
            simp only [List.length_take, List.length_drop, sigCD, List.length_cons, List.length_nil] at this
            omega
          have hheadF : (F.drop sd).take 4 = sigCD := by
            rw [List.take_take, Nat.min_eq_left h4, zipTrunc_take_drop_take F k sd 4 (by omega)] at hhead; exact hhead
          by_cases hmn : infos.length < (front ++ [zl]).length
          · have hb := zipTrunc_boundary_is_local pre (CD ++ E) (front ++ [zl]) infos.length hmn
            rw [← hF, ← hsdm, hheadF] at hb
            exact zipTrunc_sig_ne.2 hb
          · have hmeq : infos.length = (front ++ [zl]).length := by omega
            rw [hmeq, List.take_length] at hsdm
            have hdropF : F.drop sd = CD ++ E := by
              rw [hF, hsdm, ← List.append_assoc, List.drop_left' (by simp)]
            have hdata : ((F.take k).drop sd).take r.sizeCd = (CD ++ E).take r.sizeCd := by
              rw [zipTrunc_take_drop_take F k sd _ (by omega), hdropF]
            rw [hdata, hCD] at hp
            have hcnt := parseCD_count crc32 inflate zl E front pre.length _ _ infos hz h0 hp hmeq
            rw [← hCD] at hcnt
            have hslt : r.sizeCd < CD.length := by omega
            obtain ⟨A, hA⟩ : ∃ A, A = zipCD pre.length front ++ cdFixed zl (pre.length + (zipLocals front).length) := ⟨_, rfl⟩
            obtain ⟨X, hX⟩ : ∃ X, X = zl.name ++ zl.cextra := ⟨_, rfl⟩
            have hXlen : X.length = zl.name.length + zl.cextra.length := by rw [hX, List.length_append]
            have hCDsplit : CD = A ++ X := by
              rw [hCD, hA, hX, zipCD_append]; simp [zipCD, cdEntry, List.append_assoc]
            have hAlen : CD.length = A.length + X.length := by rw [hCDsplit, List.length_append]
            have hwin : F.drop r.location = (X ++ E).drop (r.sizeCd - A.length) := by
              rw [← hsdloc, ← List.drop_drop, hdropF, hCDsplit, List.append_assoc, List.drop_append,
                List.drop_eq_nil_of_le (by omega), List.nil_append]
            rw [hwin] at hsigF
            rw [← hX] at h6
            exact zipTrunc_no_sig_in_name X E _ (by omega) h6 hEsig hsigF

/-- **every proper prefix of a written archive file is refused by the round-8 opener, whatever the payload**: for bytes `pre`
    (the dimod header) followed by the archive `zipfile` appends for ANY non-empty list of members — any contents, in
    particular contents that spell end records, directories or whole archives — `_open_archive` raises on the first `k`
    bytes for every `k` below the file length.  Assumed of the members: what the writer guarantees (`ZEntry.OK`, the local
    header records the size: `LocalOK`) and that the LAST member's name holds no byte `0x06` (names are JSON text / ASCII). -/
theorem openTiledStrict_prefix_none (crc32 : Bytes → Nat) (inflate : Bytes → Option Bytes) (pre : Bytes) (front : List ZEntry) (zl : ZEntry)
    (hz : ∀ z ∈ front ++ [zl], z.OK crc32 inflate) (hl : ∀ z ∈ front ++ [zl], z.LocalOK)
    (h6 : (6 : UInt8) ∉ zl.name ++ zl.cextra) (k : Nat) (hk : k < (pre ++ zipBytes pre.length (front ++ [zl])).length) :
    openTiledStrict crc32 inflate pre.length ((pre ++ zipBytes pre.length (front ++ [zl])).take k) = none := by
  obtain ⟨e22, esig, _⟩ := eocdRecord_shape (front ++ [zl]).length (zipCD pre.length (front ++ [zl])).length
    (pre.length + (zipLocals (front ++ [zl])).length)
  exact openTiledStrict_take_none_core crc32 inflate pre _ _ _ front zl rfl e22 esig rfl hz hl h6 k hk

/-! ### the loader -/

theorem openTiledStrict_none_of_endRec (crc32 : Bytes → Nat) (inflate : Bytes → Option Bytes) (start : Nat) (file : Bytes)
    (h : endRecData file = none) : openTiledStrict crc32 inflate start file = none := by
  unfold openTiledStrict; rw [h]

/-- header + archive cut anywhere, the opener called at the position the header reader stopped at -/
theorem containerLoadAt_cut (pre text body : Bytes) (maj min : UInt8) (parse : Bytes → Option H) (h : H)
    (verOk : List Nat → Bool) (openAt : Nat → Bytes → Option β) (hh : HeaderOK parse text h)
    (hbody : ∀ k, (makeHeader pre maj min text).length ≤ k → k < (makeHeader pre maj min text ++ body).length →
      openAt (makeHeader pre maj min text).length ((makeHeader pre maj min text ++ body).take k) = none)
    (hhdr : ∀ k start, k < (makeHeader pre maj min text).length → openAt start ((makeHeader pre maj min text).take k) = none)
    (k : Nat) (hk : k < (makeHeader pre maj min text ++ body).length) :
    ∃ e, containerLoadAt pre parse verOk openAt ((makeHeader pre maj min text ++ body).take k) = .err e := by
  have hcomp := Comp.header pre text maj min parse h hh.1 hh.2.1 hh.2.2
  unfold containerLoadAt
  by_cases hlt : k < (makeHeader pre maj min text).length
  · have ht : (makeHeader pre maj min text ++ body).take k = (makeHeader pre maj min text).take k := take_append_lt (Nat.le_of_lt hlt)
    rcases hcomp.cut k hlt with ⟨e, he⟩ | ⟨_, hok⟩
    · exact ⟨e, by rw [ht, he]⟩
    · rw [ht, hok]
      by_cases hv : verOk [maj.toNat, min.toNat] = true
      · exact ⟨.zip, by simp [hv, hhdr k _ hlt]⟩
      · exact ⟨.value, by simp [hv]⟩
  · have hge : (makeHeader pre maj min text).length ≤ k := Nat.le_of_not_lt hlt
    have hn := hbody k hge hk
    rw [take_append_ge hge] at hn ⊢
    rw [hcomp.full]
    have hst : (makeHeader pre maj min text ++ body.take (k - (makeHeader pre maj min text).length)).length -
        (body.take (k - (makeHeader pre maj min text).length)).length = (makeHeader pre maj min text).length := by
      rw [List.length_append, Nat.add_sub_cancel]
    by_cases hv : verOk [maj.toNat, min.toNat] = true
    · exact ⟨.zip, by simp only [hv, Bool.not_true, Bool.false_eq_true, if_false, hst, hn]⟩
    · exact ⟨.value, by simp [hv]⟩

/-- **CQM files cut at any byte offset, the round-8 loader, ANY payload** -/
theorem cqmFileLoadTiled_cut (crc32 : Bytes → Nat) (inflate : Bytes → Option Bytes) (deflate : Option (Bytes → Bytes)) (μ : Nat → ZMeta)
    (s : CqmSrc) (front : List ZEntry) (zl : ZEntry)
    (hlen : (dumpsDict (cqmCountsDict (cqmCounts s.content.erase))).length + 65 < 2 ^ 32)
    (hsplit : mkEntries crc32 deflate μ 0 (cqmMembers 4 s.content) = front ++ [zl])
    (hz : ∀ z ∈ front ++ [zl], z.OK crc32 inflate) (hl : ∀ z ∈ front ++ [zl], z.LocalOK)
    (h6 : (6 : UInt8) ∉ zl.name ++ zl.cextra) (hhdr : ∀ i, ¬ SigAt (cqmFileHeader s) i)
    (k : Nat) (hk : k < (dumpCqm crc32 deflate μ s).length) :
    ∃ e, cqmFileLoadTiled true 8 parseCqmHeader crc32 inflate parseExprHeader (fun d => (loadsJ d).isSome)
      ((dumpCqm crc32 deflate μ s).take k) = .err e := by
  unfold cqmFileLoadTiled
  unfold dumpCqm at hk ⊢
  rw [hsplit] at hk ⊢
  unfold cqmFileHeader at hk hhdr ⊢
  obtain ⟨e, he⟩ := containerLoadAt_cut cqmPrefix (cqmHeaderText (cqmCounts s.content.erase)) _ 2 0 parseCqmHeader _ cqmVerOk
    (openTiledChars crc32 inflate) (cqm_header_ok _ hlen)
    (fun j _ hj => by
      unfold openTiledChars
      rw [openTiledStrict_prefix_none crc32 inflate _ front zl hz hl h6 j hj]; rfl)
    (fun j start hj => by
      unfold openTiledChars
      rw [openTiledStrict_none_of_endRec crc32 inflate start _
        (endRecData_prefix_none _ (fun i hi => absurd hi (hhdr i)) j hj)]; rfl)
    k hk
  exact ⟨e, by rw [he]; rfl⟩

/-! ### the complete file: the repaired loader returns what the loader of the round-7 theorems returns -/

theorem containerLoadAt_full (pre text body : Bytes) (maj min : UInt8) (parse : Bytes → Option H) (h : H)
    (verOk : List Nat → Bool) (openAt : Nat → Bytes → Option β) (a : β)
    (hh : HeaderOK parse text h) (hver : verOk [maj.toNat, min.toNat] = true)
    (hopen : openAt (makeHeader pre maj min text).length (makeHeader pre maj min text ++ body) = some a) :
    containerLoadAt pre parse verOk openAt (makeHeader pre maj min text ++ body) = .ok (h, a) := by
  unfold containerLoadAt
  rw [readHeader_full pre text maj min parse h hh.1 hh.2.1 hh.2.2 body]
  have hst : (makeHeader pre maj min text ++ body).length - body.length = (makeHeader pre maj min text).length := by
    rw [List.length_append, Nat.add_sub_cancel]
  simp only [hver, Bool.not_true, Bool.false_eq_true, if_false, hst, hopen]

theorem zipOpen_chars (crc32 : Bytes → Nat) (inflate : Bytes → Option Bytes) (file : Bytes) (ms : List (Bytes × Bytes))
    (h : zipOpen (readDirBytes crc32 inflate) file = some ms) :
    zipOpen (readDirChars crc32 inflate) file = some (ms.map fun m => (asciiChars m.1, m.2)) := by
  unfold zipOpen at h ⊢
  split at h
  · simp at h
  · rename_i r hr
    split at h
    · simp at h
    · rename_i hsd
      rw [if_neg hsd]
      unfold readDirChars
      rw [h]; rfl

/-- on the complete written file the round-8 loader and the loader of `cqm_file_roundtrip_closed` agree -/
theorem cqmFileLoadTiled_full_eq (crc32 : Bytes → Nat) (inflate : Bytes → Option Bytes) (deflate : Option (Bytes → Bytes)) (μ : Nat → ZMeta)
    (s : CqmSrc) (hlen : (dumpsDict (cqmCountsDict (cqmCounts s.content.erase))).length + 65 < 2 ^ 32)
    (hz : ∀ z ∈ mkEntries crc32 deflate μ 0 (cqmMembers 4 s.content), z.OK crc32 inflate)
    (hl : ∀ z ∈ mkEntries crc32 deflate μ 0 (cqmMembers 4 s.content), z.LocalOK)
    (hcount : (mkEntries crc32 deflate μ 0 (cqmMembers 4 s.content)).length < 256 ^ 2)
    (hsize : (dumpCqm crc32 deflate μ s).length < 4294967295) :
    cqmFileLoadTiled true 8 parseCqmHeader crc32 inflate parseExprHeader (fun d => (loadsJ d).isSome) (dumpCqm crc32 deflate μ s) =
      loadCqm crc32 inflate (dumpCqm crc32 deflate μ s) := by
  generalize hzdef : mkEntries crc32 deflate μ 0 (cqmMembers 4 s.content) = zs at hz hl hcount
  have hdump : dumpCqm crc32 deflate μ s = cqmFileHeader s ++ zipBytes (cqmFileHeader s).length zs := by rw [dumpCqm, hzdef]
  rw [hdump] at hsize ⊢
  have hsz : (cqmFileHeader s).length + (zipLocals zs).length + (zipCD (cqmFileHeader s).length zs).length < 4294967295 := by
    simp only [zipBytes, List.length_append] at hsize; omega
  have h1 := openTiledStrict_zipBytes crc32 inflate (cqmFileHeader s) zs hz hl hcount hsz
  have h256 : (256 : Nat) ^ 4 = 4294967296 := by decide
  obtain ⟨a, b, c⟩ := eocdRecord_shape zs.length (zipCD (cqmFileHeader s).length zs).length ((cqmFileHeader s).length + (zipLocals zs).length)
  obtain ⟨d, _, _⟩ := eocdRecord_fields zs.length (zipCD (cqmFileHeader s).length zs).length ((cqmFileHeader s).length + (zipLocals zs).length)
    (cqmFileHeader s ++ (zipLocals zs ++ zipCD (cqmFileHeader s).length zs)).length (by omega) (by omega) hcount
  have hfile : cqmFileHeader s ++ zipBytes (cqmFileHeader s).length zs = (cqmFileHeader s ++ (zipLocals zs ++ zipCD (cqmFileHeader s).length zs)) ++
      eocdRecord zs.length (zipCD (cqmFileHeader s).length zs).length ((cqmFileHeader s).length + (zipLocals zs).length) := by
    simp [zipBytes, List.append_assoc]
  have h2 : zipOpen (readDirBytes crc32 inflate) (cqmFileHeader s ++ zipBytes (cqmFileHeader s).length zs) =
      some (zs.map fun z => (z.name, z.content)) := by
    rw [hfile]
    exact zipOpen_full _ _ _ _ a b c (by rw [d]; simp only [List.length_append]; omega)
      (readDirBytes_zipBytes crc32 inflate (cqmFileHeader s) zs hz hcount hsz)
  have h2' := zipOpen_chars crc32 inflate _ _ h2
  unfold cqmFileLoadTiled loadCqm cqmFileLoadW
  unfold cqmFileHeader at h1 h2' ⊢
  rw [containerLoadAt_full cqmPrefix _ _ 2 0 parseCqmHeader _ cqmVerOk (openTiledChars crc32 inflate) _ (cqm_header_ok _ hlen) (by decide)
      (by unfold openTiledChars; rw [h1]; rfl),
    containerLoadW_full cqmPrefix _ _ 2 0 parseCqmHeader _ cqmVerOk _ _ (cqm_header_ok _ hlen) (by decide) h2']

end FileFmt
