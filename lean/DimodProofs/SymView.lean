import DimodModel.SymView
import DimodProofs.SymCmp

/-! C06 round 8: hypothesis-free energy lemmas of `+`/`-` over every operand class incl. the CQM expression views, the class
    of the result, `sum(items, start)` / `quicksum` as folds, nested `+` trees. -/

namespace Sym

theorem viewToQM_eval (a m : Model) (x : Label → Rat) (h : viewToQM a = .ok m) : m.eval x = a.eval x ∧ m.isQM = true := by
  unfold viewToQM at h
  have e := eval_qmUpdate emptyQM a m x h
  have c := qmUpdate_isQM emptyQM a m h
  rw [eval_emptyQM] at e
  exact ⟨by rw [e]; ring, by rw [c]; rfl⟩

theorem valAdd_eval (a b c : Val) (x : Label → Rat) (h : valAdd a b = .ok c) : c.eval x = a.eval x + b.eval x := by
  cases a <;> cases b <;> simp only [valAdd] at h
  case num.num p q => simp only [Except.ok.injEq] at h; subst h; rfl
  case num.mdl q a => simp only [Except.ok.injEq] at h; subst h; simp only [Val.eval, eval_addOffset]; ring
  case mdl.num a q => simp only [Except.ok.injEq] at h; subst h; simp only [Val.eval, eval_addOffset]
  case mdl.mdl a b =>
    obtain ⟨m, hm, rfl⟩ := map_ok _ _ _ h
    simpa [Val.eval] using mAdd_eval a b m x hm
  case view.num o a q =>
    obtain ⟨m, hm, rfl⟩ := map_ok _ _ _ h
    simp only [Val.eval, eval_addOffset, (viewToQM_eval a m x hm).1]
  case num.view q o a =>
    obtain ⟨m, hm, rfl⟩ := map_ok _ _ _ h
    simp only [Val.eval, eval_addOffset, (viewToQM_eval a m x hm).1]; ring
  case view.mdl o a b =>
    split at h
    · rename_i m hm
      obtain ⟨r, hr, rfl⟩ := map_ok _ _ _ h
      simp only [Val.eval, mAdd_eval m b r x hr, (viewToQM_eval a m x hm).1]
    · simp at h
  case mdl.view b o a =>
    split at h
    · rename_i m hm
      obtain ⟨r, hr, rfl⟩ := map_ok _ _ _ h
      simp only [Val.eval, mAdd_eval b m r x hr, (viewToQM_eval a m x hm).1]
    · simp at h
  case view.view o a o' b =>
    split at h
    · rename_i m n hm hn
      obtain ⟨r, hr, rfl⟩ := map_ok _ _ _ h
      simp only [Val.eval, mAdd_eval m n r x hr, (viewToQM_eval a m x hm).1, (viewToQM_eval b n x hn).1]
    · simp at h
    · simp at h

theorem valSub_eval (a b c : Val) (x : Label → Rat) (h : valSub a b = .ok c) : c.eval x = a.eval x - b.eval x := by
  cases a <;> cases b <;> simp only [valSub] at h
  case num.num p q => simp only [Except.ok.injEq] at h; subst h; rfl
  case num.mdl q a => simp only [Except.ok.injEq] at h; subst h; simp only [Val.eval, eval_addOffset, eval_scale]; ring
  case mdl.num a q => simp only [Except.ok.injEq] at h; subst h; simp only [Val.eval, eval_addOffset]; ring
  case mdl.mdl a b =>
    obtain ⟨m, hm, rfl⟩ := map_ok _ _ _ h
    simpa [Val.eval] using (mSub_eval_class a b m x hm).1
  case view.num o a q =>
    obtain ⟨m, hm, rfl⟩ := map_ok _ _ _ h
    simp only [Val.eval, eval_addOffset, (viewToQM_eval a m x hm).1]; ring
  case num.view q o a =>
    obtain ⟨m, hm, rfl⟩ := map_ok _ _ _ h
    simp only [Val.eval, eval_addOffset, eval_scale, (viewToQM_eval a m x hm).1]; ring
  case view.mdl o a b =>
    split at h
    · rename_i m hm
      obtain ⟨r, hr, rfl⟩ := map_ok _ _ _ h
      simp only [Val.eval, (mSub_eval_class m b r x hr).1, (viewToQM_eval a m x hm).1]
    · simp at h
  case mdl.view b o a =>
    split at h
    · rename_i m hm
      obtain ⟨r, hr, rfl⟩ := map_ok _ _ _ h
      simp only [Val.eval, (mSub_eval_class b m r x hr).1, (viewToQM_eval a m x hm).1]
    · simp at h
  case view.view o a o' b =>
    split at h
    · rename_i m n hm hn
      obtain ⟨r, hr, rfl⟩ := map_ok _ _ _ h
      simp only [Val.eval, (mSub_eval_class m n r x hr).1, (viewToQM_eval a m x hm).1, (viewToQM_eval b n x hn).1]
    · simp at h
    · simp at h

/-- a value is an expression view -/
def Val.isView : Val → Bool
  | .view _ _ => true
  | _ => false

/-- a value is a `QuadraticModel` object (not a view, not a BQM, not a number) -/
def Val.isQMObj : Val → Bool
  | .mdl m => m.isQM
  | _ => false

theorem isQM_addOffset (m : Model) (q : Rat) : (m.addOffset q).isQM = m.isQM := rfl
theorem isQM_scale (m : Model) (q : Rat) : (m.scale q).isQM = m.isQM := rfl

theorem valAdd_view_class (a b c : Val) (hv : a.isView = true ∨ b.isView = true) (h : valAdd a b = .ok c) :
    c.isQMObj = true := by
  cases a <;> cases b <;> simp only [valAdd] at h <;> simp [Val.isView] at hv
  case view.num o a q =>
    obtain ⟨m, hm, rfl⟩ := map_ok _ _ _ h
    simp [Val.isQMObj, isQM_addOffset, (viewToQM_eval a m (fun _ => 0) hm).2]
  case num.view q o a =>
    obtain ⟨m, hm, rfl⟩ := map_ok _ _ _ h
    simp [Val.isQMObj, isQM_addOffset, (viewToQM_eval a m (fun _ => 0) hm).2]
  case view.mdl o a b =>
    split at h
    · rename_i m hm
      obtain ⟨r, hr, rfl⟩ := map_ok _ _ _ h
      simp [Val.isQMObj, mAdd_class m b r hr, (viewToQM_eval a m (fun _ => 0) hm).2]
    · simp at h
  case mdl.view b o a =>
    split at h
    · rename_i m hm
      obtain ⟨r, hr, rfl⟩ := map_ok _ _ _ h
      simp [Val.isQMObj, mAdd_class b m r hr, (viewToQM_eval a m (fun _ => 0) hm).2]
    · simp at h
  case view.view o a o' b =>
    split at h
    · rename_i m n hm hn
      obtain ⟨r, hr, rfl⟩ := map_ok _ _ _ h
      simp [Val.isQMObj, mAdd_class m n r hr, (viewToQM_eval a m (fun _ => 0) hm).2]
    · simp at h
    · simp at h

theorem valSub_view_class (a b c : Val) (hv : a.isView = true ∨ b.isView = true) (h : valSub a b = .ok c) :
    c.isQMObj = true := by
  cases a <;> cases b <;> simp only [valSub] at h <;> simp [Val.isView] at hv
  case view.num o a q =>
    obtain ⟨m, hm, rfl⟩ := map_ok _ _ _ h
    simp [Val.isQMObj, isQM_addOffset, (viewToQM_eval a m (fun _ => 0) hm).2]
  case num.view q o a =>
    obtain ⟨m, hm, rfl⟩ := map_ok _ _ _ h
    simp [Val.isQMObj, isQM_addOffset, isQM_scale, (viewToQM_eval a m (fun _ => 0) hm).2]
  case view.mdl o a b =>
    split at h
    · rename_i m hm
      obtain ⟨r, hr, rfl⟩ := map_ok _ _ _ h
      simp [Val.isQMObj, (mSub_eval_class m b r (fun _ => 0) hr).2, (viewToQM_eval a m (fun _ => 0) hm).2]
    · simp at h
  case mdl.view b o a =>
    split at h
    · rename_i m hm
      obtain ⟨r, hr, rfl⟩ := map_ok _ _ _ h
      simp [Val.isQMObj, (mSub_eval_class b m r (fun _ => 0) hr).2, (viewToQM_eval a m (fun _ => 0) hm).2]
    · simp at h
  case view.view o a o' b =>
    split at h
    · rename_i m n hm hn
      obtain ⟨r, hr, rfl⟩ := map_ok _ _ _ h
      simp [Val.isQMObj, (mSub_eval_class m n r (fun _ => 0) hr).2, (viewToQM_eval a m (fun _ => 0) hm).2]
    · simp at h
    · simp at h

/-! ### `sum(items, start)` and `quicksum(items)` -/

theorem sumVals_eval (s : Val) (vs : List Val) (r : Val) (x : Label → Rat) (h : sumVals s vs = .ok r) :
    r.eval x = s.eval x + sumEvals x vs := by
  induction vs generalizing s with
  | nil =>
    simp only [sumVals, List.foldlM, pure, Except.pure, Except.ok.injEq] at h
    subst h; simp [sumEvals]
  | cons v vs ih =>
    simp only [sumVals, List.foldlM] at h
    obtain ⟨s', h1, h2⟩ := bind_ok _ _ _ h
    rw [ih s' h2, valAdd_eval _ _ _ x h1]; simp only [sumEvals]; ring

theorem qsumVals_eval (vs : List Val) (r : Val) (x : Label → Rat) (h : qsumVals vs = .ok r) :
    r.eval x = sumEvals x vs := by
  unfold qsumVals at h
  split at h
  · simp only [Except.ok.injEq] at h; subst h; simp [sumEvals, Val.eval, eval_emptyQM]
  · simp at h
  · rename_i v vs _
    have := sumVals_eval v vs r x h
    simpa [sumEvals] using this

/-- a nested `+` tree whose first operand fails to build fails the same way -/
theorem build_sumExpr_err (e : SymExpr) (is : List SymExpr) (er : Err) (h : build e = .error er) :
    build (sumExpr e is) = .error er := by
  induction is generalizing e with
  | nil => simpa [sumExpr] using h
  | cons i is ih =>
    simp only [sumExpr, List.foldl] at ih ⊢
    apply ih
    simp [build, h, bind, Except.bind]

/-- the nested tree `((start + i0) + i1) + …` built with the modelled `+` is the fold `sum(items, start)` performs -/
theorem build_sumExpr (e : SymExpr) (is : List SymExpr) (v : Val) (ws : List Val) (he : build e = .ok v)
    (hs : List.Forall₂ (fun i w => build i = .ok w) is ws) : build (sumExpr e is) = sumVals v ws := by
  induction hs generalizing e v with
  | nil => simpa [sumExpr, sumVals, List.foldlM, pure, Except.pure] using he
  | @cons i w is ws hi _ ih =>
    simp only [sumExpr, List.foldl, sumVals, List.foldlM] at ih ⊢
    cases hadd : valAdd v w with
    | error er =>
      simp only [bind, Except.bind]
      exact build_sumExpr_err (.add e i) is er (by simp [build, he, hi, hadd, bind, Except.bind])
    | ok v' =>
      simp only [bind, Except.bind]
      exact ih (.add e i) v' (by simp [build, he, hi, hadd, bind, Except.bind])

theorem eval_constBQM (vt : VT) (c : Rat) (x : Label → Rat) : (constBQM vt c).eval x = c := by
  simp [constBQM, Model.eval, linEval, quadEval]

theorem cmp_of_value (s : Sense) (v : Val) (c : Rat) (k : Cmp) (x : Label → Rat) (hk : cmpVals s v (.num c) = .ok (some k)) :
    k.sense = s ∧ k.rhs = c ∧ k.lhs.eval x = v.eval x := by
  cases v with
  | num p => simp [cmpVals] at hk
  | mdl m => simp only [cmpVals, Except.ok.injEq, Option.some.injEq] at hk; subst hk; exact ⟨rfl, rfl, rfl⟩
  | view o m => simp only [cmpVals] at hk; split at hk <;> simp at hk

end Sym
