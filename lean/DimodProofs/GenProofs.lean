import DimodProofs.Gates
import DimodProofs.Ineq
import DimodModel.Generators

/-! # Generators: combinations, circuits, independent sets, knapsack family (core Lean only) -/

namespace Gen
open Pen

/-! ## combinations -/

/-- `Σ x(v)` over the label list -/
def vsum (x : Label → Rat) : List Label → Rat
  | [] => 0
  | v :: r => x v + vsum x r

theorem comb_cross (x : Label → Rat) (s : Rat) (v : Label) (r : List Label) :
    evalBag x ((r.map (fun b => (v, b))).map (fun p => PTerm.quad p.1 p.2 (2 * s))) = 2 * s * x v * vsum x r := by
  induction r with
  | nil => simp only [List.map_nil, evalBag, vsum]; grind
  | cons h r ih => simp only [List.map_cons, evalBag, PTerm.eval, vsum, ih]; grind

theorem comb_parts (x : Label → Rat) (hx : ∀ v, x v * x v = x v) (s k : Rat) (labels : List Label) :
    evalBag x (labels.map (fun v => PTerm.lin v (s * (1 - 2 * k))))
      + evalBag x ((pairsLt labels).map (fun p => PTerm.quad p.1 p.2 (2 * s)))
      = s * (vsum x labels * vsum x labels) - 2 * s * k * vsum x labels := by
  induction labels with
  | nil => simp only [List.map_nil, pairsLt, evalBag, vsum]; grind
  | cons v r ih =>
    simp only [pairsLt, List.map_append, evalBag_append, comb_cross, List.map_cons, evalBag, PTerm.eval, vsum]
    have h := hx v
    grind

/-- BINARY: `combinations(labels, k, strength)` has energy `strength·(Σx − k)²` at every 0/1 sample, for every n and k -/
theorem combBinary_eval (x : Label → Rat) (hx : ∀ v, x v * x v = x v) (s : Rat) (k : Int) (labels : List Label) :
    evalBag x (combBinaryBag labels k s) = s * ((vsum x labels - (k : Rat)) * (vsum x labels - (k : Rat))) := by
  unfold combBinaryBag
  simp only [evalBag_append, evalBag, PTerm.eval]
  have := comb_parts x hx s (k : Rat) labels
  grind

/-- SPIN (after `change_vartype`): the same with `xᵥ = (sᵥ + 1)/2` -/
theorem combSpin_eval (x : Label → Rat) (hx : ∀ v, x v * x v = 1) (s : Rat) (k : Int) (labels : List Label) :
    evalBag x (toSpinBag (combBinaryBag labels k s))
      = s * ((vsum (viewSample .binary x) labels - (k : Rat)) * (vsum (viewSample .binary x) labels - (k : Rat))) := by
  unfold toSpinBag
  rw [evalBag_flatMap_view]
  apply combBinary_eval
  exact dom_viewSample .binary x hx

/-- integer form of the cardinality: `Σ z(v)` -/
def icount (z : Label → Int) : List Label → Int
  | [] => 0
  | v :: r => z v + icount z r

theorem vsum_cast (z : Label → Int) (labels : List Label) : vsum (toRat z) labels = ((icount z labels : Int) : Rat) := by
  induction labels with
  | nil => rfl
  | cons v r ih => simp only [vsum, icount, toRat] at ih ⊢; rw [ih]; simp [Rat.intCast_add]

/-! ## sums of gate energies -/

/-- a sum of terms that are each 0 or ≥ 1 and never negative is 0 iff every term is 0, and ≥ 1 otherwise -/
theorem sum_zero_iff (es : List Rat) (h0 : ∀ e ∈ es, 0 ≤ e) (h1 : ∀ e ∈ es, e ≠ 0 → 1 ≤ e) :
    (es.foldr (· + ·) 0 = 0 ↔ ∀ e ∈ es, e = 0) ∧ (es.foldr (· + ·) 0 ≠ 0 → 1 ≤ es.foldr (· + ·) 0) ∧ 0 ≤ es.foldr (· + ·) 0 := by
  induction es with
  | nil => simp
  | cons e r ih =>
    have ihr := ih (fun e he => h0 e (by simp [he])) (fun e he => h1 e (by simp [he]))
    have he0 := h0 e (by simp)
    have he1 := h1 e (by simp)
    simp only [List.foldr_cons, List.mem_cons, forall_eq_or_imp]
    refine ⟨⟨?_, ?_⟩, ?_, ?_⟩
    · intro hs
      have hr0 := ihr.2.2
      have : e = 0 := by grind
      refine ⟨this, ihr.1.1 (by grind)⟩
    · rintro ⟨h, hr⟩
      rw [h, ihr.1.2 hr]; grind
    · intro hne
      by_cases hez : e = 0
      · have : r.foldr (· + ·) 0 ≠ 0 := by grind
        have := ihr.2.1 this; grind
      · have := he1 hez; have := ihr.2.2; grind
    · have := ihr.2.2; grind

theorem evalBag_circuit (x : Label → Rat) (gs : List (GateKind × List Label)) :
    evalBag x (circuitBag gs) = (gs.map (fun g => evalBag x (gateBag g.1.table g.2 1))).foldr (· + ·) 0 := by
  induction gs with
  | nil => rfl
  | cons g r ih =>
    unfold circuitBag at ih ⊢
    rw [evalBag_flatMap_cons, ih]; rfl

/-! ## independent sets -/

/-- number-of-violations form: `Σ_{(u,v) ∈ edges} x(u)·x(v)` (by list multiplicity) -/
def edgeSum (x : Label → Rat) : List (Label × Label) → Rat
  | [] => 0
  | e :: r => x e.1 * x e.2 + edgeSum x r

theorem evalBag_edges (x : Label → Rat) (s : Rat) (edges : List (Label × Label)) :
    evalBag x (edges.map (fun e => PTerm.quad e.1 e.2 s)) = s * edgeSum x edges := by
  induction edges with
  | nil => simp only [List.map_nil, evalBag, edgeSum]; grind
  | cons e r ih => simp only [List.map_cons, evalBag, PTerm.eval, edgeSum, ih]; grind

theorem evalBag_weights (x : Label → Rat) (w : List (Label × Rat)) :
    evalBag x (w.map (fun p => PTerm.lin p.1 (-p.2))) = - lsum x w := by
  induction w with
  | nil => simp only [List.map_nil, evalBag, lsum]; grind
  | cons p r ih => simp only [List.map_cons, evalBag, PTerm.eval, lsum, ih]; grind

theorem evalBag_zeros (x : Label → Rat) (nodes : List Label) : evalBag x (nodes.map (fun v => PTerm.lin v 0)) = 0 := by
  induction nodes with
  | nil => rfl
  | cons v r ih => simp only [List.map_cons, evalBag, PTerm.eval, ih]; grind

/-! ## knapsack family: sums over `enumFrom` -/

/-- `Σ_{(i, w)} w·x(f i)` over an enumerated list -/
def isumBy (x : Label → Rat) (f : Nat → Label) : List (Nat × Rat) → Rat
  | [] => 0
  | p :: r => p.2 * x (f p.1) + isumBy x f r

theorem evalBag_linBy (x : Label → Rat) (f : Nat → Label) (l : List (Nat × Rat)) :
    evalBag x (l.map (fun p => PTerm.lin (f p.1) p.2)) = isumBy x f l := by
  induction l with
  | nil => rfl
  | cons p r ih => simp only [List.map_cons, evalBag, PTerm.eval, isumBy, ih]

theorem evalBag_linBy_neg (x : Label → Rat) (f : Nat → Label) (l : List (Nat × Rat)) :
    evalBag x (l.map (fun p => PTerm.lin (f p.1) (-p.2))) = - isumBy x f l := by
  induction l with
  | nil => simp only [List.map_nil, evalBag, isumBy]; grind
  | cons p r ih => simp only [List.map_cons, evalBag, PTerm.eval, isumBy, ih]; grind

/-- `Σ_{j < m} x(f j)` -/
def rangeSum (x : Label → Rat) (f : Nat → Label) (l : List Nat) : Rat := vsum x (l.map f)

theorem evalBag_ones (x : Label → Rat) (f : Nat → Label) (l : List Nat) :
    evalBag x (l.map (fun j => PTerm.lin (f j) 1)) = rangeSum x f l := by
  induction l with
  | nil => rfl
  | cons j r ih => simp only [rangeSum, List.map_cons, evalBag, PTerm.eval, vsum] at ih ⊢; rw [ih]; grind

end Gen

namespace Gen
open Pen GateTable

/-! ## the documented relation of each gate, on the list of values of its visible variables -/

def g0 (v : List Rat) (i : Nat) : Rat := v.getD i 0

/-- truth tables on 0/1 values: and, or, xor (out = a ⊕ b), half adder (a + b = sum + 2·carry), full adder -/
def GateKind.rel : GateKind → List Rat → Bool
  | .and, v => g0 v 2 == g0 v 0 * g0 v 1
  | .or, v => g0 v 2 == g0 v 0 + g0 v 1 - g0 v 0 * g0 v 1
  | .xor, v => g0 v 2 == g0 v 0 + g0 v 1 - 2 * (g0 v 0 * g0 v 1)
  | .halfadder, v => g0 v 0 + g0 v 1 == g0 v 2 + 2 * g0 v 3
  | .fulladder, v => g0 v 0 + g0 v 1 + g0 v 2 == g0 v 3 + 2 * g0 v 4

/-- documented auxiliary variables: only `xor_gate` has one (its last argument) -/
def GateKind.naux : GateKind → Nat
  | .xor => 1
  | _ => 0

def GateKind.nvis (k : GateKind) : Nat := k.table.n - k.naux

/-- the same relation read on spin values (`x = (s + 1)/2`) -/
def spinRel (r : List Rat → Bool) (v : List Rat) : Bool := r (v.map (fun s => (s + 1) / 2))

/-- lifting for a gate without auxiliary variable: energy 0 exactly on the relation, ≥ strength off it -/
theorem gate_lift0 (t : GateTable) (dom : List Rat) (rel : List Rat → Bool)
    (hspec : GateSpec t dom t.n 0 rel) (hwf : t.WF = true)
    (labels : List Label) (hlen : labels.length = t.n) (s : Rat) (hs : 0 < s)
    (x : Label → Rat) (hx : ∀ l ∈ labels, x l ∈ dom) :
    let e := evalBag x (tableBag t labels s)
    0 ≤ e ∧ (e = 0 ↔ rel (labels.map x) = true) ∧ (e ≠ 0 → s ≤ e) := by
  intro e
  have h := gate_lift t dom t.n 0 rel hspec hwf (by omega) labels (by omega) s hs x hx
  have htake : (labels.take t.n).map x = labels.map x := by rw [← hlen, List.take_length]
  simp only [htake] at h
  obtain ⟨h0, h1, h2, h3⟩ := h
  have he : e = s * t.energy (ofList (labels.map x)) := tableBag_eval_list t hwf labels hlen s x
  refine ⟨h0, ⟨h3, ?_⟩, ?_⟩
  · intro hr
    obtain ⟨a, ha, hz⟩ := h2 hr
    simp only [assignments, List.mem_singleton] at ha
    subst ha
    rw [he]; simpa using hz
  · intro hne
    cases hr : rel (labels.map x) with
    | false => exact h1 hr
    | true =>
      exfalso; apply hne
      obtain ⟨a, ha, hz⟩ := h2 hr
      simp only [assignments, List.mem_singleton] at ha
      subst ha
      rw [he]; simpa using hz

theorem mcGate_lengths (n m i j : Nat) : ∀ g ∈ mcGate n m i j, g.2.length = g.1.table.n ∧ g.1.naux = 0 := by
  intro g hg
  unfold mcGate mcGateOf at hg
  generalize mcInputs n m i j = ins at hg
  simp only at hg
  split at hg
  · rename_i h2
    simp only [List.mem_cons, List.mem_nil_iff, or_false] at hg
    rcases hg with rfl | rfl
    · exact ⟨rfl, rfl⟩
    · refine ⟨?_, rfl⟩
      simp only [List.length_append, h2]; rfl
  · split at hg
    · rename_i h3
      simp only [List.mem_cons, List.mem_nil_iff, or_false] at hg
      rcases hg with rfl | rfl
      · exact ⟨rfl, rfl⟩
      · refine ⟨?_, rfl⟩
        simp only [List.length_append, h3]; rfl
    · simp only [List.mem_cons, List.mem_nil_iff, or_false] at hg
      subst hg; exact ⟨rfl, rfl⟩

theorem mulCircuit_lengths (n m : Nat) (gs : List (GateKind × List Label)) (h : mulCircuit n m = some gs) :
    ∀ g ∈ gs, g.2.length = g.1.table.n ∧ g.1.naux = 0 := by
  unfold mulCircuit at h
  split at h
  · simp at h
  · simp only [Option.some.injEq] at h
    subst h
    intro g hg
    simp only [List.mem_flatMap, List.mem_range] at hg
    obtain ⟨i, _, j, _, hg⟩ := hg
    exact mcGate_lengths _ _ i j g hg

end Gen
