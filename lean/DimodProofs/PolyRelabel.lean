import DimodProofs.PolyObject

/-! # C15: `relabel_variables` on the polynomial object — the whole polynomial (helper lemmas) -/

namespace Red
open Pen

/-- what `relabel_variables` is meant to do to one entry -/
def relabelEntry (m : List (Label × Label)) (e : LTerm × Rat) : LTerm × Rat :=
  if sameSet (relabelTerm m e.1) e.1 then e else (relabelTerm m e.1, e.2)

theorem objSet_fresh (acc : PolyState) (k : LTerm) (b : Rat) (h : ∀ e ∈ acc, sameSet e.1 k = false) :
    objSet acc k b = acc ++ [(k, b)] := by
  induction acc with
  | nil => rfl
  | cons e r ih =>
    simp only [objSet, h e (by simp), Bool.false_eq_true, if_false, List.cons_append, List.cons.injEq, true_and]
    exact ih (fun e' he' => h e' (by simp [he']))

theorem sameSet_false_symm (a b : LTerm) (h : sameSet a b = false) : sameSet b a = false := by
  cases hb : sameSet b a with
  | false => rfl
  | true => rw [sameSet_symm b a hb] at h; simp at h

/-- the conditions under which the in-place loop is the intended relabelling (they follow from fresh new labels and an injective
    mapping): different terms stay different, a changed term collides with no old term -/
structure RelabelOK (m : List (Label × Label)) (s : PolyState) : Prop where
  inj : ∀ e1 ∈ s, ∀ e2 ∈ s, sameSet (relabelTerm m e1.1) (relabelTerm m e2.1) = true → sameSet e1.1 e2.1 = true
  fresh : ∀ e ∈ s, sameSet (relabelTerm m e.1) e.1 = false → ∀ e' ∈ s, sameSet e'.1 (relabelTerm m e.1) = false

theorem relabelStep_perm (m : List (Label × Label)) (s : PolyState) (hs : TermsOK s) (hok : RelabelOK m s) :
    (relabelStep m s).Perm (s.map (relabelEntry m)) := by
  unfold relabelStep
  have key : ∀ (R P acc : PolyState), P ++ R = s → TermsOK acc → acc.Perm (P.map (relabelEntry m) ++ R) →
      (R.foldl (fun acc e => let nt := relabelTerm m e.1
                             if sameSet nt e.1 then acc else objDel (objSet acc nt e.2) e.1) acc).Perm (s.map (relabelEntry m)) := by
    intro R
    induction R with
    | nil =>
      intro P acc hPR _ hperm
      simp only [List.append_nil] at hPR hperm
      subst hPR
      exact hperm
    | cons e R ih =>
      intro P acc hPR hacc hperm
      simp only [List.foldl_cons]
      have hes : e ∈ s := by rw [← hPR]; simp
      have hPs : ∀ p ∈ P, p ∈ s := fun p hp => by rw [← hPR]; simp [hp]
      have hRs : ∀ r ∈ R, r ∈ s := fun r hr => by rw [← hPR]; simp [hr]
      have hpw := hs.2
      rw [← hPR, List.pairwise_append] at hpw
      have hPe : ∀ p ∈ P, sameSet p.1 e.1 = false := fun p hp => hpw.2.2 p hp e (by simp)
      have heR : ∀ r ∈ R, sameSet e.1 r.1 = false := fun r hr => (List.pairwise_cons.1 hpw.2.1).1 r hr
      apply ih (P ++ [e]) _ (by simp [hPR])
      · split
        · exact hacc
        · exact objDel_ok _ (objSet_ok acc hacc _ (dedup_nodup _) _) _
      · by_cases hsame : sameSet (relabelTerm m e.1) e.1 = true
        · simp only [hsame, if_true, List.map_append, List.map_cons, List.map_nil, relabelEntry, List.append_assoc, List.cons_append,
            List.nil_append]
          exact hperm
        · simp only [Bool.not_eq_true] at hsame
          simp only [hsame, Bool.false_eq_true, if_false, List.map_append, List.map_cons, List.map_nil, relabelEntry, List.append_assoc,
            List.cons_append, List.nil_append]
          -- the new term is not a key of acc
          have hfreshAcc : ∀ a ∈ acc, sameSet a.1 (relabelTerm m e.1) = false := by
            intro a ha
            have ha' := hperm.mem_iff.1 ha
            simp only [List.mem_append, List.mem_map, List.mem_cons] at ha'
            rcases ha' with ⟨p, hp, rfl⟩ | rfl | har
            · unfold relabelEntry
              split
              · exact hok.fresh e hes hsame p (hPs p hp)
              · cases hc : sameSet (relabelTerm m p.1) (relabelTerm m e.1) with
                | false => rfl
                | true =>
                  have := hok.inj p (hPs p hp) e hes hc
                  rw [hPe p hp] at this; simp at this
            · exact hok.fresh a hes hsame a hes
            · exact hok.fresh e hes hsame a (hRs a har)
          rw [objSet_fresh acc _ _ hfreshAcc]
          have hdel : objDel (acc ++ [(relabelTerm m e.1, e.2)]) e.1 = objDel acc e.1 ++ [(relabelTerm m e.1, e.2)] := by
            unfold objDel
            simp [List.filter_append, hsame]
          rw [hdel]
          have hfil : (objDel acc e.1).Perm (P.map (relabelEntry m) ++ R) := by
            unfold objDel
            have h1 := hperm.filter (fun a => !sameSet a.1 e.1)
            refine h1.trans ?_
            rw [List.filter_append, List.filter_cons]
            simp only [sameSet_refl, Bool.not_true, Bool.false_eq_true, if_false]
            have hP' : (P.map (relabelEntry m)).filter (fun a => !sameSet a.1 e.1) = P.map (relabelEntry m) := by
              rw [List.filter_eq_self]
              intro a ha
              simp only [List.mem_map] at ha
              obtain ⟨p, hp, rfl⟩ := ha
              unfold relabelEntry
              split
              · simp [hPe p hp]
              · rename_i hch
                simp only [Bool.not_eq_true] at hch
                have := hok.fresh p (hPs p hp) hch e hes
                simp [sameSet_false_symm _ _ this]
            have hR' : R.filter (fun a => !sameSet a.1 e.1) = R := by
              rw [List.filter_eq_self]
              intro r hr
              simp [sameSet_false_symm _ _ (heR r hr)]
            rw [hP', hR']
          have : (objDel acc e.1 ++ [(relabelTerm m e.1, e.2)]).Perm (P.map (relabelEntry m) ++ (relabelTerm m e.1, e.2) :: R) := by
            refine (hfil.append_right _).trans ?_
            rw [List.append_assoc]
            exact List.Perm.append_left _ (List.perm_append_comm.trans (by simp))
          exact this
  exact key s [] s (by simp) hs (by simp)

theorem relabelEntry_value (x : Label → Rat) (m : List (Label × Label)) (e : LTerm × Rat) (hnd : e.1.Nodup)
    (hinj : (e.1.map (mapLabel m)).Nodup) :
    (relabelEntry m e).2 * termVal x (relabelEntry m e).1 = e.2 * termVal (fun v => x (mapLabel m v)) e.1 := by
  unfold relabelEntry
  split
  · rename_i hsame
    have h1 := termVal_sameSet x (relabelTerm m e.1) e.1 (dedup_nodup _) hnd hsame
    rw [← h1, relabelTerm_value x m e.1 hinj]
  · simp only [relabelTerm_value x m e.1 hinj]

/-- **`relabel_variables` (conflict-free, in place) relabels the polynomial**: at every assignment `x` of the new labels the object
    has the energy the old polynomial had at `x ∘ mapping` -/
theorem relabelStep_energy (x : Label → Rat) (m : List (Label × Label)) (s : PolyState) (hs : TermsOK s) (hok : RelabelOK m s)
    (hinj : ∀ e ∈ s, (e.1.map (mapLabel m)).Nodup) :
    polyEnergy x (relabelStep m s) = polyEnergy (fun v => x (mapLabel m v)) s := by
  rw [polyEnergy_perm x _ _ (relabelStep_perm m s hs hok)]
  have key : ∀ (l : PolyState), (∀ e ∈ l, e.1.Nodup ∧ (e.1.map (mapLabel m)).Nodup) →
      polyEnergy x (l.map (relabelEntry m)) = polyEnergy (fun v => x (mapLabel m v)) l := by
    intro l
    induction l with
    | nil => intro _; rfl
    | cons e r ih =>
      intro h
      simp only [List.map_cons, polyEnergy]
      rw [relabelEntry_value x m e (h e (by simp)).1 (h e (by simp)).2, ih (fun e' he' => h e' (by simp [he']))]
  exact key s (fun e he => ⟨hs.1 e he, hinj e he⟩)

theorem mem_relabelTerm (m : List (Label × Label)) (t : LTerm) (v : Label) :
    v ∈ relabelTerm m t ↔ ∃ w ∈ t, mapLabel m w = v := by
  unfold relabelTerm
  rw [mem_dedup, List.mem_map]

theorem relabelTerm_unchanged (m : List (Label × Label)) (t : LTerm) (h : ∀ v ∈ t, mapLabel m v = v) :
    sameSet (relabelTerm m t) t = true := by
  rw [sameSet_iff]
  intro v
  rw [mem_relabelTerm]
  constructor
  · rintro ⟨w, hw, rfl⟩; rw [h w hw]; exact hw
  · intro hv; exact ⟨v, hv, h v hv⟩

/-- **the label-level conditions give `RelabelOK`**: the mapping is injective on the variables of the polynomial and a variable that
    changes gets a label that is not a variable of the polynomial (what `iter_safe_relabels` checks for a conflict-free dict) -/
theorem relabelOK_of_labels (m : List (Label × Label)) (s : PolyState)
    (hinj : ∀ v w, v ∈ stateVars s → w ∈ stateVars s → mapLabel m v = mapLabel m w → v = w)
    (hfresh : ∀ v ∈ stateVars s, mapLabel m v ≠ v → mapLabel m v ∉ stateVars s) : RelabelOK m s := by
  have hvars : ∀ e ∈ s, ∀ v ∈ e.1, v ∈ stateVars s := by
    intro e he v hv
    unfold stateVars
    rw [mem_dedup, List.mem_flatMap]
    exact ⟨e, he, hv⟩
  refine ⟨?_, ?_⟩
  · intro e1 h1 e2 h2 hss
    rw [sameSet_iff] at hss ⊢
    intro v
    constructor
    · intro hv
      have := (hss (mapLabel m v)).1 ((mem_relabelTerm m e1.1 _).2 ⟨v, hv, rfl⟩)
      obtain ⟨w, hw, hwv⟩ := (mem_relabelTerm m e2.1 _).1 this
      have := hinj w v (hvars e2 h2 w hw) (hvars e1 h1 v hv) hwv
      rw [← this]; exact hw
    · intro hv
      have := (hss (mapLabel m v)).2 ((mem_relabelTerm m e2.1 _).2 ⟨v, hv, rfl⟩)
      obtain ⟨w, hw, hwv⟩ := (mem_relabelTerm m e1.1 _).1 this
      have := hinj w v (hvars e1 h1 w hw) (hvars e2 h2 v hv) hwv
      rw [← this]; exact hw
  · intro e he hch e' he'
    have hex : ∃ v ∈ e.1, mapLabel m v ≠ v := by
      by_contra hno
      have hall : ∀ v ∈ e.1, mapLabel m v = v := by
        intro v hv
        by_contra hne
        exact hno ⟨v, hv, hne⟩
      rw [relabelTerm_unchanged m e.1 hall] at hch
      simp at hch
    obtain ⟨v, hv, hne⟩ := hex
    cases hc : sameSet e'.1 (relabelTerm m e.1) with
    | false => rfl
    | true =>
      exfalso
      have hin : mapLabel m v ∈ e'.1 := ((sameSet_iff _ _).1 hc (mapLabel m v)).2 ((mem_relabelTerm m e.1 _).2 ⟨v, hv, rfl⟩)
      exact hfresh v (hvars e he v hv) hne (hvars e' he' _ hin)

theorem relabel_inj_on_terms (m : List (Label × Label)) (s : PolyState) (hs : TermsOK s)
    (hinj : ∀ v w, v ∈ stateVars s → w ∈ stateVars s → mapLabel m v = mapLabel m w → v = w) :
    ∀ e ∈ s, (e.1.map (mapLabel m)).Nodup := by
  intro e he
  have hvars : ∀ v ∈ e.1, v ∈ stateVars s := by
    intro v hv
    unfold stateVars
    rw [mem_dedup, List.mem_flatMap]
    exact ⟨e, he, hv⟩
  exact List.Nodup.map_on (fun v hv w hw h => hinj v w (hvars v hv) (hvars w hw) h) (hs.1 e he)

theorem relabel_dedup_length_le (l : List Label) : (dedup l).length ≤ l.length := by
  induction l with
  | nil => simp [dedup]
  | cons v t ih =>
    simp only [dedup]
    split
    · simp only [List.length_cons]; omega
    · simp only [List.length_cons]; omega

theorem relabel_nodup_of_dedup_length (l : List Label) (h : ¬ (dedup l).length < l.length) : l.Nodup := by
  induction l with
  | nil => simp
  | cons v t ih =>
    simp only [dedup] at h
    split at h
    · exfalso
      have := relabel_dedup_length_le t
      simp only [List.length_cons] at h
      omega
    · rename_i hc
      simp only [List.length_cons, Nat.add_lt_add_iff_right] at h
      simp only [List.nodup_cons]
      refine ⟨?_, ih h⟩
      intro hm; apply hc; simpa using hm

theorem mapLabel_cases (m : List (Label × Label)) (v : Label) :
    (mapLabel m v = v ∧ ∀ p ∈ m, p.1 ≠ v) ∨ (∃ p ∈ m, p.1 = v ∧ mapLabel m v = p.2) := by
  unfold mapLabel
  cases h : m.find? (fun p => p.1 == v) with
  | none =>
    left
    refine ⟨rfl, ?_⟩
    intro p hp hpv
    have := List.find?_eq_none.1 h p hp
    simp [hpv] at this
  | some p =>
    right
    have hp := List.find?_some h
    exact ⟨p, List.mem_of_find?_eq_some h, by simpa using hp, rfl⟩

/-- what `iter_safe_relabels` accepted (`safeRelabel … = .ok`) gives the label-level conditions of the energy theorem -/
theorem safeRelabel_ok_conditions (m sub : List (Label × Label)) (s : PolyState) (h : safeRelabel m (stateVars s) = .ok sub) :
    sub = m
    ∧ (∀ v w, v ∈ stateVars s → w ∈ stateVars s → mapLabel m v = mapLabel m w → v = w)
    ∧ (∀ v ∈ stateVars s, mapLabel m v ≠ v → mapLabel m v ∉ stateVars s) := by
  unfold safeRelabel at h
  simp only at h
  split at h
  · simp at h
  · rename_i hlen
    split at h
    · simp at h
    · rename_i hex
      split at h
      · simp at h
      · rename_i hconf
        simp only [Except.ok.injEq] at h
        have hnd : (m.map (·.2)).Nodup := by
          apply relabel_nodup_of_dedup_length
          simpa using hlen
        -- a new label is never an existing variable
        have hnew : ∀ p ∈ m, p.2 ∉ stateVars s := by
          intro p hp hin
          simp only [List.any_eq_true, Bool.and_eq_true, Bool.not_eq_true', not_exists, not_and] at hex hconf
          have h1 := hex p.2 (List.mem_map.2 ⟨p, hp, rfl⟩)
          simp only [List.contains_eq_mem, decide_eq_true_eq, decide_eq_false_iff_not] at h1
          have hold : p.2 ∈ m.map (·.1) := by
            by_contra hno
            exact h1 hin hno
          have h2 := hconf p.2 hold
          simp only [List.contains_eq_mem, decide_eq_true_eq] at h2
          exact h2 (List.mem_map.2 ⟨p, hp, rfl⟩)
        refine ⟨h.symm, ?_, ?_⟩
        · intro v w hv hw hvw
          rcases mapLabel_cases m v with ⟨hv1, _⟩ | ⟨p, hp, hpv, hv1⟩
          · rcases mapLabel_cases m w with ⟨hw1, _⟩ | ⟨q, hq, hqw, hw1⟩
            · rw [hv1, hw1] at hvw; exact hvw
            · exfalso; rw [hv1, hw1] at hvw; exact hnew q hq (hvw ▸ hv)
          · rcases mapLabel_cases m w with ⟨hw1, _⟩ | ⟨q, hq, hqw, hw1⟩
            · exfalso; rw [hv1, hw1] at hvw; exact hnew p hp (hvw ▸ hw)
            · rw [hv1, hw1] at hvw
              have : p = q := List.inj_on_of_nodup_map hnd hp hq hvw
              rw [← hpv, ← hqw, this]
        · intro v _ hne
          rcases mapLabel_cases m v with ⟨hv1, _⟩ | ⟨p, hp, _, hv1⟩
          · exact absurd hv1 hne
          · rw [hv1]; exact hnew p hp

end Red
