import DimodProofs.CqmInv
import Mathlib.Tactic.SplitIfs
import Mathlib.Data.List.Nodup

/-! Every public mutation of the CQM model preserves well-formedness (property C05, `cqm_inv_preserved`). -/

namespace CqmP
open Expr Cqm

theorem exprIn_mono {n n' : Nat} {e : Expr} (h : ExprIn n e) (hn : n ≤ n') : ExprIn n' e :=
  fun g hg => Nat.lt_of_lt_of_le (h g hg) hn

/-- `CqmWF` from its parts -/
theorem cqmWF_mk {m : Cqm} (hobj : ExprWF m.obj ∧ ExprIn m.vt.length m.obj)
    (hcons : ∀ c ∈ m.cons, ExprWF c.e ∧ ExprIn m.vt.length c.e)
    (hlb : m.lb.length = m.vt.length) (hub : m.ub.length = m.vt.length) (hl : m.labels.length = m.vt.length)
    (hcl : m.clabels.length = m.cons.length) : CqmWF m :=
  ⟨hobj.1, fun c hc => (hcons c hc).1, hlb, hub, hl, hcl, hobj.2, fun c hc => (hcons c hc).2⟩

theorem cqmWF_obj {m : Cqm} (h : CqmWF m) : ExprWF m.obj ∧ ExprIn m.vt.length m.obj := ⟨h.obj, h.obj_lt⟩
theorem cqmWF_cons {m : Cqm} (h : CqmWF m) : ∀ c ∈ m.cons, ExprWF c.e ∧ ExprIn m.vt.length c.e :=
  fun c hc => ⟨h.cons c hc, h.cons_lt c hc⟩

theorem cqmWF_empty : CqmWF ({} : Cqm) :=
  cqmWF_mk ⟨exprWF_empty, by intro g hg; cases hg⟩ (by intro c hc; cases hc) rfl rfl rfl rfl

/-- same expressions, parallel vectors of the same lengths -/
theorem cqmWF_congr {m m' : Cqm} (h : CqmWF m) (hobj : m'.obj = m.obj) (hcons : m'.cons = m.cons)
    (hcl : m'.clabels.length = m.clabels.length) (hvt : m'.vt.length = m.vt.length)
    (hlb : m'.lb.length = m.lb.length) (hub : m'.ub.length = m.ub.length)
    (hl : m'.labels.length = m.labels.length) : CqmWF m' := by
  apply cqmWF_mk
  · rw [hobj, hvt]; exact cqmWF_obj h
  · rw [hcons, hvt]; exact cqmWF_cons h
  · rw [hlb, hvt]; exact h.lb_len
  · rw [hub, hvt]; exact h.ub_len
  · rw [hl, hvt]; exact h.labels_len
  · rw [hcl, hcons]; exact h.clabels_len

theorem mapExprs_wf {m : Cqm} (h : CqmWF m) (f : Expr → Expr)
    (hf : ∀ e, ExprWF e → ExprIn m.vt.length e → ExprWF (f e) ∧ ExprIn m.vt.length (f e)) : CqmWF (m.mapExprs f) := by
  apply cqmWF_mk
  · exact hf _ h.obj h.obj_lt
  · intro c hc
    have hc' : c ∈ m.cons.map (fun c => { c with e := f c.e }) := hc
    obtain ⟨c0, hc0, rfl⟩ := List.mem_map.mp hc'
    exact hf _ (h.cons c0 hc0) (h.cons_lt c0 hc0)
  · exact h.lb_len
  · exact h.ub_len
  · exact h.labels_len
  · show m.clabels.length = (m.cons.map _).length
    rw [List.length_map]; exact h.clabels_len

theorem modCons_wf {m : Cqm} (h : CqmWF m) (ci : Nat) (f : Cons → Cons)
    (hf : ∀ c, ExprWF c.e → ExprIn m.vt.length c.e → ExprWF (f c).e ∧ ExprIn m.vt.length (f c).e) :
    CqmWF (m.modCons ci f) := by
  apply cqmWF_mk
  · show ExprWF m.obj ∧ ExprIn m.vt.length m.obj
    exact cqmWF_obj h
  · intro c hc
    have hc' : c ∈ Bqm.modifyAt m.cons ci f := hc
    rcases mem_modifyAt hc' with h1 | ⟨c0, hc0, rfl⟩
    · exact cqmWF_cons h c h1
    · exact hf _ (h.cons c0 hc0) (h.cons_lt c0 hc0)
  · exact h.lb_len
  · exact h.ub_len
  · exact h.labels_len
  · show m.clabels.length = (Bqm.modifyAt m.cons ci f).length
    rw [length_modifyAt]; exact h.clabels_len

/-- a change of attributes (weight, penalty, mark) only -/
theorem modCons_attr_wf {m : Cqm} (h : CqmWF m) (ci : Nat) (f : Cons → Cons) (hf : ∀ c, (f c).e = c.e) :
    CqmWF (m.modCons ci f) :=
  modCons_wf h ci f (fun c h1 h2 => by rw [hf c]; exact ⟨h1, h2⟩)

theorem mapCons_attr_wf {m : Cqm} (h : CqmWF m) (f : Cons → Cons) (hf : ∀ c, (f c).e = c.e) :
    CqmWF { m with cons := m.cons.map f } := by
  apply cqmWF_mk
  · show ExprWF m.obj ∧ ExprIn m.vt.length m.obj
    exact cqmWF_obj h
  · intro c hc
    obtain ⟨c0, hc0, rfl⟩ := List.mem_map.mp hc
    rw [hf c0]; exact cqmWF_cons h c0 hc0
  · exact h.lb_len
  · exact h.ub_len
  · exact h.labels_len
  · show m.clabels.length = (m.cons.map f).length
    rw [List.length_map]; exact h.clabels_len

theorem findIdx_lt {v : Label} {l : List Label} {s i : Nat} (h : findIdx v l s = some i) : s ≤ i ∧ i < s + l.length := by
  induction l generalizing s with
  | nil => cases h
  | cons a t ih =>
    unfold findIdx at h
    split at h
    · cases h; simp
    · have := ih h; simp; omega

theorem idx?_lt {m : Cqm} (hwf : CqmWF m) {v : Label} {g : Nat} (h : m.idx? v = some g) : g < m.vt.length := by
  have := findIdx_lt h
  rw [← hwf.labels_len]; omega

theorem cidx?_lt {m : Cqm} (hwf : CqmWF m) {v : Label} {c : Nat} (h : m.cidx? v = some c) : c < m.cons.length := by
  have := findIdx_lt h
  rw [← hwf.clabels_len]; omega

theorem setAt_length {α} (l : List α) (i : Nat) (a : α) : (setAt l i a).length = l.length := length_modifyAt _ _ _

/-! ### the simple operations -/

theorem addVariableCore_wf {m : Cqm} (h : CqmWF m) (vt : VT4) (v : Option Label) (lbG ubG : Bool) (lbv ubv : Rat) :
    CqmWF (m.addVariableCore vt v lbG ubG lbv ubv).1 := by
  unfold Cqm.addVariableCore
  split_ifs
  all_goals try exact h
  split
  · split_ifs <;> exact h
  · apply cqmWF_mk
    · exact ⟨h.obj, exprIn_mono h.obj_lt (by simp)⟩
    · intro c hc; exact ⟨h.cons c hc, exprIn_mono (h.cons_lt c hc) (by simp)⟩
    · simp [h.lb_len]
    · simp [h.ub_len]
    · simp [h.labels_len]
    · exact h.clabels_len

theorem addVariableG_wf {m : Cqm} (h : CqmWF m) (vt : VT4) (v : Option Label) (lb ub : Option Rat) :
    CqmWF (m.addVariableG vt v lb ub).1 := addVariableCore_wf h _ _ _ _ _ _

theorem setLowerBound_wf {m : Cqm} (h : CqmWF m) (v : Label) (x : Rat) : CqmWF (m.setLowerBound v x).1 := by
  unfold Cqm.setLowerBound
  split
  · exact h
  · simp only []
    split_ifs
    all_goals try exact h
    exact cqmWF_congr h rfl rfl rfl rfl (setAt_length _ _ _) rfl rfl

theorem setUpperBound_wf {m : Cqm} (h : CqmWF m) (v : Label) (x : Rat) : CqmWF (m.setUpperBound v x).1 := by
  unfold Cqm.setUpperBound
  split
  · exact h
  · simp only []
    split_ifs
    all_goals try exact h
    exact cqmWF_congr h rfl rfl rfl rfl rfl (setAt_length _ _ _) rfl

theorem lspec_relabel_length (l : List Label) (mp : List (Label × Label)) :
    (LSpec.step l (.relabel mp)).1.length = l.length := by
  show (if LSpec.relabelOk mp l then (LSpec.subst (LSpec.dictOf mp) l, true) else (l, false)).1.length = l.length
  split_ifs
  · simp [LSpec.subst]
  · rfl

theorem relabelVariables_wf {m : Cqm} (h : CqmWF m) (mp : List (Label × Label)) : CqmWF (m.relabelVariables mp).1 := by
  unfold Cqm.relabelVariables
  split
  · rename_i l hl
    have : l.length = m.labels.length := by
      have := lspec_relabel_length m.labels mp
      rw [hl] at this; exact this
    exact cqmWF_congr h rfl rfl rfl rfl rfl rfl this
  · exact h

theorem relabelConstraints_wf {m : Cqm} (h : CqmWF m) (mp : List (Label × Label)) : CqmWF (m.relabelConstraints mp).1 := by
  unfold Cqm.relabelConstraints
  split
  · rename_i l hl
    have : l.length = m.clabels.length := by
      have := lspec_relabel_length m.clabels mp
      rw [hl] at this; exact this
    exact cqmWF_congr h rfl rfl this rfl rfl rfl rfl
  · exact h

theorem viewMarkDiscrete_wf {m : Cqm} (h : CqmWF m) (l : Label) (mark : Bool) : CqmWF (m.viewMarkDiscrete l mark).1 := by
  unfold Cqm.viewMarkDiscrete
  split
  · exact h
  · exact modCons_attr_wf h _ _ (fun _ => rfl)

theorem setWeight_wf {m : Cqm} (h : CqmWF m) (ci : Nat) (w : Option Rat) (pen : Nat) : CqmWF (m.setWeight ci w pen).1 := by
  unfold Cqm.setWeight
  split <;> split_ifs <;> first | exact h | exact modCons_attr_wf h _ _ (fun _ => rfl)

theorem viewSetWeight_wf {m : Cqm} (h : CqmWF m) (l : Label) (w : Option Rat) (pen : Nat) :
    CqmWF (m.viewSetWeight l w pen).1 := by
  unfold Cqm.viewSetWeight
  split
  · exact h
  · exact setWeight_wf h _ _ _


/-! ### mutation through the views -/

theorem modExpr_wf {m : Cqm} (h : CqmWF m) (w : Option Label) (f : Expr → Expr)
    (hf : ∀ e, ExprWF e → ExprIn m.vt.length e → ExprWF (f e) ∧ ExprIn m.vt.length (f e)) :
    ∀ m', m.modExpr w f = some m' → CqmWF m' := by
  intro m' hm
  unfold Cqm.modExpr at hm
  cases w with
  | none =>
    simp only [] at hm
    cases hm
    apply cqmWF_mk
    · exact hf _ h.obj h.obj_lt
    · show ∀ c ∈ m.cons, ExprWF c.e ∧ ExprIn m.vt.length c.e
      exact cqmWF_cons h
    · exact h.lb_len
    · exact h.ub_len
    · exact h.labels_len
    · exact h.clabels_len
  | some l =>
    simp only [] at hm
    cases hc : m.cidx? l with
    | none => rw [hc] at hm; cases hm
    | some ci =>
      rw [hc] at hm
      cases hm
      exact modCons_wf h ci _ (fun c h1 h2 => hf c.e h1 h2)

theorem ofOpt_wf {m : Cqm} (h : CqmWF m) (o : Option Cqm) (ho : ∀ m', o = some m' → CqmWF m') : CqmWF (m.ofOpt o).1 := by
  cases o with
  | none => exact h
  | some m' => exact ho m' rfl

theorem viewAddLinear_wf {m : Cqm} (h : CqmWF m) (w : Option Label) (v : Label) (b : Rat) :
    CqmWF (m.viewAddLinear w v b).1 := by
  unfold Cqm.viewAddLinear
  split_ifs
  · exact h
  · split
    · exact h
    · rename_i g hg
      exact ofOpt_wf h _ (modExpr_wf h w _ (fun e h1 h2 => ⟨addLinear_wf h1 g b, addLinear_in h2 (idx?_lt h hg) b⟩))

theorem viewSetLinear_wf {m : Cqm} (h : CqmWF m) (w : Option Label) (v : Label) (b : Rat) :
    CqmWF (m.viewSetLinear w v b).1 := by
  unfold Cqm.viewSetLinear
  split_ifs
  · exact h
  · split
    · exact h
    · rename_i g hg
      exact ofOpt_wf h _ (modExpr_wf h w _ (fun e h1 h2 => ⟨setLinear_wf h1 g b, setLinear_in h2 (idx?_lt h hg) b⟩))

theorem viewAddQuadratic_wf {m : Cqm} (h : CqmWF m) (w : Option Label) (u v : Label) (b : Rat) :
    CqmWF (m.viewAddQuadratic w u v b).1 := by
  unfold Cqm.viewAddQuadratic
  split_ifs
  · exact h
  · split
    · rename_i gu gv hgu hgv
      split_ifs
      all_goals try exact h
      exact ofOpt_wf h _ (modExpr_wf h w _ (fun e h1 h2 =>
        ⟨addQuadratic_wf h1 m.vt gu gv b, addQuadratic_in h2 m.vt (idx?_lt h hgu) (idx?_lt h hgv) b⟩))
    · exact h

theorem viewRemoveInteraction_wf {m : Cqm} (h : CqmWF m) (w : Option Label) (u v : Label) :
    CqmWF (m.viewRemoveInteraction w u v).1 := by
  unfold Cqm.viewRemoveInteraction
  split_ifs
  · exact h
  · split
    · rename_i gu gv _ _
      exact ofOpt_wf h _ (modExpr_wf h w _ (fun e h1 h2 =>
        ⟨removeInteraction_wf h1 gu gv, by unfold ExprIn; rw [removeInteraction_vars]; exact h2⟩))
    · exact h

theorem viewRemoveVariable_wf {m : Cqm} (h : CqmWF m) (w : Option Label) (v : Label) :
    CqmWF (m.viewRemoveVariable w v).1 := by
  unfold Cqm.viewRemoveVariable
  split_ifs
  · exact h
  · split
    · exact h
    · rename_i g _
      exact ofOpt_wf h _ (modExpr_wf h w _ (fun e h1 h2 => ⟨removeVar_wf h1 g, removeVar_in h2 g⟩))

theorem viewSetOffset_wf {m : Cqm} (h : CqmWF m) (w : Option Label) (b : Rat) : CqmWF (m.viewSetOffset w b).1 := by
  unfold Cqm.viewSetOffset
  exact ofOpt_wf h _ (modExpr_wf h w _ (fun e h1 h2 => ⟨exprWF_of_keys h1 rfl rfl rfl rfl, h2⟩))

/-! ### removing, fixing, flipping, retyping variables -/

theorem removeVariableR_wf {m : Cqm} (h : CqmWF m) (v : Label) : CqmWF (m.removeVariableR v).1 := by
  unfold Cqm.removeVariableR
  split
  · exact h
  · rename_i g hg
    split_ifs
    · exact h
    · exact removeVarAt_wf h g (idx?_lt h hg)

theorem unmarkForFix_wf {m : Cqm} (h : CqmWF m) (g : Nat) (a : Rat) : CqmWF (m.unmarkForFix g a) := by
  unfold Cqm.unmarkForFix
  exact mapCons_attr_wf h _ (fun c => by split_ifs <;> rfl)

theorem unmarkDiscreteWith_wf {m : Cqm} (h : CqmWF m) (g : Nat) : CqmWF (m.unmarkDiscreteWith g) := by
  unfold Cqm.unmarkDiscreteWith
  exact mapCons_attr_wf h _ (fun c => by split_ifs <;> rfl)

theorem mapSubstitute_wf {m : Cqm} (h : CqmWF m) (g : Nat) (a c : Rat) : CqmWF (m.mapExprs (·.substitute g a c)) :=
  mapExprs_wf h _ (fun e h1 h2 => ⟨substitute_wf h1 g a c, by unfold ExprIn; rw [substitute_vars]; exact h2⟩)

theorem fixVariableR_wf {m : Cqm} (h : CqmWF m) (v : Label) (a : Rat) : CqmWF (m.fixVariableR v a).1 := by
  unfold Cqm.fixVariableR
  split
  · exact h
  · rename_i g hg
    exact removeVarAt_wf (mapSubstitute_wf h g 0 a) g (idx?_lt h hg)

theorem fixVariablesInplace_wf (fixed : List (Label × Rat)) : ∀ {m : Cqm}, CqmWF m → CqmWF (m.fixVariablesInplace fixed).1 := by
  induction fixed with
  | nil => intro m h; exact h
  | cons p t ih =>
    intro m h
    obtain ⟨v, a⟩ := p
    unfold Cqm.fixVariablesInplace
    have h1 := fixVariableR_wf h v a
    cases hr : m.fixVariableR v a with
    | mk m1 r =>
      rw [hr] at h1
      cases r with
      | none => exact ih h1
      | some c => exact h1

theorem flipVariableR_wf {m : Cqm} (h : CqmWF m) (v : Label) : CqmWF (m.flipVariableR v).1 := by
  unfold Cqm.flipVariableR
  split
  · exact h
  · rename_i g _
    split
    · exact mapSubstitute_wf h g (-1) 0
    · exact unmarkDiscreteWith_wf (mapSubstitute_wf h g (-1) 1) g
    · exact h

theorem changeVartypeAt_wf {m : Cqm} (h : CqmWF m) (vt : VT4) (g : Nat) : CqmWF (m.changeVartypeAt vt g).1 := by
  unfold Cqm.changeVartypeAt
  simp only []
  split_ifs
  all_goals try exact h
  all_goals
    first
      | exact cqmWF_congr (mapSubstitute_wf h g _ _) rfl rfl rfl (setAt_length _ _ _) (setAt_length _ _ _) (setAt_length _ _ _) rfl
      | exact cqmWF_congr h rfl rfl rfl (setAt_length _ _ _) rfl rfl rfl

theorem changeVartypeR_wf {m : Cqm} (h : CqmWF m) (vt : VT4) (v : Label) : CqmWF (m.changeVartypeR vt v).1 := by
  unfold Cqm.changeVartypeR
  split
  · exact h
  · rename_i g _
    have := changeVartypeAt_wf h vt g
    cases hr : m.changeVartypeAt vt g with
    | mk m1 ok =>
      rw [hr] at this
      cases ok <;> exact this

theorem spinToBinary_wf {m : Cqm} (h : CqmWF m) : CqmWF m.spinToBinary := by
  unfold Cqm.spinToBinary
  generalize List.range m.numVars = l
  induction l generalizing m with
  | nil => exact h
  | cons g t ih =>
    rw [List.foldl_cons]
    apply ih
    split_ifs
    · exact changeVartypeAt_wf h _ g
    · exact h

/-! ### removing constraints -/

theorem removeConstraintAt_wf {m : Cqm} (h : CqmWF m) {c : Nat} (hc : c < m.cons.length) : CqmWF (m.removeConstraintAt c) := by
  apply cqmWF_mk
  · show ExprWF m.obj ∧ ExprIn m.vt.length m.obj
    exact cqmWF_obj h
  · intro x hx
    have hx' : x ∈ Bqm.eraseIdx m.cons c := hx
    rw [eraseIdx_eq] at hx'
    exact cqmWF_cons h x ((List.eraseIdx_sublist _ _).subset hx')
  · exact h.lb_len
  · exact h.ub_len
  · exact h.labels_len
  · show (Bqm.eraseIdx m.clabels c).length = (Bqm.eraseIdx m.cons c).length
    rw [length_eraseIdx _ _ (by rw [h.clabels_len]; exact hc), length_eraseIdx _ _ hc, h.clabels_len]

theorem removeLabels_wf (ls : List Label) : ∀ {m : Cqm}, CqmWF m → CqmWF (m.removeLabels ls).1 := by
  induction ls with
  | nil => intro m h; exact h
  | cons v t ih =>
    intro m h
    unfold Cqm.removeLabels
    have h1 := removeVariableR_wf h v
    cases hr : m.removeVariableR v with
    | mk m1 r =>
      rw [hr] at h1
      cases r with
      | none => exact ih h1
      | some c => exact h1

theorem removeConstraintR_wf {m : Cqm} (h : CqmWF m) (label : Label) (cascade : Bool) :
    CqmWF (m.removeConstraintR label cascade).1 := by
  unfold Cqm.removeConstraintR
  split
  · exact h
  · rename_i c hc
    split_ifs
    · exact removeLabels_wf _ (removeConstraintAt_wf h (cidx?_lt h hc))
    · exact removeConstraintAt_wf h (cidx?_lt h hc)


/-! ### building expressions from terms and from models -/

theorem addTerms_wf {m : Cqm} (h : CqmWF m) (ts : List Term) :
    ∀ e, ExprWF e → ExprIn m.vt.length e → ExprWF (m.addTerms ts e).1 ∧ ExprIn m.vt.length (m.addTerms ts e).1 := by
  induction ts with
  | nil => intro e h1 h2; exact ⟨h1, h2⟩
  | cons t ts ih =>
    intro e h1 h2
    unfold Cqm.addTerms
    split
    · exact ih _ (addOffset_wf h1 _) h2
    · split
      · rename_i g hg
        exact ih _ (addLinear_wf h1 g _) (addLinear_in h2 (idx?_lt h hg) _)
      · exact ⟨h1, h2⟩
    · split
      · rename_i gu gv hgu hgv
        exact ih _ (addQuadratic_wf h1 m.vt gu gv _) (addQuadratic_in h2 m.vt (idx?_lt h hgu) (idx?_lt h hgv) _)
      · exact ⟨h1, h2⟩
    · exact ⟨h1, h2⟩

theorem setObjectiveTerms_wf {m : Cqm} (h : CqmWF m) (ts : List Term) : CqmWF (m.setObjectiveTerms ts).1 := by
  unfold Cqm.setObjectiveTerms
  apply cqmWF_mk
  · exact addTerms_wf h ts {} exprWF_empty (by intro g hg; cases hg)
  · show ∀ c ∈ m.cons, ExprWF c.e ∧ ExprIn m.vt.length c.e
    exact cqmWF_cons h
  · exact h.lb_len
  · exact h.ub_len
  · exact h.labels_len
  · exact h.clabels_len

theorem pushCons_wf {m : Cqm} (h : CqmWF m) {e : Expr} (he : ExprWF e) (hin : ExprIn m.vt.length e) (sense : Sense) (rhs : Rat)
    (label : Label) (weight : Option Rat) (pen : Nat) : CqmWF (m.pushCons e sense rhs label weight pen).1 := by
  have h1 : CqmWF ({ m with cons := m.cons ++ [({ e := e, sense := sense, rhs := rhs } : Cons)],
                             clabels := m.clabels ++ [label] } : Cqm) := by
    apply cqmWF_mk
    · show ExprWF m.obj ∧ ExprIn m.vt.length m.obj
      exact cqmWF_obj h
    · intro c hc
      have hc' : c ∈ m.cons ++ [({ e := e, sense := sense, rhs := rhs } : Cons)] := hc
      rcases List.mem_append.mp hc' with h2 | h2
      · exact cqmWF_cons h c h2
      · have : c = ({ e := e, sense := sense, rhs := rhs } : Cons) := by simpa using h2
        subst this; exact ⟨he, hin⟩
    · exact h.lb_len
    · exact h.ub_len
    · exact h.labels_len
    · show (m.clabels ++ [label]).length = (m.cons ++ [_]).length
      simp [h.clabels_len]
  unfold Cqm.pushCons
  simp only []
  split
  · exact h1
  · exact setWeight_wf h1 _ _ _

theorem addConstraintTerms_wf {m : Cqm} (h : CqmWF m) (ts : List Term) (sense : Sense) (rhs : Rat) (label : Label)
    (weight : Option Rat) (pen : Nat) : CqmWF (m.addConstraintTerms ts sense rhs label weight pen).1 := by
  unfold Cqm.addConstraintTerms
  split_ifs
  · exact h
  · have := addTerms_wf h ts {} exprWF_empty (by intro g hg; cases hg)
    split
    · rename_i e he
      rw [he] at this
      exact pushCons_wf h this.1 this.2 _ _ _ _ _
    · exact h

/-- what a real BQM / QM handed to the CQM satisfies -/
structure ModelInOK (mi : ModelIn) : Prop where
  nodup : mi.vars.Nodup
  info_len : mi.info.length = mi.vars.length
  lin_len : mi.lin.length = mi.vars.length
  quad_lt : ∀ t ∈ mi.quad, t.1 < mi.vars.length ∧ t.2.1 < mi.vars.length

theorem findIdx_append_some {v : Label} {l l' : List Label} {s i : Nat} (h : findIdx v l s = some i) :
    findIdx v (l ++ l') s = some i := by
  induction l generalizing s with
  | nil => cases h
  | cons a t ih =>
    unfold findIdx at h
    rw [List.cons_append]; unfold findIdx
    split_ifs at h ⊢
    · exact h
    · exact ih h

theorem findIdx_append_self {v : Label} {l : List Label} {s : Nat} (h : findIdx v l s = none) :
    findIdx v (l ++ [v]) s = some (s + l.length) := by
  induction l generalizing s with
  | nil => simp [findIdx]
  | cons a t ih =>
    unfold findIdx at h
    rw [List.cons_append]; unfold findIdx
    split_ifs at h ⊢
    rw [ih h]; simp; omega

theorem findIdx_get {v : Label} {l : List Label} {s i : Nat} (h : findIdx v l s = some i) : l[i - s]? = some v := by
  induction l generalizing s with
  | nil => cases h
  | cons a t ih =>
    unfold findIdx at h
    split_ifs at h with hav
    · cases h; simp [hav]
    · have h1 := findIdx_lt h
      have := ih h
      have hi : i - s = (i - (s + 1)) + 1 := by omega
      rw [hi, List.getElem?_cons_succ]; exact this

/-- one step of the second loop of `add_constraint_from_model`: a missing variable is appended -/
def addOne (m : Cqm) (p : Label × VT4 × Rat × Rat) : Cqm :=
  match m.idx? p.1 with
  | some _ => m
  | none => { m with vt := m.vt ++ [p.2.1], lb := m.lb ++ [p.2.2.1], ub := m.ub ++ [p.2.2.2], labels := m.labels ++ [p.1] }

theorem addMissing_eq (m : Cqm) (mi : ModelIn) : m.addMissing mi = (mi.vars.zip mi.info).foldl addOne m := by
  unfold Cqm.addMissing
  congr 1

theorem addOne_props {m : Cqm} (h : CqmWF m) (p : Label × VT4 × Rat × Rat) :
    CqmWF (addOne m p) ∧ (addOne m p).obj = m.obj ∧ (addOne m p).cons = m.cons ∧ (addOne m p).clabels = m.clabels
    ∧ m.vt.length ≤ (addOne m p).vt.length
    ∧ (∀ v i, m.idx? v = some i → (addOne m p).idx? v = some i) ∧ ∃ i, (addOne m p).idx? p.1 = some i := by
  unfold addOne
  cases hidx : m.idx? p.1 with
  | some g => exact ⟨h, rfl, rfl, rfl, Nat.le_refl _, fun _ _ hv => hv, g, hidx⟩
  | none =>
    refine ⟨?_, rfl, rfl, rfl, by simp, ?_, ?_⟩
    · apply cqmWF_mk
      · exact ⟨h.obj, exprIn_mono h.obj_lt (by simp)⟩
      · intro c hc; exact ⟨h.cons c hc, exprIn_mono (h.cons_lt c hc) (by simp)⟩
      · simp [h.lb_len]
      · simp [h.ub_len]
      · simp [h.labels_len]
      · exact h.clabels_len
    · intro v i hv; exact findIdx_append_some hv
    · exact ⟨_, findIdx_append_self hidx⟩

theorem foldl_addOne_props (l : List (Label × VT4 × Rat × Rat)) : ∀ {m : Cqm}, CqmWF m →
    CqmWF (l.foldl addOne m) ∧ (l.foldl addOne m).obj = m.obj ∧ (l.foldl addOne m).cons = m.cons
    ∧ (l.foldl addOne m).clabels = m.clabels ∧ m.vt.length ≤ (l.foldl addOne m).vt.length
    ∧ (∀ v i, m.idx? v = some i → (l.foldl addOne m).idx? v = some i)
    ∧ ∀ p ∈ l, ∃ i, (l.foldl addOne m).idx? p.1 = some i := by
  induction l with
  | nil => intro m h; exact ⟨h, rfl, rfl, rfl, Nat.le_refl _, fun _ _ hv => hv, by intro p hp; cases hp⟩
  | cons p t ih =>
    intro m h
    rw [List.foldl_cons]
    obtain ⟨h1, ho, hc, hcl, hle, hkeep, hfound⟩ := addOne_props h p
    obtain ⟨h2, ho2, hc2, hcl2, hle2, hkeep2, hfound2⟩ := ih h1
    refine ⟨h2, ho2.trans ho, hc2.trans hc, hcl2.trans hcl, Nat.le_trans hle hle2,
      fun v i hv => hkeep2 v i (hkeep v i hv), ?_⟩
    intro q hq
    rcases List.mem_cons.mp hq with rfl | hq
    · obtain ⟨i, hi⟩ := hfound
      exact ⟨i, hkeep2 _ _ hi⟩
    · exact hfound2 q hq

theorem mapping_props {m : Cqm} (h : CqmWF m) {mi : ModelIn} (hmi : ModelInOK mi) :
    let m1 := m.addMissing mi
    CqmWF m1 ∧ m1.obj = m.obj ∧ m1.cons = m.cons ∧ m1.clabels = m.clabels ∧ m.vt.length ≤ m1.vt.length
    ∧ (m1.mapping mi).length = mi.vars.length ∧ (∀ g ∈ m1.mapping mi, g < m1.vt.length) ∧ (m1.mapping mi).Nodup := by
  intro m1
  have hp := foldl_addOne_props (mi.vars.zip mi.info) h
  rw [← addMissing_eq] at hp
  obtain ⟨h1, ho, hc, hcl, hle, _, hfound⟩ := hp
  have found : ∀ v ∈ mi.vars, ∃ i, m1.idx? v = some i := by
    intro v hv
    obtain ⟨k, hk⟩ := List.getElem?_of_mem hv
    have hkl := lt_of_getElem? hk
    have hkl' : k < mi.info.length := by rw [hmi.info_len]; exact hkl
    have : (v, mi.info[k]) ∈ mi.vars.zip mi.info := by
      have hz : (mi.vars.zip mi.info)[k]? = some (v, mi.info[k]) := by
        rw [List.getElem?_zip_eq_some]
        exact ⟨hk, List.getElem?_eq_getElem hkl'⟩
      exact mem_of_getElem? hz
    exact hfound _ this
  refine ⟨h1, ho, hc, hcl, hle, by unfold Cqm.mapping; simp, ?_, ?_⟩
  · intro g hg
    unfold Cqm.mapping at hg
    obtain ⟨v, hv, rfl⟩ := List.mem_map.mp hg
    obtain ⟨i, hi⟩ := found v hv
    rw [hi]; exact idx?_lt h1 hi
  · unfold Cqm.mapping
    apply List.Nodup.map_on _ hmi.nodup
    intro v hv w hw hvw
    obtain ⟨i, hi⟩ := found v hv
    obtain ⟨j, hj⟩ := found w hw
    rw [hi, hj] at hvw
    simp only [Option.getD_some] at hvw
    subst hvw
    have h3 := findIdx_get hi
    have h4 := findIdx_get hj
    rw [h3] at h4
    exact Option.some.inj h4


theorem getD_mem_or_default {l : List Nat} {n : Nat} (hl : ∀ g ∈ l, g < n) {k : Nat} (hk : k < l.length) : l.getD k 0 < n := by
  rw [List.getD_eq_getElem?_getD, List.getElem?_eq_getElem hk]
  exact hl _ (List.getElem_mem hk)

theorem buildCopy_wf {n : Nat} (vt : List VT4) {gs : List Nat} (hgs : ∀ g ∈ gs, g < n) {mi : ModelIn}
    (hq : ∀ t ∈ mi.quad, t.1 < gs.length ∧ t.2.1 < gs.length) :
    ExprWF (buildCopy vt gs mi) ∧ ExprIn n (buildCopy vt gs mi) := by
  unfold Cqm.buildCopy
  have lin : ∀ (l : List (Nat × Rat)), (∀ p ∈ l, p.1 < n) → ∀ e, ExprWF e → ExprIn n e →
      ExprWF (l.foldl (fun e p => e.addLinear p.1 p.2) e) ∧ ExprIn n (l.foldl (fun e p => e.addLinear p.1 p.2) e) := by
    intro l
    induction l with
    | nil => intro _ e h1 h2; exact ⟨h1, h2⟩
    | cons p t ih =>
      intro hl e h1 h2
      rw [List.foldl_cons]
      exact ih (fun q hq => hl q (List.mem_cons_of_mem _ hq)) _ (addLinear_wf h1 _ _)
        (addLinear_in h2 (hl p List.mem_cons_self) _)
  have quad : ∀ (l : List (Nat × Nat × Rat)), (∀ t ∈ l, t.1 < gs.length ∧ t.2.1 < gs.length) → ∀ e, ExprWF e → ExprIn n e →
      ExprWF (l.foldl (fun e t => e.addQuadratic vt (gs.getD t.1 0) (gs.getD t.2.1 0) t.2.2) e)
      ∧ ExprIn n (l.foldl (fun e t => e.addQuadratic vt (gs.getD t.1 0) (gs.getD t.2.1 0) t.2.2) e) := by
    intro l
    induction l with
    | nil => intro _ e h1 h2; exact ⟨h1, h2⟩
    | cons t ts ih =>
      intro hl e h1 h2
      rw [List.foldl_cons]
      have ht := hl t List.mem_cons_self
      exact ih (fun q hq => hl q (List.mem_cons_of_mem _ hq)) _ (addQuadratic_wf h1 vt _ _ _)
        (addQuadratic_in h2 vt (getD_mem_or_default hgs ht.1) (getD_mem_or_default hgs ht.2) _)
  have h1 := lin (gs.zip mi.lin) (by
    intro p hp
    exact hgs p.1 (List.of_mem_zip hp).1) {} exprWF_empty (by intro g hg; cases hg)
  have h2 := quad mi.quad hq _ h1.1 h1.2
  exact ⟨addOffset_wf h2.1 _, h2.2⟩

theorem toQB_ok {mi : ModelIn} (hmi : ModelInOK mi) : QBOk mi.vars.length mi.toQB := by
  unfold Cqm.ModelIn.toQB
  have : ∀ (l : List (Nat × Nat × Rat)), (∀ t ∈ l, t.1 < mi.vars.length ∧ t.2.1 < mi.vars.length) →
      ∀ q, QBOk mi.vars.length q → QBOk mi.vars.length (l.foldl (fun q t =>
        if t.1 = t.2.1 then q.asym t.1 t.1 t.2.2 false else (q.asym t.1 t.2.1 t.2.2 false).asym t.2.1 t.1 t.2.2 false) q) := by
    intro l
    induction l with
    | nil => intro _ q hq; exact hq
    | cons t ts ih =>
      intro hl q hq
      rw [List.foldl_cons]
      have ht := hl t List.mem_cons_self
      apply ih (fun q hq => hl q (List.mem_cons_of_mem _ hq))
      split_ifs
      · exact asym_ok hq ht.1 _ _
      · exact asym_ok (asym_ok hq ht.2 _ _) ht.1 _ _
  apply this mi.quad hmi.quad_lt
  exact ⟨hmi.lin_len, by simp [hmi.lin_len], by
    intro nb hnb p hp
    have : nb = [] := by
      obtain ⟨_, _, rfl⟩ := List.mem_map.mp hnb; rfl
    subst this; cases hp⟩

theorem buildMove_wf {n : Nat} {gs : List Nat} (hgs : ∀ g ∈ gs, g < n) (hnd : gs.Nodup) {mi : ModelIn} (hmi : ModelInOK mi)
    (hlen : gs.length = mi.vars.length) : ExprWF (buildMove gs mi) ∧ ExprIn n (buildMove gs mi) := by
  unfold Cqm.buildMove
  exact ⟨relabel_wf (by rw [hlen]; exact toQB_ok hmi) hnd, hgs⟩

theorem setObjectiveModel_wf {m : Cqm} (h : CqmWF m) {mi : ModelIn} (hmi : ModelInOK mi) : CqmWF (m.setObjectiveModel mi).1 := by
  unfold Cqm.setObjectiveModel
  split_ifs
  · exact h
  · simp only []
    obtain ⟨h1, _, _, _, _, hlen, hlt, _⟩ := mapping_props h hmi
    apply cqmWF_mk
    · exact buildCopy_wf _ hlt (by rw [hlen]; exact hmi.quad_lt)
    · show ∀ c ∈ (m.addMissing mi).cons, ExprWF c.e ∧ ExprIn (m.addMissing mi).vt.length c.e
      exact cqmWF_cons h1
    · exact h1.lb_len
    · exact h1.ub_len
    · exact h1.labels_len
    · exact h1.clabels_len

theorem addConstraintModel_wf {m : Cqm} (h : CqmWF m) {mi : ModelIn} (hmi : ModelInOK mi) (sense : Sense) (rhs : Rat)
    (label : Label) (copy : Bool) (weight : Option Rat) (pen : Nat) :
    CqmWF (m.addConstraintModel mi sense rhs label copy weight pen).1 := by
  unfold Cqm.addConstraintModel
  obtain ⟨h1, _, _, _, _, hlen, hlt, hnd⟩ := mapping_props h hmi
  have hc := buildCopy_wf (n := (m.addMissing mi).vt.length) (m.addMissing mi).vt hlt (mi := mi) (by rw [hlen]; exact hmi.quad_lt)
  have hm := buildMove_wf hlt hnd hmi hlen
  by_cases hl : label ∈ m.clabels
  · rw [if_pos hl]; exact h
  · rw [if_neg hl]
    by_cases hcf : m.conflicts mi = true
    · rw [if_pos hcf]; exact h
    · rw [if_neg hcf]
      simp only []
      cases copy with
      | true => exact pushCons_wf h1 hc.1 hc.2 _ _ _ _ _
      | false => exact pushCons_wf h1 hm.1 hm.2 _ _ _ _ _

theorem markLast_wf {r : Res} (hr : CqmWF r.1) (k : Nat) :
    CqmWF (match r with
      | (m1, none) => ((m1.modCons k fun c => { c with discrete := true }, none) : Res)
      | r => r).1 := by
  obtain ⟨m1, e⟩ := r
  cases e with
  | none => exact modCons_attr_wf hr _ _ (fun _ => rfl)
  | some c => exact hr

theorem addDiscreteModel_wf {m : Cqm} (h : CqmWF m) {mi : ModelIn} (hmi : ModelInOK mi) (label : Label) (copy chk : Bool) :
    CqmWF (m.addDiscreteModel mi label copy chk).1 := by
  unfold Cqm.addDiscreteModel
  split_ifs
  · exact h
  · exact h
  · exact markLast_wf (addConstraintModel_wf h hmi .eq 1 label copy none 0) m.cons.length

theorem addDiscreteComparison_wf {m : Cqm} (h : CqmWF m) {mi : ModelIn} (hmi : ModelInOK mi) (sense : Sense) (rhs : Rat)
    (label : Label) (copy chk : Bool) : CqmWF (m.addDiscreteComparison mi sense rhs label copy chk).1 := by
  unfold Cqm.addDiscreteComparison
  split_ifs
  · exact h
  · exact h
  · exact addDiscreteModel_wf h hmi _ _ _

theorem nodup_uniq (vs : List Label) : (uniq vs).Nodup := by
  induction vs with
  | nil => exact List.nodup_nil
  | cons a t ih =>
    unfold Cqm.uniq
    rw [List.nodup_cons]
    refine ⟨?_, List.Nodup.sublist List.filter_sublist ih⟩
    rw [List.mem_filter]; intro ⟨_, h⟩; simp at h

theorem discreteModelOf_ok (vs : List Label) : ModelInOK (discreteModelOf vs) :=
  ⟨nodup_uniq vs, by simp [Cqm.discreteModelOf], by simp [Cqm.discreteModelOf], by intro t ht; cases ht⟩

theorem addDiscreteVars_wf {m : Cqm} (h : CqmWF m) (vs : List Label) (label : Label) (chk : Bool) :
    CqmWF (m.addDiscreteVars vs label chk).1 := by
  unfold Cqm.addDiscreteVars
  split_ifs
  · exact h
  · exact h
  · exact markLast_wf (addConstraintModel_wf h (discreteModelOf_ok vs) .eq 1 label false none 0) m.cons.length

/-! ### every operation, every history -/

/-- the models handed to an operation are well formed (true of every real BQM / QM) -/
def OpOK : Op → Prop
  | .setObjectiveModel mi => ModelInOK mi
  | .addConstraintModel mi _ _ _ _ _ _ => ModelInOK mi
  | .addDiscreteModel mi _ _ _ => ModelInOK mi
  | .addDiscreteComparison mi _ _ _ _ _ => ModelInOK mi
  | _ => True

theorem step_wf {m : Cqm} (h : CqmWF m) (op : Op) (hop : OpOK op) : CqmWF (m.step op).1 := by
  cases op with
  | addVariable vt v lb ub => exact addVariableG_wf h vt v lb ub
  | setObjectiveModel mi => exact setObjectiveModel_wf h hop
  | setObjectiveTerms ts => exact setObjectiveTerms_wf h ts
  | addConstraintModel mi sense rhs label copy weight pen => exact addConstraintModel_wf h hop _ _ _ _ _ _
  | addConstraintTerms ts sense rhs label weight pen => exact addConstraintTerms_wf h _ _ _ _ _ _
  | addDiscreteModel mi label copy chk => exact addDiscreteModel_wf h hop _ _ _
  | addDiscreteComparison mi sense rhs label copy chk => exact addDiscreteComparison_wf h hop _ _ _ _ _
  | addDiscreteVars vs label chk => exact addDiscreteVars_wf h _ _ _
  | removeVariable v => exact removeVariableR_wf h v
  | fixVariable v a => exact fixVariableR_wf h v a
  | fixVariables fixed => exact fixVariablesInplace_wf fixed h
  | flipVariable v => exact flipVariableR_wf h v
  | changeVartype vt v => exact changeVartypeR_wf h vt v
  | spinToBinary => exact spinToBinary_wf h
  | removeConstraint label cascade => exact removeConstraintR_wf h label cascade
  | relabelVariables mp => exact relabelVariables_wf h mp
  | relabelConstraints mp => exact relabelConstraints_wf h mp
  | setLowerBound v x => exact setLowerBound_wf h v x
  | setUpperBound v x => exact setUpperBound_wf h v x
  | viewAddLinear w v b => exact viewAddLinear_wf h w v b
  | viewSetLinear w v b => exact viewSetLinear_wf h w v b
  | viewAddQuadratic w u v b => exact viewAddQuadratic_wf h w u v b
  | viewRemoveInteraction w u v => exact viewRemoveInteraction_wf h w u v
  | viewRemoveVariable w v => exact viewRemoveVariable_wf h w v
  | viewSetOffset w b => exact viewSetOffset_wf h w b
  | viewMarkDiscrete l mark => exact viewMarkDiscrete_wf h l mark
  | viewSetWeight l weight pen => exact viewSetWeight_wf h l weight pen
  | deepcopy => exact h

theorem run_wf (ops : List Op) : ∀ {m : Cqm}, CqmWF m → (∀ op ∈ ops, OpOK op) → CqmWF (m.run ops) := by
  induction ops with
  | nil => intro m h _; exact h
  | cons op t ih =>
    intro m h hops
    unfold Cqm.run
    rw [List.foldl_cons]
    exact ih (step_wf h op (hops op List.mem_cons_self)) (fun o ho => hops o (List.mem_cons_of_mem _ ho))

end CqmP
