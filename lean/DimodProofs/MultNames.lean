import DimodProofs.MultCircuit

/-! # C17: the wire names of `multiplication_circuit` are pairwise different (core Lean only) -/

namespace Gen
open Pen

/-- the wires of the multiplier -/
inductive W
  | a (i : Nat) | b (j : Nat) | and (i j : Nat) | sum (i j : Nat) | carry (i j : Nat) | p (k : Nat)
  deriving DecidableEq

abbrev dig (n : Nat) : List Char := Nat.toDigits 10 n

def W.chars : W → List Char
  | .a i => 'a' :: dig i
  | .b j => 'b' :: dig j
  | .and i j => 'a' :: 'n' :: 'd' :: (dig i ++ ',' :: dig j)
  | .sum i j => 's' :: 'u' :: 'm' :: (dig i ++ ',' :: dig j)
  | .carry i j => 'c' :: 'a' :: 'r' :: 'r' :: 'y' :: (dig i ++ ',' :: dig j)
  | .p k => 'p' :: dig k

def W.name (w : W) : Label := strLabel (String.ofList w.chars)

theorem dig_inj (i i' : Nat) (h : dig i = dig i') : i = i' := by
  have h1 := @Nat.ofDigitChars_ten_toDigits i
  have h2 := @Nat.ofDigitChars_ten_toDigits i'
  unfold dig at h
  rw [h] at h1
  omega

theorem dig_isDigit (i : Nat) (c : Char) (h : c ∈ dig i) : c.isDigit = true :=
  Nat.isDigit_of_mem_toDigits (by decide) (by decide) h

theorem comma_notin (i : Nat) : ',' ∉ dig i := by
  intro h; have := dig_isDigit i ',' h; revert this; decide

theorem dig_ne_nil (i : Nat) : dig i ≠ [] := Nat.toDigits_ne_nil

theorem split_comma (l1 l2 r1 r2 : List Char) (h1 : ',' ∉ l1) (h2 : ',' ∉ l2) (h : l1 ++ ',' :: r1 = l2 ++ ',' :: r2) :
    l1 = l2 ∧ r1 = r2 := by
  induction l1 generalizing l2 with
  | nil =>
    cases l2 with
    | nil => simp at h; exact ⟨rfl, h⟩
    | cons c t =>
      simp only [List.nil_append, List.cons_append, List.cons.injEq] at h
      exact absurd (by rw [← h.1]; simp) h2
  | cons c t ih =>
    cases l2 with
    | nil =>
      simp only [List.nil_append, List.cons_append, List.cons.injEq] at h
      exact absurd (by rw [h.1]; simp) h1
    | cons c' t' =>
      simp only [List.cons_append, List.cons.injEq] at h
      have := ih t' (fun hm => h1 (by simp [hm])) (fun hm => h2 (by simp [hm])) h.2
      exact ⟨by rw [h.1, this.1], this.2⟩

theorem pair_inj (i j i' j' : Nat) (h : dig i ++ ',' :: dig j = dig i' ++ ',' :: dig j') : i = i' ∧ j = j' := by
  have := split_comma _ _ _ _ (comma_notin i) (comma_notin i') h
  exact ⟨dig_inj _ _ this.1, dig_inj _ _ this.2⟩

theorem head_digit (i : Nat) (c : Char) (t : List Char) (h : dig i = c :: t) : c.isDigit = true :=
  dig_isDigit i c (by rw [h]; simp)

theorem chars_inj (w w' : W) (h : w.chars = w'.chars) : w = w' := by
  cases w <;> cases w' <;> simp only [W.chars, List.cons.injEq] at h
  all_goals first
    | (exfalso; obtain ⟨h0, _⟩ := h; revert h0; decide)
    | (exfalso; obtain ⟨_, h⟩ := h; have := head_digit _ _ _ h; revert this; decide)
    | (exfalso; obtain ⟨_, h⟩ := h; have := head_digit _ _ _ h.symm; revert this; decide)
    | (obtain ⟨_, _, _, _, _, h⟩ := h; obtain ⟨h1, h2⟩ := pair_inj _ _ _ _ h; rw [h1, h2])
    | (obtain ⟨_, _, _, h⟩ := h; obtain ⟨h1, h2⟩ := pair_inj _ _ _ _ h; rw [h1, h2])
    | (obtain ⟨_, h⟩ := h; rw [dig_inj _ _ h])

theorem name_inj (w w' : W) (h : w.name = w'.name) : w = w' := by
  unfold W.name strLabel at h
  injection h with h
  exact chars_inj w w' (String.ofList_inj.1 h)

end Gen
