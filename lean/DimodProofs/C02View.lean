import DimodProofs.C02Convert
import DimodProofs.C03Witness

/-! # C02 — `VartypeView`: the generated read/write factors are the conversion formulas

`Generated.Vartype.viewBinaryOverSpin` / `viewSpinOverBinary` are extracted from `vartypeview.py` by probing the
class (translator `c02_constants.py`).  Reads: the value a view reports equals the corresponding coefficient of the
*converted* model (`substitute_variables` with the generated C++ pair, proved to be the substitution in
`substVars_eval`).  Writes: what a view write adds to the data is exactly the edit monomial expressed in the
data's variables — so "write through the view" = "convert, edit, convert back". -/

open Finset

namespace En

open Generated.Vartype

/-! ## reads -/

/-- `view.get_linear(v)`, BINARY view of SPIN data: `2·lin − 2·Σ nbhd` is the linear bias of the converted model -/
theorem view_getLinear_binaryOverSpin (m : QMB Rat) (hm : m.WF) (u : Nat) (hu : u < m.n) :
    viewBinaryOverSpin.getLinLin * m.L u + viewBinaryOverSpin.getLinNb * m.rowSum u
      = (m.substituteVariables bqmToBinary.1 bqmToBinary.2).L u := by
  rw [QMB.L_substituteVariables m hm _ _ u hu]
  simp only [viewBinaryOverSpin, bqmToBinary]; ring

/-- `view.get_linear(v)`, SPIN view of BINARY data -/
theorem view_getLinear_spinOverBinary (m : QMB Rat) (hm : m.WF) (u : Nat) (hu : u < m.n) :
    viewSpinOverBinary.getLinLin * m.L u + viewSpinOverBinary.getLinNb * m.rowSum u
      = (m.substituteVariables bqmToSpin.1 bqmToSpin.2).L u := by
  rw [QMB.L_substituteVariables m hm _ _ u hu]
  simp only [viewSpinOverBinary, bqmToSpin]; ring

/-- `view.get_quadratic(u, v)` / `iter_neighborhood` / `iter_quadratic` -/
theorem view_getQuadratic (m : QMB Rat) (u w : Nat) :
    viewBinaryOverSpin.getQuad * m.Q u w = (m.substituteVariables bqmToBinary.1 bqmToBinary.2).Q u w ∧
    viewSpinOverBinary.getQuad * m.Q u w = (m.substituteVariables bqmToSpin.1 bqmToSpin.2).Q u w := by
  rw [QMB.Q_substituteVariables, QMB.Q_substituteVariables]
  simp only [viewBinaryOverSpin, viewSpinOverBinary, bqmToBinary, bqmToSpin]
  constructor <;> ring

/-- `view.offset`: `reduce_quadratic(add)` runs over each interaction once, i.e. it is half the sum of all row sums -/
theorem view_offset (m : QMB Rat) (hm : m.WF) :
    m.off + viewBinaryOverSpin.offLin * (∑ u ∈ range m.n, m.L u) + viewBinaryOverSpin.offQuad * ((∑ u ∈ range m.n, m.rowSum u) / 2)
      = (m.substituteVariables bqmToBinary.1 bqmToBinary.2).off ∧
    m.off + viewSpinOverBinary.offLin * (∑ u ∈ range m.n, m.L u) + viewSpinOverBinary.offQuad * ((∑ u ∈ range m.n, m.rowSum u) / 2)
      = (m.substituteVariables bqmToSpin.1 bqmToSpin.2).off := by
  rw [QMB.off_substituteVariables m hm, QMB.off_substituteVariables m hm]
  simp only [viewBinaryOverSpin, viewSpinOverBinary, bqmToBinary, bqmToSpin, two]
  constructor <;> ring

/-- `view.energies`: the sample values handed to the data are the converted values -/
theorem view_sampleMap (x s : Rat) :
    viewBinaryOverSpin.sampleMul * x + viewBinaryOverSpin.sampleAdd = 2 * x - 1 ∧
    viewSpinOverBinary.sampleMul * s + viewSpinOverBinary.sampleAdd = (s + 1) / 2 := by
  simp only [viewBinaryOverSpin, viewSpinOverBinary]
  constructor <;> ring

/-! ## writes: what lands in the data is the edit, converted -/

/-- `view.add_linear(v, b)` through a BINARY view of SPIN data adds `b·x_v = b·(s_v + 1)/2` to the data polynomial -/
theorem view_addLinear_binaryOverSpin (b s : Rat) :
    (viewBinaryOverSpin.addLinLin * b) * s + viewBinaryOverSpin.addLinOff * b = b * ((s + 1) / 2) := by
  simp only [viewBinaryOverSpin]; ring

/-- … through a SPIN view of BINARY data it adds `b·s_v = b·(2·x_v − 1)` -/
theorem view_addLinear_spinOverBinary (b x : Rat) :
    (viewSpinOverBinary.addLinLin * b) * x + viewSpinOverBinary.addLinOff * b = b * (2 * x - 1) := by
  simp only [viewSpinOverBinary]; ring

/-- `view.add_quadratic(u, v, b)`: one quadratic, two linear and one offset increment = `b·x_u·x_v` in spins -/
theorem view_addQuadratic_binaryOverSpin (b su sv : Rat) :
    (viewBinaryOverSpin.addQuadQuad * b) * su * sv + (viewBinaryOverSpin.addQuadLinU * b) * su
      + (viewBinaryOverSpin.addQuadLinW * b) * sv + viewBinaryOverSpin.addQuadOff * b
      = b * ((su + 1) / 2) * ((sv + 1) / 2) := by
  simp only [viewBinaryOverSpin]; ring

theorem view_addQuadratic_spinOverBinary (b xu xv : Rat) :
    (viewSpinOverBinary.addQuadQuad * b) * xu * xv + (viewSpinOverBinary.addQuadLinU * b) * xu
      + (viewSpinOverBinary.addQuadLinW * b) * xv + viewSpinOverBinary.addQuadOff * b
      = b * (2 * xu - 1) * (2 * xv - 1) := by
  simp only [viewSpinOverBinary]; ring

/-! ## the view functions of the model apply exactly these increments -/

theorem View.addLinear_through (T : ViewTables Rat) (view : VT) (d : LBqm Rat) (v : Label) (b : Rat) (h : view ≠ d.vt) :
    View.addLinear T view d v b
      = { d.addLinear v ((View.tbl T view).addLinLin * b) with
          off := (d.addLinear v ((View.tbl T view).addLinLin * b)).off + (View.tbl T view).addLinOff * b } := by
  unfold View.addLinear; simp [h]

theorem View.addLinear_same (T : ViewTables Rat) (d : LBqm Rat) (v : Label) (b : Rat) :
    View.addLinear T d.vt d v b = d.addLinear v b := by
  unfold View.addLinear; simp

/-- the offset setter after D7: a view whose vartype equals the data's sets the data's offset; otherwise the
    difference to the *view's* current offset is added, so that reading the offset back returns `b` -/
theorem View.setOffset_readback (T : ViewTables Rat) (view : VT) (d d' : LBqm Rat) (b : Rat)
    (h : View.setOffset T view d b = .ok d') : View.offset T view d' = b := by
  unfold View.setOffset at h
  by_cases hv : view = d.vt
  · simp only [hv, if_true, Except.ok.injEq] at h
    subst h
    simp [View.offset, hv]
  · simp only [hv, if_false, Except.ok.injEq] at h
    subst h
    simp only [View.offset, hv, if_false, LBqm.reduceLinear, LBqm.reduceQuadratic, LBqm.iterQuadratic]
    ring

end En
