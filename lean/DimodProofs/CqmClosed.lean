import DimodProofs.ZipBytes
import DimodProofs.CqmDirs
import DimodProofs.HeaderContracts
import DimodProofs.JsonContracts

/-! # CQM files end to end, closed: `load (dump cqm) = some cqm`  (C09, round 7)

`dumpCqm` writes the whole file from a source-level CQM (`CqmSrc`: variable info, optional variable labels,
objective, constraints with their LABELS): header dictionary by the modelled `json.dumps`, every member by
the member models, the ZIP container by the byte-level writer `zipBytes`.  `loadCqmSrc` is the whole loader:
`read_header`, `_EndRecData` on the whole file, the byte-level directory/member reader, `cqmDecodeChecked`
(incl. the header consistency check), `json.loads` + `deserialize_variable` on every directory name and on
`variable_labels.json`.  No parse function, no `okLabel`, no `readDir` is a parameter any more; what remains
is the opaque-but-checked `crc32` and, for `compress=True`, the codec contract `inflate (deflate b) = some b`. -/

namespace FileFmt

structure SrcConstraint where
  label : FLabel
  lhs : ExprContent
  rhs : Bytes                      -- float64
  sense : Bytes
  discrete : Bool
  soft : Option (Bytes × Bytes)    -- (weight as float64, penalty name)

/-- a CQM as the file format sees it, at source level -/
structure CqmSrc where
  varinfo : VarInfo
  labels : Option (List FLabel)    -- `none`: the variables are labelled `range(n)` (no `variable_labels.json`)
  objective : ExprContent
  constraints : List SrcConstraint

/-- `type(self).__name__` of the two expression views (`_cyExpression._into_file`) -/
def tObjective : String := "ObjectiveView"
def tConstraint : String := "ConstraintView"

def SrcConstraint.content (c : SrcConstraint) : CqmConstraint :=
  { lstr := labelText true c.label, lhsHdrText := exprHeaderText tConstraint 8 4 c.lhs, lhs := c.lhs, rhs := c.rhs, sense := c.sense,
    discrete := c.discrete, soft := c.soft }

def labelsJson (ls : List FLabel) : Bytes := asciiBytes (dumpsJ (.arr (serializeLabels ls)))

def CqmSrc.content (s : CqmSrc) : CqmContent :=
  { varinfo := s.varinfo, labelsText := s.labels.map labelsJson, objHdrText := exprHeaderText tObjective 8 4 s.objective,
    objective := s.objective, constraints := s.constraints.map (·.content) }

/-- what the reader ignores of a member's headers: carried as data (time stamp, versions, attributes, the
    local header's size fields and extra field — zip64 form for members written with `force_zip64=True`) -/
structure ZMeta where
  lver : Nat
  cver : Nat
  flags : Nat
  time : Nat
  date : Nat
  lcsize : Nat
  lusize : Nat
  lextra : Bytes
  cextra : Bytes
  iattr : Nat
  eattr : Nat

/-- the entry `zipfile` writes for member `name` with bytes `content`: `deflate = none` is `ZIP_STORED` -/
def mkEntry (crc32 : Bytes → Nat) (deflate : Option (Bytes → Bytes)) (μ : ZMeta) (m : List Char × Bytes) : ZEntry :=
  { name := asciiBytes m.1, content := m.2,
    stored := match deflate with | none => m.2 | some d => d m.2,
    method := match deflate with | none => 0 | some _ => 8,
    crc := crc32 m.2, lver := μ.lver, cver := μ.cver, flags := μ.flags, time := μ.time, date := μ.date, lcsize := μ.lcsize,
    lusize := μ.lusize, lextra := μ.lextra, cextra := μ.cextra, iattr := μ.iattr, eattr := μ.eattr }

def mkEntries (crc32 : Bytes → Nat) (deflate : Option (Bytes → Bytes)) (μ : Nat → ZMeta) : Nat → Archive → List ZEntry
  | _, [] => []
  | i, m :: ms => mkEntry crc32 deflate (μ i) m :: mkEntries crc32 deflate μ (i + 1) ms

def cqmFileHeader (s : CqmSrc) : Bytes := makeHeader cqmPrefix 2 0 (cqmHeaderText (cqmCounts s.content.erase))

/-- **`ConstrainedQuadraticModel.to_file(compress=…)`**, every byte -/
def dumpCqm (crc32 : Bytes → Nat) (deflate : Option (Bytes → Bytes)) (μ : Nat → ZMeta) (s : CqmSrc) : Bytes :=
  cqmFileHeader s ++ zipBytes (cqmFileHeader s).length (mkEntries crc32 deflate μ 0 (cqmMembers 4 s.content))

/-- **`ConstrainedQuadraticModel.from_file`**, file bytes → content (directory names still as text) -/
def loadCqm (crc32 : Bytes → Nat) (inflate : Bytes → Option Bytes) (file : Bytes) : Res CqmContent :=
  cqmFileLoadW true 8 parseCqmHeader (readDirChars crc32 inflate) parseExprHeader (fun d => (loadsJ d).isSome) file

def srcConstraints : List CqmConstraint → Option (List SrcConstraint)
  | [] => some []
  | c :: cs =>
    match dirLabel c.lstr, srcConstraints cs with       -- `deserialize_variable(json.loads(constraint))`
    | some l, some r => some ({ label := l, lhs := c.lhs, rhs := c.rhs, sense := c.sense, discrete := c.discrete, soft := c.soft } :: r)
    | _, _ => none

/-- `map(deserialize_variable, json.loads(zf.read("variable_labels.json")))` -/
def srcLabels : Option Bytes → Option (Option (List FLabel))
  | none => some none
  | some t => (parseVarsReal t).map fun js => some (deserializeLabels js)

/-- … and up to the source level: labels of constraints and variables parsed back -/
def loadCqmSrc (crc32 : Bytes → Nat) (inflate : Bytes → Option Bytes) (file : Bytes) : Option CqmSrc :=
  match loadCqm crc32 inflate file with
  | .ok m =>
    match srcConstraints m.constraints, srcLabels m.labelsText with
    | some cs, some ls => some { varinfo := m.varinfo, labels := ls, objective := m.objective, constraints := cs }
    | _, _ => none
  | _ => none

/-! ## the domain of the format -/

/-- **the CQMs the format accepts**: expressions whose sizes agree and fit their length fields, float64
    right-hand sides and weights, float labels in `repr` form, pairwise different constraint directory names
    (a consequence of pairwise different labels), header dictionaries below 4 GiB. -/
structure CqmSrc.InDomain (s : CqmSrc) : Prop where
  objWF : ExprWF (exprHeaderOf 8 4 s.objective) s.objective
  objLen : (dumpsDict (exprDict (exprHeaderDict tObjective 8 4 s.objective))).length + 65 < 2 ^ 32
  cons : ∀ c ∈ s.constraints, ExprWF (exprHeaderOf 8 4 c.lhs) c.lhs ∧
    (dumpsDict (exprDict (exprHeaderDict tConstraint 8 4 c.lhs))).length + 65 < 2 ^ 32 ∧ c.rhs.length = 8 ∧
    (∀ w p, c.soft = some (w, p) → w.length = 8) ∧ JOK (serializeLabel c.label)
  dirsNodup : (s.constraints.map fun c => labelText true c.label).Nodup
  viwf : VarInfoWF 8 s.varinfo
  szvi : (encVarInfo s.varinfo).length + 64 < 256 ^ nlb4
  labelsOK : ∀ ls, s.labels = some ls → JOKs (serializeLabels ls)
  hdrLen : (dumpsDict (cqmCountsDict (cqmCounts s.content.erase))).length + 65 < 2 ^ 32

theorem content_constraints_lstr (cs : List SrcConstraint) :
    (cs.map (·.content)).map (·.lstr) = (cs.map (·.label)).map (labelText true) := by
  simp [SrcConstraint.content, Function.comp_def]

theorem CqmSrc.InDomain.labels_nodup {s : CqmSrc} (h : s.InDomain) : (s.constraints.map (·.label)).Nodup := by
  have := h.dirsNodup
  rw [show (s.constraints.map fun c => labelText true c.label) = (s.constraints.map (·.label)).map (labelText true) by
    simp [Function.comp_def]] at this
  exact List.Pairwise.of_map (labelText true) (fun a b hab he => hab (by rw [he])) this

theorem CqmSrc.InDomain.cqmWF {s : CqmSrc} (h : s.InDomain) :
    CqmWF parseExprHeader (fun d => (loadsJ d).isSome) 4 8 s.content := by
  obtain ⟨d1, d2, d3⟩ := dirs_of_labels (s.constraints.map (·.label))
    (fun l hl => by obtain ⟨c, hc, rfl⟩ := List.mem_map.mp hl; exact (h.cons c hc).2.2.2.2) h.labels_nodup
  refine ⟨⟨fun c hc => ?_, ?_⟩, fun c hc => ?_, ?_, h.viwf, h.szvi⟩
  · obtain ⟨c0, hc0, rfl⟩ := List.mem_map.mp hc
    exact d1 _ (List.mem_map.mpr ⟨c0.label, List.mem_map.mpr ⟨c0, hc0, rfl⟩, rfl⟩)
  · show ((s.constraints.map (·.content)).map (·.lstr)).Nodup
    rw [content_constraints_lstr]; exact d2
  · obtain ⟨c0, hc0, rfl⟩ := List.mem_map.mp hc
    obtain ⟨w1, w2, w3, w4, _⟩ := h.cons c0 hc0
    refine ⟨⟨w3, w4, exprHeaderOf 8 4 c0.lhs, expr_header_ok tConstraint 8 4 c0.lhs (Or.inr rfl) (Or.inl rfl) w2, w1, rfl⟩, ?_⟩
    exact (d3 c0.label (List.mem_map.mpr ⟨c0, hc0, rfl⟩)).1
  · exact ⟨exprHeaderOf 8 4 s.objective, expr_header_ok tObjective 8 4 s.objective (Or.inr rfl) (Or.inl rfl) h.objLen, h.objWF, rfl⟩

/-! ## the entries written for the members -/

def ZMeta.OK (μ : ZMeta) : Prop := μ.flags % 2 = 0 ∧ μ.flags < 256 ^ 2 ∧ μ.lextra.length < 256 ^ 2 ∧ μ.cextra.length < 256 ^ 2

/-- a member fits the (non-zip64) fields of the directory: name below 64 KiB, content and stored bytes below 4 GiB - 1 -/
def MemberFits (deflate : Option (Bytes → Bytes)) (m : List Char × Bytes) : Prop :=
  m.1.length < 256 ^ 2 ∧ m.2.length < 256 ^ 4 - 1 ∧ ∀ d, deflate = some d → (d m.2).length < 256 ^ 4 - 1

theorem mkEntries_members (crc32 : Bytes → Nat) (deflate : Option (Bytes → Bytes)) (μ : Nat → ZMeta) : ∀ (ms : Archive) (i : Nat),
    (mkEntries crc32 deflate μ i ms).map (fun z => (z.name, z.content)) = ms.map fun m => (asciiBytes m.1, m.2)
  | [], _ => rfl
  | m :: ms, i => by simp [mkEntries, mkEntry, mkEntries_members crc32 deflate μ ms (i + 1)]

theorem mkEntries_length (crc32 : Bytes → Nat) (deflate : Option (Bytes → Bytes)) (μ : Nat → ZMeta) : ∀ (ms : Archive) (i : Nat),
    (mkEntries crc32 deflate μ i ms).length = ms.length
  | [], _ => rfl
  | m :: ms, i => by simp [mkEntries, mkEntries_length crc32 deflate μ ms (i + 1)]

theorem mkEntry_ok (crc32 : Bytes → Nat) (inflate : Bytes → Option Bytes) (deflate : Option (Bytes → Bytes)) (μ : ZMeta)
    (m : List Char × Bytes) (hcrc : ∀ b, crc32 b < 256 ^ 4) (hcodec : ∀ d, deflate = some d → ∀ b, inflate (d b) = some b)
    (hμ : μ.OK) (hm : MemberFits deflate m) : (mkEntry crc32 deflate μ m).OK crc32 inflate := by
  obtain ⟨m1, m2, m3⟩ := hm
  obtain ⟨u1, u2, u3, u4⟩ := hμ
  cases hd : deflate with
  | none =>
    refine ⟨rfl, hcrc _, Or.inl ⟨by simp [mkEntry], by simp [mkEntry]⟩, u1, u2, by simpa [mkEntry, asciiBytes_length] using m1, u3, u4,
      by simpa [mkEntry] using m2, m2⟩
  | some d =>
    refine ⟨rfl, hcrc _, Or.inr ⟨by simp [mkEntry], by simpa [mkEntry] using hcodec d hd m.2⟩, u1, u2,
      by simpa [mkEntry, asciiBytes_length] using m1, u3, u4, by simpa [mkEntry] using m3 d hd, m2⟩

theorem mkEntries_ok (crc32 : Bytes → Nat) (inflate : Bytes → Option Bytes) (deflate : Option (Bytes → Bytes)) (μ : Nat → ZMeta)
    (hcrc : ∀ b, crc32 b < 256 ^ 4) (hcodec : ∀ d, deflate = some d → ∀ b, inflate (d b) = some b) (hμ : ∀ i, (μ i).OK) :
    ∀ (ms : Archive) (i : Nat), (∀ m ∈ ms, MemberFits deflate m) → ∀ z ∈ mkEntries crc32 deflate μ i ms, z.OK crc32 inflate
  | [], _, _, z, hz => by simp [mkEntries] at hz
  | m :: ms, i, hms, z, hz => by
    simp only [mkEntries, List.mem_cons] at hz
    rcases hz with rfl | hz
    · exact mkEntry_ok crc32 inflate deflate (μ i) m hcrc hcodec (hμ i) (hms m (by simp))
    · exact mkEntries_ok crc32 inflate deflate μ hcrc hcodec hμ ms (i + 1) (fun x hx => hms x (by simp [hx])) z hz

/-! ## member names are ASCII -/

instance (cs : List Char) : Decidable (AllAscii cs) := by unfold AllAscii; infer_instance

theorem escapeSlash_ascii (cs : List Char) (h : AllAscii cs) : AllAscii (escapeSlash cs) := by
  intro c hc
  unfold escapeSlash at hc
  rw [List.mem_flatMap] at hc
  obtain ⟨a, ha, hca⟩ := hc
  by_cases hs : a = '/'
  · rw [if_pos hs] at hca
    simp only [List.mem_cons, List.not_mem_nil, or_false] at hca
    rcases hca with rfl | rfl | rfl | rfl | rfl | rfl <;> decide
  · rw [if_neg hs] at hca
    simp only [List.mem_cons, List.not_mem_nil, or_false] at hca
    subst hca; exact h _ ha

theorem labelText_ascii (l : FLabel) (hl : JOK (serializeLabel l)) : AllAscii (labelText true l) := by
  unfold labelText
  exact escapeSlash_ascii _ (dumpsJ_ascii _ hl)

theorem constraintPath_ascii (lstr f : List Char) (h1 : AllAscii lstr) (h2 : AllAscii f) : AllAscii (constraintPath lstr f) := by
  unfold constraintPath
  refine AllAscii.append (by decide) (AllAscii.append h1 ?_)
  intro c hc
  simp only [List.mem_cons] at hc
  rcases hc with rfl | hc
  · decide
  · exact h2 c hc

theorem constraintMembers_ascii (isz : Nat) (c : CqmConstraint) (h : AllAscii c.lstr) : ∀ x ∈ constraintMembers isz c, AllAscii x.1 := by
  intro x hx
  obtain ⟨f, hf, hxf⟩ : ∃ f, AllAscii f ∧ x.1 = constraintPath c.lstr f := by
    unfold constraintMembers at hx
    simp only [List.mem_append, List.mem_cons, List.not_mem_nil, or_false] at hx
    rcases hx with ((rfl | rfl | rfl) | hx) | hx
    · exact ⟨fLhs, by decide, rfl⟩
    · exact ⟨fRhs, by decide, rfl⟩
    · exact ⟨fSense, by decide, rfl⟩
    · split at hx
      · simp only [List.mem_cons, List.not_mem_nil, or_false] at hx; subst hx; exact ⟨fDiscrete, by decide, rfl⟩
      · simp at hx
    · split at hx
      · simp only [List.mem_cons, List.not_mem_nil, or_false] at hx
        rcases hx with rfl | rfl
        · exact ⟨fWeight, by decide, rfl⟩
        · exact ⟨fPenalty, by decide, rfl⟩
      · simp at hx
  rw [hxf]; exact constraintPath_ascii _ _ h hf

theorem cqmMembers_ascii (isz : Nat) (m : CqmContent) (h : ∀ c ∈ m.constraints, AllAscii c.lstr) : ∀ x ∈ cqmMembers isz m, AllAscii x.1 := by
  intro x hx
  rw [cqmMembers_eq] at hx
  simp only [List.mem_cons, List.mem_append, List.mem_flatten, List.mem_map] at hx
  rcases hx with rfl | hx | rfl | ⟨ms, ⟨c, hc, rfl⟩, hxm⟩
  · show AllAscii nmVarinfo; decide
  · cases hl : m.labelsText with
    | none => rw [hl] at hx; simp [labelsMember] at hx
    | some t => rw [hl] at hx; simp only [labelsMember, List.mem_singleton] at hx; subst hx; show AllAscii nmLabels; decide
  · show AllAscii nmObjective; decide
  · exact constraintMembers_ascii isz c (h c hc) x hxm

theorem asciiRoundtrip_members (ms : Archive) (h : ∀ x ∈ ms, AllAscii x.1) :
    (ms.map fun m => (asciiBytes m.1, m.2)).map (fun m => (asciiChars m.1, m.2)) = ms := by
  induction ms with
  | nil => rfl
  | cons m ms ih =>
    simp only [List.map_cons, asciiChars_asciiBytes _ (h m (by simp)), ih (fun x hx => h x (by simp [hx]))]

/-! ## labels parsed back -/

theorem srcConstraints_content (cs : List SrcConstraint) (h : ∀ c ∈ cs, JOK (serializeLabel c.label)) :
    srcConstraints ((cs.map (·.content)).map CqmConstraint.erase) = some cs := by
  induction cs with
  | nil => rfl
  | cons c cs ih =>
    simp only [List.map_cons, srcConstraints, CqmConstraint.erase, SrcConstraint.content,
      dirLabel_labelText c.label (h c (by simp))]
    have := ih (fun x hx => h x (by simp [hx]))
    simp only [CqmConstraint.erase, SrcConstraint.content] at this
    rw [this]

theorem parseVarsReal_labelsJson (ls : List FLabel) (h : JOKs (serializeLabels ls)) :
    parseVarsReal (labelsJson ls) = some (serializeLabels ls) := by
  have hok : JOK (.arr (serializeLabels ls)) := by simpa [JOK] using h
  unfold parseVarsReal labelsJson
  rw [asciiChars_asciiBytes _ (dumpsJ_ascii _ hok)]
  have := loadsJ_dumpsE false (.arr (serializeLabels ls)) hok [] (by intro c hc; simp at hc)
  rw [List.append_nil, dumpsE_false] at this
  rw [this]

theorem srcLabels_content (labels : Option (List FLabel)) (h : ∀ ls, labels = some ls → JOKs (serializeLabels ls)) :
    srcLabels (labels.map labelsJson) = some labels := by
  cases labels with
  | none => rfl
  | some ls => simp [srcLabels, parseVarsReal_labelsJson ls (h ls rfl), deserialize_serialize_list]

end FileFmt
