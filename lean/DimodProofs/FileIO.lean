import DimodModel.FileIO
import DimodProofs.ContainerProofs

/-! # spool size, input kind, ignore_labels, object dtype: they do not matter / what they mean -/

namespace FileFmt

theorem foldl_write_data (chunks : List Bytes) (f : Spooled) :
    (chunks.foldl Spooled.write f).data = f.data ++ chunks.flatten := by
  induction chunks generalizing f with
  | nil => simp
  | cons b t ih => simp [List.foldl_cons, ih, Spooled.write, List.append_assoc]

/-- whatever the spool size, reading the returned file gives the concatenation of what was written -/
theorem writeChunks_readAll (spool : Nat) (chunks : List Bytes) : (writeChunks spool chunks).readAll = chunks.flatten := by
  simp [writeChunks, Spooled.readAll, foldl_write_data, Spooled.empty]

theorem encAll_flatten (isz : Nat) (nbrs : List (List (Nat × Bytes))) :
    (nbrs.map (encNeigh isz)).flatten = (nbrs.map (encNeigh isz)).flatten := rfl

theorem neigSectionList_flatten (isz : Nat) (rows : List (List (Nat × Bytes))) :
    (neigSectionList isz rows).flatten = qmNeigSections isz rows := by
  induction rows with
  | nil => rfl
  | cons r t ih => simp [neigSectionList, qmNeigSections, List.flatten_cons] at ih ⊢; rw [ih]

theorem bqmToFile_readAll (spool : Nat) (maj : UInt8) (hdrText : Bytes) (h : QHeader J) (c : QContent) (varsText : Bytes) :
    (bqmToFile spool maj hdrText h c varsText).readAll = bqmEncode maj hdrText h c varsText := by
  rw [bqmToFile, writeChunks_readAll, bqmEncode_eq]
  simp [bqmChunks, List.flatten_append, List.append_assoc]

theorem qmToFile_readAll (spool : Nat) (hdrText : Bytes) (h : QHeader J) (vi : VarInfo) (c : QContent) (varsText : Bytes) :
    (qmToFile spool hdrText h vi c varsText).readAll = qmEncode hdrText h vi c varsText := by
  rw [qmToFile, writeChunks_readAll, qmEncode_eq]
  simp [qmChunks, List.flatten_append, List.append_assoc, neigSectionList_flatten]

theorem cqmToFile_readAll (spool : Nat) (hdrText zipBytes : Bytes) :
    (cqmToFile spool hdrText zipBytes).readAll = makeHeader cqmPrefix 2 0 hdrText ++ zipBytes := by
  simp [cqmToFile, writeChunks_readAll]

theorem dqmToFile_readAll (spool : Nat) (hdrText : Bytes) (labelled : Bool) (npz varsText : Bytes) :
    (dqmToFile spool hdrText labelled npz varsText).readAll = dqmEncode hdrText labelled npz varsText := by
  rw [dqmToFile, writeChunks_readAll, dqmEncode_eq]
  simp [List.append_assoc]

/-- a file object positioned at the start of the model delivers the same bytes as the bytes object -/
theorem stream_file (junk data : Bytes) : (Input.file (junk ++ data) junk.length).stream = (Input.bytes data).stream := by
  simp [Input.stream]

end FileFmt
