import DimodProofs.SymTree

/-! C06: variable type and bounds through `update` (promotion keeps them, conflicts are rejected). -/

namespace Sym

/-- `w` is in the list with this label and info -/
def HasVar (vs : List Var) (l : Label) (i : VarInfo) : Prop := ∃ v ∈ vs, v.l = l ∧ v.info = i

theorem hasVar_bumpVar (vs : List Var) (k : Label) (b : Rat) (l : Label) (i : VarInfo) (h : HasVar vs l i) :
    HasVar (bumpVar k b vs) l i := by
  induction vs with
  | nil => obtain ⟨v, hv, _⟩ := h; simp at hv
  | cons a t ih =>
    obtain ⟨v, hv, hl, hi⟩ := h
    simp only [bumpVar]
    rcases List.mem_cons.mp hv with rfl | hv'
    · split
      · exact ⟨_, List.mem_cons_self, hl, hi⟩
      · exact ⟨_, List.mem_cons_self, hl, hi⟩
    · obtain ⟨w, hw, hwl, hwi⟩ := ih ⟨v, hv', hl, hi⟩
      split
      · exact ⟨v, List.mem_cons_of_mem _ hv', hl, hi⟩
      · exact ⟨w, List.mem_cons_of_mem _ hw, hwl, hwi⟩

theorem hasVar_addLinAll (vs ws : List Var) (l : Label) (i : VarInfo) (h : HasVar vs l i) : HasVar (addLinAll vs ws) l i := by
  induction ws generalizing vs with
  | nil => exact h
  | cons w rest ih => exact ih _ (hasVar_bumpVar vs _ _ l i h)

theorem hasVar_appendNew_left (vs ws : List Var) (l : Label) (i : VarInfo) (h : HasVar vs l i) : HasVar (appendNew vs ws) l i := by
  induction ws generalizing vs with
  | nil => exact h
  | cons w rest ih =>
    simp only [appendNew]
    split
    · exact ih vs h
    · apply ih
      obtain ⟨v, hv, hl, hi⟩ := h
      exact ⟨v, List.mem_append_left _ hv, hl, hi⟩

theorem findVar_some (vs : List Var) (l : Label) (v : Var) (h : findVar vs l = some v) : v ∈ vs ∧ v.l = l := by
  unfold findVar at h
  exact ⟨List.mem_of_find?_eq_some h, by simpa using List.find?_some h⟩

/-- a variable of the other operand ends up in the updated model with the same label, vartype and
    bounds — either because it was appended, or because `checkCompat` found it there already -/
theorem hasVar_appendNew_right (vs ws : List Var) (hnd : (ws.map (·.l)).Nodup)
    (hc : checkCompat ⟨true, .binary, vs, [], 0⟩ ws = .ok ()) (w : Var) (hw : w ∈ ws) :
    HasVar (appendNew vs ws) w.l w.info := by
  induction ws generalizing vs with
  | nil => simp at hw
  | cons a rest ih =>
    simp only [List.map_cons, List.nodup_cons] at hnd
    simp only [checkCompat] at hc
    simp only [appendNew]
    cases hf : findVar vs a.l with
    | some v =>
      simp only [hf] at hc
      split at hc; · simp at hc
      split at hc; · simp at hc
      split at hc; · simp at hc
      rename_i h1 h2 h3
      simp only [Decidable.not_not] at h1 h2 h3
      simp only [hf, Option.isSome_some, if_true]
      rcases List.mem_cons.mp hw with rfl | hw'
      · apply hasVar_appendNew_left
        obtain ⟨hv, hl⟩ := findVar_some vs _ v hf
        refine ⟨v, hv, hl, ?_⟩
        cases hvi : v.info; cases hwi : w.info
        simp only [hvi, hwi] at h1 h2 h3
        simp [h1, h2, h3]
      · exact ih vs hnd.2 hc hw'
    | none =>
      simp only [hf] at hc
      simp only [hf, Option.isSome_none, Bool.false_eq_true, if_false]
      rcases List.mem_cons.mp hw with rfl | hw'
      · apply hasVar_appendNew_left
        exact ⟨{ w with bias := 0 }, by simp, rfl, rfl⟩
      · apply ih _ hnd.2 _ hw'
        -- compatibility with the extended list: the appended variable is `a` itself
        have hna : ∀ r ∈ rest, a.l ≠ r.l := fun r hr he => hnd.1 (List.mem_map.mpr ⟨r, hr, he.symm⟩)
        clear ih hw hw' w hnd
        induction rest with
        | nil => simp [checkCompat]
        | cons r rs ihr =>
          simp only [checkCompat] at hc ⊢
          cases hfr : findVar vs r.l with
          | some v =>
            simp only [hfr] at hc
            have : findVar (vs ++ [{ a with bias := 0 }]) r.l = some v := by
              unfold findVar at hfr ⊢
              rw [List.find?_append, hfr]; rfl
            simp only [this]
            split at hc; · simp at hc
            split at hc; · simp at hc
            split at hc; · simp at hc
            rename_i h1 h2 h3
            simp only [h1, h2, h3, if_false]
            exact ihr hc (fun r' hr' => hna r' (List.mem_cons_of_mem _ hr'))
          | none =>
            simp only [hfr] at hc
            have hrest := ihr hc (fun r' hr' => hna r' (List.mem_cons_of_mem _ hr'))
            have hra : ¬ a.l = r.l := hna r (List.mem_cons_self)
            · have : findVar (vs ++ [{ a with bias := 0 }]) r.l = none := by
                unfold findVar at hfr ⊢
                rw [List.find?_append, hfr]
                simp [List.find?, hra]
              simp only [this]
              exact hrest

/-- `QuadraticModel.update`: both operands' variables are in the result with unchanged vartype and bounds -/
theorem qmUpdate_keeps_varinfo (m o m' : Model) (hnd : (o.vars.map (·.l)).Nodup) (h : qmUpdate m o = .ok m') :
    (∀ w ∈ m.vars, HasVar m'.vars w.l w.info) ∧ (∀ w ∈ o.vars, HasVar m'.vars w.l w.info) := by
  unfold qmUpdate at h
  split at h
  · simp at h
  · rename_i hc
    simp only [Except.ok.injEq] at h
    subst h
    constructor
    · intro w hw
      exact hasVar_addLinAll _ _ _ _ (hasVar_appendNew_left _ _ _ _ ⟨w, hw, rfl, rfl⟩)
    · intro w hw
      apply hasVar_addLinAll
      apply hasVar_appendNew_right m.vars o.vars hnd _ w hw
      have : ∀ ws, checkCompat m ws = checkCompat ⟨true, .binary, m.vars, [], 0⟩ ws := by
        intro ws
        induction ws with
        | nil => rfl
        | cons a t ih => simp only [checkCompat, ih]
      rw [← this]; exact hc

/-- conflicting vartype or bounds for a shared label: `update` raises ValueError and nothing is built -/
theorem qmUpdate_conflict (m o : Model) (w v : Var) (hw : w ∈ o.vars) (hf : findVar m.vars w.l = some v)
    (hne : v.info ≠ w.info) : qmUpdate m o = .error .value := by
  have hcc : ∀ ws, w ∈ ws → checkCompat m ws = .error .value := by
    intro ws hws
    induction ws with
    | nil => simp at hws
    | cons a t ih =>
      simp only [checkCompat]
      rcases List.mem_cons.mp hws with rfl | hws'
      · simp only [hf]
        by_cases h1 : v.info.vt = w.info.vt
        · by_cases h2 : v.info.lb = w.info.lb
          · by_cases h3 : v.info.ub = w.info.ub
            · exfalso; apply hne
              cases hvi : v.info; cases hwi : w.info
              simp only [hvi, hwi] at h1 h2 h3
              simp [h1, h2, h3]
            · simp [h1, h2, h3]
          · simp [h1, h2]
        · simp [h1]
      · have := ih hws'
        cases hfa : findVar m.vars a.l with
        | none => simpa [hfa] using this
        | some u =>
          simp only [hfa]
          split; · rfl
          split; · rfl
          split; · rfl
          exact this
  unfold qmUpdate
  rw [hcc o.vars hw]

/-- promotion `QuadraticModel.from_bqm` keeps every variable, its type and bounds -/
theorem toQM_keeps_varinfo (m : Model) : m.toQM.vars = m.vars := rfl

end Sym
