import DimodProofs.Vars
import DimodProofs.Adj
import DimodProofs.Dense
import DimodProofs.EqCons
import DimodProofs.Gray
import DimodProofs.Reader
import DimodProofs.Slack
import DimodProofs.D4Witness
