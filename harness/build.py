"""Build a snapshot of /repo's *current working tree* (hooks on) outside /repo and /verif.

The snapshot directory is keyed by a hash of every native source (pyx/pxd/pxi/h/cpp, setup.py);
Python files are re-synchronised on every call, so a check never sees a stale tree.  At most one
snapshot exists at a time.  Returns the directory to put first on sys.path.
"""
import fcntl
import hashlib
import os
import shutil
import subprocess
import sys
import time

REPO = os.environ.get('VERIF_REPO', '/repo')
ROOT = os.environ.get('VERIF_SCRATCH', '/var/tmp/dimod-verif')
NATIVE_EXT = ('.pyx', '.pxd', '.pxi', '.h', '.hpp', '.cpp', '.c')
PY = '/venv/bin/python'


def _tracked_like(path):
    """files that can influence the binary; generated Cython output is skipped"""
    out = []
    for base in ('dimod', 'extern'):
        for dp, dn, fn in os.walk(os.path.join(REPO, base)):
            dn[:] = [d for d in dn if d not in ('__pycache__', 'build')]
            for f in fn:
                p = os.path.join(dp, f)
                if f.endswith(NATIVE_EXT):
                    if f.endswith('.cpp') and base == 'dimod':
                        continue  # cythonize output
                    out.append(p)
    out.append(os.path.join(REPO, 'setup.py'))
    return sorted(out)


def native_hash():
    h = hashlib.sha256()
    for p in _tracked_like(REPO):
        h.update(os.path.relpath(p, REPO).encode())
        with open(p, 'rb') as f:
            h.update(hashlib.sha256(f.read()).digest())
    return h.hexdigest()[:16]


def py_hash(build_dir):
    h = hashlib.sha256()
    for dp, dn, fn in os.walk(os.path.join(build_dir, 'dimod')):
        dn[:] = sorted(d for d in dn if d != '__pycache__')
        for f in sorted(fn):
            if f.endswith('.py'):
                with open(os.path.join(dp, f), 'rb') as fh:
                    h.update(f.encode()); h.update(fh.read())
    return h.hexdigest()[:16]


def ensure_build(verbose=True):
    os.makedirs(ROOT, exist_ok=True)
    lock = open(os.path.join(ROOT, '.lock'), 'w')
    fcntl.flock(lock, fcntl.LOCK_EX)
    try:
        nh = native_hash()
        bdir = os.path.join(ROOT, 'build-' + nh)
        for d in os.listdir(ROOT):
            if d.startswith('build-') and d != 'build-' + nh:
                shutil.rmtree(os.path.join(ROOT, d), ignore_errors=True)
        excludes = ['--exclude=.git', '--exclude=build/', '--exclude=*.so', '--exclude=*.html',
                    '--exclude=__pycache__', '--exclude=/dimod/**/*.cpp', '--exclude=/dimod/*.cpp',
                    '--exclude=dimod.egg-info', '--exclude=.complete', '--exclude=docs/', '--exclude=benchmarks/',
                    '--exclude=releasenotes/', '--exclude=.pytest_cache']
        t0 = time.time()
        os.makedirs(bdir, exist_ok=True)
        subprocess.run(['rsync', '-a', '--delete'] + excludes + [REPO + '/', bdir + '/'], check=True)
        if not os.path.exists(os.path.join(bdir, '.complete')):
            if verbose:
                print(f'[build] compiling /repo snapshot {nh} with DIMOD_VERIF=1 ...', flush=True)
            env = dict(os.environ, DIMOD_VERIF='1', CYTHON_NTHREADS='16')
            p = subprocess.run([PY, 'setup.py', 'build_ext', '--inplace', '-j16'], cwd=bdir, env=env,
                               stdout=subprocess.PIPE, stderr=subprocess.STDOUT, text=True)
            if p.returncode != 0:
                sys.stderr.write(p.stdout[-4000:])
                raise RuntimeError('build of /repo snapshot failed')
            open(os.path.join(bdir, '.complete'), 'w').write(nh)
            if verbose:
                print(f'[build] done in {time.time() - t0:.1f}s', flush=True)
        return bdir, nh
    finally:
        fcntl.flock(lock, fcntl.LOCK_UN)
        lock.close()


def clean():
    shutil.rmtree(ROOT, ignore_errors=True)


if __name__ == '__main__':
    if len(sys.argv) > 1 and sys.argv[1] == '--clean':
        clean()
    else:
        print(ensure_build())
