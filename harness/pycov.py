"""Line coverage of the property's anchored *Python* files of dimod during the harness run (sys.monitoring, PEP 669).

Published in evidence (coverage.extra.anchor_py_coverage) so that thin spots of the generators are visible: per anchored
.py file the executed / executable line counts and the functions whose body was never entered by this process.  Cython
and C++ anchors cannot be traced this way (their branch ticks come from the property modules); work done in child
processes (crash isolation) is not counted, so the numbers are lower bounds.  Never influences the verdict.
"""
import json
import os
import sys
import types

TOOL = 3  # sys.monitoring tool id (0-5); 3 is free in CPython's own allocation


def start():
    mon = getattr(sys, 'monitoring', None)
    if mon is None:
        return None
    build = os.environ.get('VERIF_BUILD', '')
    if not build:
        return None
    prefix = os.path.join(os.path.realpath(build), 'dimod') + os.sep
    hits = set()
    try:
        mon.use_tool_id(TOOL, 'verif-pycov')
    except ValueError:
        return None

    def on_line(code, line):
        fn = code.co_filename
        if fn.startswith(prefix) or os.path.realpath(fn).startswith(prefix):
            hits.add((fn, line))
        return mon.DISABLE  # each (code, line) location reports once

    mon.register_callback(TOOL, mon.events.LINE, on_line)
    mon.set_events(TOOL, mon.events.LINE)
    return dict(hits=hits, prefix=prefix)


def _code_lines(code, out, funcs, qual=''):
    lines = {ln for _, _, ln in code.co_lines() if ln is not None}
    if code.co_name != '<module>':
        body = {ln for ln in lines if ln != code.co_firstlineno}
        funcs.append((code.co_qualname if hasattr(code, 'co_qualname') else code.co_name, code.co_firstlineno, body))
    out |= lines
    for c in code.co_consts:
        if isinstance(c, types.CodeType):
            _code_lines(c, out, funcs)


def report(cov, prop):
    mon = sys.monitoring
    mon.set_events(TOOL, 0)
    mon.free_tool_id(TOOL)
    verif = os.path.dirname(os.path.dirname(os.path.abspath(__file__)))
    anchors = []
    for ln in open(os.path.join(verif, 'properties.jsonl')):
        p = json.loads(ln)
        if p['id'] == prop:
            anchors = [f for f in p.get('anchors', {}).get('files', []) if f.endswith('.py')]
    root = os.path.dirname(cov['prefix'].rstrip(os.sep))
    by_file = {}
    for fn, line in cov['hits']:
        by_file.setdefault(os.path.realpath(fn), set()).add(line)
    rep = {}
    for rel in anchors:
        path = os.path.realpath(os.path.join(root, rel))
        if not os.path.exists(path):
            rep[rel] = {'missing': True}
            continue
        try:
            code = compile(open(path).read(), path, 'exec')
        except SyntaxError as e:
            rep[rel] = {'error': repr(e)}
            continue
        lines, funcs = set(), []
        _code_lines(code, lines, funcs)
        hit = by_file.get(path, set()) & lines
        never = sorted(f'{q}@{first}' for q, first, body in funcs if body and not (body & hit))
        rep[rel] = dict(executable_lines=len(lines), executed_lines=len(hit),
                        percent=round(100.0 * len(hit) / max(1, len(lines)), 1),
                        functions=len(funcs), functions_never_entered=never[:60],
                        functions_never_entered_count=len(never))
    return dict(note='in-process lower bound; .pyx/.h anchors are not traceable; does not influence the verdict', files=rep)
