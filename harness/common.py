"""Shared plumbing of the per-property harness modules (runs under /venv/bin/python with the
scratch build of /repo first on sys.path)."""
import hashlib
import json
import os
import random
import subprocess
import sys
import time
from fractions import Fraction

VERIF = os.path.dirname(os.path.dirname(os.path.abspath(__file__)))
LEAN = os.path.join(VERIF, 'lean')
BIN = os.path.join(LEAN, '.lake', 'build', 'bin')


# ---------------------------------------------------------------- canonical text forms

def rat(x):
    """exact reduced fraction of a float / int / Fraction (never a rounded decimal)"""
    if isinstance(x, Fraction):
        f = x
    else:
        try:
            f = Fraction(x)
        except TypeError:
            f = Fraction(float(x))
    return f'{f.numerator}' if f.denominator == 1 else f'{f.numerator}/{f.denominator}'


def lab(l):
    """protocol form of a label: i:<int> | s:<hex of utf8> | t:[l+l+...]  (numeric aliases -> int)"""
    import numpy as np
    if isinstance(l, (bool, np.bool_)):
        return f'i:{int(l)}'
    if isinstance(l, (int, np.integer)):
        return f'i:{int(l)}'
    if isinstance(l, (float, np.floating)) and float(l).is_integer():
        return f'i:{int(l)}'
    if isinstance(l, str):
        return 's:' + l.encode().hex()
    if isinstance(l, tuple):
        return 't:[' + '+'.join(lab(x) for x in l) + ']'
    raise TypeError(f'label {l!r} not in the protocol alphabet')


# ---------------------------------------------------------------- Lean driver

def run_driver(name, lines, timeout=600):
    """pipe protocol lines to a compiled model driver, return its output lines"""
    exe = os.path.join(BIN, name)
    if not os.path.exists(exe):
        raise RuntimeError(f'driver {exe} missing: run setup (lake build {name})')
    p = subprocess.run([exe], input='\n'.join(lines) + '\n', capture_output=True, text=True, timeout=timeout)
    if p.returncode != 0:
        raise RuntimeError(f'driver {name} exited {p.returncode}: {p.stderr[-500:]}')
    return p.stdout.splitlines()


# ---------------------------------------------------------------- run context

class Ctx:
    """collects counts, samples and failures of one property run"""

    def __init__(self, prop, seed, tier, out=None):
        self.prop, self.seed, self.tier, self.out = prop, seed, tier, out
        self.rng = random.Random(f'{prop}-{seed}')
        self.evaluations = 0
        self._distinct = set()
        self.samples = []
        self.hist = {}
        self.failures = []
        self.corr_lines = 0
        self.notes = []
        self.rule = ''
        self.extra = {}
        self.t0 = time.time()
        # breadcrumb for crashes of the interpreter under test: the last case seen is kept in a small file that
        # main.py reads when the child dies without writing a result
        self._crumb = os.open(out + '.last', os.O_CREAT | os.O_RDWR | os.O_TRUNC, 0o644) if out else None

    @property
    def quick(self):
        return self.tier == 'quick'

    def scale(self, quick, thorough):
        return quick if self.quick else thorough

    def mark(self, text):
        """note what is about to run (survives a crash of this process)"""
        if self._crumb is not None:
            try:
                os.pwrite(self._crumb, str(text)[:3000].encode('utf-8', 'replace').ljust(3000), 0)
            except OSError:
                pass

    def case(self, key, nontrivial=True, sample=None):
        """count one evaluated case; `key` identifies it for distinctness"""
        self.evaluations += 1
        if self._crumb is not None:
            self.mark(f'after case #{self.evaluations}: {sample if sample is not None else key!r}')
        if nontrivial:
            self._distinct.add(hashlib.blake2b(repr(key).encode(), digest_size=8).digest())
        if sample is not None and len(self.samples) < 6:
            self.samples.append(sample)

    def tick(self, what, n=1):
        self.hist[what] = self.hist.get(what, 0) + n

    def fail(self, kind, site, input_class, what, repro=None, detail=None):
        """kind: 'property' (predicate false on the real code), 'correspondence' (model != code),
        'crash' (interpreter died / hung)"""
        sig = (kind, site, input_class)
        for f in self.failures:
            if (f['kind'], f['site'], f['input_class']) == sig:
                f['count'] += 1
                return
        self.failures.append(dict(kind=kind, site=site, input_class=input_class, what=what,
                                  repro=repro, detail=detail, count=1))

    def nfail(self):
        return sum(f['count'] for f in self.failures)

    def result(self):
        return dict(prop=self.prop, seed=self.seed, tier=self.tier, evaluations=self.evaluations,
                    distinct_nontrivial=len(self._distinct), samples=self.samples, hist=self.hist,
                    failures=self.failures, corr_lines=self.corr_lines, notes=self.notes, rule=self.rule,
                    extra=self.extra, wall_s=round(time.time() - self.t0, 2))


def diff_streams(ctx, site, lines, expect, got, repro_for=None, classify=None):
    """compare implementation outputs with model outputs line by line; report first mismatch per history.
    Returns list of mismatching indices."""
    bad = []
    ctx.corr_lines += len(lines)
    for i in range(len(lines)):
        g = got[i] if i < len(got) else None
        if g != expect[i]:
            bad.append(i)
    return bad
