"""Shared code of the C09 / C10 checks (binary model files).

* model *specs* (plain Python data drawn from ctx.rng) and `emit(spec)`: the Python source that
  builds the model -- the harness itself builds every model by exec'ing that source, so a repro
  script is exactly the construction that was tested;
* `content_*`: the abstraction from a real model object (public API only) to the wire form the Lean
  driver `filedriver` speaks;
* `same_*`: the property predicate of C09/C10 -- field-by-field equality of two real models, written
  from the property statement, independent of the Lean model;
* `classify`: exception -> the class names of `FileFmt.FErr.name`;
* `sweep_prefixes`: every prefix of a file loaded in a forked child with an alarm;
* `GuardedBuffer`: a file-like whose last (short) read returns a memoryview that ends at an
  inaccessible page, so that an out-of-bounds read of a raw loader is a deterministic SIGSEGV.
"""
import ctypes
import io
import json
import mmap
import os
import signal
import struct
import sys
import zipfile

import numpy as np

import dimod

PRELUDE = ('import warnings; warnings.simplefilter("ignore")\n'
           'import io, json, numpy as np, dimod\n')

# ------------------------------------------------------------------ labels

class NPInt(int):
    """an int whose source form is a NumPy integer scalar: the emitted model is built with `np.int64(n)`
    (what `zip(*np.nonzero(a))` or `np.arange` hand to users) while pools/wire forms treat it as the int it equals"""
    def __repr__(self):
        return f'np.int64({int(self)})'


LABEL_POOL = [0, 1, 2, 3, 5, 7, -1, 1.5, -0.25, 2.0, 'a', 'b', 'c', 'x/y', '/', 'a/b/c', 'q"t', 'back\\slash',
              'sp ace', 'été', 'new\nline', '', 'v0', ('a', 1), ('t', (1, 2)), ('x/y', 2), (), (0.5, 'h'),
              (('n', ('e', 's')), 't'), '\U0001f600', ('np', NPInt(4)), ('z', (NPInt(1), 'k'))]
# (NumPy scalars only *inside* tuples whose first element is a distinctive string: NumPy's own `==` between a scalar and a
#  nested tuple raises, which is NumPy semantics — DESIGN.md D23 — so such comparisons must short-circuit before reaching them)


def typed(x):
    """label in a form where equality is dimod's label equality made structural: tuples stay
    tuples, strings stay strings, numbers compare by value (`Variables` stores a label equal to
    its own index implicitly, so the float 2.0 at position 2 reads back as the int 2: same label)"""
    if isinstance(x, tuple):
        return ('tuple', tuple(typed(y) for y in x))
    if isinstance(x, (int, float, np.integer, np.floating)) and not isinstance(x, (bool, np.bool_)):
        return ('num', x)
    return (type(x).__name__, x)


def pick_labels(r, n, kind):
    """n labels, distinct under Python equality.  kind: 'range' | 'ints' | 'mixed'"""
    if kind == 'range':
        return list(range(n))
    pool = [l for l in LABEL_POOL if isinstance(l, int)] if kind == 'ints' else list(LABEL_POOL)
    out = []
    r.shuffle(pool)
    for l in pool:
        if len(out) == n:
            break
        if not any(l == o for o in out):
            out.append(l)
    if kind == 'ints' and out == list(range(len(out))):
        out.reverse()
    return out


def wire_label(l):
    if isinstance(l, bool):
        raise TypeError
    if isinstance(l, (int, np.integer)):
        return f'i:{int(l)}'
    if isinstance(l, (float, np.floating)):
        return 'f:' + repr(float(l)).encode().hex()
    if isinstance(l, str):
        return 's:' + (l.encode('utf-8', 'surrogatepass').hex() or '-')
    if isinstance(l, tuple):
        return 't:[' + '+'.join(wire_label(x) for x in l) + ']'
    raise TypeError(repr(l))


def dy(r, lim=64):
    """small dyadic rational k/8"""
    return r.randint(-lim, lim) / 8


# ------------------------------------------------------------------ specs

# round 8: fields the file HEADER does not cover (biases, offsets, rhs, weights, bounds) at unusual but legal values: not
# representable in float32, not dyadic, huge, tiny.  C09/C10 compare the loaded model with the written one (no reference
# arithmetic), so any finite float is an exact input here.
ODD_FLOATS = [0.1, -1 / 3, 2.0 ** -40, 123456789.125, float(2 ** 53 - 1), -1e30, 1e30, 16777217.0, -2.0 ** 31 - 0.5]


def bias(r, p=.12):
    """a small dyadic rational, now and then a float that is not"""
    return r.choice(ODD_FLOATS) if r.random() < p else dy(r)


def odd_bounds(r, vt, dtype, for_cqm):
    """(lb, ub) of an INTEGER / REAL variable at the edges of what `add_variable` accepts; None = left to the default"""
    maxint = float(2 ** 53 - 1) if dtype == 'float64' else float(2 ** 24 - 1)
    if vt == 'INTEGER':
        pool = [(0.5, 3.75), (-2.5, 10.0), (1.75, 12.25), (-0.5, 0.5), (0.0, 0.5), (-7.25, -6.5), (2.0, 2.875), (-0.875, 0.0),
                (-maxint, maxint), (maxint - 1, maxint), (-maxint, -maxint), (maxint, maxint), (None, None), (None, 5.5), (-3.5, None),
                (-maxint, None), (0.1, 7.3), (-4096.5, 4096.5)]
        if dtype == 'float64':
            pool += [(2.0 ** 31, 2.0 ** 31 + 0.5), (-2.0 ** 40 - 0.5, 2.0 ** 52 + 0.5)]
        if for_cqm:
            pool += [(0.25, 0.75), (-0.5, -0.25), (3.125, 3.5)]      # no integer in between: ConstrainedQuadraticModel.add_variable keeps them
        return r.choice(pool)
    pool = [(-1e30, 1e30), (1e30, 1e30), (-1e30, -1e30), (-5.5, -1.25), (2.5, 2.5), (-0.0078125, -0.0078125), (None, None), (0.1, 0.3),
            (-1e30, None), (None, 0.0), (-2.0 ** -20, 2.0 ** -30), (-123456789.125, 16777217.0), (0.0, 1e-30)]
    return r.choice(pool)


def spec_bqm(r, big=False):
    n = r.choice([0, 0, 1, 1, 2, 3, 4, 5, 6] + ([9, 14] if big else []))
    kind = r.choice(['range', 'range', 'ints', 'mixed', 'mixed', 'mixed'])
    labels = pick_labels(r, n, kind)
    n = len(labels)
    quad = {}
    for _ in range(r.choice([0, 0, 1, 2, 4, 7, 12])):
        if n >= 2:
            i, j = r.sample(range(n), 2)
            quad[(min(i, j), max(i, j))] = bias(r)
    return dict(kind='bqm', vartype=r.choice(['SPIN', 'BINARY']), dtype=r.choice(['float64', 'float64', 'float32', 'object']),
                labels=labels, linear=[r.choice([0.0, bias(r), dy(r)]) for _ in range(n)],
                quad=[(i, j, b) for (i, j), b in quad.items()], offset=r.choice([0.0, bias(r)]))


def spec_qm(r, big=False, for_cqm=False):
    dtype = 'float64' if for_cqm else r.choice(['float64', 'float64', 'float32'])
    n = r.choice([0, 0, 1, 1, 2, 3, 4, 5, 6] + ([9, 14] if big else []))
    kind = r.choice(['range', 'range', 'ints', 'mixed', 'mixed', 'mixed'])
    labels = pick_labels(r, n, kind)
    n = len(labels)
    vts = []
    for _ in range(n):
        prev = vts[-1] if vts else None
        if prev is not None and prev[1] is not None and prev[2] is not None and abs(prev[1]) < 2 ** 20 and abs(prev[2]) < 2 ** 20 and r.random() < .55:
            # a neighbour of the previous variable: same vartype, and the bounds related to its bounds -- an identical record
            # (runs of equal records), one bound shared and the other different (both directions), or both different
            vt, plb, pub = prev
            step = (lambda: float(r.choice([1, 2, 5, 7]))) if vt == 'INTEGER' else (lambda: r.choice([0.25, 0.5, 1.5, 4.0]))
            how = r.choice(['same', 'same', 'lower differs', 'lower differs', 'upper differs', 'upper differs', 'both differ'])
            lb, ub = plb, pub
            if how in ('lower differs', 'both differ'):
                lb = plb - step()
            if how in ('upper differs', 'both differ'):
                ub = pub + step()
            vts.append((vt, lb, ub))
            continue
        vt = r.choice(['BINARY', 'SPIN', 'INTEGER', 'INTEGER', 'INTEGER', 'REAL', 'REAL'])
        if vt in ('INTEGER', 'REAL') and r.random() < .4:
            vts.append((vt,) + odd_bounds(r, vt, dtype, for_cqm))
        elif vt in ('INTEGER', 'REAL'):
            lb = r.choice([0, 0, -3, 2, -8]) if vt == 'INTEGER' else r.choice([0.0, -1.5, 0.25])
            ub = lb + r.choice([0, 1, 5, 40]) if vt == 'INTEGER' else lb + r.choice([0.0, 0.5, 3.0, 100.0])
            vts.append((vt, float(lb), float(ub)))
        else:
            vts.append((vt, None, None))
    quad = {}
    for _ in range(r.choice([0, 0, 1, 2, 4, 7, 12])):
        if n >= 1:
            i, j = r.randrange(n), r.randrange(n)
            if vts[i][0] == 'REAL' or vts[j][0] == 'REAL':
                continue
            if i == j and vts[i][0] != 'INTEGER':
                continue
            quad[(min(i, j), max(i, j))] = bias(r)
    # bounds changed AFTER the variable was added (set_lower_bound / set_upper_bound keep fractional values on INTEGER variables)
    rebounds = []
    for i, (vt, lb, ub) in enumerate(vts):
        if vt in ('INTEGER', 'REAL') and lb is not None and ub is not None and abs(lb) < 2 ** 20 and abs(ub) < 2 ** 20 and r.random() < .2:
            import math
            if math.floor(ub) - math.ceil(lb) >= 2:
                rebounds.append((i, 'lower', math.ceil(lb) + r.choice([0.5, 0.25, 0.875, 1.0]))
                                if r.random() < .5 else (i, 'upper', math.floor(ub) - r.choice([0.5, 0.25, 0.125, 1.0])))
    return dict(kind='qm', dtype=dtype, labels=labels, vartypes=vts, rebounds=rebounds,
                linear=[r.choice([0.0, bias(r), dy(r)]) for _ in range(n)],
                quad=[(i, j, b) for (i, j), b in quad.items()], offset=r.choice([0.0, bias(r)]))


def spec_qm_real(r, big=False):
    """a QM built under `dimod.REAL_INTERACTIONS = True`: at least one REAL variable, squared REAL terms, REAL-REAL and
    REAL-other interactions (next to whatever `spec_qm` put on the other variables)"""
    while True:
        spec = spec_qm(r, big)
        reals = [i for i, vt in enumerate(spec['vartypes']) if vt[0] == 'REAL']
        if reals:
            break
    n = len(spec['labels'])
    quad = {(i, j): b for i, j, b in spec['quad']}
    for i in reals:
        if r.random() < .7:
            quad[(i, i)] = bias(r) or 1.5
    for _ in range(r.choice([0, 1, 2, 4, 7])):
        i, j = r.choice(reals), r.randrange(n)
        if i == j or spec['vartypes'][j][0] in ('INTEGER', 'REAL') or r.random() < .5:
            quad[(min(i, j), max(i, j))] = bias(r)
    if not any(i == j and i in reals for i, j in quad):
        quad[(reals[0], reals[0])] = dy(r) or 2.0
    items = list(quad.items())
    r.shuffle(items)
    spec['quad'] = [(i, j, b) for (i, j), b in items]
    spec['real_interactions'] = True
    return spec


def _spec_expr(r, vts, nmax=4):
    """terms over variable positions: ('l', i, b) | ('q', i, j, b) | ('c', b)"""
    n = len(vts)
    terms = []
    if n:
        for i in r.sample(range(n), r.randint(0, min(n, nmax))):
            terms.append(('l', i, r.choice([0.0, bias(r)])))
        for _ in range(r.choice([0, 0, 1, 2, 3])):
            i, j = r.randrange(n), r.randrange(n)
            if vts[i][0] == 'REAL' or vts[j][0] == 'REAL':
                continue
            if i == j and vts[i][0] != 'INTEGER':
                continue
            terms.append(('q', i, j, bias(r)))
    if r.random() < .5:
        terms.append(('c', bias(r)))
    return terms


def spec_cqm(r, big=False):
    base = spec_qm(r, big, for_cqm=True)
    n = len(base['labels'])
    vts = base['vartypes']
    used = list(base['labels'])

    def fresh(cands):
        for l in cands:
            if not any(l == u for u in used):
                used.append(l)
                return l
        return None
    ncon = r.choice([0, 0, 1, 2, 3, 5])
    clabels = pick_labels(r, ncon, r.choice(['mixed', 'mixed', 'ints']))
    cons = []
    for cl in clabels:
        terms = _spec_expr(r, vts)
        soft = None
        if r.random() < .35:
            only_binary = all(vts[t[1]][0] == 'BINARY' and (t[0] == 'l' or vts[t[2]][0] == 'BINARY') for t in terms if t[0] != 'c')
            soft = (r.choice([0.5, 2.0, 3.25, 0.1, 1 / 3, 2.0 ** -30, 2.0 ** 40 + 0.5, 1e30, 16777217.0]), r.choice(['linear', 'quadratic']) if only_binary else 'linear')
        cons.append(dict(label=cl, terms=terms, sense=r.choice(['==', '<=', '>=']), rhs=bias(r), soft=soft))
        binaries = [i for i in range(n) if vts[i][0] == 'BINARY']
        if len(binaries) >= 2 and r.random() < .3:
            # structurally one-hot but added as an ORDINARY constraint: it must come back unmarked
            pick = r.sample(binaries, r.randint(2, min(3, len(binaries))))
            cons[-1] = dict(label=cl, terms=[('l', i, 1.0) for i in pick], sense='==', rhs=1.0, soft=None)
    discrete = []
    for _ in range(r.choice([0, 0, 1, 2])):
        dl = fresh([('disc', len(discrete)), 'disc/%d' % len(discrete)])
        vs = []
        for k in range(r.randint(1, 3)):
            v = fresh([f'd{len(used)}', ('dv', len(used))])
            if v is not None:
                vs.append(v)
        if dl is not None and vs and not any(dl == c['label'] for c in cons) and not any(dl == d['label'] for d in discrete):
            discrete.append(dict(label=dl, variables=vs))
    return dict(kind='cqm', labels=base['labels'], vartypes=vts, rebounds=base['rebounds'], objective=_spec_expr(r, vts, nmax=n),
                constraints=cons, discrete=discrete)


def spec_dqm(r, big=False):
    n = r.choice([0, 1, 2, 3, 4])
    labels = pick_labels(r, n, r.choice(['range', 'ints', 'mixed', 'mixed']))
    n = len(labels)
    cases = [r.randint(1, 4) for _ in range(n)]
    if n and r.random() < .12:
        # round 8: the TOTAL number of cases at the uint8 / uint16 boundary of the index arrays of `to_numpy_vectors`
        # (255 / 256 / 257), one variable carrying most of them; also a single variable with exactly 255 / 256 cases
        total = r.choice([254, 255, 256, 257, 258])
        rest = sum(cases[1:])
        cases[0] = max(1, total - rest)
        r.shuffle(cases)
    lin = [[r.choice([0.0, bias(r, .05) if c < 50 else dy(r)]) for _ in range(c)] for c in cases]
    quad = {}
    for _ in range(r.choice([0, 1, 3, 6])):
        if n >= 2:
            u, v = r.sample(range(n), 2)
            quad[(u, r.choice([0, cases[u] - 1, r.randrange(cases[u])]), v, r.choice([0, cases[v] - 1, r.randrange(cases[v])]))] = bias(r)
    return dict(kind='dqm', labels=labels, cases=cases, linear=lin, quad=[k + (b,) for k, b in quad.items()],
                offset=r.choice([0.0, bias(r)]))


def spec_dqm_large(r):
    """few variables, MANY cases: the total number of cases sits at the boundary where the index dtype of
    `to_numpy_vectors` must widen from uint16 to uint32 (65535 / 65536 / 65537 and well beyond), while the number of
    variables stays tiny.  Linear biases and interactions are sparse and include the very last cases."""
    total = r.choice([65535, 65536, 65537, 65536 + r.randrange(2, 3000), 80000])
    n = r.choice([2, 2, 3])
    cuts = sorted(r.sample(range(1, total), n - 1)) if r.random() < .5 else [total // n * (i + 1) for i in range(n - 1)]
    cases = [b - a for a, b in zip([0] + cuts, cuts + [total])]
    labels = pick_labels(r, n, r.choice(['range', 'mixed']))
    lin = {}
    for _ in range(6):
        v = r.randrange(n)
        lin[(v, r.choice([0, cases[v] - 1, r.randrange(cases[v])]))] = dy(r)
    quad = {}
    for _ in range(r.randint(2, 6)):
        u, v = r.sample(range(n), 2)
        quad[(u, r.choice([0, cases[u] - 1, r.randrange(cases[u])]), v, r.choice([0, cases[v] - 1, r.randrange(cases[v])]))] = dy(r)
    quad[(n - 1, cases[n - 1] - 1, 0, cases[0] - 1)] = dy(r)       # the last case of all interacts
    return dict(kind='dqm', labels=labels, cases=cases, linear_sparse=[k + (b,) for k, b in lin.items()],
                quad=[k + (b,) for k, b in quad.items()], offset=r.choice([0.0, dy(r)]))


SPECS = dict(bqm=spec_bqm, qm=spec_qm, cqm=spec_cqm, dqm=spec_dqm)


# ------------------------------------------------------------------ spec -> source -> model

def _bounds_kw(lb, ub):
    return ('' if lb is None else f", lower_bound={lb!r}") + ('' if ub is None else f", upper_bound={ub!r}")


def emit(spec, name='m'):
    k = spec['kind']
    L = spec['labels']
    out = []
    if k == 'bqm':
        dt = 'object' if spec['dtype'] == 'object' else 'np.' + spec['dtype']
        out.append(f"{name} = dimod.BinaryQuadraticModel({spec['vartype']!r}, dtype={dt})")
        for l, b in zip(L, spec['linear']):
            out.append(f"{name}.add_variable({l!r}, {b!r})")
        for i, j, b in spec['quad']:
            out.append(f"{name}.add_quadratic({L[i]!r}, {L[j]!r}, {b!r})")
        out.append(f"{name}.offset = {spec['offset']!r}")
    elif k == 'qm':
        out.append(f"{name} = dimod.QuadraticModel(dtype=np.{spec['dtype']})")
        for l, (vt, lb, ub), b in zip(L, spec['vartypes'], spec['linear']):
            out.append(f"{name}.add_variable({vt!r}, {l!r}{_bounds_kw(lb, ub)})")
            out.append(f"{name}.add_linear({l!r}, {b!r})")
        for i, which, val in spec.get('rebounds', []):
            out.append(f"{name}.set_{which}_bound({L[i]!r}, {val!r})")
        for i, j, b in spec['quad']:
            out.append(f"{name}.add_quadratic({L[i]!r}, {L[j]!r}, {b!r})")
        out.append(f"{name}.offset = {spec['offset']!r}")
        if spec.get('real_interactions'):
            # a QM reads dimod.REAL_INTERACTIONS when it is constructed: set it around the construction only, and put it back
            out = (['_ri = dimod.REAL_INTERACTIONS', 'dimod.REAL_INTERACTIONS = True', 'try:'] + ['    ' + l for l in out] +
                   ['finally:', '    dimod.REAL_INTERACTIONS = _ri'])
    elif k == 'cqm':
        out.append(f"{name} = dimod.ConstrainedQuadraticModel()")
        for l, (vt, lb, ub) in zip(L, spec['vartypes']):
            out.append(f"{name}.add_variable({vt!r}, {l!r}{_bounds_kw(lb, ub)})")
        for i, which, val in spec.get('rebounds', []):
            out.append(f"{name}.set_{which}_bound({L[i]!r}, {val!r})")

        def terms(ts):
            return '[' + ', '.join(f"({L[t[1]]!r}, {t[2]!r})" if t[0] == 'l' else
                                   f"({L[t[1]]!r}, {L[t[2]]!r}, {t[3]!r})" if t[0] == 'q' else f"({t[1]!r},)" for t in ts) + ']'
        out.append(f"{name}.set_objective({terms(spec['objective'])})")
        for c in spec['constraints']:
            soft = '' if c['soft'] is None else f", weight={c['soft'][0]!r}, penalty={c['soft'][1]!r}"
            out.append(f"{name}.add_constraint_from_iterable({terms(c['terms'])}, {c['sense']!r}, {c['rhs']!r}, label={c['label']!r}{soft})")
        for d in spec['discrete']:
            out.append(f"{name}.add_discrete_from_iterable({d['variables']!r}, label={d['label']!r})")
    elif k == 'dqm':
        out.append(f"{name} = dimod.DiscreteQuadraticModel()")
        for l, c in zip(L, spec['cases']):
            out.append(f"{name}.add_variable({c}, label={l!r})")
        for l, lin in zip(L, spec.get('linear', [])):
            out.append(f"{name}.set_linear({l!r}, {lin!r})")
        for v, c, b in spec.get('linear_sparse', []):
            out.append(f"{name}.set_linear_case({L[v]!r}, {c}, {b!r})")
        for u, cu, v, cv, b in spec['quad']:
            out.append(f"{name}.set_quadratic_case({L[u]!r}, {cu}, {L[v]!r}, {cv}, {b!r})")
        out.append(f"{name}.offset = {spec['offset']!r}")
    return '\n'.join(out) + '\n'


def build(spec):
    env = dict(dimod=dimod, np=np)
    exec(emit(spec), env)
    return env['m']


CLS = dict(bqm='dimod.BinaryQuadraticModel', qm='dimod.QuadraticModel', cqm='dimod.ConstrainedQuadraticModel',
           dqm='dimod.DiscreteQuadraticModel')


def cls_of(kind):
    return dict(bqm=dimod.BinaryQuadraticModel, qm=dimod.QuadraticModel, cqm=dimod.ConstrainedQuadraticModel,
                dqm=dimod.DiscreteQuadraticModel)[kind]


# ------------------------------------------------------------------ the property predicate (independent of Lean)

SAME_SRC = r'''
def typed(x):
    if isinstance(x, tuple):
        return ('tuple', tuple(typed(y) for y in x))
    if isinstance(x, (int, float, np.integer, np.floating)) and not isinstance(x, (bool, np.bool_)):
        return ('num', x)      # dimod's label equality: 2 and 2.0 are the same label
    return (type(x).__name__, x)

def _qm_fields(a):
    """everything the property names for a BQM / QM / expression, through the public API"""
    vs = list(a.variables)
    out = dict(variables=[typed(v) for v in vs], offset=float(a.offset),
               linear=[float(a.get_linear(v)) for v in vs],
               quadratic=sorted((min(vs.index(u), vs.index(v)), max(vs.index(u), vs.index(v)), float(b)) for u, v, b in a.iter_quadratic()))
    return out

def diff_models(kind, a, b, relabelled=False, float64_copy=False):
    """None if `b` equals `a` field by field, else a text naming the first differing field"""
    import numpy as np, dimod
    def cmp(name, x, y):
        return None if x == y else f'{name}: {x!r} != {y!r}'
    if type(a) is not type(b):
        return f'type: {type(a).__name__} != {type(b).__name__}'
    if kind in ('bqm', 'qm'):
        fa, fb = _qm_fields(a), _qm_fields(b)
        if relabelled:
            fa['variables'] = [typed(i) for i in range(len(fa['variables']))]
        adt = np.dtype(np.float64) if float64_copy else a.dtype
        for d in (cmp('dtype', adt, b.dtype),
                  cmp('vartype', a.vartype, b.vartype) if kind == 'bqm' else None,
                  cmp('vartypes', [a.vartype(v) for v in a.variables], [b.vartype(v) for v in b.variables]) if kind == 'qm' else None,
                  cmp('bounds', [(float(a.lower_bound(v)), float(a.upper_bound(v))) for v in a.variables],
                      [(float(b.lower_bound(v)), float(b.upper_bound(v))) for v in b.variables]) if kind == 'qm' else None,
                  *(cmp(k, fa[k], fb[k]) for k in fa)):
            if d:
                return d
        return None
    if kind == 'cqm':
        for d in (cmp('variables', [typed(v) for v in a.variables], [typed(v) for v in b.variables]),
                  cmp('vartypes', [a.vartype(v) for v in a.variables], [b.vartype(v) for v in b.variables]),
                  cmp('bounds', [(float(a.lower_bound(v)), float(a.upper_bound(v))) for v in a.variables],
                      [(float(b.lower_bound(v)), float(b.upper_bound(v))) for v in b.variables])):
            if d:
                return d
        def expr(e):
            return dict(offset=float(e.offset), linear=sorted((typed(v), float(e.get_linear(v))) for v in e.variables),
                        quadratic=sorted((tuple(sorted([typed(u), typed(v)])), float(q)) for u, v, q in e.iter_quadratic()))
        d = cmp('objective', expr(a.objective), expr(b.objective))
        if d:
            return d
        d = cmp('constraint labels', sorted(map(typed, a.constraints), key=repr), sorted(map(typed, b.constraints), key=repr))
        if d:
            return d
        for lab, ca in a.constraints.items():
            cb = b.constraints[lab]
            for d in (cmp(f'constraint {lab!r} lhs', expr(ca.lhs), expr(cb.lhs)),
                      cmp(f'constraint {lab!r} sense', ca.sense, cb.sense),
                      cmp(f'constraint {lab!r} rhs', float(ca.rhs), float(cb.rhs)),
                      cmp(f'constraint {lab!r} soft', ca.lhs.is_soft(), cb.lhs.is_soft()),
                      cmp(f'constraint {lab!r} weight', float(ca.lhs.weight()), float(cb.lhs.weight())),
                      cmp(f'constraint {lab!r} penalty', ca.lhs.penalty(), cb.lhs.penalty()),
                      cmp(f'constraint {lab!r} discrete', ca.lhs.is_discrete(), cb.lhs.is_discrete())):
                if d:
                    return d
        return cmp('discrete set', sorted(map(typed, a.discrete), key=repr), sorted(map(typed, b.discrete), key=repr))
    if kind == 'dqm':
        va = [typed(v) for v in a.variables]
        if relabelled:
            va = [typed(i) for i in range(len(va))]
        for d in (cmp('variables', va, [typed(v) for v in b.variables]),
                  cmp('num_cases', [a.num_cases(v) for v in a.variables], [b.num_cases(v) for v in b.variables]),
                  cmp('offset', float(a.offset), float(b.offset)),
                  cmp('linear', [[float(x) for x in a.get_linear(v)] for v in a.variables], [[float(x) for x in b.get_linear(v)] for v in b.variables])):
            if d:
                return d
        va, vb = list(a.variables), list(b.variables)
        def quads(m, vs):
            out = []
            for i in range(len(vs)):
                for j in range(i):
                    q = m.get_quadratic(vs[i], vs[j])
                    out.append((i, j, sorted((k, float(x)) for k, x in q.items())) if q else (i, j, None))
            return out
        def safe(m, vs):
            try:
                return quads(m, vs)
            except Exception as e:
                return repr(e)
        return cmp('quadratic', safe(a, va), safe(b, vb))
    raise ValueError(kind)
'''
exec(SAME_SRC)


# ------------------------------------------------------------------ exceptions -> model classes

def classify(e):
    if isinstance(e, json.JSONDecodeError):
        return 'json'
    if isinstance(e, UnicodeDecodeError):
        return 'unicode'
    if isinstance(e, struct.error):
        return 'struct'
    if isinstance(e, zipfile.BadZipFile):
        return 'zip'
    if isinstance(e, ValueError):
        return 'value'
    if isinstance(e, IndexError):
        return 'index'
    if isinstance(e, RuntimeError):
        return 'runtime'
    if isinstance(e, KeyError):
        return 'key'
    if isinstance(e, TypeError):
        return 'type'
    return 'other-' + type(e).__name__


# ------------------------------------------------------------------ file anatomy (Python side, independent)

def split_header(data):
    """(prefix, (maj, min), json text without newline/padding, header length) of a dimod file"""
    for pre in (b'DIMODBQM', b'DIMODQM', b'DIMODCQM', b'DIMODDQM', b'DIMODEXPR'):
        if data.startswith(pre):
            break
    else:
        raise ValueError('no known prefix')
    p = len(pre)
    ver = (data[p], data[p + 1])
    hlen = struct.unpack('<I', data[p + 2:p + 6])[0]
    blob = data[p + 6:p + 6 + hlen]
    text = blob.rstrip(b' ')
    assert text.endswith(b'\n'), 'header json not newline-terminated'
    return pre, ver, text[:-1], p + 6 + hlen


def hx(b):
    b = bytes(b)
    return b.hex() if b else '-'


def fbytes(x, dtype):
    return np.asarray(x, dtype=dtype).tobytes()


def wire_H(n, m, dsize, vars_field, vartype=0, isize=4, nsize=4):
    return f'{n},{m},{dsize},{isize},{nsize},{vartype},{vars_field}'


def content_qm(model, dtype=None):
    """offset / linear / per-variable lower triangle of a BQM or QM, via the public API"""
    dt = np.dtype(dtype or model.dtype)
    if dt == np.dtype(object):
        dt = np.dtype(np.float64)
    vs = list(model.variables)
    idx = {id(v): i for i, v in enumerate(vs)}
    pos = {}
    for i, v in enumerate(vs):
        pos[v] = i
    off = hx(fbytes(model.offset, dt))
    lin = ','.join(hx(fbytes(model.get_linear(v), dt)) for v in vs) or '-'
    rows = []
    for i, v in enumerate(vs):
        row = sorted((pos[u], b) for u, b in model.iter_neighborhood(v) if pos[u] <= i)
        rows.append('r' + ','.join(f'{j}:{hx(fbytes(b, dt))}' for j, b in row))
    return off, lin, (';'.join(rows) or '-')


VT_CODE = {dimod.BINARY: 0, dimod.SPIN: 1, dimod.INTEGER: 2, dimod.REAL: 3}


def content_varinfo(model, dt):
    return ','.join(f'{VT_CODE[model.vartype(v)]}:{hx(fbytes(model.lower_bound(v), dt))}:{hx(fbytes(model.upper_bound(v), dt))}'
                    for v in model.variables) or '-'


def content_expr(expr, parent_vars):
    """indices | offset | linear | quadratic (expression-local positions, iteration order)"""
    dt = np.dtype(np.float64)
    vs = list(expr.variables)
    ppos = {v: i for i, v in enumerate(parent_vars)}
    lpos = {v: i for i, v in enumerate(vs)}
    idx = ','.join(str(ppos[v]) for v in vs) or '-'
    lin = ','.join(hx(fbytes(expr.get_linear(v), dt)) for v in vs) or '-'
    quad = ','.join(f'{lpos[u]}:{lpos[v]}:{hx(fbytes(b, dt))}' for u, v, b in expr.iter_quadratic()) or '-'
    return f'{idx}|{hx(fbytes(expr.offset, dt))}|{lin}|{quad}'


def content_dqm(m):
    """case starts | linear | per-case lower rows | offset of a DQM, through the public API"""
    vs = list(m.variables)
    starts, acc = [], 0
    for v in vs:
        starts.append(acc); acc += m.num_cases(v)
    lin = [x for v in vs for x in m.get_linear(v)]
    rows = [[] for _ in range(acc)]
    for i, u in enumerate(vs):
        for j in range(i):
            v = vs[j]
            try:
                q = m.get_quadratic(u, v)
            except ValueError:
                continue      # no interaction between the two variables
            for (cu, cv), b in q.items():
                rows[starts[i] + cu].append((starts[j] + cv, b))
    low = ';'.join('r' + ','.join(f'{cj}:{hx(fbytes(b, np.float64))}' for cj, b in sorted(row)) for row in rows) or '-'
    return (','.join(map(str, starts)) or '-') + '|' + (','.join(hx(fbytes(x, np.float64)) for x in lin) or '-') + '|' + low + '|' + hx(fbytes(m.offset, np.float64))


def npz_members(blob):
    """(name, descr, shape, raw payload) of every array in an .npz blob, in archive order"""
    from numpy.lib import format as npf
    zf = zipfile.ZipFile(io.BytesIO(blob))
    out = []
    for name in zf.namelist():
        f = io.BytesIO(zf.read(name))
        ver = npf.read_magic(f)
        shape, fortran, dtype = npf.read_array_header_1_0(f) if ver == (1, 0) else npf.read_array_header_2_0(f)
        assert not fortran
        out.append((name[:-4] if name.endswith('.npy') else name, dtype.str, shape, f.read()))
    return out


def wire_members(members):
    return ';'.join(f"{n}:{d}:{'.'.join(map(str, sh)) or '-'}:{hx(b)}" for n, d, sh, b in members)


def vars_text(variables):
    return json.dumps(list(dimod.variables.iter_serialize_variables(variables))).encode('ascii')


# ------------------------------------------------------------------ loading every prefix in a forked child

def _child_sweep(wfd, load, judge, data, ks, per_load_timeout):
    signal.signal(signal.SIGALRM, signal.SIG_DFL)
    for k in ks:
        signal.setitimer(signal.ITIMER_REAL, per_load_timeout)
        try:
            got = load(data[:k])
        except Exception as e:  # ordinary exception
            res = 'e:' + classify(e)
        else:
            res = judge(got)
        signal.setitimer(signal.ITIMER_REAL, 0)
        os.write(wfd, f'{k} {res}\n'.encode())
    os._exit(0)


def sweep_prefixes(load, judge, data, ks=None, per_load_timeout=10.0):
    """outcome of `load(data[:k])` for every k, each batch in a forked child.
    returns {k: '=' | '!...' | 'e:<class>' | 'CRASH:<signal/exit>' | 'HANG'}"""
    ks = list(range(len(data) + 1)) if ks is None else list(ks)
    out = {}
    todo = ks
    while todo:
        rfd, wfd = os.pipe()
        sys.stdout.flush(); sys.stderr.flush()
        pid = os.fork()
        if pid == 0:
            os.close(rfd)
            try:
                devnull = os.open(os.devnull, os.O_WRONLY)
                os.dup2(devnull, 2)     # assertion text of an aborting child is not harness output
                _child_sweep(wfd, load, judge, data, todo, per_load_timeout)
            finally:
                os._exit(77)
        os.close(wfd)
        buf = b''
        with os.fdopen(rfd, 'rb') as f:
            buf = f.read()
        _, status = os.waitpid(pid, 0)
        for ln in buf.decode().splitlines():
            k, _, res = ln.partition(' ')
            out[int(k)] = res
        rest = [k for k in todo if k not in out]
        if not rest:
            break
        k = rest[0]   # the prefix the child died on
        if os.WIFSIGNALED(status):
            sig = os.WTERMSIG(status)
            out[k] = 'HANG' if sig == signal.SIGALRM else f'CRASH:signal {sig} ({signal.Signals(sig).name})'
        else:
            out[k] = f'CRASH:exit {os.WEXITSTATUS(status)}'
        todo = rest[1:]
    return out


def sweep_blobs(load, blobs, per_load_timeout=10.0):
    """`load(blob)` for every blob of a list, in forked children; returns a list of
    'ok' | 'e:<class>' | 'CRASH:<signal/exit>' | 'HANG' (robustness sweeps: the result value is not judged)"""
    out = [None] * len(blobs)
    start = 0
    while start < len(blobs):
        rfd, wfd = os.pipe()
        sys.stdout.flush(); sys.stderr.flush()
        pid = os.fork()
        if pid == 0:
            os.close(rfd)
            try:
                os.dup2(os.open(os.devnull, os.O_WRONLY), 2)
                signal.signal(signal.SIGALRM, signal.SIG_DFL)
                for i in range(start, len(blobs)):
                    signal.setitimer(signal.ITIMER_REAL, per_load_timeout)
                    try:
                        load(blobs[i])
                        res = 'ok'
                    except MemoryError:
                        res = 'e:memory'
                    except Exception as e:  # noqa
                        res = 'e:' + classify(e)
                    signal.setitimer(signal.ITIMER_REAL, 0)
                    os.write(wfd, f'{i} {res}\n'.encode())
            finally:
                os._exit(0)
        os.close(wfd)
        with os.fdopen(rfd, 'rb') as f:
            buf = f.read()
        _, status = os.waitpid(pid, 0)
        last = start - 1
        for ln in buf.decode().splitlines():
            i, _, res = ln.partition(' ')
            out[int(i)] = res
            last = int(i)
        if last + 1 < len(blobs) and out[last + 1] is None:
            if os.WIFSIGNALED(status):
                sig = os.WTERMSIG(status)
                out[last + 1] = 'HANG' if sig == signal.SIGALRM else f'CRASH:signal {sig} ({signal.Signals(sig).name})'
            else:
                out[last + 1] = f'CRASH:exit {os.WEXITSTATUS(status)}'
        start = last + 2
    return out


# ------------------------------------------------------------------ electric fence for raw loaders

GUARD_SRC = r'''
import ctypes, mmap, os
class GuardedBuffer:
    """file-like over `data` whose bytes END at a page that is not readable: a loader that reads
    even one byte past the end of the last (short) read dies with SIGSEGV instead of silently
    reading garbage.  Complete reads return bytes; the read that hits end-of-file returns a
    memoryview into the mapping (np.frombuffer then views the mapped bytes directly)."""
    def __init__(self, data):
        ps = mmap.PAGESIZE
        npages = (len(data) + ps - 1) // ps + 1
        self.mm = mmap.mmap(-1, (npages + 1) * ps)
        base = ctypes.addressof(ctypes.c_char.from_buffer(self.mm))
        libc = ctypes.CDLL(None, use_errno=True)
        if libc.mprotect(ctypes.c_void_p(base + npages * ps), ctypes.c_size_t(ps), 0) != 0:
            raise OSError(ctypes.get_errno(), 'mprotect')
        self.start = npages * ps - len(data)
        self.mm[self.start:npages * ps] = bytes(data)
        self.end = npages * ps
        self.pos = self.start
        self.view = memoryview(self.mm)
    def read(self, n=-1):
        if n is None or n < 0:
            n = self.end - self.pos
        new = min(self.end, self.pos + n)
        short = new - self.pos < n
        chunk = self.view[self.pos:new]
        self.pos = new
        return chunk if short else bytes(chunk)
    def seekable(self): return True
    def readable(self): return True
    def tell(self): return self.pos - self.start
    def seek(self, p, whence=0):
        self.pos = (self.start + p) if whence == 0 else (self.pos + p) if whence == 1 else (self.end + p)
        return self.pos - self.start
'''
exec(GUARD_SRC)


def run_guarded(fn_src, timeout=20):
    """run Python source in a fresh forked child; returns 'ok' | 'exc:<Type>' | 'CRASH:signal n' """
    rfd, wfd = os.pipe()
    sys.stdout.flush(); sys.stderr.flush()
    pid = os.fork()
    if pid == 0:
        os.close(rfd)
        try:
            devnull = os.open(os.devnull, os.O_WRONLY)
            os.dup2(devnull, 2)
            signal.signal(signal.SIGALRM, signal.SIG_DFL)
            signal.alarm(timeout)
            env = {}
            try:
                exec(fn_src, env)
                os.write(wfd, b'ok')
            except Exception as e:
                os.write(wfd, ('exc:' + type(e).__name__).encode())
        finally:
            os._exit(0)
    os.close(wfd)
    with os.fdopen(rfd, 'rb') as f:
        buf = f.read().decode()
    _, status = os.waitpid(pid, 0)
    if os.WIFSIGNALED(status):
        s = os.WTERMSIG(status)
        return f'CRASH:signal {s} ({signal.Signals(s).name})'
    return buf or f'CRASH:exit {os.WEXITSTATUS(status)}'
