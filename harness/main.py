"""Entry point of a check:  main.py <Cxx> [--tier quick|thorough] [--replay FILE]

1. build the /repo working tree snapshot (hooks on)                     (harness/build.py)
2. regenerate Generated/*.lean from the source, lake build Properties.<id>, audit axioms
3. run the property module (correspondence + property predicate on the real code) in a child
4. decide: VIOLATION / KNOWN-FINDING / pass; write evidence/<id>.json
Exit 0 = held on everything explored, 1 = violation, 2 = infrastructure problem / timeout.
"""
import argparse
import fcntl
import json
import os
import re
import subprocess
import sys
import time

HERE = os.path.dirname(os.path.abspath(__file__))
VERIF = os.path.dirname(HERE)
LEAN = os.path.join(VERIF, 'lean')
sys.path.insert(0, VERIF)
from harness import build  # noqa: E402

PY = '/venv/bin/python'
ALLOWED_AXIOMS = {'propext', 'Classical.choice', 'Quot.sound'}
FORBIDDEN = re.compile(r'\b(sorry|admit|native_decide|bv_decide|implemented_by|unsafe)\b|^\s*axiom\s|maxHeartbeats 0')


def lean_lock():
    os.makedirs(build.ROOT, exist_ok=True)
    f = open(os.path.join(build.ROOT, '.leanlock'), 'w')
    fcntl.flock(f, fcntl.LOCK_EX)
    return f


def strip_comments(src):
    src = re.sub(r'/-.*?-/', '', src, flags=re.S)
    return re.sub(r'--.*', '', src)


def theorem_names(path):
    """fully qualified names of the theorems in a Properties file (namespaces tracked)"""
    src = strip_comments(open(path).read())
    ns, names = [], []
    for ln in src.splitlines():
        m = re.match(r'\s*namespace\s+(\S+)', ln)
        if m:
            ns.append(m.group(1)); continue
        m = re.match(r'\s*end\s+(\S+)', ln)
        if m and ns and ns[-1] == m.group(1):
            ns.pop(); continue
        m = re.match(r'\s*(?:private\s+|protected\s+)?theorem\s+([^\s:({\[]+)', ln)
        if m:
            names.append('.'.join(ns + [m.group(1)]))
    return names


def lean_sources_of(prop):
    """the property file and everything of ours it imports (transitively)"""
    seen, todo = [], [f'Properties.{prop}']
    while todo:
        m = todo.pop()
        p = os.path.join(LEAN, *m.split('.')) + '.lean'
        if m in seen or not os.path.exists(p):
            continue
        seen.append(m)
        for imp in re.findall(r'^import\s+(\S+)', open(p).read(), flags=re.M):
            todo.append(imp)
    return seen


def sidecar(prop):
    """harness/props/<id>.json: {"drivers": [lean_exe names], "translators": [files in harness/translators]}"""
    p = os.path.join(HERE, 'props', prop.lower() + '.json')
    return json.load(open(p)) if os.path.exists(p) else {}


def regenerate(prop, bdir, log):
    """run the translators of this property: they rewrite lean/Generated/*.lean from /repo's current source"""
    ok = True
    for t in sidecar(prop).get('translators', []):
        env = dict(os.environ, PYTHONPATH=bdir + os.pathsep + VERIF)
        p = subprocess.run([PY, os.path.join(HERE, 'translators', t)], env=env, cwd=VERIF, capture_output=True, text=True)
        log.append(f'[translator {t}] ' + p.stdout[-2000:] + p.stderr[-2000:])
        ok = ok and p.returncode == 0
    return ok


def lean_check(prop, bdir, tier='quick'):
    """returns dict(obligations, discharged, broken=[...], axioms={...}, log)"""
    res = dict(obligations=0, discharged=0, broken=[], axioms={}, log=[], sources=[])
    pfile = os.path.join(LEAN, 'Properties', prop + '.lean')
    if not os.path.exists(pfile):
        res['log'].append('no Properties file')
        return res
    lock = lean_lock()
    try:
        ok_gen = regenerate(prop, bdir, res['log'])
        names = theorem_names(pfile)
        res['obligations'] = len(names)
        mods = lean_sources_of(prop)
        res['sources'] = mods
        # forbidden constructs in any of our sources this property depends on
        for m in mods:
            src = strip_comments(open(os.path.join(LEAN, *m.split('.')) + '.lean').read())
            for ln in src.splitlines():
                if FORBIDDEN.search(ln):
                    res['broken'].append(f'forbidden construct in {m}: {ln.strip()[:80]}')
        p = subprocess.run(['lake', 'build', f'Properties.{prop}'] + sidecar(prop).get('drivers', []), cwd=LEAN,
                           capture_output=True, text=True)
        out = p.stdout + p.stderr
        if p.returncode != 0 or not ok_gen:
            res['log'].append(out[-6000:])
            # map errors to theorem names where possible
            errs = re.findall(r'error: (\S+?\.lean):(\d+):\d+', out)
            broken = set()
            for f, line in errs:
                path = os.path.join(LEAN, f) if not os.path.isabs(f) else f
                try:
                    src = open(path).read().splitlines()
                except OSError:
                    continue
                name = None
                for k in range(min(int(line), len(src)) - 1, -1, -1):
                    mm = re.match(r'\s*(?:theorem|lemma|def|example|instance)\s+([^\s:({\[]+)?', src[k])
                    if mm:
                        name = f'{f}:{mm.group(1) or "example@" + str(k + 1)}'
                        break
                broken.add(name or f'{f}:{line}')
            res['broken'] += sorted(broken) or [f'lake build Properties.{prop} failed']
            return res
        # axiom audit
        adir = os.path.join(LEAN, '.audit')
        os.makedirs(adir, exist_ok=True)
        afile = os.path.join(adir, f'Audit_{prop}.lean')
        with open(afile, 'w') as f:
            f.write(f'import Properties.{prop}\n' + ''.join(f'#print axioms {n}\n' for n in names))
        p = subprocess.run(['lake', 'env', 'lean', afile], cwd=LEAN, capture_output=True, text=True)
        out = p.stdout + p.stderr
        for n in names:
            m = re.search(r"'" + re.escape(n) + r"' (depends on axioms: \[([^\]]*)\]|does not depend on any axioms)", out)
            if not m:
                res['broken'].append(f'{n}: not found by audit')
                continue
            ax = set(a.strip() for a in (m.group(2) or '').replace('\n', ' ').split(',') if a.strip())
            res['axioms'][n] = sorted(ax)
            if ax - ALLOWED_AXIOMS:
                res['broken'].append(f'{n}: axioms {sorted(ax - ALLOWED_AXIOMS)}')
            else:
                res['discharged'] += 1
        if tier == 'thorough':
            # independent re-check of the compiled property module by leanchecker
            p = subprocess.run(['lake', 'env', 'leanchecker', f'Properties.{prop}'], cwd=LEAN, capture_output=True, text=True)
            res['leanchecker'] = 'ok' if p.returncode == 0 else 'FAILED'
            if p.returncode != 0:
                res['log'].append((p.stdout + p.stderr)[-3000:])
                res['broken'].append(f'leanchecker rejected Properties.{prop}')
        return res
    finally:
        fcntl.flock(lock, fcntl.LOCK_UN)
        lock.close()


def load_known():
    p = os.path.join(VERIF, 'known_findings.json')
    if not os.path.exists(p):
        return []
    return json.load(open(p)).get('findings', [])


def main():
    ap = argparse.ArgumentParser()
    ap.add_argument('prop')
    ap.add_argument('--tier', default=os.environ.get('VERIF_TIER', 'quick'))
    ap.add_argument('--replay')
    ap.add_argument('--no-lean', action='store_true')
    a = ap.parse_args()
    prop, tier = a.prop, a.tier if a.tier in ('quick', 'thorough') else 'quick'
    seed = int(os.environ.get('VERIF_SEED', '0') or 0)
    t0 = time.time()
    try:
        bdir, nh = build.ensure_build()
    except Exception as e:  # build failure of the tree under test is not a property verdict
        print(f'[check] cannot build /repo snapshot: {e}')
        sys.exit(2)
    env = dict(os.environ, PYTHONPATH=bdir + os.pathsep + VERIF, PYTHONHASHSEED='0', VERIF_BUILD=bdir)

    if a.replay:
        rp = json.load(open(a.replay))
        code = rp.get('repro')
        if not code:
            print('[replay] file names a theorem / correspondence stream, nothing executable:', rp.get('what'))
            sys.exit(1)
        p = subprocess.run([PY, '-c', code], env=env, cwd=VERIF)
        print('[replay] violation reproduced' if p.returncode != 0 else '[replay] no longer fails')
        sys.exit(1 if p.returncode != 0 else 0)

    lean = dict(obligations=0, discharged=0, broken=[], axioms={}, log=[], sources=[]) if a.no_lean else lean_check(prop, bdir, tier)
    t_lean = time.time() - t0

    os.makedirs(os.path.join(VERIF, 'replays'), exist_ok=True)
    for old in os.listdir(os.path.join(VERIF, 'replays')):
        if old.startswith(prop + '-'):
            os.unlink(os.path.join(VERIF, 'replays', old))
    out = os.path.join(build.ROOT, f'result-{prop}-{os.getpid()}.json')
    limit = int(os.environ.get('VERIF_TIMEOUT', '1500' if tier == 'quick' else '14000'))
    cmd = [PY, '-m', 'harness.run_prop', prop, '--seed', str(seed), '--tier', tier, '--out', out]
    try:
        p = subprocess.run(cmd, env=env, cwd=VERIF, timeout=limit)
        rc = p.returncode
    except subprocess.TimeoutExpired:
        print(f'[check] {prop}: harness timed out after {limit}s')
        sys.exit(2)
    res = None
    if os.path.exists(out):
        res = json.load(open(out))
        os.unlink(out)
    failures = list(res['failures']) if res else []
    last = None
    if os.path.exists(out + '.last'):
        try:
            last = open(out + '.last', 'rb').read().decode('utf-8', 'replace').strip() or None
        except OSError:
            pass
        os.unlink(out + '.last')
    if res is None:
        # a harness may name a file holding the script that was running (`ctx.mark('inflight-script: <path> …')`): it becomes the repro
        m_inf = re.search(r'inflight-script: (\S+)', last or '')
        crash_repro = None
        if m_inf and os.path.exists(m_inf.group(1)):
            try:
                crash_repro = open(m_inf.group(1)).read()
            except OSError:
                pass
        failures.append(dict(kind='crash', site='harness', input_class=f'exit={rc}',
                             what=f'the interpreter running the property harness died with status {rc} (abort / failed assertion / segfault '
                                  f'in the code under test); last case seen: {last}',
                             repro=crash_repro, detail=dict(last_case=last), count=1))

    known = [k for k in load_known() if k.get('property') == prop and k.get('status') == 'open']
    violations, known_hits = [], []
    prop_fail = [f for f in failures if f['kind'] in ('property', 'crash')]
    corr_fail = [f for f in failures if f['kind'] == 'correspondence']
    for f in prop_fail:
        hit = next((k for k in known if k.get('site') == f['site'] and k.get('input_class') == f['input_class']), None)
        (known_hits if hit else violations).append(f)
    lines = []
    n = 0
    for f in known_hits:
        lines.append(f"KNOWN-FINDING: property={prop} {f['site']} [{f['input_class']}] {f['what']}")
    for f in violations:
        n += 1
        rp = os.path.join('replays', f'{prop}-{seed}-{n}.json')
        json.dump(dict(property=prop, seed=seed, tier=tier, **f), open(os.path.join(VERIF, rp), 'w'), indent=1, default=str)
        lines.append(f'VIOLATION property={prop} replay={rp}')
    if not violations:
        # a broken proof obligation or correspondence with no failing input found is still a violation
        unexplained_corr = corr_fail
        if lean['broken'] or unexplained_corr:
            n += 1
            rp = os.path.join('replays', f'{prop}-{seed}-{n}.json')
            what = dict(broken_theorems=lean['broken'], lean_log=lean['log'][-1:] if lean['log'] else [],
                        correspondence=unexplained_corr)
            json.dump(dict(property=prop, seed=seed, tier=tier, what=what, repro=None), open(os.path.join(VERIF, rp), 'w'),
                      indent=1, default=str)
            # if every known finding explains the break we still report: the property is no longer shown
            lines.append(f'VIOLATION property={prop} replay={rp} no-failing-input-found')
            violations.append(what)
    for ln in lines:
        print(ln)

    wall = time.time() - t0
    cov = dict(
        obligations=lean['obligations'], discharged=lean['discharged'],
        checker_cmd=f'cd lean && lake build Properties.{prop} && lake env lean .audit/Audit_{prop}.lean  (#print axioms of every theorem in Properties/{prop}.lean)',
        trusted_base=['Lean 4.33 kernel', 'axioms: propext, Classical.choice, Quot.sound (audited this run)',
                      'hand-written executable model tied to /repo by the correspondence run below',
                      'harness/translators/*.py regenerating lean/Generated/*.lean from the source on every run'],
        theorems=lean['axioms'], broken=lean['broken'], leanchecker=lean.get('leanchecker', 'not run (thorough tier only)'), lean_modules=lean['sources'],
        evaluations=res['evaluations'] if res else 0,
        distinct_nontrivial=res['distinct_nontrivial'] if res else 0,
        rule=res['rule'] if res else '', samples=res['samples'] if res else [],
        op_histogram=res['hist'] if res else {}, correspondence_lines=res['corr_lines'] if res else 0,
        known_findings_hit=[f"{f['site']} [{f['input_class']}]" for f in known_hits],
        build_hash=nh, lean_s=round(t_lean, 1), explanation='; '.join(res['notes']) if res else '',
        extra=res['extra'] if res else {})
    assumptions = ['IEEE arithmetic is exact on the dyadic test inputs', 'NumPy/json/zipfile behave as specified']
    try:  # what exactly is modelled / assumed for this property: the level_note registered in MANIFEST.json
        man = json.load(open(os.path.join(VERIF, 'MANIFEST.json')))
        assumptions += [c['level_note'] for c in man.get('checks', []) if c.get('property_id') == prop and c.get('level_note')]
    except (OSError, ValueError, KeyError):
        pass
    ev = dict(property_id=prop, tier=tier, seed=seed, level='proof', coverage=cov,
              assumptions=assumptions,
              wall_s=round(wall, 2), violations=len(violations))
    os.makedirs(os.path.join(VERIF, 'evidence'), exist_ok=True)
    json.dump(ev, open(os.path.join(VERIF, 'evidence', prop + '.json'), 'w'), indent=1, default=str)
    print(f"[check] {prop} tier={tier} seed={seed}: theorems {lean['discharged']}/{lean['obligations']}, "
          f"cases {cov['evaluations']} (distinct non-trivial {cov['distinct_nontrivial']}), model lines {cov['correspondence_lines']}, "
          f"known-findings {len(known_hits)}, violations {len(violations)}, {wall:.1f}s")
    sys.exit(1 if violations else 0)


if __name__ == '__main__':
    main()
