"""Translator for C16: how the three slack / bit counts are computed in the source, and the shape of the option handling of
`BinaryQuadraticModel.add_linear_inequality_constraint` / `DiscreteQuadraticModel.add_linear_inequality_constraint`
-> lean/Generated/SlackRule.lean (written only when the content changes).

Extracted with `ast` from dimod/binary/binary_quadratic_model.py, dimod/discrete/discrete_quadratic_model.py and
dimod/generators/integer.py:

* the expression assigned to `num_slack` (BQM, DQM log2) and `max_pow` (`binary_encoding`): exact integer
  `X.bit_length() - 1`, or the float pipeline `int(np.floor(np.log2(X)))` / `math.floor(math.log2(X))` (the float `log2`
  rounds up to `k` just below `2**k` from `2**49 - 1` on: D65g);
* the remainder rule `if S - 2 ** n >= 0: append(S - 2 ** n + 1)`;
* the expression assigned to `num_dqm_vars` (DQM log10): the exact digit count `len(str(S))`, or the float pipeline
  `int(np.ceil(np.log10(S + 1)))` (one short at `S = 10**15` and for `S = 10**k + d`, `k >= 16`: D75g);
* the coefficient of the extra `cross_zero` slack variable and the guards of `zero_constraint`;
* the accepted `penalization_method` values, the parameter defaults `lb`, `ub`, `constant`, `cross_zero`;
* the `unbalanced` branch: `add_linear(v, lagrange_multiplier[0] * bias)`, `self.offset += -ub_c`,
  `add_linear_equality_constraint(terms, lagrange_multiplier[1], -ub_c)`.

Any other shape makes the translator exit non-zero (the obligations are then reported as broken and the harness searches
for a failing input: the boundary sweep `S = 2**k - 40 … 2**k + 1`, `k <= 62`).
"""
import ast
import os
import sys

import dimod

VERIF = os.path.dirname(os.path.dirname(os.path.dirname(os.path.abspath(__file__))))
OUT = os.path.join(VERIF, 'lean', 'Generated', 'SlackRule.lean')
SRC = os.path.dirname(os.path.abspath(dimod.__file__))


def func(path, cls, name):
    tree = ast.parse(open(os.path.join(SRC, path)).read())
    for n in ast.walk(tree):
        if cls is None and isinstance(n, ast.FunctionDef) and n.name == name:
            return n
        if isinstance(n, ast.ClassDef) and n.name == cls:
            for m in n.body:
                if isinstance(m, ast.FunctionDef) and m.name == name:
                    return m
    raise SystemExit(f'slack_rule: {path}:{cls}.{name} not found')


def assigned(fn, target):
    vals = [ast.unparse(n.value) for n in ast.walk(fn) if isinstance(n, ast.Assign) and len(n.targets) == 1
            and isinstance(n.targets[0], ast.Name) and n.targets[0].id == target]
    return vals


def log2_impl(exprs, arg, where):
    if len(exprs) != 1:
        raise SystemExit(f'slack_rule: {where}: expected one assignment, found {exprs}')
    e = exprs[0].replace(' ', '')
    if e == f'{arg}.bit_length()-1' or e == f'int({arg}).bit_length()-1':
        return 'bitLength'
    if e in (f'int(np.floor(np.log2({arg})))', f'math.floor(math.log2({arg}))', f'int(math.floor(math.log2({arg})))', f'int(numpy.floor(numpy.log2({arg})))'):
        return 'floatFloorLog2'
    raise SystemExit(f'slack_rule: {where}: unknown count expression `{exprs[0]}`')


def log10_impl(exprs, arg, where):
    if len(exprs) != 1:
        raise SystemExit(f'slack_rule: {where}: expected one assignment of num_dqm_vars, found {exprs}')
    e = exprs[0].replace(' ', '')
    if e in (f'len(str({arg}))', f'len(str(int({arg})))'):
        return 'decimalDigits'
    if e in (f'int(np.ceil(np.log10({arg}+1)))', f'int(numpy.ceil(numpy.log10({arg}+1)))', f'math.ceil(math.log10({arg}+1))', f'int(math.ceil(math.log10({arg}+1)))'):
        return 'floatCeilLog10'
    raise SystemExit(f'slack_rule: {where}: unknown digit-count expression `{exprs[0]}`')


def remainder_rule(fn, n, S, where):
    """`if S - 2 ** n >= 0: coeffs.append(S - 2 ** n + 1)`"""
    for node in ast.walk(fn):
        if isinstance(node, ast.If) and ast.unparse(node.test).replace(' ', '') == f'{S}-2**{n}>=0':
            body = ' '.join(ast.unparse(b) for b in node.body).replace(' ', '').replace('\n', '')
            if body == f'slack_coefficients.append({S}-2**{n}+1)' and not node.orelse:
                return True
    raise SystemExit(f'slack_rule: {where}: remainder rule not found')


def zero_info(fn, where, dqm):
    """coefficient of the extra slack variable appended under `if zero_constraint:` (first occurrence = log2 branch) and the
    guards under `if cross_zero:`"""
    coef = None
    for node in ast.walk(fn):
        if isinstance(node, ast.If) and ast.unparse(node.test) == 'zero_constraint' and coef is None:
            for b in ast.walk(node):
                if isinstance(b, ast.Call) and ast.unparse(b.func) == 'slack_terms.append':
                    tup = b.args[0]
                    coef = ast.unparse(tup.elts[-1]).replace(' ', '')
                    break
    guards = None
    for node in ast.walk(fn):
        if isinstance(node, ast.If) and ast.unparse(node.test) == 'cross_zero':
            inner = node.body[0]
            if not (isinstance(inner, ast.If) and ast.unparse(inner.test).replace(' ', '') == 'lb_c>0orub_c<0'):
                raise SystemExit(f'slack_rule: {where}: unexpected cross_zero guard')
            b0 = inner.body[0]
            if isinstance(b0, ast.If):
                if ast.unparse(b0.test).replace(' ', '') != 'ub_c-slack_upper_bound>0' or ast.unparse(b0.body[0]).replace(' ', '') != 'zero_constraint=True':
                    raise SystemExit(f'slack_rule: {where}: unexpected inner cross_zero guard')
                guards = True
            elif ast.unparse(b0).replace(' ', '') == 'zero_constraint=True':
                guards = False
            else:
                raise SystemExit(f'slack_rule: {where}: unexpected cross_zero body')
    if coef not in ('ub_c-slack_upper_bound', 'ub_c') or guards is None:
        raise SystemExit(f'slack_rule: {where}: cross_zero coefficient `{coef}` / guards not recognised')
    return ('ubcMinusS' if coef == 'ub_c-slack_upper_bound' else 'ubc'), guards


def defaults(fn):
    a = fn.args
    names = [x.arg for x in a.args]
    d = dict(zip(names[len(names) - len(a.defaults):], [ast.unparse(x) for x in a.defaults]))
    return d


CHECKS_FIRST = []


def unbalanced(fn):
    for node in ast.walk(fn):
        if isinstance(node, ast.If) and ast.unparse(node.test).replace(' ', '') == "penalization_method=='unbalanced'":
            body = [ast.unparse(b).replace(' ', '').replace('\n', '') for b in node.body]
            want_tail = ['forv,biasinterms:self.add_linear(v,lagrange_multiplier[0]*bias)', 'self.offset+=-ub_c',
                         'self.add_linear_equality_constraint(terms,lagrange_multiplier[1],-ub_c)', 'return[]']
            if body[-4:] != want_tail or 'TypeError' not in body[0]:
                raise SystemExit(f'slack_rule: unbalanced branch has an unexpected shape: {body}')
            # round 8 (D76g): are both multipliers read BEFORE the first change of the model?
            middle = body[1:-4]
            if middle not in ([], ['(lagrange_multiplier[0],lagrange_multiplier[1])'], ['lagrange_multiplier[0],lagrange_multiplier[1]']):
                raise SystemExit(f'slack_rule: unbalanced branch has unexpected statements before the loop: {middle}')
            CHECKS_FIRST.append(bool(middle))
            tail = node.orelse
            if not (len(tail) == 1 and isinstance(tail[0], ast.Raise) and 'ValueError' in ast.unparse(tail[0])):
                raise SystemExit('slack_rule: the `else` of the penalization_method dispatch is not `raise ValueError`')
            return True
    raise SystemExit('slack_rule: unbalanced branch not found')


def main():
    bq = func('binary/binary_quadratic_model.py', 'BinaryQuadraticModel', 'add_linear_inequality_constraint')
    dq = func('discrete/discrete_quadratic_model.py', 'DiscreteQuadraticModel', 'add_linear_inequality_constraint')
    be = func('generators/integer.py', None, 'binary_encoding')
    bimpl = log2_impl(assigned(bq, 'num_slack'), 'slack_upper_bound', 'BQM.add_linear_inequality_constraint')
    dimpl = log2_impl(assigned(dq, 'num_slack'), 'slack_upper_bound', 'DQM.add_linear_inequality_constraint')
    eimpl = log2_impl(assigned(be, 'max_pow'), 'upper_bound', 'binary_encoding')
    d10 = log10_impl(assigned(dq, 'num_dqm_vars'), 'slack_upper_bound', 'DQM.add_linear_inequality_constraint (log10)')
    remainder_rule(bq, 'num_slack', 'slack_upper_bound', 'BQM'); remainder_rule(dq, 'num_slack', 'slack_upper_bound', 'DQM')
    bcoef, bguard = zero_info(bq, 'BQM', False)
    dcoef, dguard = zero_info(dq, 'DQM', True)
    unbalanced(bq)
    bd, dd = defaults(bq), defaults(dq)
    for d, w in ((bd, 'BQM'), (dd, 'DQM')):
        if d.get('lb') != 'np.iinfo(np.int64).min' or d.get('ub') != '0' or d.get('constant') != '0' or d.get('cross_zero') != 'False':
            raise SystemExit(f'slack_rule: {w}: unexpected defaults {d}')
    if bd.get('penalization_method') != "'slack'" or dd.get('slack_method') != "'log2'":
        raise SystemExit('slack_rule: unexpected default method')
    b = lambda x: 'true' if x else 'false'  # noqa: E731
    lines = ['/-! GENERATED by harness/translators/slack_rule.py from binary_quadratic_model.py, discrete_quadratic_model.py and generators/integer.py — do not edit. -/',
             '', 'namespace Generated.SlackRule', '',
             '/-- how `floor(log2 S)` is computed: exactly (`S.bit_length() - 1`) or through the float `log2` -/',
             'inductive Log2Impl where', '  | bitLength | floatFloorLog2', 'deriving DecidableEq, Repr', '',
             f'/-- `num_slack` of `BinaryQuadraticModel.add_linear_inequality_constraint` -/\ndef bqmNumSlack : Log2Impl := .{bimpl}', '',
             f'/-- `num_slack` of `DiscreteQuadraticModel.add_linear_inequality_constraint` (log2) -/\ndef dqmNumSlack : Log2Impl := .{dimpl}', '',
             f'/-- `max_pow` of `generators.binary_encoding` -/\ndef encMaxPow : Log2Impl := .{eimpl}', '',
             '/-- coefficient of the extra `cross_zero` slack variable -/', 'inductive ZeroCoef where', '  | ubcMinusS | ubc', 'deriving DecidableEq, Repr', '',
             f'def bqmZeroCoef : ZeroCoef := .{bcoef}', f'def dqmZeroCoef : ZeroCoef := .{dcoef}', '',
             f'/-- `zero_constraint` needs `ub_c - slack_upper_bound > 0` besides `lb_c > 0 or ub_c < 0` -/\ndef bqmZeroNeedsPositive : Bool := {b(bguard)}',
             f'def dqmZeroNeedsPositive : Bool := {b(dguard)}', '',
             '/-- accepted `penalization_method` values (anything else: ValueError); `unbalanced` has the extracted shape -/',
             'def penalizationMethods : List String := ["slack", "unbalanced"]', '',
             '/-- defaults: `lb = np.iinfo(np.int64).min`, `ub = 0`, `constant = 0`, `cross_zero = False` -/',
             'def defaultLb : Int := -9223372036854775808', 'def defaultUb : Int := 0', 'def defaultConstant : Int := 0', 'def defaultCrossZero : Bool := false', '',
             '/-- how the number of `log10` slack variables is computed: exactly (`len(str(S))`) or through the float `log10` -/',
             'inductive Log10Impl where', '  | decimalDigits | floatCeilLog10', 'deriving DecidableEq, Repr', '',
             f'/-- `num_dqm_vars` of `DiscreteQuadraticModel.add_linear_inequality_constraint` (log10) -/\ndef dqmNumDigits : Log10Impl := .{d10}', '',
             '/-- `unbalanced`: both multipliers are read (`lagrange_multiplier[0], lagrange_multiplier[1]`) before the first change of the model -/',
             f'def unbalancedChecksFirst : Bool := {b(CHECKS_FIRST[-1])}', '',
             'end Generated.SlackRule', '']
    text = '\n'.join(lines)
    old = open(OUT).read() if os.path.exists(OUT) else None
    if old != text:
        with open(OUT, 'w') as f:
            f.write(text)
        print('rewrote', OUT)
    else:
        print('unchanged', OUT)


if __name__ == '__main__':
    main()
