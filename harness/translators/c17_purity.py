"""Translator for C17 (purity of the generators): every public function of `dimod/generators/*.py` is read with `ast` from
the source of the build under test; for each one the names that may ALIAS an argument object are propagated (the parameters
themselves; names bound to `np.asarray` / `np.asanyarray` / `np.atleast_*d` / `np.ascontiguousarray` / `np.ravel` / `np.reshape` /
`np.squeeze` / `np.transpose` of such a name, to `x.T` / `x.view(...)` / `x.reshape(...)` / `x.ravel()` / `x[...]` of such a name — all of
which can return the caller's own array — or to such a name itself), and every statement that WRITES through such a name is listed:
augmented assignment (`values *= -1`), assignment / deletion of a subscript or attribute (`weights[0] = …`), a call of a mutating
method (`sort`, `append`, `extend`, `insert`, `pop`, `popitem`, `remove`, `clear`, `update`, `setdefault`, `reverse`, `fill`,
`resize`, `put`, `itemset`, `partition`, `add`, `discard`, `add_node(s)_from`, `add_edge(s)_from`, `remove_*`), a call with `out=` such a name, `np.copyto` / `np.put` /
`np.place` / `np.putmask` / `random.shuffle` / `rng.shuffle` on such a name.  Augmented assignment to a parameter that the function first rebinds to
a value that cannot alias (an `int(...)`, `len(...)`, a literal, arithmetic) is not a write; a parameter annotated as an immutable scalar (`int`, `float`, `bool`, `str`) is not tracked.

Output: lean/Generated/GenPurity.lean (`scanned`, `writes`), written only when the content changes.  `Properties/C17.lean` states
`writes = []` (theorem `generators_never_write_through_an_argument`): a generator that starts to modify an argument in place breaks
`lake build`, and the harness (`pure` in `harness/props/c17.py`) finds the argument form that shows it.
"""
import ast
import glob
import os

import dimod.generators as G

VERIF = os.path.dirname(os.path.dirname(os.path.dirname(os.path.abspath(__file__))))
OUT = os.path.join(VERIF, 'lean', 'Generated', 'GenPurity.lean')

ALIASING_FUNCS = {'asarray', 'asanyarray', 'atleast_1d', 'atleast_2d', 'atleast_3d', 'ascontiguousarray', 'asfortranarray', 'ravel', 'reshape',
                  'squeeze', 'transpose', 'array_split', 'split', 'real', 'imag', 'diagonal', 'swapaxes', 'moveaxis', 'expand_dims', 'broadcast_to', 'require', 'as_samples'}
ALIASING_METHODS = {'view', 'reshape', 'ravel', 'squeeze', 'transpose', 'swapaxes', 'diagonal', 'values', 'keys', 'items'}
ALIASING_ATTRS = {'T', 'real', 'imag', 'flat', 'nodes', 'edges', 'adj'}
MUTATORS = {'sort', 'append', 'extend', 'insert', 'pop', 'popitem', 'remove', 'clear', 'update', 'setdefault', 'reverse', 'fill', 'resize', 'put',
            'itemset', 'partition', 'add', 'discard', 'add_node', 'add_nodes_from', 'add_edge', 'add_edges_from', 'add_weighted_edges_from',
            'remove_node', 'remove_nodes_from', 'remove_edge', 'remove_edges_from', 'setflags', 'byteswap', 'shuffle'}
WRITING_FUNCS = {'copyto', 'put', 'place', 'putmask', 'shuffle', 'fill_diagonal', 'put_along_axis', 'relabel_nodes'}


def base_name(node):
    while isinstance(node, (ast.Subscript, ast.Attribute)):
        node = node.value
    return node.id if isinstance(node, ast.Name) else None


def may_alias(node, names):
    """can the value of this expression be (a view of) an object reachable from one of `names`?"""
    if isinstance(node, ast.Name):
        return node.id in names
    if isinstance(node, ast.Subscript):
        return may_alias(node.value, names)
    if isinstance(node, ast.Attribute):
        return node.attr in ALIASING_ATTRS and may_alias(node.value, names)
    if isinstance(node, ast.Call):
        f = node.func
        if isinstance(f, ast.Attribute):
            if f.attr in ALIASING_FUNCS and node.args and may_alias(node.args[0], names):
                return True
            if f.attr in ALIASING_METHODS and may_alias(f.value, names):
                return True
        return False
    if isinstance(node, ast.IfExp):
        return may_alias(node.body, names) or may_alias(node.orelse, names)
    if isinstance(node, ast.BoolOp):
        return any(may_alias(v, names) for v in node.values)
    if isinstance(node, (ast.Tuple, ast.List)):
        return any(may_alias(e, names) for e in node.elts)
    if isinstance(node, ast.Starred):
        return may_alias(node.value, names)
    return False


def scan_function(fn, src):
    params = [a.arg for a in fn.args.posonlyargs + fn.args.args + fn.args.kwonlyargs]
    if fn.args.vararg: params.append(fn.args.vararg.arg)
    if fn.args.kwarg: params.append(fn.args.kwarg.arg)
    # a parameter annotated as an immutable scalar (`int`, `float`, `bool`, `str`, also inside Optional / Union with None) cannot be written through
    scalar = set()
    for a in fn.args.posonlyargs + fn.args.args + fn.args.kwonlyargs:
        ann = a.annotation
        if ann is not None:
            leaves = [x.id for x in ast.walk(ann) if isinstance(x, ast.Name)] + [x.attr for x in ast.walk(ann) if isinstance(x, ast.Attribute)] + \
                     [type(x.value).__name__ for x in ast.walk(ann) if isinstance(x, ast.Constant)]
            if leaves and all(x in ('int', 'float', 'bool', 'str', 'Optional', 'Union', 'None', 'NoneType', 'typing', 'Literal', 'Integral', 'Real', 'Number', 'numbers') for x in leaves):
                scalar.add(a.arg)
    names = set(params) - scalar
    fresh = set()           # parameters rebound to a value that cannot alias
    body = [n for n in ast.walk(fn)]
    # propagate to a fixed point, in source order (assignments / for targets / with-as / comprehensions)
    for _ in range(4):
        for n in sorted((n for n in body if isinstance(n, (ast.Assign, ast.AnnAssign, ast.For, ast.NamedExpr, ast.comprehension))), key=lambda n: getattr(n, 'lineno', 0)):
            if isinstance(n, ast.Assign):
                targets, value = n.targets, n.value
            elif isinstance(n, ast.AnnAssign):
                targets, value = [n.target], n.value
            elif isinstance(n, ast.NamedExpr):
                targets, value = [n.target], n.value
            else:
                targets, value = [n.target], n.iter          # elements of an aliasing container
            if value is None:
                continue
            alias = may_alias(value, names - fresh)
            for t in targets:
                for tn in ([t] if isinstance(t, ast.Name) else [e for e in ast.walk(t) if isinstance(e, ast.Name)] if isinstance(t, (ast.Tuple, ast.List)) else []):
                    if alias:
                        names.add(tn.id); fresh.discard(tn.id)
                    elif tn.id in params and isinstance(n, (ast.Assign, ast.AnnAssign)) and tn.id not in {x.id for x in ast.walk(value) if isinstance(x, ast.Name)} | set():
                        fresh.add(tn.id)
                    elif tn.id in params and isinstance(n, (ast.Assign, ast.AnnAssign)) and not alias:
                        fresh.add(tn.id)
    live = names - fresh
    writes = []

    def text(n):
        return ' '.join(ast.get_source_segment(src, n).split())

    for n in body:
        if isinstance(n, ast.AugAssign) and base_name(n.target) in live:
            writes.append(text(n))
        elif isinstance(n, (ast.Assign, ast.AnnAssign)):
            for t in (n.targets if isinstance(n, ast.Assign) else [n.target]):
                for e in ([t] if not isinstance(t, (ast.Tuple, ast.List)) else t.elts):
                    if isinstance(e, (ast.Subscript, ast.Attribute)) and base_name(e) in live:
                        writes.append(text(n))
        elif isinstance(n, ast.Delete):
            if any(isinstance(t, (ast.Subscript, ast.Attribute)) and base_name(t) in live for t in n.targets):
                writes.append(text(n))
        elif isinstance(n, ast.Call):
            f = n.func
            if isinstance(f, ast.Attribute) and f.attr in MUTATORS and may_alias(f.value, live):
                writes.append(text(n))
            elif isinstance(f, ast.Attribute) and f.attr in WRITING_FUNCS and n.args and may_alias(n.args[0], live):
                writes.append(text(n))
            if any(k.arg == 'out' and may_alias(k.value, live) for k in n.keywords):
                writes.append(text(n))
    return params, sorted(set(writes))


def lstr(s):
    return '"' + s.replace('\\', '\\\\').replace('"', '\\"') + '"'


def main():
    root = os.path.dirname(G.__file__)
    scanned, writes = [], []
    for path in sorted(glob.glob(os.path.join(root, '*.py'))):
        mod = os.path.basename(path)[:-3]
        if mod == '__init__':
            continue
        src = open(path).read()
        for fn in ast.parse(src).body:
            if isinstance(fn, ast.FunctionDef) and not fn.name.startswith('_'):
                params, ws = scan_function(fn, src)
                scanned.append((mod, fn.name, params))
                writes += [(f'{mod}.{fn.name}', w) for w in ws]
    text = ('/-! GENERATED by harness/translators/c17_purity.py from `dimod/generators/*.py` — do not edit. -/\n\n'
            'namespace Generated.GenPurity\n\n'
            '/-- every public generator function that was scanned: (module, function, parameters) -/\n'
            'def scanned : List (String × String × List String) := [\n'
            + ',\n'.join(f'  ({lstr(m)}, {lstr(f)}, [{", ".join(lstr(p) for p in ps)}])' for m, f, ps in scanned) + ']\n\n'
            '/-- statements that write through a name that may alias an argument object: (module.function, statement) -/\n'
            'def writes : List (String × String) := [' + (',\n'.join(f'\n  ({lstr(f)}, {lstr(w)})' for f, w in writes)) + ']\n\n'
            'end Generated.GenPurity\n')
    old = open(OUT).read() if os.path.exists(OUT) else None
    if old != text:
        with open(OUT, 'w') as f:
            f.write(text)
        print('rewrote', OUT)
    else:
        print('unchanged', OUT)


if __name__ == '__main__':
    main()
