"""Translator for C08: the branch tables and constants of the feasibility reports, read from the source with `ast`:

* the `if sense is Sense.X: violation = …` chains of `ConstrainedQuadraticModel.iter_constraint_data` (per sample) and
  `SampleSet.from_samples_cqm` (vectorised): which expression each sense gets (`activity` / `-activity` / `abs(activity)`, with
  `lhs - rhs` = activity and `rhs - lhs` = -activity);
* the comparison operator of the satisfaction test in `check_feasible` and `from_samples_cqm` (`<=`) and its right-hand side shape
  (`atol + rtol*abs(rhs)`), the operator of the `skip_satisfied` filter in `iter_violations` (`> 0`);
* the default `rtol` / `atol` of `check_feasible`, `from_samples_cqm` and `ExactCQMSolver.sample_cqm` as exact rationals;
* the penalty names of `from_samples_cqm` and the power of the violation each applies.

Written to lean/Generated/FeasTable.lean; `Properties/C08.lean: generated_tables_are_the_definition` is stated over these
definitions and stops building when any of them changes."""
import ast
import inspect
import os
import sys
import textwrap
from fractions import Fraction

import dimod
from dimod.reference.samplers import exact_solver

HERE = os.path.dirname(os.path.abspath(__file__))
OUT = os.path.join(os.path.dirname(os.path.dirname(HERE)), 'lean', 'Generated', 'FeasTable.lean')


def fn_ast(f):
    f = getattr(f, '__func__', f)
    return ast.parse(textwrap.dedent(inspect.getsource(f))).body[0]


def form_of(e):
    """'act' | 'negAct' | 'absAct' | None for the expression assigned to `violation`"""
    def is_act(x):
        return (isinstance(x, ast.Name) and x.id == 'activity') or (
            isinstance(x, ast.BinOp) and isinstance(x.op, ast.Sub) and ast.unparse(x.left) == 'lhs' and ast.unparse(x.right) == 'rhs')

    def is_neg(x):
        return (isinstance(x, ast.UnaryOp) and isinstance(x.op, ast.USub) and is_act(x.operand)) or (
            isinstance(x, ast.BinOp) and isinstance(x.op, ast.Sub) and ast.unparse(x.left) == 'rhs' and ast.unparse(x.right) == 'lhs')
    if is_act(e):
        return 'act'
    if is_neg(e):
        return 'negAct'
    if isinstance(e, ast.Call) and ast.unparse(e.func) in ('abs', 'np.abs') and len(e.args) == 1 and (is_act(e.args[0]) or is_neg(e.args[0])):
        return 'absAct'
    return None


def sense_table(fn):
    """[(sense name, form)] of the first `if sense is Sense.X` chain that assigns `violation`"""
    for node in ast.walk(fn):
        if isinstance(node, ast.If) and ast.unparse(node.test).startswith('sense is Sense.'):
            out = []
            cur = node
            while isinstance(cur, ast.If):
                name = ast.unparse(cur.test).split('Sense.')[1]
                asg = [s for s in cur.body if isinstance(s, ast.Assign) and ast.unparse(s.targets[0]) == 'violation']
                out.append((name, form_of(asg[0].value) if asg else None))
                cur = cur.orelse[0] if len(cur.orelse) == 1 else None
            return out
    return []


def defaults(fn):
    a = fn.args
    names = [x.arg for x in a.args] + [x.arg for x in a.kwonlyargs]
    vals = [None] * (len(a.args) - len(a.defaults)) + list(a.defaults) + list(a.kw_defaults)
    d = {n: v for n, v in zip(names, vals)}
    return tuple(Fraction(float(ast.literal_eval(d[k]))) for k in ('rtol', 'atol'))


def sat_compare(fn):
    """(operator, right-hand side with the names normalised) of the comparison `… violation <= atol + rtol*abs(…)`"""
    for node in ast.walk(fn):
        if isinstance(node, ast.Compare) and 'violation' in ast.unparse(node.left) and 'atol' in ast.unparse(node.comparators[0]):
            rhs = ast.unparse(node.comparators[0]).replace('datum.rhs_energy', 'rhs').replace(' ', '')
            return type(node.ops[0]).__name__, rhs
    return None, None


def skip_compare(fn):
    for node in ast.walk(fn):
        if isinstance(node, ast.Compare) and ast.unparse(node.left).endswith('violation') and ast.unparse(node.comparators[0]) == '0':
            return type(node.ops[0]).__name__
    return None


def penalties(fn):
    """[(penalty name, power)] of the `if penalty == '…': energies += weight * (…) * <violation | np.power(violation, k)>` chain"""
    out = []
    for node in ast.walk(fn):
        if isinstance(node, ast.If) and ast.unparse(node.test).startswith('penalty == '):
            name = ast.literal_eval(node.test.comparators[0])
            src = ast.unparse(node.body[0])
            if 'np.power(violation, 2)' in src:
                p = 2
            elif src.rstrip().endswith('* violation'):
                p = 1
            else:
                p = 0
            if (name, p) not in out:
                out.append((name, p))
    return out


def rat(f):
    return f'({f.numerator} : Rat) / {f.denominator}'


def main():
    CQM = dimod.ConstrainedQuadraticModel
    icd, chk, itv = fn_ast(CQM.iter_constraint_data), fn_ast(CQM.check_feasible), fn_ast(CQM.iter_violations)
    fsc = fn_ast(dimod.SampleSet.from_samples_cqm)
    exs = fn_ast(exact_solver.ExactCQMSolver.sample_cqm)
    per, vec = sense_table(icd), sense_table(fsc)
    dfl = [('check_feasible', defaults(chk)), ('from_samples_cqm', defaults(fsc)), ('ExactCQMSolver.sample_cqm', defaults(exs))]
    cmpc, cmpv = sat_compare(chk), sat_compare(fsc)
    skip = skip_compare(itv)
    pens = penalties(fsc)

    def tbl(t):
        return '[' + ', '.join(f'("{n}", {"none" if f is None else "some VForm." + f})' for n, f in t) + ']'
    text = ('/-! GENERATED by harness/translators/c08_feas_table.py from dimod/constrained/constrained.py, dimod/sampleset.py and\n'
            '    dimod/reference/samplers/exact_solver.py — do not edit.  The branch tables and constants of the feasibility reports. -/\n\n'
            'namespace Generated.FeasTable\n\n'
            '/-- the expression a sense branch assigns to `violation`: `activity`, `-activity`, `abs(activity)` -/\n'
            'inductive VForm | act | negAct | absAct\n  deriving DecidableEq, Repr\n\n'
            '/-- `iter_constraint_data`: `if sense is Sense.<name>: violation = <form>` in source order (`none`: not recognised) -/\n'
            f'def perSample : List (String × Option VForm) := {tbl(per)}\n\n'
            '/-- `SampleSet.from_samples_cqm`: the same chain of the vectorised path -/\n'
            f'def vectorised : List (String × Option VForm) := {tbl(vec)}\n\n'
            '/-- (site, default rtol, default atol) as the exact values of the float literals -/\n'
            'def defaults : List (String × Rat × Rat) :=\n  [' + ',\n   '.join(f'("{n}", {rat(r)}, {rat(a)})' for n, (r, a) in dfl) + ']\n\n'
            '/-- the satisfaction test: (site, comparison operator, right-hand side) -/\n'
            f'def satTest : List (String × String × String) := [("check_feasible", "{cmpc[0]}", "{cmpc[1]}"), ("from_samples_cqm", "{cmpv[0]}", "{cmpv[1]}")]\n\n'
            '/-- `iter_violations(skip_satisfied=True)` keeps a constraint iff `violation <op> 0` -/\n'
            f'def skipOp : String := "{skip}"\n\n'
            '/-- `from_samples_cqm`: (penalty name, power of the violation in the energy term) -/\n'
            f'def penalties : List (String × Nat) := [' + ', '.join(f'("{n}", {p})' for n, p in pens) + ']\n\n'
            'end Generated.FeasTable\n')
    old = open(OUT).read() if os.path.exists(OUT) else None
    if old != text:
        with open(OUT, 'w') as f:
            f.write(text)
    print('FeasTable', per, vec, [(n, float(r), float(a)) for n, (r, a) in dfl], cmpc, cmpv, skip, pens, '(rewritten)' if old != text else '(unchanged)')
    return 0


if __name__ == '__main__':
    sys.exit(main())
