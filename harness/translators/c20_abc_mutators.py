"""Translator for C20 / C04: the op alphabet of `QuadraticModelBase`.

Extracts from dimod/include/dimod/abc.h every PUBLIC non-const, non-static member function of
`class QuadraticModelBase` (constructors, the destructor and `operator=` aside): name, number of parameters and whether a
parameter is a `std::initializer_list` (to tell the overloads of `add_quadratic` / `set_linear` apart), and writes the list
to lean/Generated/AbcMutators.lean.  `Properties/C20.lean: abc_mutators_covered` (by `decide`) states that every one of
them has an entry in the hand-written coverage table `DimodModel/CppCover.lean` naming operations of the Lean model
driver — so a mutator added to (or changed in) the header breaks `lake build Properties.C20` until the interpreter, the
generator and the model know it.  `harness/props/c20.py` uses `mutators()` / `interp_calls()` of this file to check, on
every run, that `harness/cpp/interp.cc` really calls each mutator with that arity and that the generator reached the
corresponding op (coverage of the op alphabet is checked, not asserted)."""
import os
import re
import sys

HERE = os.path.dirname(os.path.abspath(__file__))
VERIF = os.path.dirname(os.path.dirname(HERE))
OUT = os.path.join(VERIF, 'lean', 'Generated', 'AbcMutators.lean')
INTERP = os.path.join(VERIF, 'harness', 'cpp', 'interp.cc')


def strip_comments(src):
    src = re.sub(r'/\*.*?\*/', '', src, flags=re.S)
    return re.sub(r'//[^\n]*', '', src)


def split_args(text):
    """top-level comma split (parentheses, brackets, braces and angle brackets nest)"""
    out, depth, cur = [], 0, ''
    for ch in text:
        if ch in '([{<':
            depth += 1
        elif ch in ')]}>':
            depth -= 1
        if ch == ',' and depth == 0:
            out.append(cur.strip()); cur = ''
        else:
            cur += ch
    if cur.strip():
        out.append(cur.strip())
    return out


def class_body(src, name):
    m = re.search(r'class\s+' + name + r'\s*\{', src)
    if not m:
        raise SystemExit(f'class {name} not found')
    i, depth = m.end(), 1
    while depth and i < len(src):
        depth += {'{': 1, '}': -1}.get(src[i], 0)
        i += 1
    return src[m.end():i - 1]


def mutators(header_path):
    """sorted list of (name, arity, has_initializer_list) of the public non-const member functions"""
    body = class_body(strip_comments(open(header_path).read()), 'QuadraticModelBase')
    # cut the class body into statements at depth 0 (inline bodies are skipped)
    out, access, depth, cur = [], 'private', 0, ''
    i = 0
    while i < len(body):
        ch = body[i]
        if depth == 0:
            m = re.match(r'\s*(public|protected|private)\s*:', body[i:])
            if m and not cur.strip():
                access = m.group(1); i += m.end(); continue
        if ch == '{':
            if depth == 0:
                out.append((access, cur.strip(), True)); cur = ''
            depth += 1
        elif ch == '}':
            depth -= 1
        elif ch == ';' and depth == 0:
            if cur.strip():
                out.append((access, cur.strip(), False))
            cur = ''
        elif depth == 0:
            cur += ch
        i += 1
    res = []
    for access, decl, _ in out:
        if access != 'public':
            continue
        decl = ' '.join(decl.split())
        decl = re.sub(r'^template\s*<[^>]*>\s*', '', decl)
        if decl.startswith(('using ', 'friend ', 'typedef ', 'static ')) or '(' not in decl:
            continue
        m = re.match(r'^(?:virtual\s+)?(?P<ret>[\w:<>,\s\*&]+?)\s*\b(?P<name>~?\w+)\s*\((?P<params>.*)\)\s*(?P<tail>[^()]*)$', decl)
        if not m:
            continue
        name, tail = m.group('name'), m.group('tail')
        if name.startswith('~') or name == 'QuadraticModelBase' or 'operator' in decl.split('(')[0]:
            continue
        if re.search(r'\bconst\b', tail):
            continue
        params = split_args(m.group('params'))
        res.append((name, len(params), 'initializer_list' in m.group('params')))
    return sorted(set(res)), sorted(res)


def interp_calls(path=INTERP):
    """{op token: set of (method, arity, has_initializer_list)} for the calls `m.<method>(…)` / `base.<method>(…)` in
    `model_op` of harness/cpp/interp.cc"""
    src = strip_comments(open(path).read())
    m = re.search(r'static bool model_op\(.*?\n}\n', src, flags=re.S)
    body = m.group(0)
    parts = re.split(r'(?:if|else if) \(((?:op == "\w+"(?: \|\| )?)+)\) \{', body)
    res = {}
    for k in range(1, len(parts), 2):
        toks = re.findall(r'op == "(\w+)"', parts[k])
        seg = parts[k + 1]
        calls = set()
        for c in re.finditer(r'\b(?:m|base)\.(\w+)\(', seg):
            j, depth = c.end(), 1
            while depth and j < len(seg):
                depth += {'(': 1, ')': -1}.get(seg[j], 0)
                j += 1
            args = seg[c.end():j - 1]
            al = split_args(args)
            calls.add((c.group(1), len(al), any(x.startswith('{') or 'initializer_list' in x for x in al)))
        for t in toks:
            res.setdefault(t, set()).update(calls)
    return res


def lean_text(items):
    rows = ',\n   '.join(f'("{n}", {a}, {"true" if il else "false"})' for n, a, il in items)
    return ('/-! GENERATED by harness/translators/c20_abc_mutators.py from dimod/include/dimod/abc.h — do not edit.\n'
            '    The public non-const member functions of `dimod::abc::QuadraticModelBase` (constructors, destructor and\n'
            '    `operator=` aside): name, number of parameters, "a parameter is a std::initializer_list". -/\n\n'
            'namespace Generated.AbcMutators\n\n'
            'def mutators : List (String × Nat × Bool) :=\n'
            f'  [{rows}]\n\n'
            'end Generated.AbcMutators\n')


def main():
    import dimod
    hdr = os.path.join(os.path.dirname(dimod.__file__), 'include', 'dimod', 'abc.h')
    items, allitems = mutators(hdr)
    if len(items) != len(allitems):
        print('note: two overloads share name, arity and initializer-list flag:', [x for x in allitems if allitems.count(x) > 1])
    text = lean_text(items)
    old = open(OUT).read() if os.path.exists(OUT) else None
    if old != text:
        with open(OUT, 'w') as f:
            f.write(text)
    print(len(items), 'public mutators of QuadraticModelBase', '(rewritten)' if old != text else '(unchanged)')
    return 0


if __name__ == '__main__':
    sys.exit(main())
