"""Translator for C06: the bodies of the operator overloads -> lean/Generated/SymPrograms.lean
(written only when the content changes).

Source: `dimod/binary/binary_quadratic_model.py` (class BinaryQuadraticModel), `dimod/quadratic/quadratic_model.py`
(class QuadraticModel), `dimod/constrained/expression.py` (class _ExpressionMixin), read with `ast`.

Every operator method (`__add__ __radd__ __iadd__ __sub__ __rsub__ __isub__ __mul__ __rmul__ __imul__ __neg__
__truediv__ __itruediv__ __pow__`) is *partially evaluated* for each class of the other operand
(BinaryQuadraticModel of the same / of another vartype, QuadraticModel, Number, expression view): the `isinstance` chain is
decided by the operand class, nested operator expressions (`QuadraticModel.from_bqm(self) + other`, `qm += …`, `-self`,
`self * (1 / other)`) are inlined through Python's dispatch rules (`__op__`, then the reflected `__rop__`; `__iop__`, then the
binary operator), and what remains is the straight-line sequence of allocations and mutations the call performs, written in
the instruction set of `DimodModel/SymStore.lean`:

    X = Y.copy()                      -> .copy Y            (allocates)
    X = QuadraticModel.from_bqm(Y)    -> .fromBqm Y         (allocates)
    X = QuadraticModel()              -> .newQM             (allocates)
    the product loops of `__mul__`    -> .mulNew self other (allocates; the loops themselves are `Sym.qmMul`/`bqmMulSame`)
    X.scale(c)                        -> .scale X c
    X.update(Y)                       -> .update X Y
    X.offset += c  /  X.offset -= c   -> .addOffset X (±c)

`a`, `b` are the positions of `self` and `other`, `n` the first free position, `q` the number operand.  Branches that raise
(`is_linear` guards, `** n` with n != 2) and the aliasing guard `if other is self` are not part of a path (they are modelled by
`Sym.mulObj` / `valPow` / the `…Self` nodes).  Anything that does not have the expected shape makes the translator exit
non-zero: the check then reports the Lean obligations as broken and the harness searches for a failing input.
"""
import ast
import os
import re
import sys

import dimod

VERIF = os.path.dirname(os.path.dirname(os.path.dirname(os.path.abspath(__file__))))
OUT = os.path.join(VERIF, 'lean', 'Generated', 'SymPrograms.lean')
SRC = os.path.dirname(os.path.abspath(dimod.__file__))

FILES = {'BQM': ('binary/binary_quadratic_model.py', 'BinaryQuadraticModel'),
         'QM': ('quadratic/quadratic_model.py', 'QuadraticModel'),
         'VIEW': ('constrained/expression.py', '_ExpressionMixin')}
ISINST = {'BinaryQuadraticModel': {'BQM'}, 'QuadraticModel': {'QM'}, 'Number': {'NUM'}, 'numbers.Number': {'NUM'},
          'QuadraticViewsMixin': {'BQM', 'QM', 'VIEW'}, 'int': {'NUM'}}
OPS = {ast.Add: 'add', ast.Sub: 'sub', ast.Mult: 'mul'}
# tests that are decided by the path, not by the operand class
FIXED_TESTS = {'other is self': False,                                        # aliasing: the `…Self` nodes of the model
               'not (self.is_linear() and other.is_linear())': False,         # raising guard: `Sym.mulObj`
               'other != 2': False, 'not self.is_linear()': False}            # raising guards of `__pow__`: `Sym.valPow`
DIFFER = 'other.num_variables and other.vartype != self.vartype'
PRODUCT_ALLOC = ('self.empty(self.vartype)', 'type(self)(dtype=self.dtype)')


def die(msg):
    raise SystemExit('sym_programs: ' + msg)


def methods(cls):
    path, name = FILES[cls]
    tree = ast.parse(open(os.path.join(SRC, path)).read())
    for node in tree.body:
        if isinstance(node, ast.ClassDef) and node.name == name:
            return {f.name: f for f in node.body if isinstance(f, ast.FunctionDef)}
    die(f'class {name} not found in {path}')


M = {c: methods(c) for c in FILES}


class Cx:
    """one path: emitted instructions, number of allocations so far, the `differ` flag of a BQM/BQM pair"""

    def __init__(self, differ=False):
        self.ins, self.k, self.differ, self.depth = [], 0, differ, 0

    def fresh(self, cls):
        idx = 'n' if self.k == 0 else f'n + {self.k}'
        self.k += 1
        return (idx, cls)


def par(idx):
    return f'({idx})' if ' ' in idx else idx


def num_expr(cx, e, env):
    """a Lean Rat expression for a numeric Python expression, or None"""
    if isinstance(e, ast.Constant) and isinstance(e.value, (int, float)) and not isinstance(e.value, bool):
        if float(e.value) != int(e.value):
            die(f'non-integer constant {e.value!r}')
        return str(int(e.value)) if e.value >= 0 else f'(-{int(-e.value)})'
    if isinstance(e, ast.UnaryOp) and isinstance(e.op, ast.USub):
        v = num_expr(cx, e.operand, env)
        return None if v is None else f'(-{v})'
    if isinstance(e, ast.Name) and e.id in env and env[e.id][1] == 'NUM':
        return env[e.id][0]
    if isinstance(e, ast.BinOp) and isinstance(e.op, ast.Div):
        l, r = num_expr(cx, e.left, env), num_expr(cx, e.right, env)
        return None if l is None or r is None else f'({l} / {r})'
    return None


def eval_expr(cx, e, env):
    """-> ('ret', (idx, cls)) | ('typeerror',) | ('raise',); emits instructions"""
    q = num_expr(cx, e, env)
    if q is not None:
        return ('ret', (q, 'NUM'))
    if isinstance(e, ast.Name):
        if e.id not in env:
            die(f'unknown name {e.id}')
        return ('ret', env[e.id])
    if isinstance(e, ast.UnaryOp) and isinstance(e.op, ast.USub):
        r = eval_expr(cx, e.operand, env)
        if r[0] != 'ret':
            return r
        out = call_method(cx, r[1][1], '__neg__', r[1], None)
        return ('typeerror',) if out[0] == 'notimpl' else out
    if isinstance(e, ast.BinOp) and type(e.op) in OPS:
        l = eval_expr(cx, e.left, env)
        if l[0] != 'ret':
            return l
        r = eval_expr(cx, e.right, env)
        if r[0] != 'ret':
            return r
        return binop(cx, l[1], OPS[type(e.op)], r[1])
    if isinstance(e, ast.Call):
        f = ast.unparse(e.func)
        if isinstance(e.func, ast.Attribute) and e.func.attr == 'copy' and not e.args and not e.keywords:
            r = eval_expr(cx, e.func.value, env)
            if r[0] != 'ret' or r[1][1] == 'NUM':
                die('copy() of a non-model')
            cx.ins.append(f'.copy {par(r[1][0])}')
            return ('ret', cx.fresh(r[1][1] if r[1][1] != 'VIEW' else 'QM'))
        if f in ('QuadraticModel.from_bqm', 'dimod.QuadraticModel.from_bqm') and len(e.args) == 1 and not e.keywords:
            r = eval_expr(cx, e.args[0], env)
            if r[0] != 'ret' or r[1][1] != 'BQM':
                die('from_bqm of a non-BQM')
            cx.ins.append(f'.fromBqm {par(r[1][0])}')
            return ('ret', cx.fresh('QM'))
        if f in ('QuadraticModel', 'dimod.QuadraticModel') and not e.args and not e.keywords:
            cx.ins.append('.newQM')
            return ('ret', cx.fresh('QM'))
    die('unrecognised expression ' + ast.unparse(e))


def test_value(cx, t, env):
    s = ast.unparse(t)
    if s in FIXED_TESTS:
        return FIXED_TESTS[s]
    if s == DIFFER:
        if not (env['self'][1] == 'BQM' and env['other'][1] == 'BQM'):
            die('vartype test outside a BQM/BQM pair')
        return cx.differ
    if isinstance(t, ast.Call) and ast.unparse(t.func) == 'isinstance' and len(t.args) == 2 and isinstance(t.args[0], ast.Name):
        names = [ast.unparse(x) for x in t.args[1].elts] if isinstance(t.args[1], ast.Tuple) else [ast.unparse(t.args[1])]
        classes = set()
        for nm in names:
            if nm not in ISINST:
                die('unknown class in isinstance: ' + nm)
            classes |= ISINST[nm]
        return env[t.args[0].id][1] in classes
    die('unrecognised test ' + s)


def run_block(cx, stmts, env):
    """-> outcome or None (fell through)"""
    i = 0
    while i < len(stmts):
        st = stmts[i]
        i += 1
        if isinstance(st, ast.Expr) and isinstance(st.value, ast.Constant):
            continue                                                         # docstring
        if isinstance(st, ast.If):
            out = run_block(cx, st.body if test_value(cx, st.test, env) else st.orelse, env)
            if out is not None:
                return out
            continue
        if isinstance(st, ast.Return):
            if st.value is None:
                die('bare return')
            if ast.unparse(st.value) == 'NotImplemented':
                return ('notimpl',)
            return eval_expr(cx, st.value, env)
        if isinstance(st, ast.Raise):
            return ('raise',)
        if isinstance(st, ast.Assign) and len(st.targets) == 1 and isinstance(st.targets[0], ast.Name):
            name = st.targets[0].id
            if ast.unparse(st.value) in PRODUCT_ALLOC:
                # the product loops: everything up to `return <name>` is the double loop modelled by Sym.qmMul / bqmMulSame
                rest = stmts[i:]
                if not (rest and isinstance(rest[-1], ast.Return) and ast.unparse(rest[-1].value) == name
                        and sum(isinstance(x, ast.For) for x in rest) >= 2
                        and not any(isinstance(y, (ast.Return, ast.Call)) and ast.unparse(y).startswith(('self.scale', 'other.scale', 'self.update', 'other.update'))
                                    for x in rest[:-1] for y in ast.walk(x))):
                    die('product block of __mul__ not of the shape [alloc, loops…, return alloc]')
                cx.ins.append(f".mulNew {par(env['self'][0])} {par(env['other'][0])}")
                return ('ret', cx.fresh(env['self'][1]))
            r = eval_expr(cx, st.value, env)
            if r[0] != 'ret':
                return r
            env[name] = r[1]
            continue
        if isinstance(st, ast.AugAssign) and type(st.op) in OPS:
            op = OPS[type(st.op)]
            if isinstance(st.target, ast.Attribute) and st.target.attr == 'offset' and op in ('add', 'sub'):
                tv = eval_expr(cx, st.target.value, env)
                q = num_expr(cx, st.value, env)
                if tv[0] != 'ret' or tv[1][1] == 'NUM' or q is None:
                    die('unrecognised offset update ' + ast.unparse(st))
                cx.ins.append(f".addOffset {par(tv[1][0])} {q if op == 'add' else f'(-{q})'}")
                continue
            if isinstance(st.target, ast.Name):
                lv = env[st.target.id]
                r = eval_expr(cx, st.value, env)
                if r[0] != 'ret':
                    return r
                out = inplace(cx, lv, op, r[1])
                if out[0] != 'ret':
                    return out
                env[st.target.id] = out[1]
                continue
        if isinstance(st, ast.Expr) and isinstance(st.value, ast.Call) and isinstance(st.value.func, ast.Attribute) \
                and len(st.value.args) == 1 and not st.value.keywords:
            c = st.value
            tv = eval_expr(cx, c.func.value, env)
            if tv[0] == 'ret' and tv[1][1] != 'NUM':
                if c.func.attr == 'scale':
                    q = num_expr(cx, c.args[0], env)
                    if q is not None:
                        cx.ins.append(f'.scale {par(tv[1][0])} {q}')
                        continue
                if c.func.attr == 'update':
                    r = eval_expr(cx, c.args[0], env)
                    if r[0] == 'ret' and r[1][1] != 'NUM':
                        cx.ins.append(f'.update {par(tv[1][0])} {par(r[1][0])}')
                        continue
        die('unrecognised statement ' + ast.unparse(st))
    return None


def call_method(cx, cls, name, self_v, other_v):
    if cls == 'NUM':
        return ('notimpl',)
    fn = M[cls].get(name)
    if fn is None:
        return ('notimpl',)
    cx.depth += 1
    if cx.depth > 12:
        die('operator dispatch does not terminate')
    args = [a.arg for a in fn.args.args]
    if args[:1] != ['self'] or (other_v is not None and args[1:2] != ['other']):
        die(f'{cls}.{name}: unexpected signature {args}')
    env = {'self': self_v}
    if other_v is not None:
        env['other'] = other_v
    out = run_block(cx, fn.body, env)
    cx.depth -= 1
    if out is None:
        die(f'{cls}.{name} falls off its end (returns None) for other={other_v}')
    return out


def binop(cx, lv, op, rv):
    """Python's binary operator dispatch: `type(l).__op__(l, r)`, then `type(r).__rop__(r, l)`"""
    if lv[1] == 'NUM' and rv[1] == 'NUM':
        die('number arithmetic other than 1 / other')
    out = call_method(cx, lv[1], f'__{op}__', lv, rv)
    if out[0] != 'notimpl':
        return out
    out = call_method(cx, rv[1], f'__r{op}__', rv, lv)
    if out[0] != 'notimpl':
        return out
    return ('typeerror',)


def inplace(cx, lv, op, rv):
    """`l op= r`: `type(l).__iop__(l, r)`, then the binary operator (the name is rebound)"""
    out = call_method(cx, lv[1], f'__i{op}__', lv, rv)
    if out[0] != 'notimpl':
        return out
    return binop(cx, lv, op, rv)


# ---------------------------------------------------------------- the product loops of __mul__

def product_step(cls):
    """the body of the inner loop of `cls.__mul__` (the case analysis on `u == v` and the vartype) as a Lean expression over
    `u v : Var`, `acc : Model` (and `selfvt : VT` for a BQM); the rest of the block (allocation, `add_variable` loops, outer
    loop with its trailing `add_linear`, tail loop, offset) must be literally the skeleton `Sym.mulOuter`/`mulTail`/`qmMul` model"""
    fn = M[cls]['__mul__']
    branch = next((st.body for st in fn.body if isinstance(st, ast.If) and ast.unparse(st.test) == f'isinstance(other, {FILES[cls][1]})'), None)
    if branch is None:
        die(f'{cls}.__mul__: no branch for {FILES[cls][1]}')
    k = next((i for i, st in enumerate(branch) if isinstance(st, ast.Assign) and ast.unparse(st.value) in PRODUCT_ALLOC), None)
    if k is None:
        die(f'{cls}.__mul__: allocation of the product not found')
    X = ast.unparse(branch[k].targets[0])
    rest = branch[k + 1:]
    addvar = [f'for v in {w}.variables:\n    {X}.add_variable({w}.vartype(v), v, lower_bound={w}.lower_bound(v), upper_bound={w}.upper_bound(v))'
              for w in ('self', 'other')] if cls == 'QM' else []
    head = addvar + ['self_offset = self.offset', 'other_offset = other.offset']
    tail = [f'for v, bias in other.linear.items():\n    {X}.add_linear(v, bias * self_offset)', f'{X}.offset += self_offset * other_offset', f'return {X}']
    if len(rest) != len(head) + 1 + len(tail):
        die(f'{cls}.__mul__: product block has {len(rest)} statements, expected {len(head) + 1 + len(tail)}')
    for st, want in list(zip(rest[:len(head)], head)) + list(zip(rest[len(head) + 1:], tail)):
        if ast.unparse(st) != want:
            die(f'{cls}.__mul__: expected `{want}`, found `{ast.unparse(st)}`')
    outer = rest[len(head)]
    if not (isinstance(outer, ast.For) and ast.unparse(outer.target) == '(u, ubias)' and ast.unparse(outer.iter) == 'self.linear.items()'
            and not outer.orelse and len(outer.body) == 2 and ast.unparse(outer.body[1]) == f'{X}.add_linear(u, ubias * other_offset)'):
        die(f'{cls}.__mul__: outer loop not of the shape `for u, ubias in self.linear.items(): <inner loop>; add_linear(u, ubias * other_offset)`')
    inner = outer.body[0]
    if not (isinstance(inner, ast.For) and ast.unparse(inner.target) == '(v, vbias)' and ast.unparse(inner.iter) == 'other.linear.items()'
            and not inner.orelse):
        die(f'{cls}.__mul__: inner loop not `for v, vbias in other.linear.items()`')

    def tr_test(t):
        if isinstance(t, ast.BoolOp) and isinstance(t.op, ast.Or):
            return ' ∨ '.join(tr_test(x) for x in t.values)
        s_ = ast.unparse(t)
        if s_ == 'u == v':
            return 'u.l = v.l'
        m = re.fullmatch(r'(self\.vartype|u_vartype) is Vartype\.(BINARY|SPIN|INTEGER|REAL)', s_)
        if m and (m.group(1) == 'u_vartype' or cls == 'BQM'):
            return f"{'selfvt' if m.group(1) == 'self.vartype' else 'u.info.vt'} = .{m.group(2).lower()}"
        die(f'{cls}.__mul__: unrecognised test `{s_}`')

    def tr(stmts):
        stmts = list(stmts)
        while stmts and ast.unparse(stmts[0]) == 'u_vartype = self.vartype(u)':
            stmts.pop(0)
        if len(stmts) != 1:
            die(f'{cls}.__mul__: a branch of the inner loop has {len(stmts)} statements')
        st = stmts[0]
        if isinstance(st, ast.If):
            if not st.orelse:
                die(f'{cls}.__mul__: `if` without else in the inner loop')
            return f'(if {tr_test(st.test)} then {tr(st.body)} else {tr(st.orelse)})'
        if isinstance(st, ast.Raise):
            return '.error .value'
        s_ = ast.unparse(st)
        if s_ == f'{X}.add_linear(u, ubias * vbias)':
            return 'addLinear acc u.l (u.bias * v.bias)'
        if s_ == f'{X}.offset += ubias * vbias':
            return '.ok (acc.addOffset (u.bias * v.bias))'
        if s_ == f'{X}.add_quadratic(u, v, ubias * vbias)':
            return 'addQuadratic acc u.l v.l (u.bias * v.bias)'
        die(f'{cls}.__mul__: unrecognised statement `{s_}` in the inner loop')

    return tr(inner.body)


# ---------------------------------------------------------------- comparisons

def comparison_rows():
    """(class, method, Comparison class built for a Number operand — must be `<C>(self, other)` —, fallback for any other operand)"""
    rows = []
    for cls in ('BQM', 'QM', 'VIEW'):
        for name in ('__eq__', '__ge__', '__le__'):
            fn = M[cls].get(name)
            if fn is None:
                continue
            body = [st for st in fn.body if not (isinstance(st, ast.Expr) and isinstance(st.value, ast.Constant))]
            if not (len(body) == 2 and isinstance(body[0], ast.If) and ast.unparse(body[0].test) == 'isinstance(other, Number)'
                    and len(body[0].body) == 1 and isinstance(body[0].body[0], ast.Return) and not body[0].orelse
                    and isinstance(body[1], ast.Return)):
                die(f'{cls}.{name}: not of the shape `if isinstance(other, Number): return C(self, other)`; `return fallback`')
            m = re.fullmatch(r'(Eq|Ge|Le)\(self, other\)', ast.unparse(body[0].body[0].value))
            fb = {'NotImplemented': 'NotImplemented', 'self.is_equal(other)': 'is_equal'}.get(ast.unparse(body[1].value))
            if not m or fb is None:
                die(f'{cls}.{name}: unrecognised return values')
            rows.append((cls, name, m.group(1), fb))
    return rows


A, B, Q = 'a', 'b', 'q'
KINDS = {'bqm': 'BQM', 'qm': 'QM', 'view': 'VIEW', 'num': 'NUM'}


def paths():
    """[(lean name, doc, instrs or None (TypeError), result position, in_place)]"""
    out = []

    def add(name, doc, f, differ=False, inpl=False):
        cx = Cx(differ)
        r = f(cx)
        if r[0] == 'ret':
            out.append((name, doc, cx.ins, r[1][0], inpl))
        elif r[0] == 'typeerror':
            out.append((name, doc + ' — TypeError', None, None, inpl))
        else:
            die(f'path {name} ends in {r[0]}')

    sym = {'add': '+', 'sub': '-', 'mul': '*'}
    for op in ('add', 'sub', 'mul'):
        for lk in ('bqm', 'qm', 'view', 'num'):
            for rk in ('bqm', 'qm', 'view', 'num'):
                if lk == 'num' and rk == 'num':
                    continue
                lv = (Q if lk == 'num' else A, KINDS[lk])
                rv = (Q if rk == 'num' else (A if lk == 'num' else B), KINDS[rk])
                variants = [('_same', False), ('_differ', True)] if lk == rk == 'bqm' else [('', False)]
                for suf, differ in variants:
                    what = {'_same': ' (same vartype, or a variable-free right operand)', '_differ': ' (different vartypes, right operand with variables)', '': ''}[suf]
                    add(f'{lk}_{op}_{rk}{suf}', f'`{lk} {sym[op]} {rk}`{what}', lambda cx: binop(cx, lv, op, rv), differ)
                    if lk != 'num':
                        add(f'{lk}_i{op}_{rk}{suf}', f'`{lk} {sym[op]}= {rk}`{what}', lambda cx: inplace(cx, lv, op, rv), differ, True)
    for k in ('bqm', 'qm', 'view'):
        cls = KINDS[k]

        def un(name, numarg):
            def f(cx):
                r = call_method(cx, cls, name, (A, cls), (numarg, 'NUM') if numarg else None)
                return ('typeerror',) if r[0] == 'notimpl' else r
            return f
        add(f'{k}_neg', f'`-{k}`', un('__neg__', None))
        add(f'{k}_truediv_num', f'`{k} / q`', un('__truediv__', Q))
        add(f'{k}_itruediv_num', f'`{k} /= q`', un('__itruediv__', Q), inpl=True)
        add(f'{k}_pow_2', f'`{k} ** 2` (a linear model)', un('__pow__', '2'))
    return out


def main():
    ps = paths()
    L = ['import DimodModel.SymStore', '',
         '/-! GENERATED by harness/translators/sym_programs.py from dimod/binary/binary_quadratic_model.py,',
         '    dimod/quadratic/quadratic_model.py and dimod/constrained/expression.py — do not edit.',
         '',
         '    The body of every operator overload, partially evaluated per class of the operands and written as a program over',
         '    `Sym.Instr` (`a` = position of the left/only model operand, `b` = of the right one, `q` = the number operand,',
         '    `n` = first free position).  `…Result` is the position of the returned object. -/',
         'set_option linter.unusedVariables false', '', 'namespace Sym.Generated', '']
    fresh, inpl, refused = [], [], []
    for name, doc, ins, res, ip in ps:
        if ins is None:
            refused.append(name)
            continue
        L += [f'/-- {doc} -/', f'@[simp] def {name} (a b : Nat) (q : Rat) (n : Nat) : List Instr := [{", ".join(ins)}]',
              f'@[simp] def {name}Result (a b n : Nat) : Nat := {res}', '']
        writes_operand = any(i.split()[0] in ('.scale', '.update', '.addOffset') and not i.split()[1].lstrip('(').startswith('n') for i in ins)
        (inpl if ip and writes_operand else fresh).append(name)
    L += ['/-- the body of the inner loop of `QuadraticModel.__mul__` (the rest of the product block is literally the skeleton of',
          '    `Sym.qmMul`: `add_variable` loops, outer loop + `add_linear(u, ubias*other_offset)`, tail loop, offset) -/',
          'def qmMulStep (u v : Var) (acc : Model) : Except Err Model :=', '  ' + product_step('QM'), '',
          '/-- the body of the inner loop of `BinaryQuadraticModel.__mul__` (same-vartype branch), `selfvt` = `self.vartype` -/',
          'def bqmMulStep (selfvt : VT) (u v : Var) (acc : Model) : Except Err Model :=', '  ' + product_step('BQM'), '']
    L += ['/-- `__eq__` / `__ge__` / `__le__` as defined by the classes: (class, method, `Comparison` class built from `(self, other)` for a',
          '    Number operand, what is returned for any other operand).  A class without a row defines no such method (the expression views). -/',
          'def comparisons : List (String × String × String × String) :=',
          '  [' + ', '.join(f'("{c}", "{n}", "{k}", "{f}")' for c, n, k, f in comparison_rows()) + ']', '']
    nonin = [n for n, _d, ins, _r, ip in ps if ins is not None and not ip]
    have = {n for n, _d, ins, _r, _ip in ps if ins is not None}
    mk = ('bqm', 'qm', 'view')

    def group(names):
        names = [n for n in names if n in have]
        return '  [' + ',\n   '.join(f'({n} 0 1 q 2, {n}Result 0 1 2)' for n in names) + ']'

    def mm(op):
        return [f'{l}_{i}{op}_{r}{suf}' for l in mk for r in mk for i in ('', 'i')
                for suf in (('_same', '_differ') if l == r == 'bqm' else ('',))]
    groups = [('addForms', 'the SUM `x + y` of two model operands (every class pair, `+` and `+=`)', mm('add')),
              ('subForms', 'the DIFFERENCE `x - y` of two model operands (every class pair, `-` and `-=`)', mm('sub')),
              ('addNumForms', '`x + q` (`model + q`, `q + model`, `model += q`)',
               [f'{l}_{i}add_num' for l in mk for i in ('', 'i')] + [f'num_add_{l}' for l in mk]),
              ('subNumForms', '`x - q` (`model - q`, `model -= q`)', [f'{l}_{i}sub_num' for l in mk for i in ('', 'i')]),
              ('rsubNumForms', '`q - x` (`q - model`)', [f'num_sub_{l}' for l in mk]),
              ('scaleForms', '`q * x` (`model * q`, `q * model`, `model *= q`)',
               [f'{l}_{i}mul_num' for l in mk for i in ('', 'i')] + [f'num_mul_{l}' for l in mk]),
              ('negForms', '`-x`', [f'{l}_neg' for l in mk]),
              ('divForms', '`x / q` (`model / q`, `model /= q`)', [f'{l}_{i}truediv_num' for l in mk for i in ('', 'i')])]
    for gname, doc, names in groups:
        if not [n for n in names if n in have]:
            die(f'group {gname} is empty')
        L += [f'/-- the forms that are to compute {doc}, instantiated for a two-object store (operands at 0 and 1, first free', 
              '    position 2), each with the position of the object it returns -/',
              f'def {gname} (q : Rat) : List (List Instr × Nat) :=', group(names), '']
    L += ['/-- the bodies of all NON-in-place operator forms -/',
          'def nonInplace (a b : Nat) (q : Rat) (n : Nat) : List (List Instr) :=',
          '  [' + ',\n   '.join(f'{n} a b q n' for n in nonin) + ']', '',
          '/-- the in-place forms that fall back on the binary operator (`__iop__` returns NotImplemented): they rebind the name and',
          '    must not write to an operand either -/',
          'def inplaceFallback (a b : Nat) (q : Rat) (n : Nat) : List (List Instr) :=',
          '  [' + ',\n   '.join(f'{n} a b q n' for n in fresh if n not in nonin) + ']', '',
          '/-- the in-place forms that mutate their left operand -/',
          'def inplaceMutating (a b : Nat) (q : Rat) (n : Nat) : List (List Instr) :=',
          '  [' + ',\n   '.join(f'{n} a b q n' for n in inpl) + ']', '',
          '/-- operator forms that end in TypeError (no class accepts the pair) -/',
          'def refused : List String := [' + ', '.join(f'"{n}"' for n in refused) + ']', '',
          'end Sym.Generated', '']
    text = '\n'.join(L)
    old = open(OUT).read() if os.path.exists(OUT) else None
    if old != text:
        with open(OUT, 'w') as f:
            f.write(text)
        print('rewrote', OUT)
    else:
        print('unchanged', OUT)


if __name__ == '__main__':
    sys.setrecursionlimit(10000)
    main()
