"""Translator for C01: extract, from the dimod source of the build under test,

  * dimod/include/dimod/abc.h  QuadraticModelBase::energy : start value, loop bound, the `break` guard of the
    neighbourhood loop and the three factors of the accumulated term                                         (regex)
  * dimod/cyqmbase/cyqmbase_template.pyx.pxi  _energies : the `while … and deref(it).v <= ui` guard, the
    start value and the factors of the linear / quadratic accumulations                                      (regex)
  * dimod/sampleset.py  _sample_array : the candidate integer types and the fit test of the dtype choice     (regex)

and write lean/Generated/EnergyLoops.lean (only when the content changes).  The Lean loops that carry the C01 theorems
(`DimodModel/EnergyGen.lean`) are defined over these generated guards, and `DimodModel/AsSamplesForms.lean` picks the
sample dtype from the generated list, so a change of a guard / bound / candidate list changes the definitions the theorems
quantify over.  A shape the regexes do not recognise is a hard failure (exit 1): the check then reports the build as broken
and the harness keeps searching for a failing input.
"""
import os
import re
import sys

HERE = os.path.dirname(os.path.abspath(__file__))
VERIF = os.path.dirname(os.path.dirname(HERE))
OUT = os.path.join(VERIF, 'lean', 'Generated', 'EnergyLoops.lean')

OPS = {'>': '>', '>=': '≥', '<': '<', '<=': '≤', '==': '=', '!=': '≠'}


def src_root():
    import dimod
    return os.path.dirname(os.path.abspath(dimod.__file__))


def die(msg):
    print('translator c01_energy_loops: ' + msg)
    raise SystemExit(1)


def body_after(text, start_re, what):
    m = re.search(start_re, text)
    if not m:
        die(f'{what}: signature not found')
    i = text.index('{', m.end())
    depth, j = 0, i
    while True:
        if text[j] == '{':
            depth += 1
        elif text[j] == '}':
            depth -= 1
            if depth == 0:
                return text[i:j + 1]
        j += 1


def norm(s):
    return re.sub(r'\s+', ' ', s).strip()


def main():
    root = src_root()
    # ---------------------------------------------------------------- abc.h
    abc = open(os.path.join(root, 'include', 'dimod', 'abc.h')).read()
    body = body_after(abc, r'QuadraticModelBase<bias_type,\s*index_type>::energy\(Iter sample_start\)\s*const', 'abc.h energy')
    m = re.search(r'bias_type\s+en\s*=\s*([^;]+);', body)
    if not m or norm(m.group(1)) != 'offset()':
        die(f'abc.h energy: start value is not offset(): {m and m.group(1)!r}')
    m = re.search(r'for\s*\(index_type u = (\d+);\s*static_cast<size_type>\(u\)\s*(<=|<)\s*num_variables\(\);\s*\+\+u\)', body)
    if not m:
        die('abc.h energy: outer loop header not recognised')
    cpp_start, cpp_bound_op = int(m.group(1)), m.group(2)
    m = re.search(r'en\s*\+=\s*u_val\s*\*\s*linear\(u\);', body)
    if not m or not re.search(r'auto\s+u_val\s*=\s*\*\(sample_start\s*\+\s*u\);', body):
        die('abc.h energy: linear accumulation not recognised')
    m = re.search(r'if\s*\(term\.v\s*(>=|<=|==|!=|>|<)\s*u\)\s*break;', body)
    if not m:
        die('abc.h energy: break guard not recognised')
    cpp_break = m.group(1)
    m = re.search(r'if\s*\(term\.v[^)]*\)\s*break;\s*en\s*\+=\s*term\.bias\s*\*\s*u_val\s*\*\s*\*\(sample_start\s*\+\s*term\.v\);', body)
    if not m:
        die('abc.h energy: quadratic accumulation (after the guard) not recognised')
    m = re.search(r'en\s*\+=\s*\*sample_start\s*\*\s*\*it;', body)
    if not m:
        die('abc.h energy: linear-only branch not recognised')
    # ---------------------------------------------------------------- cyqmbase
    pxi = open(os.path.join(root, 'cyqmbase', 'cyqmbase_template.pyx.pxi')).read()
    i = pxi.index('def _energies(')
    j = pxi.index('\n    def ', i + 10)
    cy = pxi[i:j]
    m = re.search(r'while\s+it\s*!=\s*end\s+and\s+deref\(it\)\.v\s*(>=|<=|==|!=|>|<)\s*ui\s*:', cy)
    if not m:
        die('cyqmbase _energies: while guard not recognised')
    cy_cont = m.group(1)
    if not re.search(r'energies\[si\]\s*=\s*self\.base\.offset\(\)', cy):
        die('cyqmbase _energies: start value not recognised')
    if not re.search(r'for ui in range\(self\.num_variables\(\)\):', cy):
        die('cyqmbase _energies: outer loop not recognised')
    if not re.search(r'energies\[si\]\s*\+=\s*self\.base\.linear\(ui\)\s*\*\s*samples\[si,\s*qm_to_sample\[ui\]\]', cy):
        die('cyqmbase _energies: linear accumulation not recognised')
    if not re.search(r'energies\[si\]\s*\+=\s*deref\(it\)\.bias\s*\*\s*samples\[si,\s*qm_to_sample\[ui\]\]\s*\*\s*samples\[si,\s*qm_to_sample\[vi\]\]', cy) \
            or not re.search(r'vi\s*=\s*deref\(it\)\.v', cy):
        die('cyqmbase _energies: quadratic accumulation not recognised')
    if not re.search(r'qm_to_sample\[si\]\s*=\s*labels\.index\(self\.variables\.at\(si\)\)', cy):
        die('cyqmbase _energies: qm_to_sample not recognised')
    # ---------------------------------------------------------------- sampleset._sample_array
    ss = open(os.path.join(root, 'sampleset.py')).read()
    i = ss.index('def _sample_array(')
    j = ss.index('\ndef ', i + 10) if '\ndef ' in ss[i + 10:] else len(ss)
    sa = ss[i:min(j, i + 4000)]
    m = re.search(r'max_\s*=\s*max\(-(?:int\()?arr\.min\(initial=0\)\)?,\s*\+?(?:int\()?arr\.max\(initial=0\)\)?\)', sa)
    if not m:
        die('_sample_array: max_ not recognised')
    # the `except StopIteration` branch: plain ValueError, or (fix of D-r7b1) int64 arrays keep their type
    m = re.search(r'except StopIteration:\s*\n(.*?)\n\s*\n', sa, re.S)
    if not m:
        die('_sample_array: except branch not recognised')
    exc = norm(m.group(1))
    if re.fullmatch(r"raise ValueError\('[^']*'\)", exc):
        keeps = False
    elif re.fullmatch(r"if arr\.dtype != np\.int64: raise ValueError\('[^']*'\) dtype = np\.int64( #.*)?", exc):
        keeps = True
    else:
        die(f'_sample_array: except branch not recognised: {exc!r}')
    m = re.search(r'next\(tp for tp in \(([^)]*)\)\s*if max_\s*(<=|<)\s*np\.iinfo\(tp\)\.(max|min)\)', sa)
    if not m:
        die('_sample_array: dtype choice not recognised')
    tps = [t.strip() for t in m.group(1).split(',') if t.strip()]
    widths = []
    for t in tps:
        mm = re.fullmatch(r'np\.int(8|16|32|64)', t)
        if not mm:
            die(f'_sample_array: candidate type {t!r} not a signed integer type')
        widths.append(int(mm.group(1)))
    fit_op, fit_end = m.group(2), m.group(3)
    bound = '2 ^ (w - 1) - 1' if fit_end == 'max' else '-(2 ^ (w - 1))'
    if not re.search(r'arr\s*=\s*np\.asarray\(arr,\s*dtype=dtype\)', sa):
        die('_sample_array: cast not recognised')
    bound_op = {'<': '<', '<=': '≤'}[cpp_bound_op]
    text = f'''/-! GENERATED by harness/translators/c01_energy_loops.py from the dimod source of the build under test.
    Do not edit: rewritten (when the source changes) by every run of `./check C01`.
    Guards and bounds of the energy loops, candidate types of the sample dtype choice. -/

namespace Generated.EnergyLoops

/-- abc.h `QuadraticModelBase::energy`: `for (index_type u = {cpp_start}; u {cpp_bound_op} num_variables(); ++u)` -/
def cppFirst : Nat := {cpp_start}
def cppInBounds (u n : Nat) : Bool := decide (u {bound_op} n)

/-- abc.h `QuadraticModelBase::energy`: `if (term.v {cpp_break} u) break;` -/
def cppBreak (v u : Nat) : Bool := decide (v {OPS[cpp_break]} u)

/-- cyqmbase `_energies`: `while it != end and deref(it).v {cy_cont} ui:` -/
def cyContinue (v u : Nat) : Bool := decide (v {OPS[cy_cont]} u)

/-- sampleset.py `_sample_array`: `next(tp for tp in ({", ".join(tps)}) if max_ {fit_op} np.iinfo(tp).{fit_end})` -/
def sampleWidths : List Nat := [{", ".join(map(str, widths))}]
def sampleFits (mx : Int) (w : Nat) : Bool := decide (mx {OPS[fit_op]} {bound})

/-- sampleset.py `_sample_array`, `except StopIteration`: {"an array that already is int64 keeps its type" if keeps else "always ValueError"} -/
def sampleKeepsInt64 : Bool := {"true" if keeps else "false"}

end Generated.EnergyLoops
'''
    old = open(OUT).read() if os.path.exists(OUT) else None
    print(f'abc.h energy: u from {cpp_start} while u {cpp_bound_op} n, break when term.v {cpp_break} u; '
          f'cy _energies: continue while v {cy_cont} ui; _sample_array: {tps} if max_ {fit_op} iinfo.{fit_end}, int64 kept when nothing fits: {keeps}')
    if old != text:
        with open(OUT, 'w') as f:
            f.write(text)
        print('wrote', OUT)


if __name__ == '__main__':
    main()
