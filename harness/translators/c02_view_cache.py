"""Translator for C02 (round 8): the cache logic of `BinaryQuadraticModel.binary` / `.spin` and `VartypeView.change_vartype`,
from the source of the build under test (ast on dimod/binary/binary_quadratic_model.py and dimod/binary/vartypeview.py):

  * the early return `if self.vartype is Vartype.X: return self`
  * the cache attribute read in the `try` (`self._binary` / `self._spin`) and whether the cached object is returned only after the
    test `bqm.vartype is Vartype.X`  (-> `checksCachedVartype`)
  * the new object's data: `VartypeView(self.data, Vartype.X)`  (stacked on the caller's data OBJECT -> `stacksOnCallerData`)
  * the two cache links `bqm._other = self`, `self._x = bqm`  (-> `linksBack`, `cachesNew`)
  * `VartypeView.change_vartype`: `self._vartype = as_vartype(vartype)` and nothing else (-> `viewRetypeOnly`)

and write lean/Generated/ViewCache.lean (only when the content changes).  `DimodModel/ViewHeap.lean` defines `getView` / `stack` /
`changeVartype` over these flags, and `C02.view_property_returns_requested_vartype` / `held_view_shows_current_model` hold for the
values the present source yields; another shape is a hard failure (exit 1) or another flag value (proof breaks), and
`case_view_graph` then looks for the object that shows another vartype / another model than it reports.
"""
import ast
import os
import sys

HERE = os.path.dirname(os.path.abspath(__file__))
VERIF = os.path.dirname(os.path.dirname(HERE))
OUT = os.path.join(VERIF, 'lean', 'Generated', 'ViewCache.lean')


def die(msg):
    print('translator c02_view_cache: ' + msg)
    raise SystemExit(1)


def strip_doc(body):
    return body[1:] if body and isinstance(body[0], ast.Expr) and isinstance(getattr(body[0], 'value', None), ast.Constant) else body


def analyse(fn, me, other):
    """`me` = 'BINARY' for the `binary` property; returns the flags of this property"""
    body = strip_doc(fn.body)
    src = [ast.unparse(s) for s in body]
    if not src or src[0] != f'if self.vartype is Vartype.{me}:\n    return self':
        die(f'{fn.name}: early return not recognised: {src[:1]}')
    tr = next((s for s in body if isinstance(s, ast.Try)), None)
    if tr is None:
        die(f'{fn.name}: no try block')
    if [ast.unparse(s) for s in tr.body] != [f'bqm = self._{me.lower()}']:
        die(f'{fn.name}: cache read not recognised: {[ast.unparse(s) for s in tr.body]}')
    if len(tr.handlers) != 1 or ast.unparse(tr.handlers[0].type) != 'AttributeError' or [ast.unparse(s) for s in tr.handlers[0].body] != ['pass']:
        die(f'{fn.name}: except clause not recognised')
    els = [ast.unparse(s) for s in tr.orelse]
    if els == [f'if bqm.vartype is Vartype.{me}:\n    return bqm']:
        checks = True
    elif els == ['return bqm']:
        checks = False
    else:
        die(f'{fn.name}: else clause not recognised: {els}')
    rest = src[src.index(ast.unparse(tr)) + 1:]
    if rest[:1] != ['bqm = type(self).__new__(type(self))'] or rest[-1:] != ['return bqm']:
        die(f'{fn.name}: construction not recognised: {rest}')
    mid = rest[1:-1]
    stacks = f'bqm.data = VartypeView(self.data, Vartype.{me})' in mid
    if not stacks:
        die(f'{fn.name}: the new data is not VartypeView(self.data, Vartype.{me}): {mid}')
    links = f'bqm._{other.lower()} = self' in mid
    caches = any(s.startswith(f'self._{me.lower()}') and s.endswith('= bqm') for s in mid)
    extra = [s for s in mid if s not in (f'bqm.data = VartypeView(self.data, Vartype.{me})', f'bqm._{other.lower()} = self')
             and not (s.startswith(f'self._{me.lower()}') and s.endswith('= bqm'))]
    if extra:
        die(f'{fn.name}: unexpected statements {extra}')
    return checks, links, caches


def main():
    import dimod
    root = os.path.dirname(os.path.abspath(dimod.__file__))
    tree = ast.parse(open(os.path.join(root, 'binary', 'binary_quadratic_model.py')).read())
    cls = next(n for n in tree.body if isinstance(n, ast.ClassDef) and n.name == 'BinaryQuadraticModel')
    fns = {n.name: n for n in cls.body if isinstance(n, ast.FunctionDef) and n.name in ('binary', 'spin', 'vartype', 'change_vartype')}
    for k in ('binary', 'spin', 'vartype', 'change_vartype'):
        if k not in fns:
            die(f'BinaryQuadraticModel.{k} not found')
    fb = analyse(fns['binary'], 'BINARY', 'SPIN')
    fs = analyse(fns['spin'], 'SPIN', 'BINARY')
    if fb != fs:
        die(f'the two properties differ: binary {fb}, spin {fs}')
    if [ast.unparse(s) for s in strip_doc(fns['vartype'].body)] != ['return self.data.vartype()']:
        die('BinaryQuadraticModel.vartype is not `self.data.vartype()`')
    cv = [ast.unparse(s) for s in strip_doc(fns['change_vartype'].body)]
    if cv != ['if not inplace:\n    return self.copy().change_vartype(vartype, inplace=True)', 'self.data.change_vartype(vartype)', 'return self']:
        die(f'BinaryQuadraticModel.change_vartype not recognised: {cv}')
    vtree = ast.parse(open(os.path.join(root, 'binary', 'vartypeview.py')).read())
    vcls = next(n for n in vtree.body if isinstance(n, ast.ClassDef) and n.name == 'VartypeView')
    vf = {n.name: n for n in vcls.body if isinstance(n, ast.FunctionDef)}
    init = [ast.unparse(s) for s in strip_doc(vf['__init__'].body)]
    if init != ['self.data = data', 'self._vartype = vartype']:
        die(f'VartypeView.__init__ not recognised: {init}')
    vcv = [ast.unparse(s) for s in strip_doc(vf['change_vartype'].body)]
    retype_only = vcv == ['self._vartype = as_vartype(vartype)']
    if not retype_only:
        die(f'VartypeView.change_vartype not recognised: {vcv}')
    vt = [ast.unparse(s) for s in strip_doc(vf['vartype'].body)] if 'vartype' in vf else None
    if vt != ['return self._vartype']:
        die(f'VartypeView.vartype not recognised: {vt}')
    b = lambda x: 'true' if x else 'false'  # noqa
    out = f'''/-! GENERATED by harness/translators/c02_view_cache.py from dimod/binary/binary_quadratic_model.py and
    dimod/binary/vartypeview.py of the build under test.  Do not edit: rewritten (when the source changes) by every run of `./check C02`.
    The cache logic of `BinaryQuadraticModel.binary` / `.spin` (both properties have the same shape) and `VartypeView.change_vartype`. -/

namespace Generated.ViewCache

/-- `else: if bqm.vartype is Vartype.X: return bqm` — the cached object is returned only if it still has the requested vartype -/
def checksCachedVartype : Bool := {b(fb[0])}

/-- `bqm._other = self` on the new object -/
def linksBack : Bool := {b(fb[1])}

/-- `self._x = bqm` -/
def cachesNew : Bool := {b(fb[2])}

/-- `VartypeView.change_vartype`: `self._vartype = as_vartype(vartype)`, nothing else -/
def viewRetypeOnly : Bool := {b(retype_only)}

end Generated.ViewCache
'''
    old = open(OUT).read() if os.path.exists(OUT) else None
    if old != out:
        with open(OUT, 'w') as f:
            f.write(out)
        print('translator c02_view_cache: wrote', OUT)
    return 0


if __name__ == '__main__':
    sys.exit(main())
